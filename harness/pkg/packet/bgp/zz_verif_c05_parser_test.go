package bgp_test

// C05 — no byte string can crash, hang or over-read the BGP message parser; whatever it returns can be
// rendered, measured and re-serialised; the caller's buffer is left alone.
// E-SEQ with crash oracles: (1) every byte string up to a length bound at every entry point, (2) a
// structured attribute space, (3) every single-position mutation / truncation / length-field fault of
// every single-element message of the bgpgen catalogue (thorough: pairs length-field fault x byte fault),
// all under the marshalling-option combinations; (4) a single-threaded allocation pass.
//
// External test package (bgpgen imports bgp); only exported API is needed.

import (
	"bytes"
	"encoding/binary"
	"encoding/hex"
	"encoding/json"
	"fmt"
	"os"
	"runtime"
	"strings"
	"sync"
	"sync/atomic"
	"testing"
	"time"

	"github.com/osrg/gobgp/v4/internal/verif/bgpgen"
	"github.com/osrg/gobgp/v4/internal/verif/refwire"
	"github.com/osrg/gobgp/v4/internal/verif/vr"
	"github.com/osrg/gobgp/v4/pkg/packet/bgp"
)

// ---------------------------------------------------------------------------------------------
// case description / replay

const (
	c05Message  = "message"        // bgp.ParseBGPMessage(input)
	c05Body     = "body"           // bgp.ParseBGPBody(&BGPHeader{Len: 19+len(input), Type: HType}, input)
	c05Attr     = "attr"           // bgp.GetPathAttribute(input) + DecodeFromBytes(input)
	c05AttrInUp = "attr-in-update" // input wrapped as the only attribute of an UPDATE body, through ParseBGPBody
	c05NLRI     = "nlri"           // bgp.NLRIFromSlice(family, input)
	c05Cap      = "cap"            // bgp.DecodeCapability(input)
)

type c05Case struct {
	Entry string `json:"entry"`
	Opt   string `json:"opt"`
	Fam   string `json:"family,omitempty"`
	HType int    `json:"header_type,omitempty"`
	Hex   string `json:"hex"`
	Note  string `json:"note,omitempty"` // seed + mutation, informational
}

type c05Probe struct {
	r              *vr.Report
	entry          string
	o              bgpgen.OptSet
	fam            bgp.Family
	htype          uint8
	note           string
	seed           string   // catalogue name of the seed (mutation spaces)
	mut            string   // mutation applied
	pair           [4]int   // thorough pairs: length-field offset, value, byte offset, value
	slot           *c05Slot // progress slot for the hang watchdog (may be nil)
	outRej, outAcc string
	hdr            bgp.BGPHeader
	bufs           [9][]byte
}

func (p *c05Probe) cs(in []byte) c05Case {
	c := c05Case{Entry: p.entry, Opt: p.o.Name, Hex: hex.EncodeToString(in), Note: p.note}
	if p.seed != "" {
		c.Note = p.seed + " " + p.mut
		if p.mut == "" && p.pair[0] >= 0 && p.pair != [4]int{} {
			c.Note = fmt.Sprintf("%s len-field@%d=%d byte[%d]=%#02x", p.seed, p.pair[0], p.pair[1], p.pair[2], p.pair[3])
		} else if p.mut == "" && p.pair[0] < 0 {
			c.Note = fmt.Sprintf("%s byte[%d]=%#02x", p.seed, p.pair[2], p.pair[3])
		}
	}
	if p.entry == c05NLRI {
		c.Fam = p.fam.String()
	}
	if p.entry == c05Body {
		c.HType = int(p.htype)
	}
	return c
}

// ---------------------------------------------------------------------------------------------
// panic capture

type c05PanicInfo struct {
	Site string // file.go:Func of the top-most frame inside package bgp
	Line int
	Msg  string
}

func (p c05PanicInfo) Key() string {
	// message class without numbers / addresses
	m := p.Msg
	switch {
	case strings.Contains(m, "nil pointer dereference"):
		m = "nil-deref"
	case strings.Contains(m, "slice bounds out of range"):
		m = "slice-bounds"
	case strings.Contains(m, "index out of range"):
		m = "index-range"
	case strings.Contains(m, "makeslice"):
		m = "makeslice"
	case strings.Contains(m, "interface conversion"):
		m = "interface-conversion"
	case strings.Contains(m, "divide by zero"):
		m = "div-zero"
	default:
		if len(m) > 40 {
			m = m[:40]
		}
	}
	return p.Site + ":" + m
}

func (p c05PanicInfo) String() string { return fmt.Sprintf("%s (line %d): %s", p.Site, p.Line, p.Msg) }

// c05Catch must be called directly from a deferred function literal.
func c05Catch(rec any) *c05PanicInfo {
	pc := make([]uintptr, 96)
	n := runtime.Callers(2, pc)
	fr := runtime.CallersFrames(pc[:n])
	info := &c05PanicInfo{Site: "outside-bgp-package", Msg: fmt.Sprint(rec)}
	for {
		f, more := fr.Next()
		if i := strings.LastIndex(f.Function, "/pkg/packet/bgp."); i >= 0 && !strings.Contains(f.Function, "/pkg/packet/bgp_test.") {
			info.Site = f.File[strings.LastIndex(f.File, "/")+1:] + ":" + f.Function[i+len("/pkg/packet/bgp."):]
			info.Line = f.Line
			break
		}
		if !more {
			break
		}
	}
	return info
}

func c05Try(f func()) (pi *c05PanicInfo) {
	defer func() {
		if rec := recover(); rec != nil {
			pi = c05Catch(rec)
		}
	}()
	f()
	return nil
}

// ---------------------------------------------------------------------------------------------
// hang watchdog: a single case that makes no progress for two minutes of wall clock is a hang (inputs
// are at most a few KiB; a normal case takes microseconds). The watchdog writes its own report and
// terminates the process, because a hung goroutine cannot be stopped.

type c05Cur struct {
	p  *c05Probe
	in []byte
}

// The worker overwrites p/in without synchronisation; the watchdog reads them only after the counter has
// not moved for two minutes, i.e. when the worker is stuck inside one call and the fields are stable.
type c05Slot struct {
	n    atomic.Uint64
	busy atomic.Bool
	p    *c05Probe
	in   []byte
	_    [40]byte // keep the slots of different workers off one cache line
}

func c05Watchdog(t *testing.T, slots []*c05Slot, done <-chan struct{}) {
	last := make([]uint64, len(slots))
	stuck := make([]int, len(slots))
	for {
		select {
		case <-done:
			return
		case <-time.After(10 * time.Second):
		}
		for i, s := range slots {
			n := s.n.Load()
			c := &c05Cur{s.p, s.in}
			if n == last[i] && s.busy.Load() {
				stuck[i]++
			} else {
				stuck[i] = 0
			}
			last[i] = n
			if stuck[i] >= 12 {
				cc := c.p.cs(c.in)
				c := &cc
				r := vr.Start(t, "C05", os.Getenv("C05_PART"))
				r.Rule = "hang watchdog"
				r.Eval()
				r.NT("hang")
				r.NT("hang2")
				c05V(r, "C05:hang:"+c.Entry, *c, "no progress for 120 s on one input: entry %s options %s input %s", c.Entry, c.Opt, c.Hex)
				r.Finish()
				os.Exit(1)
			}
		}
	}
}

// ---------------------------------------------------------------------------------------------
// rendering of returned values

func c05Swallowed(s string) bool { return strings.Contains(s, "(PANIC=") }

type c05Renderer struct {
	p   *c05Probe
	in  []byte
	bad bool
}

// A value left half-initialised by its decoder panics in several of its methods; the key of a rendering
// panic is therefore the rendered type and the panic class (one root cause, one key), the method and
// line are in the text.
func (x *c05Renderer) fail(what string, v any, pi *c05PanicInfo) {
	x.bad = true
	cls := pi.Key()
	cls = cls[strings.LastIndex(cls, ":")+1:]
	c05V(x.p.r, "C05:panic:render:"+c05TypeName(v)+":"+cls, x.p.cs(x.in), "%s on the %T returned by %s [%s] for input %s panics: %s", what, v, x.p.entry, x.p.o.Name, c05Hex(x.in), pi)
}

func (x *c05Renderer) str(v interface{ String() string }) {
	var s string
	if pi := c05Try(func() { s = v.String() }); pi != nil {
		x.fail("String()", v, pi)
		return
	}
	if c05Swallowed(s) {
		x.bad = true
		c05V(x.p.r, "C05:panic-swallowed-by-fmt:String:"+c05TypeName(v), x.p.cs(x.in), "String() of the %T returned by %s [%s] for input %s hides a panic: %.300s", v, x.p.entry, x.p.o.Name, c05Hex(x.in), s)
	}
}

func (x *c05Renderer) json(v any) {
	var b []byte
	if pi := c05Try(func() { b, _ = json.Marshal(v) }); pi != nil {
		x.fail("json.Marshal", v, pi)
		return
	}
	if c05Swallowed(string(b)) {
		x.bad = true
		c05V(x.p.r, "C05:panic-swallowed-by-fmt:JSON:"+c05TypeName(v), x.p.cs(x.in), "JSON of the %T returned by %s [%s] for input %s hides a panic: %.300s", v, x.p.entry, x.p.o.Name, c05Hex(x.in), b)
	}
}

func c05TypeName(v any) string { return strings.TrimPrefix(fmt.Sprintf("%T", v), "*bgp.") }

func (x *c05Renderer) attr(a bgp.PathAttributeInterface) {
	// MP_REACH / MP_UNREACH: a defect of a carried NLRI is reported for the NLRI type, once
	var carried []bgp.PathNLRI
	switch t := a.(type) {
	case *bgp.PathAttributeMpReachNLRI:
		carried = t.Value
	case *bgp.PathAttributeMpUnreachNLRI:
		carried = t.Value
	}
	was := x.bad
	x.bad = false
	for _, n := range carried {
		x.nlri(n.NLRI)
	}
	if x.bad {
		return
	}
	x.bad = was
	x.str(a)
	x.json(a)
	if pi := c05Try(func() { _ = a.Len(x.p.o.Opts...) }); pi != nil {
		x.fail("Len()", a, pi)
	}
	if pi := c05Try(func() { _, _ = a.Serialize(x.p.o.Opts...) }); pi != nil {
		x.fail("Serialize()", a, pi)
	}
}

func (x *c05Renderer) nlri(n bgp.NLRI) {
	x.str(n)
	x.json(n)
	if pi := c05Try(func() { _ = n.Len(x.p.o.Opts...) }); pi != nil {
		x.fail("Len()", n, pi)
	}
	if pi := c05Try(func() { _, _ = n.Serialize(x.p.o.Opts...) }); pi != nil {
		x.fail("Serialize()", n, pi)
	}
}

func (x *c05Renderer) cap(c bgp.ParameterCapabilityInterface) {
	x.json(c)
	if pi := c05Try(func() { _ = c.Len() }); pi != nil {
		x.fail("Len()", c, pi)
	}
	if pi := c05Try(func() { _, _ = c.Serialize() }); pi != nil {
		x.fail("Serialize()", c, pi)
	}
}

// msg renders a message and returns its re-serialisation (nil on error / panic). String() and Len() are
// called on every element; json.Marshal and Serialize are called on the whole message (which calls the
// elements' MarshalJSON / Serialize) and, only if that panics, on each element to name the culprit.
func (x *c05Renderer) msg(m *bgp.BGPMessage) []byte {
	if m == nil || m.Body == nil {
		return nil
	}
	elements := func(full bool) {
		switch b := m.Body.(type) {
		case *bgp.BGPUpdate:
			for _, a := range b.PathAttributes {
				if full {
					x.attr(a)
					continue
				}
				x.str(a)
				if pi := c05Try(func() { _ = a.Len(x.p.o.Opts...) }); pi != nil {
					x.fail("Len()", a, pi)
				}
			}
			for _, l := range [][]bgp.PathNLRI{b.NLRI, b.WithdrawnRoutes} {
				for _, n := range l {
					if full {
						x.nlri(n.NLRI)
						continue
					}
					x.str(n)
					if pi := c05Try(func() { _ = n.NLRI.Len(x.p.o.Opts...) }); pi != nil {
						x.fail("Len()", n.NLRI, pi)
					}
				}
			}
		case *bgp.BGPOpen:
			for _, p := range b.OptParams {
				if pc, ok := p.(*bgp.OptionParameterCapability); ok {
					for _, c := range pc.Capability {
						if full {
							x.cap(c)
						} else if pi := c05Try(func() { _ = c.Len() }); pi != nil {
							x.fail("Len()", c, pi)
						}
					}
				}
			}
		}
	}
	elements(false)
	var out []byte
	pj := c05Try(func() {
		b, _ := json.Marshal(m)
		if c05Swallowed(string(b)) {
			x.bad = true
			c05V(x.p.r, "C05:panic-swallowed-by-fmt:JSON:BGPMessage", x.p.cs(x.in), "JSON of the message returned by %s [%s] for input %s hides a panic: %.300s", x.p.entry, x.p.o.Name, c05Hex(x.in), b)
		}
	})
	ps := c05Try(func() { out, _ = m.Serialize(x.p.o.Opts...) })
	if pj != nil || ps != nil {
		before := x.bad
		x.bad = false
		elements(true)
		if !x.bad { // no single element reproduces it: report at the message level
			if pj != nil {
				x.fail("json.Marshal", m, pj)
			}
			if ps != nil {
				x.fail("Serialize()", m, ps)
			}
		}
		x.bad = x.bad || before || true
		return nil
	}
	return out
}

func c05Hex(b []byte) string {
	if len(b) > 160 {
		return hex.EncodeToString(b[:160]) + fmt.Sprintf("...(%d bytes)", len(b))
	}
	return hex.EncodeToString(b)
}

// c05NonFatal: the error classes with which the daemon goes on to use the returned UPDATE
// (pkg/server/fsm.go handlingError: attribute discard and treat-as-withdraw).
func c05NonFatal(m *bgp.BGPMessage, err error) bool {
	me, ok := err.(*bgp.MessageError)
	if !ok || m == nil || m.Header.Type != bgp.BGP_MSG_UPDATE {
		return false
	}
	return me.ErrorHandling == bgp.ERROR_HANDLING_ATTRIBUTE_DISCARD || me.ErrorHandling == bgp.ERROR_HANDLING_TREAT_AS_WITHDRAW || me.ErrorHandling == bgp.ERROR_HANDLING_NONE
}

// ---------------------------------------------------------------------------------------------
// the probe: one input at one entry point under one option set

func c05WrapAttr(in []byte) []byte {
	b := make([]byte, 4, 4+len(in))
	binary.BigEndian.PutUint16(b[2:], uint16(len(in)))
	return append(b, in...)
}

// call wrappers with an open-coded recover (no closure allocation on the hot path)
func (p *c05Probe) callMessage(in []byte) (m *bgp.BGPMessage, err error, pi *c05PanicInfo) {
	defer func() {
		if rec := recover(); rec != nil {
			pi = c05Catch(rec)
		}
	}()
	m, err = bgp.ParseBGPMessage(in, p.o.Opts...)
	return
}

func (p *c05Probe) callBody(typ uint8, in []byte) (m *bgp.BGPMessage, err error, pi *c05PanicInfo) {
	defer func() {
		if rec := recover(); rec != nil {
			pi = c05Catch(rec)
		}
	}()
	p.hdr = bgp.BGPHeader{Len: uint16(bgp.BGP_HEADER_LENGTH + len(in)), Type: typ}
	m, err = bgp.ParseBGPBody(&p.hdr, in, p.o.Opts...)
	return
}

func (p *c05Probe) callAttr(in []byte) (a bgp.PathAttributeInterface, err error, pi *c05PanicInfo) {
	defer func() {
		if rec := recover(); rec != nil {
			pi = c05Catch(rec)
		}
	}()
	a, err = bgp.GetPathAttribute(in)
	if err == nil {
		err = a.DecodeFromBytes(in, p.o.Opts...)
	}
	return
}

func (p *c05Probe) callNLRI(in []byte) (n bgp.NLRI, err error, pi *c05PanicInfo) {
	defer func() {
		if rec := recover(); rec != nil {
			pi = c05Catch(rec)
		}
	}()
	n, err = bgp.NLRIFromSlice(p.fam, in, p.o.Opts...)
	return
}

func (p *c05Probe) callCap(in []byte) (c bgp.ParameterCapabilityInterface, err error, pi *c05PanicInfo) {
	defer func() {
		if rec := recover(); rec != nil {
			pi = c05Catch(rec)
		}
	}()
	c, err = bgp.DecodeCapability(in)
	return
}

// exactBuf returns a buffer of exactly n bytes (cap == len). Short buffers are reused per probe: the values
// decoded from the previous case are no longer referenced when the next case starts.
func (p *c05Probe) exactBuf(n int) []byte {
	if n < len(p.bufs) {
		if p.bufs[n] == nil {
			p.bufs[n] = make([]byte, n)
		}
		return p.bufs[n]
	}
	return make([]byte, n)
}

// Run evaluates every oracle clause on one input. exact is a private copy of the input whose capacity
// equals its length, so that any re-slicing beyond the input panics instead of silently over-reading.
func (p *c05Probe) Run(input []byte) {
	r := p.r
	r.Eval()
	exact := p.exactBuf(len(input))
	copy(exact, input)
	keep := input // owned by the enumerator, never handed to the parser: the reference copy
	if p.slot != nil {
		p.slot.p, p.slot.in = p, keep
		p.slot.n.Add(1)
	}
	var x *c05Renderer
	var perr error
	var pi *c05PanicInfo
	if p.outRej == "" {
		p.outRej = p.entry + ":rejected"
		if p.entry == c05NLRI {
			p.outRej = "nlri:rejected:" + p.fam.String()
			p.outAcc = "nlri:accepted:" + p.fam.String()
		}
	}
	outcome := p.outRej
	switch p.entry {
	case c05Message, c05Body, c05AttrInUp:
		var m *bgp.BGPMessage
		switch p.entry {
		case c05Message:
			m, perr, pi = p.callMessage(exact)
		case c05Body:
			m, perr, pi = p.callBody(p.htype, exact)
		case c05AttrInUp:
			exact = c05WrapAttr(input)
			keep = append([]byte{}, exact...)
			if p.slot != nil {
				p.slot.in = keep
			}
			m, perr, pi = p.callBody(bgp.BGP_MSG_UPDATE, exact)
		}
		if pi != nil {
			c05V(r, "C05:panic:"+pi.Key(), p.cs(keep), "%s [%s] panics on input %s: %s", p.entry, p.o.Name, c05Hex(keep), pi)
			return
		}
		if perr != nil && m != nil && !c05NonFatal(m, perr) {
			outcome = p.entry + ":rejected(value returned with a fatal error; not rendered)"
		}
		if m != nil && (perr == nil || c05NonFatal(m, perr)) {
			x = &c05Renderer{p: p, in: keep}
			out := x.msg(m)
			if perr == nil {
				outcome = fmt.Sprintf("%s:accepted:type%d", p.entry, m.Header.Type)
			} else {
				outcome = fmt.Sprintf("%s:returned-with-nonfatal-error:handling%d", p.entry, perr.(*bgp.MessageError).ErrorHandling)
			}
			if !x.bad {
				r.NT(outcome + ":" + c05Shape(m))
			}
			// trailing bytes in the caller's buffer beyond the declared message must not influence the result
			if p.entry == c05Message && !x.bad {
				p.guard(keep, perr, out)
			}
		}
	case c05Attr:
		var a bgp.PathAttributeInterface
		a, perr, pi = p.callAttr(exact)
		if pi != nil {
			c05V(r, "C05:panic:"+pi.Key(), p.cs(keep), "attribute decode [%s] panics on input %s: %s", p.o.Name, c05Hex(keep), pi)
			return
		}
		if perr == nil {
			x = &c05Renderer{p: p, in: keep}
			x.attr(a)
			outcome = fmt.Sprintf("attr:accepted:type%d", a.GetType())
			if !x.bad {
				r.NT(fmt.Sprintf("attr:%d:%x", a.GetType(), c05Digest(keep)))
			}
		}
	case c05NLRI:
		var n bgp.NLRI
		n, perr, pi = p.callNLRI(exact)
		if pi != nil {
			c05V(r, "C05:panic:"+pi.Key(), p.cs(keep), "NLRIFromSlice(%s) [%s] panics on input %s: %s", p.fam, p.o.Name, c05Hex(keep), pi)
			return
		}
		if perr == nil && n != nil {
			x = &c05Renderer{p: p, in: keep}
			x.nlri(n)
			outcome = p.outAcc
			if !x.bad {
				k := keep
				if len(k) > 2 {
					k = k[:2]
				}
				r.NT(fmt.Sprintf("nlri:%s:%x", p.fam, k))
			}
		}
	case c05Cap:
		var c bgp.ParameterCapabilityInterface
		c, perr, pi = p.callCap(exact)
		if pi != nil {
			c05V(r, "C05:panic:"+pi.Key(), p.cs(keep), "DecodeCapability panics on input %s: %s", c05Hex(keep), pi)
			return
		}
		if perr == nil && c != nil {
			x = &c05Renderer{p: p, in: keep}
			x.cap(c)
			outcome = fmt.Sprintf("cap:accepted:code%d", c.Code())
			if !x.bad {
				r.NT(fmt.Sprintf("cap:%x", keep[:2]))
			}
		}
	}
	r.Outcome(outcome)
	if !bytes.Equal(exact, keep) {
		i := 0
		for i < len(keep) && exact[i] == keep[i] {
			i++
		}
		c05V(r, "C05:input-buffer-modified:"+p.entry, p.cs(keep), "%s [%s] modified the caller's buffer at offset %d: before %s after %s", p.entry, p.o.Name, i, c05Hex(keep), c05Hex(exact))
	}
}

// c05Shape: structural signature of a returned message (attribute types, element counts, capability
// codes): the unit in which distinct non-trivial cases are counted.
func c05Shape(m *bgp.BGPMessage) string {
	var sb strings.Builder
	switch b := m.Body.(type) {
	case *bgp.BGPUpdate:
		fmt.Fprintf(&sb, "w%d n%d a", len(b.WithdrawnRoutes), len(b.NLRI))
		for _, a := range b.PathAttributes {
			fmt.Fprintf(&sb, "%d,", a.GetType())
			switch t := a.(type) {
			case *bgp.PathAttributeMpReachNLRI:
				fmt.Fprintf(&sb, "(%d/%d:%d)", t.AFI, t.SAFI, len(t.Value))
			case *bgp.PathAttributeMpUnreachNLRI:
				fmt.Fprintf(&sb, "(%d/%d:%d)", t.AFI, t.SAFI, len(t.Value))
			}
		}
	case *bgp.BGPOpen:
		for _, p := range b.OptParams {
			sb.WriteString("p")
			if pc, ok := p.(*bgp.OptionParameterCapability); ok {
				for _, c := range pc.Capability {
					fmt.Fprintf(&sb, "%d,", c.Code())
				}
			}
		}
	case *bgp.BGPNotification:
		fmt.Fprintf(&sb, "%d/%d", b.ErrorCode, b.ErrorSubcode)
	case *bgp.BGPRouteRefresh:
		fmt.Fprintf(&sb, "%d/%d", b.AFI, b.SAFI)
	}
	return sb.String()
}

func c05Digest(b []byte) uint32 {
	h := uint32(2166136261)
	for _, c := range b {
		h = (h ^ uint32(c)) * 16777619
	}
	return h
}

// guard: parse the same message placed in front of 32 further bytes (0xa5) of the same buffer; verdict and
// re-serialisation must not change.
func (p *c05Probe) guard(msg []byte, err0 error, out0 []byte) {
	for _, fill := range []byte{0xa5} {
		buf := make([]byte, len(msg)+32)
		copy(buf, msg)
		for i := len(msg); i < len(buf); i++ {
			buf[i] = fill
		}
		var m *bgp.BGPMessage
		var err error
		var out []byte
		if pi := c05Try(func() {
			m, err = bgp.ParseBGPMessage(buf, p.o.Opts...)
			if m != nil {
				out, _ = m.Serialize(p.o.Opts...)
			}
		}); pi != nil {
			c05V(p.r, "C05:panic:"+pi.Key(), p.cs(msg), "ParseBGPMessage [%s] of %s followed by 32 x %#02x in the same buffer panics: %s", p.o.Name, c05Hex(msg), fill, pi)
			return
		}
		if (err == nil) != (err0 == nil) || !bytes.Equal(out, out0) {
			c05V(p.r, "C05:over-read:result-depends-on-bytes-beyond-message-length", p.cs(msg), "ParseBGPMessage [%s] of %s: result changes when 32 x %#02x follow the message in the caller's buffer (err %v vs %v)", p.o.Name, c05Hex(msg), fill, err0, err)
			return
		}
	}
	p.r.Outcome("message:guard-bytes-compared")
}

// ---------------------------------------------------------------------------------------------
// input spaces

// c05AllStrings enumerates every byte string of length 0..maxLen whose first byte is in [lo,hi).
func c05AllStrings(maxLen int, first int, f func(s []byte)) {
	buf := make([]byte, 0, maxLen)
	var rec func(cur []byte)
	rec = func(cur []byte) {
		f(cur)
		if len(cur) == maxLen {
			return
		}
		for b := 0; b < 256; b++ {
			rec(append(cur, byte(b)))
		}
	}
	rec(append(buf, byte(first)))
}

var c05Vals12 = []byte{0x00, 0x01, 0x02, 0x04, 0x08, 0x10, 0x20, 0x40, 0x7f, 0x80, 0xfe, 0xff}

// c05LenFields locates the structural 1- and 2-byte length fields of a message with the independent
// reader: header length, withdrawn length, total attribute length, every attribute length, MP_REACH
// next-hop length, prefix length octets, OPEN optional-parameter / parameter / capability lengths.
type c05Field struct {
	Off, Size int
	What      string
}

func c05LenFields(msg []byte, o bgpgen.OptSet) []c05Field {
	fs := []c05Field{{16, 2, "header-length"}}
	ref, err := refwire.Read(msg, c05RefOpts(o))
	if err != nil || ref == nil {
		return fs
	}
	if u := ref.Update; u != nil {
		fs = append(fs, c05Field{u.WithdrawnOff - 2, 2, "withdrawn-length"}, c05Field{u.AttrsOff - 2, 2, "attrs-length"})
		for _, a := range u.Attrs {
			if a.ExtLen {
				fs = append(fs, c05Field{a.Off + 2, 2, fmt.Sprintf("attr%d-length", a.Type)})
			} else {
				fs = append(fs, c05Field{a.Off + 2, 1, fmt.Sprintf("attr%d-length", a.Type)})
			}
		}
		for _, m := range u.MPReach {
			fs = append(fs, c05Field{m.NHOff - 1, 1, "mp-reach-nexthop-length"})
			for _, p := range m.Prefixes {
				fs = append(fs, c05Field{p.Off + p.Len - 1 - len(p.Bytes), 1, "mp-prefix-bits"})
			}
		}
		for _, m := range u.MPUnreach {
			for _, p := range m.Prefixes {
				fs = append(fs, c05Field{p.Off + p.Len - 1 - len(p.Bytes), 1, "mp-prefix-bits"})
			}
		}
		for _, p := range append(append([]refwire.Prefix{}, u.NLRI...), u.Withdrawn...) {
			fs = append(fs, c05Field{p.Off + p.Len - 1 - len(p.Bytes), 1, "prefix-bits"})
		}
	}
	if op := ref.Open; op != nil {
		fs = append(fs, c05Field{28, 1, "optparam-length"})
		for _, p := range op.Params {
			fs = append(fs, c05Field{p.Off + 1, 1, "param-length"})
			for _, c := range p.Caps {
				fs = append(fs, c05Field{c.Off + 1, 1, "cap-length"})
			}
		}
	}
	return fs
}

func c05RefOpts(o bgpgen.OptSet) refwire.Options {
	r := refwire.Options{Extended: o.Extended, AddPath: map[refwire.AFISAFI]bool{}}
	for _, f := range bgpgen.Families() {
		if o.AddPath(f) {
			r.AddPath[refwire.AFISAFI{AFI: f.Afi(), SAFI: f.Safi()}] = true
		}
	}
	return r
}

func c05FieldValues(orig uint32, size int) []uint32 {
	max := uint32(0xff)
	if size == 2 {
		max = 0xffff
	}
	var out []uint32
	for _, v := range []uint32{0, 1, orig - 1, orig + 1, max} {
		v &= max
		dup := v == orig
		for _, w := range out {
			if w == v {
				dup = true
			}
		}
		if !dup {
			out = append(out, v)
		}
	}
	return out
}

func c05GetField(b []byte, f c05Field) uint32 {
	if f.Size == 2 {
		return uint32(binary.BigEndian.Uint16(b[f.Off:]))
	}
	return uint32(b[f.Off])
}

func c05SetField(b []byte, f c05Field, v uint32) {
	if f.Size == 2 {
		binary.BigEndian.PutUint16(b[f.Off:], uint16(v))
	} else {
		b[f.Off] = byte(v)
	}
}

// c05Mutations calls f with every single deviation of msg (the slice passed to f is reused):
//   - every position x the 12 replacement values, plus original-1 and original+1 (every octet seen as a
//     possible 1-octet length or count);
//   - every adjacent pair seen as a 2-octet big-endian length: {0, 1, v-1, v+1, 0xffff};
//   - every truncation, with the header length left as it was and with the header length adjusted.
//
// It returns the number of mutants.
func c05Mutations(msg []byte, f func(m []byte, what string)) int {
	n := 0
	w := make([]byte, len(msg))
	for i := range msg {
		copy(w, msg)
		vals := append(append([]byte{}, c05Vals12...), msg[i]-1, msg[i]+1)
		seen := map[byte]bool{msg[i]: true}
		for _, v := range vals {
			if seen[v] {
				continue
			}
			seen[v] = true
			w[i] = v
			f(w, fmt.Sprintf("byte[%d]=%#02x", i, v))
			n++
		}
		w[i] = msg[i]
	}
	for i := 0; i+1 < len(msg); i++ {
		copy(w, msg)
		fld := c05Field{Off: i, Size: 2}
		for _, v := range c05FieldValues(c05GetField(msg, fld), 2) {
			c05SetField(w, fld, v)
			f(w, fmt.Sprintf("u16[%d]=%d", i, v))
			n++
		}
	}
	for l := 0; l < len(msg); l++ {
		copy(w, msg)
		f(w[:l], fmt.Sprintf("truncate[%d]", l))
		n++
		if l >= bgp.BGP_HEADER_LENGTH {
			binary.BigEndian.PutUint16(w[16:], uint16(l))
			f(w[:l], fmt.Sprintf("truncate[%d]+header-length", l))
			n++
		}
	}
	return n
}

// c05Seeds: every single-element message of the catalogue (everything except the pair/triple
// combinations) that is at most maxSeed bytes long under the given options.
const c05MaxSeed = 512

func c05SeedBuilders(all bool) []bgpgen.MsgBuilder {
	var out []bgpgen.MsgBuilder
	for _, mb := range bgpgen.MessageBuilders(bgpgen.Quick) {
		if strings.HasPrefix(mb.Name, "update/pair-") || strings.HasPrefix(mb.Name, "open/caps-") {
			continue
		}
		if !all && !mb.Seed {
			continue
		}
		out = append(out, mb)
	}
	return out
}

// c05SeedBytes serialises a seed under the option set; ok=false when it cannot be built under these
// options, is too long, or is a seed whose own serialisation panics (reported by C04).
func c05SeedBytes(mb bgpgen.MsgBuilder, o bgpgen.OptSet) (b []byte, ok bool) {
	if !o.Compatible(mb.AS, mb.Ext) {
		return nil, false
	}
	var err error
	if pi := c05Try(func() { b, err = mb.Build().Serialize(o.Opts...) }); pi != nil || err != nil {
		return nil, false
	}
	return b, len(b) <= c05MaxSeed
}

// ---------------------------------------------------------------------------------------------
// replay

func c05Replay(t *testing.T, r *vr.Report) {
	var cs c05Case
	if err := r.LoadReplay(&cs); err != nil {
		t.Fatal(err)
	}
	o, ok := c05Opt(cs.Opt)
	if !ok {
		t.Fatalf("unknown option set %q", cs.Opt)
	}
	in, err := hex.DecodeString(cs.Hex)
	if err != nil {
		t.Fatal(err)
	}
	p := &c05Probe{r: r, entry: cs.Entry, o: o, htype: uint8(cs.HType), note: cs.Note}
	for _, f := range bgpgen.Families() {
		if f.String() == cs.Fam {
			p.fam = f
		}
	}
	if cs.Entry == c05AttrInUp && len(in) >= 4 {
		in = in[4:] // the artefact stores the wrapped body
	}
	p.Run(in)
	p.Run(in)
	r.NT("replay")
	r.NT("replay2")
}

func c05Opt(name string) (bgpgen.OptSet, bool) {
	for _, o := range bgpgen.MarshallingOptionSets() {
		if o.Name == name {
			return o, true
		}
	}
	return bgpgen.OptSet{}, false
}

// reduced option list for the spaces whose decoders look at two option bits only (ADD-PATH for the
// family at hand, AS width): none / add-path everywhere / 2-octet AS / both.
func c05FourOpts() []bgpgen.OptSet {
	var out []bgpgen.OptSet
	for _, o := range bgpgen.MarshallingOptionSets() {
		if !o.Extended && o.AddPathV4 == o.AddPathMP {
			out = append(out, o)
		}
	}
	return out
}

func c05Parallel(t *testing.T, r *vr.Report, fn func(w, W int, c *vr.Report, slot *c05Slot)) {
	W := vr.Workers()
	slots := make([]*c05Slot, W)
	for i := range slots {
		slots[i] = &c05Slot{}
	}
	done := make(chan struct{})
	go c05Watchdog(t, slots, done)
	r.Parallel(W, func(w int, c *vr.Report) {
		slots[w].busy.Store(true)
		fn(w, W, c, slots[w])
		slots[w].busy.Store(false)
	})
	close(done)
}

// ---------------------------------------------------------------------------------------------
// tests

// TestVerif_C05_Strings: every byte string up to the bound at every entry point.
func TestVerif_C05_Strings(t *testing.T) {
	os.Setenv("C05_PART", "strings")
	r := vr.Start(t, "C05", "strings")
	defer r.Finish()
	defer c05Smallest(r)
	r.Rule = "every byte string of length <= N (full alphabet) at: ParseBGPBody with header type 0..6 (UPDATE with ADD-PATH off and on; the other types ignore options), ParseBGPMessage with a valid header, every type octet and every body <= 2, DecodeCapability, GetPathAttribute+DecodeFromBytes (4-octet and 2-octet AS), NLRIFromSlice for each of the 26 families; non-trivial = distinct accepted (entry, outcome, structural shape / first two input bytes) for which every rendering clause ran"
	if r.ReplayPath() != "" {
		c05Replay(t, r)
		return
	}
	N := 3
	if vr.Thorough() {
		N = 4
	}
	r.Bounds["max_len"] = N
	r.Bounds["alphabet"] = 256
	four := c05FourOpts()
	opt0 := four[0]
	r.Bounds["option_sets_update_body"] = "ADD-PATH off / on"
	r.Bounds["option_sets_attribute"] = "4-octet / 2-octet AS"
	type job struct {
		entry string
		o     bgpgen.OptSet
		fam   bgp.Family
		htype uint8
		n     int
	}
	// thorough: the 4-byte sweep (4.3e9 strings per entry point) is run at the four entry points where a
	// 4-byte string can get past the first length checks; everywhere else the bound stays 3
	n4 := func(is4 bool) int {
		if is4 {
			return N
		}
		return 3
	}
	var jobs []job
	// With at most N <= 4 body bytes an UPDATE cannot reach an AS_PATH, and a bare attribute of <= 4 bytes
	// cannot reach an MP_REACH/MP_UNREACH NLRI: the UPDATE body runs under ADD-PATH off/on (withdrawn-routes
	// parsing), the attribute decoder under 4-octet / 2-octet AS; every other decoder ignores the options.
	var updOpts, attrOpts []bgpgen.OptSet
	for _, o := range four {
		if !o.Use2ByteAS {
			updOpts = append(updOpts, o)
		}
		if !o.AddPathV4 {
			attrOpts = append(attrOpts, o)
		}
	}
	for ht := 0; ht <= 6; ht++ {
		if ht == bgp.BGP_MSG_UPDATE {
			for i, o := range updOpts {
				jobs = append(jobs, job{c05Body, o, 0, uint8(ht), n4(i == 0)})
			}
		} else {
			jobs = append(jobs, job{c05Body, opt0, 0, uint8(ht), 3})
		}
	}
	jobs = append(jobs, job{c05Cap, opt0, 0, 0, N})
	for i, o := range attrOpts {
		jobs = append(jobs, job{c05Attr, o, 0, 0, n4(i == 0)})
	}
	for _, f := range bgpgen.Families() {
		// NLRI decoders take the options but look at them only for the internal prefix-SID-present flag,
		// which cannot be set from outside: one option set
		jobs = append(jobs, job{c05NLRI, opt0, f, 0, n4(f == bgp.RF_FS_IPv4_UC)})
	}
	r.Bounds["entry_point_jobs"] = len(jobs)
	r.Extra["four_byte_sweeps(thorough)"] = "ParseBGPBody(UPDATE, first option set), DecodeCapability, attribute decode (first option set), NLRIFromSlice ipv4-flowspec; every other entry point: 3 (the 4-byte sweep of the ipv4-unicast / labelled NLRI decoders is part of C04)"
	for _, j := range jobs {
		c05Parallel(t, r, func(w, W int, c *vr.Report, slot *c05Slot) {
			p := &c05Probe{r: c, entry: j.entry, o: j.o, fam: j.fam, htype: j.htype, slot: slot}
			if w == 0 {
				p.Run(nil)
			}
			for first := w; first < 256; first += W {
				c05AllStrings(j.n, first, p.Run)
			}
		})
	}
	// ParseBGPMessage: valid marker + consistent length + every type 0..255 with every body <= 2
	c05Parallel(t, r, func(w, W int, c *vr.Report, slot *c05Slot) {
		p := &c05Probe{r: c, entry: c05Message, o: opt0, slot: slot}
		for typ := w; typ < 256; typ += W {
			run := func(body []byte) {
				m := append(bytes.Repeat([]byte{0xff}, 16), 0, byte(19+len(body)), byte(typ))
				p.Run(append(m, body...))
			}
			run(nil)
			for first := 0; first < 256; first++ {
				c05AllStrings(2, first, run)
			}
		}
	})
}

// TestVerif_C05_AttrSpace: the structured attribute space of the design.
func TestVerif_C05_AttrSpace(t *testing.T) {
	os.Setenv("C05_PART", "attrspace")
	r := vr.Start(t, "C05", "attrspace")
	defer r.Finish()
	defer c05Smallest(r)
	r.Rule = "attribute = flags (16 upper-nibble values) x type (256) x declared length in {0,1,2,3,true,true-1,true+1,255,256,65535} x value over {00,01,7f,80,ff}^<=L, decoded directly and as the only attribute of an UPDATE body (the returned message is rendered also when the error is attribute-discard / treat-as-withdraw), under 4 option sets (ADD-PATH x AS width); non-trivial = distinct (attribute type, input digest) accepted directly, and distinct shapes of UPDATEs returned"
	if r.ReplayPath() != "" {
		c05Replay(t, r)
		return
	}
	L := 3
	if vr.Thorough() {
		L = 4
	}
	r.Bounds["value_max_len"] = L
	r.Bounds["value_alphabet"] = "00,01,7f,80,ff"
	alpha := []byte{0x00, 0x01, 0x7f, 0x80, 0xff}
	var values [][]byte
	var rec func(cur []byte)
	rec = func(cur []byte) {
		values = append(values, append([]byte{}, cur...))
		if len(cur) == L {
			return
		}
		for _, a := range alpha {
			rec(append(cur, a))
		}
	}
	rec(nil)
	r.Bounds["values"] = len(values)
	four := c05FourOpts()
	r.Bounds["option_sets"] = len(four)
	c05Parallel(t, r, func(w, W int, c *vr.Report, slot *c05Slot) {
		for typ := w; typ < 256; typ += W {
			for _, o := range four {
				// only AS_PATH/AS4_PATH/AGGREGATOR and the MP attributes can depend on the options
				if o.Name != four[0].Name && typ != 2 && typ != 7 && typ != 14 && typ != 15 && typ != 17 && typ != 18 {
					continue
				}
				pa := &c05Probe{r: c, entry: c05Attr, o: o, slot: slot}
				pu := &c05Probe{r: c, entry: c05AttrInUp, o: o, slot: slot}
				for fl := 0; fl < 16; fl++ {
					flags := byte(fl << 4)
					for _, v := range values {
						lens := []int{0, 1, 2, 3, len(v), len(v) - 1, len(v) + 1, 255, 256, 65535}
						seen := map[int]bool{}
						for _, dl := range lens {
							if dl < 0 || seen[dl] || (flags&0x10 == 0 && dl > 255) {
								continue
							}
							seen[dl] = true
							var in []byte
							if flags&0x10 != 0 {
								in = []byte{flags, byte(typ), byte(dl >> 8), byte(dl)}
							} else {
								in = []byte{flags, byte(typ), byte(dl)}
							}
							in = append(in, v...)
							pa.Run(in)
							pu.Run(in)
						}
					}
				}
			}
		}
	})
}

// TestVerif_C05_Mutations: structure-aware mutations of the catalogue messages.
func TestVerif_C05_Mutations(t *testing.T) {
	os.Setenv("C05_PART", "mutations")
	r := vr.Start(t, "C05", "mutations")
	defer r.Finish()
	defer c05Smallest(r)
	r.Rule = "seeds = every single-element message of the bgpgen catalogue (all message types, every capability, every attribute value, NLRI/withdrawn boundaries, every family in MP_REACH/MP_UNREACH; <= 512 bytes) serialised under each compatible option set of the 8 non-extended ones (ExtendedMessage only lifts the Serialize size limit, irrelevant for <=512-byte seeds); mutants = every position x 14 values (12 fixed + original-1/+1), every adjacent pair as a 2-octet length in {0,1,v-1,v+1,ffff}, every truncation with and without header-length adjustment; additionally every position x all 256 values on the one-per-kind seed catalogue (4 option sets); each mutant through ParseBGPMessage (exact-capacity buffer, and again followed by 32 guard bytes in the same buffer); thorough: additionally all pairs (structural length field located by refwire x {0,1,len-1,len+1,max}) x (every position x 12 values) on the seed catalogue (one per kind); non-trivial = distinct (outcome, structural shape of the returned message: attribute types, family and element counts, capability codes)"
	if r.ReplayPath() != "" {
		c05Replay(t, r)
		return
	}
	// the parser looks at ADD-PATH (v4 / other families) and the AS width; ExtendedMessage only changes
	// the size limit of Serialize, and every seed here is <= 512 bytes: the 8 non-extended sets
	var opts []bgpgen.OptSet
	for _, o := range bgpgen.MarshallingOptionSets() {
		if !o.Extended {
			opts = append(opts, o)
		}
	}
	seeds := c05SeedBuilders(true)
	r.Bounds["seed_messages"] = len(seeds)
	r.Bounds["seed_max_bytes"] = c05MaxSeed
	r.Bounds["option_sets"] = len(opts)
	r.Bounds["values_per_position"] = 14
	var nSeedOpt, nMut atomic.Int64
	c05Parallel(t, r, func(w, W int, c *vr.Report, slot *c05Slot) {
		for i, mb := range seeds {
			if i%W != w {
				continue
			}
			var prev []byte
			for _, o := range opts {
				b, ok := c05SeedBytes(mb, o)
				if !ok {
					c.Outcome("seed:skipped(incompatible with option set, >512 bytes, or not serialisable)")
					continue
				}
				// the seed bytes depend only on ADD-PATH/extended for some seeds; the parse depends on the options
				_ = prev
				nSeedOpt.Add(1)
				pm := &c05Probe{r: c, entry: c05Message, o: o, slot: slot}
				pm.seed = mb.Name
				pm.Run(b)
				n := c05Mutations(b, func(m []byte, what string) {
					pm.mut = what
					pm.Run(m)
				})
				nMut.Add(int64(n))
				if c.WantSample() && i%97 == 0 && o.Name == opts[0].Name {
					c.Sample(c05Case{Entry: c05Message, Opt: o.Name, Hex: c05Hex(b), Note: mb.Name + " (seed)"})
				}
			}
		}
	})
	r.Extra["seed_x_option_sets"] = nSeedOpt.Load()
	r.Extra["single_mutants"] = nMut.Load()
	// every position x ALL 256 values on the one-per-kind seed catalogue (reaches value-specific branches
	// such as magic lengths and type codes that the 14 boundary values miss), 4 option sets
	kinds := c05SeedBuilders(false)
	four := c05FourOpts()
	r.Bounds["full_alphabet_seed_messages"] = len(kinds)
	r.Bounds["full_alphabet_option_sets"] = len(four)
	var nFull atomic.Int64
	c05Parallel(t, r, func(w, W int, c *vr.Report, slot *c05Slot) {
		for i, mb := range kinds {
			if i%W != w {
				continue
			}
			for _, o := range four {
				b, ok := c05SeedBytes(mb, o)
				if !ok {
					continue
				}
				pm := &c05Probe{r: c, entry: c05Message, o: o, slot: slot, seed: mb.Name}
				wk := make([]byte, len(b))
				for pos := range b {
					copy(wk, b)
					for v := 0; v < 256; v++ {
						if byte(v) == b[pos] {
							continue
						}
						wk[pos] = byte(v)
						pm.pair = [4]int{-1, 0, pos, v}
						pm.Run(wk)
						nFull.Add(1)
					}
				}
			}
		}
	})
	r.Extra["full_alphabet_mutants"] = nFull.Load()
	if !vr.Thorough() {
		return
	}
	// pairs: structural length-field fault x single-byte fault
	r.Bounds["pair_seed_messages"] = len(kinds)
	r.Bounds["pair_option_sets"] = len(four)
	var nPairs atomic.Int64
	c05Parallel(t, r, func(w, W int, c *vr.Report, slot *c05Slot) {
		for i, mb := range kinds {
			if i%W != w {
				continue
			}
			for _, o := range four {
				b, ok := c05SeedBytes(mb, o)
				if !ok {
					continue
				}
				pm := &c05Probe{r: c, entry: c05Message, o: o, slot: slot, seed: mb.Name}
				wk := make([]byte, len(b))
				for _, f := range c05LenFields(b, o) {
					for _, v := range c05FieldValues(c05GetField(b, f), f.Size) {
						for pos := range b {
							if pos >= f.Off && pos < f.Off+f.Size {
								continue
							}
							for _, bv := range c05Vals12 {
								if bv == b[pos] {
									continue
								}
								copy(wk, b)
								c05SetField(wk, f, v)
								wk[pos] = bv
								pm.mut = ""
								pm.note = ""
								pm.pair = [4]int{f.Off, int(v), pos, int(bv)}
								pm.Run(wk)
								nPairs.Add(1)
							}
						}
					}
				}
			}
		}
	})
	r.Extra["pair_mutants"] = nPairs.Load()
}

// TestVerif_C05_Alloc: single-threaded allocation pass. runtime.MemStats.TotalAlloc is process-wide, so
// this part runs one case at a time on one goroutine (no in-process workers, no watchdog): the delta
// around a parse call is then exactly what that call allocated. Budget: 64 KiB + 512 bytes per input
// byte (the parser keeps a few small structs per NLRI octet; anything super-linear, e.g. a slice sized
// from a 16-bit count field, exceeds this by orders of magnitude). A case over budget is measured three
// more times and reported only if it is over budget every time.
func TestVerif_C05_Alloc(t *testing.T) {
	r := vr.Start(t, "C05", "alloc")
	defer r.Finish()
	defer c05Smallest(r)
	r.Rule = "allocation of the parse call alone (TotalAlloc delta, one goroutine): ParseBGPMessage on every seed-catalogue message (one per kind, <= 512 bytes, 4 option sets) under every single mutation, plus every byte string <= 2 at every entry point; measured in batches of 32 cases, a batch over 32 KiB is re-measured case by case against 64 KiB + 512 B/input byte; non-trivial = distinct (entry, allocation size class)"
	if r.ReplayPath() != "" {
		var cs c05Case
		if err := r.LoadReplay(&cs); err != nil {
			t.Fatal(err)
		}
		o, _ := c05Opt(cs.Opt)
		in, _ := hex.DecodeString(cs.Hex)
		var fam bgp.Family
		for _, f := range bgpgen.Families() {
			if f.String() == cs.Fam {
				fam = f
			}
		}
		c05AllocOne(r, o, fam, cs, in)
		r.NT("replay")
		r.NT("replay2")
		return
	}
	r.Bounds["budget_bytes"] = "65536 + 512*len(input)"
	r.Bounds["batch"] = 32
	four := c05FourOpts()
	type item struct {
		cs  c05Case
		o   bgpgen.OptSet
		fam bgp.Family
		in  []byte
	}
	var batch []item
	var ms runtime.MemStats
	total := func() uint64 { runtime.ReadMemStats(&ms); return ms.TotalAlloc }
	flush := func() {
		if len(batch) == 0 {
			return
		}
		before := total()
		for i := range batch {
			c05AllocCall(batch[i].cs, batch[i].o, batch[i].fam, batch[i].in)
		}
		d := total() - before
		r.Outcome(fmt.Sprintf("alloc:batch<=%dKiB", 1<<bitsLen(d>>10)))
		if d > 32<<10 {
			for _, it := range batch {
				c05AllocOne(r, it.o, it.fam, it.cs, it.in)
			}
		}
		batch = batch[:0]
	}
	var curFam bgp.Family
	push := func(cs c05Case, o bgpgen.OptSet, in []byte) {
		r.Eval()
		batch = append(batch, item{cs, o, curFam, append([]byte{}, in...)})
		if len(batch) == 32 {
			flush()
		}
	}
	nseed := 0
	for _, mb := range c05SeedBuilders(false) {
		for _, o := range four {
			b, ok := c05SeedBytes(mb, o)
			if !ok {
				continue
			}
			nseed++
			c05Mutations(b, func(m []byte, what string) {
				push(c05Case{Entry: c05Message, Opt: o.Name, Hex: "", Note: mb.Name + " " + what}, o, m)
			})
		}
	}
	r.Bounds["seed_x_option_sets"] = nseed
	o0 := four[0]
	for ht := 0; ht <= 6; ht++ {
		for first := 0; first < 256; first++ {
			c05AllStrings(2, first, func(s []byte) { push(c05Case{Entry: c05Body, Opt: o0.Name, HType: ht}, o0, s) })
		}
	}
	for first := 0; first < 256; first++ {
		c05AllStrings(2, first, func(s []byte) { push(c05Case{Entry: c05Cap, Opt: o0.Name}, o0, s) })
		c05AllStrings(2, first, func(s []byte) { push(c05Case{Entry: c05Attr, Opt: o0.Name}, o0, s) })
	}
	for _, f := range bgpgen.Families() {
		curFam = f
		for first := 0; first < 256; first++ {
			c05AllStrings(2, first, func(s []byte) { push(c05Case{Entry: c05NLRI, Opt: o0.Name, Fam: f.String()}, o0, s) })
		}
	}
	flush()
}

func bitsLen(v uint64) int {
	n := 0
	for v > 0 {
		n++
		v >>= 1
	}
	return n
}

// c05AllocCall performs only the parse call of a case (panics are the other parts' business).
func c05AllocCall(cs c05Case, o bgpgen.OptSet, fam bgp.Family, in []byte) {
	defer func() { _ = recover() }()
	switch cs.Entry {
	case c05Message:
		_, _ = bgp.ParseBGPMessage(in, o.Opts...)
	case c05Body:
		_, _ = bgp.ParseBGPBody(&bgp.BGPHeader{Len: uint16(19 + len(in)), Type: uint8(cs.HType)}, in, o.Opts...)
	case c05Cap:
		_, _ = bgp.DecodeCapability(in)
	case c05Attr:
		if a, err := bgp.GetPathAttribute(in); err == nil {
			_ = a.DecodeFromBytes(in, o.Opts...)
		}
	case c05NLRI:
		_, _ = bgp.NLRIFromSlice(fam, in, o.Opts...)
	}
}

func c05AllocOne(r *vr.Report, o bgpgen.OptSet, fam bgp.Family, cs c05Case, in []byte) {
	entry := cs.Entry
	var ms runtime.MemStats
	budget := uint64(64<<10 + 512*len(in))
	over := 0
	var d uint64
	for k := 0; k < 4; k++ {
		runtime.ReadMemStats(&ms)
		before := ms.TotalAlloc
		c05AllocCall(cs, o, fam, in)
		runtime.ReadMemStats(&ms)
		d = ms.TotalAlloc - before
		if d > budget {
			over++
		}
	}
	r.NT(fmt.Sprintf("alloc:%s:%d", entry, bitsLen(d)))
	if over == 4 {
		cs.Hex = hex.EncodeToString(in)
		c05V(r, "C05:allocation-over-budget:"+entry, cs, "%s [%s]: parsing %d input bytes %s allocates %d bytes (budget %d), 4 of 4 measurements", entry, o.Name, len(in), c05Hex(in), d, budget)
	} else if over > 0 {
		r.Outcome("alloc:unstable-measurement(not reported)")
	}
}

// ---------------------------------------------------------------------------------------------
// smallest example per key: vr keeps the first example recorded for a key (per worker, then in merge
// order), which under Parallel is not the simplest one. c05V records the violation in vr as usual (so
// counts are right) and remembers the smallest case seen for the key; c05Smallest, deferred after
// r.Finish is deferred (so it runs before it), puts that case into the report.

type c05BestV struct {
	size   int
	what   string
	replay any
}

var c05Best = struct {
	sync.Mutex
	m map[string]*c05BestV
}{m: map[string]*c05BestV{}}

func c05V(r *vr.Report, key string, replay any, format string, a ...any) {
	what := fmt.Sprintf(format, a...)
	r.Violation(key, what, replay)
	size := len(what)
	if cs, ok := replay.(c05Case); ok {
		size = len(cs.Hex)
	}
	c05Best.Lock()
	// ties: the plainest option set first, then the text (deterministic whatever the worker interleaving)
	plain := func(w string) bool { return strings.Contains(w, "[noaddpath+as4]") }
	if b := c05Best.m[key]; b == nil || size < b.size || (size == b.size && (plain(what) && !plain(b.what) || plain(what) == plain(b.what) && what < b.what)) {
		c05Best.m[key] = &c05BestV{size, what, replay}
	}
	c05Best.Unlock()
}

func c05Smallest(r *vr.Report) {
	c05Best.Lock()
	defer c05Best.Unlock()
	for _, v := range r.Violations {
		if b := c05Best.m[v.Key]; b != nil {
			v.What, v.Replay = b.what, b.replay
		}
	}
	c05Best.m = map[string]*c05BestV{}
}
