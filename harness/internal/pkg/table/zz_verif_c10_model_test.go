package table

// C10 — policy evaluation equals the documented model and never mutates shared routes.
//
// This file is the ORACLE side only: plain data (flat routes, policy programs) and "refpolicy", a
// plain interpreter of the documented model (docs/sources/policy.md + the property text):
//   * policies in assignment order, statements in order;
//   * a statement applies when all its conditions hold (no condition = applies);
//   * set conditions: any = some member matches, all = every member matches, invert = no member matches;
//   * prefix sets: an entry matches a route whose prefix is contained in the entry's prefix and whose
//     length is inside the mask-length range (no range = exactly the entry's length);
//   * as-path patterns are regular expressions over the rendered AS_PATH, '_' = (^|[,{}() ]|$);
//   * community patterns: "A:B" is that exact value, anything else is a regular expression;
//   * modifications accumulate (later statements see them), first accept/reject decides, otherwise the
//     assignment's default.
// Nothing in this file touches table.Path, the Condition/Action objects or the bgp package decoders.

import (
	"fmt"
	"net/netip"
	"regexp"
	"sort"
	"strconv"
	"strings"
)

const c10LocalAS = 65000

// AS_PATH segment types (RFC 4271 / 5065), spelled out so that the model does not import bgp constants.
const (
	c10SegSet       = 1
	c10SegSeq       = 2
	c10SegConfedSeq = 3
	c10SegConfedSet = 4
)

type c10Seg struct {
	T  uint8    `json:"t"`
	AS []uint32 `json:"as"`
}

// c10Ext is one 8-octet extended community: raw bytes (hex) plus what the model needs to match it.
type c10Ext struct {
	Raw  string `json:"raw"`  // 16 hex digits
	Sub  string `json:"sub"`  // "rt" | "soo" | "lb" | ...
	Text string `json:"text"` // value as it is written in configuration, e.g. "65001:100"
}

type c10Large [3]uint32

// c10Route is the flat route the reference interpreter works on.
type c10Route struct {
	Name   string     `json:"name"`
	V6     bool       `json:"v6,omitempty"`
	Prefix string     `json:"prefix"`
	Src    string     `json:"src,omitempty"` // neighbour address the route was learnt from; "" = locally originated
	SrcAS  uint32     `json:"src_as,omitempty"`
	NH     string     `json:"nh"`
	Origin int        `json:"origin"`
	Path   []c10Seg   `json:"path"`
	MED    int64      `json:"med"` // -1 = absent
	LP     int64      `json:"lp"`  // -1 = absent
	Comms  []uint32   `json:"comms,omitempty"`
	Ext    []c10Ext   `json:"ext,omitempty"`
	Ext6   []string   `json:"ext6,omitempty"` // 20-octet IPv6-address-specific communities (hex)
	Large  []c10Large `json:"large,omitempty"`
}

// c10Env is the evaluation context the daemon passes next to the route (PolicyOptions).
type c10Env struct {
	Name   string `json:"name"`
	Peer   string `json:"peer,omitempty"`  // address of the peer the policy is evaluated for
	Local  string `json:"local,omitempty"` // local address of that session
	Confed bool   `json:"confed,omitempty"`
	OldNH  string `json:"old_nh,omitempty"` // next hop before export rewriting
	RPKI   string `json:"rpki,omitempty"`   // "" = no validator
}

func (r c10Route) clone() c10Route {
	o := r
	o.Path = make([]c10Seg, len(r.Path))
	for i, s := range r.Path {
		o.Path[i] = c10Seg{s.T, append([]uint32{}, s.AS...)}
	}
	o.Comms = append([]uint32{}, r.Comms...)
	o.Ext = append([]c10Ext{}, r.Ext...)
	o.Ext6 = append([]string{}, r.Ext6...)
	o.Large = append([]c10Large{}, r.Large...)
	return o
}

// ---- programs (plain data; JSON-able so that a violation can be replayed) ----

type c10PfxEnt struct {
	P   string `json:"p"`
	Min int    `json:"min"` // -1 = no mask-length range configured
	Max int    `json:"max"`
}

type c10Cond struct {
	Kind    string      `json:"k"`             // prefix neighbor nexthop aspath comm ext large aslen commcount origin rtype rpki afisafi lpeq medeq
	Opt     string      `json:"o,omitempty"`   // any all invert
	Set     string      `json:"set,omitempty"` // defined-set name
	Pfx     []c10PfxEnt `json:"pfx,omitempty"`
	Members []string    `json:"m,omitempty"`
	Op      string      `json:"op,omitempty"` // eq ge le
	Val     uint32      `json:"v,omitempty"`
	Str     string      `json:"s,omitempty"`
}

type c10Act struct {
	Kind    string   `json:"k"`           // comm ext large med lp origin prepend nh
	Opt     string   `json:"o,omitempty"` // add remove replace
	Members []string `json:"m,omitempty"`
	Str     string   `json:"s,omitempty"` // med string / origin / next-hop / AS to prepend
	Val     uint32   `json:"v,omitempty"`
	N       uint8    `json:"n,omitempty"`
}

type c10Stmt struct {
	Conds []c10Cond `json:"conds,omitempty"`
	Acts  []c10Act  `json:"acts,omitempty"`
	Disp  string    `json:"disp"` // accept reject none
}

type c10Prog struct {
	Policies [][]c10Stmt `json:"policies"`
}

func (c c10Cond) id() string {
	switch c.Kind {
	case "aslen", "commcount":
		return fmt.Sprintf("%s/%s%d", c.Kind, c.Op, c.Val)
	case "lpeq", "medeq":
		return fmt.Sprintf("%s/%d", c.Kind, c.Val)
	case "origin", "rtype", "rpki":
		return c.Kind + "/" + c.Str
	case "afisafi", "nexthop":
		return c.Kind + "/" + strings.Join(c.Members, ",")
	}
	return c.Kind + "/" + c.Set + "/" + c.Opt
}

func (a c10Act) id() string {
	switch a.Kind {
	case "med", "origin", "nh":
		return a.Kind + "/" + a.Str
	case "lp":
		return fmt.Sprintf("lp/%d", a.Val)
	case "prepend":
		return fmt.Sprintf("prepend/%sx%d", a.Str, a.N)
	}
	return a.Kind + "/" + a.Opt + "[" + strings.Join(a.Members, ",") + "]"
}

func (a c10Act) class() string {
	switch a.Kind {
	case "comm", "ext", "large":
		return a.Kind + "/" + a.Opt
	case "med":
		if strings.HasPrefix(a.Str, "+") || strings.HasPrefix(a.Str, "-") {
			return "med/mod"
		}
		return "med/set"
	case "prepend":
		if a.Str == "last-as" {
			return "prepend/last-as"
		}
		return "prepend/asn"
	case "nh":
		if _, err := netip.ParseAddr(a.Str); err == nil {
			return "nh/addr"
		}
		return "nh/" + a.Str
	}
	return a.Kind
}

// ---- pattern helpers (the only regular-expression engine the oracle uses is the standard library) ----

type c10Ref struct {
	re map[string]*regexp.Regexp
}

func newC10Ref() *c10Ref { return &c10Ref{re: map[string]*regexp.Regexp{}} }

func (m *c10Ref) rx(s string) *regexp.Regexp {
	if r, ok := m.re[s]; ok {
		return r
	}
	r := regexp.MustCompile(s)
	m.re[s] = r
	return r
}

func c10AllDigits(s string) bool {
	if s == "" {
		return false
	}
	for _, c := range s {
		if c < '0' || c > '9' {
			return false
		}
	}
	return true
}

// c10PlainValue: "65001:100" / "65001:1:1" — colon separated decimal numbers, i.e. an exact value.
func c10PlainValue(s string, parts int) bool {
	el := strings.Split(s, ":")
	if len(el) != parts {
		return false
	}
	for _, e := range el {
		if !c10AllDigits(e) {
			return false
		}
	}
	return true
}

// matchValue: does configured member `pat` match the rendered value `val`?
func (m *c10Ref) matchValue(pat, val string, parts int) bool {
	if c10PlainValue(pat, parts) {
		return c10SameNumbers(pat, val)
	}
	return m.rx(pat).MatchString(val)
}

func c10SameNumbers(a, b string) bool {
	ea, eb := strings.Split(a, ":"), strings.Split(b, ":")
	if len(ea) != len(eb) {
		return false
	}
	for i := range ea {
		x, e1 := strconv.ParseUint(ea[i], 10, 64)
		y, e2 := strconv.ParseUint(eb[i], 10, 64)
		if e1 != nil || e2 != nil || x != y {
			return false
		}
	}
	return true
}

func c10CommStr(c uint32) string { return fmt.Sprintf("%d:%d", c>>16, c&0xffff) }
func (l c10Large) String() string {
	return fmt.Sprintf("%d:%d:%d", l[0], l[1], l[2])
}

// split "rt:65001:100" into subtype and value pattern.
func c10ExtMember(s string) (sub, pat string) {
	i := strings.IndexByte(s, ':')
	return strings.ToLower(s[:i]), s[i+1:]
}

// extMatches: ext-community member patterns are "<subtype>:<value or regexp>".
func (m *c10Ref) extMatches(member string, e c10Ext) bool {
	sub, pat := c10ExtMember(member)
	if sub != e.Sub {
		return false
	}
	if c10PlainValue(pat, 2) {
		return pat == e.Text || (c10PlainValue(e.Text, 2) && c10SameNumbers(pat, e.Text))
	}
	if !strings.HasPrefix(pat, "^") { // e.g. an IPv4-address-specific value written literally
		return pat == e.Text
	}
	return m.rx(pat).MatchString(e.Text)
}

// c10PathString renders an AS_PATH the way the documentation's regular expressions expect it
// (Quagga/Cisco style): sequence members separated by blanks, sets in {a,b}, confederation sequences
// in (a b), confederation sets in [a,b], segments separated by one blank.
func c10PathString(p []c10Seg) string {
	var parts []string
	for _, s := range p {
		var el []string
		for _, a := range s.AS {
			el = append(el, strconv.FormatUint(uint64(a), 10))
		}
		switch s.T {
		case c10SegSeq:
			parts = append(parts, strings.Join(el, " "))
		case c10SegSet:
			parts = append(parts, "{"+strings.Join(el, ",")+"}")
		case c10SegConfedSeq:
			parts = append(parts, "("+strings.Join(el, " ")+")")
		case c10SegConfedSet:
			parts = append(parts, "["+strings.Join(el, ",")+"]")
		}
	}
	return strings.Join(parts, " ")
}

func c10PathLen(p []c10Seg) int {
	n := 0
	for _, s := range p {
		switch s.T {
		case c10SegSeq:
			n += len(s.AS)
		case c10SegSet:
			n++
		}
	}
	return n
}

func c10Cmp(op string, have, want uint32) bool {
	switch op {
	case "eq":
		return have == want
	case "ge":
		return have >= want
	case "le":
		return have <= want
	}
	return false
}

func c10SetResult(opt string, nMembers, nMatched int) bool {
	switch opt {
	case "all":
		return nMatched == nMembers
	case "invert":
		return nMatched == 0
	}
	return nMatched > 0 // any (default)
}

// c10RouteKind: "local" (no neighbour), "internal" (learnt from a peer in our AS), "external".
func c10RouteKind(r c10Route) string {
	if r.Src == "" {
		return "local"
	}
	if r.SrcAS == c10LocalAS {
		return "internal"
	}
	return "external"
}

// evalCond returns (result, note). note != "" marks a case in which the documented model gives no
// answer (the caller then does not compare that condition).
func (m *c10Ref) evalCond(c c10Cond, r c10Route, e c10Env) (bool, string) {
	switch c.Kind {
	case "prefix":
		rp := netip.MustParsePrefix(r.Prefix)
		n := 0
		// A prefix set holds prefixes of one family ("prefix-sets has either v4 or v6 addresses"); the
		// documentation does not say what a set of the other family means for a route. Modelled as
		// "not applicable": the condition does not hold, whatever the match option.
		if len(c.Pfx) > 0 && netip.MustParsePrefix(c.Pfx[0].P).Addr().Is6() != rp.Addr().Is6() {
			return false, "prefix-set of the other family: not applicable"
		}
		for _, ent := range c.Pfx {
			ep := netip.MustParsePrefix(ent.P)
			if ep.Addr().Is6() != rp.Addr().Is6() {
				continue
			}
			lo, hi := ent.Min, ent.Max
			if lo < 0 {
				lo, hi = ep.Bits(), ep.Bits()
			}
			contained := ep.Bits() <= rp.Bits() && ep.Masked().Contains(rp.Addr())
			if contained && lo <= rp.Bits() && rp.Bits() <= hi {
				n++
			}
		}
		if c.Opt == "invert" {
			return n == 0, ""
		}
		return n > 0, ""
	case "neighbor":
		if len(c.Members) == 0 {
			// documented: "an empty neighbor-set will match against ANYTHING and not invert"
			return true, ""
		}
		nb := r.Src
		if e.Peer != "" {
			nb = e.Peer
		}
		if nb == "" {
			// locally originated route evaluated without a peer context: there is no neighbour to
			// compare; the documentation is silent. Modelled as "not applicable" (condition false).
			return false, "route without neighbour: not applicable"
		}
		n := 0
		a := netip.MustParseAddr(nb)
		for _, mem := range c.Members {
			if c10AddrIn(mem, a) {
				n++
			}
		}
		if c.Opt == "invert" {
			return n == 0, ""
		}
		return n > 0, ""
	case "nexthop":
		nh := r.NH
		if e.OldNH != "" && e.OldNH != nh && !netip.MustParseAddr(e.OldNH).IsUnspecified() {
			nh = e.OldNH // the next hop before export rewriting
		}
		if nh == "" {
			return false, ""
		}
		a := netip.MustParseAddr(nh)
		for _, mem := range c.Members {
			if c10AddrIn(mem, a) {
				return true, ""
			}
		}
		return false, ""
	case "aspath":
		s := c10PathString(r.Path)
		n := 0
		for _, mem := range c.Members {
			if m.rx(strings.ReplaceAll(mem, "_", "(^|[,{}() ]|$)")).MatchString(s) {
				n++
			}
		}
		return c10SetResult(c.Opt, len(c.Members), n), ""
	case "comm":
		n := 0
		for _, mem := range c.Members {
			for _, x := range r.Comms {
				if m.matchValue(mem, c10CommStr(x), 2) {
					n++
					break
				}
			}
		}
		return c10SetResult(c.Opt, len(c.Members), n), ""
	case "ext":
		n := 0
		for _, mem := range c.Members {
			for _, x := range r.Ext {
				if m.extMatches(mem, x) {
					n++
					break
				}
			}
		}
		return c10SetResult(c.Opt, len(c.Members), n), ""
	case "large":
		n := 0
		for _, mem := range c.Members {
			for _, x := range r.Large {
				if m.matchValue(mem, x.String(), 3) {
					n++
					break
				}
			}
		}
		return c10SetResult(c.Opt, len(c.Members), n), ""
	case "aslen":
		return c10Cmp(c.Op, uint32(c10PathLen(r.Path)), c.Val), ""
	case "commcount":
		return c10Cmp(c.Op, uint32(len(r.Comms)), c.Val), ""
	case "origin":
		return []string{"igp", "egp", "incomplete"}[r.Origin] == c.Str, ""
	case "rtype":
		return c10RouteKind(r) == c.Str, ""
	case "rpki":
		return e.RPKI != "" && e.RPKI == c.Str, ""
	case "afisafi":
		fam := "ipv4-unicast"
		if r.V6 {
			fam = "ipv6-unicast"
		}
		for _, mem := range c.Members {
			if mem == fam {
				return true, ""
			}
		}
		return false, ""
	case "lpeq":
		lp := r.LP
		if lp < 0 {
			lp = 100 // default LOCAL_PREF
		}
		return uint32(lp) == c.Val, ""
	case "medeq":
		return r.MED >= 0 && uint32(r.MED) == c.Val, ""
	}
	panic("c10: unknown condition kind " + c.Kind)
}

func c10AddrIn(member string, a netip.Addr) bool {
	if p, err := netip.ParsePrefix(member); err == nil {
		return p.Contains(a)
	}
	return netip.MustParseAddr(member) == a
}

// applyAct applies one modification to r. unspec != "" : the documented model does not say what the
// result is (then only the fields named in unspec are excluded from the comparison).
func (m *c10Ref) applyAct(a c10Act, r *c10Route, e c10Env) (unspec string) {
	switch a.Kind {
	case "comm":
		switch a.Opt {
		case "add":
			for _, s := range a.Members {
				r.Comms = append(r.Comms, c10ParseComm(s))
			}
		case "replace":
			r.Comms = nil
			for _, s := range a.Members {
				r.Comms = append(r.Comms, c10ParseComm(s))
			}
		case "remove":
			var keep []uint32
			for _, x := range r.Comms {
				hit := false
				for _, s := range a.Members {
					if m.matchValue(s, c10CommStr(x), 2) {
						hit = true
					}
				}
				if !hit {
					keep = append(keep, x)
				}
			}
			r.Comms = keep
		}
	case "ext":
		switch a.Opt {
		case "add", "replace":
			if a.Opt == "replace" {
				r.Ext, r.Ext6 = nil, nil
			}
			for _, s := range a.Members {
				if raw6, ok := c10EncodeExt6(s); ok {
					r.Ext6 = append(r.Ext6, raw6)
				} else {
					r.Ext = append(r.Ext, c10MakeExt(s))
				}
			}
		case "remove":
			var keep []c10Ext
			for _, x := range r.Ext {
				hit := false
				for _, s := range a.Members {
					if m.extMatches(s, x) {
						hit = true
					}
				}
				if !hit {
					keep = append(keep, x)
				}
			}
			r.Ext = keep
		}
	case "large":
		switch a.Opt {
		case "add", "replace":
			if a.Opt == "replace" {
				r.Large = nil
			}
			for _, s := range a.Members {
				r.Large = append(r.Large, c10ParseLarge(s))
			}
		case "remove":
			var keep []c10Large
			for _, x := range r.Large {
				hit := false
				for _, s := range a.Members {
					if m.matchValue(s, x.String(), 3) {
						hit = true
					}
				}
				if !hit {
					keep = append(keep, x)
				}
			}
			r.Large = keep
		}
	case "med":
		v, _ := strconv.ParseInt(a.Str, 10, 64)
		if a.Str[0] == '+' || a.Str[0] == '-' {
			cur := r.MED
			if cur < 0 {
				cur = 0
			}
			if n := cur + v; n >= 0 && n <= 0xffffffff {
				r.MED = n
			}
			// a result outside 0..2^32-1 cannot be represented: the modification has no effect
		} else {
			r.MED = v
		}
	case "lp":
		r.LP = int64(a.Val)
	case "origin":
		r.Origin = map[string]int{"igp": 0, "egp": 1, "incomplete": 2}[a.Str]
	case "prepend":
		var asn uint32
		if a.Str == "last-as" {
			// "prepend the leftmost AS number in the aspath attribute"
			if len(r.Path) == 0 {
				return "" // nothing to repeat
			}
			if r.Path[0].T != c10SegSeq || len(r.Path[0].AS) == 0 {
				return "path" // leftmost element is a set / confederation segment: not specified
			}
			asn = r.Path[0].AS[0]
		} else {
			v, _ := strconv.ParseUint(a.Str, 10, 32)
			asn = uint32(v)
		}
		if a.N == 0 {
			return ""
		}
		t := uint8(c10SegSeq)
		if e.Confed {
			t = c10SegConfedSeq
		}
		add := make([]uint32, a.N)
		for i := range add {
			add[i] = asn
		}
		if len(r.Path) > 0 && r.Path[0].T == t {
			r.Path[0].AS = append(add, r.Path[0].AS...)
		} else {
			r.Path = append([]c10Seg{{t, add}}, r.Path...)
		}
	case "nh":
		switch a.Str {
		case "self":
			if e.Local != "" {
				r.NH = e.Local
			}
		case "peer-address":
			if e.Peer != "" {
				r.NH = e.Peer
			}
		case "unchanged":
			if e.OldNH != "" {
				r.NH = e.OldNH
			}
		default:
			r.NH = a.Str
		}
	default:
		panic("c10: unknown action kind " + a.Kind)
	}
	return ""
}

func c10ParseComm(s string) uint32 {
	el := strings.Split(s, ":")
	a, _ := strconv.ParseUint(el[0], 10, 16)
	b, _ := strconv.ParseUint(el[1], 10, 16)
	return uint32(a<<16 | b)
}

func c10ParseLarge(s string) c10Large {
	el := strings.Split(s, ":")
	var l c10Large
	for i := range l {
		v, _ := strconv.ParseUint(el[i], 10, 32)
		l[i] = uint32(v)
	}
	return l
}

var c10SubTypes = map[string]byte{"rt": 0x02, "soo": 0x03}

// c10MakeExt builds the model's view of a configured extended community ("rt:65001:100",
// "soo:65001:200", "rt:10.0.0.1:100", "lb:65001:125000") with its RFC 4360 / 7153 encoding.
func c10MakeExt(s string) c10Ext {
	sub, val := c10ExtMember(s)
	i := strings.LastIndexByte(val, ':')
	g, l := val[:i], val[i+1:]
	raw := make([]byte, 8)
	switch {
	case sub == "lb":
		// non-transitive two-octet-AS link bandwidth (type 0x40 sub-type 0x04), IEEE float
		as, _ := strconv.ParseUint(g, 10, 16)
		raw[0], raw[1] = 0x40, 0x04
		raw[2], raw[3] = byte(as>>8), byte(as)
		copy(raw[4:], c10LBBytes[l])
	case strings.Contains(g, "."):
		a := netip.MustParseAddr(g).As4()
		la, _ := strconv.ParseUint(l, 10, 16)
		raw[0], raw[1] = 0x01, c10SubTypes[sub]
		copy(raw[2:6], a[:])
		raw[6], raw[7] = byte(la>>8), byte(la)
	default:
		as, _ := strconv.ParseUint(g, 10, 16)
		la, _ := strconv.ParseUint(l, 10, 32)
		raw[0], raw[1] = 0x00, c10SubTypes[sub]
		raw[2], raw[3] = byte(as>>8), byte(as)
		raw[4], raw[5], raw[6], raw[7] = byte(la>>24), byte(la>>16), byte(la>>8), byte(la)
	}
	return c10Ext{Raw: fmt.Sprintf("%x", raw), Sub: sub, Text: val}
}

// IEEE-754 single precision of the bandwidth values used in the universe.
var c10LBBytes = map[string][]byte{"125000": {0x47, 0xf4, 0x24, 0x00}}

// c10EncodeExt6: "rt:<ipv6>:<n>" is an IPv6-address-specific community (RFC 5701, 20 octets, its own attribute).
func c10EncodeExt6(s string) (string, bool) {
	sub, val := c10ExtMember(s)
	i := strings.LastIndexByte(val, ':')
	if i < 0 {
		return "", false
	}
	a, err := netip.ParseAddr(val[:i])
	if err != nil || !a.Is6() {
		return "", false
	}
	la, _ := strconv.ParseUint(val[i+1:], 10, 16)
	raw := make([]byte, 20)
	raw[0], raw[1] = 0x00, c10SubTypes[sub]
	b := a.As16()
	copy(raw[2:18], b[:])
	raw[18], raw[19] = byte(la>>8), byte(la)
	return fmt.Sprintf("%x", raw), true
}

// c10Result of interpreting a program for one route.
type c10Result struct {
	Accept  bool
	Out     c10Route
	Unspec  map[string]bool // projected fields the model leaves open
	Applied []bool          // per statement (flattened), did it apply
	Decided string          // "stmt" | "default"
}

// run interprets prog (policies in order) with the given default.
func (m *c10Ref) run(prog c10Prog, def string, in c10Route, e c10Env) c10Result {
	res := c10Result{Out: in.clone(), Unspec: map[string]bool{}}
	for _, pol := range prog.Policies {
		for _, st := range pol {
			ok := true
			for _, c := range st.Conds {
				v, _ := m.evalCond(c, res.Out, e)
				if !v {
					ok = false
					break
				}
			}
			res.Applied = append(res.Applied, ok)
			if !ok {
				continue
			}
			for _, a := range st.Acts {
				if u := m.applyAct(a, &res.Out, e); u != "" {
					res.Unspec[u] = true
				}
			}
			switch st.Disp {
			case "accept":
				res.Accept, res.Decided = true, "stmt"
				return res
			case "reject":
				res.Accept, res.Decided = false, "stmt"
				return res
			}
		}
	}
	res.Accept, res.Decided = def == "accept", "default"
	return res
}

// ---- canonical flat projection (shared by both sides; operates on plain data only) ----

type c10Flat struct {
	NH     string
	Origin int
	Path   []c10Seg // adjacent sequences merged, set members sorted
	MED    int64
	LP     int64
	Comms  []uint32   // sorted, duplicates removed
	Ext    []string   // raw hex, sorted, duplicates removed
	Ext6   []string   // raw hex, sorted, duplicates removed
	Large  []c10Large // sorted, duplicates removed
}

// c10CanonPath: adjacent sequence segments of the same kind are one sequence (an implementation may
// split a sequence at 255 members); the order inside a set carries no meaning.
func c10CanonPath(p []c10Seg) []c10Seg {
	var out []c10Seg
	for _, s := range p {
		if len(s.AS) == 0 {
			continue
		}
		if n := len(out); n > 0 && out[n-1].T == s.T && (s.T == c10SegSeq || s.T == c10SegConfedSeq) {
			out[n-1].AS = append(append([]uint32{}, out[n-1].AS...), s.AS...)
			continue
		}
		as := s.AS
		if s.T == c10SegSet || s.T == c10SegConfedSet {
			as = append([]uint32{}, as...)
			sort.Slice(as, func(i, j int) bool { return as[i] < as[j] })
		}
		out = append(out, c10Seg{s.T, as})
	}
	return out
}

// c10PathShow: run-length rendering for messages (keeps 255-fold prepends short).
func c10PathShow(p []c10Seg) string {
	var b strings.Builder
	for _, s := range p {
		fmt.Fprintf(&b, "<%d:", s.T)
		as := s.AS
		for i := 0; i < len(as); {
			j := i
			for j < len(as) && as[j] == as[i] {
				j++
			}
			if j-i > 1 {
				fmt.Fprintf(&b, " %dx%d", as[i], j-i)
			} else {
				fmt.Fprintf(&b, " %d", as[i])
			}
			i = j
		}
		b.WriteString(">")
	}
	return b.String()
}

func (f c10Flat) String() string {
	var cs, ls []string
	for _, c := range f.Comms {
		cs = append(cs, c10CommStr(c))
	}
	for _, l := range f.Large {
		ls = append(ls, l.String())
	}
	return fmt.Sprintf("{nexthop=%s origin=%d path=%s med=%d localpref=%d comm=%v ext=%v ext6=%v large=%v}", f.NH, f.Origin, c10PathShow(f.Path), f.MED, f.LP, cs, f.Ext, f.Ext6, ls)
}

func c10SortedSet[T any](l []T, less func(a, b T) bool) []T {
	if len(l) == 0 {
		return nil
	}
	o := append([]T{}, l...)
	sort.Slice(o, func(i, j int) bool { return less(o[i], o[j]) })
	w := 1
	for i := 1; i < len(o); i++ {
		if less(o[w-1], o[i]) {
			o[w] = o[i]
			w++
		}
	}
	return o[:w]
}

func c10LargeLess(a, b c10Large) bool {
	for i := 0; i < 3; i++ {
		if a[i] != b[i] {
			return a[i] < b[i]
		}
	}
	return false
}

// c10Flatten: communities of all three kinds are compared as sets (order and multiplicity carry no
// meaning in BGP), everything else literally.
func c10Flatten(r c10Route) c10Flat {
	f := c10Flat{NH: r.NH, Origin: r.Origin, Path: c10CanonPath(r.Path), MED: r.MED, LP: r.LP}
	f.Comms = c10SortedSet(r.Comms, func(a, b uint32) bool { return a < b })
	es := make([]string, 0, len(r.Ext))
	for _, e := range r.Ext {
		es = append(es, e.Raw)
	}
	f.Ext = c10SortedSet(es, func(a, b string) bool { return a < b })
	f.Ext6 = c10SortedSet(r.Ext6, func(a, b string) bool { return a < b })
	f.Large = c10SortedSet(r.Large, c10LargeLess)
	return f
}

func c10SameNH(a, b string) bool {
	if a == b {
		return true
	}
	x, e1 := netip.ParseAddr(a)
	y, e2 := netip.ParseAddr(b)
	return e1 == nil && e2 == nil && x.Unmap() == y.Unmap()
}

func c10SamePath(a, b []c10Seg) bool {
	if len(a) != len(b) {
		return false
	}
	for i := range a {
		if a[i].T != b[i].T || !c10SameSlice(a[i].AS, b[i].AS) {
			return false
		}
	}
	return true
}

func c10SameSlice[T comparable](a, b []T) bool {
	if len(a) != len(b) {
		return false
	}
	for i := range a {
		if a[i] != b[i] {
			return false
		}
	}
	return true
}

// c10FlatDiff lists the fields in which two projections differ (skipping those in unspec).
func c10FlatDiff(a, b c10Flat, unspec map[string]bool) []string {
	var d []string
	add := func(n string, ne bool) {
		if ne && !unspec[n] {
			d = append(d, n)
		}
	}
	add("nexthop", !c10SameNH(a.NH, b.NH))
	add("origin", a.Origin != b.Origin)
	add("path", !c10SamePath(a.Path, b.Path))
	add("med", a.MED != b.MED)
	add("localpref", a.LP != b.LP)
	add("comm", !c10SameSlice(a.Comms, b.Comms))
	add("ext", !c10SameSlice(a.Ext, b.Ext))
	add("ext6", !c10SameSlice(a.Ext6, b.Ext6))
	add("large", !c10SameSlice(a.Large, b.Large))
	return d
}

// ---- catalogues -----------------------------------------------------------------------------------

func c10CondAtoms() []c10Cond {
	var l []c10Cond
	pfx := []struct {
		n string
		e []c10PfxEnt
	}{
		{"ps-exact", []c10PfxEnt{{"10.1.0.0/16", -1, -1}}},
		{"ps-16-24", []c10PfxEnt{{"10.1.0.0/16", 16, 24}}},
		{"ps-8-32", []c10PfxEnt{{"10.0.0.0/8", 8, 32}}},
		{"ps-any4", []c10PfxEnt{{"0.0.0.0/0", 0, 32}}},
		{"ps-longer", []c10PfxEnt{{"10.1.0.0/16", 24, 32}}},
		{"ps-below", []c10PfxEnt{{"10.32.0.0/16", 8, 24}}},
		{"ps-two", []c10PfxEnt{{"10.1.0.0/16", -1, -1}, {"192.168.0.0/16", 16, 16}}},
		{"ps-dup", []c10PfxEnt{{"10.1.0.0/16", 16, 16}, {"10.1.0.0/16", 25, 25}}},
		// nested entries with different ranges: every covering entry counts, not only the longest match
		{"ps-nested", []c10PfxEnt{{"10.0.0.0/8", 24, 24}, {"10.1.0.0/16", 16, 20}}},
		{"ps-nested-rev", []c10PfxEnt{{"10.0.0.0/8", 8, 12}, {"10.1.0.0/16", 24, 32}}},
		{"ps-nested6", []c10PfxEnt{{"2001:db8::/32", 48, 48}, {"2001:db8:1::/48", 56, 64}}},
		{"ps-v6", []c10PfxEnt{{"2001:db8::/32", 32, 48}}},
		{"ps-any6", []c10PfxEnt{{"::/0", 0, 128}}},
	}
	for _, p := range pfx {
		for _, o := range []string{"any", "invert"} {
			l = append(l, c10Cond{Kind: "prefix", Opt: o, Set: p.n, Pfx: p.e})
		}
	}
	nbr := []struct {
		n string
		m []string
	}{
		{"ns-host", []string{"10.0.0.1"}},
		{"ns-net", []string{"10.0.0.0/24"}},
		{"ns-v6", []string{"2001:db8:ffff::1"}},
		{"ns-two", []string{"10.0.0.9", "10.0.0.2"}},
		{"ns-empty", nil},
	}
	for _, n := range nbr {
		for _, o := range []string{"any", "invert"} {
			l = append(l, c10Cond{Kind: "neighbor", Opt: o, Set: n.n, Members: n.m})
		}
	}
	for _, m := range [][]string{{"192.0.2.1"}, {"192.0.2.7", "2001:db8::1"}, {"198.51.100.1"}} {
		l = append(l, c10Cond{Kind: "nexthop", Members: m})
	}
	asp := []struct {
		n string
		m []string
	}{
		{"as-left", []string{"^65001_"}},
		{"as-origin", []string{"_65001$"}},
		{"as-incl", []string{"_65001_"}},
		{"as-only", []string{"^65001$"}},
		{"as-re", []string{"^65001_65002"}},
		{"as-mix", []string{"_65002_", "^65001_[0-9]+$"}},
		{"as-empty", []string{"^$"}},
		{"as-incl-confed", []string{"_65101_"}},
	}
	for _, a := range asp {
		for _, o := range []string{"any", "all", "invert"} {
			l = append(l, c10Cond{Kind: "aspath", Opt: o, Set: a.n, Members: a.m})
		}
	}
	com := []struct {
		n string
		m []string
	}{
		{"cs-one", []string{"65001:100"}},
		{"cs-two", []string{"65001:100", "65001:200"}},
		{"cs-re", []string{"^6500[12]:100$"}},
		{"cs-mix", []string{"65001:100", "^65002:.*$"}},
	}
	for _, a := range com {
		for _, o := range []string{"any", "all", "invert"} {
			l = append(l, c10Cond{Kind: "comm", Opt: o, Set: a.n, Members: a.m})
		}
	}
	ext := []struct {
		n string
		m []string
	}{
		{"es-one", []string{"rt:65001:100"}},
		{"es-two", []string{"rt:65001:100", "soo:65001:200"}},
		{"es-re", []string{"rt:^65001:.*$"}},
		{"es-ip", []string{"rt:10.0.0.1:100"}},
	}
	for _, a := range ext {
		for _, o := range []string{"any", "all", "invert"} {
			l = append(l, c10Cond{Kind: "ext", Opt: o, Set: a.n, Members: a.m})
		}
	}
	lrg := []struct {
		n string
		m []string
	}{
		{"ls-one", []string{"65001:1:1"}},
		{"ls-two", []string{"65001:1:1", "65001:2:2"}},
		{"ls-re", []string{"^65001:.*:.*$"}},
	}
	for _, a := range lrg {
		for _, o := range []string{"any", "all", "invert"} {
			l = append(l, c10Cond{Kind: "large", Opt: o, Set: a.n, Members: a.m})
		}
	}
	for _, op := range []string{"eq", "ge", "le"} {
		for _, v := range []uint32{0, 1, 2, 3} {
			l = append(l, c10Cond{Kind: "aslen", Op: op, Val: v})
		}
	}
	for _, op := range []string{"eq", "ge", "le"} {
		for _, v := range []uint32{0, 1, 2} {
			l = append(l, c10Cond{Kind: "commcount", Op: op, Val: v})
		}
	}
	for _, s := range []string{"igp", "egp", "incomplete"} {
		l = append(l, c10Cond{Kind: "origin", Str: s})
	}
	for _, s := range []string{"internal", "external", "local"} {
		l = append(l, c10Cond{Kind: "rtype", Str: s})
	}
	for _, s := range []string{"valid", "invalid", "not-found"} {
		l = append(l, c10Cond{Kind: "rpki", Str: s})
	}
	for _, m := range [][]string{{"ipv4-unicast"}, {"ipv6-unicast"}, {"ipv4-unicast", "ipv6-unicast"}, {"l3vpn-ipv4-unicast"}} {
		l = append(l, c10Cond{Kind: "afisafi", Members: m})
	}
	for _, v := range []uint32{100, 200} {
		l = append(l, c10Cond{Kind: "lpeq", Val: v})
	}
	for _, v := range []uint32{10, 4294967295} {
		l = append(l, c10Cond{Kind: "medeq", Val: v})
	}
	return l
}

func c10ActAtoms() []c10Act {
	var l []c10Act
	l = append(l,
		c10Act{Kind: "comm", Opt: "add", Members: []string{"65000:1"}},
		c10Act{Kind: "comm", Opt: "add", Members: []string{"65000:2", "65000:3"}},
		c10Act{Kind: "comm", Opt: "remove", Members: []string{"65001:100"}},
		c10Act{Kind: "comm", Opt: "remove", Members: []string{"^65001:.*$"}},
		c10Act{Kind: "comm", Opt: "replace", Members: []string{"65000:9"}},
		c10Act{Kind: "comm", Opt: "replace"},
		c10Act{Kind: "ext", Opt: "add", Members: []string{"rt:65000:1"}},
		c10Act{Kind: "ext", Opt: "add", Members: []string{"soo:65000:2", "rt:65000:3"}},
		c10Act{Kind: "ext", Opt: "add", Members: []string{"rt:2001:db8::1:100"}},
		c10Act{Kind: "ext", Opt: "remove", Members: []string{"rt:65001:100"}},
		c10Act{Kind: "ext", Opt: "remove", Members: []string{"rt:^65001:.*$"}},
		c10Act{Kind: "ext", Opt: "replace", Members: []string{"rt:65000:9"}},
		c10Act{Kind: "ext", Opt: "replace"},
		c10Act{Kind: "large", Opt: "add", Members: []string{"65000:1:1"}},
		c10Act{Kind: "large", Opt: "add", Members: []string{"65000:2:2", "65000:3:3"}},
		c10Act{Kind: "large", Opt: "remove", Members: []string{"65001:1:1"}},
		c10Act{Kind: "large", Opt: "remove", Members: []string{"^65001:.*$"}},
		c10Act{Kind: "large", Opt: "replace", Members: []string{"65000:9:9"}},
		c10Act{Kind: "large", Opt: "replace"},
	)
	for _, s := range []string{"10", "0", "4294967295", "+10", "-10", "+4294967295", "+0"} {
		l = append(l, c10Act{Kind: "med", Str: s})
	}
	for _, v := range []uint32{200, 4294967295} {
		l = append(l, c10Act{Kind: "lp", Val: v})
	}
	for _, s := range []string{"igp", "egp", "incomplete"} {
		l = append(l, c10Act{Kind: "origin", Str: s})
	}
	l = append(l,
		c10Act{Kind: "prepend", Str: "65000", N: 1},
		c10Act{Kind: "prepend", Str: "65000", N: 3},
		c10Act{Kind: "prepend", Str: "last-as", N: 2},
		c10Act{Kind: "prepend", Str: "65000", N: 255},
		c10Act{Kind: "prepend", Str: "4200000000", N: 1},
	)
	for _, s := range []string{"192.0.2.99", "2001:db8::99", "self", "peer-address", "unchanged"} {
		l = append(l, c10Act{Kind: "nh", Str: s})
	}
	return l
}

func c10Comms(s ...string) []uint32 {
	var l []uint32
	for _, x := range s {
		l = append(l, c10ParseComm(x))
	}
	return l
}
func c10Exts(s ...string) []c10Ext {
	var l []c10Ext
	for _, x := range s {
		l = append(l, c10MakeExt(x))
	}
	return l
}
func c10Larges(s ...string) []c10Large {
	var l []c10Large
	for _, x := range s {
		l = append(l, c10ParseLarge(x))
	}
	return l
}
func c10Seq(as ...uint32) c10Seg { return c10Seg{c10SegSeq, as} }

func c10Routes() []c10Route {
	e1, i2, e9 := "10.0.0.1", "10.0.0.2", "10.0.0.9"
	return []c10Route{
		{Name: "R0", Prefix: "10.1.0.0/16", Src: e1, SrcAS: 65001, NH: "192.0.2.1", Origin: 0, Path: []c10Seg{c10Seq(65001)}, MED: -1, LP: -1},
		{Name: "R1", Prefix: "10.1.1.0/24", Src: e1, SrcAS: 65001, NH: "192.0.2.1", Origin: 1, Path: []c10Seg{c10Seq(65001, 65002)}, MED: 10, LP: -1, Comms: c10Comms("65001:100")},
		{Name: "R2", Prefix: "10.1.1.128/25", Src: i2, SrcAS: c10LocalAS, NH: "192.0.2.1", Origin: 2, Path: nil, MED: 0, LP: 200,
			Comms: c10Comms("65001:100", "65001:200"), Ext: c10Exts("rt:65001:100"), Large: c10Larges("65001:1:1")},
		{Name: "R3", Prefix: "10.0.0.0/8", Src: e1, SrcAS: 65001, NH: "192.0.2.1", Origin: 0, Path: []c10Seg{c10Seq(65001), {c10SegSet, []uint32{65002, 65003}}}, MED: -1, LP: -1,
			Comms: c10Comms("65002:5"), Ext: c10Exts("rt:65001:100", "soo:65001:200"), Large: c10Larges("65001:1:1", "65001:2:2", "65002:3:3")},
		{Name: "R4", Prefix: "0.0.0.0/0", Src: "", NH: "192.0.2.1", Origin: 0, Path: nil, MED: -1, LP: 100},
		{Name: "R5", Prefix: "10.1.1.1/32", Src: e9, SrcAS: 65002, NH: "192.0.2.7", Origin: 0, Path: []c10Seg{c10Seq(65002, 65001)}, MED: 4294967295, LP: 100,
			Comms: c10Comms("65002:100", "65001:200", "65003:1")},
		{Name: "R6", Prefix: "10.32.0.0/12", Src: e1, SrcAS: 65001, NH: "192.0.2.1", Origin: 0, Path: []c10Seg{c10Seq(65001)}, MED: -1, LP: -1},
		{Name: "R7", Prefix: "192.168.0.0/16", Src: e1, SrcAS: 65001, NH: "192.0.2.1", Origin: 0, Path: []c10Seg{c10Seq(65001, 65001, 65001)}, MED: 5, LP: -1,
			Ext: c10Exts("lb:65001:125000", "rt:65001:100")},
		{Name: "R8", Prefix: "10.1.2.0/24", Src: e1, SrcAS: 65001, NH: "192.0.2.1", Origin: 0, Path: []c10Seg{{c10SegConfedSeq, []uint32{65101}}, c10Seq(65001)}, MED: -1, LP: -1,
			Ext: c10Exts("rt:10.0.0.1:100")},
		{Name: "R9", Prefix: "10.1.0.0/16", Src: i2, SrcAS: c10LocalAS, NH: "192.0.2.7", Origin: 0, Path: []c10Seg{c10Seq(65002)}, MED: -1, LP: 4294967295},
		{Name: "R10", Prefix: "10.1.3.0/24", Src: e1, SrcAS: 65001, NH: "192.0.2.1", Origin: 2, Path: []c10Seg{{c10SegSet, []uint32{65001}}}, MED: -1, LP: -1,
			Comms: c10Comms("65001:100", "65002:100"), Large: c10Larges("65001:2:2")},
		{Name: "S0", V6: true, Prefix: "2001:db8::/32", Src: "2001:db8:ffff::1", SrcAS: 65001, NH: "2001:db8::1", Origin: 0, Path: []c10Seg{c10Seq(65001)}, MED: -1, LP: -1},
		{Name: "S1", V6: true, Prefix: "2001:db8:1::/48", Src: i2, SrcAS: c10LocalAS, NH: "2001:db8::1", Origin: 1, Path: nil, MED: 10, LP: 200,
			Comms: c10Comms("65001:100"), Large: c10Larges("65001:1:1")},
		{Name: "S2", V6: true, Prefix: "::/0", Src: "", NH: "2001:db8::1", Origin: 0, Path: nil, MED: -1, LP: -1},
		{Name: "S3", V6: true, Prefix: "2001:db8::1/128", Src: "2001:db8:ffff::1", SrcAS: 65001, NH: "2001:db8::7", Origin: 0, Path: []c10Seg{c10Seq(65001, 65002)}, MED: -1, LP: -1,
			Ext: c10Exts("rt:65001:100")},
	}
}

func c10Envs() []c10Env {
	return []c10Env{
		{Name: "e0"},
		{Name: "e1", Peer: "10.0.0.9", Local: "10.0.0.254", RPKI: "valid"},
		{Name: "e2", Peer: "10.0.0.1", Local: "10.0.0.254", OldNH: "192.0.2.7", RPKI: "invalid"},
		{Name: "e3", Peer: "2001:db8:ffff::1", Local: "2001:db8:ffff::fe", Confed: true, RPKI: "not-found"},
	}
}

type c10Elem struct {
	R c10Route `json:"route"`
	E c10Env   `json:"env"`
}

// c10Universe: every route under the empty context, six of them under each of the three peer contexts.
func c10Universe() []c10Elem {
	var u []c10Elem
	rs, es := c10Routes(), c10Envs()
	for _, r := range rs {
		u = append(u, c10Elem{r, es[0]})
	}
	for _, e := range es[1:] {
		for _, r := range rs {
			switch r.Name {
			case "R0", "R2", "R4", "R5", "S0", "S2":
				u = append(u, c10Elem{r, e})
			}
		}
	}
	return u
}
