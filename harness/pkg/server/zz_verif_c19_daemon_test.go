package server

// C19 part "daemon" — "the MRT records the daemon emits for sessions and tables parse back to the same
// peers, routes and attributes".
//
// One synctest bubble per case: a real BgpServer with three established peers
//   a  eBGP AS 65001, ADD-PATH (the daemon receives path ids) for IPv4 and IPv6 unicast,
//   b  eBGP AS 4200000002 (a 4-octet AS), plain,
//   c  eBGP AS 65003 WITHOUT the 4-octet AS capability (2-octet session),
// MRT "updates" dumping switched on before any route, then — per case — a subset of the sources
// {a path-id 1, a path-id 2, b, c, local (API)} announces one shared IPv4 prefix and another subset one
// shared IPv6 prefix (every subset of each: 32 x 32 cases,
// both tiers), plus one control prefix from b; finally MRT "table" dumping is switched on and virtual time
// moves past the dump interval. Both files are split with mrt.SplitMrt and parsed with mrt.ParseHeader /
// ParseBody (the C19 part mrt decides those parsers):
//   updates: the BGP4MP records are, in order, exactly the UPDATEs the bots sent (payload bytes), each with
//            the sender's address / AS, the local address / AS, and the subtype its session calls for
//            (AS4 iff 4-octet session, ADDPATH iff path ids are received on it);
//   table:   PEER_INDEX_TABLE first, collector id = router id; the set of (family, prefix, peer address,
//            peer AS, peer BGP id, path id, attributes, originated time) over all RIB records == the Loc-RIB.

import (
	"bytes"
	"context"
	"fmt"
	"net/netip"
	"os"
	"path/filepath"
	"runtime/debug"
	"sort"
	"strings"
	"testing"
	"testing/synctest"
	"time"

	api "github.com/osrg/gobgp/v4/api"
	"github.com/osrg/gobgp/v4/internal/verif/vr"
	"github.com/osrg/gobgp/v4/pkg/apiutil"
	"github.com/osrg/gobgp/v4/pkg/config/oc"
	"github.com/osrg/gobgp/v4/pkg/packet/bgp"
	"github.com/osrg/gobgp/v4/pkg/packet/mrt"
)

type c19dCase struct {
	V4 int `json:"v4"` // bit 0: a id 1, bit 1: a id 2, bit 2: b, bit 3: c, bit 4: local
	V6 int `json:"v6"`
}

func (c c19dCase) String() string {
	n := func(m int) string {
		var s []string
		for i, x := range []string{"a#1", "a#2", "b", "c", "local"} {
			if m&(1<<i) != 0 {
				s = append(s, x)
			}
		}
		return "{" + strings.Join(s, ",") + "}"
	}
	return fmt.Sprintf("10.1.0.0/24 from %s, 2001:db8:1::/64 from %s", n(c.V4), n(c.V6))
}

const (
	c19dP4   = "10.1.0.0/24"
	c19dP6   = "2001:db8:1::/64"
	c19dCtl  = "10.2.0.0/24"
	c19dAS_B = 4200000002
)

var c19dSeq uint64

type c19dSent struct {
	bot string
	raw []byte
}

type c19dObs struct {
	Panic, SetupFail string
	Sent             []c19dSent
	Updates, Table   []byte
	Rib              []simRibRoute
	Peers            map[string]*simBot
}

func c19dAttrs(b *simBot, fam bgp.Family, nlri bgp.NLRI, id uint32, med uint32) *bgp.BGPMessage {
	var as []bgp.AsPathParamInterface
	if b.spec.No4Octet {
		as = []bgp.AsPathParamInterface{bgp.NewAsPathParam(bgp.BGP_ASPATH_ATTR_TYPE_SEQ, []uint16{uint16(b.spec.AS)})}
	} else {
		as = []bgp.AsPathParamInterface{bgp.NewAs4PathParam(bgp.BGP_ASPATH_ATTR_TYPE_SEQ, []uint32{b.spec.AS})}
	}
	attrs := []bgp.PathAttributeInterface{bgp.NewPathAttributeOrigin(0), bgp.NewPathAttributeAsPath(as), bgp.NewPathAttributeMultiExitDisc(med)}
	if fam == bgp.RF_IPv4_UC {
		nh, _ := bgp.NewPathAttributeNextHop(b.addr())
		attrs = append(attrs, nh)
		return bgp.NewBGPUpdateMessage(nil, attrs, []bgp.PathNLRI{{NLRI: nlri, ID: id}})
	}
	mp, err := bgp.NewPathAttributeMpReachNLRI(fam, []bgp.PathNLRI{{NLRI: nlri, ID: id}}, netip.MustParseAddr(fmt.Sprintf("2001:db8::%d", b.spec.IP[3])))
	if err != nil {
		panic(err)
	}
	attrs = append(attrs, mp)
	return bgp.NewBGPUpdateMessage(nil, attrs, nil)
}

func c19dRun(t *testing.T, c c19dCase) (o c19dObs) {
	// the daemon passes the file name through time.Format (rotation templates such as 20060102.dump): the
	// scratch path must not contain digits or other layout tokens
	enc := func(n uint64) string {
		const al = "qxkvwgh"
		s := ""
		for n > 0 {
			s += string(al[n%7])
			n /= 7
		}
		return s
	}
	c19dSeq++
	dir := filepath.Join(os.TempDir(), "verifcd"+enc(uint64(os.Getpid()))+"x"+enc(c19dSeq))
	if err := os.MkdirAll(dir, 0o755); err != nil {
		o.SetupFail = err.Error()
		return
	}
	if strings.ContainsAny(dir, "0123456789") {
		o.SetupFail = "scratch directory contains digits: " + dir
		return
	}
	defer os.RemoveAll(dir)
	synctest.Test(t, func(t *testing.T) {
		w := &simWorld{t: t}
		defer func() {
			if r := recover(); r != nil {
				o.Panic = fmt.Sprintf("%v\n%s", r, debug.Stack())
			}
			func() {
				defer func() {
					if r := recover(); r != nil && o.Panic == "" {
						o.Panic = fmt.Sprintf("teardown: %v\n%s", r, debug.Stack())
					}
				}()
				if w.s != nil {
					c19dStopWriters(w)
					w.stop(true)
				}
			}()
		}()
		w.start()
		fams := []bgp.Family{bgp.RF_IPv4_UC, bgp.RF_IPv6_UC}
		ap := map[bgp.Family]bgp.BGPAddPathMode{bgp.RF_IPv4_UC: bgp.BGP_ADD_PATH_SEND, bgp.RF_IPv6_UC: bgp.BGP_ADD_PATH_SEND}
		a := w.addBot(simBotSpec{Name: "a", IP: [4]byte{10, 0, 0, 1}, AS: 65001, RouterID: [4]byte{1, 1, 1, 1}, Families: fams, AddPath: ap,
			Neighbor: func(n *oc.Neighbor) {
				for j := range n.AfiSafis {
					n.AfiSafis[j].AddPaths.Config.Receive = true
				}
			}})
		b := w.addBot(simBotSpec{Name: "b", IP: [4]byte{10, 0, 0, 2}, AS: c19dAS_B, RouterID: [4]byte{1, 1, 1, 2}, Families: fams})
		cc := w.addBot(simBotSpec{Name: "c", IP: [4]byte{10, 0, 0, 3}, AS: 65003, RouterID: [4]byte{1, 1, 1, 3}, Families: fams, No4Octet: true})
		o.Peers = map[string]*simBot{"10.0.0.1": a, "10.0.0.2": b, "10.0.0.3": cc}
		w.advance(time.Second)
		for _, x := range w.bots {
			if !x.handshake() {
				o.SetupFail = "session with " + x.spec.Name + " did not establish"
				return
			}
		}
		w.advance(time.Second)
		upd := filepath.Join(dir, "updates.mrt")
		tbl := filepath.Join(dir, "table.mrt")
		if err := w.s.EnableMrt(context.Background(), &api.EnableMrtRequest{DumpType: api.EnableMrtRequest_DUMP_TYPE_UPDATES, Filename: upd}); err != nil {
			o.SetupFail = "EnableMrt(updates): " + err.Error()
			return
		}
		w.settle()
		send := func(bot *simBot, m *bgp.BGPMessage) {
			bot.mu.Lock()
			opts := bot.opts
			bot.mu.Unlock()
			raw, err := m.Serialize(opts)
			if err != nil {
				panic("c19d: " + err.Error())
			}
			o.Sent = append(o.Sent, c19dSent{bot.spec.Name, raw})
			bot.send(raw)
			w.settle()
			w.advance(time.Second) // distinct timestamps, one record per UPDATE in send order
		}
		n4, _ := bgp.NewIPAddrPrefix(netip.MustParsePrefix(c19dP4))
		n6, _ := bgp.NewIPAddrPrefix(netip.MustParsePrefix(c19dP6))
		nc, _ := bgp.NewIPAddrPrefix(netip.MustParsePrefix(c19dCtl))
		for _, fm := range []struct {
			mask int
			fam  bgp.Family
			nlri bgp.NLRI
		}{{c.V4, bgp.RF_IPv4_UC, n4}, {c.V6, bgp.RF_IPv6_UC, n6}} {
			if fm.mask&1 != 0 {
				send(a, c19dAttrs(a, fm.fam, fm.nlri, 1, 11))
			}
			if fm.mask&2 != 0 {
				send(a, c19dAttrs(a, fm.fam, fm.nlri, 2, 12))
			}
			if fm.mask&4 != 0 {
				send(b, c19dAttrs(b, fm.fam, fm.nlri, 0, 20))
			}
			if fm.mask&8 != 0 {
				send(cc, c19dAttrs(cc, fm.fam, fm.nlri, 0, 30))
			}
			if fm.mask&16 != 0 {
				attrs := []bgp.PathAttributeInterface{bgp.NewPathAttributeOrigin(0)}
				if fm.fam == bgp.RF_IPv4_UC {
					nh, _ := bgp.NewPathAttributeNextHop(netip.MustParseAddr("10.0.0.200"))
					attrs = append(attrs, nh)
				} else {
					mp, _ := bgp.NewPathAttributeMpReachNLRI(fm.fam, []bgp.PathNLRI{{NLRI: fm.nlri}}, netip.MustParseAddr("2001:db8::200"))
					attrs = append(attrs, mp)
				}
				if _, err := w.s.AddPath(apiutil.AddPathRequest{Paths: []*apiutil.Path{{Family: fm.fam, Nlri: fm.nlri, Attrs: attrs}}}); err != nil {
					o.SetupFail = "AddPath: " + err.Error()
					return
				}
				w.settle()
			}
		}
		send(b, c19dAttrs(b, bgp.RF_IPv4_UC, nc, 0, 21))
		w.advance(time.Second)
		o.Rib = w.ribDump(w.s.globalRib)
		c19dStopWriters(w)
		if err := w.s.EnableMrt(context.Background(), &api.EnableMrtRequest{DumpType: api.EnableMrtRequest_DUMP_TYPE_TABLE, Filename: tbl, DumpInterval: 60}); err != nil {
			o.SetupFail = "EnableMrt(table): " + err.Error()
			return
		}
		w.settle()
		w.advance(61 * time.Second)
		o.Updates, _ = os.ReadFile(upd)
		o.Table, _ = os.ReadFile(tbl)
	})
	return o
}

// c19dStopWriters ends every MRT writer. (The DisableMrt API cannot: it looks the writer up under an
// empty file name whatever the request says; StopBgp leaves the writers running as well. Neither is a
// subject of C19.)
func c19dStopWriters(w *simWorld) {
	w.must(w.s.mgmtOperation(func() error {
		for name, wr := range w.s.mrtManager.writer {
			wr.Stop()
			delete(w.s.mrtManager.writer, name)
		}
		return nil
	}, false))
	w.settle()
}

func c19dSplit(data []byte) ([]*mrt.MRTMessage, string) {
	var out []*mrt.MRTMessage
	for len(data) > 0 {
		adv, tok, err := mrt.SplitMrt(data, true)
		if err != nil || adv == 0 || len(tok) == 0 {
			return out, fmt.Sprintf("splitter stops with %d octets left (err=%v)", len(data), err)
		}
		h, err := mrt.ParseHeader(tok)
		if err != nil {
			return out, "header: " + err.Error()
		}
		hl := mrt.MRT_COMMON_HEADER_LEN
		if h.Type.HasExtendedTimestamp() {
			hl += 4
		}
		m, err := mrt.ParseBody(tok[hl:], h)
		if err != nil {
			return out, fmt.Sprintf("record %d (type %d subtype %d, %d octets) does not parse: %v [% x]", len(out), h.Type, h.SubType, len(tok), err, tok[:min(len(tok), 80)])
		}
		out = append(out, m)
		data = data[adv:]
	}
	return out, ""
}

func c19dJudge(r *vr.Report, c c19dCase, o c19dObs) {
	viol := func(key, format string, a ...any) {
		r.Violationf("C19:daemon:"+key, c, "%s: %s", c, fmt.Sprintf(format, a...))
	}
	if o.SetupFail != "" {
		panic("C19 daemon engine: " + o.SetupFail)
	}
	if o.Panic != "" {
		viol("panic:"+simCrashSite(o.Panic), "panic in the daemon: %s", simTail(o.Panic, 1500))
		return
	}
	r.NT(fmt.Sprint(c))
	// ---- updates ----
	recs, e := c19dSplit(o.Updates)
	if e != "" {
		viol("updates:unparsable", "the BGP4MP file: %s", e)
	} else {
		if len(recs) != len(o.Sent) {
			viol("updates:record-count", "%d UPDATEs were received from the peers, the file holds %d BGP4MP records", len(o.Sent), len(recs))
		}
		for i := 0; i < len(recs) && i < len(o.Sent); i++ {
			m, ok := recs[i].Body.(*mrt.BGP4MPMessage)
			if !ok || recs[i].Header.Type != mrt.BGP4MP {
				viol("updates:record-type", "record %d is type %d subtype %d", i, recs[i].Header.Type, recs[i].Header.SubType)
				continue
			}
			var bot *simBot
			for _, b := range o.Peers {
				if b.spec.Name == o.Sent[i].bot {
					bot = b
				}
			}
			wantSub := mrt.MESSAGE
			as4, addpath := !bot.spec.No4Octet, len(bot.spec.AddPath) > 0
			switch {
			case as4 && addpath:
				wantSub = mrt.MESSAGE_AS4_ADDPATH
			case addpath:
				wantSub = mrt.MESSAGE_ADDPATH
			case as4:
				wantSub = mrt.MESSAGE_AS4
			}
			r.Outcome(fmt.Sprintf("updates:subtype=%d", wantSub))
			if mrt.MRTSubTypeBGP4MP(recs[i].Header.SubType) != wantSub {
				viol(fmt.Sprintf("updates:subtype:want=%d:got=%d", wantSub, recs[i].Header.SubType), "record %d (UPDATE of %s): subtype %d, the session (4-octet AS %v, path ids %v) calls for %d", i, bot.spec.Name, recs[i].Header.SubType, as4, addpath, wantSub)
			}
			if m.PeerAS != bot.spec.AS || m.LocalAS != 65000 || m.PeerIpAddress != bot.addr() || m.LocalIpAddress != netip.MustParseAddr("10.0.0.254") {
				viol("updates:peer-header:"+bot.spec.Name, "record %d (UPDATE of %s, AS %d, %s): header says peer AS %d local AS %d peer %s local %s", i, bot.spec.Name, bot.spec.AS, bot.addr(), m.PeerAS, m.LocalAS, m.PeerIpAddress, m.LocalIpAddress)
			}
			pl := m.BGPMessagePayload
			if pl == nil && m.BGPMessage != nil {
				pl, _ = m.BGPMessage.Serialize(&bgp.MarshallingOption{AddPath: map[bgp.Family]bgp.BGPAddPathMode{bgp.RF_IPv4_UC: bgp.BGP_ADD_PATH_BOTH, bgp.RF_IPv6_UC: bgp.BGP_ADD_PATH_BOTH}})
				if !addpath {
					pl, _ = m.BGPMessage.Serialize()
				}
			}
			if !bytes.Equal(pl, o.Sent[i].raw) {
				viol("updates:payload-differs:"+bot.spec.Name, "record %d: the recorded message differs from the UPDATE %s sent\n sent     % x\n recorded % x", i, bot.spec.Name, o.Sent[i].raw, pl)
			}
		}
	}
	// ---- table ----
	recs, e = c19dSplit(o.Table)
	if e != "" {
		viol("table:unparsable", "the TABLE_DUMPv2 file: %s", e)
		return
	}
	if len(recs) == 0 {
		viol("table:empty", "no record was written %d s after table dumping (interval 60 s) was enabled", 61)
		return
	}
	pit, ok := recs[0].Body.(*mrt.PeerIndexTable)
	if !ok {
		viol("table:first-record-is-not-the-peer-index-table", "first record has subtype %d", recs[0].Header.SubType)
		return
	}
	if pit.CollectorBgpId != netip.MustParseAddr("10.0.0.254") {
		viol("table:collector-id", "collector BGP id %s, the router id is 10.0.0.254", pit.CollectorBgpId)
	}
	got := map[string]bool{}
	for i, rec := range recs[1:] {
		rib, ok := rec.Body.(*mrt.Rib)
		if !ok {
			viol("table:record-type", "record %d: subtype %d", i+1, rec.Header.SubType)
			continue
		}
		st := mrt.MRTSubTypeTableDumpv2(rec.Header.SubType)
		addpath := st >= mrt.RIB_IPV4_UNICAST_ADDPATH
		for _, en := range rib.Entries {
			if int(en.PeerIndex) >= len(pit.Peers) {
				viol("table:peer-index-out-of-range", "RIB entry of %s refers to peer %d, the index table has %d", rib.Prefix, en.PeerIndex, len(pit.Peers))
				continue
			}
			p := pit.Peers[en.PeerIndex]
			id := uint32(0)
			if addpath {
				id = en.PathIdentifier
			}
			got[fmt.Sprintf("%s|%s|peer=%s/AS%d/id=%s|pathid=%d|%s|t=%d", rib.Family, rib.Prefix, p.IpAddress, p.AS, p.BgpId, id, simAttrCanon(en.PathAttributes, nil), en.OriginatedTime)] = true
		}
	}
	want := map[string]bool{}
	for _, rt := range o.Rib {
		peer := "0.0.0.0/AS0/id=0.0.0.0" // the dummy peer record the daemon documents for locally originated routes
		id := rt.RID
		if b, ok := o.Peers[rt.Src]; ok {
			peer = fmt.Sprintf("%s/AS%d/id=%s", rt.Src, b.spec.AS, netip.AddrFrom4(b.spec.RouterID))
			if len(b.spec.AddPath) == 0 {
				id = 0
			}
		}
		want[fmt.Sprintf("%s|%s|peer=%s|pathid=%d|%s|t=%d", rt.Fam, rt.Prefix, peer, id, rt.Attrs, rt.TS)] = true
	}
	r.Outcome(fmt.Sprintf("table:routes=%d", len(want)))
	var missing, extra []string
	for k := range want {
		if !got[k] {
			missing = append(missing, k)
		}
	}
	for k := range got {
		if !want[k] {
			extra = append(extra, k)
		}
	}
	sort.Strings(missing)
	sort.Strings(extra)
	if len(missing)+len(extra) > 0 {
		cls := "routes-differ"
		switch {
		case len(missing) > 0 && len(extra) == 0:
			cls = "routes-missing"
		case len(missing) == len(extra):
			// same number: which field differs?
			strip := func(s, field string) string {
				i := strings.Index(s, field)
				if i < 0 {
					return s
				}
				j := strings.Index(s[i:], "|")
				if j < 0 {
					return s[:i]
				}
				return s[:i] + s[i+j:]
			}
			for _, f := range []string{"peer=", "pathid=", "t="} {
				a, b := []string{}, []string{}
				for _, x := range missing {
					a = append(a, strip(x, f))
				}
				for _, x := range extra {
					b = append(b, strip(x, f))
				}
				sort.Strings(a)
				sort.Strings(b)
				if fmt.Sprint(a) == fmt.Sprint(b) {
					cls = "field-differs:" + strings.TrimSuffix(f, "=")
					break
				}
			}
		}
		viol("table:"+cls, "the table dump does not parse back to the Loc-RIB\n only in the Loc-RIB: %v\n only in the dump:    %v", missing, extra)
	}
}

func c19dCases(thorough bool) []c19dCase {
	var out []c19dCase
	if thorough {
		for a := 0; a < 32; a++ {
			for b := 0; b < 32; b++ {
				out = append(out, c19dCase{a, b})
			}
		}
		return out
	}
	// quick: every subset for IPv4 with two fixed IPv6 subsets, and every subset for IPv6 with two fixed IPv4 ones
	seen := map[c19dCase]bool{}
	for m := 0; m < 32; m++ {
		for _, c := range []c19dCase{{m, 0}, {m, 31}, {0, m}, {31, m}, {m, m}} {
			if !seen[c] {
				seen[c] = true
				out = append(out, c)
			}
		}
	}
	return out
}

func TestVerif_C19_Daemon(t *testing.T) {
	r := vr.Start(t, "C19", "daemon")
	defer r.Finish()
	r.Rule = "one fresh daemon (synctest bubble, three peers established through the real FSM: ADD-PATH, 4-octet-AS plain, 2-octet-AS) per case; case = subset of {a#1, a#2, b, c, local} announcing a shared IPv4 prefix x subset announcing a shared IPv6 prefix; MRT updates dumping during the announcements, MRT table dumping afterwards (virtual time past the dump interval); both files split and parsed with the mrt package and compared with what the peers sent / the Loc-RIB. non-trivial = distinct case whose files were compared"
	r.Assumptions = append(r.Assumptions, "the BMP records the daemon emits are NOT covered: the BMP client needs a real TCP station (net.Dial + *net.TCPConn), which a synctest bubble cannot host",
		"locally originated routes are expected under the dummy peer record (0.0.0.0, AS 0) the daemon documents in mrt.go")
	if r.ReplayPath() != "" {
		var c c19dCase
		if err := r.LoadReplay(&c); err != nil {
			t.Fatal(err)
		}
		r.Eval()
		c19dJudge(r, c, c19dRun(t, c))
		return
	}
	cases := c19dCases(true) // all 32 x 32 subsets in both tiers (under a minute)
	r.Bounds["cases"] = len(cases)
	for _, c := range cases {
		r.Eval()
		c19dJudge(r, c, c19dRun(t, c))
	}
	if len(r.Violations) == 0 && (r.Outcomes["updates:subtype=4"] == 0 || r.Outcomes["updates:subtype=1"] == 0 || r.Outcomes["updates:subtype=9"] == 0) {
		t.Fatalf("ENGINE-ERROR vacuous: not every BGP4MP subtype was exercised: %v", r.Outcomes)
	}
}
