package bgp_test

// C04 — BGP wire codec: encode and decode are mutually inverse and agree on framing.
// E-SEQ: bounded-exhaustive enumeration of the bgpgen catalogues (capabilities, path attributes, NLRI of
// all 26 families, messages) x 16 marshalling-option sets, plus every byte string up to a length bound at
// the NLRI decoders of the core families. The oracle is the round-trip / fixpoint relation itself, the
// Len()==emitted==consumed identity, and agreement with the independent framing reader refwire.
//
// External test package: lib/bgpgen imports pkg/packet/bgp, so an in-package harness would be an import
// cycle. Everything needed here is exported API of the bgp package.

import (
	"regexp"
	"bytes"
	"encoding/hex"
	"encoding/json"
	"fmt"
	"reflect"
	"runtime"
	"sort"
	"strings"
	"sync"
	"testing"

	"github.com/osrg/gobgp/v4/internal/verif/bgpgen"
	"github.com/osrg/gobgp/v4/internal/verif/refwire"
	"github.com/osrg/gobgp/v4/internal/verif/vr"
	"github.com/osrg/gobgp/v4/pkg/packet/bgp"
)

// ---------------------------------------------------------------------------------------------
// helpers

type c04Case struct {
	Part string `json:"part"`           // caps | attrs | nlri | messages | strings
	Name string `json:"name,omitempty"` // catalogue item
	Opt  string `json:"opt,omitempty"`  // option-set name
	Fam  string `json:"family,omitempty"`
	Hex  string `json:"hex,omitempty"` // input bytes (strings part) or emitted bytes (others, informational)
}

// c04Panic describes a recovered panic by its top-most frame inside the bgp package.
func c04Panic(r any) string {
	pc := make([]uintptr, 64)
	n := runtime.Callers(3, pc)
	fr := runtime.CallersFrames(pc[:n])
	site := "?"
	for {
		f, more := fr.Next()
		if strings.Contains(f.Function, "/pkg/packet/bgp.") && !strings.Contains(f.Function, "bgp_test.") {
			fn := f.Function[strings.LastIndex(f.Function, "/pkg/packet/bgp.")+len("/pkg/packet/bgp."):]
			file := f.File[strings.LastIndex(f.File, "/")+1:]
			site = fmt.Sprintf("%s:%s", file, fn)
			_ = f.Line
			break
		}
		if !more {
			break
		}
	}
	return fmt.Sprintf("%s: %v", site, r)
}

// c04Try runs f and converts a panic into an error string "PANIC <site>: <value>".
func c04Try(f func()) (p string) {
	defer func() {
		if r := recover(); r != nil {
			p = "PANIC " + c04Panic(r)
		}
	}()
	f()
	return ""
}

func c04PanicKey(p string) string {
	// "PANIC file.go:Func: msg" -> "file.go:Func"
	s := strings.TrimPrefix(p, "PANIC ")
	if i := strings.Index(s, ": "); i >= 0 {
		s = s[:i]
	}
	return s
}

// c04Norm normalises a JSON document: null == [] == {} == absent member (gobgp decoders produce empty
// slices where constructors leave nil; that difference is not observable on the wire).
func c04Norm(b []byte) string {
	var v any
	if err := json.Unmarshal(b, &v); err != nil {
		return "unparsable:" + string(b)
	}
	var norm func(x any) any
	norm = func(x any) any {
		switch t := x.(type) {
		case map[string]any:
			for k, e := range t {
				n := norm(e)
				if n == nil {
					delete(t, k)
				} else {
					t[k] = n
				}
			}
			if len(t) == 0 {
				return nil
			}
			return t
		case []any:
			if len(t) == 0 {
				return nil
			}
			for i := range t {
				t[i] = norm(t[i])
			}
			return t
		case string:
			if t == "" {
				return nil
			}
		}
		return x
	}
	out, _ := json.Marshal(norm(v))
	return string(out)
}

func c04JSON(v any) (s string, p string) {
	p = c04Try(func() {
		b, err := json.Marshal(v)
		if err != nil {
			s = "json-error:" + err.Error()
			return
		}
		s = c04Norm(b)
	})
	return
}

func c04TypeName(v any) string {
	if v == nil {
		return "nil"
	}
	return strings.TrimPrefix(reflect.TypeOf(v).String(), "*bgp.")
}

func c04Hex(b []byte) string {
	if len(b) > 96 {
		return hex.EncodeToString(b[:96]) + fmt.Sprintf("...(%d bytes)", len(b))
	}
	return hex.EncodeToString(b)
}

func c04FirstDiff(a, b []byte) int {
	n := len(a)
	if len(b) < n {
		n = len(b)
	}
	for i := 0; i < n; i++ {
		if a[i] != b[i] {
			return i
		}
	}
	return n
}

var c04Sentinels = [][]byte{
	bytes.Repeat([]byte{0x00}, 8),
	bytes.Repeat([]byte{0xff}, 8),
	{0x18, 0x0a, 0x01, 0x02, 0x20, 0xc0, 0x00, 0x02, 0x01}, // looks like two further IPv4 prefixes
}

func c04Opt(name string) (bgpgen.OptSet, bool) {
	for _, o := range bgpgen.MarshallingOptionSets() {
		if o.Name == name {
			return o, true
		}
	}
	return bgpgen.OptSet{}, false
}

func c04RefOpts(o bgpgen.OptSet) refwire.Options {
	r := refwire.Options{Extended: o.Extended, AddPath: map[refwire.AFISAFI]bool{}}
	for _, f := range bgpgen.Families() {
		if o.AddPath(f) {
			r.AddPath[refwire.AFISAFI{AFI: f.Afi(), SAFI: f.Safi()}] = true
		}
	}
	return r
}

// zero the ADD-PATH identifiers that the session options do not put on the wire (dropping them is the
// specified behaviour, not a codec loss).
func c04DropIDs(o bgpgen.OptSet, attrs []bgp.PathAttributeInterface, lists ...[]bgp.PathNLRI) {
	if !o.AddPathV4 {
		for _, l := range lists {
			for i := range l {
				l[i].ID = 0
			}
		}
	}
	for _, a := range attrs {
		switch t := a.(type) {
		case *bgp.PathAttributeMpReachNLRI:
			if !o.AddPath(bgp.NewFamily(t.AFI, t.SAFI)) {
				for i := range t.Value {
					t.Value[i].ID = 0
				}
			}
		case *bgp.PathAttributeMpUnreachNLRI:
			if !o.AddPath(bgp.NewFamily(t.AFI, t.SAFI)) {
				for i := range t.Value {
					t.Value[i].ID = 0
				}
			}
		}
	}
}

// ---------------------------------------------------------------------------------------------
// element level: capabilities

func c04CheckCap(r *vr.Report, c bgpgen.Cap) bool {
	r.Eval()
	return c04CheckCapValue(r, c04Case{Part: "caps", Name: c.Name}, c)
}

func c04CheckCapValue(r *vr.Report, cs c04Case, c bgpgen.Cap) bool {
	tn := c04TypeName(c.Cap)
	var b []byte
	var err error
	l0 := -1
	if p := c04Try(func() { l0 = c.Cap.Len(); b, err = c.Cap.Serialize() }); p != "" {
		c04V(r, "C04:panic:"+c04PanicKey(p), cs, "capability %s: %s", c.Name, p)
		return false
	}
	if err != nil {
		c04V(r, "C04:serialize-error:cap:"+tn, cs, "capability %s does not serialise: %v", c.Name, err)
		return false
	}
	cs.Hex = c04Hex(b)
	if l0 != len(b) {
		// Not part of the property statement (which speaks of attributes and NLRI): recorded for the
		// vacuity statistics only. After Serialize the cached length must be right, though.
		r.Outcome("cap:len-before-serialize-differs(not-claimed)")
	}
	if l := c.Cap.Len(); l != len(b) {
		c04V(r, "C04:Len!=emitted:serialized:cap:"+tn, cs, "capability %s: Len()=%d after Serialize emitted %d bytes", c.Name, l, len(b))
	}
	want, _ := c04JSON(c.Cap)
	for si, sen := range c04Sentinels {
		in := append(append([]byte{}, b...), sen...)
		var d bgp.ParameterCapabilityInterface
		if p := c04Try(func() { d, err = bgp.DecodeCapability(in) }); p != "" {
			c04V(r, "C04:panic:"+c04PanicKey(p), cs, "capability %s: decode %s", c.Name, p)
			return false
		}
		if err != nil {
			c04V(r, "C04:decode-rejects-own-encoding:cap:"+tn+":"+c04ErrClass(err), cs, "capability %s: own encoding %s rejected: %v", c.Name, c04Hex(b), err)
			return false
		}
		if d.Len() != len(b) {
			c04V(r, "C04:consumed!=emitted:cap:"+tn, cs, "capability %s: decoder consumed %d of %d emitted bytes (sentinel #%d)", c.Name, d.Len(), len(b), si)
			return false
		}
		b2, err := d.Serialize()
		if err != nil || !bytes.Equal(b2, b) {
			c04V(r, "C04:roundtrip-bytes-differ:cap:"+tn, cs, "capability %s: %s re-serialises to %s (%v)", c.Name, c04Hex(b), c04Hex(b2), err)
			return false
		}
		if got, _ := c04JSON(d); got != want {
			c04V(r, "C04:roundtrip-value-differs:cap:"+tn, cs, "capability %s: JSON before %s after %s", c.Name, want, got)
			return false
		}
		if d.Code() != c.Cap.Code() {
			c04V(r, "C04:roundtrip-value-differs:cap:"+tn, cs, "capability %s: code %d became %d", c.Name, c.Cap.Code(), d.Code())
			return false
		}
	}
	r.NT("cap:" + c.Name)
	r.Outcome("cap:" + tn + ":ok")
	return true
}

// ---------------------------------------------------------------------------------------------
// element level: path attributes

func c04AttrTypeName(a bgp.PathAttributeInterface) string {
	return fmt.Sprintf("%s(%s)", c04TypeName(a), a.GetType())
}

// c04CheckAttr checks one fresh attribute under one option set. It returns false when a violation was
// recorded.
func c04CheckAttr(r *vr.Report, ab bgpgen.AttrBuilder, o bgpgen.OptSet) bool {
	r.Eval()
	cs := c04Case{Part: "attrs", Name: ab.Name, Opt: o.Name}
	// MP_REACH / MP_UNREACH: a defect of the carried NLRI type is reported once, at the NLRI level
	if !c04NLRIsSound(r, ab.Build()) {
		r.Outcome("attr:" + ab.Kind + ":skipped(carried NLRI has its own violation)")
		return false
	}
	if c04CheckAttrValue(r, cs, ab.Name, ab.Build(), o, true) {
		r.NT("attr:" + ab.Name + "|" + o.Name)
		r.Outcome("attr:" + ab.Kind + ":ok")
		return true
	}
	return false
}

// c04NLRIsSound runs the NLRI-level clauses on the NLRI carried by an MP attribute, into a scratch
// report that is thrown away.
func c04NLRIsSound(r *vr.Report, a bgp.PathAttributeInterface) bool {
	var fam bgp.Family
	var l []bgp.PathNLRI
	switch t := a.(type) {
	case *bgp.PathAttributeMpReachNLRI:
		fam, l = bgp.NewFamily(t.AFI, t.SAFI), t.Value
	case *bgp.PathAttributeMpUnreachNLRI:
		fam, l = bgp.NewFamily(t.AFI, t.SAFI), t.Value
	default:
		return true
	}
	scratch := r.Fork()
	for _, n := range l {
		if !c04CheckNLRIValue(scratch, c04Case{}, fam, "-", n.NLRI, false) {
			return false
		}
	}
	return true
}

func c04LsFailingTLV(a bgp.PathAttributeInterface) string {
	ls, ok := a.(*bgp.PathAttributeLs)
	if !ok {
		return ""
	}
	for _, t := range ls.TLVs {
		if _, err := t.Serialize(); err != nil {
			return ":tlv=" + c04TypeName(t)
		}
	}
	return ""
}

// c04LenCauses classifies a Len()/emitted difference of a constructed attribute so that one root cause
// gives one key (an MP_REACH can suffer from two independent ones at once).
func c04LenCauses(a bgp.PathAttributeInterface, o bgpgen.OptSet, l0, emitted int) []string {
	n, fam, nhs := -1, bgp.Family(0), 0
	switch t := a.(type) {
	case *bgp.PathAttributeMpReachNLRI:
		n, fam = len(t.Value), bgp.NewFamily(t.AFI, t.SAFI)
		if t.Nexthop.IsValid() {
			nhs++
		}
		if t.LinkLocalNexthop.IsValid() {
			nhs++
		}
	case *bgp.PathAttributeMpUnreachNLRI:
		n, fam = len(t.Value), bgp.NewFamily(t.AFI, t.SAFI)
	default:
		return []string{""}
	}
	var out []string
	d := emitted - l0
	if o.AddPath(fam) && n > 0 {
		out = append(out, ":path-ids-not-counted")
		d -= 4 * n
		if d == 1 && a.GetFlags()&bgp.BGP_ATTR_FLAG_EXTENDED_LENGTH == 0 && emitted > 258 {
			d = 0 // the identifiers pushed the value over 255: one more header octet, same cause
		}
	}
	if d == 8 && fam.Safi() == bgp.SAFI_MPLS_VPN && nhs == 2 {
		out = append(out, ":vpn-rd-of-second-nexthop-not-counted")
		d -= 8
	}
	if d != 0 {
		out = append(out, fmt.Sprintf(":%s:other", fam))
	}
	return out
}

// lenClause=false leaves out the Len()-of-the-constructed-value clause (used when deciding whether a
// message is worth checking: a wrong cached length does not stop the round trip).
// c04AttrShape names input shapes of an attribute that select distinct decoder loops (so that two
// different root causes in one attribute type do not share a key).
func c04AttrShape(a bgp.PathAttributeInterface) string {
	if t, ok := a.(*bgp.PathAttributeTunnelEncap); ok {
		for _, tlv := range t.Value {
			if len(tlv.Value) == 0 {
				return ":tlv-without-sub-tlv"
			}
		}
		for _, tlv := range t.Value {
			if u, ok := tlv.Value[len(tlv.Value)-1].(*bgp.TunnelEncapSubTLVUnknown); ok && len(u.Value) == 0 {
				return ":last-sub-tlv-has-empty-value"
			}
		}
	}
	return ""
}

func c04CheckAttrValue(r *vr.Report, cs c04Case, name string, a bgp.PathAttributeInterface, o bgpgen.OptSet, lenClause bool) bool {
	ab := struct{ Name string }{name}
	tn := c04AttrTypeName(a)
	shape := ""
	c04Try(func() { shape = c04AttrShape(a) })
	var b []byte
	var err error
	l0 := -1
	if p := c04Try(func() { l0 = a.Len(o.Opts...); b, err = a.Serialize(o.Opts...) }); p != "" {
		c04V(r, "C04:panic:"+c04PanicKey(p), cs, "attribute %s [%s]: %s", ab.Name, o.Name, p)
		return false
	}
	if err != nil {
		c04V(r, "C04:serialize-error:attr:"+tn+c04LsFailingTLV(a), cs, "attribute %s [%s] does not serialise: %v", ab.Name, o.Name, err)
		return false
	}
	cs.Hex = c04Hex(b)
	ok := true
	if lenClause && l0 != len(b) {
		ok = false
		for _, cause := range c04LenCauses(a, o, l0, len(b)) {
			c04V(r, "C04:Len!=emitted:constructed:"+tn+cause, cs, "attribute %s [%s]: constructed value reports Len()=%d, Serialize() emits %d bytes", ab.Name, o.Name, l0, len(b))
		}
	}
	// extended-length decision: the flag must be set exactly when needed or when the value asked for it
	if len(b) >= 3 {
		ext := b[0]&0x10 != 0
		vlen := len(b) - 3
		if ext {
			vlen = len(b) - 4
		}
		if !ext && vlen > 255 {
			ok = false
			c04V(r, "C04:extended-length-bit-missing:"+tn, cs, "attribute %s [%s]: %d value bytes emitted without the extended-length bit", ab.Name, o.Name, vlen)
		}
	}
	c04DropIDs(o, []bgp.PathAttributeInterface{a})
	want, _ := c04JSON(a)
	wantS := ""
	c04Try(func() { wantS = a.String() })
	for si, sen := range c04Sentinels {
		in := append(append([]byte{}, b...), sen...)
		var d bgp.PathAttributeInterface
		if p := c04Try(func() {
			d, err = bgp.GetPathAttribute(in)
			if err == nil {
				err = d.DecodeFromBytes(in, o.Opts...)
			}
		}); p != "" {
			c04V(r, "C04:panic:"+c04PanicKey(p), cs, "attribute %s [%s]: decode %s", ab.Name, o.Name, p)
			return false
		}
		if err != nil {
			c04V(r, "C04:decode-rejects-own-encoding:"+tn+":"+c04ErrClass(err), cs, "attribute %s [%s]: own encoding %s rejected: %v", ab.Name, o.Name, c04Hex(b), err)
			return false
		}
		if dl := d.Len(o.Opts...); dl != len(b) {
			c04V(r, "C04:consumed!=emitted:"+tn, cs, "attribute %s [%s]: decoder consumed %d of %d emitted bytes (sentinel #%d)", ab.Name, o.Name, dl, len(b), si)
			return false
		}
		var b2 []byte
		if p := c04Try(func() { b2, err = d.Serialize(o.Opts...) }); p != "" {
			c04V(r, "C04:panic:"+c04PanicKey(p), cs, "attribute %s [%s]: re-serialise %s", ab.Name, o.Name, p)
			return false
		}
		if err != nil || !bytes.Equal(b2, b) {
			c04V(r, "C04:roundtrip-bytes-differ:"+tn+shape, cs, "attribute %s [%s]: %s re-serialises to %s (first difference at %d; err=%v)", ab.Name, o.Name, c04Hex(b), c04Hex(b2), c04FirstDiff(b, b2), err)
			return false
		}
		// an IPv4 next hop handed to the constructor of an IPv6-AFI MP_REACH_NLRI and the IPv4-mapped
		// IPv6 address it is written as (and parsed back to) are one value in two notations
		if got, _ := c04JSON(d); c04Unmap(got) != c04Unmap(want) {
			c04V(r, "C04:roundtrip-value-differs:"+tn, cs, "attribute %s [%s]: JSON before %.600s after %.600s", ab.Name, o.Name, want, got)
			return false
		}
		gotS := ""
		c04Try(func() { gotS = d.String() })
		if c04Unmap(gotS) != c04Unmap(wantS) {
			c04V(r, "C04:roundtrip-string-differs:"+tn, cs, "attribute %s [%s]: String() before %.300q after %.300q", ab.Name, o.Name, wantS, gotS)
			return false
		}
		if d.GetType() != a.GetType() || d.GetFlags()&^bgp.BGP_ATTR_FLAG_EXTENDED_LENGTH != a.GetFlags()&^bgp.BGP_ATTR_FLAG_EXTENDED_LENGTH {
			c04V(r, "C04:roundtrip-value-differs:"+tn, cs, "attribute %s [%s]: type/flags %d/%#x became %d/%#x", ab.Name, o.Name, a.GetType(), a.GetFlags(), d.GetType(), d.GetFlags())
			return false
		}
	}
	return ok
}

// ---------------------------------------------------------------------------------------------
// element level: NLRI

// families whose NLRI encoding has no length of its own and takes the rest of the attribute by design
// (one NLRI per MP_REACH): the consumed==emitted clause with trailing bytes cannot be measured there.
func c04SelfDelimiting(f bgp.Family) bool { return f != bgp.RF_OPAQUE }

func c04CheckNLRI(r *vr.Report, fam bgp.Family, idx int, name string) bool {
	r.Eval()
	cs := c04Case{Part: "nlri", Name: name, Fam: fam.String()}
	n := bgpgen.NLRIs(fam)[idx].NLRI
	if c04CheckNLRIValue(r, cs, fam, name, n, true) {
		r.NT("nlri:" + name)
		r.Outcome("nlri:" + fam.String() + ":ok")
		return true
	}
	return false
}

// c04Shape names input shapes for which a single root cause trips different clauses depending on the
// value; the key is then the shape (a property of the input, not of the failure), so one root cause gives
// one key and a key never covers failures on other inputs.
func c04Shape(n bgp.NLRI) string {
	switch t := n.(type) {
	case *bgp.FlowSpecNLRI:
		if t.Len() >= 0xf0+2 {
			return "rules>=240-bytes(2-octet-length-form)"
		}
	case *bgp.LabeledIPAddrPrefix:
		return c04LabelMarkerShape(t.Labels.Labels)
	case *bgp.LabeledVPNIPAddrPrefix:
		return c04LabelMarkerShape(t.Labels.Labels)
	case *bgp.EVPNNLRI:
		if t.RouteType == bgp.EVPN_I_PMSI {
			return "route-type-9(I-PMSI)"
		}
	}
	return ""
}

type c04Rep struct {
	r     *vr.Report
	shape string
	tn    string
}

// V records a violation; with a shape the key is "C04:nlri:<type>:<shape>", else "C04:<clause>:nlri:<type><extra>".
func (x c04Rep) V(clause, extra string, cs c04Case, format string, a ...any) {
	key := "C04:" + clause + ":nlri:" + x.tn + extra
	if x.shape != "" {
		key = "C04:nlri:" + x.tn + ":" + x.shape
		format = "[" + clause + "] " + format
	}
	c04V(x.r, key, cs, format, a...)
}

func c04CheckNLRIValue(r *vr.Report, cs c04Case, fam bgp.Family, name string, n bgp.NLRI, lenClause bool) bool {
	tn := c04TypeName(n)
	shape := ""
	c04Try(func() { shape = c04Shape(n) })
	rep := c04Rep{r, shape, tn}
	var b []byte
	var err error
	l0 := -1
	if p := c04Try(func() { l0 = n.Len(); b, err = n.Serialize() }); p != "" {
		c04V(r, "C04:panic:"+c04PanicKey(p), cs, "NLRI %s: %s", name, p)
		return false
	}
	if err != nil {
		rep.V("serialize-error", "", cs, "NLRI %s does not serialise: %v", name, err)
		return false
	}
	cs.Hex = c04Hex(b)
	ok := true
	if lenClause && l0 != len(b) {
		ok = false
		rep.V("Len!=emitted:constructed", "", cs, "NLRI %s: constructed value reports Len()=%d, Serialize() emits %d bytes %s", name, l0, len(b), c04Hex(b))
	}
	want, _ := c04JSON(n)
	wantS := ""
	c04Try(func() { wantS = n.String() })
	sens := append([][]byte{nil}, c04Sentinels...)
	if !c04SelfDelimiting(fam) {
		sens = sens[:1]
		r.Outcome("nlri:" + tn + ":not-self-delimiting(no sentinel)")
	}
	for si, sen := range sens {
		in := append(append([]byte{}, b...), sen...)
		var d bgp.NLRI
		if p := c04Try(func() { d, err = bgp.NLRIFromSlice(fam, in) }); p != "" {
			c04V(r, "C04:panic:"+c04PanicKey(p), cs, "NLRI %s: decode %s", name, p)
			return false
		}
		if err != nil {
			rep.V("decode-rejects-own-encoding", ":"+c04ErrClass(err), cs, "NLRI %s: own encoding %s (+%d trailing bytes) rejected: %v", name, c04Hex(b), len(sen), err)
			return false
		}
		if dl := d.Len(); dl != len(b) {
			rep.V("consumed!=emitted", "", cs, "NLRI %s: decoder consumed %d of %d emitted bytes %s (followed by %d further bytes, sentinel #%d)", name, dl, len(b), c04Hex(b), len(sen), si)
			return false
		}
		var b2 []byte
		if p := c04Try(func() { b2, err = d.Serialize() }); p != "" {
			c04V(r, "C04:panic:"+c04PanicKey(p), cs, "NLRI %s: re-serialise %s", name, p)
			return false
		}
		if err != nil || !bytes.Equal(b2, b) {
			rep.V("roundtrip-bytes-differ", "", cs, "NLRI %s: %s (+%d trailing) re-serialises to %s (first difference at %d; err=%v)", name, c04Hex(b), len(sen), c04Hex(b2), c04FirstDiff(b, b2), err)
			return false
		}
		if got, _ := c04JSON(d); got != want {
			rep.V("roundtrip-value-differs", "", cs, "NLRI %s: JSON before %.600s after %.600s", name, want, got)
			return false
		}
		gotS := ""
		c04Try(func() { gotS = d.String() })
		if gotS != wantS {
			rep.V("roundtrip-string-differs", "", cs, "NLRI %s: String() before %.300q after %.300q", name, wantS, gotS)
			return false
		}
	}
	return ok
}

// ---------------------------------------------------------------------------------------------
// message level

func c04CheckMsg(r *vr.Report, mb bgpgen.MsgBuilder, o bgpgen.OptSet) bool {
	r.Eval()
	cs := c04Case{Part: "messages", Name: mb.Name, Opt: o.Name}
	// an element with a violation of its own (reported by the elements part under the element's key) is not
	// reported again through every message that contains it
	if !c04ElementsSound(r, mb.Build(), o) {
		r.Outcome("msg:" + mb.Kind + ":skipped(contains an element with its own violation)")
		return false
	}
	m := mb.Build()
	var b []byte
	var err error
	if p := c04Try(func() { b, err = m.Serialize(o.Opts...) }); p != "" {
		c04V(r, "C04:panic:"+c04PanicKey(p), cs, "message %s [%s]: %s", mb.Name, o.Name, p)
		return false
	}
	if err != nil {
		c04V(r, "C04:serialize-error:msg:"+mb.Kind, cs, "message %s [%s] does not serialise: %v", mb.Name, o.Name, err)
		return false
	}
	cs.Hex = c04Hex(b)
	if int(m.Header.Len) != len(b) {
		c04V(r, "C04:header-length!=emitted:"+mb.Kind, cs, "message %s [%s]: header says %d, %d bytes emitted", mb.Name, o.Name, m.Header.Len, len(b))
		return false
	}
	// (1) independent framing
	ref, rerr := refwire.Read(b, c04RefOpts(o))
	if rerr != nil {
		c04V(r, "C04:refwire-rejects:"+mb.Kind+":"+c04RefErrClass(rerr), cs, "message %s [%s]: emitted bytes are not well-formed for the independent reader: %v; bytes %s", mb.Name, o.Name, rerr, c04Hex(b))
		return false
	}
	// (2) parse back
	var d *bgp.BGPMessage
	if p := c04Try(func() { d, err = bgp.ParseBGPMessage(b, o.Opts...) }); p != "" {
		c04V(r, "C04:panic:"+c04PanicKey(p), cs, "message %s [%s]: parse %s", mb.Name, o.Name, p)
		return false
	}
	if err != nil {
		c04V(r, "C04:decode-rejects-own-encoding:msg:"+mb.Kind+":"+c04ErrClass(err), cs, "message %s [%s]: own encoding rejected: %v; bytes %s", mb.Name, o.Name, err, c04Hex(b))
		return false
	}
	var b2 []byte
	if p := c04Try(func() { b2, err = d.Serialize(o.Opts...) }); p != "" {
		c04V(r, "C04:panic:"+c04PanicKey(p), cs, "message %s [%s]: re-serialise %s", mb.Name, o.Name, p)
		return false
	}
	if err != nil || !bytes.Equal(b2, b) {
		c04V(r, "C04:roundtrip-bytes-differ:msg:"+mb.Kind+c04DiffWhere(ref, c04FirstDiff(b, b2)), cs, "message %s [%s]: %s re-serialises to %s (first difference at %d; err=%v)", mb.Name, o.Name, c04Hex(b), c04Hex(b2), c04FirstDiff(b, b2), err)
		return false
	}
	// (3) value equality
	if u, ok := m.Body.(*bgp.BGPUpdate); ok {
		c04DropIDs(o, u.PathAttributes, u.NLRI, u.WithdrawnRoutes)
	}
	want, _ := c04JSON(m)
	got, _ := c04JSON(d)
	if c04Unmap(got) != c04Unmap(want) {
		c04V(r, "C04:roundtrip-value-differs:msg:"+mb.Kind+c04JSONDiffKey(m, d), cs, "message %s [%s]: JSON before %.700s after %.700s", mb.Name, o.Name, want, got)
		return false
	}
	// (3b) one-directional ADD-PATH: the sender's options (mode SEND) must write the same bytes, the receiver's
	// (mode RECEIVE) must read them; and in the opposite direction (no identifiers on the wire) likewise
	if o.Enc != nil && mb.Kind == "update" {
		if !c04CheckDirections(r, cs, mb, o, b) {
			return false
		}
	}
	// (4) field boundaries: gobgp's Len() of every element vs the independent reader
	switch body := d.Body.(type) {
	case *bgp.BGPUpdate:
		orig := m.Body.(*bgp.BGPUpdate)
		u := ref.Update
		lenOK := true
		if len(u.Attrs) != len(body.PathAttributes) {
			c04V(r, "C04:boundaries:attr-count", cs, "message %s [%s]: reader sees %d attributes, gobgp %d", mb.Name, o.Name, len(u.Attrs), len(body.PathAttributes))
			return false
		}
		for i, ra := range u.Attrs {
			pa := body.PathAttributes[i]
			if int(pa.GetType()) != int(ra.Type) || pa.Len(o.Opts...) != ra.Total() {
				c04V(r, "C04:boundaries:attr:"+c04AttrTypeName(pa), cs, "message %s [%s]: attribute #%d: reader type %d at %d spanning %d bytes; gobgp type %d Len()=%d", mb.Name, o.Name, i, ra.Type, ra.Off, ra.Total(), pa.GetType(), pa.Len(o.Opts...))
				return false
			}
			if i < len(orig.PathAttributes) && orig.PathAttributes[i].Len(o.Opts...) != ra.Total() {
				// same keys as the elements part: one root cause, one key
				oa := orig.PathAttributes[i]
				for _, cause := range c04LenCauses(oa, o, oa.Len(o.Opts...), ra.Total()) {
					c04V(r, "C04:Len!=emitted:constructed:"+c04AttrTypeName(oa)+cause, cs, "message %s [%s]: attribute #%d of the constructed message reports Len()=%d but occupies %d bytes on the wire", mb.Name, o.Name, i, oa.Len(o.Opts...), ra.Total())
				}
				lenOK = false
			}
		}
		if !c04SamePrefixes(r, cs, "nlri", u.NLRI, body.NLRI, o.AddPathV4) || !c04SamePrefixes(r, cs, "withdrawn", u.Withdrawn, body.WithdrawnRoutes, o.AddPathV4) {
			return false
		}
		if int(body.WithdrawnRoutesLen) != u.WithdrawnLen || int(body.TotalPathAttributeLen) != u.AttrsLen {
			c04V(r, "C04:boundaries:update-lengths", cs, "message %s [%s]: withdrawn/attr lengths reader %d/%d gobgp %d/%d", mb.Name, o.Name, u.WithdrawnLen, u.AttrsLen, body.WithdrawnRoutesLen, body.TotalPathAttributeLen)
			return false
		}
		for _, mr := range u.MPReach {
			pa, _ := body.PathAttributes[mr.Attr].(*bgp.PathAttributeMpReachNLRI)
			if pa == nil || pa.AFI != mr.AFI || pa.SAFI != mr.SAFI {
				c04V(r, "C04:boundaries:mp-reach-header", cs, "message %s [%s]: MP_REACH header differs (reader afi/safi %d/%d)", mb.Name, o.Name, mr.AFI, mr.SAFI)
				return false
			}
			if mr.Parsed && !c04SamePrefixes(r, cs, "mp-reach", mr.Prefixes, pa.Value, o.AddPath(bgp.NewFamily(mr.AFI, mr.SAFI))) {
				return false
			}
			if mr.Parsed {
				r.Outcome("msg:boundaries:mp-reach-prefixes-compared")
			}
		}
		if !lenOK {
			return false
		}
		for _, mr := range u.MPUnreach {
			pa, _ := body.PathAttributes[mr.Attr].(*bgp.PathAttributeMpUnreachNLRI)
			if pa == nil || pa.AFI != mr.AFI || pa.SAFI != mr.SAFI {
				c04V(r, "C04:boundaries:mp-unreach-header", cs, "message %s [%s]: MP_UNREACH header differs (reader afi/safi %d/%d)", mb.Name, o.Name, mr.AFI, mr.SAFI)
				return false
			}
			if mr.Parsed && !c04SamePrefixes(r, cs, "mp-unreach", mr.Prefixes, pa.Value, o.AddPath(bgp.NewFamily(mr.AFI, mr.SAFI))) {
				return false
			}
		}
	case *bgp.BGPOpen:
		ro := ref.Open
		if len(ro.Params) != len(body.OptParams) || ro.OptParamLen != int(body.OptParamLen) {
			c04V(r, "C04:boundaries:open-params", cs, "message %s [%s]: reader sees %d optional parameters (%d bytes), gobgp %d (%d)", mb.Name, o.Name, len(ro.Params), ro.OptParamLen, len(body.OptParams), body.OptParamLen)
			return false
		}
		for i, rp := range ro.Params {
			pc, isCap := body.OptParams[i].(*bgp.OptionParameterCapability)
			if (rp.Type == 2) != isCap {
				c04V(r, "C04:boundaries:open-params", cs, "message %s [%s]: optional parameter #%d type %d, gobgp %T", mb.Name, o.Name, i, rp.Type, body.OptParams[i])
				return false
			}
			if !isCap {
				continue
			}
			if len(rp.Caps) != len(pc.Capability) {
				c04V(r, "C04:boundaries:cap-count", cs, "message %s [%s]: parameter #%d: reader sees %d capabilities, gobgp %d", mb.Name, o.Name, i, len(rp.Caps), len(pc.Capability))
				return false
			}
			for j, rc := range rp.Caps {
				if uint8(pc.Capability[j].Code()) != rc.Code || pc.Capability[j].Len() != rc.Total() {
					c04V(r, "C04:boundaries:cap:"+c04TypeName(pc.Capability[j]), cs, "message %s [%s]: capability #%d: reader code %d spanning %d bytes, gobgp code %d Len()=%d", mb.Name, o.Name, j, rc.Code, rc.Total(), pc.Capability[j].Code(), pc.Capability[j].Len())
					return false
				}
			}
		}
		if ro.Version != body.Version || ro.AS != body.MyAS || ro.HoldTime != body.HoldTime || ro.ID != body.ID.As4() {
			c04V(r, "C04:boundaries:open-fixed-fields", cs, "message %s [%s]: fixed OPEN fields differ", mb.Name, o.Name)
			return false
		}
	case *bgp.BGPNotification:
		if ref.Notification.Code != body.ErrorCode || ref.Notification.Subcode != body.ErrorSubcode || ref.Notification.DataLen != len(body.Data) {
			c04V(r, "C04:boundaries:notification", cs, "message %s [%s]: notification fields differ", mb.Name, o.Name)
			return false
		}
	case *bgp.BGPRouteRefresh:
		if ref.RouteRefresh.AFI != body.AFI || ref.RouteRefresh.SAFI != body.SAFI || ref.RouteRefresh.Subtype != body.Demarcation {
			c04V(r, "C04:boundaries:route-refresh", cs, "message %s [%s]: route-refresh fields differ", mb.Name, o.Name)
			return false
		}
	}
	r.NT("msg:" + mb.Name + "|" + o.Name)
	if strings.HasPrefix(mb.Name, "update/pair-") {
		r.Outcome("msg:update-pair:ok")
	} else if strings.HasPrefix(mb.Name, "update/triple-") {
		r.Outcome("msg:update-triple:ok")
	} else {
		r.Outcome("msg:" + mb.Kind + ":ok")
	}
	return true
}

func c04CheckDirections(r *vr.Report, cs c04Case, mb bgpgen.MsgBuilder, o bgpgen.OptSet, b []byte) bool {
	var be, bd, x []byte
	var d *bgp.BGPMessage
	var err error
	step := ""
	p := c04Try(func() {
		step = "serialise under SEND"
		if be, err = mb.Build().Serialize(o.Enc...); err != nil {
			return
		}
		step = "parse under RECEIVE"
		if d, err = bgp.ParseBGPMessage(append([]byte{}, b...), o.Dec...); err != nil {
			return
		}
		step = "re-serialise under SEND"
		if x, err = d.Serialize(o.Enc...); err != nil {
			return
		}
	})
	if p != "" {
		c04V(r, "C04:panic:"+c04PanicKey(p), cs, "message %s [%s]: one-directional ADD-PATH, %s: %s", mb.Name, o.Name, step, p)
		return false
	}
	if err != nil {
		c04V(r, "C04:addpath-direction:send->receive:"+strings.ReplaceAll(step, " ", "-")+":"+c04ErrClass(err), cs, "message %s [%s]: bytes written for a session with ADD-PATH, %s (the sender has mode SEND, the receiver mode RECEIVE): %v; bytes %s", mb.Name, o.Name, step, err, c04Hex(b))
		return false
	}
	if !bytes.Equal(be, b) {
		c04V(r, "C04:addpath-direction:send-bytes-differ", cs, "message %s [%s]: the encoder given mode SEND writes %s, given mode BOTH %s", mb.Name, o.Name, c04Hex(be), c04Hex(b))
		return false
	}
	if !bytes.Equal(x, b) {
		c04V(r, "C04:addpath-direction:receive-roundtrip-differs", cs, "message %s [%s]: parsed under mode RECEIVE and written under mode SEND: %s, sent %s", mb.Name, o.Name, c04Hex(x), c04Hex(b))
		return false
	}
	// the other direction of the same session carries no path identifiers
	p = c04Try(func() {
		step = "serialise under RECEIVE"
		if bd, err = mb.Build().Serialize(o.Dec...); err != nil {
			return
		}
		step = "parse under SEND"
		if d, err = bgp.ParseBGPMessage(append([]byte{}, bd...), o.Enc...); err != nil {
			return
		}
		step = "re-serialise under RECEIVE"
		x, err = d.Serialize(o.Dec...)
	})
	if p != "" {
		c04V(r, "C04:panic:"+c04PanicKey(p), cs, "message %s [%s]: one-directional ADD-PATH (reverse), %s: %s", mb.Name, o.Name, step, p)
		return false
	}
	if err != nil {
		c04V(r, "C04:addpath-direction:receive->send:"+strings.ReplaceAll(step, " ", "-")+":"+c04ErrClass(err), cs, "message %s [%s]: direction without path identifiers, %s: %v; bytes %s", mb.Name, o.Name, step, err, c04Hex(bd))
		return false
	}
	if !bytes.Equal(x, bd) {
		c04V(r, "C04:addpath-direction:reverse-roundtrip-differs", cs, "message %s [%s]: direction without path identifiers: %s comes back as %s", mb.Name, o.Name, c04Hex(bd), c04Hex(x))
		return false
	}
	r.Outcome("msg:update:addpath-directions-ok")
	return true
}

func c04ElementsSound(r *vr.Report, m *bgp.BGPMessage, o bgpgen.OptSet) bool {
	scratch := r.Fork()
	switch body := m.Body.(type) {
	case *bgp.BGPUpdate:
		for _, a := range body.PathAttributes {
			if !c04NLRIsSound(scratch, a) {
				return false
			}
		}
		// (the NLRI objects were serialised by the scratch check; attribute-level clauses on the same objects)
		for _, a := range body.PathAttributes {
			if !c04CheckAttrValue(scratch, c04Case{}, "-", a, o, false) {
				return false
			}
		}
	case *bgp.BGPOpen:
		for _, p := range body.OptParams {
			if pc, ok := p.(*bgp.OptionParameterCapability); ok {
				for _, c := range pc.Capability {
					if !c04CheckCapValue(scratch, c04Case{}, bgpgen.Cap{Name: "-", Cap: c}) {
						return false
					}
				}
			}
		}
	}
	return true
}

func c04SamePrefixes(r *vr.Report, cs c04Case, what string, ref []refwire.Prefix, got []bgp.PathNLRI, addPath bool) bool {
	if len(ref) != len(got) {
		c04V(r, "C04:boundaries:"+what+"-count", cs, "%s [%s]: reader sees %d %s prefixes, gobgp %d", cs.Name, cs.Opt, len(ref), what, len(got))
		return false
	}
	for i, rp := range ref {
		n := got[i]
		l := n.NLRI.Len()
		if addPath {
			l += 4
		}
		nb, _ := n.NLRI.Serialize()
		if l != rp.Len || (addPath && n.ID != rp.PathID) || len(nb) < 1 || int(nb[0]) != rp.Bits || !bytes.Equal(nb[1:], rp.Bytes) {
			c04V(r, "C04:boundaries:"+what+"-prefix", cs, "%s [%s]: %s prefix #%d: reader path-id %d, %d bits, %x, %d bytes; gobgp id %d %s Len()+id=%d", cs.Name, cs.Opt, what, i, rp.PathID, rp.Bits, rp.Bytes, rp.Len, n.ID, n.NLRI, l)
			return false
		}
	}
	return true
}

func c04ErrClass(err error) string {
	s := err.Error()
	// strip numbers so that one cause gives one key
	var b strings.Builder
	for _, c := range s {
		if c >= '0' && c <= '9' {
			continue
		}
		b.WriteRune(c)
	}
	s = b.String()
	if len(s) > 60 {
		s = s[:60]
	}
	return s
}

func c04RefErrClass(err error) string { return c04ErrClass(err) }

// c04DiffWhere names the element in which re-serialised bytes first differ (for a stable key).
func c04DiffWhere(ref *refwire.Message, off int) string {
	if ref == nil || ref.Update == nil {
		return ""
	}
	for _, a := range ref.Update.Attrs {
		if off >= a.Off && off < a.Off+a.Total() {
			return fmt.Sprintf(":in-attr-type-%d", a.Type)
		}
	}
	return ":outside-attrs"
}

// c04JSONDiffKey names the first attribute whose JSON differs.
func c04JSONDiffKey(m, d *bgp.BGPMessage) string {
	um, ok1 := m.Body.(*bgp.BGPUpdate)
	ud, ok2 := d.Body.(*bgp.BGPUpdate)
	if !ok1 || !ok2 {
		return ""
	}
	if len(um.PathAttributes) != len(ud.PathAttributes) {
		return ":attr-count"
	}
	for i := range um.PathAttributes {
		x, _ := c04JSON(um.PathAttributes[i])
		y, _ := c04JSON(ud.PathAttributes[i])
		if x != y {
			return ":" + c04AttrTypeName(um.PathAttributes[i])
		}
	}
	return ":outside-attrs"
}

// ---------------------------------------------------------------------------------------------
// accepted byte strings at the NLRI decoders of the core families

// c04CheckString: for a byte string s the decoder of family f accepts:
//   - x.Len() <= len(s) and decoding s[:x.Len()] alone gives the same value (the decoder's answer depends
//     only on the bytes it claims to have consumed);
//   - Serialize(x) succeeds, has x.Len() bytes, parses to an equal value, and is a fixpoint.
func c04CheckString(r *vr.Report, f bgp.Family, s []byte) {
	r.Eval()
	var x bgp.NLRI
	var err error
	if p := c04Try(func() { x, err = bgp.NLRIFromSlice(f, s) }); p != "" {
		c04V(r, "C04:panic:"+c04PanicKey(p), c04StrCase(f, s), "NLRIFromSlice(%s, %x): %s", f, s, p)
		return
	}
	if err != nil {
		r.Outcome("strings:rejected")
		return
	}
	tn := c04TypeName(x)
	l := x.Len()
	if l > len(s) || l <= 0 {
		c04V(r, "C04:strings:Len-outside-input:"+tn, c04StrCase(f, s), "%s decoder accepted %x but reports Len()=%d (input has %d bytes)", f, s, l, len(s))
		return
	}
	// value signature: type, String() and the serialised form (cheaper than JSON; the serialised form
	// carries everything String() leaves out, e.g. labels)
	var b1 []byte
	var serr error
	if p := c04Try(func() { b1, serr = x.Serialize() }); p != "" {
		c04V(r, "C04:panic:"+c04PanicKey(p), c04StrCase(f, s), "%s: Serialize of value decoded from %x: %s", f, s, p)
		return
	}
	sx := x.String()
	if l < len(s) {
		var y bgp.NLRI
		if p := c04Try(func() { y, err = bgp.NLRIFromSlice(f, s[:l]) }); p != "" {
			c04V(r, "C04:panic:"+c04PanicKey(p), c04StrCase(f, s), "NLRIFromSlice(%s, %x): %s", f, s[:l], p)
			return
		}
		same := err == nil
		if same {
			by, ey := y.Serialize()
			same = y.String() == sx && bytes.Equal(by, b1) && (ey == nil) == (serr == nil)
		}
		if !same {
			jx, _ := c04JSON(x)
			jy := "rejected"
			if err == nil {
				jy, _ = c04JSON(y)
			}
			key := "C04:strings:value-depends-on-bytes-beyond-Len:" + tn
			if c04MarkerMidStack(x, s) {
				key = "C04:nlri:" + tn + ":" + c04LabelInsideShape // the same decoder quirk, seen from the byte side
			}
			c04V(r, key, c04StrCase(f, s), "%s decoder: input %x gives %s claiming %d bytes consumed, but those %d bytes alone give %s", f, s, jx, l, l, jy)
			return
		}
	}
	if serr != nil {
		jx, _ := c04JSON(x)
		c04V(r, "C04:strings:accepted-value-does-not-serialise:"+tn, c04StrCase(f, s), "%s decoder accepted %x (%s) but the value does not serialise: %v", f, s, jx, serr)
		return
	}
	if len(b1) != l {
		c04V(r, "C04:strings:Len!=emitted:"+tn, c04StrCase(f, s), "%s decoder: %x decoded to %s with Len()=%d, re-serialised to %d bytes %x", f, s, sx, l, len(b1), b1)
		return
	}
	var x2 bgp.NLRI
	if p := c04Try(func() { x2, err = bgp.NLRIFromSlice(f, b1) }); p != "" {
		c04V(r, "C04:panic:"+c04PanicKey(p), c04StrCase(f, s), "NLRIFromSlice(%s, %x): %s", f, b1, p)
		return
	}
	if err != nil {
		c04V(r, "C04:strings:reserialised-form-rejected:"+tn, c04StrCase(f, s), "%s decoder: %x -> %s -> %x is rejected: %v", f, s, sx, b1, err)
		return
	}
	b2, err := x2.Serialize()
	if x2.String() != sx {
		c04V(r, "C04:strings:reserialised-form-differs:"+tn, c04StrCase(f, s), "%s decoder: %x -> %s -> %x -> %s", f, s, sx, b1, x2.String())
		return
	}
	if err != nil || !bytes.Equal(b1, b2) {
		c04V(r, "C04:strings:no-fixpoint:"+tn, c04StrCase(f, s), "%s decoder: %x -> %x -> %x (%v)", f, s, b1, b2, err)
		return
	}
	k := l
	if k > 2 {
		k = 2
	}
	r.NT(f.String() + ":" + tn + ":" + hex.EncodeToString(s[:k])) // distinct (family, first two consumed bytes)
	if bytes.Equal(b1, s[:l]) {
		r.Outcome("strings:accepted:canonical")
	} else {
		r.Outcome("strings:accepted:normalised-on-reserialise")
	}
}

// c04MarkerMidStack: the decoder returned a one-label withdraw-marker stack ([0] or [0x800000]) although
// the input's label field does not start with that marker, i.e. it met 0x000000 / 0x800000 further down.
func c04MarkerMidStack(x bgp.NLRI, s []byte) bool {
	var labels []uint32
	switch t := x.(type) {
	case *bgp.LabeledIPAddrPrefix:
		labels = t.Labels.Labels
	case *bgp.LabeledVPNIPAddrPrefix:
		labels = t.Labels.Labels
	}
	if len(labels) != 1 || (labels[0] != 0 && labels[0] != 0x800000) || len(s) < 4 {
		return false
	}
	first := uint32(s[1])<<16 | uint32(s[2])<<8 | uint32(s[3])
	return first != 0 && first != 0x800000
}

func c04StrCase(f bgp.Family, s []byte) c04Case {
	return c04Case{Part: "strings", Fam: f.String(), Hex: hex.EncodeToString(s)}
}

// c04Templates: structured strings long enough to reach the labelled / VPN decoders' accepting paths:
// <length octet: every value> <label stack shapes> <RD shapes (VPN only)> <0..4 prefix octets over {00,01,80,ff}>.
func c04Templates(f bgp.Family, thorough bool, emit func(s []byte)) {
	labelled := f.Safi() == bgp.SAFI_MPLS_LABEL || f.Safi() == bgp.SAFI_MPLS_VPN || f.Safi() == bgp.SAFI_MPLS_VPN_MULTICAST
	vpn := f.Safi() == bgp.SAFI_MPLS_VPN || f.Safi() == bgp.SAFI_MPLS_VPN_MULTICAST
	labels := [][]byte{nil}
	if labelled {
		labels = [][]byte{
			{0x00, 0x01, 0x01},                               // label 16, bottom
			{0x00, 0x01, 0x00, 0x00, 0x01, 0x11},             // 16, 17 bottom
			{0x00, 0x01, 0x00},                               // no bottom-of-stack bit
			{0x80, 0x00, 0x00},                               // withdraw label
			{0x00, 0x00, 0x00},                               // zero label
			{0x00, 0x00, 0x01},                               // label 0 bottom
			{0xff, 0xff, 0xff},                               // max label bottom
			{0xff, 0xff, 0xf0, 0xff, 0xff, 0xf0, 0x00, 0x00}, // never a bottom, then cut
			{0x00, 0x01},                                     // cut
			nil,
		}
	}
	rds := [][]byte{nil}
	if vpn {
		rds = [][]byte{
			{0, 0, 0xfd, 0xe8, 0, 0, 0, 100},
			{0, 1, 192, 0, 2, 1, 0, 1},
			{0, 2, 0, 1, 0, 0, 0, 1},
			{0, 3, 1, 2, 3, 4, 5, 6},
			{0xff, 0xff, 0xff, 0xff, 0xff, 0xff, 0xff, 0xff},
			{0, 0, 0xfd},
		}
	}
	alpha := []byte{0x00, 0x01, 0x80, 0xff}
	maxTail := 3
	if thorough {
		maxTail = 5
	}
	var tails [][]byte
	var rec func(cur []byte)
	rec = func(cur []byte) {
		tails = append(tails, append([]byte{}, cur...))
		if len(cur) == maxTail {
			return
		}
		for _, c := range alpha {
			rec(append(cur, c))
		}
	}
	rec(nil)
	if f.Afi() == bgp.AFI_IP6 {
		tails = append(tails, bytes.Repeat([]byte{0xff}, 16), bytes.Repeat([]byte{0x20}, 17), bytes.Repeat([]byte{0x01}, 8))
	}
	for bits := 0; bits < 256; bits++ {
		for _, lb := range labels {
			for _, rd := range rds {
				for _, t := range tails {
					s := append([]byte{byte(bits)}, lb...)
					s = append(s, rd...)
					s = append(s, t...)
					emit(s)
				}
			}
		}
	}
}

// ---------------------------------------------------------------------------------------------
// tests

func c04Replay(t *testing.T, r *vr.Report) {
	var cs c04Case
	if err := r.LoadReplay(&cs); err != nil {
		t.Fatal(err)
	}
	o, _ := c04Opt(cs.Opt)
	switch cs.Part {
	case "caps":
		for _, c := range bgpgen.Capabilities() {
			if c.Name == cs.Name {
				c04CheckCap(r, c)
			}
		}
	case "attrs":
		for _, ab := range bgpgen.AttributeBuilders() {
			if ab.Name == cs.Name {
				c04CheckAttr(r, ab, o)
			}
		}
	case "nlri":
		for _, f := range bgpgen.Families() {
			for i, n := range bgpgen.NLRIs(f) {
				if n.Name == cs.Name {
					c04CheckNLRI(r, f, i, n.Name)
				}
			}
		}
	case "messages":
		for _, mb := range bgpgen.MessageBuilders(bgpgen.Thorough) {
			if mb.Name == cs.Name {
				c04CheckMsg(r, mb, o)
			}
		}
	case "strings":
		b, _ := hex.DecodeString(cs.Hex)
		for _, f := range bgpgen.Families() {
			if f.String() == cs.Fam {
				c04CheckString(r, f, b)
			}
		}
	}
}

// TestVerif_C04_Elements: every capability, attribute and NLRI of the catalogue on its own.
func TestVerif_C04_Elements(t *testing.T) {
	r := vr.Start(t, "C04", "elements")
	defer r.Finish()
	defer c04Smallest(r)
	r.Rule = "every capability (70), every path attribute of the catalogue (~1300: all types, field boundary products, lengths crossing 255, MP_REACH/MP_UNREACH of all 26 families) x 16 option sets, every NLRI of all 26 families (~415), each decoded back with 0 and 3 kinds of trailing sentinel bytes; non-trivial = distinct (item, option set) that serialised, was accepted by its decoder and passed every clause"
	if r.ReplayPath() != "" {
		c04Replay(t, r)
		return
	}
	opts := bgpgen.MarshallingOptionSets()
	r.Bounds["option_sets"] = len(opts)
	r.Bounds["sentinel_patterns"] = len(c04Sentinels)
	caps := bgpgen.Capabilities()
	r.Bounds["capabilities"] = len(caps)
	for _, c := range caps {
		c04CheckCap(r, c)
	}
	abs := bgpgen.AttributeBuilders()
	r.Bounds["attributes"] = len(abs)
	W := vr.Workers()
	r.Parallel(W, func(w int, c *vr.Report) {
		for i, ab := range abs {
			if i%W != w {
				continue
			}
			for _, o := range opts {
				if !o.Compatible(ab.AS, false) {
					c.Outcome("attr:skipped-incompatible-as-width")
					continue
				}
				c04CheckAttr(c, ab, o)
			}
			if c.WantSample() && i%211 == 0 {
				b, _ := ab.Build().Serialize()
				c.Sample(c04Case{Part: "attrs", Name: ab.Name, Opt: opts[0].Name, Hex: c04Hex(b)})
			}
		}
	})
	n := 0
	for _, f := range bgpgen.Families() {
		for i, nl := range bgpgen.NLRIs(f) {
			c04CheckNLRI(r, f, i, nl.Name)
			n++
		}
	}
	r.Bounds["nlri"] = n
	r.Bounds["families"] = len(bgpgen.Families())
}

// TestVerif_C04_Messages: whole messages through Serialize / refwire / ParseBGPMessage / Serialize.
func TestVerif_C04_Messages(t *testing.T) {
	r := vr.Start(t, "C04", "messages")
	defer r.Finish()
	defer c04Smallest(r)
	r.Rule = "every message of the bgpgen catalogue (OPEN: field boundaries, each capability, ordered pairs of capability kinds; UPDATE: each attribute alone, NLRI/withdrawn boundaries, representatives in a full announcement, all ordered pairs of attribute-kind representatives; thorough: + all unordered triples, half with 2 NLRI + 1 withdrawn; NOTIFICATION, ROUTE-REFRESH, KEEPALIVE; sizes at the 4096/65535 limits) x every compatible option set of 16; non-trivial = distinct (message, option set) accepted by refwire and by ParseBGPMessage with every clause evaluated"
	if r.ReplayPath() != "" {
		c04Replay(t, r)
		return
	}
	tier := bgpgen.Quick
	if vr.Thorough() {
		tier = bgpgen.Thorough
	}
	opts := bgpgen.MarshallingOptionSets()
	mbs := bgpgen.MessageBuilders(tier)
	r.Bounds["messages"] = len(mbs)
	r.Bounds["option_sets"] = len(opts)
	r.Bounds["attrs_per_message"] = map[bool]int{false: 2, true: 3}[vr.Thorough()]
	kinds := map[string]int{}
	for _, mb := range mbs {
		kinds[mb.Kind]++
	}
	r.Extra["messages_by_type"] = kinds
	W := vr.Workers()
	r.Parallel(W, func(w int, c *vr.Report) {
		for i, mb := range mbs {
			if i%W != w {
				continue
			}
			// combinations: the option dimension is reduced to the 4 ADD-PATH settings x AS width that the
			// message is compatible with; single items run under all 16
			combo := strings.HasPrefix(mb.Name, "update/pair-") || strings.HasPrefix(mb.Name, "update/triple-") || strings.HasPrefix(mb.Name, "open/caps-")
			for _, o := range opts {
				if !o.Compatible(mb.AS, mb.Ext) {
					continue
				}
				if combo && o.Extended {
					continue
				}
				c04CheckMsg(c, mb, o)
			}
			if c.WantSample() && i%4099 == 0 {
				b, _ := mb.Build().Serialize(opts[0].Opts...)
				c.Sample(c04Case{Part: "messages", Name: mb.Name, Opt: opts[0].Name, Hex: c04Hex(b)})
			}
		}
	})
	r.Bounds["combination_option_sets"] = "8 (extended-message variants only for single items)"
}

// TestVerif_C04_Strings: all byte strings up to a bound at the NLRI decoders of the core families.
func TestVerif_C04_Strings(t *testing.T) {
	r := vr.Start(t, "C04", "strings")
	defer r.Finish()
	defer c04Smallest(r)
	r.Rule = "core families (IPv4/IPv6 unicast, multicast, labelled, VPN, VPN-multicast): every byte string of length <= N over the full alphabet, plus templated strings <len: 0..255><label-stack shape><RD shape><0..T octets over {00,01,80,ff}> long enough to reach the labelled/VPN accepting paths; every accepted string is checked; non-trivial = distinct (family, first two consumed bytes) among the accepted strings that passed every clause"
	if r.ReplayPath() != "" {
		c04Replay(t, r)
		return
	}
	maxLen := 3
	if vr.Thorough() {
		maxLen = 4
	}
	r.Bounds["full_alphabet_max_len"] = map[bool]string{false: "3", true: "4 for ipv4-unicast and ipv4-labelled-unicast, 3 for the other 8 core families"}[vr.Thorough()]
	r.Bounds["template_tail_max"] = map[bool]int{false: 3, true: 5}[vr.Thorough()]
	fams := bgpgen.CoreFamilies()
	r.Bounds["families"] = len(fams)
	W := vr.Workers()
	for _, f := range fams {
		// thorough: the 4-byte sweep (4.3e9 strings) is run for ipv4-unicast and ipv4-labelled-unicast, the two
		// decoders a 4-byte string can exercise beyond the first length check (IPv6 and multicast share their
		// code with another address length; VPN needs >= 12 bytes); everywhere else the bound stays 3
		ml := 3
		if maxLen > 3 && (f == bgp.RF_IPv4_UC || f == bgp.RF_IPv4_MPLS) {
			ml = maxLen
		}
		r.Parallel(W, func(w int, c *vr.Report) {
			buf := make([]byte, 0, 8)
			for first := 0; first < 256; first++ {
				if first%W != w {
					continue
				}
				// lengths 1..ml with this first byte (length 0 once, by worker 0)
				if first == 0 {
					c04CheckString(c, f, nil)
				}
				var rec func(cur []byte)
				rec = func(cur []byte) {
					c04CheckString(c, f, cur)
					if len(cur) == ml {
						return
					}
					for b := 0; b < 256; b++ {
						rec(append(cur, byte(b)))
					}
				}
				rec(append(buf[:0], byte(first)))
			}
		})
		ntpl := 0
		c04Templates(f, vr.Thorough(), func(s []byte) { ntpl++ })
		r.Parallel(W, func(w int, c *vr.Report) {
			i := 0
			c04Templates(f, vr.Thorough(), func(s []byte) {
				if i%W == w {
					c04CheckString(c, f, s)
				}
				i++
			})
		})
		r.Extra["templates_"+f.String()] = ntpl
	}
	_ = sort.Strings
}

// ---------------------------------------------------------------------------------------------
// accepted mutants of core-family UPDATEs: re-serialising a parsed message is a fixpoint

var c04Vals12 = []byte{0x00, 0x01, 0x02, 0x04, 0x08, 0x10, 0x20, 0x40, 0x7f, 0x80, 0xfe, 0xff}

// c04Mutations: every position x (12 fixed values, original-1, original+1); every adjacent pair as a
// 2-octet big-endian value in {0, 1, v-1, v+1, 0xffff}. The slice passed to f is reused.
func c04Mutations(msg []byte, f func(m []byte)) {
	w := make([]byte, len(msg))
	for i := range msg {
		copy(w, msg)
		seen := map[byte]bool{msg[i]: true}
		for _, v := range append(append([]byte{}, c04Vals12...), msg[i]-1, msg[i]+1) {
			if seen[v] {
				continue
			}
			seen[v] = true
			w[i] = v
			f(w)
		}
	}
	for i := 0; i+1 < len(msg); i++ {
		copy(w, msg)
		v := uint16(msg[i])<<8 | uint16(msg[i+1])
		seen := map[uint16]bool{v: true}
		for _, x := range []uint16{0, 1, v - 1, v + 1, 0xffff} {
			if seen[x] {
				continue
			}
			seen[x] = true
			w[i], w[i+1] = byte(x>>8), byte(x)
			f(w)
		}
	}
}

// c04LabelMarkerShape classifies a label stack that holds the value 0 or 0x80000 above the bottom of the
// stack: on the wire these are 0x000000 / 0x800000, the RFC 3107 withdraw markers. "top": the marker value
// is the first of several labels (indistinguishable on the wire from a one-label withdraw marker followed
// by prefix octets); "inside": it sits between other labels.
func c04LabelMarkerShape(l []uint32) string {
	for i := 0; i+1 < len(l); i++ {
		if l[i] == 0 || l[i] == 0x80000 {
			if i == 0 {
				return c04LabelTopShape
			}
			return c04LabelInsideShape
		}
	}
	return ""
}

const (
	c04LabelTopShape    = "mpls-label-0-or-0x80000-on-top-of-a-deeper-stack"
	c04LabelInsideShape = "mpls-label-0-or-0x80000-inside-the-stack"
)

// c04NLRIsOf lists the NLRI carried in the MP attributes of an UPDATE.
func c04NLRIsOf(m *bgp.BGPMessage) []bgp.NLRI {
	var out []bgp.NLRI
	if u, ok := m.Body.(*bgp.BGPUpdate); ok {
		for _, a := range u.PathAttributes {
			switch t := a.(type) {
			case *bgp.PathAttributeMpReachNLRI:
				for _, n := range t.Value {
					out = append(out, n.NLRI)
				}
			case *bgp.PathAttributeMpUnreachNLRI:
				for _, n := range t.Value {
					out = append(out, n.NLRI)
				}
			}
		}
	}
	return out
}

func c04UnmapNextHops(m *bgp.BGPMessage) {
	if u, ok := m.Body.(*bgp.BGPUpdate); ok {
		for _, a := range u.PathAttributes {
			if t, ok := a.(*bgp.PathAttributeMpReachNLRI); ok {
				t.Nexthop = t.Nexthop.Unmap()
			}
		}
	}
}

// c04StaleCause explains why the re-serialised body has another length than the parsed header says.
func c04StaleCause(b, b1 []byte, m1 *bgp.BGPMessage, o bgpgen.OptSet) string {
	if m1.Header.Type != bgp.BGP_MSG_UPDATE {
		return fmt.Sprintf("body-bytes-ignored-by-the-parser:type%d", m1.Header.Type)
	}
	fix := append([]byte{}, b1...)
	if len(fix) >= 18 {
		fix[16], fix[17] = byte(len(fix)>>8), byte(len(fix))
	}
	r0, e0 := refwire.Read(b[:int(m1.Header.Len)], c04RefOpts(o))
	r1, e1 := refwire.Read(fix, c04RefOpts(o))
	if e0 != nil || e1 != nil || r0.Update == nil || r1.Update == nil {
		return "update:not-framed-by-refwire"
	}
	if len(r0.Update.MPReach) == len(r1.Update.MPReach) {
		for i := range r0.Update.MPReach {
			if r0.Update.MPReach[i].NHLen != r1.Update.MPReach[i].NHLen {
				return "MP_REACH-next-hop-re-encoded-with-another-length"
			}
		}
	}
	if len(r0.Update.Attrs) == len(r1.Update.Attrs) {
		for i := range r0.Update.Attrs {
			if r0.Update.Attrs[i].Total() != r1.Update.Attrs[i].Total() {
				return fmt.Sprintf("attr-type-%d-length-changed", r0.Update.Attrs[i].Type)
			}
		}
	}
	return "update:other"
}

// c04CheckAccepted: b is any byte string. If ParseBGPMessage accepts it without error, then the parsed
// message must serialise, the result must parse to an equal message, and serialising that again must
// give the same bytes (fixpoint from the second iteration on). Keys name root causes: the shape of the
// parsed value where one decoder quirk trips different clauses, else the clause and the culprit element.
func c04CheckAccepted(r *vr.Report, o bgpgen.OptSet, seed string, b []byte) {
	r.Eval()
	cs := c04Case{Part: "accepted", Name: seed, Opt: o.Name, Hex: hex.EncodeToString(b)}
	var m1 *bgp.BGPMessage
	var err error
	in := append([]byte{}, b...)
	if p := c04Try(func() { m1, err = bgp.ParseBGPMessage(in, o.Opts...) }); p != "" {
		c04V(r, "C04:panic:"+c04PanicKey(p), cs, "ParseBGPMessage [%s] of %s: %s", o.Name, c04Hex(b), p)
		return
	}
	if err != nil || m1 == nil {
		r.Outcome("accepted:mutant-rejected")
		return
	}
	what := c04MsgShape(m1)
	// shapes first
	for _, n := range c04NLRIsOf(m1) {
		var labels []uint32
		switch t := n.(type) {
		case *bgp.LabeledIPAddrPrefix:
			labels = t.Labels.Labels
		case *bgp.LabeledVPNIPAddrPrefix:
			labels = t.Labels.Labels
		default:
			continue
		}
		if len(labels) == 0 {
			if _, e := n.Serialize(); e != nil {
				c04V(r, "C04:strings:accepted-value-does-not-serialise:"+c04TypeName(n), cs, "[%s] %s is accepted with a labelled NLRI that has no label (%s), which does not serialise: %v", o.Name, c04Hex(b), n, e)
				return
			}
		}
		if shape := c04LabelMarkerShape(labels); shape != "" {
			b1, _ := m1.Serialize(o.Opts...)
			m2, e2 := bgp.ParseBGPMessage(append([]byte{}, b1...), o.Opts...)
			c04UnmapNextHops(m1)
			j1, _ := c04JSON(m1)
			j2 := "rejected"
			if e2 == nil {
				c04UnmapNextHops(m2)
				j2, _ = c04JSON(m2)
			} else {
				j2 += ": " + e2.Error()
			}
			if j1 != j2 {
				c04V(r, "C04:nlri:"+c04TypeName(n)+":"+shape, cs, "[%s] %s is accepted with label stack %v; it re-serialises to %s, which parses to %.400s (was %.400s)", o.Name, c04Hex(b), labels, c04Hex(b1), j2, j1)
			} else {
				r.Outcome("accepted:label-marker-shape-but-stable")
			}
			return
		}
	}
	var b1 []byte
	if p := c04Try(func() { b1, err = m1.Serialize(o.Opts...) }); p != "" {
		c04V(r, "C04:panic:"+c04PanicKey(p), cs, "[%s] Serialize of the message parsed from %s: %s", o.Name, c04Hex(b), p)
		return
	}
	if err != nil {
		c04V(r, "C04:accepted:does-not-serialise:"+c04Culprit(m1, o)+":"+c04ErrClass(err), cs, "[%s] %s is accepted but the parsed message does not serialise: %v", o.Name, c04Hex(b), err)
		return
	}
	if len(b1) != int(m1.Header.Len) {
		c04V(r, "C04:accepted:header-length-stale-after-reserialise:"+c04StaleCause(b, b1, m1, o), cs, "[%s] %s is accepted; the parsed message re-serialises to %d bytes %s but keeps the parsed header length %d", o.Name, c04Hex(b), len(b1), c04Hex(b1), m1.Header.Len)
		return
	}
	var m2 *bgp.BGPMessage
	if p := c04Try(func() { m2, err = bgp.ParseBGPMessage(append([]byte{}, b1...), o.Opts...) }); p != "" {
		c04V(r, "C04:panic:"+c04PanicKey(p), cs, "ParseBGPMessage [%s] of %s: %s", o.Name, c04Hex(b1), p)
		return
	}
	if err != nil {
		c04V(r, "C04:accepted:reserialised-form-rejected:"+c04AttrKinds(m1)+":"+c04ErrClass(err), cs, "[%s] %s is accepted and re-serialises to %s, which is rejected: %v", o.Name, c04Hex(b), c04Hex(b1), err)
		return
	}
	var b2 []byte
	c04Try(func() { b2, err = m2.Serialize(o.Opts...) })
	// An IPv4 next hop of an IPv6-AFI MP_REACH_NLRI is written back, by design, as the IPv4-mapped IPv6
	// address (RFC 4798 style): the two forms denote the same next hop and compare equal here.
	c04UnmapNextHops(m1)
	c04UnmapNextHops(m2)
	j1, _ := c04JSON(m1)
	if j2, _ := c04JSON(m2); j2 != j1 {
		c04V(r, "C04:accepted:reserialised-form-differs"+c04JSONDiffKeyFam(m1, m2), cs, "[%s] %s parses to %.500s, re-serialises to %s, which parses to %.500s", o.Name, c04Hex(b), j1, c04Hex(b1), j2)
		return
	}
	if err != nil || !bytes.Equal(b1, b2) {
		c04V(r, "C04:accepted:no-fixpoint:"+c04AttrKinds(m1), cs, "[%s] %s -> %s -> %s (first difference at %d, err=%v)", o.Name, c04Hex(b), c04Hex(b1), c04Hex(b2), c04FirstDiff(b1, b2), err)
		return
	}
	r.NT("accepted:" + what)
	if bytes.Equal(b1, b) {
		r.Outcome("accepted:canonical")
	} else {
		r.Outcome("accepted:normalised-on-reserialise")
	}
}

func c04AttrFam(a bgp.PathAttributeInterface) string {
	switch t := a.(type) {
	case *bgp.PathAttributeMpReachNLRI:
		return fmt.Sprintf("MP_REACH(%s)", bgp.NewFamily(t.AFI, t.SAFI))
	case *bgp.PathAttributeMpUnreachNLRI:
		return fmt.Sprintf("MP_UNREACH(%s)", bgp.NewFamily(t.AFI, t.SAFI))
	}
	return a.GetType().String()
}

// c04Culprit: the first element of the message that does not serialise on its own.
func c04Culprit(m *bgp.BGPMessage, o bgpgen.OptSet) string {
	u, ok := m.Body.(*bgp.BGPUpdate)
	if !ok {
		return fmt.Sprintf("type%d", m.Header.Type)
	}
	for _, a := range u.PathAttributes {
		var err error
		if p := c04Try(func() { _, err = a.Serialize(o.Opts...) }); p != "" || err != nil {
			return c04AttrFam(a)
		}
	}
	return "update"
}

// c04AttrKinds: the distinct attribute kinds (with MP family) of an UPDATE, sorted.
func c04AttrKinds(m *bgp.BGPMessage) string {
	u, ok := m.Body.(*bgp.BGPUpdate)
	if !ok {
		return fmt.Sprintf("type%d", m.Header.Type)
	}
	set := map[string]bool{}
	for _, a := range u.PathAttributes {
		set[c04AttrFam(a)] = true
	}
	var l []string
	for k := range set {
		l = append(l, k)
	}
	sort.Strings(l)
	return "update[" + strings.Join(l, ",") + "]"
}

func c04JSONDiffKeyFam(m, d *bgp.BGPMessage) string {
	um, ok1 := m.Body.(*bgp.BGPUpdate)
	ud, ok2 := d.Body.(*bgp.BGPUpdate)
	if !ok1 || !ok2 {
		return ""
	}
	if len(um.PathAttributes) != len(ud.PathAttributes) {
		return ":attr-count:" + c04AttrKinds(m)
	}
	for i := range um.PathAttributes {
		x, _ := c04JSON(um.PathAttributes[i])
		y, _ := c04JSON(ud.PathAttributes[i])
		if x != y {
			return ":" + c04AttrFam(um.PathAttributes[i])
		}
	}
	return ":outside-attrs"
}

// c04MsgShape: message type + attribute types + MP families (the unit of distinct non-trivial cases).
func c04MsgShape(m *bgp.BGPMessage) string {
	var sb strings.Builder
	fmt.Fprintf(&sb, "type%d", m.Header.Type)
	if u, ok := m.Body.(*bgp.BGPUpdate); ok {
		fmt.Fprintf(&sb, ":w%d,n%d", len(u.WithdrawnRoutes), len(u.NLRI))
		for _, a := range u.PathAttributes {
			fmt.Fprintf(&sb, ",a%d", a.GetType())
			switch t := a.(type) {
			case *bgp.PathAttributeMpReachNLRI:
				fmt.Fprintf(&sb, "(%d/%d:%d)", t.AFI, t.SAFI, len(t.Value))
			case *bgp.PathAttributeMpUnreachNLRI:
				fmt.Fprintf(&sb, "(%d/%d:%d)", t.AFI, t.SAFI, len(t.Value))
			}
		}
	}
	return sb.String()
}

func c04CoreSeed(name string) bool {
	if !strings.HasPrefix(name, "update/") || strings.HasPrefix(name, "update/pair-") || strings.HasPrefix(name, "update/nlri-x") {
		return false
	}
	if strings.Contains(name, "mp-reach-") || strings.Contains(name, "mp-unreach-") {
		for _, f := range bgpgen.CoreFamilies() {
			if strings.Contains(name, "mp-reach-"+f.String()+"/") || strings.Contains(name, "mp-unreach-"+f.String()+"/") {
				return true
			}
		}
		return false
	}
	for _, k := range []string{"update/eor", "update/basic", "update/announce", "update/nlri", "update/withdrawn", "update/full-origin", "update/full-aspath", "update/full-med", "update/full-localpref", "update/full-communities"} {
		if strings.HasPrefix(name, k) {
			return true
		}
	}
	return false
}

// TestVerif_C04_Accepted: "for the core families, for all byte strings the parser accepts": the accepted
// single mutants of every core-family UPDATE of the catalogue.
func TestVerif_C04_Accepted(t *testing.T) {
	r := vr.Start(t, "C04", "accepted")
	defer r.Finish()
	defer c04Smallest(r)
	r.Rule = "seeds = every catalogue UPDATE made of classic NLRI/withdrawn fields, the mandatory attributes and MP_REACH/MP_UNREACH of the 10 core families (<= 512 bytes); mutants = the seed itself, every position x 14 values, every adjacent pair as a 2-octet value in {0,1,v-1,v+1,ffff}; under the 8 non-extended option sets; every mutant that ParseBGPMessage accepts without error must serialise, parse back to an equal message and be a fixpoint from the second iteration; non-trivial = distinct shapes (attribute types, families, element counts) of accepted mutants that passed"
	if r.ReplayPath() != "" {
		var cs c04Case
		if err := r.LoadReplay(&cs); err != nil {
			t.Fatal(err)
		}
		o, _ := c04Opt(cs.Opt)
		b, _ := hex.DecodeString(cs.Hex)
		c04CheckAccepted(r, o, cs.Name, b)
		return
	}
	var opts []bgpgen.OptSet
	for _, o := range bgpgen.MarshallingOptionSets() {
		if !o.Extended {
			opts = append(opts, o)
		}
	}
	var seeds []bgpgen.MsgBuilder
	for _, mb := range bgpgen.MessageBuilders(bgpgen.Quick) {
		if c04CoreSeed(mb.Name) {
			seeds = append(seeds, mb)
		}
	}
	r.Bounds["seed_messages"] = len(seeds)
	r.Bounds["option_sets"] = len(opts)
	r.Bounds["seed_max_bytes"] = 512
	W := vr.Workers()
	r.Parallel(W, func(w int, c *vr.Report) {
		for i, mb := range seeds {
			if i%W != w {
				continue
			}
			for _, o := range opts {
				if !o.Compatible(mb.AS, mb.Ext) {
					continue
				}
				var b []byte
				var err error
				if p := c04Try(func() { b, err = mb.Build().Serialize(o.Opts...) }); p != "" || err != nil || len(b) > 512 {
					c.Outcome("accepted:seed-skipped")
					continue
				}
				c04CheckAccepted(c, o, mb.Name, b)
				c04Mutations(b, func(m []byte) { c04CheckAccepted(c, o, mb.Name, m) })
			}
		}
	})
}

// ---------------------------------------------------------------------------------------------
// smallest example per key: vr keeps the first example recorded for a key (per worker, then in merge
// order), which under Parallel is not the simplest one. c04V records the violation in vr as usual (so
// counts are right) and remembers the smallest case seen for the key; c04Smallest, deferred after
// r.Finish is deferred (so it runs before it), puts that case into the report.

type c04BestV struct {
	size   int
	what   string
	replay any
}

var c04Best = struct {
	sync.Mutex
	m map[string]*c04BestV
}{m: map[string]*c04BestV{}}

var c04MappedRe = regexp.MustCompile(`::ffff:(\d+\.\d+\.\d+\.\d+)`)

func c04Unmap(s string) string { return c04MappedRe.ReplaceAllString(s, "$1") }

func c04V(r *vr.Report, key string, replay any, format string, a ...any) {
	what := fmt.Sprintf(format, a...)
	r.Violation(key, what, replay)
	size := len(what)
	if cs, ok := replay.(c04Case); ok {
		if cs.Part == "" {
			return // scratch evaluation (c04ElementsSound / c04NLRIsSound): its report is thrown away
		}
		size = len(cs.Hex)
	}
	c04Best.Lock()
	// ties: the plainest option set first, then the text (deterministic whatever the worker interleaving)
	plain := func(w string) bool { return strings.Contains(w, "[noaddpath+as4]") }
	if b := c04Best.m[key]; b == nil || size < b.size || (size == b.size && (plain(what) && !plain(b.what) || plain(what) == plain(b.what) && what < b.what)) {
		c04Best.m[key] = &c04BestV{size, what, replay}
	}
	c04Best.Unlock()
}

func c04Smallest(r *vr.Report) {
	c04Best.Lock()
	defer c04Best.Unlock()
	for _, v := range r.Violations {
		if b := c04Best.m[v.Key]; b != nil {
			v.What, v.Replay = b.what, b.replay
		}
	}
	c04Best.m = map[string]*c04BestV{}
}
