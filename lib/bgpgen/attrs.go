package bgpgen

import (
	"fmt"
	"net/netip"
	"strings"

	"github.com/osrg/gobgp/v4/pkg/packet/bgp"
)

// ExtCommunities returns one or more members of every extended-community subtype the package has a
// constructor for (8-octet form), boundary field values, simplest first.
func ExtCommunities() []struct {
	Name string
	EC   bgp.ExtendedCommunityInterface
} {
	type item = struct {
		Name string
		EC   bgp.ExtendedCommunityInterface
	}
	var out []item
	add := func(n string, e bgp.ExtendedCommunityInterface) { out = append(out, item{n, e}) }
	for _, st := range []bgp.ExtendedCommunityAttrSubType{bgp.EC_SUBTYPE_ROUTE_TARGET, bgp.EC_SUBTYPE_ROUTE_ORIGIN, bgp.EC_SUBTYPE_OSPF_DOMAIN_ID, bgp.EC_SUBTYPE_SOURCE_AS, 0xff} {
		add(fmt.Sprintf("2as-st%d", st), bgp.NewTwoOctetAsSpecificExtended(st, 65000, 100, true))
	}
	add("2as-max-nontrans", bgp.NewTwoOctetAsSpecificExtended(bgp.EC_SUBTYPE_ROUTE_TARGET, 0xffff, 0xffffffff, false))
	add("2as-zero", bgp.NewTwoOctetAsSpecificExtended(bgp.EC_SUBTYPE_ROUTE_TARGET, 0, 0, true))
	add("ip4-rt", must(bgp.NewIPv4AddressSpecificExtended(bgp.EC_SUBTYPE_ROUTE_TARGET, a("192.0.2.1"), 100, true)))
	add("ip4-max-nontrans", must(bgp.NewIPv4AddressSpecificExtended(bgp.EC_SUBTYPE_ROUTE_ORIGIN, a("255.255.255.255"), 0xffff, false)))
	add("ip4-vrf-import", must(bgp.NewIPv4AddressSpecificExtended(bgp.EC_SUBTYPE_VRF_ROUTE_IMPORT, a("0.0.0.0"), 0, true)))
	add("4as-rt", bgp.NewFourOctetAsSpecificExtended(bgp.EC_SUBTYPE_ROUTE_TARGET, 65536, 100, true))
	add("4as-max-nontrans", bgp.NewFourOctetAsSpecificExtended(bgp.EC_SUBTYPE_ROUTE_ORIGIN, 0xffffffff, 0xffff, false))
	for _, s := range []bgp.ValidationState{bgp.VALIDATION_STATE_VALID, bgp.VALIDATION_STATE_NOT_FOUND, bgp.VALIDATION_STATE_INVALID, 0xff} {
		add(fmt.Sprintf("validation-%d", s), bgp.NewValidationExtended(s))
	}
	add("link-bw", bgp.NewLinkBandwidthExtended(65000, 125000))
	add("link-bw-zero", bgp.NewLinkBandwidthExtended(0, 0))
	add("link-bw-max", bgp.NewLinkBandwidthExtended(0xffff, 3.4028235e38))
	for _, c := range u32s {
		add(fmt.Sprintf("color-%d", c), bgp.NewColorExtended(c))
	}
	for _, t := range []bgp.TunnelType{bgp.TUNNEL_TYPE_VXLAN, bgp.TUNNEL_TYPE_L2TP3, bgp.TUNNEL_TYPE_GENEVE, 0, 0xffff} {
		add(fmt.Sprintf("encap-%d", t), bgp.NewEncapExtended(t))
	}
	add("default-gw", bgp.NewDefaultGatewayExtended())
	add("opaque-trans", bgp.NewOpaqueExtended(true, []byte{0xf0, 1, 2, 3, 4, 5, 6}))
	add("opaque-nontrans", bgp.NewOpaqueExtended(false, []byte{0xf1, 0xff, 0xff, 0xff, 0xff, 0xff, 0xff}))
	add("esi-label", bgp.NewESILabelExtended(100, true))
	add("esi-label-max", bgp.NewESILabelExtended(0xffffff, false))
	add("es-import", bgp.NewESImportRouteTarget("aa:bb:cc:dd:ee:ff"))
	add("mac-mobility", bgp.NewMacMobilityExtended(1, false))
	add("mac-mobility-max-sticky", bgp.NewMacMobilityExtended(0xffffffff, true))
	add("router-mac", bgp.NewRoutersMacExtended("aa:bb:cc:dd:ee:ff"))
	add("etree", bgp.NewETreeExtended(100, true))
	add("etree-max", bgp.NewETreeExtended(0xffffff, false))
	add("mcast-flags", bgp.NewMulticastFlagsExtended(true, false))
	add("mcast-flags-both", bgp.NewMulticastFlagsExtended(true, true))
	add("traffic-rate", bgp.NewTrafficRateExtended(65000, 1000))
	add("traffic-rate-zero", bgp.NewTrafficRateExtended(0, 0))
	add("traffic-action", bgp.NewTrafficActionExtended(true, false))
	add("traffic-action-both", bgp.NewTrafficActionExtended(true, true))
	add("redirect-2as", bgp.NewRedirectTwoOctetAsSpecificExtended(65000, 100))
	add("redirect-2as-max", bgp.NewRedirectTwoOctetAsSpecificExtended(0xffff, 0xffffffff))
	add("redirect-ip4", must(bgp.NewRedirectIPv4AddressSpecificExtended(a("192.0.2.1"), 100)))
	add("redirect-4as", bgp.NewRedirectFourOctetAsSpecificExtended(65536, 100))
	add("traffic-remark", bgp.NewTrafficRemarkExtended(63))
	add("traffic-remark-0", bgp.NewTrafficRemarkExtended(0))
	add("mup-direct", bgp.NewMUPExtended(bgp.EC_SUBTYPE_MUP_DIRECT_SEG, 100, 10000))
	add("mup-interwork-max", bgp.NewMUPExtended(bgp.EC_SUBTYPE_MUP_INTERWORK_SEG, 0xffff, 0xffffffff))
	add("mup-ip4", must(bgp.NewMUPIPv4AddressSpecificExtended(bgp.EC_SUBTYPE_MUP_DIRECT_SEG_IPV4, a("192.0.2.1"), 100)))
	add("mup-4as", bgp.NewMUPFourOctetAsSpecificExtended(bgp.EC_SUBTYPE_MUP_INTERWORK_SEG_4_OCTET_AS, 65550, 100))
	add("vpls", bgp.NewVPLSExtended(0, 1500))
	add("vpls-max", bgp.NewVPLSExtended(0xff, 0xffff))
	add("unknown-type", bgp.NewUnknownExtended(0x99, []byte{1, 2, 3, 4, 5, 6, 7}))
	add("unknown-ff", bgp.NewUnknownExtended(0xff, []byte{0xff, 0xff, 0xff, 0xff, 0xff, 0xff, 0xff}))
	return out
}

func asSeq4(t uint8, as ...uint32) bgp.AsPathParamInterface { return bgp.NewAs4PathParam(t, as) }
func asSeq2(t uint8, as ...uint16) bgp.AsPathParamInterface { return bgp.NewAsPathParam(t, as) }

func rangeU32(n int, base uint32) []uint32 {
	r := make([]uint32, n)
	for i := range r {
		r[i] = base + uint32(i)
	}
	return r
}
func rangeU16(n int, base uint16) []uint16 {
	r := make([]uint16, n)
	for i := range r {
		r[i] = base + uint16(i)
	}
	return r
}

// NewPathAttributeLs builds the BGP-LS attribute exactly as pkg/apiutil does (the bgp package has no
// constructor for it).
func NewPathAttributeLs(tlvs []bgp.LsTLVInterface) *bgp.PathAttributeLs {
	var length int
	for _, tlv := range tlvs {
		length += tlv.Len()
	}
	t := bgp.BGP_ATTR_TYPE_LS
	fl := bgp.PathAttrFlags[t]
	if length > 255 {
		fl |= bgp.BGP_ATTR_FLAG_EXTENDED_LENGTH
	}
	return &bgp.PathAttributeLs{PathAttribute: bgp.PathAttribute{Flags: fl, Type: t, Length: uint16(length)}, TLVs: tlvs}
}

func lsAttributes() []*bgp.LsAttribute {
	s := func(v string) *string { return &v }
	b := func(v ...byte) *[]byte { return &v }
	f32 := func(v float32) *float32 { return &v }
	var out []*bgp.LsAttribute
	one := func(f func(l *bgp.LsAttribute)) {
		l := &bgp.LsAttribute{}
		f(l)
		out = append(out, l)
	}
	one(func(l *bgp.LsAttribute) { l.Node.Name = s("r1") })
	one(func(l *bgp.LsAttribute) { l.Node.Flags = &bgp.LsNodeFlags{} })
	one(func(l *bgp.LsAttribute) {
		l.Node.Flags = &bgp.LsNodeFlags{Overload: true, Attached: true, External: true, ABR: true, Router: true, V6: true}
	})
	one(func(l *bgp.LsAttribute) { l.Node.Opaque = b(1, 2, 3) })
	one(func(l *bgp.LsAttribute) { l.Node.Name = s(strings.Repeat("n", 255)) })
	one(func(l *bgp.LsAttribute) { l.Node.IsisArea = b(0x49, 0, 1) })
	one(func(l *bgp.LsAttribute) { l.Node.LocalRouterID = addrp(a("192.0.2.1")) })
	one(func(l *bgp.LsAttribute) { l.Node.LocalRouterIDv6 = addrp(a("2001:db8::1")) })
	one(func(l *bgp.LsAttribute) {
		l.Node.SrCapabilties = &bgp.LsSrCapabilities{IPv4Supported: true, IPv6Supported: true, Ranges: []bgp.LsSrRange{{Begin: 16000, End: 23999}}}
	})
	one(func(l *bgp.LsAttribute) {
		l.Node.SrCapabilties = &bgp.LsSrCapabilities{Ranges: []bgp.LsSrRange{{Begin: 0, End: 0}, {Begin: 1, End: 0xffffe}}}
	})
	one(func(l *bgp.LsAttribute) { l.Node.SrAlgorithms = b(0, 1) })
	one(func(l *bgp.LsAttribute) {
		l.Node.SrLocalBlock = &bgp.LsSrLocalBlock{Ranges: []bgp.LsSrRange{{Begin: 15000, End: 15999}}}
	})
	one(func(l *bgp.LsAttribute) { l.Link.Name = s("link1") })
	one(func(l *bgp.LsAttribute) { l.Link.RemoteRouterID = addrp(a("192.0.2.2")) })
	one(func(l *bgp.LsAttribute) { l.Link.RemoteRouterIDv6 = addrp(a("2001:db8::2")) })
	one(func(l *bgp.LsAttribute) { l.Link.AdminGroup = u32p(0xffffffff) })
	one(func(l *bgp.LsAttribute) { l.Link.DefaultTEMetric = u32p(10) })
	one(func(l *bgp.LsAttribute) {
		l.Link.UnidirectionalLinkDelay = &bgp.LsUnidirectionalLinkDelay{Flags: bgp.LsDelayMetricFlags{Anomalous: true}, Delay: 0xffffff}
	})
	one(func(l *bgp.LsAttribute) {
		l.Link.MinMaxUnidirectionalLinkDelay = &bgp.LsMinMaxUnidirectionalLinkDelay{MinDelay: 1, MaxDelay: 0xffffff}
	})
	one(func(l *bgp.LsAttribute) { l.Link.UnidirectionalDelayVariation = u32p(0xffffff) })
	one(func(l *bgp.LsAttribute) { l.Link.IGPMetric = u32p(1) })
	one(func(l *bgp.LsAttribute) { l.Link.IGPMetric = u32p(0xffffff) })
	one(func(l *bgp.LsAttribute) { l.Link.Opaque = b(9) })
	one(func(l *bgp.LsAttribute) { l.Link.Bandwidth = f32(1.25e9) })
	one(func(l *bgp.LsAttribute) { l.Link.ReservableBandwidth = f32(0) })
	one(func(l *bgp.LsAttribute) { l.Link.UnreservedBandwidth = &[8]float32{1, 2, 3, 4, 5, 6, 7, 8} })
	one(func(l *bgp.LsAttribute) { l.Link.Srlgs = &[]uint32{1, 0xffffffff} })
	one(func(l *bgp.LsAttribute) { l.Link.SrAdjacencySID = u32p(24001) })
	one(func(l *bgp.LsAttribute) {
		l.Link.Srv6EndXSID = &bgp.LsSrv6EndXSID{EndpointBehavior: 57, Flags: 0xe0, Algorithm: 128, Weight: 1, SIDs: []netip.Addr{a("2001:db8::1")},
			Srv6SIDStructure: bgp.LsSrv6SIDStructure{LocalBlock: 32, LocalNode: 16, LocalFunc: 16, LocalArg: 0}}
	})
	one(func(l *bgp.LsAttribute) {
		l.Prefix.IGPFlags = &bgp.LsIGPFlags{Down: true, NoUnicast: true, LocalAddress: true, PropagateNSSA: true}
	})
	one(func(l *bgp.LsAttribute) { l.Prefix.Opaque = b(1, 2) })
	one(func(l *bgp.LsAttribute) { l.Prefix.SrPrefixSID = u32p(100) })
	one(func(l *bgp.LsAttribute) {
		l.BgpPeerSegment.BgpPeerNodeSid = &bgp.LsBgpPeerSegmentSID{Flags: bgp.LsAttributeBgpPeerSegmentSIDFlags{Value: true, Local: true}, Weight: 1, SID: 24000}
	})
	one(func(l *bgp.LsAttribute) {
		l.BgpPeerSegment.BgpPeerAdjacencySid = &bgp.LsBgpPeerSegmentSID{Flags: bgp.LsAttributeBgpPeerSegmentSIDFlags{}, Weight: 0xff, SID: 0xffffffff}
	})
	one(func(l *bgp.LsAttribute) {
		l.BgpPeerSegment.BgpPeerSetSid = &bgp.LsBgpPeerSegmentSID{Flags: bgp.LsAttributeBgpPeerSegmentSIDFlags{Value: true, Local: true, Backup: true, Persistent: true}, SID: 1}
	})
	one(func(l *bgp.LsAttribute) {
		l.Srv6SID.Srv6SIDStructure = &bgp.LsSrv6SIDStructure{LocalBlock: 40, LocalNode: 24, LocalFunc: 16, LocalArg: 48}
	})
	one(func(l *bgp.LsAttribute) {
		l.Srv6SID.Srv6BgpPeerNodeSID = &bgp.LsSrv6BgpPeerNodeSID{Flags: 0xff, Weight: 1, PeerAS: 0xffffffff, PeerBgpID: "192.0.2.1"}
	})
	one(func(l *bgp.LsAttribute) {
		l.Srv6SID.Srv6EndpointBehavior = &bgp.LsSrv6EndpointBehavior{EndpointBehavior: 0xffff, Flags: 0, Algorithm: 255}
	})
	// a node attribute, a link attribute and a prefix attribute with several TLVs each
	one(func(l *bgp.LsAttribute) {
		l.Node.Name, l.Node.IsisArea, l.Node.LocalRouterID = s("r1"), b(0x49), addrp(a("192.0.2.1"))
		l.Node.Flags = &bgp.LsNodeFlags{Router: true}
	})
	one(func(l *bgp.LsAttribute) {
		l.Link.LocalRouterID, l.Link.RemoteRouterID = addrp(a("192.0.2.1")), addrp(a("192.0.2.2"))
		l.Link.IGPMetric, l.Link.DefaultTEMetric, l.Link.Bandwidth = u32p(10), u32p(20), f32(1e9)
		l.Link.SrAdjacencySID = u32p(24001)
	})
	return out
}

// tunnelSubTLVs: every tunnel-encap sub-TLV the package (or apiutil) can build.
func tunnelSubTLVs() []struct {
	Name string
	T    bgp.TunnelEncapSubTLVInterface
} {
	type item = struct {
		Name string
		T    bgp.TunnelEncapSubTLVInterface
	}
	var out []item
	add := func(n string, t bgp.TunnelEncapSubTLVInterface) { out = append(out, item{n, t}) }
	add("color", bgp.NewTunnelEncapSubTLVColor(100))
	add("color-max", bgp.NewTunnelEncapSubTLVColor(0xffffffff))
	add("encap-key", bgp.NewTunnelEncapSubTLVEncapsulation(0xffffffff, nil))
	add("encap-cookie8", bgp.NewTunnelEncapSubTLVEncapsulation(1, bytesN(8, 1)))
	add("protocol", bgp.NewTunnelEncapSubTLVProtocol(0x0800))
	add("protocol-max", bgp.NewTunnelEncapSubTLVProtocol(0xffff))
	add("egress-v4", must(bgp.NewTunnelEncapSubTLVEgressEndpoint(a("192.0.2.1"))))
	add("egress-v6", must(bgp.NewTunnelEncapSubTLVEgressEndpoint(a("2001:db8::1"))))
	add("udp-port", bgp.NewTunnelEncapSubTLVUDPDestPort(4789))
	add("udp-port-0", bgp.NewTunnelEncapSubTLVUDPDestPort(0))
	add("sr-preference", bgp.NewTunnelEncapSubTLVSRPreference(0, 100))
	add("sr-preference-max", bgp.NewTunnelEncapSubTLVSRPreference(0xff, 0xffffffff))
	add("sr-priority", bgp.NewTunnelEncapSubTLVSRPriority(0xff))
	add("sr-cpname", bgp.NewTunnelEncapSubTLVSRCandidatePathName("cp1"))
	add("sr-cpname-300", bgp.NewTunnelEncapSubTLVSRCandidatePathName(strings.Repeat("c", 300)))
	add("sr-enlp", bgp.NewTunnelEncapSubTLVSRENLP(0, bgp.ENLPType1))
	add("sr-enlp-4", bgp.NewTunnelEncapSubTLVSRENLP(0xff, bgp.ENLPType4))
	// binding SID and segment list: built as pkg/apiutil does
	bs4 := must(bgp.NewBSID([]byte{0, 1, 0x86, 0xa0}))
	add("sr-bsid-mpls", &bgp.TunnelEncapSubTLVSRBSID{TunnelEncapSubTLV: bgp.TunnelEncapSubTLV{Type: bgp.ENCAP_SUBTLV_TYPE_SRBINDING_SID, Length: uint16(2 + bs4.Len())}, BSID: bs4, Flags: 0x80})
	bs16 := must(bgp.NewBSID(a("2001:db8::1").AsSlice()))
	add("sr-bsid-v6", &bgp.TunnelEncapSubTLVSRBSID{TunnelEncapSubTLV: bgp.TunnelEncapSubTLV{Type: bgp.ENCAP_SUBTLV_TYPE_SRBINDING_SID, Length: uint16(2 + bs16.Len())}, BSID: bs16, Flags: 0x40})
	segA := func(label uint32, fl uint8) bgp.TunnelEncapSubTLVInterface {
		return &bgp.SegmentTypeA{TunnelEncapSubTLV: bgp.TunnelEncapSubTLV{Type: bgp.EncapSubTLVType(bgp.TypeA), Length: 6}, Label: label, Flags: fl}
	}
	segB := func(sid netip.Addr, ebs *bgp.SRv6EndpointBehaviorStructure) bgp.TunnelEncapSubTLVInterface {
		l := uint16(18)
		if ebs != nil {
			l += 8
		}
		return &bgp.SegmentTypeB{TunnelEncapSubTLV: bgp.TunnelEncapSubTLV{Type: bgp.EncapSubTLVType(bgp.TypeB), Length: l}, SID: sid.AsSlice(), SRv6EBS: ebs}
	}
	segList := func(w *bgp.SegmentListWeight, segs ...bgp.TunnelEncapSubTLVInterface) bgp.TunnelEncapSubTLVInterface {
		l := 1
		if w != nil {
			l += w.Len()
		}
		for _, s := range segs {
			l += s.Len()
		}
		return &bgp.TunnelEncapSubTLVSRSegmentList{TunnelEncapSubTLV: bgp.TunnelEncapSubTLV{Type: bgp.ENCAP_SUBTLV_TYPE_SRSEGMENT_LIST, Length: uint16(l)}, Weight: w, Segments: segs}
	}
	weight := func(v uint32) *bgp.SegmentListWeight {
		return &bgp.SegmentListWeight{TunnelEncapSubTLV: bgp.TunnelEncapSubTLV{Type: bgp.SegmentListSubTLVWeight, Length: 6}, Weight: v}
	}
	add("sr-seglist-a", segList(weight(1), segA(0x186a0000, 0)))
	add("sr-seglist-noweight-aa", segList(nil, segA(0x186a0000, 0x80), segA(0xfffff1ff, 0)))
	add("sr-seglist-b", segList(weight(0xffffffff), segB(a("2001:db8::1"), nil)))
	add("sr-seglist-b-ebs", segList(weight(1), segB(a("2001:db8::1"), &bgp.SRv6EndpointBehaviorStructure{Behavior: 19, BlockLen: 32, NodeLen: 16, FuncLen: 16, ArgLen: 0})))
	add("unknown-short", bgp.NewTunnelEncapSubTLVUnknown(0x7f, []byte{1, 2, 3}))
	add("unknown-empty", bgp.NewTunnelEncapSubTLVUnknown(3, nil))
	add("unknown-long-type", bgp.NewTunnelEncapSubTLVUnknown(0xff, bytesN(300, 0)))
	// attribute value of exactly 255 / 256 bytes (TLV header 4 + sub-TLV header 2 + value): the sub-TLV
	// constructor does not count the value, so the extended-length decision is left to Serialize
	add("unknown-249", bgp.NewTunnelEncapSubTLVUnknown(0x7e, bytesN(249, 0)))
	add("unknown-250", bgp.NewTunnelEncapSubTLVUnknown(0x7e, bytesN(250, 0)))
	return out
}

type pa = bgp.PathAttributeInterface

// AttrBuilder describes one attribute of the catalogue and builds a fresh instance of it on demand
// (gobgp's Serialize updates cached lengths inside attribute objects, so combinations never share
// objects between messages).
type AttrBuilder struct {
	Name  string
	Kind  string
	Rep   bool
	AS    int
	Fam   bgp.Family
	HasID bool // carries a non-zero ADD-PATH identifier (lost, by design, when ADD-PATH is off)
	Build func() pa
}

func (b AttrBuilder) attr() Attr {
	return Attr{Name: b.Name, Kind: b.Kind, Rep: b.Rep, AS: b.AS, Fam: b.Fam, HasID: b.HasID, Attr: b.Build()}
}

// AttributeBuilders is the attribute catalogue: every path-attribute type with its fields over boundary
// domains, simplest first. Items whose encoding depends on the negotiated AS width carry AS2 / AS4;
// MP_REACH/MP_UNREACH items carry Fam.
func AttributeBuilders() []AttrBuilder {
	var out []AttrBuilder
	seen := map[string]bool{}
	addID := func(kind, n string, as int, fam bgp.Family, hasID bool, mk func() pa) {
		out = append(out, AttrBuilder{Name: kind + "/" + n, Kind: kind, Rep: !seen[kind], AS: as, Fam: fam, HasID: hasID, Build: mk})
		seen[kind] = true
	}
	add := func(kind, n string, as int, fam bgp.Family, mk func() pa) { addID(kind, n, as, fam, false, mk) }
	plain := func(kind, n string, mk func() pa) { add(kind, n, ASAny, 0, mk) }
	const (
		tSEQ, tSET, tCSEQ, tCSET = bgp.BGP_ASPATH_ATTR_TYPE_SEQ, bgp.BGP_ASPATH_ATTR_TYPE_SET, bgp.BGP_ASPATH_ATTR_TYPE_CONFED_SEQ, bgp.BGP_ASPATH_ATTR_TYPE_CONFED_SET
	)

	for _, v := range []uint8{0, 1, 2, 3, 0xff} {
		plain("origin", fmt.Sprint(v), func() pa { return bgp.NewPathAttributeOrigin(v) })
	}

	// AS_PATH, 4-octet form
	as4 := func(n string, mk func() []bgp.AsPathParamInterface) {
		add("aspath4", n, AS4, 0, func() pa { return bgp.NewPathAttributeAsPath(mk()) })
	}
	as4("seq1", func() []bgp.AsPathParamInterface { return []bgp.AsPathParamInterface{asSeq4(tSEQ, 65001)} })
	as4("empty", func() []bgp.AsPathParamInterface { return nil })
	as4("seq-bounds", func() []bgp.AsPathParamInterface {
		return []bgp.AsPathParamInterface{asSeq4(tSEQ, 0, 1, 65535, 65536, 0xffffffff)}
	})
	as4("all-seg-types", func() []bgp.AsPathParamInterface {
		return []bgp.AsPathParamInterface{asSeq4(tCSEQ, 65100), asSeq4(tCSET, 65101, 65102), asSeq4(tSEQ, 65001, 65002), asSeq4(tSET, 65003, 65004)}
	})
	for _, n := range []int{63, 64, 255} { // 254 bytes / 258 bytes (extended length) / largest segment
		as4(fmt.Sprintf("seq%d", n), func() []bgp.AsPathParamInterface {
			return []bgp.AsPathParamInterface{asSeq4(tSEQ, rangeU32(n, 65000)...)}
		})
	}
	as4("seq255x2", func() []bgp.AsPathParamInterface {
		return []bgp.AsPathParamInterface{asSeq4(tSEQ, rangeU32(255, 65000)...), asSeq4(tSEQ, rangeU32(2, 1)...)}
	})
	// AS_PATH, 2-octet form
	as2 := func(n string, mk func() []bgp.AsPathParamInterface) {
		add("aspath2", n, AS2, 0, func() pa { return bgp.NewPathAttributeAsPath(mk()) })
	}
	as2("seq1", func() []bgp.AsPathParamInterface { return []bgp.AsPathParamInterface{asSeq2(tSEQ, 65001)} })
	as2("empty", func() []bgp.AsPathParamInterface { return nil })
	as2("seq-bounds", func() []bgp.AsPathParamInterface { return []bgp.AsPathParamInterface{asSeq2(tSEQ, 0, 1, 23456, 65535)} })
	as2("all-seg-types", func() []bgp.AsPathParamInterface {
		return []bgp.AsPathParamInterface{asSeq2(tCSEQ, 65100), asSeq2(tCSET, 65101, 65102), asSeq2(tSEQ, 65001, 65002), asSeq2(tSET, 65003, 65004)}
	})
	for _, n := range []int{126, 127, 255} { // 254 / 256 bytes / largest segment
		as2(fmt.Sprintf("seq%d", n), func() []bgp.AsPathParamInterface {
			return []bgp.AsPathParamInterface{asSeq2(tSEQ, rangeU16(n, 1000)...)}
		})
	}

	for _, ad := range append(v4Addrs(), v6Addrs()[0]) {
		plain("nexthop", ad.String(), func() pa { return must(bgp.NewPathAttributeNextHop(ad)) })
	}
	for _, v := range u32s {
		plain("med", fmt.Sprint(v), func() pa { return bgp.NewPathAttributeMultiExitDisc(v) })
	}
	for _, v := range u32s {
		plain("localpref", fmt.Sprint(v), func() pa { return bgp.NewPathAttributeLocalPref(v) })
	}
	plain("atomic-aggregate", "-", func() pa { return bgp.NewPathAttributeAtomicAggregate() })
	for _, as := range []uint16{65000, 0, 0xffff} {
		plain("aggregator2", fmt.Sprint(as), func() pa { return must(bgp.NewPathAttributeAggregator(as, a("192.0.2.1"))) })
	}
	for _, as := range []uint32{65000, 0, 65536, 0xffffffff} {
		plain("aggregator4", fmt.Sprint(as), func() pa { return must(bgp.NewPathAttributeAggregator(as, a("255.255.255.255"))) })
	}
	// (zero-element COMMUNITIES / EXTENDED / IPv6-EXTENDED / LARGE community lists are malformed on the wire
	// per RFC 7606 7.8, 7.14 and RFC 8092 section 5, so they are not part of the catalogue of valid values)
	plain("communities", "1", func() pa { return bgp.NewPathAttributeCommunities([]uint32{0xfde80064}) })
	plain("communities", "wellknown", func() pa {
		return bgp.NewPathAttributeCommunities([]uint32{0, 0xffffff01, 0xffffff02, 0xffffff03, 0xffff0006, 0xffffffff})
	})
	for _, n := range []int{63, 64} {
		plain("communities", fmt.Sprint(n), func() pa { return bgp.NewPathAttributeCommunities(rangeU32(n, 0x10000)) })
	}
	for _, ad := range v4Addrs() {
		plain("originator-id", ad.String(), func() pa { return must(bgp.NewPathAttributeOriginatorId(ad)) })
	}
	plain("cluster-list", "1", func() pa { return must(bgp.NewPathAttributeClusterList([]netip.Addr{a("192.0.2.1")})) })
	plain("cluster-list", "3", func() pa { return must(bgp.NewPathAttributeClusterList(v4Addrs())) })
	plain("cluster-list", "64", func() pa {
		var l []netip.Addr
		for i := 0; i < 64; i++ {
			l = append(l, netip.AddrFrom4([4]byte{10, 0, 0, byte(i)}))
		}
		return must(bgp.NewPathAttributeClusterList(l))
	})

	// extended communities: each subtype alone, then lists
	for i, e := range ExtCommunities() {
		plain("extcomm-"+e.Name, "-", func() pa {
			return bgp.NewPathAttributeExtendedCommunities([]bgp.ExtendedCommunityInterface{ExtCommunities()[i].EC})
		})
	}
	plain("extcomm-list", "3", func() pa {
		ecs := ExtCommunities()
		return bgp.NewPathAttributeExtendedCommunities([]bgp.ExtendedCommunityInterface{ecs[0].EC, ecs[7].EC, ecs[10].EC})
	})
	for _, n := range []int{31, 32} { // 248 bytes / 256 bytes: extended length
		plain("extcomm-list", fmt.Sprint(n), func() pa {
			var l []bgp.ExtendedCommunityInterface
			for i := 0; i < n; i++ {
				l = append(l, bgp.NewTwoOctetAsSpecificExtended(bgp.EC_SUBTYPE_ROUTE_TARGET, 65000, uint32(i), true))
			}
			return bgp.NewPathAttributeExtendedCommunities(l)
		})
	}

	plain("as4path", "seq1", func() pa {
		return bgp.NewPathAttributeAs4Path([]*bgp.As4PathParam{bgp.NewAs4PathParam(tSEQ, []uint32{65536})})
	})
	plain("as4path", "empty", func() pa { return bgp.NewPathAttributeAs4Path(nil) })
	plain("as4path", "seq-set", func() pa {
		return bgp.NewPathAttributeAs4Path([]*bgp.As4PathParam{bgp.NewAs4PathParam(tSEQ, []uint32{0, 0xffffffff}), bgp.NewAs4PathParam(tSET, []uint32{1, 2})})
	})
	plain("as4path", "seq64", func() pa {
		return bgp.NewPathAttributeAs4Path([]*bgp.As4PathParam{bgp.NewAs4PathParam(tSEQ, rangeU32(64, 65536))})
	})
	for _, as := range []uint32{65536, 0, 0xffffffff} {
		plain("as4aggregator", fmt.Sprint(as), func() pa { return must(bgp.NewPathAttributeAs4Aggregator(as, a("192.0.2.1"))) })
	}

	// PMSI tunnel
	plain("pmsi", "ingress-repl-v4", func() pa {
		return bgp.NewPathAttributePmsiTunnel(bgp.PMSI_TUNNEL_TYPE_INGRESS_REPL, false, 100, must(bgp.NewIngressReplTunnelID(a("192.0.2.1"))))
	})
	plain("pmsi", "ingress-repl-v6-leaf", func() pa {
		return bgp.NewPathAttributePmsiTunnel(bgp.PMSI_TUNNEL_TYPE_INGRESS_REPL, true, 0xffffff, must(bgp.NewIngressReplTunnelID(a("2001:db8::1"))))
	})
	for _, t := range []bgp.PmsiTunnelType{bgp.PMSI_TUNNEL_TYPE_NO_TUNNEL, bgp.PMSI_TUNNEL_TYPE_RSVP_TE_P2MP, bgp.PMSI_TUNNEL_TYPE_MLDP_MP2MP, 0xff} {
		plain("pmsi", fmt.Sprintf("type%d-id0", t), func() pa { return bgp.NewPathAttributePmsiTunnel(t, false, 0, bgp.NewDefaultPmsiTunnelID(nil)) })
		plain("pmsi", fmt.Sprintf("type%d-id12", t), func() pa {
			return bgp.NewPathAttributePmsiTunnel(t, true, 1, bgp.NewDefaultPmsiTunnelID(bytesN(12, 1)))
		})
	}
	plain("pmsi", "id251", func() pa { // 256 bytes of value
		return bgp.NewPathAttributePmsiTunnel(bgp.PMSI_TUNNEL_TYPE_PIM_SM_TREE, false, 1, bgp.NewDefaultPmsiTunnelID(bytesN(251, 1)))
	})

	// tunnel encapsulation
	for i, st := range tunnelSubTLVs() {
		plain("tunnel-encap-"+st.Name, "-", func() pa {
			return bgp.NewPathAttributeTunnelEncap([]*bgp.TunnelEncapTLV{bgp.NewTunnelEncapTLV(bgp.TUNNEL_TYPE_SR_POLICY, []bgp.TunnelEncapSubTLVInterface{tunnelSubTLVs()[i].T})})
		})
	}
	plain("tunnel-encap-list", "0tlv", func() pa { return bgp.NewPathAttributeTunnelEncap(nil) })
	plain("tunnel-encap-list", "empty-tlv", func() pa {
		return bgp.NewPathAttributeTunnelEncap([]*bgp.TunnelEncapTLV{bgp.NewTunnelEncapTLV(bgp.TUNNEL_TYPE_VXLAN, nil)})
	})
	plain("tunnel-encap-list", "2tlv", func() pa {
		sts := tunnelSubTLVs()
		return bgp.NewPathAttributeTunnelEncap([]*bgp.TunnelEncapTLV{
			bgp.NewTunnelEncapTLV(bgp.TUNNEL_TYPE_VXLAN, []bgp.TunnelEncapSubTLVInterface{sts[0].T, sts[6].T, sts[8].T}),
			bgp.NewTunnelEncapTLV(0xffff, []bgp.TunnelEncapSubTLVInterface{sts[4].T})})
	})
	plain("tunnel-encap-list", "all-subtlvs", func() pa {
		var all []bgp.TunnelEncapSubTLVInterface
		for _, s := range tunnelSubTLVs() {
			all = append(all, s.T)
		}
		return bgp.NewPathAttributeTunnelEncap([]*bgp.TunnelEncapTLV{bgp.NewTunnelEncapTLV(bgp.TUNNEL_TYPE_SR_POLICY, all)})
	})

	// IPv6 address specific extended communities
	ip6 := func(n string, mk func() []bgp.ExtendedCommunityInterface) {
		plain("ip6extcomm", n, func() pa { return bgp.NewPathAttributeIP6ExtendedCommunities(mk()) })
	}
	ip6("rt", func() []bgp.ExtendedCommunityInterface {
		return []bgp.ExtendedCommunityInterface{must(bgp.NewIPv6AddressSpecificExtended(bgp.EC_SUBTYPE_ROUTE_TARGET, a("2001:db8::1"), 100, true))}
	})
	ip6("nontrans-max", func() []bgp.ExtendedCommunityInterface {
		return []bgp.ExtendedCommunityInterface{must(bgp.NewIPv6AddressSpecificExtended(bgp.EC_SUBTYPE_ROUTE_ORIGIN, a("ffff:ffff:ffff:ffff:ffff:ffff:ffff:ffff"), 0xffff, false))}
	})
	ip6("redirect", func() []bgp.ExtendedCommunityInterface {
		return []bgp.ExtendedCommunityInterface{must(bgp.NewRedirectIPv6AddressSpecificExtended(a("2001:db8::1"), 100))}
	})
	ip6("13", func() []bgp.ExtendedCommunityInterface { // 260 bytes
		var l []bgp.ExtendedCommunityInterface
		for i := 0; i < 13; i++ {
			l = append(l, must(bgp.NewIPv6AddressSpecificExtended(bgp.EC_SUBTYPE_ROUTE_TARGET, a("2001:db8::1"), uint16(i), true)))
		}
		return l
	})

	// AIGP
	for _, m := range []uint64{100, 0, 0xffffffffffffffff} {
		plain("aigp", fmt.Sprintf("metric-%d", m), func() pa { return bgp.NewPathAttributeAigp([]bgp.AigpTLVInterface{bgp.NewAigpTLVIgpMetric(m)}) })
	}
	plain("aigp", "0tlv", func() pa { return bgp.NewPathAttributeAigp(nil) })
	plain("aigp", "unknown-tlv", func() pa {
		return bgp.NewPathAttributeAigp([]bgp.AigpTLVInterface{bgp.NewAigpTLVDefault(0xff, []byte{1, 2, 3})})
	})
	plain("aigp", "unknown-empty+metric", func() pa {
		return bgp.NewPathAttributeAigp([]bgp.AigpTLVInterface{bgp.NewAigpTLVDefault(2, nil), bgp.NewAigpTLVIgpMetric(1)})
	})
	plain("aigp", "unknown-253", func() pa { // 256 bytes of value
		return bgp.NewPathAttributeAigp([]bgp.AigpTLVInterface{bgp.NewAigpTLVDefault(7, bytesN(253, 0))})
	})

	// large communities
	plain("large-community", "1", func() pa {
		return bgp.NewPathAttributeLargeCommunities([]*bgp.LargeCommunity{bgp.NewLargeCommunity(65000, 1, 2)})
	})
	plain("large-community", "bounds", func() pa {
		return bgp.NewPathAttributeLargeCommunities([]*bgp.LargeCommunity{bgp.NewLargeCommunity(0, 0, 0), bgp.NewLargeCommunity(0xffffffff, 0xffffffff, 0xffffffff)})
	})
	for _, n := range []int{21, 22} { // 252 / 264 bytes
		plain("large-community", fmt.Sprint(n), func() pa {
			var l []*bgp.LargeCommunity
			for i := 0; i < n; i++ {
				l = append(l, bgp.NewLargeCommunity(65000, uint32(i), 0))
			}
			return bgp.NewPathAttributeLargeCommunities(l)
		})
	}

	// BGP-LS attribute
	for i, l := range lsAttributes() {
		plain("ls", fmt.Sprintf("%d-%dtlv", i, len(bgp.NewLsAttributeTLVs(l))), func() pa {
			return NewPathAttributeLs(bgp.NewLsAttributeTLVs(lsAttributes()[i]))
		})
	}
	plain("ls", "0tlv", func() pa { return NewPathAttributeLs(nil) })

	// prefix SID (SRv6 services)
	sstlv := func() bgp.PrefixSIDTLVInterface { return bgp.NewSRv6SIDStructureSubSubTLV(32, 16, 16, 0, 16, 48) }
	plain("prefix-sid", "l3-info", func() pa {
		return bgp.NewPathAttributePrefixSID(bgp.NewSRv6ServiceTLV(bgp.TLVTypeSRv6L3Service, bgp.NewSRv6InformationSubTLV(a("2001:db8::1"), bgp.END_DT4)))
	})
	plain("prefix-sid", "0tlv", func() pa { return bgp.NewPathAttributePrefixSID() })
	plain("prefix-sid", "l3-info-structure", func() pa {
		return bgp.NewPathAttributePrefixSID(bgp.NewSRv6ServiceTLV(bgp.TLVTypeSRv6L3Service, bgp.NewSRv6InformationSubTLV(a("2001:db8::1"), bgp.END_DT6, sstlv())))
	})
	plain("prefix-sid", "l2-info", func() pa {
		return bgp.NewPathAttributePrefixSID(bgp.NewSRv6ServiceTLV(bgp.TLVTypeSRv6L2Service, bgp.NewSRv6InformationSubTLV(a("::"), bgp.SRBehavior(0xffff), sstlv())))
	})
	plain("prefix-sid", "l3-empty", func() pa { return bgp.NewPathAttributePrefixSID(bgp.NewSRv6ServiceTLV(bgp.TLVTypeSRv6L3Service)) })
	plain("prefix-sid", "l3+l2-2info", func() pa {
		return bgp.NewPathAttributePrefixSID(
			bgp.NewSRv6ServiceTLV(bgp.TLVTypeSRv6L3Service, bgp.NewSRv6InformationSubTLV(a("2001:db8::1"), bgp.END_DT46, sstlv()), bgp.NewSRv6InformationSubTLV(a("2001:db8::2"), bgp.END_DX4)),
			bgp.NewSRv6ServiceTLV(bgp.TLVTypeSRv6L2Service, bgp.NewSRv6InformationSubTLV(a("2001:db8::3"), bgp.END_DX2)))
	})

	// unknown attribute types: flags upper nibble, boundary types, lengths crossing 255
	ot := bgp.BGP_ATTR_FLAG_OPTIONAL | bgp.BGP_ATTR_FLAG_TRANSITIVE
	for _, fl := range []bgp.BGPAttrFlag{ot, bgp.BGP_ATTR_FLAG_OPTIONAL, ot | bgp.BGP_ATTR_FLAG_PARTIAL, bgp.BGP_ATTR_FLAG_TRANSITIVE, ot | bgp.BGP_ATTR_FLAG_EXTENDED_LENGTH} {
		for _, typ := range []bgp.BGPAttrType{99, 0, 11, 255} {
			for _, n := range []int{0, 1, 255, 256} {
				if fl != ot && (typ != 99 || n > 1) {
					continue
				}
				plain("unknown", fmt.Sprintf("flags%02x-type%d-len%d", uint8(fl), typ, n), func() pa {
					var v []byte
					if n > 0 {
						v = bytesN(n, 0x40)
					}
					return bgp.NewPathAttributeUnknown(fl, typ, v)
				})
			}
		}
	}

	// MP_REACH_NLRI / MP_UNREACH_NLRI: every family; every NLRI of the family alone with the first next
	// hop, the first NLRI with every next-hop form and path-id, and lists of 3 / 2.
	for _, f := range Families() {
		nl := NLRIs(f)
		nhs := NextHopsFor(f)
		kind := "mp-reach-" + f.String()
		for i := range nl {
			for j := range nhs {
				if i > 0 && j > 0 {
					continue
				}
				for _, id := range pathIDs {
					if id != 0 && i > 0 {
						continue
					}
					addID(kind, fmt.Sprintf("%s-nh%d-id%d", nl[i].Name, j, id), ASAny, f, id != 0, func() pa {
						return must(bgp.NewPathAttributeMpReachNLRI(f, []bgp.PathNLRI{{NLRI: NLRIs(f)[i].NLRI, ID: id}}, NextHopsFor(f)[j]...))
					})
				}
			}
		}
		if f != bgp.RF_OPAQUE && len(nl) >= 3 {
			addID(kind, "list3", ASAny, f, true, func() pa {
				nl := NLRIs(f)
				return must(bgp.NewPathAttributeMpReachNLRI(f, []bgp.PathNLRI{{NLRI: nl[0].NLRI, ID: 1}, {NLRI: nl[1].NLRI, ID: 2}, {NLRI: nl[2].NLRI, ID: 0xffffffff}}, NextHopsFor(f)[0]...))
			})
		}
		kind = "mp-unreach-" + f.String()
		add(kind, "eor", ASAny, f, func() pa { return must(bgp.NewPathAttributeMpUnreachNLRI(f, nil)) })
		for i := range nl {
			id := pathIDs[i%len(pathIDs)]
			addID(kind, nl[i].Name, ASAny, f, id != 0, func() pa {
				return must(bgp.NewPathAttributeMpUnreachNLRI(f, []bgp.PathNLRI{{NLRI: NLRIs(f)[i].NLRI, ID: id}}))
			})
		}
		if f != bgp.RF_OPAQUE && len(nl) >= 2 {
			addID(kind, "list2", ASAny, f, true, func() pa {
				nl := NLRIs(f)
				return must(bgp.NewPathAttributeMpUnreachNLRI(f, []bgp.PathNLRI{{NLRI: nl[0].NLRI, ID: 1}, {NLRI: nl[1].NLRI, ID: 2}}))
			})
		}
	}
	// MP_REACH whose value is exactly 255 / 256 bytes only when ADD-PATH identifiers are on the wire
	// (9 + 29*8 + 9 + {5,6}): the constructor computes the length without them, so the extended-length
	// decision is taken at serialisation time
	for _, last := range []string{"0.0.0.0/0", "10.0.0.0/8"} {
		addID("mp-reach-"+bgp.RF_IPv4_UC.String(), "list31-value-crosses-255-with-path-ids-"+last, ASAny, bgp.RF_IPv4_UC, true, func() pa {
			var l []bgp.PathNLRI
			for i := 0; i < 29; i++ {
				l = append(l, bgp.PathNLRI{NLRI: must(bgp.NewIPAddrPrefix(netip.PrefixFrom(netip.AddrFrom4([4]byte{10, byte(i), 1, 0}), 24))), ID: uint32(i + 1)})
			}
			l = append(l, bgp.PathNLRI{NLRI: must(bgp.NewIPAddrPrefix(p("192.0.2.1/32"))), ID: 30}, bgp.PathNLRI{NLRI: must(bgp.NewIPAddrPrefix(p(last))), ID: 31})
			return must(bgp.NewPathAttributeMpReachNLRI(bgp.RF_IPv4_UC, l, a("192.0.2.1")))
		})
	}
	// MP_REACH large enough to need the extended length: 70 IPv4-unicast /24 prefixes (4 bytes each)
	addID("mp-reach-"+bgp.RF_IPv4_UC.String(), "list70", ASAny, bgp.RF_IPv4_UC, true, func() pa {
		var l []bgp.PathNLRI
		for i := 0; i < 70; i++ {
			l = append(l, bgp.PathNLRI{NLRI: must(bgp.NewIPAddrPrefix(netip.PrefixFrom(netip.AddrFrom4([4]byte{10, byte(i), 0, 0}), 24))), ID: uint32(i)})
		}
		return must(bgp.NewPathAttributeMpReachNLRI(bgp.RF_IPv4_UC, l, a("192.0.2.1")))
	})
	return out
}

// Attributes returns one fresh instance of every item of the attribute catalogue.
func Attributes() []Attr {
	bs := AttributeBuilders()
	out := make([]Attr, 0, len(bs))
	for _, b := range bs {
		out = append(out, b.attr())
	}
	return out
}

// AttributeReps returns the simplest member of every attribute kind.
func AttributeReps() []Attr {
	var out []Attr
	for _, b := range AttributeBuilders() {
		if b.Rep {
			out = append(out, b.attr())
		}
	}
	return out
}
