// Package sched is the controlled cooperative scheduler of E-SCHED: a fixed set of harness threads
// runs one at a time (token passing); every hooked synchronisation operation (the vsync / vatomic shims
// call Point before it) is a scheduling point at which the explorer decides who runs next. Locks are
// modelled logically by the shims, so a thread whose next operation is an unavailable lock is
// *disabled*, and "nobody enabled, somebody unfinished" is a deadlock verdict.
//
// Exactly one goroutine owns control at any time (a thread, or the harness before Run / after it
// returns), so the scheduler's own state needs no locking.
package sched

import (
	"fmt"
	"runtime"
	"sort"
	"strings"
)

// Active is the scheduler in control; nil means pass-through (shims behave like the real sync).
var Active *Sched

type thread struct {
	goid     uint64
	id       int
	name     string
	wake     chan struct{}
	done     bool
	started  bool
	skip     bool
	blocked  func() bool // non-nil: disabled until it returns true
	blockTag string
	body     func()
	panicked any
	stack    string
}

// Point is one recorded scheduling decision.
type Point struct {
	Enabled []int   `json:"en"` // canonical order: running thread first if still enabled, then ascending ids
	Chosen  int     `json:"ch"` // index into Enabled
	Running int     `json:"run"`
	RunOK   bool    `json:"runok"` // Running is in Enabled (switching away from it costs a preemption)
	Op      string  `json:"op"`
	Obj     uintptr `json:"-"` // identity of the synchronisation object (stable within one execution)
	Write   bool    `json:"-"` // the operation conflicts with every other access to Obj (not just with writes)
}

type Sched struct {
	threads   []*thread
	cur       int
	prefix    []int
	Points    []Point
	mainCh    chan struct{}
	ack       chan struct{}
	Deadlock  string
	Diverged  string
	MaxPoints int
	CapHit    bool
	aborting  bool
	aborter   *thread
	finished  bool
	// Foreign counts hooked operations executed by goroutines that are not scheduled threads while
	// the scheduler was active (they ran pass-through; a data race with the s.Foreign counter itself
	// is harmless). A non-zero value means the daemon did something concurrently that the explorer
	// did not control.
	Foreign int
	// Filter, if set, decides whether a hooked operation is a scheduling point at all.
	Filter func(op string) bool
}

func New(prefix []int) *Sched {
	return &Sched{prefix: prefix, mainCh: make(chan struct{}), ack: make(chan struct{}), cur: -1, MaxPoints: 100000}
}

func (s *Sched) Go(name string, body func()) {
	s.threads = append(s.threads, &thread{id: len(s.threads), name: name, wake: make(chan struct{}), body: body})
}

func (s *Sched) Names() []string {
	var n []string
	for _, t := range s.threads {
		n = append(n, t.name)
	}
	return n
}

type abortSignal struct{}

// Run executes all threads to completion (or deadlock) replaying the prefix; later choices default to 0.
func (s *Sched) Run() {
	Active = s
	for _, t := range s.threads {
		t := t
		go func() {
			<-t.wake
			if t.skip {
				t.done = true
				s.ack <- struct{}{}
				return
			}
			defer func() {
				if r := recover(); r != nil {
					if _, ok := r.(abortSignal); !ok {
						t.panicked = r
						buf := make([]byte, 16384)
						t.stack = string(buf[:runtime.Stack(buf, false)])
					}
				}
				t.done = true
				s.threadExit(t)
			}()
			t.started = true
			t.goid = curGoid()
			t.body()
		}()
	}
	next := s.choose(-1, "start")
	if next >= 0 {
		s.cur = next
		s.threads[next].wake <- struct{}{}
		<-s.mainCh
	}
	s.cur = -1
	s.finished = true
	Active = nil
}

func (s *Sched) enabled(running int) ([]int, bool) {
	var en []int
	runOK := false
	for _, t := range s.threads {
		if t.done {
			continue
		}
		if t.blocked != nil && !t.blocked() {
			continue
		}
		if t.id == running {
			runOK = true
			continue
		}
		en = append(en, t.id)
	}
	sort.Ints(en)
	if runOK {
		en = append([]int{running}, en...)
	}
	return en, runOK
}

// choose records a point and returns the id of the thread to run next (-1: nobody is enabled).
func (s *Sched) choose(running int, op string) int {
	en, runOK := s.enabled(running)
	if len(en) == 0 {
		return -1
	}
	idx := 0
	i := len(s.Points)
	if i < len(s.prefix) {
		idx = s.prefix[i]
		if idx >= len(en) {
			s.Diverged = fmt.Sprintf("point %d: prefix choice %d out of range (%d enabled, op %s)", i, idx, len(en), op)
			idx = 0
		}
	}
	s.Points = append(s.Points, Point{Enabled: en, Chosen: idx, Running: running, RunOK: runOK, Op: op})
	return en[idx]
}

func (s *Sched) unfinished() []string {
	var u []string
	for _, t := range s.threads {
		if !t.done {
			u = append(u, t.name+"@"+t.blockTag)
		}
	}
	return u
}

// abortOthers unwinds every parked thread except self (called by the thread that detected a deadlock).
func (s *Sched) abortOthers(self *thread) {
	s.aborting = true
	s.aborter = self
	for _, x := range s.threads {
		if x == self || x.done {
			continue
		}
		if !x.started {
			x.skip = true
		}
		x.blocked = nil
		x.wake <- struct{}{}
		<-s.ack
	}
}

func (s *Sched) threadExit(t *thread) {
	if s.aborting {
		if s.aborter == t {
			close(s.mainCh)
		} else {
			s.ack <- struct{}{}
		}
		return
	}
	next := s.choose(-1, "exit:"+t.name)
	if next == -1 {
		if u := s.unfinished(); len(u) > 0 {
			s.Deadlock = strings.Join(u, ", ")
			s.abortOthers(t)
		}
		close(s.mainCh)
		return
	}
	s.cur = next
	s.threads[next].wake <- struct{}{}
}

// handoff gives control to thread next and parks the calling thread t until it is chosen again.
func (s *Sched) handoff(t *thread, next int) {
	s.cur = next
	s.threads[next].wake <- struct{}{}
	<-t.wake
	if s.aborting {
		panic(abortSignal{})
	}
}

// Point is called by the shims before a hooked operation of the running thread.
func (s *Sched) Point(op string) { s.PointObj(op, 0, true) }

// PointObj is Point with the identity of the object operated on and whether the operation is a
// "write" (conflicts with any other access) or a "read" (conflicts with writes only).
func (s *Sched) PointObj(op string, obj uintptr, write bool) {
	if s.cur < 0 || s.finished || s.aborting {
		return
	}
	if s.Filter != nil && !s.Filter(op) {
		return
	}
	if len(s.Points) >= s.MaxPoints {
		s.CapHit = true
		return
	}
	t := s.threads[s.cur]
	next := s.choose(t.id, op)
	if n := len(s.Points); n > 0 {
		s.Points[n-1].Obj, s.Points[n-1].Write = obj, write
	}
	if next == t.id || next == -1 {
		return
	}
	s.handoff(t, next)
}

// ConflictObjects returns the objects that, in this execution, were accessed by at least two threads
// with at least one of the accesses being a write. A preemption right before an operation on any
// other object only reorders independent operations.
func ConflictObjects(points []Point) map[uintptr]bool {
	type acc struct {
		readers, writers map[int]bool
	}
	m := map[uintptr]*acc{}
	for _, p := range points {
		if p.Obj == 0 || p.Running < 0 {
			continue
		}
		a := m[p.Obj]
		if a == nil {
			a = &acc{map[int]bool{}, map[int]bool{}}
			m[p.Obj] = a
		}
		if p.Write {
			a.writers[p.Running] = true
		} else {
			a.readers[p.Running] = true
		}
	}
	out := map[uintptr]bool{}
	for o, a := range m {
		all := map[int]bool{}
		for t := range a.readers {
			all[t] = true
		}
		for t := range a.writers {
			all[t] = true
		}
		if len(all) >= 2 && len(a.writers) >= 1 {
			out[o] = true
		}
	}
	return out
}

// Block disables the running thread until cond() holds, handing control to another thread meanwhile.
func (s *Sched) Block(tag string, cond func() bool) {
	if s.cur < 0 || s.finished {
		panic("sched.Block outside a scheduled thread: " + tag)
	}
	t := s.threads[s.cur]
	for !cond() {
		if s.aborting {
			panic(abortSignal{})
		}
		t.blocked = cond
		t.blockTag = tag
		next := s.choose(t.id, "block:"+tag)
		if next == -1 {
			s.Deadlock = strings.Join(s.unfinished(), ", ")
			s.abortOthers(t)
			panic(abortSignal{})
		}
		if next != t.id {
			s.handoff(t, next)
		}
		t.blocked = nil
		t.blockTag = ""
	}
}

// InThread reports whether the CALLING goroutine is the scheduled thread that currently owns control
// (the shims use their logical state then). Any other goroutine (the daemon's own background
// goroutines woken by a context cancellation, timers) gets pass-through behaviour.
func (s *Sched) InThread() bool {
	if s == nil || s.finished {
		return false
	}
	c := s.cur
	if c < 0 || c >= len(s.threads) {
		return false
	}
	if s.threads[c].goid != curGoid() {
		s.Foreign++
		return false
	}
	return true
}

// curGoid parses the goroutine id out of the stack header ("goroutine 123 [running]:").
func curGoid() uint64 {
	var buf [40]byte
	n := runtime.Stack(buf[:], false)
	var id uint64
	for i := len("goroutine "); i < n; i++ {
		c := buf[i]
		if c < '0' || c > '9' {
			break
		}
		id = id*10 + uint64(c-'0')
	}
	return id
}

// Panics returns the panics of the threads, if any.
func (s *Sched) Panics() []string {
	var out []string
	for _, t := range s.threads {
		if t.panicked != nil {
			out = append(out, fmt.Sprintf("thread %s: %v\n%s", t.name, t.panicked, t.stack))
		}
	}
	return out
}

func (s *Sched) Choices() []int {
	c := make([]int, len(s.Points))
	for i, p := range s.Points {
		c[i] = p.Chosen
	}
	return c
}

// PreemptionsBefore counts the preemptions among the first n points.
func PreemptionsBefore(points []Point, n int) int {
	c := 0
	for i := 0; i < n && i < len(points); i++ {
		if points[i].RunOK && points[i].Chosen != 0 {
			c++
		}
	}
	return c
}
