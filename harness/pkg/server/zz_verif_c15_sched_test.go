//go:build verifshim

package server

import (
	"testing"
	"time"

	"github.com/osrg/gobgp/v4/internal/verif/vr"
	"github.com/osrg/gobgp/v4/pkg/packet/bgp"
)

// C15, schedule part: a soft reset (management thread) concurrent with route changes arriving on a
// receive goroutine; after both finish the state must equal a fresh evaluation under the current policy.

func c15SchedCheck(w *schedWorld, imp, exp int, tag string) {
	sc := &c15Scenario{simRoutesScenario: &simRoutesScenario{}}
	sc.imp, sc.exp = imp, exp
	n0 := len(w.viol)
	sc.checkImport(w.simWorld)
	for i := n0; i < len(w.viol); i++ {
		w.viol[i].Key = "C15:sched:" + tag + ":" + w.viol[i].Key
	}
	schedCheckExport(w, "c15."+tag)
}

func init() {
	rs := &simRoutesScenario{}
	ann := func(w *schedWorld, bot, pfx, variant int) *bgp.BGPMessage {
		return rs.updateMsg(w.bots[bot], pfx, variant, 0, false)
	}
	mk := func(name string, imp, exp int, reset func(w *schedWorld) error, upd func(w *schedWorld) func()) {
		schedScenarios[name] = &schedScenario{Name: name,
			Setup: func(w *schedWorld) []schedThread {
				c01SchedBots(w, 3)
				for _, b := range w.bots {
					w.establish(b)
				}
				// routes learned under the old (empty) policy: one carries community 65000:77
				w.receive(w.bots[0], ann(w, 0, 0, 1), ann(w, 0, 1, 0))
				w.receive(w.bots[1], ann(w, 1, 1, 1))
				w.settleSetup()
				simSetPolicies(w.simWorld, imp, exp) // the policy change, then reset || update
				return []schedThread{
					{"mgmt-softreset", func() { _ = w.mgmt(func() error { return reset(w) }) }},
					{"recv", upd(w)},
				}
			},
			Check: func(w *schedWorld) { c15SchedCheck(w, imp, exp, name) }}
	}
	softin := func(w *schedWorld) error { return w.s.softResetIn("", bgp.Family(0)) }
	softout := func(w *schedWorld) error { return w.s.softResetOut("", bgp.Family(0), false) }
	both := func(w *schedWorld) error { return w.s.sReset("", bgp.Family(0)) }
	// import policy 2 = reject community 65000:77; export policy 1 = reject prefix 0; 3 = set MED
	mk("c15.in-vs-replace", 2, 0, softin, func(w *schedWorld) func() { return func() { w.receive(w.bots[0], ann(w, 0, 0, 0)) } })
	mk("c15.in-vs-other", 2, 0, softin, func(w *schedWorld) func() { return func() { w.receive(w.bots[1], ann(w, 1, 0, 1)) } })
	mk("c15.out-vs-announce", 0, 1, softout, func(w *schedWorld) func() { return func() { w.receive(w.bots[1], ann(w, 1, 0, 0)) } })
	mk("c15.out-vs-withdraw", 0, 3, softout, func(w *schedWorld) func() {
		return func() { w.receive(w.bots[0], rs.updateMsg(w.bots[0], 0, 0, 0, true)) }
	})
	// ROUTE-REFRESH from a peer (its receive goroutine, shared lock only) concurrent with a withdrawal
	// arriving from another peer: the refresh must not re-announce the withdrawn route from its snapshot
	schedScenarios["c15.rr-vs-withdraw"] = &schedScenario{Name: "c15.rr-vs-withdraw",
		Setup: func(w *schedWorld) []schedThread {
			c01SchedBots(w, 3)
			for _, b := range w.bots {
				w.establish(b)
			}
			w.receive(w.bots[0], ann(w, 0, 0, 1), ann(w, 0, 1, 0))
			w.receive(w.bots[1], ann(w, 1, 1, 1))
			w.settleSetup()
			simSetPolicies(w.simWorld, 0, 3)
			return []schedThread{
				{"recv-e2-routerefresh", func() { w.receive(w.bots[2], bgp.NewBGPRouteRefreshMessage(1, 0, 1)) }},
				{"recv-e0-withdraw", func() { w.receive(w.bots[0], rs.updateMsg(w.bots[0], 0, 0, 0, true)) }},
			}
		},
		Check: func(w *schedWorld) {
			// only the refreshed peer is guaranteed to be in sync with the new export policy
			rsx := &simRoutesScenario{}
			b := w.bots[2]
			p := w.peer(b)
			exp, _ := rsx.expectedExport(w.simWorld, b, p)
			k := len(w.batches[2])
			for mask := 0; mask < 1<<max(k-1, 0) && mask < 64; mask++ {
				cut := make([]bool, k)
				for j := 0; j < k-1; j++ {
					cut[j] = mask&(1<<j) != 0
				}
				view := map[string]string{}
				for kk, v := range b.view {
					view[kk] = v
				}
				if err := w.applyBatches(2, view, cut); err != nil {
					w.violate("C15:sched:rr:unencodable", "%v", err)
					continue
				}
				if a, e := simViewString(view), simViewString(exp); a != e {
					d := simDiff(view, exp)
					w.violate("C15:sched:rr-vs-withdraw:view-differs-from-fresh-export:"+d.class, "after ROUTE-REFRESH racing a withdrawal (coalescing pattern %b) %s holds\n%s but a fresh export gives\n%s%s", mask, b.spec.Name, a, e, d.text)
					break
				}
			}
		}}
	mk("c15.both-vs-replace", 2, 1, both, func(w *schedWorld) func() { return func() { w.receive(w.bots[0], ann(w, 0, 1, 1)) } })
}

func TestVerif_C15_Sched(t *testing.T) {
	r := vr.Start(t, "C15", "sched")
	defer r.Finish()
	r.Rule = "stateless DFS over the interleavings (every lock / atomic / sync.Map operation, iterative context bounding) of a soft reset in / out / both on the management thread with a route replacement / announcement / withdrawal on a receive thread, after a policy change; each complete execution checked: Loc-RIB == fresh import evaluation, every bot's view under every sender coalescing partition == from-scratch export; non-trivial = distinct final daemon state"
	r.Assumptions = append(r.Assumptions, "scheduling points at synchronisation operations only", "RWMutex writer preference is not modelled")
	if r.ReplayPath() != "" {
		var rp schedReplay
		if err := r.LoadReplay(&rp); err != nil {
			t.Fatal(err)
		}
		schedReplayOne(t, r, rp)
		return
	}
	bound, budget := 1, 40*time.Second
	names := []string{"c15.in-vs-replace", "c15.rr-vs-withdraw"}
	if vr.Thorough() {
		bound, budget = 2, 8*time.Minute
		names = []string{"c15.in-vs-replace", "c15.in-vs-other", "c15.out-vs-announce", "c15.out-vs-withdraw", "c15.rr-vs-withdraw", "c15.both-vs-replace"}
	}
	for _, n := range names {
		schedExploreSharded(t, r, n, bound, 1, budget)
	}
}
