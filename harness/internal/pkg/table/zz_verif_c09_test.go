package table

// C09 part "attrs" — per-peer-type export rewriting (table.UpdatePathAttrs) against the rule table
// "refexport", plus the aliasing half of the property (producing a peer's copy never alters the stored
// route; two peers' copies never influence each other).
//
// E-SEQ: the full product source kind x target kind x target options x AS_PATH shape x attribute set x
// next hop is enumerated; the real UpdatePathAttrs is called on a real stored *Path built with
// spare-capacity slices; the result is serialised and read back by a tiny decoder of this file and
// compared with what the rule table (plain structs and bytes only) demands.

import (
	"bytes"
	"encoding/binary"
	"encoding/hex"
	"fmt"
	"log/slog"
	"net/netip"
	"runtime"
	"sort"
	"strings"
	"testing"
	"time"

	"github.com/osrg/gobgp/v4/internal/verif/vr"
	"github.com/osrg/gobgp/v4/pkg/config/oc"
	"github.com/osrg/gobgp/v4/pkg/packet/bgp"
)

// ---------------------------------------------------------------------------------------------
// plain description of a case

const (
	c09SrcLocal = iota
	c09SrcEBGP
	c09SrcIBGP
	c09SrcClient
	c09SrcConfed
)

const (
	c09TgtEBGP = iota
	c09TgtIBGP
	c09TgtClient
	c09TgtRS
	c09TgtConfed
)

var c09SrcNames = []string{"local", "ebgp", "ibgp-nonclient", "rr-client", "confed-member"}
var c09TgtNames = []string{"ebgp", "ibgp-nonclient", "rr-client", "rs-client", "confed-member"}

// AS numbers of the two worlds. World 0 ("plain"): AS 100, no confederation. World 1 ("confed"): the
// router is in member-AS 65100 of confederation 100 whose other members are 65101 and 65102.
const (
	c09PlainAS    = 100
	c09ConfedID   = 100
	c09MemberAS   = 65100
	c09Member1    = 65101 // the confed-member target
	c09Member2    = 65102 // the confed-member source
	c09OverrideAS = 150   // local-as override
	c09TgtEBGPAS  = 200
	c09TgtRSAS    = 201
	c09SrcEBGPAS  = 300
)

// RFC 4271 4.3 / RFC 5065 3 segment type codes
const (
	c09SET  = 1
	c09SEQ  = 2
	c09CSEQ = 3
	c09CSET = 4
)

var (
	c09RID      = [4]byte{10, 0, 0, 254} // local router-id
	c09CID      = [4]byte{10, 9, 9, 9}   // local cluster-id
	c09OtherRID = [4]byte{7, 7, 7, 7}
	c09OtherCID = [4]byte{10, 8, 8, 8}
	c09LA4      = netip.MustParseAddr("10.0.0.254")
	c09LA6      = netip.MustParseAddr("2001:db8::fe")
	c09NH4      = netip.MustParseAddr("192.0.2.1")
	c09NH6      = netip.MustParseAddr("2001:db8::1")
	c09SrcID    = [][4]byte{{}, {3, 3, 3, 3}, {4, 4, 4, 4}, {5, 5, 5, 5}, {6, 6, 6, 6}}
	c09SrcAddr  = [][4]byte{{}, {10, 0, 0, 3}, {10, 0, 0, 4}, {10, 0, 0, 5}, {10, 0, 0, 6}}
)

type c09Seg struct {
	T  uint8
	AS []uint32
}

func c09Rep(n int, as uint32) []uint32 {
	r := make([]uint32, n)
	for i := range r {
		r[i] = as
	}
	return r
}

type c09Shape struct {
	Name     string
	Segs     []c09Seg
	Thorough bool
}

var c09Shapes = []c09Shape{
	{"empty", nil, false},
	{"seq", []c09Seg{{c09SEQ, []uint32{300}}}, false},
	{"seq.set", []c09Seg{{c09SEQ, []uint32{300, 400}}, {c09SET, []uint32{500, 600}}}, false},
	{"confedseq.seq", []c09Seg{{c09CSEQ, []uint32{c09Member2}}, {c09SEQ, []uint32{300}}}, false},
	{"private-mixed", []c09Seg{{c09SEQ, []uint32{64512, 300, 65534}}}, false},
	{"private-only", []c09Seg{{c09SEQ, []uint32{64512, 65000}}}, false},
	{"private-boundaries", []c09Seg{{c09SEQ, []uint32{64511, 64512, 65534, 65535, 4199999999, 4200000000, 4294967294, 4294967295}}}, false},
	{"contains-target-as", []c09Seg{{c09SEQ, []uint32{300, c09TgtEBGPAS}}}, false},
	{"seq255", []c09Seg{{c09SEQ, c09Rep(255, 300)}}, false},
	{"seq254", []c09Seg{{c09SEQ, c09Rep(254, 300)}}, false},
	{"set-first", []c09Seg{{c09SET, []uint32{300, 400}}, {c09SEQ, []uint32{500}}}, false},
	{"confedseq-only", []c09Seg{{c09CSEQ, []uint32{c09Member2, c09Member1}}}, false},
	{"confedseq255.seq", []c09Seg{{c09CSEQ, c09Rep(255, c09Member2)}, {c09SEQ, []uint32{300}}}, false},
	{"confedset.seq", []c09Seg{{c09CSET, []uint32{c09Member2}}, {c09SEQ, []uint32{300}}}, false},
	{"private-seq.private-set", []c09Seg{{c09SEQ, []uint32{64512}}, {c09SET, []uint32{64513, 64514}}}, false},
	{"confedseq.seq255", []c09Seg{{c09CSEQ, []uint32{c09Member2}}, {c09SEQ, c09Rep(255, 300)}}, false},
	{"seq.private-seq.seq", []c09Seg{{c09SEQ, []uint32{300}}, {c09SET, []uint32{64600}}, {c09SEQ, []uint32{400}}}, true},
	{"contains-local-as", []c09Seg{{c09SEQ, []uint32{300, c09PlainAS, 400}}}, true},
	{"seq253", []c09Seg{{c09SEQ, c09Rep(253, 300)}}, true},
	{"confedseq254.seq", []c09Seg{{c09CSEQ, c09Rep(254, c09Member2)}, {c09SEQ, []uint32{300}}}, true},
	{"4byte", []c09Seg{{c09SEQ, []uint32{4200000001, 70000, 23456}}}, true},
}

// c09Case identifies one element of the product (plain data, JSON-able: it is the replay artefact).
type c09Case struct {
	G     int  `json:"g"`     // 0 plain, 1 confederation
	Src   int  `json:"src"`   // source kind
	Tgt   int  `json:"tgt"`   // target kind
	RPA   int  `json:"rpa"`   // remove-private-as 0 none 1 all 2 replace (eBGP-type targets only)
	LAS   bool `json:"las"`   // local-as override
	Path  int  `json:"path"`  // index in c09Shapes
	LP    bool `json:"lp"`    // LOCAL_PREF 200 present
	MED   bool `json:"med"`   // MED 50 present
	Orig  int  `json:"orig"`  // ORIGINATOR_ID 0 absent 1 = local router-id 2 other
	CL    int  `json:"cl"`    // CLUSTER_LIST 0 absent 1 without local cluster-id 2 with
	UT    int  `json:"ut"`    // unknown transitive attr 250: 0 absent 1 present 2 present with Partial bit
	UNT   bool `json:"unt"`   // unknown non-transitive attr 251
	Comm  bool `json:"comm"`  // COMMUNITIES
	NH    int  `json:"nh"`    // 0 v4 NEXT_HOP 1 v6 MP_REACH 2 NEXT_HOP 0.0.0.0 3 MP_REACH :: 4 v6 MP_REACH plus a stray NEXT_HOP
	Sess  int  `json:"sess"`  // session local address 0 v4 1 v6
	Chain int  `json:"chain"` // 0 stored path is a root, 1 stored path is a clone with overrides and deletions
	Wd    bool `json:"wd"`    // stored path is a withdrawal
}

func (c c09Case) String() string {
	return fmt.Sprintf("{world=%s src=%s tgt=%s rpa=%d local-as-override=%v aspath=%s lp=%v med=%v originator=%d clusterlist=%d unk-trans=%d unk-nontrans=%v comm=%v nh=%d sess=%d chain=%d wd=%v}",
		[]string{"plain", "confed"}[c.G], c09SrcNames[c.Src], c09TgtNames[c.Tgt], c.RPA, c.LAS, c09Shapes[c.Path].Name,
		c.LP, c.MED, c.Orig, c.CL, c.UT, c.UNT, c.Comm, c.NH, c.Sess, c.Chain, c.Wd)
}

func (c c09Case) key() string {
	b := []byte{byte(c.G), byte(c.Src), byte(c.Tgt), byte(c.RPA), c09b(c.LAS), byte(c.Path), c09b(c.LP), c09b(c.MED), byte(c.Orig), byte(c.CL),
		byte(c.UT), c09b(c.UNT), c09b(c.Comm), byte(c.NH), byte(c.Sess), byte(c.Chain), c09b(c.Wd)}
	return string(b)
}

func c09b(x bool) byte {
	if x {
		return 1
	}
	return 0
}

// facts about the target session, derived from the case by the documented configuration rules
// (RFC 5065: towards a peer outside the confederation the router shows the confederation identifier,
// towards a member its member-AS; local-as overrides either).
func (c c09Case) worldAS() uint32 {
	if c.G == 1 {
		return c09MemberAS
	}
	return c09PlainAS
}

func (c c09Case) sessionLocalAS() uint32 {
	if c.LAS {
		return c09OverrideAS
	}
	if c.G == 1 && (c.Tgt == c09TgtEBGP || c.Tgt == c09TgtRS) {
		return c09ConfedID
	}
	return c.worldAS()
}

func (c c09Case) la() netip.Addr {
	if c.Sess == 1 {
		return c09LA6
	}
	return c09LA4
}

func (c c09Case) isLocal() bool { return c.Src == c09SrcLocal }

func (c c09Case) external() bool {
	return c.Tgt == c09TgtEBGP || c.Tgt == c09TgtRS || c.Tgt == c09TgtConfed
}

// ---------------------------------------------------------------------------------------------
// plain attribute encoding (RFC 4271 4.3, RFC 4456, RFC 4760, RFC 1997) — the input as the rule table sees it

type c09Attr struct {
	Flags uint8
	Type  uint8
	Val   []byte
}

const (
	c09tOrigin = 1
	c09tAsPath = 2
	c09tNH     = 3
	c09tMED    = 4
	c09tLP     = 5
	c09tComm   = 8
	c09tOrigID = 9
	c09tCL     = 10
	c09tMPR    = 14
	c09tUT     = 250
	c09tUNT    = 251
)

var c09TypeNames = map[uint8]string{1: "origin", 2: "aspath", 3: "nexthop", 4: "med", 5: "localpref", 8: "communities", 9: "originator-id",
	10: "cluster-list", 14: "mp-reach", 250: "unknown-transitive", 251: "unknown-nontransitive"}

func c09u32(v uint32) []byte { return binary.BigEndian.AppendUint32(nil, v) }

func c09EncSegs(segs []c09Seg) []byte {
	var b []byte
	for _, s := range segs {
		b = append(b, s.T, byte(len(s.AS)))
		for _, a := range s.AS {
			b = binary.BigEndian.AppendUint32(b, a)
		}
	}
	return b
}

func c09DecSegs(b []byte) ([]c09Seg, error) {
	var out []c09Seg
	for len(b) > 0 {
		if len(b) < 2 || len(b) < 2+4*int(b[1]) {
			return nil, fmt.Errorf("truncated AS_PATH segment")
		}
		s := c09Seg{T: b[0]}
		for i := 0; i < int(b[1]); i++ {
			s.AS = append(s.AS, binary.BigEndian.Uint32(b[2+4*i:]))
		}
		out = append(out, s)
		b = b[2+4*int(b[1]):]
	}
	return out, nil
}

var c09Prefix4 = []byte{24, 10, 10, 0}                 // 10.10.0.0/24
var c09Prefix6 = []byte{48, 0x20, 1, 0x0d, 0xb8, 0, 1} // 2001:db8:1::/48

func (c c09Case) clusterList() [][4]byte {
	switch c.CL {
	case 1:
		return [][4]byte{c09OtherCID}
	case 2:
		return [][4]byte{c09OtherCID, c09CID}
	}
	return nil
}

var c09CommVals = []uint32{100<<16 | 1, 0xFFFFFF01}

// c09PlainAttrs is the stored route's attribute set, by type.
func c09PlainAttrs(c c09Case) map[uint8]c09Attr {
	m := map[uint8]c09Attr{}
	put := func(f, t uint8, v []byte) { m[t] = c09Attr{f, t, v} }
	put(0x40, c09tOrigin, []byte{0})
	put(0x40, c09tAsPath, c09EncSegs(c09Shapes[c.Path].Segs))
	switch c.NH {
	case 0:
		put(0x40, c09tNH, c09NH4.AsSlice())
	case 2:
		put(0x40, c09tNH, []byte{0, 0, 0, 0})
	case 1, 3, 4:
		if c.NH == 4 {
			// an IPv6 route that also carries a NEXT_HOP attribute (a sender that always includes it; RFC
			// 4760 3: the receiver ignores it). The next hop that matters is the one in MP_REACH_NLRI.
			put(0x40, c09tNH, c09NH4.AsSlice())
		}
		nh := c09NH6
		if c.NH == 3 {
			nh = netip.IPv6Unspecified()
		}
		v := []byte{0, 2, 1, 16}
		v = append(v, nh.AsSlice()...)
		v = append(v, 0)
		v = append(v, c09Prefix6...)
		put(0x80, c09tMPR, v)
	}
	if c.MED {
		put(0x80, c09tMED, c09u32(50))
	}
	if c.LP {
		put(0x40, c09tLP, c09u32(200))
	}
	if c.Comm {
		var v []byte
		for _, x := range c09CommVals {
			v = append(v, c09u32(x)...)
		}
		put(0xC0, c09tComm, v)
	}
	switch c.Orig {
	case 1:
		put(0x80, c09tOrigID, c09RID[:])
	case 2:
		put(0x80, c09tOrigID, c09OtherRID[:])
	}
	if cl := c.clusterList(); cl != nil {
		var v []byte
		for _, x := range cl {
			v = append(v, x[:]...)
		}
		put(0x80, c09tCL, v)
	}
	switch c.UT {
	case 1:
		put(0xC0, c09tUT, []byte{1, 2, 3})
	case 2:
		put(0xE0, c09tUT, []byte{1, 2, 3})
	}
	if c.UNT {
		put(0x80, c09tUNT, []byte{9, 8})
	}
	return m
}

// ---------------------------------------------------------------------------------------------
// refexport — the rule table. Plain data in, demands out.

const (
	c09Same   = iota // attribute exactly as in the stored route (present iff present there)
	c09Absent        // must not be sent
	c09OneOf         // present with one of the listed values
	c09Any           // the property and the RFCs leave it open
	c09SameOrAbsent
)

type c09Rule struct {
	Mode   int
	Vals   [][]byte
	Flags  uint8  // for c09OneOf: required Optional/Transitive bits
	Clause string // which sentence of the rule table
}

const (
	c09NHUnchanged = iota
	c09NHSelf
	c09NHEither
)

type c09Demand struct {
	Unchanged bool // route-server client: the whole route as stored
	Rules     map[uint8]c09Rule
	NH        int
	NHClause  string
	// AS_PATH alternatives (nil: governed by Rules[c09tAsPath])
	AsPaths  [][]c09Seg
	AsClause string
	AsBranch string
}

func c09IsPrivate(as uint32) bool {
	// RFC 6996
	return (as >= 64512 && as <= 65534) || (as >= 4200000000 && as <= 4294967294)
}

func c09CloneSegs(s []c09Seg) []c09Seg {
	out := make([]c09Seg, len(s))
	for i, x := range s {
		out[i] = c09Seg{x.T, append([]uint32(nil), x.AS...)}
	}
	return out
}

// remove-private-as: "all" deletes private AS numbers, "replace" substitutes the local AS. confedToo says
// whether confederation segments are processed as well.
func c09RemovePrivate(segs []c09Seg, mode int, local uint32, confedToo bool) []c09Seg {
	if mode == 0 {
		return c09CloneSegs(segs)
	}
	var out []c09Seg
	for _, s := range segs {
		if !confedToo && (s.T == c09CSEQ || s.T == c09CSET) {
			out = append(out, c09Seg{s.T, append([]uint32(nil), s.AS...)})
			continue
		}
		n := c09Seg{T: s.T}
		for _, a := range s.AS {
			if c09IsPrivate(a) {
				if mode == 2 {
					n.AS = append(n.AS, local)
				}
				continue
			}
			n.AS = append(n.AS, a)
		}
		if len(n.AS) > 0 {
			out = append(out, n)
		}
	}
	return out
}

func c09StripConfed(segs []c09Seg) []c09Seg {
	var out []c09Seg
	for _, s := range segs {
		if s.T == c09SEQ || s.T == c09SET {
			out = append(out, s)
		}
	}
	return out
}

// RFC 4271 5.1.2 (a)/(b) and RFC 5065 4.1: prepend into the leading segment of the wanted type unless that
// would overflow 255, otherwise prepend a new segment.
func c09Prepend(segs []c09Seg, as uint32, t uint8) []c09Seg {
	if len(segs) > 0 && segs[0].T == t && len(segs[0].AS) < 255 {
		out := c09CloneSegs(segs)
		out[0].AS = append([]uint32{as}, out[0].AS...)
		return out
	}
	return append([]c09Seg{{t, []uint32{as}}}, c09CloneSegs(segs)...)
}

// which branch of the prepend rule applied (vacuity statistics)
func c09PrependBranch(segs []c09Seg, t uint8) string {
	switch {
	case len(segs) == 0:
		return "empty-path:new-segment"
	case segs[0].T != t:
		return "leading-segment-of-other-type:new-segment"
	case len(segs[0].AS) >= 255:
		return "leading-segment-full:new-segment"
	}
	return "into-leading-segment"
}

func c09Ref(c c09Case, in map[uint8]c09Attr) c09Demand {
	d := c09Demand{Rules: map[uint8]c09Rule{}}
	if c.Tgt == c09TgtRS {
		// RFC 7947 2.2 / property: "to route-server clients the route is unchanged"
		d.Unchanged = true
		return d
	}
	segs := c09Shapes[c.Path].Segs
	L := c.sessionLocalAS()
	same := func(t uint8, clause string) { d.Rules[t] = c09Rule{Mode: c09Same, Clause: clause} }
	same(c09tOrigin, "ORIGIN is never rewritten")
	same(c09tComm, "COMMUNITIES are not touched by per-peer rewriting")
	// RFC 4271 5: unrecognised transitive attributes are passed on (the Partial bit is not judged here),
	// unrecognised non-transitive ones are not passed on.
	same(c09tUT, "unknown transitive attribute is passed on")
	d.Rules[c09tUNT] = c09Rule{Mode: c09Absent, Clause: "unknown non-transitive attribute is not passed on"}

	if c.external() {
		confedPeer := c.Tgt == c09TgtConfed
		if !confedPeer {
			// true eBGP: private-AS option, confederation segments removed, session AS prepended once
			base := c09StripConfed(c09RemovePrivate(segs, c.RPA, L, true))
			d.AsPaths = [][]c09Seg{c09Prepend(base, L, c09SEQ)}
			d.AsBranch = c09PrependBranch(base, c09SEQ)
			d.AsClause = "to eBGP: private-AS option applied, confederation segments removed, local AS prepended exactly once"
		} else {
			// RFC 5065 4.1 (b): member-AS prepended in an AS_CONFED_SEQUENCE, nothing removed. How remove-private-as
			// treats confederation segments is not specified by the property: both readings are accepted.
			a := c09Prepend(c09RemovePrivate(segs, c.RPA, L, true), L, c09CSEQ)
			b := c09Prepend(c09RemovePrivate(segs, c.RPA, L, false), L, c09CSEQ)
			d.AsPaths = [][]c09Seg{a, b}
			d.AsBranch = c09PrependBranch(c09RemovePrivate(segs, c.RPA, L, false), c09CSEQ)
			d.AsClause = "to a confederation member: member-AS prepended exactly once in a CONFED_SEQUENCE, confederation segments kept"
		}
		// next hop
		switch {
		case confedPeer:
			d.NH, d.NHClause = c09NHEither, "RFC 5065 5.3: towards a confederation member the next hop may be left unchanged or set to self"
		case c.isLocal() && c.NH != 2 && c.NH != 3:
			// a locally originated route with an explicitly configured next hop: RFC 4271 5.1.3 allows a
			// third-party next hop; the property text does not cover operator-specified next hops.
			d.NH, d.NHClause = c09NHEither, "locally originated route with explicit next hop towards eBGP: operator-specified, either is accepted"
		default:
			d.NH, d.NHClause = c09NHSelf, "to eBGP: next hop set to the session's local address"
		}
		// LOCAL_PREF: stripped by (*BgpServer).postFilterpath, after export policy — checked in part "filter".
		d.Rules[c09tLP] = c09Rule{Mode: c09SameOrAbsent, Clause: "LOCAL_PREF towards eBGP (removal is done later by postFilterpath): unchanged or removed"}
		// MED
		switch {
		case c.isLocal():
			same(c09tMED, "MED of a locally originated route is kept towards eBGP")
		case confedPeer:
			d.Rules[c09tMED] = c09Rule{Mode: c09SameOrAbsent, Clause: "RFC 5065 5.3: MED may be sent to confederation members"}
		default:
			d.Rules[c09tMED] = c09Rule{Mode: c09Absent, Clause: "foreign MED is removed towards eBGP"}
		}
		d.Rules[c09tOrigID] = c09Rule{Mode: c09Absent, Clause: "ORIGINATOR_ID is removed towards eBGP"}
		d.Rules[c09tCL] = c09Rule{Mode: c09Absent, Clause: "CLUSTER_LIST is removed towards eBGP"}
		return d
	}

	// iBGP (non-client or route-reflector client)
	same(c09tAsPath, "to iBGP: AS_PATH unchanged")
	if c.isLocal() && (c.NH == 2 || c.NH == 3) {
		d.NH, d.NHClause = c09NHSelf, "to iBGP: next-hop-self for a local route with unspecified next hop"
	} else {
		d.NH, d.NHClause = c09NHUnchanged, "to iBGP: next hop unchanged"
	}
	same(c09tMED, "to iBGP: MED unchanged")
	if _, ok := in[c09tLP]; ok {
		same(c09tLP, "to iBGP: LOCAL_PREF kept")
	} else {
		d.Rules[c09tLP] = c09Rule{Mode: c09OneOf, Vals: [][]byte{c09u32(100)}, Flags: 0x40, Clause: "to iBGP: LOCAL_PREF present (default 100 added)"}
	}
	// RFC 4456 8: reflection = towards a client, or a client's route towards a non-client.
	reflect := c.Tgt == c09TgtClient || c.Src == c09SrcClient
	if !reflect {
		d.Rules[c09tOrigID] = c09Rule{Mode: c09Any, Clause: "not reflecting: ORIGINATOR_ID not specified"}
		d.Rules[c09tCL] = c09Rule{Mode: c09Any, Clause: "not reflecting: CLUSTER_LIST not specified"}
		return d
	}
	if _, ok := in[c09tOrigID]; ok {
		same(c09tOrigID, "reflecting: an existing ORIGINATOR_ID is kept")
	} else {
		var vals [][]byte
		switch c.Src {
		case c09SrcLocal:
			vals = [][]byte{c09RID[:]}
		case c09SrcIBGP, c09SrcClient:
			vals = [][]byte{c09SrcID[c.Src][:]}
		default:
			// eBGP / confederation sourced: "the originator of the route in the local AS" (RFC 4456 8) is this
			// router; the task's rule table says the source's router-id. Both accepted.
			vals = [][]byte{c09SrcID[c.Src][:], c09RID[:]}
		}
		d.Rules[c09tOrigID] = c09Rule{Mode: c09OneOf, Vals: vals, Flags: 0x80, Clause: "reflecting: ORIGINATOR_ID set to the router-id of the originator"}
	}
	var cl []byte
	cl = append(cl, c09CID[:]...)
	for _, x := range c.clusterList() {
		cl = append(cl, x[:]...)
	}
	d.Rules[c09tCL] = c09Rule{Mode: c09OneOf, Vals: [][]byte{cl}, Flags: 0x80, Clause: "reflecting: local cluster-id prepended to CLUSTER_LIST"}
	return d
}

// ---------------------------------------------------------------------------------------------
// binding to the implementation

var c09Log = slog.New(slog.NewTextHandler(c09Discard{}, &slog.HandlerOptions{Level: slog.LevelError + 8}))

type c09Discard struct{}

func (c09Discard) Write(b []byte) (int, error) { return len(b), nil }

func c09A4(b [4]byte) netip.Addr { return netip.AddrFrom4(b) }

var c09Globals [2]*oc.Global

func c09Global(g int) *oc.Global {
	gl := &oc.Global{Config: oc.GlobalConfig{As: c09PlainAS, RouterId: c09A4(c09RID)}}
	if g == 1 {
		gl.Config.As = c09MemberAS
		gl.Confederation.Config = oc.ConfederationConfig{Enabled: true, Identifier: c09ConfedID, MemberAsList: []uint32{c09Member1, c09Member2}}
	}
	return gl
}

// c09PeerInfoFor goes through the daemon's own configuration defaulting and PeerInfo constructor, the way
// (*BgpServer).handleFSMMessage builds the PeerInfo of an established session.
func c09PeerInfoFor(gl *oc.Global, n *oc.Neighbor, id, addr, local netip.Addr) (*PeerInfo, error) {
	if err := oc.SetDefaultNeighborConfigValues(n, nil, gl); err != nil {
		return nil, err
	}
	return NewPeerInfo(gl, n, n.Config.PeerAs, n.Config.LocalAs, id, gl.Config.RouterId, addr, local), nil
}

type c09TgtKey struct {
	G, Tgt, RPA int
	LAS         bool
	Sess        int
}

var c09Targets = map[c09TgtKey]*PeerInfo{}
var c09Sources [2][5]*PeerInfo

func c09TargetNeighbor(k c09TgtKey) *oc.Neighbor {
	world := uint32(c09PlainAS)
	if k.G == 1 {
		world = c09MemberAS
	}
	n := &oc.Neighbor{Config: oc.NeighborConfig{NeighborAddress: netip.MustParseAddr("10.0.0.2")}}
	if k.LAS {
		n.Config.LocalAs = c09OverrideAS
	}
	switch k.Tgt {
	case c09TgtEBGP:
		n.Config.PeerAs = c09TgtEBGPAS
	case c09TgtRS:
		n.Config.PeerAs = c09TgtRSAS
		n.RouteServer.Config.RouteServerClient = true
	case c09TgtConfed:
		n.Config.PeerAs = c09Member1
	case c09TgtIBGP, c09TgtClient:
		n.Config.PeerAs = world
		if k.LAS {
			n.Config.PeerAs = c09OverrideAS
		}
		if k.Tgt == c09TgtClient {
			n.RouteReflector.Config.RouteReflectorClient = true
			n.RouteReflector.Config.RouteReflectorClusterId = c09A4(c09CID)
		}
	}
	switch k.RPA {
	case 1:
		n.Config.RemovePrivateAs = oc.REMOVE_PRIVATE_AS_OPTION_ALL
	case 2:
		n.Config.RemovePrivateAs = oc.REMOVE_PRIVATE_AS_OPTION_REPLACE
	}
	return n
}

func c09Init() error {
	for g := 0; g < 2; g++ {
		c09Globals[g] = c09Global(g)
		world := c09Globals[g].Config.As
		for s := 1; s < 5; s++ {
			if s == c09SrcConfed && g == 0 {
				continue
			}
			n := &oc.Neighbor{Config: oc.NeighborConfig{NeighborAddress: c09A4(c09SrcAddr[s])}}
			switch s {
			case c09SrcEBGP:
				n.Config.PeerAs = c09SrcEBGPAS
			case c09SrcIBGP:
				n.Config.PeerAs = world
			case c09SrcClient:
				n.Config.PeerAs = world
				n.RouteReflector.Config.RouteReflectorClient = true
				n.RouteReflector.Config.RouteReflectorClusterId = c09A4(c09CID)
			case c09SrcConfed:
				n.Config.PeerAs = c09Member2
			}
			pi, err := c09PeerInfoFor(c09Globals[g], n, c09A4(c09SrcID[s]), c09A4(c09SrcAddr[s]), c09LA4)
			if err != nil {
				return err
			}
			c09Sources[g][s] = pi
		}
		for t := 0; t < 5; t++ {
			if t == c09TgtConfed && g == 0 {
				continue
			}
			for rpa := 0; rpa < 3; rpa++ {
				if rpa != 0 && (t == c09TgtIBGP || t == c09TgtClient) {
					continue // the configuration layer refuses remove-private-as on iBGP peers
				}
				for las := 0; las < 2; las++ {
					for sess := 0; sess < 2; sess++ {
						k := c09TgtKey{g, t, rpa, las == 1, sess}
						la := c09LA4
						if sess == 1 {
							la = c09LA6
						}
						pi, err := c09PeerInfoFor(c09Globals[g], c09TargetNeighbor(k), netip.MustParseAddr("2.2.2.2"), netip.MustParseAddr("10.0.0.2"), la)
						if err != nil {
							return fmt.Errorf("target %+v: %w", k, err)
						}
						c09Targets[k] = pi
					}
				}
			}
		}
	}
	return nil
}

// c09Stored is the real stored route plus every slice that backs it (viewed at full capacity), so that a
// write into spare capacity is seen as well.
type c09Stored struct {
	path   *Path
	asLsts [][]uint32
	cl     []netip.Addr
	comm   []uint32
	unk    [][]byte
}

func c09SpareU32(v []uint32) []uint32 {
	s := make([]uint32, len(v), len(v)+4)
	copy(s, v)
	return s
}

var c09Nlri4 = func() bgp.NLRI {
	n, err := bgp.NewIPAddrPrefix(netip.MustParsePrefix("10.10.0.0/24"))
	if err != nil {
		panic(err)
	}
	return n
}()

var c09Nlri6 = func() bgp.NLRI {
	n, err := bgp.NewIPAddrPrefix(netip.MustParsePrefix("2001:db8:1::/48"))
	if err != nil {
		panic(err)
	}
	return n
}()

func c09Build(c c09Case) *c09Stored {
	st := &c09Stored{}
	var root, over []bgp.PathAttributeInterface // attributes of the root path / set on the clone (Chain=1)
	var dels []bgp.BGPAttrType
	add := func(a bgp.PathAttributeInterface, overlay bool) {
		if overlay && c.Chain == 1 {
			over = append(over, a)
		} else {
			root = append(root, a)
		}
	}
	add(bgp.NewPathAttributeOrigin(0), false)
	params := make([]bgp.AsPathParamInterface, 0, len(c09Shapes[c.Path].Segs)+4)
	for _, s := range c09Shapes[c.Path].Segs {
		l := c09SpareU32(s.AS)
		st.asLsts = append(st.asLsts, l)
		params = append(params, bgp.NewAs4PathParam(s.T, l))
	}
	add(bgp.NewPathAttributeAsPath(params), false)
	fam, nlri := bgp.RF_IPv4_UC, c09Nlri4
	switch c.NH {
	case 0, 4:
		a, _ := bgp.NewPathAttributeNextHop(c09NH4)
		add(a, false)
	case 2:
		a, _ := bgp.NewPathAttributeNextHop(netip.IPv4Unspecified())
		add(a, false)
	}
	if c.MED {
		if c.Chain == 1 {
			root = append(root, bgp.NewPathAttributeMultiExitDisc(999)) // overridden on the clone
		}
		add(bgp.NewPathAttributeMultiExitDisc(50), true)
	} else if c.Chain == 1 {
		root = append(root, bgp.NewPathAttributeMultiExitDisc(999)) // deleted on the clone
		dels = append(dels, bgp.BGP_ATTR_TYPE_MULTI_EXIT_DISC)
	}
	if c.LP {
		add(bgp.NewPathAttributeLocalPref(200), true)
	}
	if c.Comm {
		st.comm = c09SpareU32(c09CommVals)
		add(bgp.NewPathAttributeCommunities(st.comm), true)
	}
	switch c.Orig {
	case 1:
		a, _ := bgp.NewPathAttributeOriginatorId(c09A4(c09RID))
		add(a, false)
	case 2:
		a, _ := bgp.NewPathAttributeOriginatorId(c09A4(c09OtherRID))
		add(a, false)
	}
	if cl := c.clusterList(); cl != nil {
		st.cl = make([]netip.Addr, len(cl), len(cl)+4)
		for i, x := range cl {
			st.cl[i] = c09A4(x)
		}
		a, _ := bgp.NewPathAttributeClusterList(st.cl)
		a.Value = st.cl // the constructor copies; the decoder does not leave spare capacity either, but a policy might
		add(a, false)
	}
	switch c.NH {
	case 1, 3, 4:
		fam, nlri = bgp.RF_IPv6_UC, c09Nlri6
		nh := c09NH6
		if c.NH == 3 {
			nh = netip.IPv6Unspecified()
		}
		lst := make([]bgp.PathNLRI, 1, 5)
		lst[0] = bgp.PathNLRI{NLRI: nlri}
		a, err := bgp.NewPathAttributeMpReachNLRI(fam, lst, nh)
		if err != nil {
			panic(err)
		}
		add(a, false)
	}
	if c.UT > 0 {
		f := bgp.BGP_ATTR_FLAG_OPTIONAL | bgp.BGP_ATTR_FLAG_TRANSITIVE
		if c.UT == 2 {
			f |= bgp.BGP_ATTR_FLAG_PARTIAL
		}
		v := make([]byte, 3, 8)
		copy(v, []byte{1, 2, 3})
		st.unk = append(st.unk, v)
		add(bgp.NewPathAttributeUnknown(f, c09tUT, v), false)
	}
	if c.UNT {
		v := make([]byte, 2, 8)
		copy(v, []byte{9, 8})
		st.unk = append(st.unk, v)
		add(bgp.NewPathAttributeUnknown(bgp.BGP_ATTR_FLAG_OPTIONAL, c09tUNT, v), false)
	}
	spare := make([]bgp.PathAttributeInterface, len(root), len(root)+4)
	copy(spare, root)
	var src *PeerInfo
	if c.Src != c09SrcLocal {
		src = c09Sources[c.G][c.Src]
	}
	p := NewPath(fam, src, bgp.PathNLRI{NLRI: nlri}, c.Wd && c.Chain == 0, spare, time.Unix(1000, 0), false)
	if c.Chain == 1 {
		p = p.Clone(c.Wd)
		for _, a := range over {
			p.setPathAttr(a)
		}
		for _, t := range dels {
			p.delPathAttr(t)
		}
		// spare capacity on the clone's own slices as well
		if len(p.pathAttrs) > 0 {
			s2 := make([]bgp.PathAttributeInterface, len(p.pathAttrs), len(p.pathAttrs)+4)
			copy(s2, p.pathAttrs)
			p.pathAttrs = s2
		}
		if len(p.dels) > 0 {
			d2 := make([]bgp.BGPAttrType, len(p.dels), len(p.dels)+4)
			copy(d2, p.dels)
			p.dels = d2
		}
	}
	st.path = p
	return st
}

// snapshots are raw bytes (compared with bytes.Equal, printed as hex only on a mismatch)

func c09SerAttr(sb *bytes.Buffer, a bgp.PathAttributeInterface) {
	if a == nil {
		sb.WriteByte(0xFE)
		return
	}
	b, err := a.Serialize()
	if err != nil {
		sb.WriteString("ERR:" + err.Error())
		return
	}
	sb.Write(b)
	sb.WriteByte('|')
}

// c09SnapChain serialises a path object and its ancestors down to (excluding) stop: own attribute slices at
// full capacity, deletions at full capacity, flags.
func c09SnapChain(sb *bytes.Buffer, p, stop *Path) {
	for q := p; q != nil && q != stop; q = q.parent {
		sb.WriteByte('[')
		sb.WriteByte(c09b(q.IsWithdraw))
		sb.WriteByte(byte(len(q.pathAttrs)))
		full := q.pathAttrs[:cap(q.pathAttrs)]
		for _, a := range full {
			c09SerAttr(sb, a)
		}
		sb.WriteByte('d')
		sb.WriteByte(byte(len(q.dels)))
		for _, t := range q.dels[:cap(q.dels)] {
			sb.WriteByte(byte(t))
		}
		sb.WriteByte(']')
	}
}

func (st *c09Stored) snap() []byte {
	var sb bytes.Buffer
	sb.Grow(512)
	c09SnapChain(&sb, st.path, nil)
	var w [4]byte
	for _, l := range st.asLsts {
		for _, v := range l[:cap(l)] {
			binary.BigEndian.PutUint32(w[:], v)
			sb.Write(w[:])
		}
		sb.WriteByte('/')
	}
	for _, a := range st.cl[:cap(st.cl)] {
		if a.IsValid() {
			sb.Write(a.AsSlice())
		} else {
			sb.WriteByte('-')
		}
	}
	for _, v := range st.comm[:cap(st.comm)] {
		binary.BigEndian.PutUint32(w[:], v)
		sb.Write(w[:])
	}
	for _, u := range st.unk {
		sb.Write(u[:cap(u)])
	}
	// what a reader of the stored route sees
	sb.WriteByte('R')
	for _, a := range st.path.GetPathAttrs() {
		c09SerAttr(&sb, a)
	}
	return sb.Bytes()
}

func c09SnapCopy(cp, stored *Path) []byte {
	var sb bytes.Buffer
	sb.Grow(512)
	c09SnapChain(&sb, cp, stored)
	sb.WriteByte('R')
	for _, a := range cp.GetPathAttrs() {
		c09SerAttr(&sb, a)
	}
	return sb.Bytes()
}

func c09Hex(b []byte) string {
	if len(b) > 600 {
		return hex.EncodeToString(b[:300]) + "..." + hex.EncodeToString(b[len(b)-300:])
	}
	return hex.EncodeToString(b)
}

// c09Observe reads the copy the way the UPDATE builder does (GetPathAttrs, Serialize) and frames the bytes
// with this file's own decoder.
func c09Observe(p *Path) ([]c09Attr, error) {
	var out []c09Attr
	for _, a := range p.GetPathAttrs() {
		b, err := a.Serialize()
		if err != nil {
			return nil, fmt.Errorf("attribute %d does not serialise: %v", a.GetType(), err)
		}
		if len(b) < 3 {
			return nil, fmt.Errorf("attribute %d serialises to %d bytes", a.GetType(), len(b))
		}
		at := c09Attr{Flags: b[0], Type: b[1]}
		if b[0]&0x10 != 0 {
			if len(b) < 4 || int(binary.BigEndian.Uint16(b[2:4])) != len(b)-4 {
				return nil, fmt.Errorf("attribute %d: bad extended length", b[1])
			}
			at.Val = b[4:]
		} else {
			if int(b[2]) != len(b)-3 {
				return nil, fmt.Errorf("attribute %d: bad length", b[1])
			}
			at.Val = b[3:]
		}
		at.Flags &^= 0x10
		out = append(out, at)
	}
	return out, nil
}

func c09Call(gl *oc.Global, info *PeerInfo, p *Path) (res *Path, pan string) {
	defer func() {
		if r := recover(); r != nil {
			pan = fmt.Sprintf("%v at %s", r, c09PanicSite())
		}
	}()
	return UpdatePathAttrs(c09Log, gl, info, p), ""
}

func c09PanicSite() string {
	pcs := make([]uintptr, 32)
	n := runtime.Callers(3, pcs)
	fr := runtime.CallersFrames(pcs[:n])
	for {
		f, more := fr.Next()
		if strings.Contains(f.File, "/gobgp") || strings.Contains(f.Function, "osrg/gobgp") {
			if !strings.Contains(f.File, "zz_verif") && !strings.Contains(f.Function, "c09") {
				i := strings.LastIndex(f.File, "/")
				return fmt.Sprintf("%s:%d", f.File[i+1:], f.Line)
			}
		}
		if !more {
			return "unknown"
		}
	}
}

// ---------------------------------------------------------------------------------------------
// comparison

type c09MP struct {
	afi  uint16
	safi uint8
	nh   netip.Addr
	nlri []byte
	ok   bool
}

func c09DecMP(v []byte) c09MP {
	if len(v) < 5 {
		return c09MP{}
	}
	m := c09MP{afi: binary.BigEndian.Uint16(v), safi: v[2]}
	l := int(v[3])
	if len(v) < 4+l+1 {
		return c09MP{}
	}
	switch l {
	case 4:
		m.nh = netip.AddrFrom4([4]byte(v[4:8]))
	case 16, 32:
		m.nh = netip.AddrFrom16([16]byte(v[4:20])).Unmap()
	default:
		return c09MP{}
	}
	m.nlri = v[4+l+1:]
	m.ok = true
	return m
}

func c09SegsString(s []c09Seg) string {
	var parts []string
	for _, x := range s {
		n := []string{"?", "SET", "SEQ", "CONFED_SEQ", "CONFED_SET"}[x.T%5]
		if len(x.AS) > 12 {
			parts = append(parts, fmt.Sprintf("%s[%d x %d ... ]", n, len(x.AS), x.AS[0]))
		} else {
			parts = append(parts, fmt.Sprintf("%s%v", n, x.AS))
		}
	}
	return "<" + strings.Join(parts, " ") + ">"
}

func c09SegsEqual(a, b []c09Seg) bool {
	if len(a) != len(b) {
		return false
	}
	for i := range a {
		if a[i].T != b[i].T || len(a[i].AS) != len(b[i].AS) {
			return false
		}
		for j := range a[i].AS {
			if a[i].AS[j] != b[i].AS[j] {
				return false
			}
		}
	}
	return true
}

// c09Flat: the AS_PATH as a token string in which adjacent sequences are merged (the information content of
// the path: order of ASes, sets as units).
func c09Flat(s []c09Seg) string {
	var sb strings.Builder
	for _, x := range s {
		switch x.T {
		case c09SEQ, c09CSEQ:
			for _, a := range x.AS {
				fmt.Fprintf(&sb, "%d:%d ", x.T, a)
			}
		default:
			m := append([]uint32(nil), x.AS...)
			sort.Slice(m, func(i, j int) bool { return m[i] < m[j] })
			fmt.Fprintf(&sb, "%d:%v ", x.T, m)
		}
	}
	return sb.String()
}

func c09SrcClass(c c09Case) string {
	if c.isLocal() {
		return "local"
	}
	return "learned"
}

type c09Ctx struct {
	r *vr.Report
	c c09Case
}

func (x c09Ctx) viol(key, format string, a ...any) {
	x.r.Violationf("C09:attrs:"+key, x.c, "%s: %s", x.c, fmt.Sprintf(format, a...))
}

// c09Compare applies the rule table to the observed copy. Returns the number of clauses applied.
func c09Compare(x c09Ctx, in map[uint8]c09Attr, obs []c09Attr) {
	c, r := x.c, x.r
	tgt := "tgt=" + c09TgtNames[c.Tgt]
	d := c09Ref(c, in)
	got := map[uint8]c09Attr{}
	for _, a := range obs {
		if _, dup := got[a.Type]; dup {
			x.viol("duplicate-attribute:"+tgt, "attribute type %d occurs twice in the copy", a.Type)
		}
		got[a.Type] = a
	}
	if d.Unchanged {
		r.Outcome("rs-client:route-unchanged")
		if len(got) != len(in) {
			x.viol("rs-client-route-changed:"+tgt, "route towards a route-server client has %d attributes, stored route has %d", len(got), len(in))
			return
		}
		for t, a := range in {
			g, ok := got[t]
			if !ok || g.Flags != a.Flags || !bytes.Equal(g.Val, a.Val) {
				x.viol("rs-client-route-changed:"+tgt+":"+c09TypeNames[t], "attribute %s differs towards a route-server client: stored %x/%x sent %x/%x (present=%v)",
					c09TypeNames[t], a.Flags, a.Val, g.Flags, g.Val, ok)
			}
		}
		return
	}
	// generic rules
	types := map[uint8]bool{}
	for t := range in {
		types[t] = true
	}
	for t := range got {
		types[t] = true
	}
	for t := range d.Rules {
		types[t] = true
	}
	for t := range types {
		if t == c09tNH || t == c09tMPR || (t == c09tAsPath && d.AsPaths != nil) {
			continue
		}
		rule, ok := d.Rules[t]
		name := c09TypeNames[t]
		if name == "" {
			name = fmt.Sprintf("type%d", t)
		}
		g, have := got[t]
		i, had := in[t]
		if !ok {
			x.viol("unexpected-attribute:"+tgt+":"+name, "copy carries attribute %s (%x) for which the rule table has no clause", name, g.Val)
			continue
		}
		srcTag := ":src=" + c09SrcClass(c)
		if t == c09tOrigID || t == c09tCL {
			srcTag = ":src=" + c09SrcNames[c.Src]
		}
		key := name + ":" + tgt + srcTag
		sfx := func(s string) string { return s }
		if t == c09tOrigID || t == c09tCL {
			// ORIGINATOR_ID and CLUSTER_LIST are one mechanism (RFC 4456 8): one key per (target, source) and direction of the error
			key = "rr-attributes:" + tgt + srcTag
			sfx = func(s string) string {
				if s == ":dropped" || s == ":missing" {
					return ":not-sent"
				}
				return s
			}
		}
		switch rule.Mode {
		case c09Any:
			r.Outcome(fmt.Sprintf("%s:%s:unspecified(sent=%v)", tgt, name, have))
		case c09Absent:
			if had {
				r.Outcome(tgt + ":" + name + ":removed")
			}
			if have {
				x.viol(key+sfx(":not-removed"), "%s — but the copy carries %s=%x", rule.Clause, name, g.Val)
			}
		case c09Same, c09SameOrAbsent:
			if rule.Mode == c09SameOrAbsent && !have {
				if had {
					r.Outcome(tgt + ":" + name + ":removed(allowed)")
				}
				break
			}
			if had {
				r.Outcome(tgt + ":" + name + ":kept")
			}
			fm := uint8(0xFF)
			if t == c09tUT {
				fm = 0xDF // the Partial bit is not judged
			}
			switch {
			case had && !have:
				x.viol(key+sfx(":dropped"), "%s — but %s is missing from the copy (stored %x)", rule.Clause, name, i.Val)
			case !had && have:
				x.viol(key+sfx(":invented"), "%s — but the copy carries %s=%x which the stored route does not have", rule.Clause, name, g.Val)
			case had && (!bytes.Equal(g.Val, i.Val) || g.Flags&fm != i.Flags&fm):
				x.viol(key+sfx(":changed"), "%s — stored %02x/%x, copy %02x/%x", rule.Clause, i.Flags, i.Val, g.Flags, g.Val)
			}
		case c09OneOf:
			r.Outcome(tgt + ":" + name + ":set")
			if !have {
				x.viol(key+sfx(":missing"), "%s — want %x, the copy has no %s", rule.Clause, rule.Vals, name)
				break
			}
			okv := false
			for _, v := range rule.Vals {
				if bytes.Equal(v, g.Val) {
					okv = true
				}
			}
			if !okv {
				x.viol(key+sfx(":wrong-value"), "%s — want one of %x, copy has %x", rule.Clause, rule.Vals, g.Val)
			} else if g.Flags&0xC0 != rule.Flags {
				x.viol(key+sfx(":wrong-flags"), "%s — flags %02x, want %02x", rule.Clause, g.Flags, rule.Flags)
			}
		}
	}
	// AS_PATH towards eBGP-type peers
	if d.AsPaths != nil {
		g, have := got[c09tAsPath]
		hasConfed := false
		for _, s := range c09Shapes[c.Path].Segs {
			if s.T == c09CSEQ || s.T == c09CSET {
				hasConfed = true
			}
		}
		key := fmt.Sprintf("aspath:%s:confed-segments-in-route=%v", tgt, hasConfed)
		if !have {
			x.viol(key+":missing", "%s — the copy has no AS_PATH", d.AsClause)
		} else if segs, err := c09DecSegs(g.Val); err != nil {
			x.viol(key+":undecodable", "%s — %v (%x)", d.AsClause, err, g.Val)
		} else {
			exact, flat := false, false
			for _, w := range d.AsPaths {
				if c09SegsEqual(w, segs) {
					exact = true
				}
				if c09Flat(w) == c09Flat(segs) {
					flat = true
				}
			}
			first := d.AsPaths[0]
			r.Outcome(tgt + ":aspath:" + d.AsBranch)
			if c.RPA != 0 {
				r.Outcome(fmt.Sprintf("%s:aspath:remove-private-as=%d", tgt, c.RPA))
			}
			if hasConfed {
				r.Outcome(tgt + ":aspath:route-has-confed-segments")
			}
			switch {
			case exact:
			case flat:
				x.viol(key+":segmentation", "%s — same AS sequence but different segments: want %s, copy has %s (stored %s)", d.AsClause,
					c09SegsString(first), c09SegsString(segs), c09SegsString(c09Shapes[c.Path].Segs))
			default:
				x.viol(key+fmt.Sprintf(":rpa=%d:differs", c.RPA), "%s — want %s, copy has %s (stored %s)", d.AsClause,
					c09SegsString(first), c09SegsString(segs), c09SegsString(c09Shapes[c.Path].Segs))
			}
		}
	}
	// next hop: every carrier
	{
		inNH, hadNH := in[c09tNH]
		inMP, hadMP := in[c09tMPR]
		gNH, haveNH := got[c09tNH]
		gMP, haveMP := got[c09tMPR]
		if c.NH == 4 {
			// the stray NEXT_HOP of an IPv6 route is not a next-hop carrier: whatever the copy does with it
			hadNH, haveNH = false, false
		}
		unchanged := hadNH == haveNH && hadMP == haveMP && (!hadNH || bytes.Equal(inNH.Val, gNH.Val)) && (!hadMP || bytes.Equal(inMP.Val, gMP.Val))
		la := c.la()
		self, why := true, ""
		if !haveNH && !haveMP {
			self, why = false, "no next-hop carrier in the copy"
		}
		if haveNH {
			if len(gNH.Val) != 4 || netip.AddrFrom4([4]byte(gNH.Val)) != la {
				self, why = false, fmt.Sprintf("NEXT_HOP=%x", gNH.Val)
			}
		}
		if haveMP {
			m := c09DecMP(gMP.Val)
			wantAfi, wantNlri := uint16(1), c09Prefix4
			if hadMP {
				wantAfi, wantNlri = 2, c09Prefix6
			}
			if !m.ok || m.nh != la || m.afi != wantAfi || m.safi != 1 || !bytes.Equal(m.nlri, wantNlri) {
				self, why = false, fmt.Sprintf("MP_REACH=%x", gMP.Val)
			}
		}
		key := fmt.Sprintf("nexthop:%s:src=%s:nh=%d:sess=%d", tgt, c09SrcClass(c), c.NH, c.Sess)
		switch d.NH {
		case c09NHUnchanged:
			r.Outcome(tgt + ":nexthop:unchanged")
			if !unchanged {
				x.viol(key+":changed", "%s — stored NEXT_HOP=%x MP_REACH=%x, copy NEXT_HOP=%x MP_REACH=%x", d.NHClause, inNH.Val, inMP.Val, gNH.Val, gMP.Val)
			}
		case c09NHSelf:
			r.Outcome(tgt + ":nexthop:self")
			if !self {
				x.viol(key+":not-self", "%s (%s) — %s", d.NHClause, la, why)
			}
		case c09NHEither:
			switch {
			case unchanged && self:
				r.Outcome(tgt + ":nexthop:either(unchanged=self)")
			case unchanged:
				r.Outcome(tgt + ":nexthop:either(kept)")
			case self:
				r.Outcome(tgt + ":nexthop:either(self)")
			default:
				x.viol(key+":neither", "%s — copy NEXT_HOP=%x MP_REACH=%x is neither the stored next hop nor %s", d.NHClause, gNH.Val, gMP.Val, la)
			}
		}
	}
}

func c09TargetOf(c c09Case) *PeerInfo {
	return c09Targets[c09TgtKey{c.G, c.Tgt, c.RPA, c.LAS, c.Sess}]
}

func c09AttrBytes(p *Path) []byte {
	var sb bytes.Buffer
	for _, a := range p.GetPathAttrs() {
		c09SerAttr(&sb, a)
	}
	return sb.Bytes()
}

// c09Fresh: one stored route, one copy for c.Tgt, compared with the rule table; the stored route must be
// byte-identical afterwards. Returns the serialised copy (nil when there is none).
func c09Fresh(r *vr.Report, c c09Case, judge bool) []byte {
	in := c09PlainAttrs(c)
	st := c09Build(c)
	if judge {
		// the builder and the plain encoding must describe the same route (engine self-check)
		obs, err := c09Observe(st.path)
		if err != nil {
			panic("C09 engine: stored route does not serialise: " + err.Error())
		}
		if len(obs) != len(in) {
			panic(fmt.Sprintf("C09 engine: builder/plain mismatch for %s: %d vs %d attrs", c, len(obs), len(in)))
		}
		for _, a := range obs {
			if w, ok := in[a.Type]; !ok || !bytes.Equal(w.Val, a.Val) || w.Flags != a.Flags {
				panic(fmt.Sprintf("C09 engine: builder/plain mismatch for %s: type %d built %02x/%x plain %02x/%x", c, a.Type, a.Flags, a.Val, w.Flags, w.Val))
			}
		}
	}
	snap0 := st.snap()
	r.Eval()
	A, pan := c09Call(c09Globals[c.G], c09TargetOf(c), st.path)
	if pan != "" {
		r.Violationf("C09:attrs:panic:"+pan[strings.LastIndex(pan, " at ")+4:], c, "%s: UpdatePathAttrs panicked: %s", c, pan)
		return nil
	}
	if A == nil {
		r.Violationf("C09:attrs:nil-result:tgt="+c09TgtNames[c.Tgt], c, "%s: UpdatePathAttrs returned nil", c)
		return nil
	}
	x := c09Ctx{r: r, c: c}
	if s := st.snap(); !bytes.Equal(s, snap0) {
		x.viol("stored-route-altered:tgt="+c09TgtNames[c.Tgt], "producing the copy altered the stored route:\n before %s\n after  %s", c09Hex(snap0), c09Hex(s))
	}
	if !judge {
		return c09AttrBytes(A)
	}
	if A.IsWithdraw != st.path.IsWithdraw || A.GetFamily() != st.path.GetFamily() || A.GetSource() != st.path.GetSource() || A.GetNlri() != st.path.GetNlri() {
		x.viol("copy-identity:tgt="+c09TgtNames[c.Tgt], "copy differs from the stored route in withdraw flag / family / source / NLRI")
	}
	obs, err := c09Observe(A)
	if err != nil {
		x.viol("copy-does-not-serialise:tgt="+c09TgtNames[c.Tgt], "%v", err)
		return nil
	}
	c09Compare(x, in, obs)
	r.NT(c.key())
	return c09AttrBytes(A)
}

// c09Group: all target kinds of one (world, source, options, route). Every target gets a copy of a fresh
// stored route (judged by the rule table); then, on ONE stored route, the copies for all targets are
// produced one after the other, forwards and backwards: after each production the stored route and all
// copies produced earlier must be byte-identical to their snapshots, and the new copy must equal the copy
// the same target gets from a fresh route (so every ordered pair "A first, then B" is covered).
func c09Group(r *vr.Report, g c09Case, sequences bool) {
	var members []c09Case
	for t := 0; t < 5; t++ {
		if t == c09TgtConfed && g.G == 0 {
			continue
		}
		d := g
		d.Tgt = t
		if t == c09TgtIBGP || t == c09TgtClient {
			d.RPA = 0
		}
		members = append(members, d)
	}
	fresh := make([][]byte, len(members))
	for i, m := range members {
		// an iBGP-type member does not depend on the group's remove-private-as value: judged once (in the rpa=0 group)
		judge := m.RPA == g.RPA
		fresh[i] = c09Fresh(r, m, judge)
	}
	for dir := 0; dir < 2 && sequences; dir++ {
		st := c09Build(g)
		snap0 := st.snap()
		type made struct {
			i    int
			p    *Path
			snap []byte
		}
		var done []made
		for n := 0; n < len(members); n++ {
			i := n
			if dir == 1 {
				i = len(members) - 1 - n
			}
			m := members[i]
			r.Eval()
			B, pan := c09Call(c09Globals[m.G], c09TargetOf(m), st.path)
			if pan != "" {
				r.Violationf("C09:attrs:panic:"+pan[strings.LastIndex(pan, " at ")+4:], m, "%s: UpdatePathAttrs (copy number %d from one stored route) panicked: %s", m, n+1, pan)
				continue
			}
			if B == nil || fresh[i] == nil {
				continue
			}
			x := c09Ctx{r: r, c: m}
			if s := st.snap(); !bytes.Equal(s, snap0) {
				x.viol("stored-route-altered:tgt="+c09TgtNames[m.Tgt], "producing copy number %d (for %s) altered the stored route:\n before %s\n after  %s",
					n+1, c09TgtNames[m.Tgt], c09Hex(snap0), c09Hex(s))
				snap0 = s
			}
			for k := range done {
				e := &done[k]
				if e.p == st.path {
					continue // route-server client: the stored route itself, covered by snap0
				}
				if s := c09SnapCopy(e.p, st.path); !bytes.Equal(s, e.snap) {
					x.viol(fmt.Sprintf("copies-influence-each-other:damaged-by-copy-for=%s", c09TgtNames[m.Tgt]),
						"the copy made for %s changed when the copy for %s was produced:\n before %s\n after  %s",
						c09TgtNames[members[e.i].Tgt], c09TgtNames[m.Tgt], c09Hex(e.snap), c09Hex(s))
					e.snap = s
				}
			}
			if b := c09AttrBytes(B); !bytes.Equal(b, fresh[i]) {
				x.viol(fmt.Sprintf("copy-depends-on-earlier-copies:tgt=%s", c09TgtNames[m.Tgt]),
					"the copy for %s produced after %d other copies differs from the copy produced from a fresh route:\n fresh %s\n now   %s",
					c09TgtNames[m.Tgt], n, c09Hex(fresh[i]), c09Hex(b))
			}
			if n > 0 {
				r.Outcome("independence:copy-after-" + c09TgtNames[members[done[len(done)-1].i].Tgt] + ":" + c09TgtNames[m.Tgt])
			}
			done = append(done, made{i, B, c09SnapCopy(B, st.path)})
		}
	}
}

// ---------------------------------------------------------------------------------------------
// enumeration

type c09Combo struct {
	G, Src, RPA int
	LAS         bool
}

func c09Combos() []c09Combo {
	var out []c09Combo
	for g := 0; g < 2; g++ {
		for s := 0; s < 5; s++ {
			if s == c09SrcConfed && g == 0 {
				continue
			}
			for rpa := 0; rpa < 3; rpa++ {
				for las := 0; las < 2; las++ {
					out = append(out, c09Combo{g, s, rpa, las == 1})
				}
			}
		}
	}
	return out
}

type c09AttrSet struct {
	LP, MED   bool
	Orig, CL  int
	UT        int
	UNT, Comm bool
}

func c09AttrSets(utVals int) []c09AttrSet {
	var out []c09AttrSet
	for i := 0; i < 2*2*3*3*utVals*2*2; i++ {
		k := i
		a := c09AttrSet{}
		a.LP, k = k%2 == 1, k/2
		a.MED, k = k%2 == 1, k/2
		a.Orig, k = k%3, k/3
		a.CL, k = k%3, k/3
		a.UT, k = k%utVals, k/utVals
		a.UNT, k = k%2 == 1, k/2
		a.Comm = k%2 == 1
		out = append(out, a)
	}
	return out
}

func c09Make(co c09Combo, shape int, a c09AttrSet, nh, sess, chain int, wd bool) c09Case {
	return c09Case{G: co.G, Src: co.Src, Tgt: 0, RPA: co.RPA, LAS: co.LAS, Path: shape, LP: a.LP, MED: a.MED, Orig: a.Orig, CL: a.CL,
		UT: a.UT, UNT: a.UNT, Comm: a.Comm, NH: nh, Sess: sess, Chain: chain, Wd: wd}
}

func TestVerif_C09_Attrs(t *testing.T) {
	r := vr.Start(t, "C09", "attrs")
	defer r.Finish()
	r.Rule = "groups = (world, source kind, remove-private-as, local-as override) x AS_PATH shape x attribute subset x next hop, each expanded to every target kind of the world " +
		"(root stored route, v4 session: full attribute-subset factor; {v6 session, stored route = clone with overrides and deletions, withdrawal}: reduced attribute factor in the quick tier); " +
		"per target one copy from a fresh stored route is compared clause by clause with the rule table, then all targets' copies are produced from one stored route forwards and backwards (aliasing / independence). " +
		"Non-trivial = distinct (case, target) for which UpdatePathAttrs returned a copy that was serialised, decoded by the harness and judged by the rule table"
	if err := c09Init(); err != nil {
		t.Fatalf("ENGINE-ERROR C09 init: %v", err)
	}
	if r.ReplayPath() != "" {
		var c c09Case
		if err := r.LoadReplay(&c); err != nil {
			t.Fatal(err)
		}
		c09Fresh(r, c, true)
		c09Group(r, c, true)
		return
	}
	thorough := vr.Thorough()
	combos := c09Combos()
	var shapes []int
	for i, s := range c09Shapes {
		if !s.Thorough || thorough {
			shapes = append(shapes, i)
		}
	}
	utVals, nhs := 2, []int{0, 1, 2, 4}
	if thorough {
		utVals, nhs = 3, []int{0, 1, 2, 3, 4}
	}
	sets := c09AttrSets(utVals)
	// reduced attribute factor for the secondary sweep: nothing, everything (both variants of the RR attributes), and singles
	var reduced []c09AttrSet
	if thorough {
		// every subset with at most two attributes present (all their variants), plus the two full sets
		for _, a := range sets {
			n := 0
			for _, b := range []bool{a.LP, a.MED, a.Orig != 0, a.CL != 0, a.UT != 0, a.UNT, a.Comm} {
				if b {
					n++
				}
			}
			if n <= 2 || n == 7 {
				reduced = append(reduced, a)
			}
		}
	} else {
		reduced = []c09AttrSet{
			{},
			{LP: true, MED: true, Orig: 2, CL: 1, UT: 1, UNT: true, Comm: true},
			{LP: true, MED: true, Orig: 1, CL: 2, UT: 1, UNT: true, Comm: true},
			{LP: true}, {MED: true}, {Orig: 2}, {CL: 1}, {UT: 1}, {UNT: true}, {Comm: true},
		}
	}
	inReduced := map[c09AttrSet]bool{}
	for _, a := range reduced {
		inReduced[a] = true
	}
	type sec struct {
		sess, chain int
		wd          bool
	}
	secondary := []sec{{1, 0, false}, {0, 1, false}, {1, 1, false}, {0, 0, true}, {0, 1, true}}
	r.Bounds["worlds"] = "plain AS 100; confederation 100 with member-AS 65100 (members 65101, 65102)"
	r.Bounds["source_kinds"] = c09SrcNames
	r.Bounds["target_kinds"] = c09TgtNames
	r.Bounds["combos(world,src,rpa,local-as)"] = len(combos)
	r.Bounds["aspath_shapes"] = len(shapes)
	r.Bounds["attribute_subsets"] = len(sets)
	r.Bounds["next_hops"] = len(nhs)
	r.Bounds["secondary_sweep"] = fmt.Sprintf("%d (session,chain,withdraw) settings x %d attribute sets", len(secondary), len(reduced))
	r.Bounds["copy_orders_per_stored_route"] = "all target kinds forwards and backwards"
	if !thorough {
		r.Bounds["copy_orders_applied_to"] = fmt.Sprintf("the %d reduced attribute sets of the primary product and the whole secondary sweep (thorough: everything)", len(reduced))
	}
	r.Bounds["constraint"] = "remove-private-as only on eBGP-type targets (configuration refuses it on iBGP); confed kinds only in the confederation world"
	W := vr.Workers()
	primary := len(combos) * len(shapes) * len(sets) * len(nhs)
	second := len(combos) * len(shapes) * len(reduced) * len(nhs) * len(secondary)
	r.Extra["groups"] = primary + second
	r.Parallel(W, func(w int, c *vr.Report) {
		for i := w; i < primary; i += W {
			k := i
			nh := nhs[k%len(nhs)]
			k /= len(nhs)
			a := sets[k%len(sets)]
			k /= len(sets)
			sh := shapes[k%len(shapes)]
			k /= len(shapes)
			cs := c09Make(combos[k], sh, a, nh, 0, 0, false)
			c09Group(c, cs, thorough || inReduced[a])
			if c.WantSample() && i%100003 == 17 {
				c.Sample(cs)
			}
		}
	})
	r.Parallel(W, func(w int, c *vr.Report) {
		for i := w; i < second; i += W {
			k := i
			se := secondary[k%len(secondary)]
			k /= len(secondary)
			nh := nhs[k%len(nhs)]
			k /= len(nhs)
			a := reduced[k%len(reduced)]
			k /= len(reduced)
			sh := shapes[k%len(shapes)]
			k /= len(shapes)
			cs := c09Make(combos[k], sh, a, nh, se.sess, se.chain, se.wd)
			c09Group(c, cs, true)
			if c.WantSample() && i%50021 == 11 {
				c.Sample(cs)
			}
		}
	})
}
