package zebra

// C19 (part zebra) — the ZAPI codec decodes safely for every version 2..6 and every software
// flavour the package distinguishes, and the messages the client builds round-trip.

import (
	"bytes"
	"context"
	"encoding/binary"
	"encoding/json"
	"fmt"
	"io"
	"log/slog"
	"net"
	"net/netip"
	"regexp"
	"strings"
	"syscall"
	"testing"
	"time"
	"unsafe"

	"github.com/osrg/gobgp/v4/internal/verif/c19lib"
	"github.com/osrg/gobgp/v4/internal/verif/vr"
)

// ---- flavours ----

type c19Flavour struct {
	v    uint8
	name string
	sw   Software
	rep  bool // representative flavour of its version (gets the larger enumerations)
}

func (f c19Flavour) String() string {
	n := f.name
	if n == "" {
		n = "default"
	}
	return fmt.Sprintf("v%d/%s", f.v, n)
}

func c19Flavours() []c19Flavour {
	var out []c19Flavour
	add := func(v uint8, rep string, names ...string) {
		for _, n := range names {
			out = append(out, c19Flavour{v, n, NewSoftware(v, n), n == rep})
		}
	}
	add(2, "", "")
	add(3, "", "")
	add(4, "", "", "frr3")
	add(5, "frr5", "frr4", "frr5", "cumulus", "")
	add(6, "frr8.1", "frr6", "frr7", "frr7.1", "frr7.2", "frr7.3", "frr7.4", "frr7.5", "frr8", "frr8.1", "frr8.2", "frr8.3", "")
	return out
}

type c19NoLog struct{}

func (c19NoLog) Enabled(_ctx context.Context, _ slog.Level) bool  { return false }
func (c19NoLog) Handle(_ctx context.Context, _ slog.Record) error { return nil }
func (h c19NoLog) WithAttrs(_ []slog.Attr) slog.Handler           { return h }
func (h c19NoLog) WithGroup(_ string) slog.Handler                { return h }

var c19Logger = slog.New(c19NoLog{})

// ---- decoder entry points ----

const c19MaxCmd = 160

func c19BodyType(b Body) string {
	s := fmt.Sprintf("%T", b)
	return strings.TrimPrefix(s, "*zebra.")
}

func c19RenderMsg(m *Message, f c19Flavour) string {
	var sb strings.Builder
	sb.WriteString(m.Body.string(f.v, f.sw))
	if rb, ok := m.Body.(*IPRouteBody); ok {
		fmt.Fprintf(&sb, "|fam=%s wd=%v", rb.Family(c19Logger, f.v, f.sw), rb.IsWithdraw(f.v, f.sw))
	}
	j, _ := json.Marshal(m)
	sb.Write(j)
	b, err := m.Serialize(f.sw)
	fmt.Fprintf(&sb, "|%x|%v|%+v", b, err, m.Header)
	return sb.String()
}

// c19AllocKey: every body decoder that reads a nexthop list goes through decodeNexthops
// (zapi.go: make([]Nexthop, numNexthop) before any length check), so one root cause gets one key.
func c19AllocKey(bodyType string) string {
	switch bodyType {
	case "IPRouteBody", "NexthopUpdateBody", "lookupBody", "nexthop-list", "any":
		return "C19:alloc:zapi.go:decodeNexthops:make([]Nexthop,numNexthop)"
	}
	return "C19:alloc:zebra." + bodyType + ".decodeFromBytes"
}

func c19ParseEntry(f c19Flavour, raw APIType, bodyType string) *c19lib.Entry {
	return &c19lib.Entry{
		Name:     fmt.Sprintf("zebra.parseMessage[%s,cmd=%d,%s]", f, raw, bodyType),
		Group:    "zebra." + bodyType + ".decodeFromBytes",
		AllocKey: c19AllocKey(bodyType),
		Run: func(x *c19lib.Checker, data []byte) c19lib.Outcome {
			hdr := &Header{Len: HeaderSize(f.v) + uint16(len(data)), Marker: HeaderMarker(f.v), Version: f.v, Command: raw}
			m, err := parseMessage(hdr, data, f.sw)
			if err != nil {
				return c19lib.Outcome{Err: err.Error()}
			}
			return c19lib.Outcome{OK: true, Val: c19RenderMsg(m, f)}
		},
	}
}

func c19DirectEntry(f c19Flavour, what string, mk func() Body) *c19lib.Entry {
	return &c19lib.Entry{
		Name:     fmt.Sprintf("zebra.%s.decodeFromBytes[%s]", what, f),
		Group:    "zebra." + what + ".decodeFromBytes",
		AllocKey: c19AllocKey(what),
		Run: func(x *c19lib.Checker, data []byte) c19lib.Outcome {
			b := mk()
			if err := b.decodeFromBytes(data, f.v, f.sw); err != nil {
				return c19lib.Outcome{Err: err.Error()}
			}
			s, serr := b.serialize(f.v, f.sw)
			return c19lib.Outcome{OK: true, Val: fmt.Sprintf("%s|%x|%v", b.string(f.v, f.sw), s, serr)}
		},
	}
}

type c19Conn struct{ r *bytes.Reader }

func (c *c19Conn) Read(p []byte) (int, error)       { return c.r.Read(p) }
func (c *c19Conn) Write(p []byte) (int, error)      { return len(p), nil }
func (c *c19Conn) Close() error                     { return nil }
func (c *c19Conn) LocalAddr() net.Addr              { return &net.UnixAddr{} }
func (c *c19Conn) RemoteAddr() net.Addr             { return &net.UnixAddr{} }
func (c *c19Conn) SetDeadline(time.Time) error      { return nil }
func (c *c19Conn) SetReadDeadline(time.Time) error  { return nil }
func (c *c19Conn) SetWriteDeadline(time.Time) error { return nil }

func c19RecvEntry(f c19Flavour) *c19lib.Entry {
	return &c19lib.Entry{
		Name:      fmt.Sprintf("zebra.ReceiveSingleMsg[%s]", f),
		AllocKey:  c19AllocKey("any"),
		TightOnly: true, // the bytes are copied through a net.Conn: cap of the input is irrelevant
		Run: func(x *c19lib.Checker, data []byte) c19lib.Outcome {
			conn := &c19Conn{bytes.NewReader(data)}
			m, err := ReceiveSingleMsg(c19Logger, conn, f.v, f.sw, "verif")
			if err != nil {
				return c19lib.Outcome{Err: err.Error()}
			}
			if m == nil {
				return c19lib.Outcome{Err: "body rejected (nil message, nil error)"}
			}
			left := conn.r.Len()
			return c19lib.Outcome{OK: true, Val: fmt.Sprintf("%s|unread=%d", c19RenderMsg(m, f), left)}
		},
	}
}

type c19FlavourEntries struct {
	f      c19Flavour
	parse  []*c19lib.Entry            // one per raw command with a dedicated body (+ one unknown)
	byBody map[string][]*c19lib.Entry // body type -> parse entries
	direct map[string]*c19lib.Entry
	recv   *c19lib.Entry
}

func c19BuildEntries(fl []c19Flavour) (all []*c19lib.Entry, per []*c19FlavourEntries) {
	all = append(all, &c19lib.Entry{
		Name: "zebra.Header.decodeFromBytes",
		Run: func(x *c19lib.Checker, data []byte) c19lib.Outcome {
			h := &Header{}
			if err := h.decodeFromBytes(data); err != nil {
				return c19lib.Outcome{Err: err.Error()}
			}
			b, err := h.serialize()
			return c19lib.Outcome{OK: true, Val: fmt.Sprintf("%+v|%x|%v", *h, b, err)}
		},
	})
	for _, f := range fl {
		fe := &c19FlavourEntries{f: f, byBody: map[string][]*c19lib.Entry{}, direct: map[string]*c19lib.Entry{}}
		unknownDone := false
		for raw := APIType(0); raw < c19MaxCmd; raw++ {
			hdr := &Header{Len: HeaderSize(f.v), Marker: HeaderMarker(f.v), Version: f.v, Command: raw}
			m, _ := parseMessage(hdr, nil, f.sw)
			bt := c19BodyType(m.Body)
			if bt == "unknownBody" {
				if unknownDone {
					continue
				}
				unknownDone = true
			}
			e := c19ParseEntry(f, raw, bt)
			fe.parse = append(fe.parse, e)
			fe.byBody[bt] = append(fe.byBody[bt], e)
		}
		d := func(what string, mk func() Body) {
			e := c19DirectEntry(f, what, mk)
			fe.direct[what] = e
		}
		d("HelloBody", func() Body { return &HelloBody{} })
		d("redistributeBody", func() Body { return &redistributeBody{} })
		d("NexthopRegisterBody", func() Body { return &NexthopRegisterBody{} })
		fe.direct["RegisteredNexthop"] = &c19lib.Entry{
			Name:     fmt.Sprintf("zebra.RegisteredNexthop.decodeFromBytes[%s]", f),
			Group:    "zebra.RegisteredNexthop.decodeFromBytes",
			AllocKey: c19AllocKey("RegisteredNexthop"),
			Run: func(x *c19lib.Checker, data []byte) c19lib.Outcome {
				n := &RegisteredNexthop{}
				if err := n.decodeFromBytes(data, f.v, f.sw); err != nil {
					return c19lib.Outcome{Err: err.Error()}
				}
				s, serr := n.serialize(f.v, f.sw)
				return c19lib.Outcome{OK: true, Val: fmt.Sprintf("%s|%x|%v|%d", n.string(f.v, f.sw), s, serr, n.len())}
			},
		}
		for _, backup := range []bool{false, true} {
			fe.direct[fmt.Sprintf("decodeMessageNexthop[backup=%v]", backup)] = &c19lib.Entry{
				Name:     fmt.Sprintf("zebra.IPRouteBody.decodeMessageNexthopFromBytes[%s,backup=%v]", f, backup),
				Group:    "zebra.IPRouteBody.decodeMessageNexthopFromBytes",
				AllocKey: c19AllocKey("nexthop-list"),
				Run: func(x *c19lib.Checker, data []byte) c19lib.Outcome {
					b := &IPRouteBody{Message: MessageNexthop | messageBackupNexthops, Prefix: Prefix{Family: syscall.AF_INET}}
					n, err := b.decodeMessageNexthopFromBytes(data, f.v, f.sw, backup)
					if err != nil {
						return c19lib.Outcome{Err: err.Error()}
					}
					if n < 0 || n > len(data) {
						x.Violation("C19:consumed-beyond-data:zebra.decodeMessageNexthopFromBytes", "reports %d bytes consumed of %d", n, len(data))
					}
					return c19lib.Outcome{OK: true, Val: fmt.Sprintf("%d|%s", n, b.string(f.v, f.sw))}
				},
			}
		}
		fe.recv = c19RecvEntry(f)
		per = append(per, fe)
		all = append(all, fe.parse...)
		for _, k := range []string{"HelloBody", "redistributeBody", "NexthopRegisterBody", "RegisteredNexthop", "decodeMessageNexthop[backup=false]", "decodeMessageNexthop[backup=true]"} {
			all = append(all, fe.direct[k])
		}
		all = append(all, fe.recv)
	}
	return
}

// ---- constructible messages (what Client.Send* and pkg/server/zclient.go build) ----

type c19Msg struct {
	name string
	kind string // body kind (violation-key class)
	f    c19Flavour
	cmd  APIType // common API
	mk   func() Body
	// judged: both directions of this body describe the same wire message in this version
	// (FRR zapi_route_encode/zapi_route_decode, zclient_send_rnh/zread_rnh_register, ...); when false the
	// serialiser writes the client->zebra request and the decoder reads the zebra->client answer, which
	// are different messages by protocol, so the round trip is executed for crashes only.
	judged bool
}

func c19A(s string) netip.Addr { return netip.MustParseAddr(s) }

func c19Constructible(fl []c19Flavour) []c19Msg {
	var out []c19Msg
	for _, f := range fl {
		add := func(kind, name string, cmd APIType, judged bool, mk func() Body) {
			out = append(out, c19Msg{name: fmt.Sprintf("%s %s", f, name), kind: kind, f: f, cmd: cmd, mk: mk, judged: judged})
		}
		// HELLO (Client.SendHello)
		for _, rt := range []RouteType{RouteBGP, routeSystem, routeAll} {
			for _, inst := range []uint16{0, 0xffff} {
				if inst != 0 && f.v < 4 {
					continue // the ZAPI 2/3 HELLO has no instance field
				}
				add("HelloBody", fmt.Sprintf("Hello(redist=%d,instance=%d)", rt, inst), Hello, true, func() Body {
					return &HelloBody{redistDefault: rt, instance: inst}
				})
			}
		}
		// REDISTRIBUTE_ADD (Client.SendRedistribute)
		for _, af := range []afi{afiIP, afiIP6} {
			for _, rt := range []RouteType{routeConnect, RouteStatic, routeOSPF} {
				add("redistributeBody", fmt.Sprintf("Redistribute(afi=%d,type=%d)", af, rt), redistributeAdd, true, func() Body {
					if f.v <= 3 {
						return &redistributeBody{redist: rt}
					}
					return &redistributeBody{afi: af, redist: rt, instance: 0}
				})
			}
		}
		// ROUTE_ADD (pkg/server/zclient.go newIPRouteBody + Client.SendIPRoute)
		type pfx struct {
			a string
			l uint8
		}
		for _, p := range []pfx{{"10.1.2.0", 24}, {"0.0.0.0", 0}, {"192.0.2.1", 32}, {"2001:db8:1::", 48}, {"::", 0}, {"2001:db8::1", 128}} {
			v6 := strings.Contains(p.a, ":")
			gates := [][]string{{"192.0.2.254"}, {"192.0.2.254", "192.0.2.253"}}
			if v6 {
				gates = [][]string{{"2001:db8::fe"}, {"fe80::1", "2001:db8::fd"}}
			}
			for gi, gs := range gates {
				for _, withMetric := range []bool{false, true} {
					for _, flagCase := range []int{0, 1, 2} {
						for _, labels := range []int{0, 1, 2} {
							if labels > 0 && (f.v < 5 || gi > 0 || flagCase > 0) {
								continue
							}
							cmd := RouteAdd
							if f.v < 5 && v6 {
								cmd = BackwardIPv6RouteAdd
							}
							add("IPRouteBody", fmt.Sprintf("Route(%s/%d,gates#%d,metric=%v,flags#%d,labels=%d)", p.a, p.l, gi, withMetric, flagCase, labels), cmd, f.v >= 5, func() Body {
								msg := MessageNexthop
								var nhs []Nexthop
								for _, g := range gs {
									nh := Nexthop{Gate: c19A(g), VrfID: 0}
									if nh.Gate.Is6() && nh.Gate.IsLinkLocalUnicast() {
										nh.Ifindex = 5
									}
									if labels > 0 {
										nh.VrfID = 7
										(Client{Version: f.v, Software: f.sw}).SetLabelFlag(&msg, &nh)
										for k := 0; k < labels; k++ {
											nh.LabelNum++
											nh.MplsLabels = append(nh.MplsLabels, uint32(100+k*0xfff00))
										}
									}
									nhs = append(nhs, nh)
								}
								var metric uint32
								if withMetric {
									msg |= MessageMetric.ToEach(f.v, f.sw)
									metric = 0xfffffffe
								}
								var flags Flag
								switch flagCase {
								case 1:
									flags = FlagAllowRecursion
								case 2:
									flags = FlagIBGP.ToEach(f.v, f.sw) | FlagAllowRecursion
								}
								return &IPRouteBody{Type: RouteBGP, Flags: flags, Safi: SafiUnicast, Message: msg,
									Prefix: Prefix{Prefix: c19A(p.a), PrefixLen: p.l}, Nexthops: nhs, Metric: metric}
							})
						}
					}
				}
			}
		}
		// NEXTHOP_REGISTER (pkg/server/zclient.go newNexthopRegisterBody / newNexthopUnregisterBody), ZAPI >= 3
		if f.v >= 3 {
			for ni, set := range [][]string{{"192.0.2.1"}, {"2001:db8::1"}, {"192.0.2.1", "192.0.2.2"}, {"2001:db8::1", "192.0.2.9", "2001:db8::2"}} {
				add("NexthopRegisterBody", fmt.Sprintf("NexthopRegister(set#%d)", ni), nexthopRegister, true, func() Body {
					b := &NexthopRegisterBody{}
					for _, a := range set {
						fam := uint16(syscall.AF_INET)
						if strings.Contains(a, ":") {
							fam = syscall.AF_INET6
						}
						b.Nexthops = append(b.Nexthops, &RegisteredNexthop{Family: fam, Prefix: c19A(a)})
					}
					return b
				})
			}
		}
		// VRF_LABEL (Client.SendVrfLabel): frr5 and later
		if !(f.v < 5 || f.v == 5 && f.sw.name == "frr" && f.sw.version < 5) {
			for _, l := range []uint32{0, 16, 0xfffff, 0xffffffff} {
				add("vrfLabelBody", fmt.Sprintf("VrfLabel(%d)", l), vrfLabel, true, func() Body {
					return &vrfLabelBody{label: l, afi: afiIP, labelType: lspBGP}
				})
			}
		}
		// request/answer pairs: executed, not judged
		if f.v >= 4 {
			add("labelManagerConnectBody", "LabelManagerConnect", labelManagerConnect, false, func() Body {
				return &labelManagerConnectBody{redistDefault: RouteBGP, instance: 0}
			})
			add("GetLabelChunkBody", "GetLabelChunk(100)", getLabelChunk, false, func() Body {
				return &GetLabelChunkBody{proto: uint8(RouteBGP), ChunkSize: 100}
			})
			add("releaseLabelChunkBody", "ReleaseLabelChunk", releaseLabelChunk, false, func() Body {
				return &releaseLabelChunkBody{proto: uint8(RouteBGP), start: 16, end: 115}
			})
		}
		add("routerIDUpdateBody", "RouterIDAdd", routerIDAdd, false, func() Body { return &routerIDUpdateBody{afi: afiIP} })
		add("NexthopUpdateBody", "NexthopUpdate(v4, no nexthops)", nexthopUpdate, false, func() Body {
			return &NexthopUpdateBody{Prefix: Prefix{Family: syscall.AF_INET, PrefixLen: 32, Prefix: c19A("192.0.2.1")}, Metric: 5, Distance: 20, Type: RouteStatic}
		})
	}
	return out
}

// c19Decode decodes a whole message the way ReceiveSingleMsg does, but picks the body decoder the
// zebra daemon would use for client->zebra commands that parseMessage does not map (HELLO,
// REDISTRIBUTE_ADD, NEXTHOP_REGISTER).
func c19Decode(c c19Msg, wire []byte) (*Message, error) {
	hs := int(HeaderSize(c.f.v))
	h := &Header{}
	if err := h.decodeFromBytes(wire[:hs]); err != nil {
		return nil, fmt.Errorf("header: %w", err)
	}
	if int(h.Len) != len(wire) {
		return nil, fmt.Errorf("header Len %d but %d bytes were written", h.Len, len(wire))
	}
	var b Body
	switch c.kind {
	case "HelloBody":
		b = &HelloBody{}
	case "redistributeBody":
		b = &redistributeBody{}
	case "NexthopRegisterBody":
		b = &NexthopRegisterBody{}
	default:
		m, err := parseMessage(h, wire[hs:], c.f.sw)
		if err != nil {
			return nil, err
		}
		if got := c19BodyType(m.Body); got != c.kind {
			return nil, fmt.Errorf("command %d (%s) decodes as %s, not %s", h.Command, h.Command.ToCommon(c.f.v, c.f.sw), got, c.kind)
		}
		return m, nil
	}
	if err := b.decodeFromBytes(wire[hs:], c.f.v, c.f.sw); err != nil {
		return nil, err
	}
	return &Message{Header: *h, Body: b}, nil
}

// c19Same compares what the client put into a route with what the decoder reads back. Derived
// representation (Nexthop.Type computed from the gateway, per-nexthop flag bits derived from labels,
// the address family filled in by serialize, nil vs empty lists) is not compared.
func c19Same(a, b Body) (bool, string) {
	if na, ok := a.(*NexthopRegisterBody); ok {
		// the frr8.2 safi field cannot be set by users of the package (unexported); an unset safi is
		// written as SAFI_UNICAST, which is what the decoder then reports: the same message
		if nb, ok := b.(*NexthopRegisterBody); ok {
			for i := range na.Nexthops {
				if i < len(nb.Nexthops) && na.Nexthops[i].safi == 0 && nb.Nexthops[i].safi == uint16(SafiUnicast) {
					na.Nexthops[i].safi = uint16(SafiUnicast)
				}
			}
		}
		return c19lib.Equal(a, b)
	}
	ra, ok := a.(*IPRouteBody)
	if !ok {
		return c19lib.Equal(a, b)
	}
	rb := b.(*IPRouteBody)
	switch {
	case ra.Type != rb.Type:
		return false, "Type"
	case ra.Flags != rb.Flags:
		return false, fmt.Sprintf("Flags %#x vs %#x", ra.Flags, rb.Flags)
	case ra.Message != rb.Message:
		return false, fmt.Sprintf("Message %#x vs %#x", ra.Message, rb.Message)
	case ra.Safi != rb.Safi:
		return false, "Safi"
	case ra.Prefix.Prefix != rb.Prefix.Prefix || ra.Prefix.PrefixLen != rb.Prefix.PrefixLen:
		return false, fmt.Sprintf("Prefix %v/%d vs %v/%d", ra.Prefix.Prefix, ra.Prefix.PrefixLen, rb.Prefix.Prefix, rb.Prefix.PrefixLen)
	case ra.Metric != rb.Metric || ra.Distance != rb.Distance || ra.Mtu != rb.Mtu:
		return false, fmt.Sprintf("Metric/Distance/Mtu %d/%d/%d vs %d/%d/%d", ra.Metric, ra.Distance, ra.Mtu, rb.Metric, rb.Distance, rb.Mtu)
	case len(ra.Nexthops) != len(rb.Nexthops):
		return false, fmt.Sprintf("%d nexthops vs %d", len(ra.Nexthops), len(rb.Nexthops))
	}
	for i := range ra.Nexthops {
		x, y := ra.Nexthops[i], rb.Nexthops[i]
		if x.Gate != y.Gate || x.Ifindex != y.Ifindex || x.VrfID != y.VrfID || x.LabelNum != y.LabelNum || fmt.Sprint(x.MplsLabels) != fmt.Sprint(y.MplsLabels) {
			return false, fmt.Sprintf("Nexthops[%d] %s vs %s", i, x.string(), y.string())
		}
	}
	return true, ""
}

func c19RoundTrip(r *vr.Report, c c19Msg) {
	r.Eval()
	cs := c19lib.RTCase{Kind: "roundtrip", Name: c.name}
	key := func(what string) string { return "C19:roundtrip:zebra:" + what + ":" + c.kind }
	var b0 []byte
	var err error
	var body Body
	if k, msg := c19lib.Guard(func() {
		body = c.mk()
		m := &Message{Header: Header{Len: HeaderSize(c.f.v), Marker: HeaderMarker(c.f.v), Version: c.f.v, VrfID: 0, Command: c.cmd.ToEach(c.f.v, c.f.sw)}, Body: body}
		b0, err = m.Serialize(c.f.sw)
	}); k != "" {
		r.Violationf("C19:panic:"+k, cs, "%s: construct/Serialize: %s", c.name, msg)
		return
	}
	if err != nil {
		r.Outcome("roundtrip: not constructible: " + c.kind)
		return
	}
	var m1 *Message
	if k, msg := c19lib.Guard(func() { m1, err = c19Decode(c, b0) }); k != "" {
		r.Violationf("C19:panic:"+k, cs, "%s: decode of %x: %s", c.name, b0, msg)
		return
	}
	if !c.judged {
		r.Outcome("roundtrip: request/answer formats differ by protocol (executed, not judged): " + c.kind)
		return
	}
	if err != nil {
		r.Outcome(fmt.Sprintf("roundtrip: FAILS to decode: %s %s", c.kind, c.f))
		// the decoder's complaint (digits removed) separates the root causes: a stray byte per nexthop,
		// message bit 0x40 read as "backup nexthops", a mis-sized fixed part, ...
		cls := regexp.MustCompile(`[0-9]+`).ReplaceAllString(err.Error(), "N")
		if i := strings.Index(cls, ","); i > 0 {
			cls = cls[:i]
		}
		r.Violationf(key("reparse-error")+":"+cls, cs, "%s serialises to %x which does not decode: %v", c.name, b0, err)
		return
	}
	if ok, path := c19Same(c.mk(), m1.Body); !ok {
		r.Outcome(fmt.Sprintf("roundtrip: DIFFERS: %s %s", c.kind, c.f))
		r.Violationf(key("not-equal"), cs, "%s -> %x -> decoded message differs: %s", c.name, b0, path)
		return
	}
	b1, err := m1.Serialize(c.f.sw)
	if err != nil || !bytes.Equal(b0, b1) {
		r.Violationf(key("reserialise-differs"), cs, "%s: %x re-serialises to %x (%v)", c.name, b0, b1, err)
		return
	}
	m2, err := c19Decode(c, b1)
	if err != nil {
		r.Violationf(key("reparse-error"), cs, "%s: second decode of %x: %v", c.name, b1, err)
		return
	}
	if ok, path := c19lib.Equal(m1.Body, m2.Body); !ok {
		r.Violationf(key("not-a-fixpoint"), cs, "%s: decode(serialize(decode(x))) differs from decode(x) at %s", c.name, path)
		return
	}
	r.NT("rt|" + c.name)
	r.Outcome("roundtrip: equal: " + c.kind)
}

// ---- seeds for the decoders of zebra->client messages (layout per the FRR/Quagga sources cited in zapi.go) ----

func c19be16(v uint16) []byte { return binary.BigEndian.AppendUint16(nil, v) }
func c19be32(v uint32) []byte { return binary.BigEndian.AppendUint32(nil, v) }

func c19cat(parts ...[]byte) []byte {
	var b []byte
	for _, p := range parts {
		b = append(b, p...)
	}
	return b
}

var c19V4 = []byte{192, 0, 2, 1}
var c19V6 = []byte{0x20, 0x01, 0x0d, 0xb8, 0, 0, 0, 0, 0, 0, 0, 0, 0, 0, 0, 1}

// redistributed route in the Quagga/FRR3 layout (zebra_read_ipv4/ipv6)
func c19LegacyRoute(v uint8, v6 bool) []byte {
	b := []byte{2}
	if v <= 3 {
		b = append(b, 0x08)
	} else {
		b = c19cat(b, c19be16(0), c19be32(0x08))
	}
	b = append(b, 0x01|0x02|0x04|0x08) // NEXTHOP IFINDEX DISTANCE METRIC
	gate := c19V4
	if v6 {
		b = append(b, 64)
		b = append(b, c19V6[:8]...)
		gate = c19V6
	} else {
		b = append(b, 24, 10, 1, 2)
	}
	b = append(b, 1)
	b = append(b, gate...)
	b = c19cat(b, []byte{1}, c19be32(3), []byte{20}, c19be32(100))
	return b
}

// nexthop in the FRR layout for the flavour's NEXTHOP_UPDATE
func c19NexthopUpdate(f c19Flavour, v6 bool) []byte {
	var b []byte
	fam := uint16(syscall.AF_INET)
	addr := c19V4
	if v6 {
		fam, addr = syscall.AF_INET6, c19V6
	}
	plen := byte(len(addr) * 8)
	frr := f.sw.name == "frr"
	if f.v == 6 && frr && f.sw.version >= 7.5 {
		b = append(b, c19be32(0)...)
		if f.sw.version >= 8.2 {
			b = c19cat(b, c19be16(1), c19be16(fam), []byte{plen}, addr)
		}
	}
	b = c19cat(b, c19be16(fam), []byte{plen}, addr)
	if f.v > 4 {
		b = c19cat(b, []byte{byte(RouteStatic)}, c19be16(0))
	}
	if f.v > 3 {
		b = append(b, 1)
	}
	b = c19cat(b, c19be32(10), []byte{1})
	// one nexthop: gateway + ifindex
	if f.v == 6 && frr && f.sw.version >= 7 {
		b = append(b, c19be32(0)...) // vrf id
	}
	t := nexthopTypeIPv4IFIndex
	if v6 {
		t = nexthopTypeIPv6IFIndex
	}
	b = append(b, byte(t.toEach(f.v)))
	if f.v == 6 && frr && f.sw.version >= 7.3 {
		b = append(b, 0) // flags
	}
	b = c19cat(b, addr, c19be32(2))
	if f.v == 6 && frr && f.sw.version < 7.3 || f.v == 5 && frr && f.sw.version == 5 {
		b = append(b, 0) // label_num
	}
	return b
}

func c19InterfaceUpdate(f c19Flavour) []byte {
	ns := interfaceNameSize
	if f.v == 6 && f.sw.name == "frr" && f.sw.version >= 8.3 {
		ns = osIfNameSize
	}
	name := make([]byte, ns)
	copy(name, "eth0")
	b := c19cat(name, c19be32(2), []byte{1}, make([]byte, 8))
	if f.v > 3 {
		b = append(b, 1, 1)
	}
	b = append(b, c19be32(1)...)
	if f.v > 3 {
		b = append(b, c19be32(1000)...)
	}
	b = c19cat(b, c19be32(1500), c19be32(1500), c19be32(0))
	if f.v == 6 && f.sw.name == "frr" && f.sw.version >= 7.2 {
		b = append(b, c19be32(0)...)
	}
	if f.v > 2 {
		b = append(b, c19be32(1)...)
	}
	b = c19cat(b, c19be32(6), []byte{0, 1, 2, 3, 4, 5})
	if f.v > 2 {
		b = append(b, 1)
		b = c19cat(b, c19be32(1), c19be32(2), c19be32(0x41200000), c19be32(0x41200000), c19be32(2), c19be32(0x3f800000), c19be32(0x40000000), make([]byte, 44))
	}
	return b
}

func c19Lookup(f c19Flavour, v6 bool, withDistance bool) []byte {
	addr := c19V4
	t := backwardNexthopTypeIPv4
	if v6 {
		addr, t = c19V6, backwardNexthopTypeIPv6
	}
	b := append([]byte{}, addr...)
	if withDistance {
		b = append(b, 1)
	}
	b = c19cat(b, c19be32(5), []byte{1, byte(t)}, addr)
	return b
}

// c19SearchSeed finds the shortest zero-filled input (with at most one small byte set) the entry accepts.
func c19SearchSeed(x *c19lib.Checker, e *c19lib.Entry) []byte {
	try := func(b []byte) bool {
		ok := false
		c19lib.Guard(func() { ok = e.Run(x, b).OK })
		return ok
	}
	for L := 0; L <= 120; L++ {
		b := make([]byte, L)
		if try(b) {
			return b
		}
		for p := 0; p < L && p < 20; p++ {
			for _, v := range []byte{syscall.AF_INET, syscall.AF_INET6, 1} {
				b[p] = v
				if try(b) {
					return b
				}
			}
			b[p] = 0
		}
	}
	return nil
}

func TestVerif_C19_Zebra(t *testing.T) {
	r := vr.Start(t, "C19", "zebra")
	defer r.Finish()
	r.Rule = "decoder: for every ZAPI version 2..6 x software flavour: parseMessage for every command number that has a dedicated body decoder (and one unknown), the client->zebra body decoders called directly (HELLO, REDISTRIBUTE, NEXTHOP_REGISTER, RegisteredNexthop, decodeMessageNexthopFromBytes), ReceiveSingleMsg over an in-memory net.Conn, and Header.decodeFromBytes; inputs: every byte string over the stated alphabets/lengths, every fault-catalogue mutant (byte x values, truncations, appended byte, every 16/32-bit window x length-fault values; thorough: pairs) and garbage tails at every cut position of the seed bodies (serialised client messages, hand-laid-out zebra->client messages per the cited FRR/Quagga layouts, and a shortest-accepted-input search), each executed with cap==len and with 96 poison bytes behind the data; non-trivial = a body was decoded (then string()/Family/IsWithdraw/json.Marshal/Serialize were exercised). round trip: every message the client builds (HELLO, REDISTRIBUTE_ADD, ROUTE_ADD as newIPRouteBody builds it, NEXTHOP_REGISTER, VRF_LABEL) per flavour -> Serialize -> decode -> same content -> identical bytes -> decode fixpoint; request/answer pairs with protocol-asymmetric layouts (ZAPI<=4 routes, label manager, router-id, nexthop update, lookups, interface messages) are executed but not judged"
	fl := c19Flavours()
	entries, per := c19BuildEntries(fl)
	cons := c19Constructible(fl)
	r.Bounds["flavours"] = fmt.Sprint(fl)
	r.Bounds["entry_points"] = len(entries)
	r.Bounds["command_numbers_scanned_per_flavour"] = c19MaxCmd
	r.Extra["sizeof_Nexthop"] = unsafe.Sizeof(Nexthop{})
	if r.ReplayPath() != "" {
		var raw map[string]any
		if err := r.LoadReplay(&raw); err != nil {
			t.Fatal(err)
		}
		if raw["kind"] == "roundtrip" {
			for _, c := range cons {
				if c.name == raw["name"] {
					c19RoundTrip(r, c)
				}
			}
			return
		}
		c19lib.ReplayDecoder(r, entries)
		return
	}
	stop := c19lib.Watchdog(r, 3*time.Minute)
	defer stop()
	W := vr.Workers()

	// round trip
	r.Bounds["rt_constructible_messages"] = len(cons)
	r.Parallel(W, func(w int, cr *vr.Report) {
		for i, c := range cons {
			if i%W != w {
				continue
			}
			c19RoundTrip(cr, c)
			if cr.WantSample() && i%1201 == 0 {
				cr.Sample(c19lib.RTCase{Kind: "roundtrip", Name: c.name})
			}
		}
	})

	// seeds
	var seeds []c19lib.Seed
	scratch := c19lib.NewChecker(r.Fork())
	accepted, offered := 0, 0
	curRep := true // fault pairs (thorough) only for the seeds of the representative flavours
	addSeed := func(name string, data []byte, es []*c19lib.Entry) {
		if len(es) == 0 || data == nil {
			return
		}
		for _, e := range es {
			offered++
			ok := false
			c19lib.Guard(func() { ok = e.Run(scratch, data).OK })
			if ok {
				accepted++
			}
		}
		seeds = append(seeds, c19lib.Seed{Name: name, Data: data, Entries: es, NoPairs: !curRep})
	}
	for _, fe := range per {
		f := fe.f
		curRep = f.rep
		hs := int(HeaderSize(f.v))
		// serialised client messages: body to the matching decoders, whole message to ReceiveSingleMsg
		seenKind := map[string]int{}
		for _, c := range cons {
			if c.f != f {
				continue
			}
			seenKind[c.kind]++
			// keep the last two of every kind (the richest variants)
			_ = c
		}
		count := map[string]int{}
		for _, c := range cons {
			if c.f != f {
				continue
			}
			count[c.kind]++
			keep := 1
			if f.rep {
				keep = 2
			}
			if count[c.kind] <= seenKind[c.kind]-keep {
				continue
			}
			m := &Message{Header: Header{Len: HeaderSize(f.v), Marker: HeaderMarker(f.v), Version: f.v, Command: c.cmd.ToEach(f.v, f.sw)}, Body: c.mk()}
			wire, err := m.Serialize(f.sw)
			if err != nil {
				continue
			}
			var es []*c19lib.Entry
			if e := fe.direct[c.kind]; e != nil {
				es = append(es, e)
			}
			if f.rep || f.v <= 4 {
				es = append(es, fe.byBody[c.kind]...)
			} else if len(fe.byBody[c.kind]) > 0 {
				// the command numbers of one body type share the decoder (they differ in IPRouteBody.API only)
				es = append(es, fe.byBody[c.kind][0])
			}
			addSeed(fmt.Sprintf("body:%s", c.name), wire[hs:], es)
			if c.kind == "NexthopRegisterBody" {
				addSeed(fmt.Sprintf("body:%s", c.name), wire[hs:], []*c19lib.Entry{fe.direct["RegisteredNexthop"]})
			}
			addSeed(fmt.Sprintf("msg:%s", c.name), wire, []*c19lib.Entry{fe.recv})
		}
		// zebra->client layouts
		for _, v6 := range []bool{false, true} {
			if f.v <= 4 {
				addSeed(fmt.Sprintf("%s legacy-route v6=%v", f, v6), c19LegacyRoute(f.v, v6), fe.byBody["IPRouteBody"])
			}
			addSeed(fmt.Sprintf("%s nexthop-update v6=%v", f, v6), c19NexthopUpdate(f, v6), fe.byBody["NexthopUpdateBody"])
			fam := byte(syscall.AF_INET)
			a := c19V4
			if v6 {
				fam, a = syscall.AF_INET6, c19V6
			}
			addSeed(fmt.Sprintf("%s interface-address v6=%v", f, v6), c19cat(c19be32(2), []byte{1, fam}, a, []byte{24}, a), fe.byBody["interfaceAddressUpdateBody"])
			addSeed(fmt.Sprintf("%s router-id v6=%v", f, v6), c19cat([]byte{fam}, a, []byte{32}), fe.byBody["routerIDUpdateBody"])
			for _, wd := range []bool{false, true} {
				addSeed(fmt.Sprintf("%s lookup v6=%v distance=%v", f, v6, wd), c19Lookup(f, v6, wd), fe.byBody["lookupBody"])
			}
		}
		addSeed(fmt.Sprintf("%s interface-update", f), c19InterfaceUpdate(f), fe.byBody["interfaceUpdateBody"])
		// nexthop lists for decodeMessageNexthopFromBytes: taken from a serialised route (v5/v6)
		for _, c := range cons {
			if c.f == f && c.kind == "IPRouteBody" && f.v >= 5 && strings.Contains(c.name, "gates#1") && strings.Contains(c.name, "10.1.2.0") {
				m := &Message{Header: Header{Version: f.v}, Body: c.mk()}
				wire, err := m.Serialize(f.sw)
				if err == nil {
					// the nexthop block starts after type..prefix; offer every suffix start by mutation of the whole body instead
					addSeed("nexthop-block:"+c.name, wire[hs:], []*c19lib.Entry{fe.direct["decodeMessageNexthop[backup=false]"], fe.direct["decodeMessageNexthop[backup=true]"]})
				}
				break
			}
		}
		// shortest accepted input for every entry that has no accepted seed yet
		has := map[*c19lib.Entry]bool{}
		for _, s := range seeds {
			for _, e := range s.Entries {
				ok := false
				c19lib.Guard(func() { ok = e.Run(scratch, s.Data).OK })
				if ok {
					has[e] = true
				}
			}
		}
		var rest []*c19lib.Entry
		rest = append(rest, fe.parse...)
		for _, e := range fe.direct {
			rest = append(rest, e)
		}
		for _, e := range rest {
			if has[e] {
				continue
			}
			if b := c19SearchSeed(scratch, e); b != nil {
				addSeed("search:"+e.Name, b, []*c19lib.Entry{e})
			}
		}
	}
	curRep = true
	// one header seed per version
	for v := MinZapiVer; v <= MaxZapiVer; v++ {
		h := &Header{Len: 0x1234, Marker: HeaderMarker(v), Version: v, VrfID: 7, Command: 9}
		b, _ := h.serialize()
		addSeed(fmt.Sprintf("header v%d", v), b, entries[:1])
	}
	r.Extra["seed_entry_pairs_offered"] = offered
	r.Extra["seed_entry_pairs_accepted_by_decoder"] = accepted

	// all-strings groups
	var repEntries, tightRep []*c19lib.Entry
	for _, fe := range per {
		if !fe.f.rep {
			continue
		}
		es := append([]*c19lib.Entry{}, fe.parse...)
		for _, k := range []string{"HelloBody", "redistributeBody", "NexthopRegisterBody", "RegisteredNexthop"} {
			es = append(es, fe.direct[k])
		}
		es = append(es, fe.recv)
		repEntries = append(repEntries, es...)
		if fe.f.v == 6 {
			// the 16.8 M strings of length <=3: the default flavour (v6/frr8.1), cap==len only
			for _, e := range es {
				c := *e
				c.TightOnly = true
				tightRep = append(tightRep, &c)
			}
		}
	}
	// decodeMessageNexthopFromBytes called directly reads a 16-bit nexthop count from the first two bytes and
	// allocates count*sizeof(Nexthop) (up to 13 MiB, and on ZAPI<=4 loops 65535 times over zero-length
	// nexthops) before looking at the data: enumerating all 2- and 3-byte strings there costs minutes of
	// CPU, so these two entry points get the full alphabet up to length 1, the seeds and their mutants only.
	var wide []*c19lib.Entry
	for _, e := range entries {
		if !strings.Contains(e.Name, "decodeMessageNexthopFromBytes") {
			wide = append(wide, e)
		}
	}
	// Quick: full alphabet <=3 at Header.decodeFromBytes; full alphabet <=2 and boundary alphabet <=3 at every
	// entry point of one representative flavour per ZAPI version; full alphabet <=1 and boundary alphabet <=2
	// at every entry point of every flavour (the full alphabet at length 3 over all 500+ entry points is
	// 26 G calls: unaffordable).
	plan := &c19lib.Plan{
		Entries: entries[:1], StrAlpha: c19lib.FullAlphabet(), StrMaxLen: 3,
		Groups: []c19lib.StrGroup{
			{Label: "representative-flavours full<=2", Entries: repEntries, Alpha: c19lib.FullAlphabet(), MaxLen: 2},
			{Label: "all full<=1", Entries: entries, Alpha: c19lib.FullAlphabet(), MaxLen: 1},
			{Label: "representative-flavours boundary<=3", Entries: repEntries, Alpha: c19lib.Boundary, MaxLen: 3},
			{Label: "all-but-nexthop-list boundary<=2", Entries: wide, Alpha: c19lib.Boundary, MaxLen: 2},
		},
		Seeds: seeds, Opt: c19lib.MutOpt{PairStride: 1},
		// allocation pass: window faults and truncations of the seeds of the representative flavours,
		// one entry point per seed (the nexthop-count amplification makes each offending case cost
		// milliseconds and 13 MiB; the defect is flavour-independent)
		AllocOpt: c19lib.MutOpt{WindowsOnly: true},
		AllocFilter: func(s *c19lib.Seed, e *c19lib.Entry) bool {
			if e != s.Entries[0] {
				return false
			}
			for _, fe := range per {
				if fe.f.rep && strings.Contains(e.Name, "["+fe.f.String()+"]") || fe.f.rep && strings.Contains(e.Name, "["+fe.f.String()+",") {
					return true
				}
			}
			return false
		},
	}
	if vr.Thorough() {
		plan.AllocFilter = func(s *c19lib.Seed, e *c19lib.Entry) bool { return e == s.Entries[0] }
		// Thorough: full alphabet <=3 at the default flavour (v6/frr8.1) with cap==len only, full <=2 and boundary <=3
		// everywhere, boundary <=4 at the representative flavours. All 256 byte values, garbage tails and fault
		// pairs only for the seeds of the representative flavours; no pairs for seeds that carry a nexthop list
		// (every pair that includes a count fault costs 13 MiB and up to 65535 iterations: the known
		// amplification would dominate the run with terabytes of allocation).
		plan.Groups = []c19lib.StrGroup{
			{Label: "v6/frr8.1 full<=3 cap==len", Entries: tightRep, Alpha: c19lib.FullAlphabet(), MaxLen: 3},
			{Label: "all full<=1", Entries: entries, Alpha: c19lib.FullAlphabet(), MaxLen: 1},
			{Label: "all-but-nexthop-list full<=2", Entries: wide, Alpha: c19lib.FullAlphabet(), MaxLen: 2},
			{Label: "all-but-nexthop-list boundary<=3", Entries: wide, Alpha: c19lib.Boundary, MaxLen: 3},
			{Label: "representative-flavours boundary<=4", Entries: repEntries, Alpha: c19lib.Boundary, MaxLen: 4},
		}
		plan.Opt = c19lib.MutOpt{AllByteValues: true, Pairs: true, PairStride: 4}
		for i := range plan.Seeds {
			sd := &plan.Seeds[i]
			sd.Light = sd.NoPairs // non-representative flavours
			if strings.Contains(sd.Name, "Route(") || strings.Contains(sd.Name, "route") || strings.Contains(sd.Name, "nexthop") || strings.Contains(sd.Name, "lookup") || strings.Contains(sd.Name, "IPRouteBody") {
				sd.NoPairs = true
			}
		}
		plan.TailFull = 1
		plan.TailBoundary = 2
	}
	plan.Run(r)
	if len(seeds) > 0 {
		r.Sample(c19lib.Case{Entry: seeds[0].Entries[0].Name, Hex: c19lib.Hex(seeds[0].Data), Note: "seed " + seeds[0].Name})
	}
	_ = io.EOF
}
