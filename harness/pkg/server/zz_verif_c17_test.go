package server

// C17 — VRF import/export and Route Target Constraint distribute exactly the matching routes.
//
// Scenario "vrf": server AS 65000 with VRF v1 (RD 65000:1, import{RT1} export{RT1}) created before any peer.
// Bots: pe  — eBGP AS 65001, {l3vpn-ipv4-unicast}: announces / withdraws VPNv4 routes RD 65001:1, 10.30.k.0/24,
//             label 100+k, with a route-target set from {RT1} {RT2} {RT1,RT2} {RT3} {non-transitive look-alike of RT1};
//       rtc — iBGP AS 65000, {l3vpn-ipv4-unicast, rtc}: announces / withdraws Route Target membership NLRIs
//             (RT1, RT2, default; origin AS a=65000 or b=65002; duplicates);
//       ce  — eBGP AS 65003 attached to VRF v1, {ipv4-unicast}: announces / withdraws one plain route.
// API events: AddVrf/DeleteVrf v2 (RD 65000:2, import{RT1,RT2} export{RT2}); AddPath/DeletePath with VRFID v1.
//
// Reference model: plain Go sets written from the property text (which VPN routes exist, which memberships the
// rtc bot currently holds, which VRFs exist). Oracle at every quiescent state:
//   (1) rtc's accumulated VPNv4 view == VPN routes whose TRANSITIVE route targets meet a held membership (or all of
//       them under the default membership), with RD / label / RT set, and attributes == from-scratch export;
//   (2) ce's accumulated view == plain projection of the VPN routes importable into v1, never its own route;
//   (3) routes originated in v1 (API or learned from ce) are in the global VPNv4 table and at pe / rtc with v1's
//       RD, label and export route targets; the VRF RIBs (ListPath(vrf) view) hold exactly the importable routes;
//   (4) a membership / VRF change touches only prefixes whose expected state changed (no redundant UPDATE);
//   (5) the VPN path index (GetPathsByRT) == scan of the table, for every RT of the alphabet.

import (
	"context"
	"encoding/hex"
	"fmt"
	"net/netip"
	"os"
	"sort"
	"strings"
	"testing"
	"time"

	api "github.com/osrg/gobgp/v4/api"
	"github.com/osrg/gobgp/v4/internal/pkg/table"
	"github.com/osrg/gobgp/v4/internal/verif/vr"
	"github.com/osrg/gobgp/v4/pkg/apiutil"
	"github.com/osrg/gobgp/v4/pkg/config/oc"
	"github.com/osrg/gobgp/v4/pkg/packet/bgp"
)

const (
	c17PeAS  = 65001
	c17CeAS  = 65003
	c17AsA   = 65000 // origin AS "a" of membership NLRIs (the rtc bot's own AS, also the server's)
	c17AsB   = 65002 // origin AS "b"
	c17V1RD  = "65000:1"
	c17V2RD  = "65000:2"
	c17PeRD  = "65001:1"
	c17VrfPf = "10.40.1.0/24" // route originated inside v1 through the API
	c17CePf  = "10.50.1.0/24" // route announced by the CE bot
)

// route targets of the alphabet: index 1..3 = RT1..RT3 (transitive, type 0x00 sub-type 0x02, 100:i);
// "nt1" = type 0x40 sub-type 0x02 with RT1's value.
func c17RT(i int) bgp.ExtendedCommunityInterface {
	return bgp.NewTwoOctetAsSpecificExtended(bgp.EC_SUBTYPE_ROUTE_TARGET, 100, uint32(i), true)
}

func c17NT1() bgp.ExtendedCommunityInterface {
	return bgp.NewTwoOctetAsSpecificExtended(bgp.EC_SUBTYPE_ROUTE_TARGET, 100, 1, false)
}

func c17ECHex(ec bgp.ExtendedCommunityInterface) string {
	b, err := ec.Serialize()
	if err != nil {
		panic(err)
	}
	return hex.EncodeToString(b)
}

// c17TransitiveRTs: RFC 4360 — the T bit (0x40) of the type octet clear, and a route target is sub-type
// 0x02 of the types 0x00 / 0x01 / 0x02. Works on the 8 wire bytes (hex), independent of the daemon's tests.
func c17TransitiveRTs(ecs []string) []string {
	var out []string
	for _, e := range ecs {
		if len(e) != 16 {
			continue
		}
		if (e[0:2] == "00" || e[0:2] == "01" || e[0:2] == "02") && e[2:4] == "02" {
			out = append(out, e)
		}
	}
	sort.Strings(out)
	return out
}

var c17RTSetNames = []string{"RT1", "RT2", "RT1+RT2", "RT3", "nt1"}

func c17RTSet(i int) []bgp.ExtendedCommunityInterface {
	switch i {
	case 0:
		return []bgp.ExtendedCommunityInterface{c17RT(1)}
	case 1:
		return []bgp.ExtendedCommunityInterface{c17RT(2)}
	case 2:
		return []bgp.ExtendedCommunityInterface{c17RT(1), c17RT(2)}
	case 3:
		return []bgp.ExtendedCommunityInterface{c17RT(3)}
	case 4:
		return []bgp.ExtendedCommunityInterface{c17NT1()}
	}
	panic("c17: rt set")
}

// c17Route is one VPN route of the reference model.
type c17Route struct {
	rd, prefix string
	labels     []uint32
	ecs        []string // all extended communities (8-byte hex)
	src        string   // "pe" | "local" | "ce"
}

func (r c17Route) vpnKey() string {
	return fmt.Sprintf("%s|%s:%s|0", bgp.RF_IPv4_VPN, r.rd, r.prefix)
}

func (r c17Route) plainKey() string {
	return fmt.Sprintf("%s|%s|0", bgp.RF_IPv4_UC, r.prefix)
}

func (r c17Route) importable(importRTs map[string]bool) bool {
	for _, e := range c17TransitiveRTs(r.ecs) {
		if importRTs[e] {
			return true
		}
	}
	return false
}

// c17Held is what a bot holds for one key, decoded from the UPDATE that last set it.
type c17Held struct {
	labels string
	rts    string // sorted transitive route targets
}

type c17Scenario struct {
	arg      string
	deferral bool // rtc peer configured with a route-target deferral time; Setup completes the EoR exchange
	full     bool // full alphabet (thorough)
	fineKeys bool

	// reference model
	peRoutes map[int]int     // k -> rt set index
	vrfRoute bool            // API route inside v1
	ceRoute  bool            // route announced by ce
	memb     map[string]bool // "<rt index 0=default>|<origin as>" currently announced by rtc
	v2       bool

	// observation
	held     []map[string]c17Held // per bot
	touched  []map[string]int     // per bot: keys touched by UPDATEs since the last Apply started
	prevWant []map[string]c17Held // expected views before the last event
	diverged bool
	v1Label  uint32
	pol      bool
}

func init() {
	simScenarios["vrf"] = func(arg string) simScenario {
		sc := &c17Scenario{arg: arg, fineKeys: os.Getenv("VERIF_C17_FINEKEYS") != ""}
		for _, kv := range strings.Split(arg, ";") {
			switch kv {
			case "", "d0":
			case "eor":
				sc.deferral = true
			case "full":
				sc.full = true
			case "pol":
				// sharp driver: a global import policy with a modification action (the Loc-RIB then holds
				// clones of the Adj-RIB-In paths), soft reset (in) of the PE as an event, small alphabet
				sc.pol = true
			default:
				panic("vrf: unknown arg " + kv)
			}
		}
		return sc
	}
}

func (sc *c17Scenario) ForceDrain() bool { return true }

func (sc *c17Scenario) polEnabled() []simEvent {
	ev := []simEvent{{Op: "rtcann", A: 1, B: 0}, {Op: "vpnann", A: 1, B: 0}, {Op: "vpnann", A: 1, B: 2}, {Op: "softin"}}
	if sc.memb["1|0"] {
		ev = append(ev, simEvent{Op: "rtcwd", A: 1, B: 0})
	}
	if _, ok := sc.peRoutes[1]; ok {
		ev = append(ev, simEvent{Op: "vpnwd", A: 1})
	}
	return ev
}

const (
	c17Pe  = 0
	c17Rtc = 1
	c17Ce  = 2
)

func c17AddVrf(w *simWorld, name, rd string, id uint32, imp, exp []bgp.ExtendedCommunityInterface) error {
	r, err := bgp.ParseRouteDistinguisher(rd)
	if err != nil {
		return err
	}
	irt, _ := apiutil.MarshalRTs(imp)
	ert, _ := apiutil.MarshalRTs(exp)
	v, _ := apiutil.MarshalRD(r)
	return w.s.AddVrf(context.Background(), &api.AddVrfRequest{Vrf: &api.Vrf{Name: name, Rd: v, Id: id, ImportRt: irt, ExportRt: ert}})
}

func (sc *c17Scenario) Setup(w *simWorld) {
	sc.peRoutes = map[int]int{}
	sc.memb = map[string]bool{}
	w.start()
	// v1 must exist before the CE neighbour is configured
	w.must(c17AddVrf(w, "v1", c17V1RD, 1, []bgp.ExtendedCommunityInterface{c17RT(1)}, []bgp.ExtendedCommunityInterface{c17RT(1)}))
	w.settle()
	w.addBot(simBotSpec{Name: "pe", IP: [4]byte{10, 0, 0, 1}, AS: c17PeAS, RouterID: [4]byte{1, 1, 1, 1}, Families: []bgp.Family{bgp.RF_IPv4_VPN}})
	w.addBot(simBotSpec{Name: "rtc", IP: [4]byte{10, 0, 0, 2}, AS: 65000, RouterID: [4]byte{1, 1, 1, 2}, Families: []bgp.Family{bgp.RF_IPv4_VPN, bgp.RF_RTC_UC},
		Neighbor: func(n *oc.Neighbor) {
			if !sc.deferral {
				return
			}
			for i := range n.AfiSafis {
				if n.AfiSafis[i].Config.AfiSafiName == oc.AfiSafiType(bgp.RF_RTC_UC.String()) {
					n.AfiSafis[i].RouteTargetMembership.Config.DeferralTime = 30
				}
			}
		}})
	w.addBot(simBotSpec{Name: "ce", IP: [4]byte{10, 0, 0, 3}, AS: c17CeAS, RouterID: [4]byte{1, 1, 1, 3}, Families: []bgp.Family{bgp.RF_IPv4_UC},
		Neighbor: func(n *oc.Neighbor) { n.Config.Vrf = "v1" }})
	for _, b := range w.bots {
		if w.peer(b) == nil {
			panic("vrf setup: neighbour " + b.spec.Name + " was not added")
		}
	}
	sc.held = make([]map[string]c17Held, len(w.bots))
	sc.touched = make([]map[string]int, len(w.bots))
	for i := range w.bots {
		sc.held[i] = map[string]c17Held{}
		sc.touched[i] = map[string]int{}
	}
	w.advance(time.Second) // idle hold timer: Idle -> Active
	for _, b := range w.bots {
		if !b.handshake() {
			panic("vrf setup: session with " + b.spec.Name + " did not establish")
		}
	}
	if sc.deferral {
		// the daemon has sent its own memberships + the RTC End-of-RIB and now defers VPN routes until it
		// receives the bot's RTC End-of-RIB: complete the exchange (no membership yet), then let the
		// deferral timer (30 s) run out so that nothing of the initial exchange is pending.
		p := w.peer(w.bots[c17Rtc])
		if !p.getRtcEORWait() {
			panic("vrf setup: deferral configured but the daemon is not waiting for the RTC End-of-RIB")
		}
		un, _ := bgp.NewPathAttributeMpUnreachNLRI(bgp.RF_RTC_UC, nil)
		w.bots[c17Rtc].sendMsg(bgp.NewBGPUpdateMessage(nil, []bgp.PathAttributeInterface{un}, nil))
		w.settle()
		if p.getRtcEORWait() {
			panic("vrf setup: the daemon still waits for the RTC End-of-RIB after receiving it")
		}
		w.advance(31 * time.Second)
	} else {
		if w.peer(w.bots[c17Rtc]).getRtcEORWait() {
			panic("vrf setup: no deferral configured but the daemon waits for the RTC End-of-RIB")
		}
		w.advance(time.Second)
	}
	if v, ok := w.s.globalRib.GetVrf("v1"); ok {
		sc.v1Label = v.MplsLabel
	}
	if sc.pol {
		simSetPolicies(w, 5, 0) // import: add community 65000:99, accept
	}
	sc.fold(w)
	sc.prevWant = sc.expectAll()
}

// fold applies the UPDATEs received since the last call to the bots' views (string view of the engine
// and the decoded view of this scenario).
func (sc *c17Scenario) fold(w *simWorld) {
	for i, b := range w.bots {
		for _, rx := range b.takeGroup() {
			u := rx.Msg.Body.(*bgp.BGPUpdate)
			var ecs []string
			labels := map[string]string{}
			for _, a := range u.PathAttributes {
				switch x := a.(type) {
				case *bgp.PathAttributeExtendedCommunities:
					for _, e := range x.Value {
						ecs = append(ecs, c17ECHex(e))
					}
				case *bgp.PathAttributeMpReachNLRI:
					f := bgp.NewFamily(x.AFI, x.SAFI)
					for _, n := range x.Value {
						if l, ok := n.NLRI.(*bgp.LabeledVPNIPAddrPrefix); ok {
							labels[simRouteKey(f, n.NLRI, n.ID)] = fmt.Sprint(l.Labels.Labels)
						}
					}
				}
			}
			for _, k := range simFold(b.view, rx.Msg) {
				sc.touched[i][k]++
				if _, ok := b.view[k]; !ok {
					delete(sc.held[i], k)
					continue
				}
				sc.held[i][k] = c17Held{labels: labels[k], rts: strings.Join(c17TransitiveRTs(ecs), ",")}
			}
		}
	}
}

// ---- reference model ----

func (sc *c17Scenario) routes() []c17Route {
	var out []c17Route
	ks := make([]int, 0, len(sc.peRoutes))
	for k := range sc.peRoutes {
		ks = append(ks, k)
	}
	sort.Ints(ks)
	for _, k := range ks {
		r := c17Route{rd: c17PeRD, prefix: fmt.Sprintf("10.30.%d.0/24", k), labels: []uint32{uint32(100 + k)}, src: "pe"}
		for _, e := range c17RTSet(sc.peRoutes[k]) {
			r.ecs = append(r.ecs, c17ECHex(e))
		}
		out = append(out, r)
	}
	// routes originated in v1 carry v1's RD, v1's label and v1's export route targets
	if sc.vrfRoute {
		out = append(out, c17Route{rd: c17V1RD, prefix: c17VrfPf, labels: []uint32{sc.v1Label}, ecs: []string{c17ECHex(c17RT(1))}, src: "local"})
	}
	if sc.ceRoute {
		out = append(out, c17Route{rd: c17V1RD, prefix: c17CePf, labels: []uint32{sc.v1Label}, ecs: []string{c17ECHex(c17RT(1))}, src: "ce"})
	}
	return out
}

func (sc *c17Scenario) heldRTs() (map[string]bool, bool) {
	rts := map[string]bool{}
	def := false
	for m := range sc.memb {
		var rt int
		fmt.Sscanf(m, "%d|", &rt)
		if rt == 0 {
			def = true
		} else {
			rts[c17ECHex(c17RT(rt))] = true
		}
	}
	return rts, def
}

func c17WantOf(r c17Route) c17Held {
	return c17Held{labels: fmt.Sprint(r.labels), rts: strings.Join(c17TransitiveRTs(r.ecs), ",")}
}

// expectAll: what each bot must hold (VPNv4 for pe / rtc, ipv4-unicast for ce).
func (sc *c17Scenario) expectAll() []map[string]c17Held {
	pe, rtc, ce := map[string]c17Held{}, map[string]c17Held{}, map[string]c17Held{}
	rts, def := sc.heldRTs()
	v1Import := map[string]bool{c17ECHex(c17RT(1)): true}
	for _, r := range sc.routes() {
		if r.src != "pe" {
			pe[r.vpnKey()] = c17WantOf(r)
		}
		if def || r.importable(rts) {
			rtc[r.vpnKey()] = c17WantOf(r)
		}
		if r.src != "ce" && r.importable(v1Import) {
			ce[r.plainKey()] = c17Held{}
		}
	}
	return []map[string]c17Held{pe, rtc, ce}
}

// ---- events ----

func (sc *c17Scenario) Enabled(w *simWorld) []simEvent {
	if sc.diverged {
		// the reference and the daemon are out of step: one root cause gives one minimal history
		return nil
	}
	if sc.pol {
		return sc.polEnabled()
	}
	var ev []simEvent
	type ms struct{ rt, as int }
	membs := []ms{{1, 0}, {2, 0}, {0, 0}, {1, 1}}
	if sc.full {
		membs = append(membs, ms{2, 1})
	}
	for _, m := range membs {
		ev = append(ev, simEvent{Op: "rtcann", A: m.rt, B: m.as})
	}
	type va struct{ k, set int }
	anns := []va{{1, 0}, {1, 2}, {1, 4}, {2, 1}}
	ks := []int{1, 2}
	if sc.full {
		anns = nil
		for _, k := range ks {
			for s := range c17RTSetNames {
				anns = append(anns, va{k, s})
			}
		}
	}
	for _, a := range anns {
		ev = append(ev, simEvent{Op: "vpnann", A: a.k, B: a.set})
	}
	if sc.vrfRoute {
		ev = append(ev, simEvent{Op: "vrfdel"})
	} else {
		ev = append(ev, simEvent{Op: "vrfadd"})
	}
	if sc.ceRoute {
		ev = append(ev, simEvent{Op: "cewd"})
	} else {
		ev = append(ev, simEvent{Op: "ceann"})
	}
	if sc.v2 {
		ev = append(ev, simEvent{Op: "delvrf"})
	} else {
		ev = append(ev, simEvent{Op: "addvrf"})
	}
	for _, m := range membs {
		// withdrawing a membership that is not held (spurious) only in the full alphabet
		if sc.full || sc.memb[fmt.Sprintf("%d|%d", m.rt, m.as)] {
			ev = append(ev, simEvent{Op: "rtcwd", A: m.rt, B: m.as})
		}
	}
	for _, k := range ks {
		if _, ok := sc.peRoutes[k]; ok || sc.full {
			ev = append(ev, simEvent{Op: "vpnwd", A: k})
		}
	}
	return ev
}

func (sc *c17Scenario) vpnUpdate(w *simWorld, k, set int, withdraw bool) *bgp.BGPMessage {
	nlri, _ := bgp.NewLabeledVPNIPAddrPrefix(netip.MustParsePrefix(fmt.Sprintf("10.30.%d.0/24", k)), *bgp.NewMPLSLabelStack(uint32(100 + k)),
		bgp.NewRouteDistinguisherTwoOctetAS(c17PeAS, 1))
	pn := []bgp.PathNLRI{{NLRI: nlri}}
	if withdraw {
		un, _ := bgp.NewPathAttributeMpUnreachNLRI(bgp.RF_IPv4_VPN, pn)
		return bgp.NewBGPUpdateMessage(nil, []bgp.PathAttributeInterface{un}, nil)
	}
	re, _ := bgp.NewPathAttributeMpReachNLRI(bgp.RF_IPv4_VPN, pn, w.bots[c17Pe].addr())
	attrs := []bgp.PathAttributeInterface{
		bgp.NewPathAttributeOrigin(0),
		bgp.NewPathAttributeAsPath([]bgp.AsPathParamInterface{bgp.NewAs4PathParam(bgp.BGP_ASPATH_ATTR_TYPE_SEQ, []uint32{c17PeAS})}),
		bgp.NewPathAttributeExtendedCommunities(c17RTSet(set)),
		re,
	}
	return bgp.NewBGPUpdateMessage(nil, attrs, nil)
}

func (sc *c17Scenario) rtcUpdate(w *simWorld, rt, asSel int, withdraw bool) *bgp.BGPMessage {
	as := uint32(c17AsA)
	if asSel == 1 {
		as = c17AsB
	}
	var nlri *bgp.RouteTargetMembershipNLRI
	if rt == 0 {
		nlri = bgp.NewRouteTargetMembershipNLRI(0, nil) // default (wildcard) membership, prefix length 0
	} else {
		nlri = bgp.NewRouteTargetMembershipNLRI(as, c17RT(rt))
	}
	pn := []bgp.PathNLRI{{NLRI: nlri}}
	if withdraw {
		un, _ := bgp.NewPathAttributeMpUnreachNLRI(bgp.RF_RTC_UC, pn)
		return bgp.NewBGPUpdateMessage(nil, []bgp.PathAttributeInterface{un}, nil)
	}
	re, _ := bgp.NewPathAttributeMpReachNLRI(bgp.RF_RTC_UC, pn, w.bots[c17Rtc].addr())
	attrs := []bgp.PathAttributeInterface{
		bgp.NewPathAttributeOrigin(0),
		bgp.NewPathAttributeAsPath(nil),
		bgp.NewPathAttributeLocalPref(100),
		re,
	}
	return bgp.NewBGPUpdateMessage(nil, attrs, nil)
}

func (sc *c17Scenario) vrfAPIPath() *apiutil.Path {
	nlri, _ := bgp.NewIPAddrPrefix(netip.MustParsePrefix(c17VrfPf))
	nh, _ := bgp.NewPathAttributeNextHop(netip.MustParseAddr("10.0.0.200"))
	return &apiutil.Path{Family: bgp.RF_IPv4_UC, Nlri: nlri, Attrs: []bgp.PathAttributeInterface{bgp.NewPathAttributeOrigin(0), nh}}
}

func (sc *c17Scenario) ceUpdate(w *simWorld, withdraw bool) *bgp.BGPMessage {
	nlri, _ := bgp.NewIPAddrPrefix(netip.MustParsePrefix(c17CePf))
	pn := []bgp.PathNLRI{{NLRI: nlri}}
	if withdraw {
		return bgp.NewBGPUpdateMessage(pn, nil, nil)
	}
	nh, _ := bgp.NewPathAttributeNextHop(w.bots[c17Ce].addr())
	attrs := []bgp.PathAttributeInterface{
		bgp.NewPathAttributeOrigin(0),
		bgp.NewPathAttributeAsPath([]bgp.AsPathParamInterface{bgp.NewAs4PathParam(bgp.BGP_ASPATH_ATTR_TYPE_SEQ, []uint32{c17CeAS})}),
		nh,
	}
	return bgp.NewBGPUpdateMessage(nil, attrs, pn)
}

func (sc *c17Scenario) Apply(w *simWorld, e simEvent) {
	sc.prevWant = sc.expectAll()
	for i := range sc.touched {
		sc.touched[i] = map[string]int{}
	}
	switch e.Op {
	case "vpnann":
		w.bots[c17Pe].sendMsg(sc.vpnUpdate(w, e.A, e.B, false))
		sc.peRoutes[e.A] = e.B
	case "vpnwd":
		w.bots[c17Pe].sendMsg(sc.vpnUpdate(w, e.A, 0, true))
		delete(sc.peRoutes, e.A)
	case "rtcann":
		w.bots[c17Rtc].sendMsg(sc.rtcUpdate(w, e.A, e.B, false))
		sc.memb[fmt.Sprintf("%d|%d", e.A, e.B)] = true
	case "rtcwd":
		w.bots[c17Rtc].sendMsg(sc.rtcUpdate(w, e.A, e.B, true))
		delete(sc.memb, fmt.Sprintf("%d|%d", e.A, e.B))
	case "addvrf":
		w.must(c17AddVrf(w, "v2", c17V2RD, 2, []bgp.ExtendedCommunityInterface{c17RT(1), c17RT(2)}, []bgp.ExtendedCommunityInterface{c17RT(2)}))
		sc.v2 = true
	case "delvrf":
		w.must(w.s.DeleteVrf(context.Background(), &api.DeleteVrfRequest{Name: "v2"}))
		sc.v2 = false
	case "vrfadd":
		_, err := w.s.AddPath(apiutil.AddPathRequest{VRFID: "v1", Paths: []*apiutil.Path{sc.vrfAPIPath()}})
		w.must(err)
		sc.vrfRoute = true
	case "vrfdel":
		w.must(w.s.DeletePath(apiutil.DeletePathRequest{VRFID: "v1", Paths: []*apiutil.Path{sc.vrfAPIPath()}}))
		sc.vrfRoute = false
	case "ceann":
		w.bots[c17Ce].sendMsg(sc.ceUpdate(w, false))
		sc.ceRoute = true
	case "cewd":
		w.bots[c17Ce].sendMsg(sc.ceUpdate(w, true))
		sc.ceRoute = false
	case "softin":
		// re-evaluates what the PE sent under the (unchanged) import policy: no expected view changes
		w.must(w.s.ResetPeer(context.Background(), &api.ResetPeerRequest{Address: w.bots[c17Pe].addr().String(), Soft: true, Direction: api.ResetPeerRequest_DIRECTION_IN}))
	default:
		panic("vrf: unknown event " + e.Op)
	}
	w.settle()
	w.advance(time.Second)
	sc.fold(w)
}

// ---- oracle ----

func (sc *c17Scenario) evName(last *simEvent) string {
	if last == nil {
		return "init"
	}
	if !sc.fineKeys {
		return last.Op
	}
	switch last.Op {
	case "vpnann":
		return fmt.Sprintf("vpnann(%d,%s)", last.A, c17RTSetNames[last.B])
	case "rtcann", "rtcwd":
		rt := []string{"default", "RT1", "RT2"}[last.A]
		return fmt.Sprintf("%s(%s,%s)", last.Op, rt, []string{"a", "b"}[last.B])
	}
	return last.Op
}

func (sc *c17Scenario) hard(w *simWorld, key, format string, a ...any) {
	sc.diverged = true
	w.violate(key, format, a...)
}

func c17KeysOfFamily(m map[string]c17Held, f bgp.Family) map[string]c17Held {
	out := map[string]c17Held{}
	for k, v := range m {
		if strings.HasPrefix(k, f.String()+"|") {
			out[k] = v
		}
	}
	return out
}

// c17SetDiff classifies have vs want.
func c17SetDiff(have, want map[string]bool, extraName, missingName string) (class, text string) {
	var extra, missing []string
	for k := range have {
		if !want[k] {
			extra = append(extra, k)
		}
	}
	for k := range want {
		if !have[k] {
			missing = append(missing, k)
		}
	}
	sort.Strings(extra)
	sort.Strings(missing)
	var cls []string
	if len(extra) > 0 {
		cls = append(cls, extraName)
	}
	if len(missing) > 0 {
		cls = append(cls, missingName)
	}
	return strings.Join(cls, "+"), fmt.Sprintf("extra=%v missing=%v", extra, missing)
}

func c17Keys(m map[string]c17Held) map[string]bool {
	out := map[string]bool{}
	for k := range m {
		out[k] = true
	}
	return out
}

// c17FreshExport: the daemon's own from-scratch export towards b in the current state, folded like a view
// (used only for the ATTRIBUTES of routes that the model and the view agree on).
func c17FreshExport(w *simWorld, b *simBot, p *peer) map[string]string {
	exp := map[string]string{}
	b.mu.Lock()
	opts := b.opts
	b.mu.Unlock()
	var fams []bgp.Family
	for _, f := range p.negotiatedRFList() {
		if f != bgp.RF_RTC_UC {
			fams = append(fams, f)
		}
	}
	for _, f := range p.toGlobalFamilies(fams) {
		for _, path := range w.s.globalRib.GetBestPathList(p.TableID(), p.AS(), []bgp.Family{f}) {
			out := w.s.filterpath(p, path, nil)
			if out == nil || out.IsWithdraw {
				continue
			}
			for _, m := range table.CreateUpdateMsgFromPaths([]*table.Path{out}, opts) {
				buf, err := m.Serialize(opts)
				if err != nil {
					continue
				}
				pm, err := bgp.ParseBGPMessage(buf, opts)
				if err != nil {
					continue
				}
				simFold(exp, pm)
			}
		}
	}
	return exp
}

func (sc *c17Scenario) Check(w *simWorld, last *simEvent) {
	ev := sc.evName(last)
	op := "init"
	if last != nil {
		op = last.Op
	}
	w.stat("ev-" + op)
	want := sc.expectAll()
	routes := sc.routes()
	names := []string{"pe", "rtc", "ce"}
	fams := []bgp.Family{bgp.RF_IPv4_VPN, bgp.RF_IPv4_VPN, bgp.RF_IPv4_UC}

	// sessions must be up: every oracle below is about established sessions
	for i, b := range w.bots {
		p := w.peer(b)
		if p == nil || p.State() != bgp.BGP_FSM_ESTABLISHED || !b.connected() {
			sc.hard(w, "C17:session-lost:"+names[i]+":after-"+ev, "the session with %s is no longer established after %s", names[i], ev)
			return
		}
		for _, rx := range b.rxAll() {
			if rx.Err != "" {
				sc.hard(w, "C17:bot-cannot-parse:"+names[i], "%s received a message it cannot parse: %s raw=%x", names[i], rx.Err, rx.Raw)
			}
		}
	}

	// (1) (2) (3): views against the model
	viewDiverged := make([]bool, len(w.bots))
	for i, b := range w.bots {
		have := c17KeysOfFamily(sc.held[i], fams[i])
		// ce and pe negotiate one family; anything else in their view is foreign
		for k := range sc.held[i] {
			if !strings.HasPrefix(k, fams[i].String()+"|") && !(i == c17Rtc && strings.HasPrefix(k, bgp.RF_RTC_UC.String()+"|")) {
				sc.hard(w, "C17:"+names[i]+"-view:foreign-family:after-"+ev, "%s holds %s", names[i], k)
			}
		}
		extraName, missingName := "ineligible-route-held", "eligible-route-missing"
		if cls, txt := c17SetDiff(c17Keys(have), c17Keys(want[i]), extraName, missingName); cls != "" {
			rts, def := sc.heldRTs()
			sc.hard(w, "C17:"+names[i]+"-view:"+cls+":after-"+ev,
				"after %s: %s holds %v but the reference model requires %v (%s). Model: VPN routes %+v; memberships held by rtc: RTs %v default=%v (%v); v2 exists=%v",
				ev, names[i], c17SortedKeys(have), c17SortedKeys(want[i]), txt, routes, c17SortedBoolKeys(rts), def, c17SortedBoolKeys(sc.memb), sc.v2)
			viewDiverged[i] = true
			continue
		}
		w.stat(names[i] + "-view-compared")
		if len(have) > 0 {
			w.stat(names[i] + "-holds-route")
		}
		if i == c17Rtc && len(have) == 0 && len(routes) > 0 {
			w.stat("rtc-holds-none-for-missing-membership")
		}
		if i == c17Rtc && len(have) > 0 && len(have) < len(routes) {
			w.stat("rtc-holds-strict-subset")
		}
		// RD / prefix are in the key; label and transitive route-target set per route
		fresh := c17FreshExport(w, b, w.peer(b))
		for k, hv := range have {
			wv := want[i][k]
			if i != c17Ce {
				if hv.labels != wv.labels {
					sc.hard(w, "C17:"+names[i]+"-view:label-differs:after-"+ev, "after %s: %s holds %s with label stack %s, expected %s", ev, names[i], k, hv.labels, wv.labels)
				}
				if hv.rts != wv.rts {
					sc.hard(w, "C17:"+names[i]+"-view:route-targets-differ:after-"+ev, "after %s: %s holds %s with transitive route targets [%s], expected [%s]", ev, names[i], k, hv.rts, wv.rts)
				}
			}
			if fv, ok := fresh[k]; ok {
				w.stat("attributes-compared")
				if fv != b.view[k] {
					sc.hard(w, "C17:"+names[i]+"-view:attributes-differ-from-fresh-export:after-"+ev, "after %s: %s holds %s as\n%s\nbut a from-scratch export gives\n%s", ev, names[i], k, b.view[k], fv)
				}
			} else {
				sc.hard(w, "C17:"+names[i]+"-view:steady-state-filter-rejects-eligible-route:after-"+ev, "after %s: %s correctly holds %s but the daemon's from-scratch export does not contain it (a soft reset would withdraw it)", ev, names[i], k)
			}
		}
	}

	// (3) global VPNv4 table == model, with RD / label / route targets
	sc.checkGlobalTable(w, ev, routes)
	// VRF RIBs (what ListPath(vrf) shows)
	sc.checkVrfRib(w, ev, "v1", routes, map[string]bool{c17ECHex(c17RT(1)): true})
	if sc.v2 {
		sc.checkVrfRib(w, ev, "v2", routes, map[string]bool{c17ECHex(c17RT(1)): true, c17ECHex(c17RT(2)): true})
	} else if _, ok := w.s.globalRib.GetVrf("v2"); ok {
		sc.hard(w, "C17:vrf-still-exists:after-"+ev, "v2 was deleted but still exists")
	}
	// (5) VPN path index
	sc.checkIndex(w, ev)

	// (4) exactly the needed UPDATEs: a membership / VRF change touches only prefixes whose expected state changed
	if last != nil {
		switch last.Op {
		case "rtcann", "rtcwd", "addvrf", "delvrf":
			for i := range w.bots {
				if viewDiverged[i] {
					continue // already reported as a divergence of this bot's view: one root cause, one key
				}
				var redundant []string
				for k := range sc.touched[i] {
					if !strings.HasPrefix(k, fams[i].String()+"|") {
						continue
					}
					pv, pok := sc.prevWant[i][k]
					nv, nok := want[i][k]
					if pok == nok && pv == nv {
						redundant = append(redundant, k)
					}
				}
				sort.Strings(redundant)
				w.stat("exactness-checked")
				if len(redundant) > 0 {
					// not a divergence: the views still agree with the model, exploration continues
					w.violate("C17:redundant-update:"+names[i]+":after-"+ev, "after %s: %s was sent an UPDATE for %v although the expected state of these routes did not change (memberships now %v)",
						ev, names[i], redundant, c17SortedBoolKeys(sc.memb))
				}
			}
		}
	}

	// informational: the daemon's own memberships follow the import targets of its VRFs
	wantM := map[string]bool{simRouteKey(bgp.RF_RTC_UC, bgp.NewRouteTargetMembershipNLRI(65000, c17RT(1)), 0): true}
	if sc.v2 {
		wantM[simRouteKey(bgp.RF_RTC_UC, bgp.NewRouteTargetMembershipNLRI(65000, c17RT(2)), 0)] = true
	}
	if cls, _ := c17SetDiff(c17Keys(c17KeysOfFamily(sc.held[c17Rtc], bgp.RF_RTC_UC)), wantM, "extra", "missing"); cls == "" {
		w.stat("info-own-memberships-match-vrf-imports")
	} else {
		w.stat("info-own-memberships-differ:" + cls)
	}
}

func c17SortedKeys(m map[string]c17Held) []string {
	ks := make([]string, 0, len(m))
	for k := range m {
		ks = append(ks, k)
	}
	sort.Strings(ks)
	return ks
}

func c17SortedBoolKeys(m map[string]bool) []string {
	ks := make([]string, 0, len(m))
	for k := range m {
		ks = append(ks, k)
	}
	sort.Strings(ks)
	return ks
}

func c17PathECs(p *table.Path) []string {
	var out []string
	for _, e := range p.GetExtCommunities() {
		out = append(out, c17ECHex(e))
	}
	return out
}

func c17VPNTable(w *simWorld) *table.Table {
	t, ok := w.s.globalRib.GetTable(bgp.RF_IPv4_VPN)
	if !ok {
		panic("c17: no VPNv4 table")
	}
	return t
}

func (sc *c17Scenario) checkGlobalTable(w *simWorld, ev string, routes []c17Route) {
	have := map[string]c17Held{}
	for _, d := range c17VPNTable(w).GetDestinations() {
		for _, p := range d.GetAllKnownPathList() {
			n, ok := p.GetNlri().(*bgp.LabeledVPNIPAddrPrefix)
			if !ok {
				continue
			}
			src := "local"
			if a := p.GetSource().Address; a.IsValid() {
				src = a.String()
			}
			k := fmt.Sprintf("%s:%s|%s", n.RD, n.Prefix, src)
			if _, dup := have[k]; dup {
				sc.hard(w, "C17:global-vpn-table:duplicate-path:after-"+ev, "two paths for %s", k)
			}
			have[k] = c17Held{labels: fmt.Sprint(n.Labels.Labels), rts: strings.Join(c17TransitiveRTs(c17PathECs(p)), ",")}
		}
	}
	want := map[string]c17Held{}
	srcAddr := map[string]string{"pe": "10.0.0.1", "ce": "10.0.0.3", "local": "local"}
	for _, r := range routes {
		want[fmt.Sprintf("%s:%s|%s", r.rd, r.prefix, srcAddr[r.src])] = c17WantOf(r)
	}
	w.stat("global-table-compared")
	if cls, txt := c17SetDiff(c17Keys(have), c17Keys(want), "unexpected-path", "path-missing"); cls != "" {
		sc.hard(w, "C17:global-vpn-table:"+cls+":after-"+ev, "after %s: the global VPNv4 table holds %v, the model requires %v (%s)", ev, c17SortedKeys(have), c17SortedKeys(want), txt)
		return
	}
	for k, hv := range have {
		if wv := want[k]; hv != wv {
			sc.hard(w, "C17:global-vpn-table:rd-label-or-route-targets-differ:after-"+ev, "after %s: global VPNv4 path %s has labels %s route targets [%s]; expected labels %s route targets [%s]", ev, k, hv.labels, hv.rts, wv.labels, wv.rts)
		}
		if strings.HasPrefix(k, c17V1RD+":") {
			w.stat("vrf-originated-route-in-global-table")
		}
	}
}

func (sc *c17Scenario) checkVrfRib(w *simWorld, ev, name string, routes []c17Route, importRTs map[string]bool) {
	rib, err := w.s.getVrfRib(name, bgp.RF_IPv4_UC, nil)
	if err != nil {
		sc.hard(w, "C17:vrf-rib:"+name+":unavailable:after-"+ev, "VRF RIB of %s: %v", name, err)
		return
	}
	have := map[string]bool{}
	for _, d := range rib.GetDestinations() {
		if len(d.GetAllKnownPathList()) > 0 {
			have[d.GetNlri().String()] = true
		}
	}
	want := map[string]bool{}
	for _, r := range routes {
		if r.importable(importRTs) {
			want[r.rd+":"+r.prefix] = true
		}
	}
	w.stat("vrf-rib-compared-" + name)
	if len(want) > 0 {
		w.stat("vrf-rib-nonempty-" + name)
	}
	if cls, txt := c17SetDiff(have, want, "non-importable-route-visible", "importable-route-not-visible"); cls != "" {
		sc.hard(w, "C17:vrf-rib:"+name+":"+cls+":after-"+ev, "after %s: VRF %s shows %v, importable per the model (transitive route target in the import set): %v (%s)", ev, name, c17SortedBoolKeys(have), c17SortedBoolKeys(want), txt)
	}
}

// checkIndex: GetPathsByRT(rt) == the best paths of the table that carry rt (the index tracks the best path
// per NLRI when ADD-PATH is not in use), and every indexed path is the table's current path object.
func (sc *c17Scenario) checkIndex(w *simWorld, ev string) {
	type q struct {
		name string
		rt   bgp.ExtendedCommunityInterface
	}
	qs := []q{{"RT1", c17RT(1)}, {"RT2", c17RT(2)}, {"RT3", c17RT(3)}, {"nt1", c17NT1()}}
	dests := c17VPNTable(w).GetDestinations()
	for _, x := range qs {
		h := c17ECHex(x.rt)
		scan := map[string]bool{}
		ptr := map[string]*table.Path{}
		for _, d := range dests {
			l := d.GetAllKnownPathList()
			if len(l) == 0 {
				continue
			}
			best := l[0]
			for _, e := range c17PathECs(best) {
				if e == h {
					k := best.GetNlri().String() + " " + simAttrCanon(best.GetPathAttrs(), nil)
					scan[k] = true
					ptr[k] = best
				}
			}
		}
		idx := map[string]bool{}
		stalePtr := false
		for _, p := range w.s.globalRib.GetPathsByRT(x.rt, []bgp.Family{bgp.RF_IPv4_VPN}) {
			k := p.GetNlri().String() + " " + simAttrCanon(p.GetPathAttrs(), nil)
			if idx[k] {
				sc.hard(w, "C17:vpn-index:duplicate-entry:after-"+ev, "GetPathsByRT(%s) returns %s twice", x.name, k)
			}
			idx[k] = true
			if tp, ok := ptr[k]; ok && tp != p {
				stalePtr = true
			}
		}
		w.stat("index-compared")
		if len(scan) > 0 {
			w.stat("index-nonempty")
		}
		if cls, txt := c17SetDiff(idx, scan, "index-has-path-not-in-table", "index-misses-table-path"); cls != "" {
			sc.hard(w, "C17:vpn-index:"+cls+":after-"+ev, "after %s: GetPathsByRT(%s) differs from a scan of the VPNv4 table for paths carrying %s: %s", ev, x.name, x.name, txt)
		} else if stalePtr {
			w.stat("info-index-holds-equal-but-different-path-object")
		}
	}
}

func (sc *c17Scenario) Key(w *simWorld) string {
	var sb strings.Builder
	fmt.Fprintf(&sb, "arg=%s pe=%v vrfRoute=%v ceRoute=%v memb=%v v2=%v diverged=%v\n", sc.arg, sc.peRoutes, sc.vrfRoute, sc.ceRoute, c17SortedBoolKeys(sc.memb), sc.v2, sc.diverged)
	// hidden daemon state with future effects: membership handler per peer, VRFs, the VPN index, deferral flag
	for _, b := range w.bots {
		p := w.peer(b)
		if p == nil {
			continue
		}
		fmt.Fprintf(&sb, "rtm %s: def=%v rt1=%v rt2=%v rt3=%v eorwait=%v\n", b.spec.Name, p.rtmHandler.HasDefaultRouteTarget(), p.rtmHandler.HasRouteTarget(c17RT(1)),
			p.rtmHandler.HasRouteTarget(c17RT(2)), p.rtmHandler.HasRouteTarget(c17RT(3)), p.fsm.rtcEORWait.Load())
	}
	vrfs := w.s.globalRib.GetAllVrfs()
	sort.Strings(vrfs)
	fmt.Fprintf(&sb, "vrfs=%v\n", vrfs)
	for _, rt := range []bgp.ExtendedCommunityInterface{c17RT(1), c17RT(2), c17RT(3), c17NT1()} {
		var l []string
		for _, p := range w.s.globalRib.GetPathsByRT(rt, []bgp.Family{bgp.RF_IPv4_VPN}) {
			l = append(l, p.GetNlri().String()+" "+simAttrCanon(p.GetPathAttrs(), nil))
		}
		sort.Strings(l)
		fmt.Fprintf(&sb, "idx %s=%v\n", c17ECHex(rt), l)
	}
	sb.WriteString(w.stateKey())
	return sb.String()
}

func TestVerif_C17_Sim(t *testing.T) {
	r := vr.Start(t, "C17", "sim")
	defer r.Finish()
	r.Rule = "explicit-state BFS over event histories {PE announces/withdraws VPNv4 route k with target set {RT1}|{RT2}|{RT1,RT2}|{RT3}|{non-transitive RT1 look-alike}; RTC peer announces/withdraws membership RT1|RT2|default with origin AS a|b (duplicates included); AddVrf/DeleteVrf v2; AddPath/DeletePath inside VRF v1; CE announces/withdraws a plain route} on the real daemon in virtual time, in lock-step with a set-based reference model (routes, memberships, VRFs); every quiescent state: RTC peer's / CE's / PE's accumulated views, global VPNv4 table, VRF RIBs and the VPN path index are compared with the model; non-trivial = distinct (model state, canonical daemon state)"
	r.Assumptions = append(r.Assumptions,
		"pe is an eBGP peer (AS 65001), rtc an iBGP peer (AS 65000), ce an eBGP peer (AS 65003) attached to VRF v1; one source per (RD, prefix), so 'best VPN route' is the only route",
		"steady state: the initial RTC End-of-RIB exchange is completed in Setup (arg eor: deferral-time 30 s configured, the bot sends the RTC End-of-RIB, the timer runs out) or no deferral is configured (arg d0)",
		"no Zebra: the VRF label is 0; memberships carry no ADD-PATH id")
	if r.ReplayPath() != "" {
		var rp simReplay
		if err := r.LoadReplay(&rp); err != nil {
			t.Fatal(err)
		}
		simReplayOne(t, r, rp)
		return
	}
	type run struct {
		arg      string
		depth    int
		budget   time.Duration
		maxLevel int
	}
	// level sizes (measured): trimmed alphabet 11 / 129 / 1174 / 9022 / ~75k; full alphabet 25 / ~600 / ~12k.
	// The wall budget is only tested between levels, so the level-size cap is what bounds the cost.
	runs := []run{{"eor", 4, 150 * time.Second, 20000}, {"d0", 3, 30 * time.Second, 20000}, {"eor;full", 2, 30 * time.Second, 20000}, {"d0;pol", 5, 60 * time.Second, 20000}}
	if vr.Thorough() {
		runs = []run{{"eor", 6, 8 * time.Minute, 100000}, {"d0", 6, 2 * time.Minute, 12000}, {"eor;full", 6, 3 * time.Minute, 30000}, {"d0;pol", 8, 3 * time.Minute, 30000}}
	}
	r.Bounds["vrf[d0;pol].alphabet"] = "sharp driver: global import policy 'add community, accept' (Loc-RIB holds clones), events {membership RT1 announce/withdraw, PE announces route 1 with {RT1} | {RT1,RT2}, withdraws it, soft reset (in) of the PE}"
	r.Bounds["vpn_prefixes"] = 2
	r.Bounds["rt_sets"] = fmt.Sprint(c17RTSetNames)
	r.Bounds["memberships"] = "RT1|RT2|default x origin AS a; RT1 x origin AS b (full alphabet: also RT2 x b, spurious withdrawals, all 5 target sets for both prefixes)"
	r.Bounds["vrfs"] = "v1 import{RT1} export{RT1} (fixed, CE attached); v2 import{RT1,RT2} export{RT2} (added/deleted)"
	for _, x := range runs {
		r.Bounds["vrf["+x.arg+"].limits"] = fmt.Sprintf("depth<=%d, wall budget %s (tested between levels), level size<=%d transitions", x.depth, x.budget, x.maxLevel)
	}
	for _, x := range runs {
		simExplore(t, r, simExploreCfg{Scenario: "vrf", Arg: x.arg, Depth: x.depth, Budget: x.budget, MaxLevel: x.maxLevel})
	}
	o := r.Outcomes
	if o["rtc-holds-route"] == 0 || o["rtc-holds-none-for-missing-membership"] == 0 || o["ce-holds-route"] == 0 || o["ev-delvrf"] == 0 ||
		o["vrf-originated-route-in-global-table"] == 0 || o["index-nonempty"] == 0 {
		t.Fatalf("ENGINE-ERROR vacuous exploration: rtc-holds-route=%d rtc-holds-none-for-missing-membership=%d ce-holds-route=%d delvrf=%d vrf-originated=%d index-nonempty=%d",
			o["rtc-holds-route"], o["rtc-holds-none-for-missing-membership"], o["ce-holds-route"], o["ev-delvrf"], o["vrf-originated-route-in-global-table"], o["index-nonempty"])
	}
	simConfirm(t, r, 5)
}
