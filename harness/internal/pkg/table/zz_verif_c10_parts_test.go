package table

// C10 — the four parts of the check: single-statement programs, control-flow skeletons,
// non-interference (aliasing) and configuration read-back. E-SEQ: deterministic exhaustive enumeration.

import (
	"bytes"
	"encoding/json"
	"fmt"
	"reflect"
	"regexp"
	"sort"
	"strings"
	"testing"

	"github.com/osrg/gobgp/v4/api"
	"github.com/osrg/gobgp/v4/internal/verif/vr"
	"github.com/osrg/gobgp/v4/pkg/config/oc"
)

// ---------------------------------------------------------------------------------------------------
// shared enumeration helpers

// c10Combos: all subsets of size <= 2 of the atoms in which no two atoms have the same kind (a
// statement holds at most one condition / action per kind), simplest first.
func c10Combos(n int, kind func(i int) string) [][]int {
	out := [][]int{{}}
	for i := 0; i < n; i++ {
		out = append(out, []int{i})
	}
	for i := 0; i < n; i++ {
		for j := i + 1; j < n; j++ {
			if kind(i) != kind(j) {
				out = append(out, []int{i, j})
			}
		}
	}
	return out
}

var c10Disps = []string{"accept", "reject", "none"}

// c10InTier: which (number of conditions, number of actions) shapes a tier enumerates.
// quick: <=2 conditions without action, and <=1 condition with <=2 actions; thorough: <=2 x <=2.
func c10InTier(nc, na int) bool {
	return vr.Thorough() || na == 0 || nc <= 1
}

type c10Target struct {
	ID  string
	Dir PolicyDirection
	Def string
}

// Two assignment ids so that both directions meet both defaults.
var c10Targets = []c10Target{
	{"A", POLICY_DIRECTION_IMPORT, "accept"},
	{"A", POLICY_DIRECTION_EXPORT, "reject"},
	{"B", POLICY_DIRECTION_IMPORT, "reject"},
	{"B", POLICY_DIRECTION_EXPORT, "accept"},
}

func c10Assigns(names []string) []c10Assign {
	return []c10Assign{
		{ID: "A", Import: names, ImportDf: "accept", Export: names, ExportDf: "reject"},
		{ID: "B", Import: names, ImportDf: "reject", Export: names, ExportDf: "accept"},
	}
}

var c10CondTypes = map[string]ConditionType{
	"prefix": CONDITION_PREFIX, "neighbor": CONDITION_NEIGHBOR, "nexthop": CONDITION_NEXT_HOP, "aspath": CONDITION_AS_PATH,
	"comm": CONDITION_COMMUNITY, "ext": CONDITION_EXT_COMMUNITY, "large": CONDITION_LARGE_COMMUNITY, "aslen": CONDITION_AS_PATH_LENGTH,
	"commcount": CONDITION_COMMUNITY_COUNT, "origin": CONDITION_ORIGIN, "rtype": CONDITION_ROUTE_TYPE, "rpki": CONDITION_RPKI,
	"afisafi": CONDITION_AFI_SAFI_IN, "lpeq": CONDITION_LOCAL_PREF_EQ, "medeq": CONDITION_MED_EQ,
}

// c10CondTag: the feature of (condition, route, context) that distinguishes root causes inside one kind.
func c10CondTag(c c10Cond, el c10Elem) string {
	switch c.Kind {
	case "prefix":
		if len(c.Pfx) > 0 && strings.Contains(c.Pfx[0].P, ":") != el.R.V6 {
			return "route-of-other-family"
		}
		return "same-family"
	case "neighbor":
		if len(c.Members) == 0 {
			return "empty-set"
		}
		if el.R.Src == "" && el.E.Peer == "" {
			return "route-without-neighbor"
		}
		return "with-neighbor"
	case "aspath":
		for _, s := range el.R.Path {
			if s.T != c10SegSeq {
				return "path-with-non-sequence-segment"
			}
		}
		return "plain-path"
	}
	return ""
}

// the action (if any) of the statement that governs a projected field
func c10Governing(st c10Stmt, field string) string {
	k := map[string]string{"comm": "comm", "ext": "ext", "ext6": "ext", "large": "large", "med": "med", "localpref": "lp", "origin": "origin", "path": "prepend", "nexthop": "nh"}[field]
	for i := len(st.Acts) - 1; i >= 0; i-- {
		if st.Acts[i].Kind == k {
			return st.Acts[i].class()
		}
	}
	var cl []string
	for _, a := range st.Acts {
		cl = append(cl, a.class())
	}
	return "collateral-of(" + strings.Join(cl, "+") + ")"
}

// ---------------------------------------------------------------------------------------------------
// part "single"

type c10SingleCase struct {
	Stmt  c10Stmt `json:"stmt"`
	Elem  c10Elem `json:"elem"`
	Spare int     `json:"spare"`
}

// c10CheckSingle evaluates one single-statement program (already built as rp) on one universe element:
// first every condition object of the real statement against the model's verdict for that condition
// (white-box: attributes a disagreement to the condition that causes it), then ApplyPolicy under every
// (id, direction, default) target. Returns whether the statement applies according to the model.
func c10CheckSingle(c *vr.Report, ref *c10Ref, st c10Stmt, rp *RoutingPolicy, el c10Elem, path *Path, opts *PolicyOptions, spare int, targets []c10Target) bool {
	prog := c10Prog{Policies: [][]c10Stmt{{st}}}
	want := ref.run(prog, "accept", el.R, el.E)
	applied := want.Applied[0]
	cs := c10SingleCase{st, el, spare}
	pol := rp.policyMap["p0"]
	if pol == nil || len(pol.Statements) != 1 || len(pol.Statements[0].Conditions) != len(st.Conds) {
		c.Violationf("C10:single:statement-shape", cs, "the built policy does not hold one statement with %d conditions; statement=%s", len(st.Conds), c10StmtString(st))
		return applied
	}
	condOK := true
	for _, cd := range st.Conds {
		mv, _ := ref.evalCond(cd, el.R, el.E)
		for _, ic := range pol.Statements[0].Conditions {
			if ic.Type() != c10CondTypes[cd.Kind] {
				continue
			}
			c.Eval()
			if mv {
				c.Outcome("condition " + cd.Kind + ": holds")
			} else {
				c.Outcome("condition " + cd.Kind + ": does not hold")
			}
			iv, pan := c10EvalCond(ic, path, opts)
			if pan != "" {
				condOK = false
				c.Violationf("C10:single:panic:"+c10PanicKey(pan), cs, "condition %s panicked: %s; route=%s env=%s", cd.id(), pan, el.R.Name, el.E.Name)
			} else if iv != mv {
				condOK = false
				c.Violationf("C10:condition:"+c10CondKey(cd, el), cs, "condition %s: implementation=%v model=%v; route=%+v env=%+v", cd.id(), iv, mv, el.R, el.E)
			}
		}
	}
	if !condOK {
		return applied // the verdict and attributes below would only repeat this disagreement
	}
	wflat := c10Flatten(want.Out)
	if applied && len(st.Acts) > 0 {
		changed := c10FlatDiff(wflat, c10Flatten(el.R), nil)
		for _, a := range st.Acts {
			eff := "no effect on this route"
			for _, f := range changed {
				if c10Governing(c10Stmt{Acts: []c10Act{a}}, f) == a.class() {
					eff = "changes the route"
				}
			}
			c.Outcome("action " + a.class() + ": " + eff)
		}
	}
	for _, tg := range targets {
		c.Eval()
		wantAccept := want.Accept
		if want.Decided == "default" {
			wantAccept = tg.Def == "accept"
		}
		got, pan := c10Apply(rp, tg.ID, tg.Dir, path, opts)
		if pan != "" {
			c.Violationf("C10:single:panic:"+c10PanicKey(pan), cs, "ApplyPolicy panicked: %s; statement=%s route=%s env=%s", pan, c10StmtString(st), el.R.Name, el.E.Name)
			continue
		}
		if (got != nil) != wantAccept {
			c.Violationf(fmt.Sprintf("C10:single:verdict:applied=%v:disp=%s:default=%s", applied, st.Disp, tg.Def), cs,
				"verdict for (%s,%s,default=%s): implementation accept=%v, model accept=%v (statement applies: %v); statement=%s route=%+v env=%+v",
				tg.ID, tg.Dir, tg.Def, got != nil, wantAccept, applied, c10StmtString(st), el.R, el.E)
			continue
		}
		c.Outcome(fmt.Sprintf("verdict: accept=%v decided by %s", wantAccept, want.Decided))
		if got == nil {
			continue
		}
		gflat := c10Flatten(c10Project(got))
		for _, f := range c10FlatDiff(gflat, wflat, want.Unspec) {
			c.Violationf("C10:attr:"+f+":"+c10Governing(st, f), cs,
				"resulting %s differs for (%s,%s): implementation=%v model=%v; statement=%s route=%+v env=%+v", f, tg.ID, tg.Dir, gflat, wflat, c10StmtString(st), el.R, el.E)
		}
	}
	return applied
}

func c10EvalCond(ic Condition, p *Path, o *PolicyOptions) (v bool, panicked string) {
	defer func() {
		if x := recover(); x != nil {
			panicked = fmt.Sprintf("%s: %v", c10PanicSite(), x)
		}
	}()
	return ic.Evaluate(p, o), ""
}

var c10ShortcutForm = regexp.MustCompile(`^(\^|_)[0-9]+(_|\$)$`)

func c10PanicKey(pan string) string {
	el := strings.SplitN(pan, ":", 3)
	if len(el) < 2 {
		return pan
	}
	return el[0] + ":" + el[1]
}

// c10CondKey: stable signature of a condition disagreement (kind, match option where it is part of
// the cause, and the route feature that triggers it).
func c10CondKey(cd c10Cond, el c10Elem) string {
	switch cd.Kind {
	case "aspath":
		form := "regexp"
		for _, m := range cd.Members {
			if c10ShortcutForm.MatchString(m) {
				form = "single-as-shortcut"
			}
		}
		return "aspath:" + form + ":" + c10CondTag(cd, el)
	case "prefix", "neighbor", "comm", "ext", "large":
		return cd.Kind + ":" + cd.Opt + ":" + c10CondTag(cd, el)
	}
	return cd.Kind + ":" + c10CondTag(cd, el)
}

func c10StmtString(st c10Stmt) string {
	var p []string
	for _, c := range st.Conds {
		p = append(p, c.id())
	}
	s := "if[" + strings.Join(p, " & ") + "]"
	p = nil
	for _, a := range st.Acts {
		p = append(p, a.id())
	}
	return s + " do[" + strings.Join(p, ", ") + "] " + st.Disp
}

type c10Stored struct {
	el    c10Elem
	path  *Path
	opts  *PolicyOptions
	snap  []byte
	spare int
	attrs []any // identity of the attribute objects of the stored path (cheap per-program check)
}

func c10NewStored(el c10Elem, spare int) *c10Stored {
	s := &c10Stored{el: el, opts: c10Options(el.E), spare: spare}
	s.rebuild()
	return s
}

func (s *c10Stored) rebuild() {
	s.path = c10MakePath(s.el.R, s.spare)
	s.snap = c10Snapshot(s.path)
	s.attrs = s.attrs[:0]
	for _, a := range s.path.pathAttrs {
		s.attrs = append(s.attrs, a)
	}
}

// touched: did an evaluation replace / add / delete attribute objects of the stored path itself?
// (cheap; content changes inside an attribute object are found by the periodic full snapshot)
func (s *c10Stored) touched() bool {
	if len(s.path.pathAttrs) != len(s.attrs) || len(s.path.dels) != 0 || s.path.parent != nil {
		return true
	}
	for i, a := range s.path.pathAttrs {
		if a != s.attrs[i] {
			return true
		}
	}
	return false
}

func c10StoreUniverse(spare int) []*c10Stored {
	var l []*c10Stored
	for _, el := range c10Universe() {
		l = append(l, c10NewStored(el, spare))
	}
	return l
}

// c10QuickVerifyStored runs after every program: a stored route whose attribute objects were touched is
// reported and rebuilt, so that one defect cannot snowball through the following programs.
func c10QuickVerifyStored(c *vr.Report, part string, st []*c10Stored, replay any, what string) {
	for _, s := range st {
		if s.touched() {
			c.Violationf("C10:"+part+":stored-route-changed-by-evaluation", replay, "the stored route %s was modified in place by evaluating %s", s.el.R.Name, what)
			s.rebuild()
		}
	}
}

// c10VerifyStored: the stored routes were shared by every evaluation of this worker; none may have changed.
func c10VerifyStored(c *vr.Report, part string, st []*c10Stored) {
	for _, s := range st {
		if !bytes.Equal(c10Snapshot(s.path), s.snap) {
			c.Violationf("C10:"+part+":stored-route-changed-by-evaluation", s.el, "the stored route %s serialises differently after policy evaluations", s.el.R.Name)
			s.rebuild()
		}
	}
}

// sanity of the harness itself: the stored path projects to the flat route it was built from.
func c10VerifyConstruction(t *testing.T, st []*c10Stored) {
	for _, s := range st {
		g, w := c10Flatten(c10Project(s.path)), c10Flatten(s.el.R)
		if d := c10FlatDiff(g, w, nil); len(d) > 0 {
			t.Fatalf("ENGINE-ERROR route construction: %s projects to %v, built from %v (fields %v)", s.el.R.Name, g, w, d)
		}
	}
}

func TestVerif_C10_Single(t *testing.T) {
	r := vr.Start(t, "C10", "single")
	defer r.Finish()
	r.Rule = "every single-statement program (quick: <=2 conditions without action and <=1 condition with <=2 actions; thorough: <=2 conditions x <=2 actions; distinct kinds; x disposition) built through oc config -> RoutingPolicy.Reset; on every (route, peer context) of the universe each real condition object is compared with the model, then ApplyPolicy under (direction, default) targets: verdict and projected attributes compared with the reference interpreter; non-trivial = distinct program whose statement discriminates between universe elements, or applies to all of them and carries an action"
	ref := newC10Ref()
	if r.ReplayPath() != "" {
		var cs c10SingleCase
		if err := r.LoadReplay(&cs); err != nil {
			t.Fatal(err)
		}
		rp, err := c10Build(c10Config(c10Prog{Policies: [][]c10Stmt{{cs.Stmt}}}), c10Assigns([]string{"p0"}))
		if err != nil {
			t.Fatalf("ENGINE-ERROR build: %v", err)
		}
		if c10CheckSingle(r, ref, cs.Stmt, rp, cs.Elem, c10MakePath(cs.Elem.R, cs.Spare), c10Options(cs.Elem.E), cs.Spare, c10Targets) {
			r.NT("replay")
		}
		return
	}
	conds, acts := c10CondAtoms(), c10ActAtoms()
	cc := c10Combos(len(conds), func(i int) string { return conds[i].Kind })
	ac := c10Combos(len(acts), func(i int) string { return acts[i].Kind })
	maxSum := 4
	targets := c10Targets[:2]
	if vr.Thorough() {
		targets = c10Targets
	}
	uni := c10Universe()
	r.Bounds["condition_atoms"] = len(conds)
	r.Bounds["action_atoms"] = len(acts)
	r.Bounds["condition_combinations(<=2,distinct kinds)"] = len(cc)
	r.Bounds["action_combinations(<=2,distinct kinds)"] = len(ac)
	r.Bounds["program_shapes"] = map[bool]string{false: "<=2 conditions x 0 actions, <=1 condition x <=2 actions", true: "<=2 conditions x <=2 actions"}[vr.Thorough()]
	r.Bounds["dispositions"] = 3
	r.Bounds["universe(route x context)"] = len(uni)
	var tn []string
	for _, tg := range targets {
		tn = append(tn, fmt.Sprintf("%s/default-%s", tg.Dir, tg.Def))
	}
	r.Bounds["targets(direction/default)"] = tn
	r.Bounds["targets_for_programs_of_size_4"] = "import/default-accept, export/default-reject"
	c10VerifyConstruction(t, c10StoreUniverse(0))
	c10VerifyConstruction(t, c10StoreUniverse(3))
	W := vr.Workers()
	var programs int64
	// pass 0 (sequential, simplest first so that the recorded counterexamples are minimal): programs with
	// conditions+actions <= 2; pass 1 (parallel): the rest.
	run := func(c *vr.Report, pass, w int) {
		lref := newC10Ref()
		stored := c10StoreUniverse(0)
		n := 0
		for size := 0; size <= maxSum; size++ {
			if (pass == 0) != (size <= 2) {
				continue
			}
			for ci := range cc {
				for ai := range ac {
					if len(cc[ci])+len(ac[ai]) != size || !c10InTier(len(cc[ci]), len(ac[ai])) {
						continue
					}
					for _, disp := range c10Disps {
						n++
						if pass == 1 && n%W != w {
							continue
						}
						if w == 0 {
							programs++
						}
						st := c10Stmt{Disp: disp}
						for _, i := range cc[ci] {
							st.Conds = append(st.Conds, conds[i])
						}
						for _, i := range ac[ai] {
							st.Acts = append(st.Acts, acts[i])
						}
						rp, err := c10Build(c10Config(c10Prog{Policies: [][]c10Stmt{{st}}}), c10Assigns([]string{"p0"}))
						if err != nil {
							c.Violationf("C10:single:config-rejected:"+err.Error(), c10SingleCase{Stmt: st}, "configuration rejected: %v; statement=%s", err, c10StmtString(st))
							continue
						}
						nApplied := 0
						for _, s := range stored {
							tg := targets
							if size >= 4 {
								tg = c10Targets[:2] // thorough: the largest programs meet each direction with one default
							}
							if c10CheckSingle(c, lref, st, rp, s.el, s.path, s.opts, 0, tg) {
								nApplied++
							}
						}
						c10QuickVerifyStored(c, "single", stored, c10SingleCase{Stmt: st, Elem: stored[0].el}, c10StmtString(st))
						id := fmt.Sprintf("%d/%d", pass, n)
						switch {
						case nApplied == 0:
							c.Outcome("program: statement applies to no universe element")
						case nApplied == len(stored):
							c.Outcome("program: statement applies to every universe element")
							if len(st.Acts) > 0 {
								c.NT(id)
							}
						default:
							c.Outcome("program: statement discriminates universe elements")
							c.NT(id)
						}
						c.Outcome("disposition:" + disp)
						if c.WantSample() && n%50021 == 7 {
							c.Sample(map[string]any{"statement": c10StmtString(st), "applies_to": nApplied, "of": len(stored)})
						}
						if n%(W*512) == w {
							c10VerifyStored(c, "single", stored)
						}
					}
				}
			}
		}
		c10VerifyStored(c, "single", stored)
	}
	run(r, 0, 0)
	p0 := programs
	r.Parallel(W, func(w int, c *vr.Report) { run(c, 1, w) })
	// programs of pass 1 were counted by worker 0 only (every W-th); recompute the exact number
	programs = 0
	for ci := range cc {
		for ai := range ac {
			if c10InTier(len(cc[ci]), len(ac[ai])) {
				programs += 3
			}
		}
	}
	r.Bounds["programs"] = programs
	r.Extra["programs_in_sequential_minimality_pass"] = p0
}

// ---------------------------------------------------------------------------------------------------
// part "skeleton"

type c10SkelCase struct {
	Prog  c10Prog `json:"prog"`
	Route string  `json:"route"`
	Mode  string  `json:"mode"`
}

func c10SkelAlphabet() (conds []c10Cond, acts [][]c10Act) {
	conds = []c10Cond{
		{Kind: "prefix", Opt: "any", Set: "ps-m", Pfx: []c10PfxEnt{{"10.1.0.0/16", 16, 32}}},   // matches both skeleton routes
		{Kind: "prefix", Opt: "any", Set: "ps-x", Pfx: []c10PfxEnt{{"172.16.0.0/12", 12, 32}}}, // matches neither
		{Kind: "comm", Opt: "any", Set: "cs-f", Members: []string{"65000:1"}},                  // true only after the add below
	}
	acts = [][]c10Act{
		nil,
		{{Kind: "comm", Opt: "add", Members: []string{"65000:1"}}},
		{{Kind: "med", Str: "+10"}},
		{{Kind: "prepend", Str: "65000", N: 1}},
		{{Kind: "large", Opt: "add", Members: []string{"65000:1:1"}}},
		{{Kind: "comm", Opt: "remove", Members: []string{"^65000:.*$"}}},
		{{Kind: "med", Str: "5"}},
	}
	return
}

func c10ProgString(p c10Prog) string {
	var ps []string
	for _, pol := range p.Policies {
		var ss []string
		for _, s := range pol {
			ss = append(ss, c10StmtString(s))
		}
		ps = append(ps, "{"+strings.Join(ss, "; ")+"}")
	}
	return strings.Join(ps, " ")
}

func c10PolicyNames(p c10Prog) []string {
	var n []string
	for i := range p.Policies {
		n = append(n, fmt.Sprintf("p%d", i))
	}
	return n
}

func c10CheckSkeleton(c *vr.Report, ref *c10Ref, prog c10Prog, rp *RoutingPolicy, mode string, s *c10Stored) (decidedBy string, nApplied int) {
	cs := c10SkelCase{prog, s.el.R.Name, mode}
	want := ref.run(prog, "accept", s.el.R, s.el.E)
	wflat := c10Flatten(want.Out)
	for _, a := range want.Applied {
		if a {
			nApplied++
		}
	}
	for _, tg := range c10Targets {
		c.Eval()
		wantAccept := want.Accept
		if want.Decided == "default" {
			wantAccept = tg.Def == "accept"
		}
		got, pan := c10Apply(rp, tg.ID, tg.Dir, s.path, s.opts)
		if pan != "" {
			c.Violationf("C10:skeleton:panic:"+strings.SplitN(pan, ":", 3)[0]+":"+strings.SplitN(pan, ":", 3)[1], cs, "ApplyPolicy panicked: %s; program=%s", pan, c10ProgString(prog))
			continue
		}
		if (got != nil) != wantAccept {
			c.Violationf("C10:skeleton:verdict:decided-by-"+want.Decided+":"+mode, cs, "verdict for (%s,%s,default=%s): implementation accept=%v model accept=%v; program=%s route=%s",
				tg.ID, tg.Dir, tg.Def, got != nil, wantAccept, c10ProgString(prog), s.el.R.Name)
			continue
		}
		if got == nil {
			continue
		}
		gflat := c10Flatten(c10Project(got))
		for _, f := range c10FlatDiff(gflat, wflat, want.Unspec) {
			c.Violationf("C10:skeleton:attr:"+f+":"+mode, cs, "resulting %s differs for (%s,%s): implementation=%v model=%v; program=%s route=%s",
				f, tg.ID, tg.Dir, gflat, wflat, c10ProgString(prog), s.el.R.Name)
		}
	}
	return want.Decided, nApplied
}

// c10ReadbackProgram: policies, statement order and both assignments read back as configured.
func c10ReadbackProgram(c *vr.Report, rp *RoutingPolicy, cfg oc.RoutingPolicy, prog c10Prog, mode string) {
	cs := c10SkelCase{Prog: prog, Mode: mode}
	got := rp.GetPolicy("")
	if len(got) != len(cfg.PolicyDefinitions) {
		c.Violationf("C10:skeleton:readback:policy-count", cs, "GetPolicy returns %d policies, %d configured; program=%s", len(got), len(cfg.PolicyDefinitions), c10ProgString(prog))
		return
	}
	for i, pd := range cfg.PolicyDefinitions {
		if got[i].Name != pd.Name || len(got[i].Statements) != len(pd.Statements) {
			c.Violationf("C10:skeleton:readback:policy-shape", cs, "policy %d reads back as %s with %d statements, configured %s with %d; program=%s", i, got[i].Name, len(got[i].Statements), pd.Name, len(pd.Statements), c10ProgString(prog))
			continue
		}
		for j := range pd.Statements {
			for _, d := range c10StatementDiff(got[i].Statements[j], pd.Statements[j]) {
				c.Violationf("C10:skeleton:readback:"+d.field, cs, "statement %s field %s reads back as %s, configured %s", pd.Statements[j].Name, d.field, d.got, d.want)
			}
		}
	}
	for _, tg := range c10Targets {
		def, pols, err := rp.GetPolicyAssignment(tg.ID, tg.Dir)
		var names []string
		for _, p := range pols {
			names = append(names, p.Name)
		}
		wantDef := ROUTE_TYPE_ACCEPT
		if tg.Def == "reject" {
			wantDef = ROUTE_TYPE_REJECT
		}
		if err != nil || def != wantDef || fmt.Sprint(names) != fmt.Sprint(c10PolicyNames(prog)) {
			c.Violationf("C10:skeleton:readback:assignment", cs, "assignment (%s,%s) reads back default=%s policies=%v err=%v; configured default=%s policies=%v", tg.ID, tg.Dir, def, names, err, tg.Def, c10PolicyNames(prog))
		}
		a := NewAPIPolicyAssignmentFromTableStruct(&PolicyAssignment{Name: tg.ID, Type: tg.Dir, Policies: pols, Default: def})
		wantDir, wantAct := api.PolicyDirection_POLICY_DIRECTION_IMPORT, api.RouteAction_ROUTE_ACTION_ACCEPT
		if tg.Dir == POLICY_DIRECTION_EXPORT {
			wantDir = api.PolicyDirection_POLICY_DIRECTION_EXPORT
		}
		if tg.Def == "reject" {
			wantAct = api.RouteAction_ROUTE_ACTION_REJECT
		}
		var anames []string
		for _, p := range a.Policies {
			anames = append(anames, p.Name)
		}
		if a.Name != tg.ID || a.Direction != wantDir || a.DefaultAction != wantAct || fmt.Sprint(anames) != fmt.Sprint(c10PolicyNames(prog)) {
			c.Violationf("C10:skeleton:readback:api-assignment", cs, "API assignment (%s,%s): %v", tg.ID, tg.Dir, a)
		}
	}
}

func TestVerif_C10_Skeleton(t *testing.T) {
	r := vr.Start(t, "C10", "skeleton")
	defer r.Finish()
	r.Rule = "every program of <=K statements split over <=2 policies; each statement = (condition in {prefix-set that matches, prefix-set that does not, community-set that only an earlier add makes true}) x (7 accumulating action variants incl. none) x disposition(3); built through Reset and through the incremental Add* API; evaluated on 2 routes x (import,export) x default(accept,reject) against the reference interpreter; policies/assignments read back; non-trivial = distinct (program, route) in which at least two statements applied"
	ref := newC10Ref()
	routes := map[string]c10Route{}
	for _, rt := range c10Routes() {
		routes[rt.Name] = rt
	}
	mk := func(name string) *c10Stored {
		return c10NewStored(c10Elem{routes[name], c10Envs()[0]}, 0)
	}
	build := func(mode string, cfg oc.RoutingPolicy, as []c10Assign) (*RoutingPolicy, error) {
		if mode == "incremental" {
			return c10BuildIncremental(cfg, as)
		}
		return c10Build(cfg, as)
	}
	if r.ReplayPath() != "" {
		var cs c10SkelCase
		if err := r.LoadReplay(&cs); err != nil {
			t.Fatal(err)
		}
		cfg := c10Config(cs.Prog)
		rp, err := build(cs.Mode, cfg, c10Assigns(c10PolicyNames(cs.Prog)))
		if err != nil {
			t.Fatalf("ENGINE-ERROR build: %v", err)
		}
		if cs.Route == "" {
			c10ReadbackProgram(r, rp, cfg, cs.Prog, cs.Mode)
			cs.Route = "R1"
		}
		c10CheckSkeleton(r, ref, cs.Prog, rp, cs.Mode, mk(cs.Route))
		r.NT("replay")
		return
	}
	conds, acts := c10SkelAlphabet()
	V := len(conds) * len(acts) * 3
	K, KInc := 3, 2
	if vr.Thorough() {
		K, KInc = 4, 3
	}
	r.Bounds["max_statements"] = K
	r.Bounds["max_statements_incremental_api"] = KInc
	r.Bounds["max_policies"] = 2
	r.Bounds["statement_variants"] = V
	r.Bounds["statement_variants_in_4_statement_programs"] = 2 * len(acts) * 3
	r.Bounds["routes"] = 2
	r.Bounds["targets(direction x default)"] = len(c10Targets)
	stmtOf := func(v int) c10Stmt {
		d := v % 3
		v /= 3
		a := v % len(acts)
		v /= len(acts)
		return c10Stmt{Conds: []c10Cond{conds[v]}, Acts: acts[a], Disp: c10Disps[d]}
	}
	W := vr.Workers()
	var programs int64
	for k := 1; k <= K; k++ {
		V := V
		if k >= 4 {
			V = 2 * len(acts) * 3 // 4-statement programs: the two prefix-set conditions only
		}
		total := 1
		for i := 0; i < k; i++ {
			total *= V
		}
		programs += int64(total) * int64(k)
		r.Parallel(W, func(w int, c *vr.Report) {
			lref := newC10Ref()
			stored := []*c10Stored{mk("R1"), mk("R2")}
			for idx := w; idx < total; idx += W {
				stmts := make([]c10Stmt, k)
				x := idx
				for i := 0; i < k; i++ {
					stmts[i] = stmtOf(x % V)
					x /= V
				}
				for split := 1; split <= k; split++ {
					prog := c10Prog{Policies: [][]c10Stmt{stmts[:split]}}
					if split < k {
						prog.Policies = append(prog.Policies, stmts[split:])
					}
					cfg := c10Config(prog)
					for _, mode := range []string{"reset", "incremental"} {
						if mode == "incremental" && k > KInc {
							continue
						}
						rp, err := build(mode, cfg, c10Assigns(c10PolicyNames(prog)))
						if err != nil {
							c.Violationf("C10:skeleton:config-rejected:"+mode, c10SkelCase{Prog: prog, Mode: mode}, "configuration rejected (%s): %v; program=%s", mode, err, c10ProgString(prog))
							continue
						}
						if k <= 2 {
							c10ReadbackProgram(c, rp, cfg, prog, mode)
							c.Outcome("readback of policies+assignments")
						}
						for _, s := range stored {
							dec, na := c10CheckSkeleton(c, lref, prog, rp, mode, s)
							c.Outcome(fmt.Sprintf("decided-by-%s after %d applied statements", dec, na))
							if na >= 2 {
								c.NT(fmt.Sprintf("%d/%d/%d/%s", k, idx, split, s.el.R.Name))
							}
						}
						c.Outcome("build:" + mode)
						c10QuickVerifyStored(c, "skeleton", stored, c10SkelCase{prog, "R1", mode}, c10ProgString(prog))
					}
					if c.WantSample() && idx%50021 == 11 && split == k {
						c.Sample(map[string]any{"program": c10ProgString(prog)})
					}
				}
			}
			c10VerifyStored(c, "skeleton", stored)
		})
	}
	r.Bounds["programs"] = programs
}

// ---------------------------------------------------------------------------------------------------
// part "alias" — non-interference between per-peer copies

type c10AliasCase struct {
	Route string `json:"route"`
	Spare int    `json:"spare"`
	A0    int    `json:"a0"` // import action (-1 none): the stored route is the result of this one
	A1    int    `json:"a1"` // peer A
	A2    int    `json:"a2"` // peer B
	BDir  string `json:"b_dir"`
}

// c10AliasPolicy: one policy per action atom ("always, do the action, accept"), assigned to id x<i> in both directions.
func c10AliasPolicy(acts []c10Act) (*RoutingPolicy, error) {
	var prog c10Prog
	var as []c10Assign
	for i, a := range acts {
		prog.Policies = append(prog.Policies, []c10Stmt{{Acts: []c10Act{a}, Disp: "accept"}})
		n := []string{fmt.Sprintf("p%d", i)}
		as = append(as, c10Assign{ID: fmt.Sprintf("x%d", i), Import: n, ImportDf: "reject", Export: n, ExportDf: "reject"})
	}
	return c10Build(c10Config(prog), as)
}

func c10CheckAlias(c *vr.Report, ref *c10Ref, rp *RoutingPolicy, acts []c10Act, rt c10Route, cs c10AliasCase) {
	c.Eval()
	envs := c10Envs()
	envImp, envA, envB := envs[0], envs[1], envs[2]
	fail := func(key, f string, a ...any) {
		c.Violationf(key, cs, "%s; route=%s spare=%d import=%s peerA=%s peerB=%s(%s)", fmt.Sprintf(f, a...), cs.Route, cs.Spare, c10ActName(acts, cs.A0), c10ActName(acts, cs.A1), c10ActName(acts, cs.A2), cs.BDir)
	}
	base := c10MakePath(rt, cs.Spare)
	model := rt.clone()
	unspec := map[string]bool{}
	stored := base
	if cs.A0 >= 0 {
		p, pan := c10Apply(rp, fmt.Sprintf("x%d", cs.A0), POLICY_DIRECTION_IMPORT, base, c10Options(envImp))
		if pan != "" || p == nil {
			fail("C10:alias:import-failed", "import evaluation failed: %v %s", p, pan)
			return
		}
		stored = p
		if u := ref.applyAct(acts[cs.A0], &model, envImp); u != "" {
			unspec[u] = true
		}
	}
	// a disagreement that already exists after the import stage is the business of part "single" (same
	// key there); the chain comparison below would only repeat it under the wrong action
	importAgrees := len(c10FlatDiff(c10Flatten(c10Project(stored)), c10Flatten(model), unspec)) == 0
	s0 := c10Snapshot(stored)
	b0 := c10Snapshot(base)
	pa, pan := c10Apply(rp, fmt.Sprintf("x%d", cs.A1), POLICY_DIRECTION_EXPORT, stored, c10Options(envA))
	if pan != "" || pa == nil {
		fail("C10:alias:peerA-failed", "evaluation for peer A failed: %v %s", pa, pan)
		return
	}
	sa := c10Snapshot(pa)
	fa := c10Flatten(c10Project(pa))
	dirB := POLICY_DIRECTION_EXPORT
	if cs.BDir == "import" {
		dirB = POLICY_DIRECTION_IMPORT
	}
	pb, pan := c10Apply(rp, fmt.Sprintf("x%d", cs.A2), dirB, stored, c10Options(envB))
	if pan != "" || pb == nil {
		fail("C10:alias:peerB-failed", "evaluation for peer B failed: %v %s", pb, pan)
		return
	}
	cls := acts[cs.A2].class()
	if !bytes.Equal(c10Snapshot(stored), s0) {
		fail("C10:alias:stored-route-changed:by="+cls, "the stored route serialises differently after the evaluations for peers A and B")
	}
	if !bytes.Equal(c10Snapshot(base), b0) {
		fail("C10:alias:received-route-changed:by="+cls, "the route as received serialises differently after the evaluations")
	}
	if !bytes.Equal(c10Snapshot(pa), sa) {
		d := c10FlatDiff(c10Flatten(c10Project(pa)), fa, nil)
		fail(fmt.Sprintf("C10:alias:peerA-copy-changed:field=%s:by=%s", strings.Join(d, "+"), cls),
			"peer A's result changed when the policy for peer B was evaluated on the same stored route: before=%v after=%v", fa, c10Flatten(c10Project(pa)))
		c.Outcome("interference observed")
	} else {
		c.Outcome("no interference")
	}
	if !importAgrees {
		c.Outcome("import stage already differs from the model (reported by part single); chain comparison skipped")
		return
	}
	// both results also equal the model's (two-step accumulation across separate ApplyPolicy calls)
	ma, mb := model.clone(), model.clone()
	ua, ub := map[string]bool{}, map[string]bool{}
	for k := range unspec {
		ua[k], ub[k] = true, true
	}
	if u := ref.applyAct(acts[cs.A1], &ma, envA); u != "" {
		ua[u] = true
	}
	if u := ref.applyAct(acts[cs.A2], &mb, envB); u != "" {
		ub[u] = true
	}
	chain := func(last int) c10Stmt {
		var st c10Stmt
		if cs.A0 >= 0 {
			st.Acts = append(st.Acts, acts[cs.A0])
		}
		st.Acts = append(st.Acts, acts[last])
		return st
	}
	for _, f := range c10FlatDiff(fa, c10Flatten(ma), ua) {
		fail("C10:attr:"+f+":"+c10Governing(chain(cs.A1), f), "peer A's %s differs from the model after import+export: implementation=%v model=%v", f, fa, c10Flatten(ma))
	}
	fb := c10Flatten(c10Project(pb))
	for _, f := range c10FlatDiff(fb, c10Flatten(mb), ub) {
		fail("C10:attr:"+f+":"+c10Governing(chain(cs.A2), f), "peer B's %s differs from the model after import+export: implementation=%v model=%v", f, fb, c10Flatten(mb))
	}
}

func c10ActName(acts []c10Act, i int) string {
	if i < 0 {
		return "none"
	}
	return acts[i].id()
}

func TestVerif_C10_Alias(t *testing.T) {
	r := vr.Start(t, "C10", "alias")
	defer r.Finish()
	r.Rule = "stored route (as decoded from UPDATE bytes, and with 3 spare elements behind every attribute list; optionally the result of an import policy applying action a0) x action a1 evaluated for peer A x action a2 evaluated for peer B (export, or import direction) on the same stored route: serialised snapshots of the received route, the stored route and peer A's result must not change, and both results equal the reference interpreter; non-trivial = distinct (route, spare, a0, a1, a2) in which a1 and a2 both modify the same attribute kind"
	acts := c10ActAtoms()
	rp, err := c10AliasPolicy(acts)
	if err != nil {
		t.Fatalf("ENGINE-ERROR build: %v", err)
	}
	routes := c10Routes()
	byName := map[string]c10Route{}
	for _, rt := range routes {
		byName[rt.Name] = rt
	}
	if r.ReplayPath() != "" {
		var cs c10AliasCase
		if err := r.LoadReplay(&cs); err != nil {
			t.Fatal(err)
		}
		c10CheckAlias(r, newC10Ref(), rp, acts, byName[cs.Route], cs)
		r.NT("replay")
		return
	}
	r.Bounds["routes"] = len(routes)
	r.Bounds["spare_capacity_variants"] = []int{0, 3}
	r.Bounds["spare_capacity_with_import_stage"] = vr.Thorough()
	r.Bounds["import_actions(a0)"] = len(acts) + 1
	r.Bounds["peerA_actions(a1)"] = len(acts)
	r.Bounds["peerB_actions(a2)"] = len(acts)
	r.Bounds["peerB_directions"] = 2
	W := vr.Workers()
	// pass 0 (sequential, simplest first: no import stage) so that the recorded counterexamples are minimal
	run := func(c *vr.Report, pass, w int) {
		// the RoutingPolicy is read-only during evaluation (ApplyPolicy takes the read lock)
		ref := newC10Ref()
		n := 0
		for _, rt := range routes {
			for _, spare := range []int{0, 3} {
				for a0 := -1; a0 < len(acts); a0++ {
					if (pass == 0) != (a0 < 0) {
						continue
					}
					if a0 >= 0 && spare > 0 && !vr.Thorough() {
						continue // quick: explicit spare capacity only on the route as received
					}
					for a1 := range acts {
						n++
						if pass == 1 && n%W != w {
							continue
						}
						for a2 := range acts {
							for _, bd := range []string{"export", "import"} {
								cs := c10AliasCase{rt.Name, spare, a0, a1, a2, bd}
								c10CheckAlias(c, ref, rp, acts, rt, cs)
								if acts[a1].Kind == acts[a2].Kind {
									c.NT(fmt.Sprint(cs))
									if c.WantSample() && n%997 == 5 && bd == "export" {
										c.Sample(map[string]any{"route": rt.Name, "spare": spare, "import": c10ActName(acts, a0), "peerA": acts[a1].id(), "peerB": acts[a2].id()})
									}
								}
							}
						}
					}
				}
			}
		}
	}
	run(r, 0, 0)
	r.Parallel(W, func(w int, c *vr.Report) { run(c, 1, w) })
}

// ---------------------------------------------------------------------------------------------------
// part "readback"

type c10Diff struct{ field, got, want string }

var c10OpNorm = map[oc.AttributeComparison]oc.AttributeComparison{
	oc.ATTRIBUTE_COMPARISON_ATTRIBUTE_EQ: oc.ATTRIBUTE_COMPARISON_EQ, oc.ATTRIBUTE_COMPARISON_ATTRIBUTE_GE: oc.ATTRIBUTE_COMPARISON_GE,
	oc.ATTRIBUTE_COMPARISON_ATTRIBUTE_LE: oc.ATTRIBUTE_COMPARISON_LE,
}

// c10NormPattern: "65001:100" and "^65001:100$" denote the same exact value; '_' in an as-path pattern
// is the documented abbreviation of (^|[,{}() ]|$).
func c10NormPattern(s string, parts int) string {
	if strings.HasPrefix(s, "^") && strings.HasSuffix(s, "$") && c10PlainValue(s[1:len(s)-1], parts) {
		return s[1 : len(s)-1]
	}
	return s
}

func c10NormExtPattern(s string) string {
	i := strings.IndexByte(s, ':')
	if i < 0 {
		return s
	}
	v := s[i+1:]
	if strings.HasPrefix(v, "^") && strings.HasSuffix(v, "$") {
		in := v[1 : len(v)-1]
		if c10PlainValue(in, 2) || !strings.ContainsAny(in, "*+?[]()|\\") {
			v = in
		}
	}
	return strings.ToLower(s[:i]) + ":" + v
}

func c10NormList(l []string, f func(string) string) []string {
	o := make([]string, 0, len(l))
	for _, s := range l {
		o = append(o, f(s))
	}
	sort.Strings(o)
	return o
}

// c10NormStatement brings a statement configuration to a canonical form in which documented aliases
// and defaults are identified (operator eq = attribute-eq, match-set-options "" = any, disposition
// "" = none, exact community values with or without anchors).
func c10NormStatement(s oc.Statement) oc.Statement {
	c := &s.Conditions
	if c.MatchPrefixSet.PrefixSet != "" && c.MatchPrefixSet.MatchSetOptions == "" {
		c.MatchPrefixSet.MatchSetOptions = oc.MATCH_SET_OPTIONS_RESTRICTED_TYPE_ANY
	}
	if c.MatchNeighborSet.NeighborSet != "" && c.MatchNeighborSet.MatchSetOptions == "" {
		c.MatchNeighborSet.MatchSetOptions = oc.MATCH_SET_OPTIONS_RESTRICTED_TYPE_ANY
	}
	b := &c.BgpConditions
	for _, m := range []*oc.MatchSetOptionsType{&b.MatchAsPathSet.MatchSetOptions, &b.MatchCommunitySet.MatchSetOptions, &b.MatchExtCommunitySet.MatchSetOptions, &b.MatchLargeCommunitySet.MatchSetOptions} {
		if *m == "" {
			*m = oc.MATCH_SET_OPTIONS_TYPE_ANY
		}
	}
	if b.MatchAsPathSet.AsPathSet == "" {
		b.MatchAsPathSet.MatchSetOptions = ""
	}
	if b.MatchCommunitySet.CommunitySet == "" {
		b.MatchCommunitySet.MatchSetOptions = ""
	}
	if b.MatchExtCommunitySet.ExtCommunitySet == "" {
		b.MatchExtCommunitySet.MatchSetOptions = ""
	}
	if b.MatchLargeCommunitySet.LargeCommunitySet == "" {
		b.MatchLargeCommunitySet.MatchSetOptions = ""
	}
	if n, ok := c10OpNorm[b.AsPathLength.Operator]; ok {
		b.AsPathLength.Operator = n
	}
	if n, ok := c10OpNorm[b.CommunityCount.Operator]; ok {
		b.CommunityCount.Operator = n
	}
	if b.RouteType == oc.ROUTE_TYPE_NONE {
		b.RouteType = ""
	}
	if b.RpkiValidationResult == oc.RPKI_VALIDATION_RESULT_TYPE_NONE {
		b.RpkiValidationResult = ""
	}
	if len(b.NextHopInList) == 0 {
		b.NextHopInList = nil
	}
	if len(b.AfiSafiInList) == 0 {
		b.AfiSafiInList = nil
	}
	a := &s.Actions
	if a.RouteDisposition == "" {
		a.RouteDisposition = oc.ROUTE_DISPOSITION_NONE
	}
	ba := &a.BgpActions
	ba.SetCommunity.Options = strings.ToLower(ba.SetCommunity.Options)
	ba.SetExtCommunity.Options = strings.ToLower(ba.SetExtCommunity.Options)
	norm := func(l []string, f func(string) string) []string {
		if len(l) == 0 {
			return nil
		}
		o := make([]string, len(l))
		for i, s := range l {
			o[i] = f(s)
		}
		return o
	}
	ba.SetCommunity.SetCommunityMethod.CommunitiesList = norm(ba.SetCommunity.SetCommunityMethod.CommunitiesList, func(s string) string { return c10NormPattern(s, 2) })
	ba.SetExtCommunity.SetExtCommunityMethod.CommunitiesList = norm(ba.SetExtCommunity.SetExtCommunityMethod.CommunitiesList, c10NormExtPattern)
	ba.SetLargeCommunity.SetLargeCommunityMethod.CommunitiesList = norm(ba.SetLargeCommunity.SetLargeCommunityMethod.CommunitiesList, func(s string) string { return c10NormPattern(s, 3) })
	return s
}

// c10StatementDiff: field-by-field comparison of a statement read back with the configured one.
func c10StatementDiff(got, want oc.Statement) []c10Diff {
	g, w := c10NormStatement(got), c10NormStatement(want)
	var d []c10Diff
	cmp := func(name string, a, b any) {
		if !reflect.DeepEqual(a, b) {
			ja, _ := json.Marshal(a)
			jb, _ := json.Marshal(b)
			if !bytes.Equal(ja, jb) {
				d = append(d, c10Diff{name, string(ja), string(jb)})
			}
		}
	}
	cmp("name", g.Name, w.Name)
	cmp("conditions.match-prefix-set", g.Conditions.MatchPrefixSet, w.Conditions.MatchPrefixSet)
	cmp("conditions.match-neighbor-set", g.Conditions.MatchNeighborSet, w.Conditions.MatchNeighborSet)
	gv, wv := reflect.ValueOf(g.Conditions.BgpConditions), reflect.ValueOf(w.Conditions.BgpConditions)
	for i := 0; i < gv.NumField(); i++ {
		cmp("conditions.bgp."+gv.Type().Field(i).Name, gv.Field(i).Interface(), wv.Field(i).Interface())
	}
	cmp("actions.route-disposition", g.Actions.RouteDisposition, w.Actions.RouteDisposition)
	gv, wv = reflect.ValueOf(g.Actions.BgpActions), reflect.ValueOf(w.Actions.BgpActions)
	for i := 0; i < gv.NumField(); i++ {
		cmp("actions.bgp."+gv.Type().Field(i).Name, gv.Field(i).Interface(), wv.Field(i).Interface())
	}
	return d
}

// c10WantAPI: the API form of a statement, written from the program (independent of ToConfig/toStatementApi).
func c10WantAPI(name string, st c10Stmt) map[string]string {
	m := map[string]string{"name": name}
	up := strings.ToUpper
	for _, c := range st.Conds {
		switch c.Kind {
		case "prefix", "neighbor", "aspath", "comm", "ext", "large":
			m["cond."+c.Kind] = c.Set + "/TYPE_" + up(c.Opt)
		case "nexthop":
			m["cond.nexthop"] = strings.Join(c10NormList(c.Members, func(s string) string { return s }), ",")
		case "aslen", "commcount":
			m["cond."+c.Kind] = fmt.Sprintf("COMPARISON_%s/%d", up(c.Op), c.Val)
		case "origin":
			m["cond.origin"] = "ORIGIN_TYPE_" + up(c.Str)
		case "rtype":
			m["cond.rtype"] = "ROUTE_TYPE_" + up(c.Str)
		case "rpki":
			m["cond.rpki"] = "VALIDATION_STATE_" + up(strings.ReplaceAll(c.Str, "-", "_"))
		case "afisafi":
			m["cond.afisafi"] = strings.Join(c.Members, ",")
		case "lpeq", "medeq":
			m["cond."+c.Kind] = fmt.Sprint(c.Val)
		}
	}
	switch st.Disp {
	case "accept":
		m["act.route"] = "ROUTE_ACTION_ACCEPT"
	case "reject":
		m["act.route"] = "ROUTE_ACTION_REJECT"
	}
	for _, a := range st.Acts {
		switch a.Kind {
		case "comm":
			m["act.comm"] = "TYPE_" + up(a.Opt) + "/" + strings.Join(a.Members, ",")
		case "ext":
			m["act.ext"] = "TYPE_" + up(a.Opt) + "/" + strings.Join(c10NormList(a.Members, c10NormExtPattern), ",")
		case "large":
			m["act.large"] = "TYPE_" + up(a.Opt) + "/" + strings.Join(a.Members, ",")
		case "med":
			t := "TYPE_REPLACE"
			if a.Str[0] == '+' || a.Str[0] == '-' {
				t = "TYPE_MOD"
			}
			m["act.med"] = t + "/" + strings.TrimPrefix(a.Str, "+")
		case "lp":
			m["act.lp"] = fmt.Sprint(a.Val)
		case "origin":
			m["act.origin"] = "ORIGIN_TYPE_" + up(a.Str)
		case "prepend":
			if a.Str == "last-as" {
				m["act.prepend"] = fmt.Sprintf("last-as x%d", a.N)
			} else {
				m["act.prepend"] = fmt.Sprintf("%s x%d", a.Str, a.N)
			}
		case "nh":
			m["act.nh"] = a.Str
		}
	}
	return m
}

// c10GotAPI flattens an api.Statement the same way.
func c10GotAPI(s *api.Statement) map[string]string {
	m := map[string]string{"name": s.Name}
	ms := func(k string, x *api.MatchSet) {
		if x != nil {
			m[k] = x.Name + "/" + x.Type.String()
		}
	}
	c := s.Conditions
	ms("cond.prefix", c.PrefixSet)
	ms("cond.neighbor", c.NeighborSet)
	ms("cond.aspath", c.AsPathSet)
	ms("cond.comm", c.CommunitySet)
	ms("cond.ext", c.ExtCommunitySet)
	ms("cond.large", c.LargeCommunitySet)
	if len(c.NextHopInList) > 0 {
		m["cond.nexthop"] = strings.Join(c10NormList(c.NextHopInList, func(s string) string { return s }), ",")
	}
	if c.AsPathLength != nil {
		m["cond.aslen"] = fmt.Sprintf("%s/%d", c.AsPathLength.Type, c.AsPathLength.Length)
	}
	if c.CommunityCount != nil {
		m["cond.commcount"] = fmt.Sprintf("%s/%d", c.CommunityCount.Type, c.CommunityCount.Count)
	}
	if c.Origin != api.OriginType_ORIGIN_TYPE_UNSPECIFIED {
		m["cond.origin"] = c.Origin.String()
	}
	if c.RouteType != api.Conditions_ROUTE_TYPE_UNSPECIFIED {
		m["cond.rtype"] = c.RouteType.String()
	}
	if c.RpkiResult != api.ValidationState_VALIDATION_STATE_UNSPECIFIED && c.RpkiResult != api.ValidationState_VALIDATION_STATE_NONE {
		m["cond.rpki"] = c.RpkiResult.String()
	}
	if len(c.AfiSafiIn) > 0 {
		var l []string
		for _, f := range c.AfiSafiIn {
			switch {
			case f.Afi == api.Family_AFI_IP && f.Safi == api.Family_SAFI_UNICAST:
				l = append(l, "ipv4-unicast")
			case f.Afi == api.Family_AFI_IP6 && f.Safi == api.Family_SAFI_UNICAST:
				l = append(l, "ipv6-unicast")
			case f.Afi == api.Family_AFI_IP && f.Safi == api.Family_SAFI_MPLS_VPN:
				l = append(l, "l3vpn-ipv4-unicast")
			default:
				l = append(l, fmt.Sprintf("%s/%s", f.Afi, f.Safi))
			}
		}
		m["cond.afisafi"] = strings.Join(l, ",")
	}
	if c.LocalPrefEq != nil {
		m["cond.lpeq"] = fmt.Sprint(c.LocalPrefEq.Value)
	}
	if c.MedEq != nil {
		m["cond.medeq"] = fmt.Sprint(c.MedEq.Value)
	}
	a := s.Actions
	if a.RouteAction != api.RouteAction_ROUTE_ACTION_UNSPECIFIED {
		m["act.route"] = a.RouteAction.String()
	}
	if a.Community != nil {
		m["act.comm"] = a.Community.Type.String() + "/" + strings.Join(c10NormList2(a.Community.Communities, func(s string) string { return c10NormPattern(s, 2) }), ",")
	}
	if a.ExtCommunity != nil {
		m["act.ext"] = a.ExtCommunity.Type.String() + "/" + strings.Join(c10NormList(a.ExtCommunity.Communities, c10NormExtPattern), ",")
	}
	if a.LargeCommunity != nil {
		m["act.large"] = a.LargeCommunity.Type.String() + "/" + strings.Join(c10NormList2(a.LargeCommunity.Communities, func(s string) string { return c10NormPattern(s, 3) }), ",")
	}
	if a.Med != nil {
		m["act.med"] = fmt.Sprintf("%s/%d", a.Med.Type, a.Med.Value)
	}
	if a.LocalPref != nil {
		m["act.lp"] = fmt.Sprint(a.LocalPref.Value)
	}
	if a.OriginAction != nil {
		m["act.origin"] = a.OriginAction.Origin.String()
	}
	if a.AsPrepend != nil {
		if a.AsPrepend.UseLeftMost {
			m["act.prepend"] = fmt.Sprintf("last-as x%d", a.AsPrepend.Repeat)
		} else {
			m["act.prepend"] = fmt.Sprintf("%d x%d", a.AsPrepend.Asn, a.AsPrepend.Repeat)
		}
	}
	if n := a.Nexthop; n != nil {
		switch {
		case n.Self:
			m["act.nh"] = "self"
		case n.PeerAddress:
			m["act.nh"] = "peer-address"
		case n.Unchanged:
			m["act.nh"] = "unchanged"
		default:
			m["act.nh"] = n.Address
		}
	}
	return m
}

// order-preserving variant (action lists keep their configured order)
func c10NormList2(l []string, f func(string) string) []string {
	o := make([]string, 0, len(l))
	for _, s := range l {
		o = append(o, f(s))
	}
	return o
}

const c10AsMagic = "(^|[,{}() ]|$)"

// c10SetMembers: the configured and the read-back members of a defined set as canonical multisets.
func c10CheckDefinedSets(c *vr.Report, rp *RoutingPolicy, cfg oc.RoutingPolicy, cs any) {
	fail := func(kind, name string, got, want []string) {
		c.Violationf("C10:readback:defined-set:"+kind, cs, "%s set %s reads back as %q, configured %q", kind, name, got, want)
	}
	get := func(t DefinedType) *oc.DefinedSets {
		ds, err := rp.GetDefinedSet(t, "")
		if err != nil {
			c.Violationf("C10:readback:defined-set:error", cs, "GetDefinedSet(%d): %v", t, err)
			return &oc.DefinedSets{}
		}
		return ds
	}
	eq := func(a, b []string) bool { return fmt.Sprint(a) == fmt.Sprint(b) }
	id := func(s string) string { return s }
	// prefix
	gp := get(DEFINED_TYPE_PREFIX).PrefixSets
	if len(gp) != len(cfg.DefinedSets.PrefixSets) {
		fail("prefix", "(count)", []string{fmt.Sprint(len(gp))}, []string{fmt.Sprint(len(cfg.DefinedSets.PrefixSets))})
	}
	pstr := func(l []oc.Prefix) []string {
		var o []string
		for _, p := range l {
			r := p.MasklengthRange
			if r == "" {
				r = fmt.Sprintf("%d..%d", p.IpPrefix.Bits(), p.IpPrefix.Bits())
			}
			o = append(o, p.IpPrefix.String()+" "+r)
		}
		sort.Strings(o)
		return o
	}
	for _, w := range cfg.DefinedSets.PrefixSets {
		for _, g := range gp {
			if g.PrefixSetName == w.PrefixSetName && !eq(pstr(g.PrefixList), pstr(w.PrefixList)) {
				fail("prefix", w.PrefixSetName, pstr(g.PrefixList), pstr(w.PrefixList))
			}
		}
	}
	gn := get(DEFINED_TYPE_NEIGHBOR).NeighborSets
	host := func(s string) string {
		if strings.Contains(s, "/") {
			return s
		}
		if strings.Contains(s, ":") {
			return s + "/128"
		}
		return s + "/32"
	}
	found := 0
	for _, w := range cfg.DefinedSets.NeighborSets {
		for _, g := range gn {
			if g.NeighborSetName == w.NeighborSetName {
				found++
				if a, b := c10NormList(g.NeighborInfoList, host), c10NormList(w.NeighborInfoList, host); !eq(a, b) {
					fail("neighbor", w.NeighborSetName, a, b)
				}
			}
		}
	}
	bd := cfg.DefinedSets.BgpDefinedSets
	ga := get(DEFINED_TYPE_AS_PATH).BgpDefinedSets.AsPathSets
	for _, w := range bd.AsPathSets {
		for _, g := range ga {
			if g.AsPathSetName == w.AsPathSetName {
				found++
				a := c10NormList(g.AsPathList, func(s string) string { return strings.ReplaceAll(s, c10AsMagic, "_") })
				if b := c10NormList(w.AsPathList, id); !eq(a, b) {
					fail("as-path", w.AsPathSetName, a, b)
				}
			}
		}
	}
	gc := get(DEFINED_TYPE_COMMUNITY).BgpDefinedSets.CommunitySets
	for _, w := range bd.CommunitySets {
		for _, g := range gc {
			if g.CommunitySetName == w.CommunitySetName {
				found++
				f := func(s string) string { return c10NormPattern(s, 2) }
				if a, b := c10NormList(g.CommunityList, f), c10NormList(w.CommunityList, f); !eq(a, b) {
					fail("community", w.CommunitySetName, a, b)
				}
			}
		}
	}
	ge := get(DEFINED_TYPE_EXT_COMMUNITY).BgpDefinedSets.ExtCommunitySets
	for _, w := range bd.ExtCommunitySets {
		for _, g := range ge {
			if g.ExtCommunitySetName == w.ExtCommunitySetName {
				found++
				if a, b := c10NormList(g.ExtCommunityList, c10NormExtPattern), c10NormList(w.ExtCommunityList, c10NormExtPattern); !eq(a, b) {
					fail("ext-community", w.ExtCommunitySetName, a, b)
				}
			}
		}
	}
	gl := get(DEFINED_TYPE_LARGE_COMMUNITY).BgpDefinedSets.LargeCommunitySets
	for _, w := range bd.LargeCommunitySets {
		for _, g := range gl {
			if g.LargeCommunitySetName == w.LargeCommunitySetName {
				found++
				f := func(s string) string { return c10NormPattern(s, 3) }
				if a, b := c10NormList(g.LargeCommunityList, f), c10NormList(w.LargeCommunityList, f); !eq(a, b) {
					fail("large-community", w.LargeCommunitySetName, a, b)
				}
			}
		}
	}
	wantN := len(cfg.DefinedSets.NeighborSets) + len(bd.AsPathSets) + len(bd.CommunitySets) + len(bd.ExtCommunitySets) + len(bd.LargeCommunitySets)
	gotN := len(gn) + len(ga) + len(gc) + len(ge) + len(gl)
	if found != wantN || gotN != wantN {
		c.Violationf("C10:readback:defined-set:count", cs, "%d defined sets configured, %d listed, %d found by name", wantN, gotN, found)
	}
}

// configuration field -> logical field name (the same names c10WantAPI / c10GotAPI use)
var c10Logical = map[string]string{
	"name": "name", "conditions.match-prefix-set": "cond.prefix", "conditions.match-neighbor-set": "cond.neighbor",
	"conditions.bgp.MatchCommunitySet": "cond.comm", "conditions.bgp.MatchExtCommunitySet": "cond.ext", "conditions.bgp.MatchAsPathSet": "cond.aspath",
	"conditions.bgp.MedEq": "cond.medeq", "conditions.bgp.OriginEq": "cond.origin", "conditions.bgp.NextHopInList": "cond.nexthop",
	"conditions.bgp.AfiSafiInList": "cond.afisafi", "conditions.bgp.LocalPrefEq": "cond.lpeq", "conditions.bgp.CommunityCount": "cond.commcount",
	"conditions.bgp.AsPathLength": "cond.aslen", "conditions.bgp.RouteType": "cond.rtype", "conditions.bgp.RpkiValidationResult": "cond.rpki",
	"conditions.bgp.MatchLargeCommunitySet": "cond.large", "actions.route-disposition": "act.route", "actions.bgp.SetAsPathPrepend": "act.prepend",
	"actions.bgp.SetCommunity": "act.comm", "actions.bgp.SetExtCommunity": "act.ext", "actions.bgp.SetRouteOrigin": "act.origin",
	"actions.bgp.SetLocalPref": "act.lp", "actions.bgp.SetNextHop": "act.nh", "actions.bgp.SetMed": "act.med", "actions.bgp.SetLargeCommunity": "act.large",
}

type c10ReadbackCase struct {
	Stmt c10Stmt `json:"stmt"`
	Mode string  `json:"mode"`
}

func c10CheckReadback(c *vr.Report, st c10Stmt, mode string) {
	c.Eval()
	cs := c10ReadbackCase{st, mode}
	prog := c10Prog{Policies: [][]c10Stmt{{st}}}
	cfg := c10Config(prog)
	var rp *RoutingPolicy
	var err error
	if mode == "incremental" {
		rp, err = c10BuildIncremental(cfg, c10Assigns([]string{"p0"}))
	} else {
		rp, err = c10Build(cfg, c10Assigns([]string{"p0"}))
	}
	if err != nil {
		c.Violationf("C10:readback:config-rejected:"+mode, cs, "configuration rejected: %v; statement=%s", err, c10StmtString(st))
		return
	}
	defer func() {
		if x := recover(); x != nil {
			c.Violationf("C10:readback:panic:"+c10PanicSite(), cs, "panic while reading back: %v; statement=%s", x, c10StmtString(st))
		}
	}()
	c10CheckDefinedSets(c, rp, cfg, cs)
	pols := rp.GetPolicy("")
	if len(pols) != 1 || len(pols[0].Statements) != 1 {
		c.Violationf("C10:readback:policy-shape", cs, "GetPolicy returns %d policies; statement=%s", len(pols), c10StmtString(st))
		return
	}
	// one key per logical field: a field already wrong in the configuration read back is not reported
	// again for the layers built on top of it (second generation, API form)
	reported := map[string]bool{}
	for _, d := range c10StatementDiff(pols[0].Statements[0], cfg.PolicyDefinitions[0].Statements[0]) {
		reported[c10Logical[d.field]] = true
		c.Violationf("C10:readback:"+c10Logical[d.field]+":config-layer", cs, "statement field %s reads back (GetPolicy/ToConfig) as %s, configured %s; statement=%s", d.field, d.got, d.want, c10StmtString(st))
	}
	// GetStatement must give the same object
	if sts := rp.GetStatement("p0s0"); len(sts) != 1 || len(c10StatementDiff(*sts[0], pols[0].Statements[0])) != 0 {
		c.Violationf("C10:readback:get-statement", cs, "GetStatement disagrees with GetPolicy; statement=%s", c10StmtString(st))
	}
	// a second generation built from what was read back must read back identically (fixed point)
	again, err := NewStatement(pols[0].Statements[0])
	if err != nil {
		c.Violationf("C10:readback:not-reloadable", cs, "the configuration read back is rejected: %v; statement=%s", err, c10StmtString(st))
	} else {
		for _, d := range c10StatementDiff(*again.ToConfig(), cfg.PolicyDefinitions[0].Statements[0]) {
			if d.field == "conditions.match-prefix-set" || d.field == "conditions.match-neighbor-set" {
				continue // set references are resolved by the RoutingPolicy, not by NewStatement
			}
			if reported[c10Logical[d.field]] {
				continue
			}
			reported[c10Logical[d.field]] = true
			c.Violationf("C10:readback:"+c10Logical[d.field]+":second-generation", cs, "config -> object -> config -> object -> config changes %s: %s, configured %s; statement=%s", d.field, d.got, d.want, c10StmtString(st))
		}
	}
	// API form
	ap := ToPolicyApi(pols[0])
	if len(ap.Statements) != 1 {
		c.Violationf("C10:readback:api:shape", cs, "ToPolicyApi returns %d statements", len(ap.Statements))
		return
	}
	got, want := c10GotAPI(ap.Statements[0]), c10WantAPI("p0s0", st)
	keys := map[string]bool{}
	for k := range got {
		keys[k] = true
	}
	for k := range want {
		keys[k] = true
	}
	for k := range keys {
		if got[k] != want[k] && !reported[k] {
			c.Violationf("C10:readback:"+k+":api-layer", cs, "API field %s reads back (ToPolicyApi) as %q, configured %q, while the configuration read back is correct; statement=%s", k, got[k], want[k], c10StmtString(st))
		}
	}
	c.Outcome(fmt.Sprintf("fields compared: %d config / %d api", 4+reflect.TypeOf(oc.BgpConditions{}).NumField()+reflect.TypeOf(oc.BgpActions{}).NumField(), len(keys)))
}

func TestVerif_C10_Readback(t *testing.T) {
	r := vr.Start(t, "C10", "readback")
	defer r.Finish()
	r.Rule = "every single-statement program of part 'single' (same shapes per tier): oc config -> Reset (and the incremental Add* API) -> GetDefinedSet / GetPolicy / GetStatement / ToPolicyApi compared field by field with what was configured (documented aliases identified), plus config->object->config->object->config fixed point; non-trivial = distinct program with at least one condition or action"
	if r.ReplayPath() != "" {
		var cs c10ReadbackCase
		if err := r.LoadReplay(&cs); err != nil {
			t.Fatal(err)
		}
		c10CheckReadback(r, cs.Stmt, cs.Mode)
		r.NT("replay")
		return
	}
	conds, acts := c10CondAtoms(), c10ActAtoms()
	cc := c10Combos(len(conds), func(i int) string { return conds[i].Kind })
	ac := c10Combos(len(acts), func(i int) string { return acts[i].Kind })
	maxSum := 4
	r.Bounds["condition_atoms"] = len(conds)
	r.Bounds["action_atoms"] = len(acts)
	r.Bounds["program_shapes"] = map[bool]string{false: "<=2 conditions x 0 actions, <=1 condition x <=2 actions", true: "<=2 conditions x <=2 actions"}[vr.Thorough()]
	r.Bounds["dispositions"] = 3
	r.Bounds["build_modes"] = []string{"reset", "incremental(<=1 condition,<=1 action)"}
	W := vr.Workers()
	// pass 0 sequential over the simplest programs (minimal counterexamples), pass 1 parallel over the rest
	run := func(c *vr.Report, pass, w int) {
		n := 0
		for size := 0; size <= maxSum; size++ {
			if (pass == 0) != (size <= 1) {
				continue
			}
			for ci := range cc {
				for ai := range ac {
					if len(cc[ci])+len(ac[ai]) != size || !c10InTier(len(cc[ci]), len(ac[ai])) {
						continue
					}
					for _, disp := range c10Disps {
						n++
						if pass == 1 && n%W != w {
							continue
						}
						st := c10Stmt{Disp: disp}
						for _, i := range cc[ci] {
							st.Conds = append(st.Conds, conds[i])
						}
						for _, i := range ac[ai] {
							st.Acts = append(st.Acts, acts[i])
						}
						c10CheckReadback(c, st, "reset")
						if len(st.Conds) <= 1 && len(st.Acts) <= 1 {
							c10CheckReadback(c, st, "incremental")
						}
						if len(st.Conds)+len(st.Acts) > 0 {
							c.NT(fmt.Sprintf("%d/%d", pass, n))
						}
						if c.WantSample() && n%70001 == 3 {
							c.Sample(map[string]any{"statement": c10StmtString(st)})
						}
					}
				}
			}
		}
	}
	run(r, 0, 0)
	r.Parallel(W, func(w int, c *vr.Report) { run(c, 1, w) })
}
