package table

// C16 part "validate" — RPKI origin validation implements RFC 6811 over a correctly maintained ROA table.
// E-SEQ: every ROA set of size <=3 (thorough <=4) over a 54-record universe x every route variant,
// executed on the real ROATable.Add/Validate and RpkiValidationCondition.Evaluate and compared with
// "refroa", an independent model of the RFC 6811 section 2 set semantics as the property states them.
// A second phase drives Add/Delete/DeleteAll with every operation sequence of length <=3 (thorough <=4)
// over a 24-record universe (two sources) and compares List() with a plain set after every step.

import (
	"fmt"
	"log/slog"
	"net/netip"
	"sort"
	"strings"
	"testing"
	"time"

	"github.com/osrg/gobgp/v4/internal/verif/vr"
	"github.com/osrg/gobgp/v4/pkg/config/oc"
	"github.com/osrg/gobgp/v4/pkg/packet/bgp"
)

// ---------------------------------------------------------------------------------------------
// refroa: plain data + RFC 6811 section 2 (never touches table.Path, ROATable or net.IPNet)

type c16Pfx struct {
	V6   bool
	Addr [16]byte // v4 uses the first 4 bytes
	Len  int
}

type c16Roa struct {
	P      c16Pfx
	MaxLen int
	AS     uint32
	Src    string
}

func (r c16Roa) String() string {
	return fmt.Sprintf("%s-%d AS%d%s", c16PfxString(r.P), r.MaxLen, r.AS, map[bool]string{true: " src=" + r.Src}[r.Src != ""])
}

type c16Seg struct {
	T  uint8
	AS []uint32
}

const (
	c16Valid    = "valid"
	c16Invalid  = "invalid"
	c16NotFound = "not-found"
)

func c16ParsePfx(s string) c16Pfx {
	p := netip.MustParsePrefix(s)
	var out c16Pfx
	out.V6 = p.Addr().Is6()
	copy(out.Addr[:], p.Addr().AsSlice())
	out.Len = p.Bits()
	return out
}

func c16PfxString(p c16Pfx) string {
	if p.V6 {
		return fmt.Sprintf("%s/%d", netip.AddrFrom16(p.Addr), p.Len)
	}
	return fmt.Sprintf("%d.%d.%d.%d/%d", p.Addr[0], p.Addr[1], p.Addr[2], p.Addr[3], p.Len)
}

func c16Bit(a [16]byte, i int) byte { return (a[i/8] >> (7 - uint(i%8))) & 1 }

// RFC 6811: a ROA prefix "covers" a route prefix when it is equal to or less specific than it.
func c16Covers(roa, route c16Pfx) bool {
	if roa.V6 != route.V6 || roa.Len > route.Len {
		return false
	}
	for i := 0; i < roa.Len; i++ {
		if c16Bit(roa.Addr, i) != c16Bit(route.Addr, i) {
			return false
		}
	}
	return true
}

// c16OriginAS: the route's origin AS per the property: last AS of a path ending in an AS_SEQUENCE;
// the local AS for an empty or confederation-only path; none for a path ending in an AS_SET.
func c16OriginAS(path []c16Seg, localAS uint32) (as uint32, none bool) {
	if len(path) == 0 {
		return localAS, false
	}
	last := path[len(path)-1]
	switch last.T {
	case 2: // AS_SEQUENCE
		return last.AS[len(last.AS)-1], false
	case 1: // AS_SET
		return 0, true
	default: // AS_CONFED_SEQUENCE (3) / AS_CONFED_SET (4)
		for _, s := range path {
			if s.T == 1 || s.T == 2 {
				// confederation segment after a regular one: not a shape the property speaks about
				return 0, true
			}
		}
		return localAS, false
	}
}

func c16RefValidate(set []c16Roa, route c16Pfx, path []c16Seg, localAS uint32) (verdict string, covering, matching int) {
	origin, none := c16OriginAS(path, localAS)
	if none {
		return c16NotFound, 0, 0
	}
	for _, r := range set {
		if !c16Covers(r.P, route) {
			continue
		}
		covering++
		if r.AS != 0 && r.AS == origin && route.Len <= r.MaxLen {
			matching++
		}
	}
	switch {
	case matching > 0:
		return c16Valid, covering, matching
	case covering > 0:
		return c16Invalid, covering, matching
	}
	return c16NotFound, 0, 0
}

// ---------------------------------------------------------------------------------------------
// universes

var c16RoaPrefixes = []string{"10.0.0.0/8", "10.0.0.0/16", "10.0.0.0/24", "10.1.0.0/16", "2001:db8::/32", "2001:db8::/48"}

// routes: every ROA prefix, prefixes below them (inside / beyond every max-length step), siblings covered by
// only some of them, and uncovered / less specific ones.
var c16RoutePrefixes = []string{
	"10.0.0.0/8", "10.0.0.0/16", "10.0.0.0/24", "10.1.0.0/16",
	"10.0.0.0/12", "10.0.0.0/17", "10.0.0.0/25", "10.0.0.0/32", "10.0.0.128/25",
	"10.0.1.0/24", "10.1.0.0/24", "10.1.128.0/17", "10.2.0.0/16", "10.128.0.0/9",
	"10.0.0.0/7", "11.0.0.0/8",
	"2001:db8::/32", "2001:db8::/48", "2001:db8::/40", "2001:db8::/56", "2001:db8::/64", "2001:db8::/128",
	"2001:db8:1::/48", "2001:db8:8000::/33", "2001:db8::/31", "2001:db9::/32",
}

var c16Universe = func() []c16Roa {
	var u []c16Roa
	for _, ps := range c16RoaPrefixes {
		p := c16ParsePfx(ps)
		max := 32
		if p.V6 {
			max = 128
		}
		for _, ml := range []int{p.Len, p.Len + 8, max} {
			for _, as := range []uint32{0, 1, 2} {
				u = append(u, c16Roa{P: p, MaxLen: ml, AS: as})
			}
		}
	}
	return u
}()

type c16PathShape struct {
	Name string
	Segs []c16Seg
}

const c16ConfedMember = 65100

var c16PathShapes = []c16PathShape{
	{"[1]", []c16Seg{{2, []uint32{1}}}},
	{"[2]", []c16Seg{{2, []uint32{2}}}},
	{"[2 1]", []c16Seg{{2, []uint32{2, 1}}}},
	{"[2]{1}", []c16Seg{{2, []uint32{2}}, {1, []uint32{1}}}},
	{"{1 2}", []c16Seg{{1, []uint32{1, 2}}}},
	{"empty", nil},
	{"(65100)", []c16Seg{{3, []uint32{c16ConfedMember}}}},
	{"(65100)[1]", []c16Seg{{3, []uint32{c16ConfedMember}}, {2, []uint32{1}}}},
	{"confed-set(65100)", []c16Seg{{4, []uint32{c16ConfedMember}}}},
	{"(65100)[2]{1}", []c16Seg{{3, []uint32{c16ConfedMember}}, {2, []uint32{2}}, {1, []uint32{1}}}},
}

// sources: two peers whose local AS differs (so that "the local AS" is observable).
var c16LocalAS = []uint32{1, 2}

// ---------------------------------------------------------------------------------------------
// binding to the implementation

type c16Discard struct{}

func (c16Discard) Write(b []byte) (int, error) { return len(b), nil }

var c16Logger = slog.New(slog.NewTextHandler(c16Discard{}, &slog.HandlerOptions{Level: slog.LevelError + 4}))

func c16ImplROA(r c16Roa) *ROA {
	if r.P.V6 {
		return NewROA(bgp.AFI_IP6, append([]byte{}, r.P.Addr[:16]...), uint8(r.P.Len), uint8(r.MaxLen), r.AS, r.Src)
	}
	return NewROA(bgp.AFI_IP, append([]byte{}, r.P.Addr[:4]...), uint8(r.P.Len), uint8(r.MaxLen), r.AS, r.Src)
}

var c16PeerInfos = func() []*PeerInfo {
	var l []*PeerInfo
	for i, as := range c16LocalAS {
		l = append(l, &PeerInfo{PeerType: oc.PEER_TYPE_INTERNAL, AS: as, LocalAS: as,
			ID: netip.AddrFrom4([4]byte{192, 0, 2, byte(10 + i)}), Address: netip.AddrFrom4([4]byte{192, 0, 2, byte(10 + i)}),
			LocalID: netip.AddrFrom4([4]byte{192, 0, 2, 1}), LocalAddress: netip.AddrFrom4([4]byte{192, 0, 2, 1})})
	}
	return l
}()

// c16BuildPath builds a real table.Path; src == -1 means "locally originated" (nil source, as the server passes it).
func c16BuildPath(route c16Pfx, shape int, src int) *Path {
	family := bgp.RF_IPv4_UC
	if route.V6 {
		family = bgp.RF_IPv6_UC
	}
	nlri, err := bgp.NewIPAddrPrefix(netip.MustParsePrefix(c16PfxString(route)))
	if err != nil {
		panic(err)
	}
	var segs []bgp.AsPathParamInterface
	for _, s := range c16PathShapes[shape].Segs {
		segs = append(segs, bgp.NewAs4PathParam(s.T, append([]uint32{}, s.AS...)))
	}
	attrs := []bgp.PathAttributeInterface{bgp.NewPathAttributeOrigin(0), bgp.NewPathAttributeAsPath(segs)}
	var pi *PeerInfo
	if src >= 0 {
		pi = c16PeerInfos[src]
	}
	return NewPath(family, pi, bgp.PathNLRI{NLRI: nlri}, false, attrs, time.Unix(1000, 0), false)
}

func c16Status(s oc.RpkiValidationResultType) string {
	switch s {
	case oc.RPKI_VALIDATION_RESULT_TYPE_VALID:
		return c16Valid
	case oc.RPKI_VALIDATION_RESULT_TYPE_INVALID:
		return c16Invalid
	case oc.RPKI_VALIDATION_RESULT_TYPE_NOT_FOUND:
		return c16NotFound
	}
	return "other:" + string(s)
}

var c16Conds = func() map[string]*RpkiValidationCondition {
	m := map[string]*RpkiValidationCondition{}
	for name, t := range map[string]oc.RpkiValidationResultType{c16Valid: oc.RPKI_VALIDATION_RESULT_TYPE_VALID,
		c16Invalid: oc.RPKI_VALIDATION_RESULT_TYPE_INVALID, c16NotFound: oc.RPKI_VALIDATION_RESULT_TYPE_NOT_FOUND} {
		c, err := NewRpkiValidationCondition(t)
		if err != nil || c == nil {
			panic("cannot build rpki condition")
		}
		m[name] = c
	}
	return m
}()

func c16PanicSite(v any) string {
	return fmt.Sprint(v)
}

// c16ImplValidate returns the verdict of ROATable.Validate and the verdicts seen by the three policy conditions.
func c16ImplValidate(rt *ROATable, p *Path) (verdict string, cond map[string]bool, perr string) {
	defer func() {
		if e := recover(); e != nil {
			perr = c16PanicSite(e)
		}
	}()
	v := rt.Validate(p)
	if v == nil {
		return "nil", nil, ""
	}
	verdict = c16Status(v.Status)
	cond = map[string]bool{}
	opts := &PolicyOptions{Validate: rt.Validate}
	for name, c := range c16Conds {
		cond[name] = c.Evaluate(p, opts)
	}
	return verdict, cond, ""
}

// ---------------------------------------------------------------------------------------------
// enumeration: phase 1 (validate)

type c16VCase struct {
	Kind  string `json:"kind"` // "validate" | "local" | "maint"
	Set   []int  `json:"set,omitempty"`
	Route int    `json:"route,omitempty"`
	Shape int    `json:"shape,omitempty"`
	Src   int    `json:"src,omitempty"`
	Order []int  `json:"order,omitempty"` // insertion order (permutation of Set positions)
	Ops   []int  `json:"ops,omitempty"`
}

func c16Subsets(n, k int) [][]int {
	res := [][]int{{}}
	for size := 1; size <= k; size++ {
		cur := make([]int, size)
		var rec func(pos, start int)
		rec = func(pos, start int) {
			if pos == size {
				res = append(res, append([]int{}, cur...))
				return
			}
			for i := start; i < n; i++ {
				cur[pos] = i
				rec(pos+1, i+1)
			}
		}
		rec(0, 0)
	}
	return res
}

type c16RouteVar struct {
	route, shape, src int
	path              *Path
}

func c16SetString(set []int) string {
	var s []string
	for _, i := range set {
		s = append(s, c16Universe[i].String())
	}
	return "{" + strings.Join(s, ", ") + "}"
}

// c16CheckValidate runs one (set, insertion order) against all given route variants.
func c16CheckValidate(c *vr.Report, setIdx int, set []int, order []int, routes []c16RouteVar, coarseNT bool) {
	rt := NewROATable(c16Logger)
	model := make([]c16Roa, 0, len(set))
	for _, i := range set {
		model = append(model, c16Universe[i])
	}
	if order == nil {
		for _, r := range model {
			rt.Add(c16ImplROA(r))
		}
	} else {
		for _, k := range order {
			rt.Add(c16ImplROA(model[k]))
		}
	}
	for _, rv := range routes {
		route := c16ParsedRoutes[rv.route]
		localAS := c16LocalAS[rv.src]
		want, covering, matching := c16RefValidate(model, route, c16PathShapes[rv.shape].Segs, localAS)
		got, cond, perr := c16ImplValidate(rt, rv.path)
		c.Eval()
		cs := c16VCase{Kind: "validate", Set: set, Route: rv.route, Shape: rv.shape, Src: rv.src, Order: order}
		if perr != "" {
			c.Violationf("C16/validate/panic:"+perr, cs, "Validate panicked: %s; ROAs %s route %s path %s", perr, c16SetString(set), c16RoutePrefixes[rv.route], c16PathShapes[rv.shape].Name)
			continue
		}
		if covering > 0 {
			if coarseNT {
				c.NT(fmt.Sprintf("v/%d", setIdx))
			} else {
				c.NT(fmt.Sprintf("v/%d/%d", setIdx, rv.route))
			}
		}
		cls := want
		if want == c16Invalid {
			// which sub-clause made it invalid (vacuity statistics only)
			cls = "invalid(" + c16InvalidWhy(model, route, c16PathShapes[rv.shape].Segs, localAS) + ")"
		} else if want == c16NotFound {
			if _, none := c16OriginAS(c16PathShapes[rv.shape].Segs, localAS); none {
				cls = "not-found(as-set)"
			} else {
				cls = "not-found(no-covering-roa)"
			}
		} else if matching > 0 && covering > matching {
			cls = "valid(with non-matching covering ROAs)"
		}
		c.Outcome(cls)
		if c.WantSample() && covering > 1 && setIdx%977 == 5 && rv.shape == len(c.Samples) && rv.route%5 == len(c.Samples)%5 {
			c.Sample(map[string]any{"roas": c16SetString(set), "route": c16RoutePrefixes[rv.route], "as_path": c16PathShapes[rv.shape].Name, "local_as": localAS, "verdict": got})
		}
		if got != want {
			c.Violationf(fmt.Sprintf("C16/validate/verdict want=%s got=%s path=%s", want, got, c16ShapeClass(rv.shape)), cs,
				"ROAs %s, route %s AS_PATH %s (local AS %d): RFC 6811 says %s (covering=%d matching=%d), Validate says %s",
				c16SetString(set), c16RoutePrefixes[rv.route], c16PathShapes[rv.shape].Name, localAS, want, covering, matching, got)
			continue
		}
		for name, seen := range cond {
			if seen != (name == want) {
				c.Violationf("C16/validate/condition-disagrees", cs,
					"ROAs %s, route %s AS_PATH %s: verdict %s but RpkiValidationCondition(%s).Evaluate = %v",
					c16SetString(set), c16RoutePrefixes[rv.route], c16PathShapes[rv.shape].Name, want, name, seen)
			}
		}
	}
}

func c16ShapeClass(shape int) string {
	segs := c16PathShapes[shape].Segs
	if len(segs) == 0 {
		return "empty"
	}
	switch segs[len(segs)-1].T {
	case 1:
		return "set-terminated"
	case 2:
		if segs[0].T == 3 || segs[0].T == 4 {
			return "confed+seq"
		}
		return "seq"
	}
	return "confed-only"
}

func c16InvalidWhy(set []c16Roa, route c16Pfx, path []c16Seg, localAS uint32) string {
	origin, _ := c16OriginAS(path, localAS)
	asOK, lenOK, as0 := false, false, false
	for _, r := range set {
		if !c16Covers(r.P, route) {
			continue
		}
		if r.AS == 0 {
			as0 = true
		}
		if r.AS != 0 && r.AS == origin {
			asOK = true
		}
		if route.Len <= r.MaxLen {
			lenOK = true
		}
	}
	switch {
	case asOK && lenOK:
		return "as and length match only on different ROAs"
	case asOK:
		return "max-length"
	case as0 && !lenOK:
		return "as0+length"
	case as0:
		return "as0 or other as"
	}
	return "as"
}

var c16ParsedRoutes = func() []c16Pfx {
	var l []c16Pfx
	for _, s := range c16RoutePrefixes {
		l = append(l, c16ParsePfx(s))
	}
	return l
}()

func c16AllRouteVars() []c16RouteVar {
	var l []c16RouteVar
	for ri := range c16RoutePrefixes {
		for si := range c16PathShapes {
			for src := range c16LocalAS {
				l = append(l, c16RouteVar{ri, si, src, c16BuildPath(c16ParsedRoutes[ri], si, src)})
			}
		}
	}
	return l
}

// c16CheckLocal: a locally originated route (nil source, empty AS_PATH) — the property says its origin AS is
// the local AS, so SOME ROA for exactly that prefix with a non-zero AS must be able to make it Valid. The table
// package cannot know the global AS, therefore the check is existential over the AS domain {1,2}.
func c16CheckLocal(c *vr.Report) {
	for ri, route := range c16ParsedRoutes {
		p := c16BuildPath(route, 5, -1)
		verdicts := map[uint32]string{}
		anyValid := false
		hasLocalAS := false
		for _, as := range []uint32{1, 2} {
			rt := NewROATable(c16Logger)
			// the table learns the speaker's AS from the server (StartBgp); here it is AS 1
			if x, ok := any(rt).(interface{ SetLocalAS(uint32) }); ok {
				x.SetLocalAS(1)
				hasLocalAS = true
			}
			rt.Add(c16ImplROA(c16Roa{P: route, MaxLen: route.Len, AS: as}))
			got, _, perr := c16ImplValidate(rt, p)
			c.Eval()
			if perr != "" {
				c.Violationf("C16/validate/panic:"+perr, c16VCase{Kind: "local", Route: ri}, "Validate panicked on a local route: %s", perr)
				continue
			}
			verdicts[as] = got
			if got == c16Valid {
				anyValid = true
			}
		}
		// AS 0 never matches - not even a route whose origin AS evaluates to 0 (which is what a nil source gives today)
		{
			rt := NewROATable(c16Logger)
			rt.Add(c16ImplROA(c16Roa{P: route, MaxLen: route.Len, AS: 0}))
			got, _, perr := c16ImplValidate(rt, p)
			c.Eval()
			c.Outcome("local-route-vs-AS0-roa:" + got)
			if perr != "" || got != c16Invalid {
				c.Violationf("C16/validate/as0-roa-not-invalid", c16VCase{Kind: "local", Route: ri},
					"locally originated route %s covered only by an AS 0 ROA: want invalid, Validate says %s %s", c16RoutePrefixes[ri], got, perr)
			}
		}
		c.NT(fmt.Sprintf("local/%d", ri))
		c.Outcome("local-route:" + fmt.Sprint(verdicts[1], "/", verdicts[2]))
		if hasLocalAS && (verdicts[1] != c16Valid || verdicts[2] != c16Invalid) {
			c.Violationf("C16/validate/local-route-not-judged-by-local-as", c16VCase{Kind: "local", Route: ri},
				"locally originated route %s, local AS 1: exact-prefix ROA with AS 1 gives %s (want valid), with AS 2 gives %s (want invalid)", c16RoutePrefixes[ri], verdicts[1], verdicts[2])
		}
		if !anyValid {
			c.Violationf("C16/validate/local-route-origin-as-zero", c16VCase{Kind: "local", Route: ri},
				"locally originated route %s (nil source, empty AS_PATH): exact-prefix ROA with AS 1 gives %s, with AS 2 gives %s - no ROA can validate it; "+
					"Validate takes the origin AS from source.LocalAS, which is 0 for table.localSource",
				c16RoutePrefixes[ri], verdicts[1], verdicts[2])
		}
	}
}

// ---------------------------------------------------------------------------------------------
// phase 2: table maintenance against a plain set

var c16MaintUniverse = func() []c16Roa {
	var u []c16Roa
	for _, ps := range []string{"10.0.0.0/16", "10.0.0.0/24", "2001:db8::/32"} {
		p := c16ParsePfx(ps)
		for _, ml := range []int{p.Len, p.Len + 8} {
			for _, as := range []uint32{1, 2} {
				for _, src := range []string{"s1", "s2"} {
					u = append(u, c16Roa{P: p, MaxLen: ml, AS: as, Src: src})
				}
			}
		}
	}
	return u
}()

// op code: [0,N) add record i; [N,2N) delete record i-N; 2N delete-all s1; 2N+1 delete-all s2
func c16MaintOpString(op int) string {
	n := len(c16MaintUniverse)
	switch {
	case op < n:
		return "add " + c16MaintUniverse[op].String()
	case op < 2*n:
		return "del " + c16MaintUniverse[op-n].String()
	case op == 2*n:
		return "delete-all s1"
	}
	return "delete-all s2"
}

func c16ListImpl(rt *ROATable, fam bgp.Family) ([]string, string) {
	l, err := rt.List(fam)
	if err != nil {
		return nil, err.Error()
	}
	var out []string
	for _, r := range l {
		ones, _ := r.Network.Mask.Size()
		ip, ok := netip.AddrFromSlice(r.Network.IP)
		if !ok {
			return nil, "bad IP in ROA"
		}
		out = append(out, fmt.Sprintf("%s/%d-%d AS%d src=%s fam=%d", ip, ones, r.MaxLen, r.AS, r.Src, r.Family))
	}
	sort.Strings(out)
	return out, ""
}

func c16ModelList(m map[int]bool, v4, v6 bool) []string {
	var out []string
	for i := range m {
		r := c16MaintUniverse[i]
		if (r.P.V6 && !v6) || (!r.P.V6 && !v4) {
			continue
		}
		fam := bgp.AFI_IP
		var ip netip.Addr
		if r.P.V6 {
			fam = bgp.AFI_IP6
			ip = netip.AddrFrom16(r.P.Addr)
		} else {
			ip = netip.AddrFrom4([4]byte(r.P.Addr[:4]))
		}
		out = append(out, fmt.Sprintf("%s/%d-%d AS%d src=%s fam=%d", ip, r.P.Len, r.MaxLen, r.AS, r.Src, fam))
	}
	sort.Strings(out)
	return out
}

var c16MaintProbes []c16RouteVar

func c16CheckMaint(c *vr.Report, ops []int) {
	n := len(c16MaintUniverse)
	rt := NewROATable(c16Logger)
	model := map[int]bool{}
	cs := c16VCase{Kind: "maint", Ops: ops}
	var hist []string
	c.Eval()
	dup, unk, part := false, false, false
	for step, op := range ops {
		hist = append(hist, c16MaintOpString(op))
		perr := func() (perr string) {
			defer func() {
				if e := recover(); e != nil {
					perr = c16PanicSite(e)
				}
			}()
			switch {
			case op < n:
				if model[op] {
					dup = true
				}
				model[op] = true
				rt.Add(c16ImplROA(c16MaintUniverse[op]))
			case op < 2*n:
				if !model[op-n] {
					unk = true
				} else {
					for j := range model {
						if j != op-n && c16MaintUniverse[j].P == c16MaintUniverse[op-n].P {
							part = true // deleting one of several equal-prefix ROAs
						}
					}
				}
				delete(model, op-n)
				rt.Delete(c16ImplROA(c16MaintUniverse[op-n]))
			default:
				src := []string{"s1", "s2"}[op-2*n]
				for j := range model {
					if c16MaintUniverse[j].Src == src {
						delete(model, j)
					}
				}
				rt.DeleteAll(src)
			}
			return ""
		}()
		if perr != "" {
			c.Violationf("C16/maint/panic:"+perr, cs, "panic %s after %v", perr, hist)
			return
		}
		for _, f := range []struct {
			fam    bgp.Family
			v4, v6 bool
		}{{bgp.RF_IPv4_UC, true, false}, {bgp.RF_IPv6_UC, false, true}, {0, true, true}} {
			got, e := c16ListImpl(rt, f.fam)
			want := c16ModelList(model, f.v4, f.v6)
			if e != "" || strings.Join(got, ";") != strings.Join(want, ";") {
				c.Violationf(fmt.Sprintf("C16/maint/table-differs-from-set after=%s", strings.SplitN(c16MaintOpString(op), " ", 2)[0]), cs,
					"after %v (step %d) List(family %v) = %v, set model = %v %s", hist, step, f.fam, got, want, e)
				return
			}
		}
	}
	// verdict agreement on the final table (set semantics must not depend on how the table was reached)
	var set []c16Roa
	for j := range model {
		set = append(set, c16MaintUniverse[j])
	}
	for _, rv := range c16MaintProbes {
		want, _, _ := c16RefValidate(set, c16ParsedRoutes[rv.route], c16PathShapes[rv.shape].Segs, c16LocalAS[rv.src])
		got, _, perr := c16ImplValidate(rt, rv.path)
		if perr != "" || got != want {
			c.Violationf("C16/maint/verdict-after-history", cs, "after %v route %s AS_PATH %s: set model says %s, Validate says %s %s",
				hist, c16RoutePrefixes[rv.route], c16PathShapes[rv.shape].Name, want, got, perr)
			return
		}
	}
	switch {
	case dup && part:
		c.Outcome("maint:duplicate-add+partial-bucket-delete")
	case dup:
		c.Outcome("maint:duplicate-add")
	case part:
		c.Outcome("maint:delete one of several equal-prefix ROAs")
	case unk:
		c.Outcome("maint:delete-unknown")
	default:
		c.Outcome("maint:plain")
	}
	if len(ops) > 0 {
		c.NT(fmt.Sprint("m/", ops))
	}
}

// ---------------------------------------------------------------------------------------------

func TestVerif_C16(t *testing.T) {
	r := vr.Start(t, "C16", "validate")
	defer r.Finish()
	r.Rule = "phase 1: every ROA set of size <=k over the 54-record universe (6 prefixes x 3 max-lengths x AS{0,1,2}) x every route variant " +
		"(26 prefixes x 10 AS_PATH shapes x 2 local-AS sources); sets of size <=3 additionally under every other insertion order against 26 prefixes x {[1],[2],empty}; non-trivial = distinct " +
		"(set, route prefix) with at least one covering ROA (the Valid/Invalid clauses applied). phase 2: every Add/Delete/DeleteAll sequence of " +
		"length <=d over 24 records (3 prefixes x 2 max-lengths x 2 AS x 2 sources), List compared with a plain set after every step; " +
		"non-trivial = every non-empty sequence"
	r.Assumptions = append(r.Assumptions,
		"refroa: covering = ROA prefix equal or less specific (bitwise), match = AS equal and non-zero and prefix length <= max-length; origin AS per the property text",
		"a path whose last segment is a confederation segment preceded by a regular segment is not enumerated (the property is silent)")
	routes := c16AllRouteVars()
	for _, rv := range routes {
		if rv.src == 0 && (rv.shape == 0 || rv.shape == 1 || rv.shape == 5) {
			c16MaintProbes = append(c16MaintProbes, rv)
		}
	}

	if r.ReplayPath() != "" {
		var cs c16VCase
		if err := r.LoadReplay(&cs); err != nil {
			t.Fatalf("ENGINE-ERROR replay: %v", err)
		}
		switch cs.Kind {
		case "validate":
			var sel []c16RouteVar
			for _, rv := range routes {
				if rv.route == cs.Route && rv.shape == cs.Shape && rv.src == cs.Src {
					sel = append(sel, rv)
				}
			}
			c16CheckValidate(r, 0, cs.Set, cs.Order, sel, false)
		case "local":
			c16CheckLocal(r)
		case "maint":
			c16CheckMaint(r, cs.Ops)
		}
		return
	}

	k, d := 3, 3
	if vr.Thorough() {
		k, d = 4, 4
	}
	sets := c16Subsets(len(c16Universe), k)
	r.Bounds["roa_universe"] = len(c16Universe)
	r.Bounds["max_set_size"] = k
	r.Bounds["roa_sets"] = len(sets)
	r.Bounds["route_prefixes"] = len(c16RoutePrefixes)
	r.Bounds["as_path_shapes"] = len(c16PathShapes)
	r.Bounds["local_as_sources"] = len(c16LocalAS)
	r.Bounds["insertion_orders_for_sets_up_to"] = 3
	r.Bounds["maint_universe"] = len(c16MaintUniverse)
	r.Bounds["maint_max_ops"] = d

	// non-identity insertion orders are run against a reduced route list (all prefixes x {[1],[2],empty} x first source)
	var permRoutes []c16RouteVar
	for _, rv := range routes {
		if rv.src == 0 && (rv.shape == 0 || rv.shape == 1 || rv.shape == 5) {
			permRoutes = append(permRoutes, rv)
		}
	}
	r.Bounds["route_variants_identity_order"] = len(routes)
	r.Bounds["route_variants_other_orders"] = len(permRoutes)
	perms := map[int][][]int{}
	for n := 0; n <= 3; n++ {
		perms[n] = c16Perms(n)
	}
	W := vr.Workers()
	r.Parallel(W, func(w int, c *vr.Report) {
		for i, set := range sets {
			if i%W != w {
				continue
			}
			if len(set) <= 3 {
				for pi, order := range perms[len(set)] {
					if pi == 0 {
						c16CheckValidate(c, i, set, nil, routes, false)
					} else {
						c16CheckValidate(c, i, set, order, permRoutes, false)
					}
				}
			} else {
				c16CheckValidate(c, i, set, nil, routes, true)
			}
		}
	})
	c16CheckLocal(r)

	// phase 2
	nops := 2*len(c16MaintUniverse) + 2
	total := 1
	for i := 0; i < d; i++ {
		total *= nops
	}
	r.Bounds["maint_ops_alphabet"] = nops
	r.Parallel(W, func(w int, c *vr.Report) {
		for L := 1; L <= d; L++ {
			cnt := 1
			for i := 0; i < L; i++ {
				cnt *= nops
			}
			ops := make([]int, L)
			for idx := 0; idx < cnt; idx++ {
				if idx%W != w {
					continue
				}
				x := idx
				for i := L - 1; i >= 0; i-- {
					ops[i] = x % nops
					x /= nops
				}
				c16CheckMaint(c, append([]int{}, ops...))
			}
		}
	})
	_ = total
}

func c16Perms(n int) [][]int {
	var res [][]int
	var rec func(cur []int, used int)
	rec = func(cur []int, used int) {
		if len(cur) == n {
			res = append(res, append([]int{}, cur...))
			return
		}
		for i := 0; i < n; i++ {
			if used&(1<<i) == 0 {
				rec(append(cur, i), used|1<<i)
			}
		}
	}
	rec(nil, 0)
	return res
}
