#!/bin/bash
# seed_eval.sh <prop> <variant> [check-args...] : confirm a seeded change in a scratch worktree and run our check against it.
#   - applies /tmp/mut/out/<prop>/<variant>/patch.diff to a fresh worktree of /repo HEAD
#   - builds, runs the demonstration with and without the change, runs `./check <prop>` with VERIF_REPO
# Output: a summary on stdout; logs under /tmp/seedeval/<prop><variant>/
set -u
P=$1; V=$2; shift 2
SRC=${SEED_ROOT:-/tmp/mut/out}/$P/$V
WT=/tmp/seedwt-$P$V
LOG=/tmp/seedeval/$P$V; mkdir -p $LOG
export GOFLAGS=-mod=mod GOPROXY=off
git -C /repo worktree remove --force $WT >/dev/null 2>&1
git -C /repo worktree add -q --detach $WT HEAD || exit 2
cd $WT
if ! git apply $SRC/patch.diff 2>$LOG/apply.err; then echo "$P$V: PATCH DOES NOT APPLY"; cat $LOG/apply.err | head -5; exit 3; fi
if ! go build ./... >$LOG/build.log 2>&1; then echo "$P$V: DOES NOT BUILD"; tail -5 $LOG/build.log; exit 3; fi
PKG=$(head -3 $SRC/demo_test.go | grep -o -E "(pkg|internal)/[a-z/]+" | head -1)
[ -z "$PKG" ] && PKG=$(grep -m1 -o -E "(pkg|internal)/[a-zA-Z/]+" $SRC/notes.md | head -1)
cp $SRC/demo_test.go $WT/$PKG/zz_demo_${P}_${V}_test.go
RUN=$(grep -o -E "func (Test[A-Za-z0-9_]+)" $WT/$PKG/zz_demo_${P}_${V}_test.go | sed 's/func //' | paste -sd'|')
go test -count=1 -vet=off -run "^($RUN)\$" ./$PKG/ >$LOG/demo_with.log 2>&1; DW=$?
git apply -R $SRC/patch.diff
go test -count=1 -vet=off -run "^($RUN)\$" ./$PKG/ >$LOG/demo_without.log 2>&1; DWO=$?
git apply $SRC/patch.diff
rm -f $WT/$PKG/zz_demo_${P}_${V}_test.go
echo "$P$V: pkg=$PKG demo_with_change_rc=$DW (want !=0) demo_without_change_rc=$DWO (want 0)"
cd /verif
for c in "$@"; do
  VERIF_REPO=$WT ./check $c --no-evidence >$LOG/check_$(echo $c | tr ' /' '__').log 2>&1; rc=$?
  keys=$(grep -o "key=[^ ]*" $LOG/check_$(echo $c | tr ' /' '__').log | sort -u | head -5 | paste -sd' ')
  echo "$P$V: ./check $c -> rc=$rc $keys"
done
