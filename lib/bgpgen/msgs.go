package bgpgen

import (
	"fmt"
	"net/netip"

	"github.com/osrg/gobgp/v4/pkg/packet/bgp"
)

// maxOptParamCapLen is the largest serialised capability that still fits into one optional parameter
// of an OPEN whose optional-parameter length field is one octet (255 - 2 bytes parameter header).
const maxOptParamCapLen = 253

func capWireLen(c bgp.ParameterCapabilityInterface) int {
	b, err := c.Serialize()
	if err != nil {
		return 1 << 30
	}
	return len(b)
}

func openMsg(as uint16, hold uint16, id string, params ...bgp.OptionParameterInterface) *bgp.BGPMessage {
	return must(bgp.NewBGPOpenMessage(as, hold, a(id), params))
}

func capParam(c ...bgp.ParameterCapabilityInterface) bgp.OptionParameterInterface {
	return bgp.NewOptionParameterCapability(c)
}

func v4nlri(s string, id uint32) bgp.PathNLRI {
	return bgp.PathNLRI{NLRI: must(bgp.NewIPAddrPrefix(p(s))), ID: id}
}

func compatibleAS(x, y int) (int, bool) {
	if x == ASAny {
		return y, true
	}
	if y == ASAny || x == y {
		return x, true
	}
	return 0, false
}

// MsgBuilder describes one message of the catalogue and builds a fresh instance on demand. The slice
// returned by MessageBuilders is read-only and Build is pure, so workers may share it.
type MsgBuilder struct {
	Name  string
	Kind  string
	Seed  bool
	AS    int
	Ext   bool
	Build func() *bgp.BGPMessage
}

func (b MsgBuilder) Msg() Msg {
	return Msg{Name: b.Name, Kind: b.Kind, Seed: b.Seed, AS: b.AS, Ext: b.Ext, Msg: b.Build()}
}

type bm = *bgp.BGPMessage

// MessageBuilders returns the message catalogue: OPEN (field boundaries, every capability, capability
// combinations), UPDATE (every attribute alone, NLRI / withdrawn field boundaries, combinations of
// attribute-kind representatives: ordered pairs in the quick tier, additionally unordered triples in
// the thorough tier, half of them with 2 classic NLRI + 1 withdrawn route), NOTIFICATION,
// ROUTE-REFRESH and KEEPALIVE, simplest first.
func MessageBuilders(t Tier) []MsgBuilder {
	var out []MsgBuilder
	add := func(kind, n string, seed bool, as int, ext bool, mk func() bm) {
		out = append(out, MsgBuilder{Name: kind + "/" + n, Kind: kind, Seed: seed, AS: as, Ext: ext, Build: mk})
	}

	// ---- KEEPALIVE, ROUTE-REFRESH, NOTIFICATION ----
	add("keepalive", "-", true, ASAny, false, func() bm { return bgp.NewBGPKeepAliveMessage() })
	add("route-refresh", "ipv4-uc", true, ASAny, false, func() bm { return bgp.NewBGPRouteRefreshMessage(bgp.AFI_IP, 0, bgp.SAFI_UNICAST) })
	for _, afi := range u16s {
		for _, safi := range []uint8{0, 1, 0xff} {
			for _, d := range []uint8{0, 1, 2, 0xff} {
				add("route-refresh", fmt.Sprintf("afi%d-safi%d-d%d", afi, safi, d), false, ASAny, false, func() bm { return bgp.NewBGPRouteRefreshMessage(afi, d, safi) })
			}
		}
	}
	add("notification", "cease-shutdown", true, ASAny, false, func() bm {
		return bgp.NewBGPNotificationMessage(bgp.BGP_ERROR_CEASE, bgp.BGP_ERROR_SUB_ADMINISTRATIVE_SHUTDOWN, nil)
	})
	add("notification", "shutdown-communication", true, ASAny, false, func() bm {
		return bgp.NewBGPNotificationMessage(bgp.BGP_ERROR_CEASE, bgp.BGP_ERROR_SUB_ADMINISTRATIVE_SHUTDOWN, append([]byte{5}, "hello"...))
	})
	for _, c := range u8s {
		for _, s := range []uint8{0, 1, 0xff} {
			add("notification", fmt.Sprintf("code%d-sub%d", c, s), false, ASAny, false, func() bm { return bgp.NewBGPNotificationMessage(c, s, nil) })
		}
	}
	for _, n := range []int{1, 4075, 4076, 65514} { // 4075: exactly 4096 bytes; 4076: needs extended message; 65514: exactly 65535
		add("notification", fmt.Sprintf("data%d", n), false, ASAny, n > 4075, func() bm {
			return bgp.NewBGPNotificationMessage(bgp.BGP_ERROR_UPDATE_MESSAGE_ERROR, bgp.BGP_ERROR_SUB_MALFORMED_ATTRIBUTE_LIST, bytesN(n, 0))
		})
	}

	// ---- OPEN ----
	add("open", "nocap", true, ASAny, false, func() bm { return openMsg(65001, 90, "192.0.2.1") })
	for _, as := range []uint16{0, 1, 23456, 0xffff} {
		for _, hold := range []uint16{0, 3, 0xffff} {
			for _, id := range []string{"0.0.0.1", "255.255.255.255"} {
				add("open", fmt.Sprintf("as%d-hold%d-id%s", as, hold, id), false, ASAny, false, func() bm { return openMsg(as, hold, id) })
			}
		}
	}
	reps := map[string]bool{}
	for i, c := range Capabilities() {
		if capWireLen(c.Cap) > maxOptParamCapLen {
			continue
		}
		k := kindOf(c.Name)
		add("open", "cap-"+c.Name, !reps[k], ASAny, false, func() bm { return openMsg(65001, 90, "192.0.2.1", capParam(Capabilities()[i].Cap)) })
		reps[k] = true
	}
	add("open", "unknown-optparam", true, ASAny, false, func() bm {
		return openMsg(65001, 90, "192.0.2.1", &bgp.OptionParameterUnknown{ParamType: 1, Value: []byte{1, 2, 3}})
	})
	add("open", "unknown-optparam-empty+cap", false, ASAny, false, func() bm {
		return openMsg(65001, 90, "192.0.2.1", &bgp.OptionParameterUnknown{ParamType: 255}, capParam(bgp.NewCapRouteRefresh()))
	})
	// all representatives: in one parameter, and one parameter each (both fit in 255 bytes)
	add("open", "all-reps-one-param", true, ASAny, false, func() bm {
		var all []bgp.ParameterCapabilityInterface
		for _, c := range CapabilityReps() {
			all = append(all, c.Cap)
		}
		return openMsg(65001, 90, "192.0.2.1", capParam(all...))
	})
	add("open", "all-reps-param-each", true, ASAny, false, func() bm {
		var each []bgp.OptionParameterInterface
		for _, c := range CapabilityReps() {
			each = append(each, capParam(c.Cap))
		}
		return openMsg(65001, 90, "192.0.2.1", each...)
	})
	rnames := CapabilityReps()
	nrep := len(rnames)
	for i := 0; i < nrep; i++ {
		for j := 0; j < nrep; j++ {
			if i == j {
				continue
			}
			add("open", fmt.Sprintf("caps-%s+%s", rnames[i].Name, rnames[j].Name), false, ASAny, false, func() bm {
				r := CapabilityReps()
				return openMsg(65001, 90, "192.0.2.1", capParam(r[i].Cap, r[j].Cap))
			})
		}
	}
	if t == Thorough {
		for i := 0; i < nrep; i++ {
			for j := i + 1; j < nrep; j++ {
				for k := j + 1; k < nrep; k++ {
					add("open", fmt.Sprintf("caps-%s+%s+%s", rnames[i].Name, rnames[j].Name, rnames[k].Name), false, ASAny, false, func() bm {
						r := CapabilityReps()
						return openMsg(65001, 90, "192.0.2.1", capParam(r[i].Cap), capParam(r[j].Cap, r[k].Cap))
					})
				}
			}
		}
	}

	// ---- UPDATE ----
	upd := func(w []bgp.PathNLRI, attrs []pa, n []bgp.PathNLRI) bm { return bgp.NewBGPUpdateMessage(w, attrs, n) }
	add("update", "eor-ipv4", true, ASAny, false, func() bm { return bgp.NewEndOfRib(bgp.RF_IPv4_UC) })
	add("update", "eor-ipv6", true, ASAny, false, func() bm { return bgp.NewEndOfRib(bgp.RF_IPv6_UC) })
	base := func() []pa {
		return []pa{bgp.NewPathAttributeOrigin(0), bgp.NewPathAttributeAsPath(nil), must(bgp.NewPathAttributeNextHop(a("192.0.2.1")))}
	}
	add("update", "basic-announce", true, ASAny, false, func() bm { return upd(nil, base(), []bgp.PathNLRI{v4nlri("10.1.2.0/24", 0)}) })
	add("update", "basic-withdraw", true, ASAny, false, func() bm { return upd([]bgp.PathNLRI{v4nlri("10.1.2.0/24", 0)}, nil, nil) })
	add("update", "announce+withdraw-pathid", true, ASAny, false, func() bm {
		return upd([]bgp.PathNLRI{v4nlri("10.0.0.0/8", 1)}, base(), []bgp.PathNLRI{v4nlri("10.1.2.0/24", 0xffffffff)})
	})
	for _, px := range v4Prefixes() {
		for _, id := range pathIDs {
			add("update", fmt.Sprintf("nlri-%s-id%d", px, id), false, ASAny, false, func() bm { return upd(nil, base(), []bgp.PathNLRI{v4nlri(px.String(), id)}) })
			add("update", fmt.Sprintf("withdrawn-%s-id%d", px, id), false, ASAny, false, func() bm { return upd([]bgp.PathNLRI{v4nlri(px.String(), id)}, nil, nil) })
		}
	}
	for i, px := range v4Prefixes() {
		q := v4Prefixes()[(i+1)%len(v4Prefixes())]
		add("update", fmt.Sprintf("nlri2-%s,%s", px, q), false, ASAny, false, func() bm {
			return upd(nil, base(), []bgp.PathNLRI{v4nlri(px.String(), 1), v4nlri(q.String(), 2)})
		})
		add("update", fmt.Sprintf("withdrawn2+nlri-%s,%s", px, q), false, ASAny, false, func() bm {
			return upd([]bgp.PathNLRI{v4nlri(px.String(), 1), v4nlri(q.String(), 2)}, base(), []bgp.PathNLRI{v4nlri(q.String(), 3)})
		})
	}
	// 450 /24 prefixes = 1800 bytes, 3600 with ADD-PATH (fits 4096); 1100 = 4400 / 8800 bytes (needs extended message)
	for _, n := range []int{450, 1100} {
		add("update", fmt.Sprintf("nlri-x%d", n), false, ASAny, n > 1000, func() bm {
			var l []bgp.PathNLRI
			for i := 0; i < n; i++ {
				l = append(l, bgp.PathNLRI{NLRI: must(bgp.NewIPAddrPrefix(netip.PrefixFrom(netip.AddrFrom4([4]byte{10, byte(i >> 8), byte(i), 0}), 24)))})
			}
			return upd(nil, base(), l)
		})
	}
	bs := AttributeBuilders()
	for _, b := range bs {
		add("update", "attr-"+b.Name, b.Rep, b.AS, false, func() bm { return upd(nil, []pa{b.Build()}, nil) })
	}
	var rb []AttrBuilder
	for _, b := range bs {
		if b.Rep {
			rb = append(rb, b)
		}
	}
	for _, b := range rb {
		// representative inside a complete announcement (mandatory attributes first, classic NLRI after)
		if b.Kind == "origin" || b.Kind == "nexthop" {
			continue
		}
		add("update", "full-"+b.Name, false, b.AS, false, func() bm {
			attrs := base()
			if b.Kind == "aspath4" || b.Kind == "aspath2" {
				attrs[1] = b.Build()
			} else {
				attrs = append(attrs, b.Build())
			}
			return upd(nil, attrs, []bgp.PathNLRI{v4nlri("10.1.2.0/24", 1)})
		})
	}
	for i, x := range rb {
		for j, y := range rb {
			if i == j {
				continue
			}
			as, ok := compatibleAS(x.AS, y.AS)
			if !ok {
				continue
			}
			add("update", "pair-"+x.Name+"+"+y.Name, false, as, false, func() bm { return upd(nil, []pa{x.Build(), y.Build()}, nil) })
		}
	}
	if t == Thorough {
		for i := range rb {
			for j := i + 1; j < len(rb); j++ {
				as2, ok := compatibleAS(rb[i].AS, rb[j].AS)
				if !ok {
					continue
				}
				for k := j + 1; k < len(rb); k++ {
					as, ok := compatibleAS(as2, rb[k].AS)
					if !ok {
						continue
					}
					withNLRI := (i+j+k)%2 == 0 // half of the triples also carry 2 classic NLRI and a withdrawn route
					add("update", "triple-"+rb[i].Name+"+"+rb[j].Name+"+"+rb[k].Name, false, as, false, func() bm {
						var w, n []bgp.PathNLRI
						if withNLRI {
							w = []bgp.PathNLRI{v4nlri("10.0.0.0/8", 1)}
							n = []bgp.PathNLRI{v4nlri("10.1.2.0/24", 2), v4nlri("255.255.255.255/32", 3)}
						}
						return upd(w, []pa{rb[i].Build(), rb[j].Build(), rb[k].Build()}, n)
					})
				}
			}
		}
	}
	return out
}

// Messages returns one fresh instance of every item of the message catalogue (quick: ~27 000; the
// thorough catalogue has ~700 000 items: prefer MessageBuilders and build on demand).
func Messages(t Tier) []Msg {
	bs := MessageBuilders(t)
	out := make([]Msg, 0, len(bs))
	for _, b := range bs {
		out = append(out, b.Msg())
	}
	return out
}

// SeedMessages returns the small catalogue used as mutation seeds: the simplest message of every
// message type, every capability code, every attribute kind and every address family.
func SeedMessages() []Msg {
	var out []Msg
	for _, b := range MessageBuilders(Quick) {
		if b.Seed {
			out = append(out, b.Msg())
		}
	}
	return out
}
