//go:build verifshim

package server

import (
	"context"
	"fmt"
	"net/netip"
	"sort"
	"testing"
	"time"

	api "github.com/osrg/gobgp/v4/api"
	"github.com/osrg/gobgp/v4/internal/pkg/table"
	"github.com/osrg/gobgp/v4/internal/verif/vr"
	"github.com/osrg/gobgp/v4/pkg/apiutil"
	"github.com/osrg/gobgp/v4/pkg/config/oc"
	"github.com/osrg/gobgp/v4/pkg/packet/bgp"
)

// C20, schedule part: every pair of concurrent operations (peer traffic, session flaps, management
// critical sections) under every interleaving up to the preemption bound: no deadlock, every thread
// completes, no panic, and the final state is consistent (C01/C02 oracles).

type c20Op struct {
	name string
	role string // recv | fsm | mgmt
	body func(w *schedWorld, peers []*peer) func()
}

func c20Ops() []c20Op {
	rs := &simRoutesScenario{}
	ann := func(w *schedWorld, bot, pfx, variant int) *bgp.BGPMessage {
		return rs.updateMsg(w.bots[bot], pfx, variant, 0, false)
	}
	mg := func(f func(w *schedWorld) error) func(w *schedWorld, peers []*peer) func() {
		return func(w *schedWorld, peers []*peer) func() {
			return func() { _ = w.mgmt(func() error { return f(w) }) }
		}
	}
	return []c20Op{
		{"updA", "recv", func(w *schedWorld, p []*peer) func() { return func() { w.receiveOn(p[0], w.bots[0], ann(w, 0, 0, 1)) } }},
		{"wdA", "recv", func(w *schedWorld, p []*peer) func() {
			return func() { w.receiveOn(p[0], w.bots[0], rs.updateMsg(w.bots[0], 0, 0, 0, true)) }
		}},
		{"updB", "recv", func(w *schedWorld, p []*peer) func() { return func() { w.receiveOn(p[1], w.bots[1], ann(w, 1, 0, 1)) } }},
		{"updBQ", "recv", func(w *schedWorld, p []*peer) func() { return func() { w.receiveOn(p[1], w.bots[1], ann(w, 1, 1, 0)) } }},
		{"rrB", "recv", func(w *schedWorld, p []*peer) func() {
			return func() { w.receiveOn(p[1], w.bots[1], bgp.NewBGPRouteRefreshMessage(1, 0, 1)) }
		}},
		{"downA", "fsm", func(w *schedWorld, p []*peer) func() {
			return func() { w.stateChangeOn(p[0], bgp.BGP_FSM_IDLE, fsmReadFailed) }
		}},
		{"estD", "fsm", func(w *schedWorld, p []*peer) func() {
			return func() { w.stateChangeOn(p[3], bgp.BGP_FSM_ESTABLISHED, fsmOpenMsgNegotiated) }
		}},
		{"softin", "mgmt", mg(func(w *schedWorld) error { return w.s.softResetIn("", bgp.Family(0)) })},
		{"softout", "mgmt", mg(func(w *schedWorld) error { return w.s.softResetOut("", bgp.Family(0), false) })},
		{"delA", "mgmt", mg(func(w *schedWorld) error {
			return w.s.deleteNeighbor(&oc.Neighbor{Config: oc.NeighborConfig{NeighborAddress: w.bots[0].addr()}}, bgp.BGP_ERROR_CEASE, bgp.BGP_ERROR_SUB_PEER_DECONFIGURED, false)
		})},
		{"delB", "mgmt", mg(func(w *schedWorld) error {
			return w.s.deleteNeighbor(&oc.Neighbor{Config: oc.NeighborConfig{NeighborAddress: w.bots[1].addr()}}, bgp.BGP_ERROR_CEASE, bgp.BGP_ERROR_SUB_PEER_DECONFIGURED, false)
		})},
		{"addpath", "mgmt", mg(func(w *schedWorld) error {
			attrs, fam, nlri := rs.attrs(nil, 0, 0)
			path, err := apiutil2Path(&apiutil.Path{Family: fam, Nlri: nlri, Attrs: attrs}, false)
			if err != nil {
				return err
			}
			return w.s.addPathList("", []*table.Path{path})
		})},
		{"disableA", "mgmt", mg(func(w *schedWorld) error { return w.s.setAdminState(w.bots[0].addr().String(), "", adminStateDown) })},
		{"setpol", "mgmt", mg(func(w *schedWorld) error {
			sets, pol := c20Policy()
			rp, err := newRoutingPolicyFromApiStruct(&api.SetPoliciesRequest{DefinedSets: sets, Policies: []*api.Policy{pol},
				Assignments: []*api.PolicyAssignment{{Name: table.GLOBAL_RIB_NAME, Direction: api.PolicyDirection_POLICY_DIRECTION_EXPORT,
					Policies: []*api.Policy{pol}, DefaultAction: api.RouteAction_ROUTE_ACTION_ACCEPT}}})
			if err != nil {
				return err
			}
			ap := map[string]oc.ApplyPolicy{table.GLOBAL_RIB_NAME: {Config: oc.ApplyPolicyConfig{ExportPolicyList: []string{pol.Name}, DefaultExportPolicy: oc.DEFAULT_POLICY_TYPE_ACCEPT_ROUTE, DefaultImportPolicy: oc.DEFAULT_POLICY_TYPE_ACCEPT_ROUTE}}}
			for _, p := range w.s.neighborMap {
				ap[p.ID()] = oc.ApplyPolicy{}
			}
			return w.s.policy.Reset(rp, ap)
		})},
		{"addvrf", "mgmt", mg(func(w *schedWorld) error {
			rd := bgp.NewRouteDistinguisherTwoOctetAS(65000, 1)
			rt := bgp.NewTwoOctetAsSpecificExtended(bgp.EC_SUBTYPE_ROUTE_TARGET, 65000, 1, true)
			pi := &table.PeerInfo{AS: w.s.bgpConfig.Global.Config.As, LocalID: w.s.bgpConfig.Global.Config.RouterId}
			pl, err := w.s.globalRib.AddVrf("v1", 1, rd, []bgp.ExtendedCommunityInterface{rt}, []bgp.ExtendedCommunityInterface{rt}, pi)
			if err == nil && len(pl) > 0 {
				w.s.propagateUpdate(nil, pl)
			}
			return err
		})},
	}
}

func c20Policy() ([]*api.DefinedSet, *api.Policy) {
	sets := []*api.DefinedSet{{DefinedType: api.DefinedType_DEFINED_TYPE_PREFIX, Name: "c20ps",
		Prefixes: []*api.Prefix{{IpPrefix: simPrefixes[1], MaskLengthMin: 24, MaskLengthMax: 24}}}}
	st := &api.Statement{Name: "c20st", Conditions: &api.Conditions{PrefixSet: &api.MatchSet{Type: api.MatchSet_TYPE_ANY, Name: "c20ps"}},
		Actions: &api.Actions{RouteAction: api.RouteAction_ROUTE_ACTION_REJECT}}
	return sets, &api.Policy{Name: "c20pol", Statements: []*api.Statement{st}}
}

var c20Pairs [][2]string

func init() {
	ops := c20Ops()
	byName := map[string]c20Op{}
	for _, o := range ops {
		byName[o.name] = o
	}
	for i, a := range ops {
		for _, b := range ops[i+1:] {
			if a.role == "mgmt" && b.role == "mgmt" {
				continue // management operations are serialised by the Serve loop
			}
			if (a.name == "updA" || a.name == "wdA") && (b.name == "wdA" || b.name == "downA") {
				continue // one session: its receive loop is sequential and is joined before its state change
			}
			a, b := a, b
			name := "c20." + a.name + "+" + b.name
			c20Pairs = append(c20Pairs, [2]string{a.name, b.name})
			schedScenarios[name] = &schedScenario{Name: name,
				Setup: func(w *schedWorld) []schedThread {
					c01SchedBots(w, 4)
					for _, bb := range w.bots[:3] {
						w.establish(bb)
					}
					rs := &simRoutesScenario{}
					w.receive(w.bots[0], rs.updateMsg(w.bots[0], 0, 0, 0, false))
					w.receive(w.bots[2], rs.updateMsg(w.bots[2], 1, 0, 0, false))
					w.prepare(w.bots[3])
					w.settleSetup()
					var peers []*peer
					for _, bb := range w.bots {
						peers = append(peers, w.peer(bb))
					}
					return []schedThread{{a.name, a.body(w, peers)}, {b.name, b.body(w, peers)}}
				},
				Check: func(w *schedWorld) {
					if a.name == "setpol" || b.name == "setpol" {
						// after a policy change without a soft reset what peers hold legitimately
						// differs from a fresh export (that is C15's subject)
						c02SchedCheck(w, "c20:rib-only")
						return
					}
					c02SchedCheck(w, "c20")
				}}
		}
	}
	sort.Slice(c20Pairs, func(i, j int) bool { return c20Pairs[i][0]+c20Pairs[i][1] < c20Pairs[j][0]+c20Pairs[j][1] })
	_ = netip.Addr{}
}

// Dynamic neighbours: a dynamic peer whose session ends non-gracefully is stopped by its own FSM
// callback AFTER the callback has dropped the shared read lock and re-taken it as a write lock
// (handleFSMMessage's deferred function). Whatever the management goroutine does in that window must
// survive the late stop. Scenario: dynamic peer D1 (address A) loses its session || the management
// goroutine deletes A and accepts a new connection from A (= dynamic peer D2 enters the neighbour map).
// D1 is created the way passConnToPeer creates a dynamic peer (newDynamicPeer, SetPeerPolicy, map entry,
// startFsmHandler) minus the connection; D2 likewise, minus the FSM goroutine (it would be a goroutine
// born inside the scheduled phase, outside the explorer's control) — its map entry is what is at stake.
type c20DynState struct {
	d1, d2    *peer
	inserted  bool
	d2Stopped bool
}

var c20Dyn = map[*schedWorld]*c20DynState{}

func init() {
	name := "c20.dyn.downA+delA-acceptA"
	schedScenarios[name] = &schedScenario{Name: name,
		Setup: func(w *schedWorld) []schedThread {
			ctx := context.Background()
			w.must(w.s.AddPeerGroup(ctx, &api.AddPeerGroupRequest{PeerGroup: &api.PeerGroup{Conf: &api.PeerGroupConf{PeerGroupName: "pg", PeerAsn: 65001}}}))
			w.must(w.s.AddDynamicNeighbor(ctx, &api.AddDynamicNeighborRequest{DynamicNeighbor: &api.DynamicNeighbor{Prefix: "10.0.0.0/24", PeerGroup: "pg"}}))
			spec := simBotKinds['e'](0)
			b := &simBot{w: w.simWorld, idx: 0, spec: spec, view: map[string]string{}}
			w.bots = append(w.bots, b)
			st := &c20DynState{}
			c20Dyn[w] = st
			mk := func() *peer {
				var p *peer
				w.must(w.s.mgmtOperation(func() error {
					pg := w.s.matchLongestDynamicNeighborPrefix(b.addr().String())
					if pg == nil {
						return fmt.Errorf("no dynamic-neighbour prefix matches %s", b.addr())
					}
					p = newDynamicPeer(&w.s.bgpConfig.Global, b.addr().String(), pg.Conf, w.s.globalRib, w.s.policy, w.s.logger)
					if p == nil {
						return fmt.Errorf("newDynamicPeer failed")
					}
					return w.s.policy.SetPeerPolicy(p.ID(), p.fsm.pConf.ReadOnly().ApplyPolicy)
				}, false))
				return p
			}
			st.d1 = mk()
			w.must(w.s.mgmtOperation(func() error {
				w.s.neighborMap[b.addr()] = st.d1
				w.s.startFsmHandler(st.d1)
				return nil
			}, false))
			w.everPeer = append(w.everPeer, st.d1)
			if !st.d1.isDynamicNeighbor() {
				panic("c20.dyn: D1 is not a dynamic neighbour")
			}
			// a static observer peer
			w.addBot(simBotKinds['e'](1))
			w.bots[1].idx = 1
			w.advance(time.Second)
			w.establish(b)
			w.establish(w.bots[1])
			rs := &simRoutesScenario{}
			w.receive(b, rs.updateMsg(b, 0, 0, 0, false))
			w.settleSetup()
			st.d2 = mk()
			w.everPeer = append(w.everPeer, st.d2) // its outgoing queue is closed at teardown
			// no FSM goroutine for D2 (see above): a handler whose only job is to record the stop request
			st.d2.fsm.h = &fsmHandler{fsm: st.d2.fsm, ctxCancel: func() { st.d2Stopped = true }}
			return []schedThread{
				{"downA", func() {
					// the tail of fsmHandler.loop for D1 (not for whoever holds the address by now)
					if w.stopped[st.d1] {
						return // loop: "if ctx.Err() != nil { break }" before the callback
					}
					p := st.d1
					r := newfsmStateReason(fsmReadFailed, nil, nil)
					p.fsm.stateChange(bgp.BGP_FSM_IDLE, r)
					p.fsm.h.callback(&fsmMsg{MsgType: fsmMsgStateChange, MsgData: bgp.BGP_FSM_IDLE, StateReason: r})
					p.fsm.state.Store(bgp.BGP_FSM_IDLE)
				}},
				{"delA-acceptA", func() {
					_ = w.mgmt(func() error {
						_ = w.s.deleteNeighbor(&oc.Neighbor{Config: oc.NeighborConfig{NeighborAddress: b.addr()}}, bgp.BGP_ERROR_CEASE, bgp.BGP_ERROR_SUB_PEER_DECONFIGURED, false)
						// passConnToPeer for an address without a peer: the new dynamic peer enters the map
						if _, found := w.s.neighborMap[b.addr()]; !found {
							w.s.neighborMap[b.addr()] = st.d2
							st.inserted = true
						}
						return nil
					})
				}},
			}
		},
		Check: func(w *schedWorld) {
			st := c20Dyn[w]
			delete(c20Dyn, w)
			b := w.bots[0]
			cur := w.s.neighborMap[b.addr()]
			switch {
			case st.inserted && cur != st.d2:
				w.violate("C20:dynamic-peer:successor-dropped-by-late-stop", "a new dynamic peer for %s entered the neighbour map while the old one was being stopped; after both threads finished the map holds %v for that address: the late stopNeighbor of the old peer removed its successor (whose FSM nobody can reach any more)", b.addr(), cur)
			case !st.inserted && cur == st.d1:
				w.stat("dyn:old-peer-still-in-map-when-connection-arrived")
			}
			if st.inserted {
				w.stat("dyn:successor-inserted")
			}
			if !w.stopped[st.d1] {
				w.violate("C20:dynamic-peer:old-peer-not-stopped", "the dynamic peer whose session ended was never asked to stop its FSM")
			}
			if st.d2Stopped {
				w.violate("C20:dynamic-peer:successor-stopped", "the new dynamic peer was asked to stop although nobody deleted it")
			}
			c02SchedCheck(w, "c20:rib-only")
		}}
}

// A reflected route from an iBGP peer (ORIGINATOR_ID + CLUSTER_LIST, so that every loop check of the
// receive path runs, including the callbacks that consult the neighbour map) against a management
// critical section: with writer preference modelled, a read lock taken again inside the read-locked
// receive path while the management goroutine waits for the write lock is a deadlock.
func init() {
	name := "c20.ibgp.updCL+addpath"
	schedScenarios[name] = &schedScenario{Name: name,
		Setup: func(w *schedWorld) []schedThread {
			w.addBot(simBotKinds['i'](0))
			w.addBot(simBotKinds['e'](1))
			w.advance(time.Second)
			for _, bb := range w.bots {
				w.establish(bb)
			}
			w.settleSetup()
			rs := &simRoutesScenario{}
			b := w.bots[0]
			attrs, _, nlri := rs.attrs(b, 0, 0)
			oid, err := bgp.NewPathAttributeOriginatorId(netip.MustParseAddr("7.7.7.7"))
			if err != nil {
				panic(err)
			}
			attrs = append(attrs, oid, c20ClusterList("10.8.8.8"))
			msg := bgp.NewBGPUpdateMessage(nil, attrs, []bgp.PathNLRI{{NLRI: nlri}})
			p0 := w.peer(b)
			return []schedThread{
				{"updCL", func() { w.receiveOn(p0, b, msg) }},
				{"addpath", func() {
					_ = w.mgmt(func() error {
						a, fam, n := rs.attrs(nil, 1, 0)
						path, err := apiutil2Path(&apiutil.Path{Family: fam, Nlri: n, Attrs: a}, false)
						if err != nil {
							return err
						}
						return w.s.addPathList("", []*table.Path{path})
					})
				}},
			}
		},
		Check: func(w *schedWorld) { c02SchedCheck(w, "c20:rib-only") }}
}

func c20ClusterList(ids ...string) bgp.PathAttributeInterface {
	var l []netip.Addr
	for _, s := range ids {
		l = append(l, netip.MustParseAddr(s))
	}
	a, err := bgp.NewPathAttributeClusterList(l)
	if err != nil {
		panic(err)
	}
	return a
}

func TestVerif_C20_Sched(t *testing.T) {
	r := vr.Start(t, "C20", "sched")
	defer r.Finish()
	r.Rule = "for every pair of operations from {UPDATE / withdraw on peer A, UPDATE on peer B (same / other prefix), ROUTE-REFRESH from B, session loss of A, Established of a new peer D} x {the same, soft reset in / out, DeletePeer A / B, AddPath, DisablePeer A, policy replacement, AddVrf}, plus {session loss of a DYNAMIC peer} x {DeletePeer of it followed by a new connection from its address}: stateless DFS over the interleavings of the two threads at every lock / atomic / sync.Map operation up to the preemption bound; oracle per complete execution: no deadlock, both threads complete, no panic, consistent final RIBs and views; non-trivial = distinct final daemon state"
	r.Assumptions = append(r.Assumptions, "scheduling points at synchronisation operations only", "watchers and gRPC streaming are exercised by the race part only")
	if r.ReplayPath() != "" {
		var rp schedReplay
		if err := r.LoadReplay(&rp); err != nil {
			t.Fatal(err)
		}
		schedReplayOne(t, r, rp)
		return
	}
	bound, budget := 1, 25*time.Second
	names := []string{"c20.dyn.downA+delA-acceptA", "c20.ibgp.updCL+addpath", "c20.updA+softout", "c20.updB+delA", "c20.downA+softin", "c20.estD+setpol", "c20.updBQ+estD", "c20.downA+estD", "c20.rrB+softout", "c20.updA+disableA"}
	if vr.Thorough() {
		budget = 3 * time.Minute
		names = nil
		names = append(names, "c20.dyn.downA+delA-acceptA", "c20.ibgp.updCL+addpath")
		for _, p := range c20Pairs {
			names = append(names, "c20."+p[0]+"+"+p[1])
		}
	}
	for _, n := range names {
		if schedScenarios[n] == nil {
			t.Fatalf("ENGINE-ERROR unknown pair %s", n)
		}
		schedExploreSharded(t, r, n, bound, 1, budget)
	}
	r.Bounds["pairs"] = len(names)
}
