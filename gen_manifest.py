#!/usr/bin/env python3
"""Regenerates MANIFEST.json from checks.json (single source of truth for what is claimed)."""
import json, os
V = os.path.dirname(os.path.abspath(__file__))
import importlib.machinery, importlib.util
_l = importlib.machinery.SourceFileLoader("vcheck", os.path.join(V, "check"))
_s = importlib.util.spec_from_loader("vcheck", _l); _m = importlib.util.module_from_spec(_s); _l.exec_module(_m)
c = _m.load_checks()
props = [json.loads(l)["id"] for l in open(os.path.join(V, "properties.jsonl")) if l.strip()]
claimed = [x["id"] for x in c["checks"]]
m = {
 "version": 1,
 "setup_cmd": "./setup.sh",
 "hooks": c["hooks"],
 "engines": c["engines"],
 "checks": [],
 "not_applicable": [],
 "notes": c.get("notes", ""),
}
for x in c["checks"]:
    m["checks"].append({
        "property_id": x["id"],
        "quick_cmd": "./check %s --tier quick" % x["id"],
        "thorough_cmd": "./check %s --tier thorough" % x["id"],
        "evidence_file": "/verif/evidence/%s.json" % x["id"],
        "replay_cmd_template": "./check %s --replay {path}" % x["id"],
        "engine": x.get("engine", ""),
        "level_claimed": {"category": x["level"], "text": x["level_text"], "design_ref": x.get("design_ref", "DESIGN.md section 5 (%s)" % x["id"])},
        "level_note": x["level_note"],
        "technique": x["technique"],
    })
na = c.get("not_applicable", {})
for p in props:
    if p not in claimed:
        m["not_applicable"].append({"property_id": p, "reason": na.get(p, "check not built yet in this session; see DESIGN.md section 5 for the planned bounded-exhaustive design")})
json.dump(m, open(os.path.join(V, "MANIFEST.json"), "w"), indent=1)
print("claimed:", claimed)
