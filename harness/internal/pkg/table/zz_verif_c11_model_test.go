package table

// C11 — UPDATE packing preserves the route changes and respects the message size limit.
//
// This file: the plain-data description of routes, an independent encoder of the expected attribute
// bytes (RFC 4271 4.3 / RFC 4760 / RFC 4364 framing, written from the RFCs), the receiver (refwire
// framing + a small VPNv4 NLRI reader) and the oracle that both parts (lists, boundary) share.
// Nothing here calls CreateUpdateMsgFromPaths or a gobgp decoder to obtain an expected value.

import (
	"context"
	"encoding/binary"
	"fmt"
	"hash/fnv"
	"io"
	"log/slog"
	"net/netip"
	"path/filepath"
	"runtime"
	"sort"
	"strconv"
	"strings"
	"sync"
	"time"

	"github.com/osrg/gobgp/v4/internal/verif/refwire"
	"github.com/osrg/gobgp/v4/internal/verif/vr"
	"github.com/osrg/gobgp/v4/pkg/packet/bgp"
)

// wire families handled by the receiver
const (
	c11V4  = 0 // IPv4 unicast (1/1)
	c11V6  = 1 // IPv6 unicast (2/1)
	c11VPN = 2 // VPNv4 (1/128)
)

var c11FamName = []string{"ipv4", "ipv6", "vpnv4"}
var c11Families = []bgp.Family{bgp.RF_IPv4_UC, bgp.RF_IPv6_UC, bgp.RF_IPv4_VPN}

const (
	c11Ann = 0
	c11Wd  = 1
	c11EOR = 2
)

var c11KindName = []string{"announce", "withdraw", "eor"}

// fixed VPNv4 decoration: RD type 0 65000:1, one label 100 (bottom of stack)
var c11RD = []byte{0, 0, 0xfd, 0xe8, 0, 0, 0, 1}
var c11Label = []byte{0x00, 0x06, 0x41}

const c11FillerType = 250 // unassigned attribute type code, sent as optional transitive

var c11Time = time.Unix(1700000000, 0)

// ---- plain data -------------------------------------------------------------------------------

type c11Prefix struct {
	Fam  int    `json:"fam"`
	Bits int    `json:"bits"`
	Addr []byte `json:"addr"` // 4 octets (ipv4, vpnv4) or 16 (ipv6), host bits zero
}

func (p c11Prefix) String() string {
	a, _ := netip.AddrFromSlice(p.Addr)
	s := fmt.Sprintf("%s/%d", a, p.Bits)
	if p.Fam == c11VPN {
		s = "65000:1:" + s
	}
	return s
}

// c11AttrSpec is one attribute set. NH: 4 octets (IPv4 next hop), 16 (IPv6 global) or 32 (global +
// link-local). A VPNv4 route has a 4-octet NH which travels as RD 0:0 + address (12 octets).
type c11AttrSpec struct {
	Origin uint8    `json:"origin"`
	ASPath []uint32 `json:"aspath"`
	MED    int64    `json:"med"` // -1 absent
	Comm   []uint32 `json:"comm,omitempty"`
	Filler int      `json:"filler"` // -1 absent, else value length of an attribute of type 250
	NH     []byte   `json:"nh"`
	MP     bool     `json:"mp,omitempty"` // ipv4 with an IPv4 next hop: the route arrives with MP_REACH_NLRI instead of NEXT_HOP
}

func c11Blob(flags, typ byte, val []byte) []byte {
	if len(val) > 255 {
		return append([]byte{flags | 0x10, typ, byte(len(val) >> 8), byte(len(val))}, val...)
	}
	return append([]byte{flags, typ, byte(len(val))}, val...)
}

func c11FillerValue(n int) []byte {
	b := make([]byte, n)
	for i := range b {
		b[i] = byte(i*7 + 3)
	}
	return b
}

// c11OtherAttrs encodes every attribute except the next hop (NEXT_HOP / MP_REACH_NLRI).
func c11OtherAttrs(a c11AttrSpec) [][]byte {
	var out [][]byte
	out = append(out, c11Blob(0x40, 1, []byte{a.Origin}))
	seg := []byte{2, byte(len(a.ASPath))}
	for _, as := range a.ASPath {
		seg = binary.BigEndian.AppendUint32(seg, as)
	}
	out = append(out, c11Blob(0x40, 2, seg))
	if a.MED >= 0 {
		out = append(out, c11Blob(0x80, 4, binary.BigEndian.AppendUint32(nil, uint32(a.MED))))
	}
	if len(a.Comm) > 0 {
		var v []byte
		for _, c := range a.Comm {
			v = binary.BigEndian.AppendUint32(v, c)
		}
		out = append(out, c11Blob(0xc0, 8, v))
	}
	if a.Filler >= 0 {
		out = append(out, c11Blob(0xc0, c11FillerType, c11FillerValue(a.Filler)))
	}
	return out
}

// c11Canon is the order-insensitive form of a list of attribute encodings.
func c11Canon(blobs [][]byte) string {
	s := make([]string, len(blobs))
	for i, b := range blobs {
		s[i] = string(b)
	}
	sort.Slice(s, func(i, j int) bool {
		if s[i][1] != s[j][1] {
			return s[i][1] < s[j][1]
		}
		return s[i] < s[j]
	})
	return strings.Join(s, "")
}

// c11Rec is what a receiver knows about an announced route.
type c11Rec struct {
	Attrs string // canonical bytes of all attributes except NEXT_HOP, MP_REACH_NLRI, MP_UNREACH_NLRI
	NH    string // next hop octets as on the wire (+ the label octets for VPNv4)
}

func c11WireNH(fam int, nh []byte) string {
	if fam == c11VPN {
		return string(make([]byte, 8)) + string(nh) + "|" + string(c11Label)
	}
	return string(nh)
}

func c11ExpectedRec(fam int, a c11AttrSpec) c11Rec {
	return c11Rec{Attrs: c11Canon(c11OtherAttrs(a)), NH: c11WireNH(fam, a.NH)}
}

// c11NLRILen is the wire length of one NLRI tuple without a path identifier.
func c11NLRILen(fam, bits int) int {
	n := 1 + (bits+7)/8
	if fam == c11VPN {
		n += 3 + 8
	}
	return n
}

func c11IsClassic(fam int, a c11AttrSpec) bool { return fam == c11V4 && len(a.NH) == 4 }

// c11MsgLen is the length of the smallest UPDATE that announces routes whose NLRI tuples take
// nlriTotal octets together with attribute set a.
func c11MsgLen(fam int, a c11AttrSpec, otherLen, nlriTotal int) int {
	if c11IsClassic(fam, a) {
		return 19 + 2 + 2 + otherLen + 7 + nlriTotal
	}
	nhl := len(a.NH)
	if fam == c11VPN {
		nhl = 12
	}
	val := 2 + 1 + 1 + nhl + 1 + nlriTotal
	hdr := 3
	if val > 255 {
		hdr = 4
	}
	return 19 + 2 + 2 + otherLen + hdr + val
}

// c11WithdrawMsgLen: smallest UPDATE withdrawing tuples of nlriTotal octets.
func c11WithdrawMsgLen(fam, nlriTotal int) int {
	if fam == c11V4 {
		return 19 + 2 + nlriTotal + 2
	}
	val := 3 + nlriTotal
	hdr := 3
	if val > 255 {
		hdr = 4
	}
	return 19 + 2 + 2 + hdr + val
}

func c11OtherLen(a c11AttrSpec) int {
	n := 0
	for _, b := range c11OtherAttrs(a) {
		n += len(b)
	}
	return n
}

// ---- receiver keys ----------------------------------------------------------------------------

// c11BaseKey: family, prefix length, significant prefix octets (host bits cleared), RD for VPNv4.
func c11BaseKey(fam, bits int, addr []byte, rd []byte) string {
	nb := (bits + 7) / 8
	k := make([]byte, 0, 2+nb+len(rd))
	k = append(k, byte(fam), byte(bits))
	k = append(k, rd...)
	k = append(k, addr[:nb]...)
	if rem := bits % 8; rem != 0 {
		k[len(k)-1] &= byte((int(0xff00) >> rem) & 0xff)
	}
	return string(k)
}

func (p c11Prefix) baseKey() string {
	if p.Fam == c11VPN {
		return c11BaseKey(p.Fam, p.Bits, p.Addr, c11RD)
	}
	return c11BaseKey(p.Fam, p.Bits, p.Addr, nil)
}

func c11FullKey(base string, addPath bool, id uint32) string {
	if !addPath {
		return base
	}
	return base + string(binary.BigEndian.AppendUint32(nil, id))
}

func c11KeyString(k string, addPath bool) string {
	b := []byte(k)
	fam, bits := int(b[0]), int(b[1])
	b = b[2:]
	id := ""
	if addPath {
		id = fmt.Sprintf(" path-id %d", binary.BigEndian.Uint32(b[len(b)-4:]))
		b = b[:len(b)-4]
	}
	rd := ""
	if fam == c11VPN {
		rd = fmt.Sprintf("rd %x ", b[:8])
		b = b[8:]
	}
	full := make([]byte, 4)
	if fam == c11V6 {
		full = make([]byte, 16)
	}
	copy(full, b)
	a, _ := netip.AddrFromSlice(full)
	return fmt.Sprintf("%s %s%s/%d%s", c11FamName[fam], rd, a, bits, id)
}

// ---- building real paths ----------------------------------------------------------------------

func c11Logger() *slog.Logger { return slog.New(slog.NewTextHandler(io.Discard, nil)) }

func c11Peer(n int) *PeerInfo {
	a := netip.AddrFrom4([4]byte{10, 0, 0, byte(n)})
	l := netip.AddrFrom4([4]byte{10, 0, 0, 254})
	return &PeerInfo{AS: 65000 + uint32(n), ID: a, Address: a, LocalAS: 65000, LocalID: l, LocalAddress: l}
}

func c11NLRI(p c11Prefix) bgp.NLRI {
	a, _ := netip.AddrFromSlice(p.Addr)
	pfx := netip.PrefixFrom(a, p.Bits).Masked()
	if p.Fam == c11VPN {
		n, err := bgp.NewLabeledVPNIPAddrPrefix(pfx, *bgp.NewMPLSLabelStack(100), bgp.NewRouteDistinguisherTwoOctetAS(65000, 1))
		if err != nil {
			panic(err)
		}
		return n
	}
	n, err := bgp.NewIPAddrPrefix(pfx)
	if err != nil {
		panic(err)
	}
	return n
}

// c11MakePaths turns (attribute set, prefixes) into paths the way the daemon does for a received or
// locally originated UPDATE: attribute objects from the bgp constructors, one BGPUpdate,
// ProcessMessage. chunk bounds the NLRIs per UPDATE.
func c11MakePaths(fam int, a c11AttrSpec, pfx []c11Prefix, src *PeerInfo) []*Path {
	attrs := []bgp.PathAttributeInterface{
		bgp.NewPathAttributeOrigin(a.Origin),
		bgp.NewPathAttributeAsPath([]bgp.AsPathParamInterface{bgp.NewAs4PathParam(2, append([]uint32{}, a.ASPath...))}),
	}
	classic := c11IsClassic(fam, a) && !a.MP
	if classic {
		nh, err := bgp.NewPathAttributeNextHop(netip.AddrFrom4([4]byte(a.NH)))
		if err != nil {
			panic(err)
		}
		attrs = append(attrs, nh)
	}
	if a.MED >= 0 {
		attrs = append(attrs, bgp.NewPathAttributeMultiExitDisc(uint32(a.MED)))
	}
	if len(a.Comm) > 0 {
		attrs = append(attrs, bgp.NewPathAttributeCommunities(append([]uint32{}, a.Comm...)))
	}
	if a.Filler >= 0 {
		attrs = append(attrs, bgp.NewPathAttributeUnknown(bgp.BGP_ATTR_FLAG_OPTIONAL|bgp.BGP_ATTR_FLAG_TRANSITIVE, c11FillerType, c11FillerValue(a.Filler)))
	}
	nlris := make([]bgp.PathNLRI, len(pfx))
	for i, p := range pfx {
		nlris[i] = bgp.PathNLRI{NLRI: c11NLRI(p)}
	}
	var msg *bgp.BGPMessage
	if classic {
		msg = bgp.NewBGPUpdateMessage(nil, attrs, nlris)
	} else {
		var nhs []netip.Addr
		switch len(a.NH) {
		case 4:
			nhs = []netip.Addr{netip.AddrFrom4([4]byte(a.NH))}
		case 16:
			nhs = []netip.Addr{netip.AddrFrom16([16]byte(a.NH))}
		case 32:
			nhs = []netip.Addr{netip.AddrFrom16([16]byte(a.NH[:16])), netip.AddrFrom16([16]byte(a.NH[16:]))}
		}
		if len(a.NH) == 32 {
			// ProcessMessage rebuilds MP_REACH_NLRI per route from the global next hop only (a received
			// link-local next hop is not kept in the table); a route that carries the pair comes from the
			// API (apiutil builds the attribute with both, the server calls NewPath), so build it that way.
			out := make([]*Path, len(nlris))
			for i, n := range nlris {
				mp, err := bgp.NewPathAttributeMpReachNLRI(c11Families[fam], []bgp.PathNLRI{n}, nhs...)
				if err != nil {
					panic(err)
				}
				out[i] = NewPath(c11Families[fam], src, n, false, append(append([]bgp.PathAttributeInterface{}, attrs...), mp), c11Time, false)
			}
			return out
		}
		mp, err := bgp.NewPathAttributeMpReachNLRI(c11Families[fam], nlris, nhs...)
		if err != nil {
			panic(err)
		}
		msg = bgp.NewBGPUpdateMessage(nil, append(attrs, mp), nil)
	}
	return ProcessMessage(msg, src, c11Time, false)
}

// ---- oracle input -----------------------------------------------------------------------------

type c11Cfg struct {
	AddPath bool `json:"addpath"` // ADD-PATH send negotiated for all three families
	Ext     bool `json:"ext"`     // extended message negotiated
}

func (c c11Cfg) limit() int {
	if c.Ext {
		return 65535
	}
	return 4096
}

func (c c11Cfg) String() string { return fmt.Sprintf("addpath=%v ext=%v", c.AddPath, c.Ext) }

func (c c11Cfg) options() *bgp.MarshallingOption {
	o := &bgp.MarshallingOption{ExtendedMessage: c.Ext}
	if c.AddPath {
		o.AddPath = map[bgp.Family]bgp.BGPAddPathMode{}
		for _, f := range c11Families {
			o.AddPath[f] = bgp.BGP_ADD_PATH_SEND
		}
	}
	return o
}

func (c c11Cfg) rwOptions() refwire.Options {
	o := refwire.Options{Extended: c.Ext}
	if c.AddPath {
		o.AddPath = map[refwire.AFISAFI]bool{{AFI: 1, SAFI: 1}: true, {AFI: 2, SAFI: 1}: true}
	}
	return o
}

// c11Item is one element of the list handed to CreateUpdateMsgFromPaths together with what the model
// needs to know about it.
type c11Item struct {
	Kind  int
	Fam   int
	Base  string // receiver key without path identifier
	ID    uint32 // local path identifier
	Rec   *c11Rec
	Spec  *c11AttrSpec
	Other int // octets of all attributes except the next hop
	NLen  int // NLRI tuple length without path identifier
	Path  *Path
}

// ---- receiver ---------------------------------------------------------------------------------

type c11Eff struct {
	key     string
	ann     bool
	classic bool // announced in the NLRI field (next hop = NEXT_HOP attribute)
	fam     int  // family of the MP_REACH_NLRI that announced it
}

type c11Rx struct {
	effs    []c11Eff
	nh      string    // NEXT_HOP attribute value
	mpNH    [3]string // next hop field of the MP_REACH_NLRI per family
	attrs   string
	eor     int // -1 none, else family
	carrier string
	nW, nA  int
}

func c11FamOf(afi uint16, safi uint8) int {
	switch {
	case afi == 1 && safi == 1:
		return c11V4
	case afi == 2 && safi == 1:
		return c11V6
	case afi == 1 && safi == 128:
		return c11VPN
	}
	return -1
}

// c11ReadVPN frames a VPNv4 NLRI field (RFC 4364 4.3.4 / RFC 8277: length in bits covers label, RD and prefix).
func c11ReadVPN(b []byte, addPath, withdraw bool) (keys []string, labels []string, err error) {
	for p := 0; p < len(b); {
		var id uint32
		if addPath {
			if p+4 > len(b) {
				return nil, nil, fmt.Errorf("vpnv4 path identifier cut at %d", p)
			}
			id = binary.BigEndian.Uint32(b[p:])
			p += 4
		}
		if p >= len(b) {
			return nil, nil, fmt.Errorf("vpnv4 length octet missing")
		}
		bits := int(b[p])
		p++
		if bits < 88 || bits > 88+32 {
			return nil, nil, fmt.Errorf("vpnv4 NLRI length %d bits", bits)
		}
		nb := (bits + 7) / 8
		if p+nb > len(b) {
			return nil, nil, fmt.Errorf("vpnv4 NLRI overruns its field")
		}
		lab := b[p : p+3]
		rd := b[p+3 : p+11]
		addr := make([]byte, 4)
		copy(addr, b[p+11:p+nb])
		p += nb
		if !withdraw && lab[2]&1 == 0 {
			return nil, nil, fmt.Errorf("vpnv4 label without bottom-of-stack bit")
		}
		keys = append(keys, c11FullKey(c11BaseKey(c11VPN, bits-88, addr, rd), addPath, id))
		labels = append(labels, string(lab))
	}
	return keys, labels, nil
}

func c11PfxKeys(fam int, ps []refwire.Prefix, addPath bool) []string {
	out := make([]string, len(ps))
	for i, p := range ps {
		full := make([]byte, 16)
		copy(full, p.Bytes)
		out[i] = c11FullKey(c11BaseKey(fam, p.Bits, full, nil), addPath, p.PathID)
	}
	return out
}

// c11Receive frames one serialised message and lists its effects on a receiver.
func c11Receive(b []byte, cfg c11Cfg) (*c11Rx, error) {
	m, err := refwire.Read(b, cfg.rwOptions())
	if err != nil {
		return nil, err
	}
	if m.Update == nil {
		return nil, fmt.Errorf("message type %d, not an UPDATE", m.Type)
	}
	u := m.Update
	rx := &c11Rx{eor: -1}
	if u.WithdrawnLen == 0 && u.AttrsLen == 0 && u.NLRILen == 0 {
		rx.eor = c11V4
		rx.carrier = "eor"
		return rx, nil
	}
	var blobs [][]byte
	var seen [256]bool
	nh := ""
	for _, a := range u.Attrs {
		if seen[a.Type] {
			return nil, fmt.Errorf("attribute type %d appears twice", a.Type)
		}
		seen[a.Type] = true
		switch a.Type {
		case refwire.AttrMPReach, refwire.AttrMPUnreach:
		case 3:
			nh = string(b[a.ValOff : a.ValOff+a.ValLen])
		default:
			blobs = append(blobs, b[a.Off:a.Off+a.Total()])
		}
	}
	rx.attrs = c11Canon(blobs)
	rx.nh = nh
	for _, k := range c11PfxKeys(c11V4, u.Withdrawn, cfg.AddPath) {
		rx.effs = append(rx.effs, c11Eff{key: k})
		rx.nW++
	}
	for _, r := range u.MPUnreach {
		fam := c11FamOf(r.AFI, r.SAFI)
		if fam < 0 {
			return nil, fmt.Errorf("MP_UNREACH_NLRI for unexpected family %d/%d", r.AFI, r.SAFI)
		}
		if r.NLRILen == 0 {
			if len(u.Attrs) == 1 && u.WithdrawnLen == 0 && u.NLRILen == 0 {
				rx.eor = fam
				rx.carrier = "eor"
				return rx, nil
			}
			return nil, fmt.Errorf("empty MP_UNREACH_NLRI in a message that is not an End-of-RIB")
		}
		var keys []string
		if fam == c11VPN {
			if keys, _, err = c11ReadVPN(b[r.NLRIOff:r.NLRIOff+r.NLRILen], cfg.AddPath, true); err != nil {
				return nil, err
			}
		} else {
			keys = c11PfxKeys(fam, r.Prefixes, cfg.AddPath)
		}
		for _, k := range keys {
			rx.effs = append(rx.effs, c11Eff{key: k})
			rx.nW++
		}
		rx.carrier += "U"
	}
	if u.WithdrawnLen > 0 {
		rx.carrier += "w"
	}
	if u.NLRILen > 0 {
		rx.carrier += "n"
		for _, k := range c11PfxKeys(c11V4, u.NLRI, cfg.AddPath) {
			rx.effs = append(rx.effs, c11Eff{key: k, ann: true, classic: true})
			rx.nA++
		}
	}
	for _, r := range u.MPReach {
		fam := c11FamOf(r.AFI, r.SAFI)
		if fam < 0 {
			return nil, fmt.Errorf("MP_REACH_NLRI for unexpected family %d/%d", r.AFI, r.SAFI)
		}
		if r.Reserved != 0 {
			return nil, fmt.Errorf("MP_REACH_NLRI reserved octet %d", r.Reserved)
		}
		var keys []string
		mnh := string(r.NextHop)
		if fam == c11VPN {
			var labels []string
			if keys, labels, err = c11ReadVPN(b[r.NLRIOff:r.NLRIOff+r.NLRILen], cfg.AddPath, false); err != nil {
				return nil, err
			}
			for _, l := range labels {
				if l != labels[0] {
					return nil, fmt.Errorf("harness: mixed labels in one VPNv4 message")
				}
			}
			if len(labels) > 0 {
				mnh += "|" + labels[0]
			}
		} else {
			keys = c11PfxKeys(fam, r.Prefixes, cfg.AddPath)
		}
		if len(keys) == 0 {
			return nil, fmt.Errorf("MP_REACH_NLRI without NLRI")
		}
		rx.mpNH[fam] = mnh
		for _, k := range keys {
			rx.effs = append(rx.effs, c11Eff{key: k, ann: true, fam: fam})
			rx.nA++
		}
		rx.carrier += "R"
	}
	if len(rx.effs) == 0 {
		return nil, fmt.Errorf("UPDATE carries attributes but neither routes nor an End-of-RIB")
	}
	return rx, nil
}

func (rx *c11Rx) recOf(e int) c11Rec {
	if rx.effs[e].classic {
		return c11Rec{Attrs: rx.attrs, NH: rx.nh}
	}
	return c11Rec{Attrs: rx.attrs, NH: rx.mpNH[rx.effs[e].fam]}
}

// ---- calling the code under test ---------------------------------------------------------------

func c11PanicSite() string {
	pcs := make([]uintptr, 64)
	n := runtime.Callers(3, pcs)
	fr := runtime.CallersFrames(pcs[:n])
	for {
		f, more := fr.Next()
		base := filepath.Base(f.File)
		if strings.Contains(f.Function, "github.com/osrg/gobgp/") && !strings.HasPrefix(base, "zz_verif") && !strings.Contains(f.Function, "/internal/verif/") {
			// key by function (stable when unrelated lines of the file move); the line goes into the text
			fn := f.Function[strings.LastIndex(f.Function, "/")+1:]
			fn = fn[strings.Index(fn, ".")+1:]
			return fmt.Sprintf("%s:%s|%s:%d", base, fn, base, f.Line)
		}
		if !more {
			break
		}
	}
	return "unknown"
}

func c11Pack(paths []*Path, opt *bgp.MarshallingOption) (msgs []*bgp.BGPMessage, site, what string) {
	defer func() {
		if e := recover(); e != nil {
			site, what = c11PanicSite(), fmt.Sprint(e)
		}
	}()
	return CreateUpdateMsgFromPaths(paths, opt), "", ""
}

func c11Serialize(m *bgp.BGPMessage, opt *bgp.MarshallingOption) (b []byte, err error, site, what string) {
	defer func() {
		if e := recover(); e != nil {
			site, what = c11PanicSite(), fmt.Sprint(e)
		}
	}()
	b, err = m.Serialize(opt)
	return
}

// c11StructKeys lists what a message that could not be serialised carries, from the plain fields of
// the message structure (there are no bytes to frame).
func c11StructKeys(m *bgp.BGPMessage, cfg c11Cfg) (ann, wd []string, eor bool) {
	u, ok := m.Body.(*bgp.BGPUpdate)
	if !ok {
		return
	}
	key := func(fam int, n bgp.PathNLRI) string {
		switch v := n.NLRI.(type) {
		case *bgp.IPAddrPrefix:
			a := v.Prefix.Addr().As16()
			s := a[:]
			if v.Prefix.Addr().Is4() {
				a4 := v.Prefix.Addr().As4()
				s = append(a4[:], make([]byte, 12)...)
			}
			return c11FullKey(c11BaseKey(fam, v.Prefix.Bits(), s, nil), cfg.AddPath, n.ID)
		case *bgp.LabeledVPNIPAddrPrefix:
			a4 := v.Prefix.Addr().As4()
			rd, _ := v.RD.Serialize()
			return c11FullKey(c11BaseKey(c11VPN, v.Prefix.Bits(), a4[:], rd), cfg.AddPath, n.ID)
		}
		return "?"
	}
	for _, n := range u.WithdrawnRoutes {
		wd = append(wd, key(c11V4, n))
	}
	for _, n := range u.NLRI {
		ann = append(ann, key(c11V4, n))
	}
	for _, a := range u.PathAttributes {
		switch v := a.(type) {
		case *bgp.PathAttributeMpReachNLRI:
			for _, n := range v.Value {
				ann = append(ann, key(c11FamOf(v.AFI, v.SAFI), n))
			}
		case *bgp.PathAttributeMpUnreachNLRI:
			for _, n := range v.Value {
				wd = append(wd, key(c11FamOf(v.AFI, v.SAFI), n))
			}
		}
	}
	if e, _ := u.IsEndOfRib(); e {
		eor = true
	}
	return
}

// ---- log capture (one of the ways an oversize route may be "reported") --------------------------

// Handlers run on the goroutine that logs, so records are attributed to the worker whose call
// produced them by goroutine id.
type c11LogCounter struct {
	mu sync.Mutex
	m  map[uint64]int64
}

func c11Goid() uint64 {
	var buf [64]byte
	n := runtime.Stack(buf[:], false)
	f := strings.Fields(string(buf[:n]))
	if len(f) < 2 {
		return 0
	}
	id, _ := strconv.ParseUint(f[1], 10, 64)
	return id
}

func (h *c11LogCounter) Enabled(_ context.Context, l slog.Level) bool { return l >= slog.LevelWarn }
func (h *c11LogCounter) Handle(context.Context, slog.Record) error {
	id := c11Goid()
	h.mu.Lock()
	h.m[id]++
	h.mu.Unlock()
	return nil
}
func (h *c11LogCounter) WithAttrs([]slog.Attr) slog.Handler { return h }
func (h *c11LogCounter) WithGroup(string) slog.Handler      { return h }

// mine returns a reader of the number of records logged by the calling goroutine.
func (h *c11LogCounter) mine() func() int64 {
	id := c11Goid()
	return func() int64 {
		h.mu.Lock()
		defer h.mu.Unlock()
		return h.m[id]
	}
}

// ---- the oracle -------------------------------------------------------------------------------

// c11Ctx is a worker's recorder. Violations are collected here and handed to the parent report by
// c11Flush, which keeps for every key the case with the smallest enumeration index: the retained
// counterexample is the simplest one and does not depend on which worker finishes first.
type c11Ctx struct {
	*vr.Report
	idx   int64 // enumeration index of the case being checked
	first map[string]*c11First
}

type c11First struct {
	idx    int64
	what   string
	replay any
	count  int64
}

func c11NewCtx(c *vr.Report) *c11Ctx { return &c11Ctx{Report: c, first: map[string]*c11First{}} }

func c11Flush(r *vr.Report, ctxs []*c11Ctx) {
	keys := map[string]bool{}
	for _, c := range ctxs {
		if c != nil {
			for k := range c.first {
				keys[k] = true
			}
		}
	}
	ks := make([]string, 0, len(keys))
	for k := range keys {
		ks = append(ks, k)
	}
	sort.Strings(ks)
	for _, k := range ks {
		var best *c11First
		var n int64
		for _, c := range ctxs {
			if c == nil {
				continue
			}
			if f := c.first[k]; f != nil {
				n += f.count
				if best == nil || f.idx < best.idx {
					best = f
				}
			}
		}
		r.Violation(k, best.what, best.replay)
		for i := int64(1); i < n; i++ {
			r.Violation(k, "", nil)
		}
	}
	for _, c := range ctxs {
		if c != nil {
			c.first = map[string]*c11First{}
		}
	}
}

type c11Touch struct {
	msg int
	eff int
	ann bool
}

// c11Check runs one case: items -> CreateUpdateMsgFromPaths -> Serialize -> receiver -> comparison.
// logs, when non-nil, returns the number of Warn+ records this goroutine has written to slog.Default().
func c11Check(c *c11Ctx, cfg c11Cfg, items []c11Item, replay func() any, logs func() int64) {
	c.Eval()
	lim := cfg.limit()
	opt := cfg.options()
	viol := func(key, format string, a ...any) {
		what := func() string {
			return fmt.Sprintf("[%s, %d items] "+format, append([]any{cfg, len(items)}, a...)...)
		}
		if f := c.first[key]; f != nil {
			f.count++
			if c.idx < f.idx {
				f.idx, f.replay, f.what = c.idx, replay(), what()
			}
			return
		}
		c.first[key] = &c11First{idx: c.idx, count: 1, replay: replay(), what: what()}
	}

	// expected effect per receiver key: the last input item
	exp := make(map[string]int, len(items))
	ids := map[string]map[uint32]bool{} // base key -> local ids seen (classification only)
	firstEOR := map[int]int{}
	nRoutes := 0
	for i := range items {
		it := &items[i]
		if it.Kind == c11EOR {
			if _, ok := firstEOR[it.Fam]; !ok {
				firstEOR[it.Fam] = i
			}
			continue
		}
		nRoutes++
		exp[c11FullKey(it.Base, cfg.AddPath, it.ID)] = i
		if !cfg.AddPath {
			if ids[it.Base] == nil {
				ids[it.Base] = map[uint32]bool{}
			}
			ids[it.Base][it.ID] = true
		}
	}
	// which expected announcements cannot be sent at all under this limit
	oversize := map[string]bool{}
	for k, i := range exp {
		it := &items[i]
		if it.Kind != c11Ann {
			continue
		}
		n := it.NLen
		if cfg.AddPath {
			n += 4
		}
		if c11MsgLen(it.Fam, *it.Spec, it.Other, n) > lim {
			oversize[k] = true
		}
	}

	paths := make([]*Path, len(items))
	for i := range items {
		paths[i] = items[i].Path
	}
	var before int64
	if logs != nil {
		before = logs()
	}
	msgs, site, what := c11Pack(paths, opt)
	logged := logs != nil && logs() > before
	if site != "" {
		c.Outcome("panic")
		fn, line, _ := strings.Cut(site, "|")
		viol("panic@"+fn, "CreateUpdateMsgFromPaths panicked at %s: %s (oversize routes in the call: %d)", line, what, len(oversize))
		return
	}

	// serialise + receive
	rxs := make([]*c11Rx, len(msgs))
	touch := make(map[string][]c11Touch, len(exp))
	reportedOversize := map[string]bool{}
	inFailed := map[string]bool{} // keys carried by a message that could not be serialised (reported there)
	eorMsg := map[int]int{}
	var shape []string
	for i, m := range msgs {
		b, err, site, what := c11Serialize(m, opt)
		if site != "" {
			c.Outcome("panic-serialize")
			fn, line, _ := strings.Cut(site, "|")
			viol("panic@"+fn, "BGPMessage.Serialize panicked at %s: %s", line, what)
			return
		}
		if err != nil {
			ann, wd, eor := c11StructKeys(m, cfg)
			for _, k := range ann {
				inFailed[k] = true
			}
			for _, k := range wd {
				inFailed[k] = true
			}
			bad := ""
			for _, k := range ann {
				if !oversize[k] {
					bad = "announcement of " + c11KeyString(k, cfg.AddPath) + " which fits a message of its own"
					break
				}
			}
			fam := "?"
			if len(ann) > 0 {
				fam = c11FamName[ann[0][0]]
			} else if len(wd) > 0 {
				fam = c11FamName[wd[0][0]]
			}
			switch {
			case len(wd) > 0:
				c.Outcome("unserialisable-message")
				viol("unserialisable-withdrawal:"+fam, "message %d of %d cannot be serialised (%v) and carries %d withdrawals: they are lost", i, len(msgs), err, len(wd))
			case eor || len(ann) == 0:
				c.Outcome("unserialisable-message")
				viol("unserialisable-message:"+fam, "message %d of %d cannot be serialised: %v", i, len(msgs), err)
			case bad != "":
				c.Outcome("unserialisable-message")
				viol("unserialisable-announcement:"+fam, "message %d of %d cannot be serialised (%v) and carries %d routes, among them the %s: the sender drops the whole message", i, len(msgs), err, len(ann), bad)
			default:
				c.Outcome("oversize-reported-by-serialize-error")
				for _, k := range ann {
					reportedOversize[k] = true
				}
			}
			continue
		}
		if len(b) > lim {
			viol("message-over-limit", "message %d is %d octets, limit %d", i, len(b), lim)
			continue
		}
		rx, err := c11Receive(b, cfg)
		if err != nil {
			c.Outcome("unparseable")
			viol("receiver-rejects-message", "message %d of %d (%d octets) is not framed as the RFCs say: %v", i, len(msgs), len(b), err)
			continue
		}
		rxs[i] = rx
		if rx.eor >= 0 {
			if _, ok := eorMsg[rx.eor]; !ok {
				eorMsg[rx.eor] = i
			}
			shape = append(shape, "E"+c11FamName[rx.eor])
			continue
		}
		for ei, e := range rx.effs {
			touch[e.key] = append(touch[e.key], c11Touch{i, ei, e.ann})
		}
		h := fnv.New32a()
		h.Write([]byte(rx.attrs))
		sh := make([]byte, 0, 40)
		sh = append(sh, c11FamName[rx.effs[0].key[0]]...)
		sh = append(append(sh, ':'), rx.carrier...)
		sh = strconv.AppendInt(append(sh, ':'), int64(rx.nW), 10)
		sh = strconv.AppendInt(append(sh, ':'), int64(rx.nA), 10)
		sh = strconv.AppendUint(append(sh, ':'), uint64(h.Sum32()), 16)
		shape = append(shape, string(sh))
	}

	// order-robustness: a receiver key touched by two messages of one call
	unstable := map[string]bool{}
	for k, ts := range touch {
		if len(ts) < 2 {
			continue
		}
		two, mixed := false, false
		for _, t := range ts[1:] {
			if t.msg != ts[0].msg {
				two = true
			} else if t.ann != ts[0].ann {
				mixed = true
			}
		}
		fam := c11FamName[k[0]]
		if two {
			unstable[k] = true
			if !cfg.AddPath && len(ids[k]) > 1 {
				c.Outcome("violation:local-id-dedupe")
				viol("last-action-keyed-by-local-path-id:addpath-off", "%s is touched by %d messages of one call (the receiver has no path identifiers, the input used local ids %v for this prefix): the result depends on emission order", c11KeyString(k, cfg.AddPath), len(ts), c11IDs(ids[k]))
			} else {
				c.Outcome("violation:key-in-two-messages")
				viol("key-in-two-messages:"+fam, "%s is touched by %d messages of one call", c11KeyString(k, cfg.AddPath), len(ts))
			}
		} else if mixed {
			unstable[k] = true
			viol("withdrawn-and-announced-in-one-message:"+fam, "%s is withdrawn and announced by the same message", c11KeyString(k, cfg.AddPath))
		} else {
			c.Outcome("duplicate-nlri-in-one-message")
		}
	}

	// effects: the last touch in emitted order vs the last input item
	shared, dedupe := false, len(exp) < nRoutes
	for k, i := range exp {
		if unstable[k] {
			continue
		}
		it := &items[i]
		ts := touch[k]
		name := c11Lazy(func() string { return c11KeyString(k, cfg.AddPath) })
		fam := c11FamName[it.Fam]
		if oversize[k] {
			switch {
			case len(ts) > 0:
				viol("harness:oversize-route-delivered", "%s was classified as not fitting %d octets but was delivered", name, lim)
			case reportedOversize[k]:
				c.Outcome("oversize-skipped-and-reported")
			case logged:
				c.Outcome("oversize-skipped-and-logged")
			default:
				c.Outcome("violation:oversize-silently-dropped")
				viol("oversize-route-dropped-without-report:"+fam, "%s does not fit a %d-octet message (%d octets alone); it is in no message, no message failed to serialise because of it and nothing was logged", name, lim, c11MsgLen(it.Fam, *it.Spec, it.Other, it.NLen+c11b2i(cfg.AddPath)*4))
			}
			continue
		}
		if len(ts) == 0 {
			if inFailed[k] {
				continue // lost with the message that could not be serialised; reported above
			}
			c.Outcome("violation:" + c11KindName[it.Kind] + "-lost")
			key := "withdraw-lost:" + fam
			if it.Kind == c11Ann {
				key = "announce-lost:" + fam + ":mp"
				if c11IsClassic(it.Fam, *it.Spec) {
					key = "announce-lost:" + fam + ":classic"
				}
			}
			viol(key, "%s: the last change is item %d (%s) but no emitted message mentions it", name, i, c11KindName[it.Kind])
			continue
		}
		last := ts[len(ts)-1]
		if last.ann != (it.Kind == c11Ann) {
			viol("wrong-last-action:"+fam, "%s: last change in the input is %s, last in the messages is announce=%v", name, c11KindName[it.Kind], last.ann)
			continue
		}
		if it.Kind == c11Ann {
			got := rxs[last.msg].recOf(last.eff)
			if got.Attrs != it.Rec.Attrs {
				viol("wrong-attributes:"+fam, "%s is announced with attributes %x, its route has %x", name, got.Attrs, it.Rec.Attrs)
			} else if got.NH != it.Rec.NH {
				viol("wrong-next-hop:"+fam, "%s is announced with next hop %x, its route has %x", name, got.NH, it.Rec.NH)
			}
			if rxs[last.msg].nA > 1 {
				shared = true
			}
		}
		if e, ok := firstEOR[it.Fam]; ok && i < e {
			if em, ok := eorMsg[it.Fam]; ok && em < last.msg {
				viol("eor-before-route:"+fam, "%s precedes the End-of-RIB in the input but follows it in the messages", name)
			}
		}
	}
	for k := range touch {
		if _, ok := exp[k]; !ok {
			viol("spurious-route:"+c11FamName[k[0]], "%s is touched by a message but is not in the input", c11KeyString(k, cfg.AddPath))
		}
	}
	for f := range c11Families {
		_, want := firstEOR[f]
		_, got := eorMsg[f]
		if want && !got {
			viol("eor-lost:"+c11FamName[f], "the input has an End-of-RIB for %s, the messages have none", c11FamName[f])
		} else if !want && got {
			viol("spurious-eor:"+c11FamName[f], "an End-of-RIB for %s was emitted, the input has none", c11FamName[f])
		} else if want {
			c.Outcome("eor-kept")
		}
	}

	// vacuity statistics
	switch n := len(msgs); {
	case n <= 5:
		c.Outcome(c11MsgCount[n])
	case n <= 50:
		c.Outcome("messages=6..50")
	default:
		c.Outcome("messages>50")
	}
	if shared {
		c.Outcome("routes-share-a-message")
	}
	if dedupe {
		c.Outcome("repeated-key-collapsed")
	}
	if len(shape) > 0 {
		sort.Strings(shape)
		// run-length encode so that a 20000-message case stays a short key
		var sb strings.Builder
		fmt.Fprintf(&sb, "%v|", cfg)
		for i := 0; i < len(shape); {
			j := i
			for j < len(shape) && shape[j] == shape[i] {
				j++
			}
			fmt.Fprintf(&sb, "%s*%d,", shape[i], j-i)
			i = j
		}
		c.NT(sb.String())
	}
}

var c11MsgCount = []string{"messages=0", "messages=1", "messages=2", "messages=3", "messages=4", "messages=5"}

// c11Lazy defers the rendering of a value to the moment a violation text is formatted.
type c11Lazy func() string

func (l c11Lazy) String() string { return l() }

func c11b2i(b bool) int {
	if b {
		return 1
	}
	return 0
}

func c11IDs(m map[uint32]bool) []uint32 {
	var r []uint32
	for k := range m {
		r = append(r, k)
	}
	sort.Slice(r, func(i, j int) bool { return r[i] < r[j] })
	return r
}
