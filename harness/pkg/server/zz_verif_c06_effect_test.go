package server

// C06 part "effect" — what a malformed UPDATE does to a running daemon.
// One synctest bubble per catalogue entry: a real BgpServer, a bot of the peer type under test ("p")
// and an eBGP observer bot ("o"), both with IPv4+IPv6 unicast. p announces well-formed routes for
// every prefix any base UPDATE names plus two that none names, then sends the faulty UPDATE as raw
// bytes. After quiescence the session state, the NOTIFICATION bytes p received, p's Adj-RIB-In, the
// Loc-RIB and everything the observer was told are compared with what ref7606 (c06lib.Ref, raw bytes
// only) requires. Revised error handling is switched off through the configuration-file-only knob.

import (
	"bytes"
	"encoding/json"
	"fmt"
	"os"
	"sort"
	"strconv"
	"strings"
	"testing"
	"time"

	api "github.com/osrg/gobgp/v4/api"
	"github.com/osrg/gobgp/v4/internal/pkg/table"
	"github.com/osrg/gobgp/v4/internal/verif/c06lib"
	"github.com/osrg/gobgp/v4/internal/verif/vr"
	"github.com/osrg/gobgp/v4/pkg/config/oc"
	"github.com/osrg/gobgp/v4/pkg/packet/bgp"
)

type c06eCase struct {
	Base    string   `json:"base"`
	Peer    int      `json:"peer"`
	Revised bool     `json:"revised"`
	Faults  []string `json:"faults"`
}

func (c c06eCase) String() string {
	mode := "7606-off"
	if c.Revised {
		mode = "7606-on"
	}
	return fmt.Sprintf("base %s, peer %s, %s, faults %v", c.Base, c06lib.PeerType(c.Peer), mode, c.Faults)
}

func (c c06eCase) raw() ([]byte, bool) {
	pt := c06lib.PeerType(c.Peer)
	b := c06lib.BuildBase(c.Base, pt, c06lib.MarkerNew)
	cat := c06lib.Catalogue(b, pt)
	var fs []c06lib.Fault
	for _, id := range c.Faults {
		f, ok := c06lib.Lookup(cat, id)
		if !ok {
			return nil, false
		}
		fs = append(fs, f)
	}
	m, ok := c06lib.Build(b, fs...)
	if !ok {
		return nil, false
	}
	return m.Bytes(), true
}

type c06eScenario struct {
	cs      c06eCase
	raw     []byte
	v       c06lib.Verdict
	bot     *simBot
	obs     *simBot
	seq     int // number of messages p had received before the faulty UPDATE
	obsSeq  int
	applied bool
}

func init() {
	simScenarios["c06"] = func(arg string) simScenario {
		sc := &c06eScenario{}
		if err := json.Unmarshal([]byte(arg), &sc.cs); err != nil {
			panic("c06: bad case " + arg)
		}
		raw, ok := sc.cs.raw()
		if !ok {
			panic("c06: case cannot be built " + arg)
		}
		sc.raw = raw
		sc.v = c06lib.Ref(raw[19:], c06lib.PeerType(sc.cs.Peer), sc.cs.Revised)
		return sc
	}
}

func (sc *c06eScenario) ForceDrain() bool               { return true }
func (sc *c06eScenario) Enabled(w *simWorld) []simEvent { return nil }
func (sc *c06eScenario) Key(w *simWorld) string         { return "" }

var c06eFamilies = []bgp.Family{bgp.RF_IPv4_UC, bgp.RF_IPv6_UC}

func (sc *c06eScenario) foldObserver(w *simWorld) {
	for _, rx := range sc.obs.takeGroup() {
		simFold(sc.obs.view, rx.Msg)
	}
	sc.bot.takeGroup()
}

func (sc *c06eScenario) Setup(w *simWorld) {
	pt := c06lib.PeerType(sc.cs.Peer)
	if pt == c06lib.Confed {
		w.global = func(g *api.Global) {
			g.Confederation = &api.Confederation{Enabled: true, Identifier: c06lib.ConfedID, MemberAsList: []uint32{c06lib.ConfedMemberAS}}
		}
	}
	w.serverAS = c06lib.ServerAS
	w.start()
	revised := sc.cs.Revised
	sc.bot = w.addBot(simBotSpec{Name: "p", IP: c06lib.BotIP, AS: c06lib.PeerAS(pt), RouterID: [4]byte{1, 1, 1, 1}, Families: c06eFamilies,
		// AddPeer forces treat-as-withdraw on; only a configuration file can switch it off
		FileOnly: func(n *oc.Neighbor) { n.ErrorHandling.Config.TreatAsWithdraw = revised }})
	sc.obs = w.addBot(simBotSpec{Name: "o", IP: [4]byte{10, 0, 0, 2}, AS: c06lib.ObserverAS, RouterID: [4]byte{1, 1, 1, 2}, Families: c06eFamilies})
	w.advance(time.Second)
	for _, b := range w.bots {
		if !b.handshake() {
			panic("c06 setup: session with " + b.spec.Name + " did not establish")
		}
	}
	w.advance(time.Second)
	p := w.peer(sc.bot)
	if p.fsm.isTreatAsWithdraw != revised || p.fsm.isEBGP != (pt != c06lib.IBGP) || p.fsm.isConfed != (pt == c06lib.Confed) {
		panic(fmt.Sprintf("c06 setup: session parameters are not the ones under test: taw=%v ebgp=%v confed=%v", p.fsm.isTreatAsWithdraw, p.fsm.isEBGP, p.fsm.isConfed))
	}
	for _, u := range c06lib.SetupUpdates(pt) {
		sc.bot.send(u)
	}
	w.settle()
	w.advance(time.Second)
	sc.foldObserver(w)
	// the well-formed announcements must be in place everywhere, otherwise nothing below means anything
	st := sc.status(w)
	for _, pf := range []string{c06lib.P4, c06lib.Q4, c06lib.R4, c06lib.P6, c06lib.Q6} {
		if st.adj[pf] != "old" || st.loc[pf] != "old" || st.obs[pf] != "old" {
			panic(fmt.Sprintf("c06 setup: well-formed route %s not installed/propagated: adj-in=%q loc-rib=%q observer=%q", pf, st.adj[pf], st.loc[pf], st.obs[pf]))
		}
	}
	sc.seq = len(sc.bot.rxAll())
	sc.obsSeq = len(sc.obs.rxAll())
}

func (sc *c06eScenario) Apply(w *simWorld, e simEvent) {
	if e.Op != "fault" {
		panic("c06: unknown event " + e.Op)
	}
	sc.bot.send(sc.raw)
	w.settle()
	w.advance(time.Second)
	sc.foldObserver(w)
	sc.applied = true
}

type c06eStatus struct {
	adj, loc, obs map[string]string // prefix -> "old" / "new" / "" (absent)
	adjBlk        map[string][]byte // serialised attribute list per prefix in the Adj-RIB-In
	locBlk        map[string][]byte
}

func c06eBlock(attrs []bgp.PathAttributeInterface) []byte {
	var blk []byte
	for _, a := range attrs {
		b, err := a.Serialize()
		if err != nil {
			blk = append(blk, 0xff, 0xff, 0xff) // does not parse: will be reported
			continue
		}
		blk = append(blk, b...)
	}
	return blk
}

func c06eMarker(attrs []bgp.PathAttributeInterface) string {
	for _, a := range attrs {
		if a.GetType() == bgp.BGP_ATTR_TYPE_AS_PATH {
			b, _ := a.Serialize()
			if bytes.Contains(b, []byte{0, 0, byte(c06lib.MarkerOld >> 8), byte(c06lib.MarkerOld & 0xff)}) {
				return "old"
			}
		}
	}
	return "new"
}

func (sc *c06eScenario) status(w *simWorld) c06eStatus {
	st := c06eStatus{adj: map[string]string{}, loc: map[string]string{}, obs: map[string]string{}, adjBlk: map[string][]byte{}, locBlk: map[string][]byte{}}
	if p := w.peer(sc.bot); p != nil {
		for _, path := range p.adjRibIn.PathList(p.configuredRFlist(), false) {
			k := path.GetNlri().String()
			st.adj[k] = c06eMarker(path.GetPathAttrs())
			st.adjBlk[k] = c06eBlock(path.GetPathAttrs())
		}
	}
	for _, f := range w.s.globalRib.GetRFlist() {
		t, ok := w.s.globalRib.GetTable(f)
		if !ok {
			continue
		}
		for _, d := range t.GetDestinations() {
			for _, path := range d.GetAllKnownPathList() {
				if path.GetSource().Address != sc.bot.addr() {
					continue
				}
				k := path.GetNlri().String()
				st.loc[k] = c06eMarker(path.GetPathAttrs())
				st.locBlk[k] = c06eBlock(path.GetPathAttrs())
			}
		}
	}
	old := []byte(fmt.Sprintf("0000%04x", c06lib.MarkerOld))
	for k, canon := range sc.obs.view {
		parts := strings.Split(k, "|")
		if len(parts) < 2 {
			continue
		}
		m := "new"
		for _, a := range strings.Split(strings.SplitN(canon, "|", 2)[0], ",") {
			if strings.HasPrefix(a, "002:") && strings.Contains(a, string(old)) {
				m = "old"
			}
		}
		st.obs[parts[1]] = m
	}
	return st
}

var _ = table.GLOBAL_RIB_NAME

func c06eSet(l ...[]string) map[string]bool {
	m := map[string]bool{}
	for _, x := range l {
		for _, s := range x {
			m[s] = true
		}
	}
	return m
}

func (sc *c06eScenario) Check(w *simWorld, last *simEvent) {
	if !sc.applied {
		return
	}
	pt := c06lib.PeerType(sc.cs.Peer)
	v := sc.v
	mode := "7606-off"
	if sc.cs.Revised {
		mode = "7606-on"
	}
	what := fmt.Sprintf("%s, message %s; reference: %v accepted %s", sc.cs, c06lib.Hex(sc.raw), v.Errs, v.AcceptString())
	if v.Abstain != "" {
		w.stat("ref-abstains")
		return
	}
	rule := v.Attr + ":" + v.Rule
	if v.Primary == c06lib.None {
		rule = "wellformed"
		if len(sc.cs.Faults) == 1 {
			rule = "wellformed:" + sc.cs.Faults[0]
		}
	}
	framing, mpFlagsErr := "", false
	for _, e := range v.Errs {
		if e.Rule == "attr-overrun" || e.Rule == "attr-underrun" {
			framing = "after-" + e.Rule
		}
		if strings.HasPrefix(e.Attr, "MP_") && strings.HasPrefix(e.Rule, "flags") {
			mpFlagsErr = true
		}
	}
	viol := func(kind, format string, a ...any) {
		key := fmt.Sprintf("C06:effect:%s:%s:want=%s:%s", kind, rule, v.Primary, mode)
		if strings.HasPrefix(kind, "class:got=") && kind != "class:got=reset" {
			switch {
			case v.Rule == "nlri-field" && framing != "":
				key = fmt.Sprintf("C06:effect:decoder-returns-before-nlri-field:nlri-error-unseen:%s:%s", strings.TrimPrefix(kind, "class:"), mode)
			case strings.HasPrefix(v.Attr, "MP_") && strings.HasPrefix(v.Rule, "mp-") && mpFlagsErr:
				key = fmt.Sprintf("C06:effect:mp-attr-flags-error-hides-value-errors:%s:%s", strings.TrimPrefix(kind, "class:"), mode)
			case kind == "class:got=taw" && v.Primary == c06lib.Reset && sc.cs.Revised:
				// diagnosis: the decoder asked for treat-as-withdraw, so the validation stage (which would
				// have asked for a reset) was not run
				if _, dTAW, _, vReset := c06eDiagnose2(sc.raw, pt); dTAW && vReset {
					key = "C06:effect:strongest-wins:validation-skipped-after-decoder-taw:want=reset:got=taw"
				}
			}
		}
		w.violate(key, format+" — "+what, a...)
	}
	p := w.peer(sc.bot)
	est := p != nil && p.State() == bgp.BGP_FSM_ESTABLISHED
	var notifs [][2]uint8
	for _, rx := range sc.bot.rxAll()[min(sc.seq, len(sc.bot.rxAll())):] {
		if rx.Type == bgp.BGP_MSG_NOTIFICATION && len(rx.Raw) >= 21 {
			notifs = append(notifs, [2]uint8{rx.Raw[19], rx.Raw[20]})
		}
	}
	st := sc.status(w)
	all := []string{c06lib.P4, c06lib.Q4, c06lib.R4, c06lib.P6, c06lib.Q6}
	ann, wd := c06eSet(v.Ann4, v.Ann6), c06eSet(v.Wd4, v.Wd6)

	// ---- which reaction did the daemon show?
	actual := ""
	switch {
	case !est || len(notifs) > 0:
		actual = "reset"
	default:
		present, absent, stale := 0, 0, 0
		for pf := range ann {
			switch st.adj[pf] {
			case "new":
				present++
			case "old":
				stale++
			default:
				absent++
			}
		}
		switch {
		case stale > 0:
			actual = "ignored" // the announced prefix still carries the attributes of the earlier UPDATE
		case present > 0 && absent > 0:
			actual = "partly-installed"
		case present > 0:
			actual = "installed"
		case absent > 0:
			actual = "taw"
		default:
			actual = "nothing-announced"
		}
	}
	w.stat(fmt.Sprintf("%s want=%s actual=%s", mode, v.Primary, actual))
	w.stat("rule " + v.Attr + ":" + v.Rule + " -> " + v.Primary.String())

	// ---- is that reaction one the RFCs permit, and was it carried out completely?
	switch actual {
	case "reset":
		dErr, vMsg, vReset := c06eDiagnose(sc.raw, pt)
		afterDecode := sc.cs.Revised && dErr && vReset
		if !v.Accept[c06lib.Reset] {
			if afterDecode {
				w.violate(fmt.Sprintf("C06:effect:validate-after-decode-error:%s:want=%s:got=reset", c06eSanitize(vMsg), v.Primary), "the session was reset (state %v, NOTIFICATIONs %v): the decoder had rejected an attribute and the validation stage, run over the half-decoded attributes, asked for a reset (%q) — %s", p.State(), notifs, vMsg, what)
			} else {
				viol("class:got=reset", "the session was reset (state %v, NOTIFICATIONs %v)", p.State(), notifs)
			}
			return
		}
		if len(notifs) != 1 {
			viol("reset-notification-count", "session reset but %d NOTIFICATIONs reached the peer", len(notifs))
		} else if n := notifs[0]; n[0] == 0 {
			viol("notif-0/0", "NOTIFICATION %d/%d sent: error code 0 does not exist", n[0], n[1])
		} else if (n[0] != 3 || !v.Subs[n[1]]) && afterDecode {
			w.violate(fmt.Sprintf("C06:effect:validate-after-decode-error:%s:notif=%d/%d", c06eSanitize(vMsg), n[0], n[1]), "NOTIFICATION %d/%d sent (validation of half-decoded attributes: %q), acceptable 3/%s — %s", n[0], n[1], vMsg, v.SubsString(), what)
		} else if n[0] != 3 || !v.Subs[n[1]] {
			w.violate(fmt.Sprintf("C06:effect:notif:got=%d/%d:%s:%s", n[0], n[1], rule, mode), "NOTIFICATION %d/%d sent, acceptable 3/%s — %s", n[0], n[1], v.SubsString(), what)
		}
		if est {
			viol("reset-but-established", "a NOTIFICATION %v was sent but the peer is still Established", notifs)
		}
		for _, pf := range all {
			if st.loc[pf] != "" || st.obs[pf] != "" || st.adj[pf] != "" {
				viol("reset-routes-remain", "session reset but %s is still there: adj-in=%q loc-rib=%q observer=%q", pf, st.adj[pf], st.loc[pf], st.obs[pf])
				break
			}
		}
		return
	case "ignored", "partly-installed":
		cause := rule
		for _, e := range v.Errs {
			if e.Rule == "attr-overrun" || e.Rule == "attr-underrun" {
				cause = "after-" + e.Rule
			}
		}
		for _, e := range v.Errs {
			if strings.HasPrefix(e.Attr, "MP_") && strings.HasPrefix(e.Rule, "flags") {
				cause = "mp-attr-flags-error"
			}
		}
		w.violate(fmt.Sprintf("C06:effect:taw-leaves-old-route:%s:%s", cause, mode), "reaction %s: the session stayed up but the announced prefixes %v %v keep the route of the earlier UPDATE: adj-in %v — %s", actual, v.Ann4, v.Ann6, st.adj, what)
	case "installed":
		if !v.Accept[c06lib.None] && !v.Accept[c06lib.Discard] {
			viol("class:got=installed", "the routes of the malformed UPDATE were installed: adj-in %v", st.adj)
		}
	case "taw":
		if !v.Accept[c06lib.TAW] {
			viol("class:got=taw", "the announced prefixes were withdrawn: adj-in %v", st.adj)
		}
	case "nothing-announced":
		if !v.Accept[c06lib.None] && !v.Accept[c06lib.Discard] && !v.Accept[c06lib.TAW] {
			viol("class:got=no-reset", "the session stayed up")
		}
	}
	// ---- per prefix, in the three places (session up)
	if v.NamedOK {
		var wrong []string
		wrongKind := ""
		for _, pf := range all {
			want := "old"
			switch {
			case wd[pf] && !ann[pf]:
				want = ""
			case ann[pf]:
				want = "new"
				if actual == "taw" {
					want = ""
				}
			}
			if actual == "ignored" || actual == "partly-installed" {
				continue // already reported
			}
			for _, where := range []struct {
				name string
				m    map[string]string
			}{{"adj-rib-in", st.adj}, {"loc-rib", st.loc}, {"observer", st.obs}} {
				if where.m[pf] != want {
					kind := "named-prefix"
					if !ann[pf] && !wd[pf] {
						kind = "unnamed-prefix"
					}
					if wrongKind == "" {
						wrongKind = kind
					}
					wrong = append(wrong, fmt.Sprintf("%s should be %q in the %s but is %q", pf, want, where.name, where.m[pf]))
				}
			}
		}
		if len(wrong) > 0 {
			mpFlags := false
			for _, e := range v.Errs {
				if strings.HasPrefix(e.Attr, "MP_") && strings.HasPrefix(e.Rule, "flags") {
					mpFlags = true
				}
			}
			if mpFlags && actual == "taw" {
				w.violate("C06:effect:taw-skips-mp-prefixes:mp-attr-flags-error:"+mode, "reaction %s: %s — %s", actual, strings.Join(wrong, "; "), what)
			} else {
				viol(wrongKind+"-state", "reaction %s: %s", actual, strings.Join(wrong, "; "))
			}
		}
	}
	// ---- nothing installed may carry a malformed attribute or lack a mandatory one
	unclean := map[string][]string{}
	for _, place := range []struct {
		name   string
		blk    map[string][]byte
		strict bool
	}{{"adj-rib-in", st.adjBlk, false}, {"loc-rib", st.locBlk, pt == c06lib.EBGP}} {
		var pfs []string
		for pf := range place.blk {
			pfs = append(pfs, pf)
		}
		sort.Strings(pfs)
		for _, pf := range pfs {
			bad := c06lib.CheckInstalled(place.blk[pf], strings.Contains(pf, ":"), pt, place.strict)
			if ann[pf] && st.adj[pf] == "new" {
				have := map[byte]bool{}
				for _, t := range c06eTypes(place.blk[pf]) {
					have[t] = true
				}
				for t := range v.MustNotInstall {
					if have[t] {
						label := "malformed-" + c06lib.TypeName(t) + "-kept"
						for _, e := range v.Errs {
							if e.Attr == c06lib.TypeName(t) && !e.OnOpt && !strings.HasPrefix(e.Rule, "dup") {
								label = e.Attr + ":" + e.Rule + "-kept"
								break
							}
						}
						bad = append(bad, label)
					}
				}
			}
			if len(bad) > 0 {
				unclean[bad[0]] = append(unclean[bad[0]], fmt.Sprintf("route %s in the %s: %v (attributes %s)", pf, place.name, bad, c06lib.Hex(place.blk[pf])))
			}
		}
	}
	for k, l := range unclean {
		w.violate("C06:effect:unclean-route:"+k, "installed routes are not clean: %s — %s", strings.Join(l, "; "), what)
	}
	w.stat("installed routes checked")
	// ---- whatever the observer was sent must itself be well-formed
	for _, rx := range sc.obs.rxAll()[min(sc.obsSeq, len(sc.obs.rxAll())):] {
		if rx.Type != bgp.BGP_MSG_UPDATE {
			continue
		}
		ov := c06lib.Ref(rx.Raw[19:], c06lib.EBGP, true)
		if ov.Abstain == "" && ov.Primary != c06lib.None {
			w.violate("C06:effect:propagated-malformed:"+ov.Attr+":"+ov.Rule, "the observer was sent a malformed UPDATE %s (%v) — %s", c06lib.Hex(rx.Raw), ov.Errs, what)
		}
		w.stat("observer updates checked")
	}
}

// c06eDiagnose runs the exported decode and validation functions on the message (diagnosis for the
// violation key only, never part of the oracle): did the decoder reject an attribute, and what does the
// validation stage say about the message it left behind?
func c06eDiagnose(raw []byte, pt c06lib.PeerType) (decodeErr bool, validateMsg string, validateReset bool) {
	decodeErr, _, validateMsg, validateReset = c06eDiagnose2(raw, pt)
	return
}

func c06eDiagnose2(raw []byte, pt c06lib.PeerType) (decodeErr, decodeTAW bool, validateMsg string, validateReset bool) {
	defer func() {
		if r := recover(); r != nil {
			validateMsg, validateReset = "panic", true
		}
	}()
	rf := map[bgp.Family]bgp.BGPAddPathMode{bgp.RF_IPv4_UC: bgp.BGP_ADD_PATH_NONE, bgp.RF_IPv6_UC: bgp.BGP_ADD_PATH_NONE}
	hd := &bgp.BGPHeader{}
	if hd.DecodeFromBytes(raw[:19]) != nil {
		return
	}
	m, err := bgp.ParseBGPBody(hd, raw[19:], &bgp.MarshallingOption{AddPath: rf})
	if m == nil {
		return
	}
	decodeErr = err != nil
	if me, isme := err.(*bgp.MessageError); isme {
		decodeTAW = me.ErrorHandling == bgp.ERROR_HANDLING_TREAT_AS_WITHDRAW
	}
	if ok, ve := bgp.ValidateUpdateMsg(m.Body.(*bgp.BGPUpdate), rf, pt != c06lib.IBGP, pt == c06lib.Confed, false); !ok {
		if me, isme := ve.(*bgp.MessageError); isme {
			validateMsg, validateReset = me.Message, me.ErrorHandling >= bgp.ERROR_HANDLING_AFISAFI_DISABLE
		}
	}
	return
}

func c06eSanitize(s string) string {
	var sb strings.Builder
	for _, c := range s {
		switch {
		case c >= 'a' && c <= 'z', c >= 'A' && c <= 'Z', c == '_':
			sb.WriteRune(c)
		case c == ' ':
			sb.WriteRune('-')
		}
	}
	x := sb.String()
	if len(x) > 60 {
		x = x[:60]
	}
	return x
}

// c06eTypes lists the attribute types of a well-framed attribute block.
func c06eTypes(blk []byte) []byte {
	var out []byte
	for len(blk) >= 3 {
		hl, l := 3, int(blk[2])
		if blk[0]&0x10 != 0 {
			if len(blk) < 4 {
				break
			}
			hl, l = 4, int(blk[2])<<8|int(blk[3])
		}
		if hl+l > len(blk) {
			break
		}
		out = append(out, blk[1])
		blk = blk[hl+l:]
	}
	return out
}

// ---- case selection ----------------------------------------------------------------------------

// pairs that combine a fault the decoder answers mildly with one only the validation stage sees, and
// other interactions found by part "classify"; base name -> pairs
var c06ePairs = map[string][][2]string{
	"v4full": {
		{"AGGREGATOR:vlen+1", "ORIGIN:missing"}, {"AGGREGATOR:vlen+1", "NEXT_HOP:value=0.0.0.0"}, {"AGGREGATOR:vlen+1", "ORIGIN:value=3"},
		{"AGGREGATOR:vlen+1", "msg:unknown-wellknown@0"}, {"AGGREGATOR:vlen+1", "ORIGIN:dup-after"}, {"AGGREGATOR:vlen+1", "AS_PATH:confed-seq-lead"},
		{"ATOMIC_AGGREGATE:vlen+1", "NEXT_HOP:missing"}, {"ORIGIN:vlen+1", "msg:unknown-wellknown@2"}, {"MED:vlen-1", "ORIGIN:dup-last"},
		{"COMMUNITIES:vlen-1", "msg:unknown-wellknown@0"}, {"AGGREGATOR:vlen+1", "nlri:pfxlen=33"}, {"ORIGIN:lenfield=250", "nlri:pfxlen=33"},
	},
	"v4min": {{"ORIGIN:flag^transitive", "msg:unknown-wellknown@3"}, {"AS_PATH:lenfield-1", "nlri:pfxlen=33-last"}, {"ORIGIN:value=3", "NEXT_HOP:value=127.0.0.1"}},
	"mixed": {{"NEXT_HOP:vlen-1", "MP_UNREACH:dup-after"}, {"MP_UNREACH:flag^transitive", "MP_UNREACH:vlen-1"}},
	"mp6":   {{"MP_REACH:flag^transitive", "MP_REACH:short4"}, {"MED:vlen-1", "MP_REACH:dup-after"}, {"MP_REACH:flag^optional", "ORIGIN:missing"}},
}

func c06eCases(thorough bool) []c06eCase {
	var out []c06eCase
	seen := map[string]bool{}
	for _, pt := range c06lib.PeerTypes {
		for _, bn := range c06lib.BaseNames {
			b := c06lib.BuildBase(bn, pt, c06lib.MarkerNew)
			cat := c06lib.Catalogue(b, pt)
			for _, revised := range []bool{true, false} {
				out = append(out, c06eCase{Base: bn, Peer: int(pt), Revised: revised})
				for _, f := range cat {
					m, ok := c06lib.Build(b, f)
					if !ok {
						continue
					}
					if !thorough {
						// one representative per (deciding rule, class, accepted set, fault kind, peer type, mode):
						// drops the repetitions of the same fault kind over the bases / attribute orders
						v := c06lib.Ref(m.Body(), pt, revised)
						k := fmt.Sprintf("%d|%v|%s:%s|%s|%s|%s", pt, revised, v.Attr, v.Rule, v.Primary, v.AcceptString(), f.Kind)
						if v.Primary == c06lib.None {
							k += "|" + f.Target
						}
						if seen[k] {
							continue
						}
						seen[k] = true
					}
					out = append(out, c06eCase{Base: bn, Peer: int(pt), Revised: revised, Faults: []string{f.ID}})
				}
				for _, pr := range c06ePairs[bn] {
					f1, ok1 := c06lib.Lookup(cat, pr[0])
					f2, ok2 := c06lib.Lookup(cat, pr[1])
					if !ok1 || !ok2 {
						continue
					}
					if _, ok := c06lib.Build(b, f1, f2); ok {
						out = append(out, c06eCase{Base: bn, Peer: int(pt), Revised: revised, Faults: []string{pr[0], pr[1]}})
					}
				}
			}
		}
	}
	return out
}

func TestVerif_C06_Effect(t *testing.T) {
	r := vr.Start(t, "C06", "effect")
	defer r.Finish()
	r.Rule = "one synctest bubble per case: real daemon, peer bot of the type under test + eBGP observer, well-formed routes installed first, then the faulty UPDATE as raw bytes; session state, NOTIFICATION code/subcode, Adj-RIB-In, Loc-RIB and everything sent to the observer compared with ref7606; non-trivial = distinct case whose bubble ran to the oracle"
	if r.ReplayPath() != "" {
		var rp simReplay
		if err := r.LoadReplay(&rp); err != nil {
			t.Fatal(err)
		}
		simReplayOne(t, r, rp)
		return
	}
	cases := c06eCases(vr.Thorough())
	r.Bounds["cases"] = len(cases)
	r.Bounds["selection"] = "quick: the six well-formed bases, one single-fault representative per (deciding reference rule, class, accepted set, fault kind) x peer type x mode (drops repetitions of a fault kind over bases and attribute orders), plus a fixed list of fault pairs; thorough: every single fault of the catalogue x peer type x mode plus the same pairs"
	r.Bounds["peer_types"] = 3
	r.Bounds["modes"] = 2
	r.Bounds["session"] = "passive peers, 4-octet AS, no ADD-PATH, IPv4+IPv6 unicast, hold time 0; observer is an eBGP peer"
	workers := 16
	if s := os.Getenv("VERIF_SIM_WORKERS"); s != "" {
		if n, err := strconv.Atoi(s); err == nil && n > 0 {
			workers = n
		}
	}
	var jobs []simJob
	for i, c := range cases {
		arg, _ := json.Marshal(c)
		jobs = append(jobs, simJob{ID: i, Scenario: "c06", Arg: string(arg), Hist: []simEvent{{Op: "fault"}}})
	}
	pool := &simPool{n: workers}
	var crashed []simJob
	pool.runAll(jobs, func(o simOutcome) {
		r.Eval()
		rp := simReplay{"c06", o.job.Arg, o.job.Hist}
		c := cases[o.job.ID]
		if o.crash != "" {
			crashed = append(crashed, o.job)
			return
		}
		if o.res.Panic != "" {
			if strings.Contains(o.res.Panic, "c06 setup:") || strings.Contains(o.res.Panic, "c06:") {
				t.Fatalf("ENGINE-ERROR %s: %s", c, simTail(o.res.Panic, 1500))
			}
			r.Violationf("panic:c06:"+simCrashSite(o.res.Panic), rp, "panic on %s: %s", c, simTail(o.res.Panic, 3000))
			return
		}
		r.NT(o.job.Arg)
		for _, v := range o.res.Viol {
			r.Violationf(v.Key, rp, "%s", v.What)
		}
		for k, n := range o.res.Stats {
			r.Outcomes[k] += int64(n)
		}
		if r.WantSample() && o.job.ID%97 == 3 {
			raw, _ := c.raw()
			r.Sample(map[string]any{"case": c, "hex": c06lib.Hex(raw)})
		}
	})
	for _, k := range []string{"7606-on want=none actual=installed", "7606-on want=taw actual=taw", "7606-on want=reset actual=reset", "7606-off want=reset actual=reset", "7606-on want=discard actual=installed"} {
		if r.Outcomes[k] == 0 {
			t.Fatalf("ENGINE-ERROR vacuous: outcome %q never seen: %v", k, r.Outcomes)
		}
	}
	// a case on which the worker process died: reproduce it 3x in fresh workers and name the crash site
	// from the complete stderr (the pool only keeps a tail, which loses the head of a long trace)
	sort.Slice(crashed, func(i, j int) bool { return crashed[i].ID < crashed[j].ID })
	for _, job := range crashed {
		c := cases[job.ID]
		site, trace, n := "", "", 0
		for i := 0; i < 3; i++ {
			if s, tr, died := c06eCrashOnce(job); died {
				n++
				if site == "" || s == site {
					site, trace = s, tr
				} else {
					site = "varying-site"
				}
			}
		}
		if n == 3 {
			r.Violationf("C06:effect:daemon-crash:"+site, c06eCrashReplay{"c06", job.Arg, job.Hist}, "the daemon process died (3/3) on %s:\n%s", c, simTail(trace, 2500))
			r.Outcomes["daemon crashed"]++
		} else {
			r.Extra["unstable_crash:"+job.Arg] = fmt.Sprintf("the worker died in the sweep but only %d/3 times when re-run", n)
			r.Cap("a worker death did not reproduce 3/3 and is not reported as a violation")
		}
	}
	simConfirm(t, r, 3)
}

// c06eCrashReplay has the JSON shape of simReplay (so that --replay works) but is a different Go type, so
// that simConfirm leaves the already confirmed crash violations alone.
type c06eCrashReplay struct {
	Scenario string     `json:"scenario"`
	Arg      string     `json:"arg"`
	Hist     []simEvent `json:"hist"`
}

// c06eCrashOnce runs one job in a fresh worker process; when the process dies it returns the crash site
// taken from the complete stderr and the head of the trace.
func c06eCrashOnce(job simJob) (site, trace string, died bool) {
	p, err := simStartWorker()
	if err != nil {
		return "", "", false
	}
	_, err = p.run(job)
	if err == nil {
		p.kill()
		return "", "", false
	}
	p.jobs.Close()
	p.cmd.Wait()
	full := p.stderr.String()
	p.kill()
	if i := strings.Index(full, "panic:"); i >= 0 {
		full = full[i:]
	} else if i := strings.Index(full, "fatal error:"); i >= 0 {
		full = full[i:]
	}
	head := full
	if len(head) > 2500 {
		head = head[:2500]
	}
	return simCrashSite(full), head, true
}
