package server

// E-SIM: the whole daemon (real BgpServer, real FSM goroutines, real timers) inside a
// testing/synctest bubble, driven through in-memory connections by scripted remote speakers ("bots").
// Virtual time only moves when the harness sleeps; quiescence is detected by synctest.Wait.

import (
	"bytes"
	"context"
	"encoding/binary"
	"encoding/hex"
	"errors"
	"fmt"
	"io"
	"log/slog"
	"net"
	"net/netip"
	"os"
	"sort"
	"strings"
	"sync"
	"syscall"
	"testing"
	"testing/synctest"
	"time"

	api "github.com/osrg/gobgp/v4/api"
	"github.com/osrg/gobgp/v4/internal/pkg/table"
	"github.com/osrg/gobgp/v4/pkg/config/oc"
	"github.com/osrg/gobgp/v4/pkg/packet/bgp"
)

// ---------------------------------------------------------------------------------------------
// transport

type simConn struct {
	net.Conn
	local, remote *net.TCPAddr
	mu            sync.Mutex
	failWriteAt   int // >0: the n-th Write from now on this side fails (fault injection)
	writes        int
	wsem          chan struct{}
}

func (c *simConn) LocalAddr() net.Addr  { return c.local }
func (c *simConn) RemoteAddr() net.Addr { return c.remote }
func (c *simConn) SyscallConn() (syscall.RawConn, error) {
	return nil, errors.New("simConn: no socket")
}
func (c *simConn) Write(b []byte) (int, error) {
	c.mu.Lock()
	c.writes++
	fail := c.failWriteAt > 0 && c.writes >= c.failWriteAt
	c.mu.Unlock()
	if fail {
		return 0, errors.New("simConn: injected write failure")
	}
	// one writer at a time, the others wait on a CHANNEL: net.Pipe serialises writers with a sync.Mutex, and a
	// goroutine waiting for a mutex is not durably blocked - with a remote that has stopped reading (the first
	// writer blocked inside the pipe, a KEEPALIVE or NOTIFICATION writer behind it) the bubble would never be
	// quiescent again
	c.mu.Lock()
	if c.wsem == nil {
		c.wsem = make(chan struct{}, 1)
	}
	sem := c.wsem
	c.mu.Unlock()
	sem <- struct{}{}
	defer func() { <-sem }()
	return c.Conn.Write(b)
}

var _ syscall.Conn = (*simConn)(nil)

// simPipe returns (server side, bot side).
func simPipe(serverIP, botIP [4]byte, serverPort, botPort int) (*simConn, *simConn) {
	a, b := net.Pipe()
	sa := &net.TCPAddr{IP: net.IP(serverIP[:]), Port: serverPort}
	ba := &net.TCPAddr{IP: net.IP(botIP[:]), Port: botPort}
	return &simConn{Conn: a, local: sa, remote: ba}, &simConn{Conn: b, local: ba, remote: sa}
}

// ---------------------------------------------------------------------------------------------
// bots

type simRx struct {
	At   time.Duration // virtual time since world start
	Seq  int
	Raw  []byte
	Msg  *bgp.BGPMessage
	Err  string
	Type uint8
}

type simBotSpec struct {
	Name     string
	IP       [4]byte
	AS       uint32
	RouterID [4]byte
	HoldTime uint16
	// capabilities the bot announces (nil = default set: MP for Families, 4-octet AS, route refresh)
	Families      []bgp.Family
	AddPath       map[bgp.Family]bgp.BGPAddPathMode // what the BOT announces
	No4Octet      bool
	ExtMsg        bool
	GRFamilies    []bgp.Family
	GRTime        uint16
	GRNotif       bool
	GRRestarting  bool
	LLGRFamilies  []bgp.Family
	LLGRTime      uint32
	NoRouteRefres bool
	ExtraCaps     []bgp.ParameterCapabilityInterface
	// server-side neighbour configuration
	Neighbor func(n *oc.Neighbor)
	// configuration keys that only a configuration FILE can set (the API path forces a default):
	// applied to the peer's stored configuration right after it was added, before any session.
	FileOnly func(n *oc.Neighbor)
}

type simBot struct {
	w    *simWorld
	idx  int
	spec simBotSpec

	mu      sync.Mutex
	conn    *simConn // bot side, nil when not connected
	srvConn *simConn
	gen     int
	rx      []simRx
	closed  bool // server closed / EOF seen on the current connection
	opts    *bgp.MarshallingOption
	view    map[string]string // what the bot holds from the server (current session)
	sendQ   chan []byte
	wrErr   error
	pending int // writes queued and not yet completed
	// group of UPDATEs received since the last settle (for map-order permutations)
	sinceSettle []simRx
}

func (b *simBot) String() string { return b.spec.Name }

func (b *simBot) addr() netip.Addr { return netip.AddrFrom4(b.spec.IP) }

func (b *simBot) connected() bool {
	b.mu.Lock()
	defer b.mu.Unlock()
	return b.conn != nil && !b.closed
}

// reader runs for one connection generation and records everything the server writes.
func (b *simBot) reader(c *simConn, gen int) {
	for {
		hdr := make([]byte, 19)
		if _, err := io.ReadFull(c, hdr); err != nil {
			b.mu.Lock()
			if b.gen == gen {
				b.closed = true
			}
			b.mu.Unlock()
			return
		}
		l := int(binary.BigEndian.Uint16(hdr[16:18]))
		body := make([]byte, 0)
		if l > 19 {
			body = make([]byte, l-19)
			if _, err := io.ReadFull(c, body); err != nil {
				b.mu.Lock()
				if b.gen == gen {
					b.closed = true
				}
				b.mu.Unlock()
				return
			}
		}
		raw := append(hdr, body...)
		rx := simRx{At: time.Since(b.w.t0), Raw: raw, Type: hdr[18]}
		b.mu.Lock()
		opts := b.opts
		b.mu.Unlock()
		m, err := bgp.ParseBGPMessage(raw, opts)
		if err != nil {
			rx.Err = err.Error()
		}
		rx.Msg = m
		b.mu.Lock()
		if b.gen == gen {
			rx.Seq = len(b.rx)
			b.rx = append(b.rx, rx)
			if m != nil && err == nil && m.Header.Type == bgp.BGP_MSG_UPDATE {
				b.sinceSettle = append(b.sinceSettle, rx)
			}
		}
		b.mu.Unlock()
	}
}

// writer serialises the bot's writes so that the harness goroutine never blocks on the pipe.
func (b *simBot) writer(c *simConn, q chan []byte) {
	for buf := range q {
		_, err := c.Write(buf)
		b.mu.Lock()
		b.pending--
		if err != nil {
			b.wrErr = err
		}
		b.mu.Unlock()
	}
}

func (b *simBot) send(buf []byte) {
	b.mu.Lock()
	q := b.sendQ
	if q == nil {
		b.mu.Unlock()
		return
	}
	b.pending++
	b.mu.Unlock()
	q <- buf
}

func (b *simBot) sendMsg(m *bgp.BGPMessage) {
	b.mu.Lock()
	opts := b.opts
	b.mu.Unlock()
	buf, err := m.Serialize(opts)
	if err != nil {
		panic(fmt.Sprintf("bot %s cannot serialise: %v", b.spec.Name, err))
	}
	b.send(buf)
}

func (b *simBot) caps() []bgp.ParameterCapabilityInterface {
	s := b.spec
	var caps []bgp.ParameterCapabilityInterface
	for _, f := range s.Families {
		caps = append(caps, bgp.NewCapMultiProtocol(f))
	}
	if !s.NoRouteRefres {
		caps = append(caps, bgp.NewCapRouteRefresh())
	}
	if !s.No4Octet {
		caps = append(caps, bgp.NewCapFourOctetASNumber(s.AS))
	}
	if s.ExtMsg {
		caps = append(caps, bgp.NewCapExtendedMessage())
	}
	if len(s.AddPath) > 0 {
		var tuples []*bgp.CapAddPathTuple
		fams := make([]bgp.Family, 0, len(s.AddPath))
		for f := range s.AddPath {
			fams = append(fams, f)
		}
		sort.Slice(fams, func(i, j int) bool { return fams[i] < fams[j] })
		for _, f := range fams {
			tuples = append(tuples, bgp.NewCapAddPathTuple(f, s.AddPath[f]))
		}
		caps = append(caps, bgp.NewCapAddPath(tuples))
	}
	if s.GRTime > 0 || len(s.GRFamilies) > 0 {
		var tuples []*bgp.CapGracefulRestartTuple
		for _, f := range s.GRFamilies {
			tuples = append(tuples, bgp.NewCapGracefulRestartTuple(f, true))
		}
		caps = append(caps, bgp.NewCapGracefulRestart(s.GRRestarting, s.GRNotif, s.GRTime, tuples))
	}
	if len(s.LLGRFamilies) > 0 {
		var tuples []*bgp.CapLongLivedGracefulRestartTuple
		for _, f := range s.LLGRFamilies {
			tuples = append(tuples, bgp.NewCapLongLivedGracefulRestartTuple(f, true, s.LLGRTime))
		}
		caps = append(caps, bgp.NewCapLongLivedGracefulRestart(tuples))
	}
	caps = append(caps, s.ExtraCaps...)
	return caps
}

func (b *simBot) openMsg() *bgp.BGPMessage {
	as := uint16(bgp.AS_TRANS)
	if b.spec.AS <= 65535 {
		as = uint16(b.spec.AS)
	}
	m, err := bgp.NewBGPOpenMessage(as, b.spec.HoldTime, netip.AddrFrom4(b.spec.RouterID),
		[]bgp.OptionParameterInterface{bgp.NewOptionParameterCapability(b.caps())})
	if err != nil {
		panic(err)
	}
	return m
}

// connect opens a new transport connection to the server's passive side (what Serve does for an
// accepted connection). The previous connection, if any, is abandoned (closed).
func (b *simBot) connect() {
	srv := b.attach(179, 40000+b.idx)
	var c net.Conn = srv
	if b.w.wrapConn != nil {
		c = b.w.wrapConn(srv)
	}
	b.w.must(b.w.s.mgmtOperation(func() error { b.w.s.passConnToPeer(c); return nil }, false))
}

// attach gives the bot a fresh connection (closing the previous one) and returns the daemon's end
// without handing it to the daemon (connect does that for inbound connections; a dial seam returns
// it from the daemon's own dial for outbound ones).
func (b *simBot) attach(serverPort, botPort int) *simConn {
	b.disconnect()
	w := b.w
	w.settle()
	srv, bot := simPipe(w.serverIP, b.spec.IP, serverPort, botPort)
	b.mu.Lock()
	b.gen++
	gen := b.gen
	b.conn, b.srvConn = bot, srv
	b.closed = false
	b.rx = nil
	b.sinceSettle = nil
	b.view = map[string]string{}
	b.opts = &bgp.MarshallingOption{AddPath: map[bgp.Family]bgp.BGPAddPathMode{}}
	b.sendQ = make(chan []byte, 64)
	b.wrErr = nil
	b.pending = 0
	q := b.sendQ
	b.mu.Unlock()
	go b.reader(bot, gen)
	go b.writer(bot, q)
	return srv
}

func (b *simBot) disconnect() {
	b.mu.Lock()
	c, q := b.conn, b.sendQ
	b.conn, b.sendQ = nil, nil
	b.mu.Unlock()
	if c != nil {
		c.Close()
	}
	if q != nil {
		close(q)
	}
}

// negotiated options as the BOT must use them (mirror image of the server's).
func (b *simBot) setSessionOptions(serverOpen *bgp.BGPOpen) {
	ap := map[bgp.Family]bgp.BGPAddPathMode{}
	srvAP := map[bgp.Family]bgp.BGPAddPathMode{}
	srv4 := false
	srvExt := false
	for _, p := range serverOpen.OptParams {
		if pc, ok := p.(*bgp.OptionParameterCapability); ok {
			for _, c := range pc.Capability {
				switch cc := c.(type) {
				case *bgp.CapAddPath:
					for _, t := range cc.Tuples {
						srvAP[t.Family] = t.Mode
					}
				case *bgp.CapFourOctetASNumber:
					srv4 = true
				case *bgp.CapExtendedMessage:
					srvExt = true
				}
			}
		}
	}
	for f, mine := range b.spec.AddPath {
		theirs := srvAP[f]
		var n bgp.BGPAddPathMode
		if mine&bgp.BGP_ADD_PATH_SEND > 0 && theirs&bgp.BGP_ADD_PATH_RECEIVE > 0 {
			n |= bgp.BGP_ADD_PATH_SEND
		}
		if mine&bgp.BGP_ADD_PATH_RECEIVE > 0 && theirs&bgp.BGP_ADD_PATH_SEND > 0 {
			n |= bgp.BGP_ADD_PATH_RECEIVE
		}
		ap[f] = n
	}
	b.mu.Lock()
	b.opts = &bgp.MarshallingOption{AddPath: ap, Use2ByteAS: !(srv4 && !b.spec.No4Octet), ExtendedMessage: srvExt && b.spec.ExtMsg}
	b.mu.Unlock()
}

// handshake brings the session up (connect, OPEN exchange, KEEPALIVE) and returns whether the
// server reports Established afterwards.
func (b *simBot) handshake() bool {
	w := b.w
	b.connect()
	w.settle()
	b.sendMsg(b.openMsg())
	w.settle()
	// server's OPEN is the first message
	b.mu.Lock()
	var so *bgp.BGPOpen
	for _, r := range b.rx {
		if r.Msg != nil && r.Msg.Header.Type == bgp.BGP_MSG_OPEN {
			so = r.Msg.Body.(*bgp.BGPOpen)
			break
		}
	}
	b.mu.Unlock()
	if so == nil {
		return false
	}
	b.setSessionOptions(so)
	b.sendMsg(bgp.NewBGPKeepAliveMessage())
	w.settle()
	p := w.peer(b)
	return p != nil && p.State() == bgp.BGP_FSM_ESTABLISHED
}

// takeRx returns and forgets the UPDATEs received since the previous call.
func (b *simBot) takeGroup() []simRx {
	b.mu.Lock()
	defer b.mu.Unlock()
	g := b.sinceSettle
	b.sinceSettle = nil
	return g
}

func (b *simBot) rxAll() []simRx {
	b.mu.Lock()
	defer b.mu.Unlock()
	return append([]simRx{}, b.rx...)
}

// ---------------------------------------------------------------------------------------------
// canonical forms

func simAttrCanon(attrs []bgp.PathAttributeInterface, opts *bgp.MarshallingOption) string {
	var parts []string
	for _, a := range attrs {
		switch a.(type) {
		case *bgp.PathAttributeMpReachNLRI, *bgp.PathAttributeMpUnreachNLRI:
			continue
		}
		buf, err := a.Serialize()
		if err != nil {
			parts = append(parts, fmt.Sprintf("%03d:ERR(%v)", a.GetType(), err))
			continue
		}
		parts = append(parts, fmt.Sprintf("%03d:%s", a.GetType(), hex.EncodeToString(buf)))
	}
	sort.Strings(parts)
	return strings.Join(parts, ",")
}

func simRouteKey(f bgp.Family, nlri bgp.NLRI, id uint32) string {
	return fmt.Sprintf("%s|%s|%d", f, nlri.String(), id)
}

// simFold applies one UPDATE to a view (withdrawn first, then announced — RFC 4271 order).
func simFold(view map[string]string, m *bgp.BGPMessage) (touched []string) {
	u := m.Body.(*bgp.BGPUpdate)
	canon := simAttrCanon(u.PathAttributes, nil)
	for _, wd := range u.WithdrawnRoutes {
		k := simRouteKey(bgp.RF_IPv4_UC, wd.NLRI, wd.ID)
		delete(view, k)
		touched = append(touched, k)
	}
	for _, a := range u.PathAttributes {
		if un, ok := a.(*bgp.PathAttributeMpUnreachNLRI); ok {
			f := bgp.NewFamily(un.AFI, un.SAFI)
			for _, wd := range un.Value {
				k := simRouteKey(f, wd.NLRI, wd.ID)
				delete(view, k)
				touched = append(touched, k)
			}
		}
	}
	for _, n := range u.NLRI {
		k := simRouteKey(bgp.RF_IPv4_UC, n.NLRI, n.ID)
		view[k] = canon
		touched = append(touched, k)
	}
	for _, a := range u.PathAttributes {
		if re, ok := a.(*bgp.PathAttributeMpReachNLRI); ok {
			f := bgp.NewFamily(re.AFI, re.SAFI)
			for _, n := range re.Value {
				k := simRouteKey(f, n.NLRI, n.ID)
				view[k] = canon + "|nh=" + re.Nexthop.String() + "|ll=" + re.LinkLocalNexthop.String()
				touched = append(touched, k)
			}
		}
	}
	return touched
}

func simViewString(v map[string]string) string {
	ks := make([]string, 0, len(v))
	for k := range v {
		ks = append(ks, k)
	}
	sort.Strings(ks)
	var sb strings.Builder
	for _, k := range ks {
		sb.WriteString(k)
		sb.WriteString(" => ")
		sb.WriteString(v[k])
		sb.WriteString("\n")
	}
	return sb.String()
}

// ---------------------------------------------------------------------------------------------
// world

type simViolation struct {
	Key  string `json:"key"`
	What string `json:"what"`
}

type simWorld struct {
	t        *testing.T
	s        *BgpServer
	serverIP [4]byte
	serverAS uint32
	routerID string
	t0       time.Time
	bots     []*simBot
	everPeer []*peer // every peer object that ever existed (teardown drain)
	viol     []simViolation
	global   func(g *api.Global)
	logBuf   *bytes.Buffer
	// logHandler, if set, receives every record the daemon logs (harness-owned seam: park sites)
	logHandler slog.Handler
	// wrapConn, if set, wraps the daemon's end of every connection a bot opens (park sites on Write / Close)
	wrapConn func(*simConn) net.Conn
	stats    map[string]int
}

func (w *simWorld) must(err error) {
	if err != nil {
		panic(fmt.Sprintf("sim: unexpected error: %v", err))
	}
}

func (w *simWorld) violate(key, format string, a ...any) {
	w.viol = append(w.viol, simViolation{key, fmt.Sprintf(format, a...)})
}

func (w *simWorld) stat(k string) { w.stats[k]++ }

// settle waits until every goroutine in the bubble is durably blocked.
func (w *simWorld) settle() { synctest.Wait() }

// advance moves virtual time forward by d, then settles.
func (w *simWorld) advance(d time.Duration) {
	time.Sleep(d)
	synctest.Wait()
}

func (w *simWorld) now() time.Duration { return time.Since(w.t0) }

func (w *simWorld) peer(b *simBot) *peer {
	var p *peer
	w.s.shared.mu.RLock()
	p = w.s.neighborMap[b.addr()]
	w.s.shared.mu.RUnlock()
	return p
}

func (w *simWorld) start() {
	w.stats = map[string]int{}
	w.t0 = time.Now()
	if w.serverAS == 0 {
		w.serverAS = 65000
	}
	if w.routerID == "" {
		w.routerID = "10.0.0.254"
	}
	w.serverIP = [4]byte{10, 0, 0, 254}
	logger := slog.New(slog.NewTextHandler(io.Discard, &slog.HandlerOptions{Level: slog.LevelError}))
	if os.Getenv("VERIF_SIM_LOG") != "" {
		logger = slog.New(slog.NewTextHandler(os.Stderr, &slog.HandlerOptions{Level: slog.LevelDebug}))
	}
	if w.logHandler != nil {
		logger = slog.New(w.logHandler)
	}
	w.s = NewBgpServer(LoggerOption(logger, nil))
	go w.s.Serve()
	g := &api.Global{Asn: w.serverAS, RouterId: w.routerID, ListenPort: -1}
	if w.global != nil {
		w.global(g)
	}
	w.must(w.s.StartBgp(context.Background(), &api.StartBgpRequest{Global: g}))
	w.settle()
}

func (w *simWorld) defaultNeighbor(spec simBotSpec) *oc.Neighbor {
	n := &oc.Neighbor{
		Config: oc.NeighborConfig{
			NeighborAddress: netip.AddrFrom4(spec.IP),
			PeerAs:          spec.AS,
		},
		Transport: oc.Transport{Config: oc.TransportConfig{PassiveMode: true}},
	}
	fams := spec.Families
	if len(fams) == 0 {
		fams = []bgp.Family{bgp.RF_IPv4_UC}
	}
	for _, f := range fams {
		name := oc.AfiSafiType(f.String())
		n.AfiSafis = append(n.AfiSafis, oc.AfiSafi{Config: oc.AfiSafiConfig{AfiSafiName: name, Enabled: true}})
	}
	if spec.Neighbor != nil {
		spec.Neighbor(n)
	}
	return n
}

func (w *simWorld) addBot(spec simBotSpec) *simBot {
	if len(spec.Families) == 0 {
		spec.Families = []bgp.Family{bgp.RF_IPv4_UC}
	}
	b := &simBot{w: w, idx: len(w.bots), spec: spec, view: map[string]string{}}
	w.bots = append(w.bots, b)
	w.addPeerFor(b)
	return b
}

func (w *simWorld) addPeerFor(b *simBot) error {
	n := w.defaultNeighbor(b.spec)
	err := w.s.mgmtOperation(func() error { return w.s.addNeighbor(n) }, true)
	if err == nil {
		if p := w.peer(b); p != nil {
			w.everPeer = append(w.everPeer, p)
			if b.spec.FileOnly != nil {
				w.must(w.s.mgmtOperation(func() error {
					p.fsm.lock.Lock()
					c := p.fsm.pConf.ReadCopy()
					b.spec.FileOnly(&c)
					p.fsm.pConf.Update(&c)
					p.fsm.lock.Unlock()
					return nil
				}, false))
			}
		}
	}
	w.settle()
	return err
}

func (w *simWorld) deletePeerFor(b *simBot) error {
	err := w.s.DeletePeer(context.Background(), &api.DeletePeerRequest{Address: b.addr().String()})
	w.settle()
	return err
}

// stop shuts the daemon down. With forceDrain the harness afterwards empties every peer's outgoing
// queue so that a shutdown leak (the InfiniteChannel pump, C20's business) cannot fail checks of
// other properties at bubble exit.
func (w *simWorld) stop(forceDrain bool) {
	for _, b := range w.bots {
		b.disconnect()
	}
	w.settle()
	_ = w.s.StopBgp(context.Background(), &api.StopBgpRequest{})
	if w.s.bfdServer != nil {
		w.s.bfdServer.Stop()
	}
	w.settle()
	if forceDrain {
		for _, p := range w.everPeer {
			simDrainInfinite(p)
		}
		w.settle()
	}
}

func simDrainInfinite(p *peer) {
	out := p.fsm.outgoingCh.Out()
	done := make(chan struct{})
	go func() {
		defer close(done)
		defer func() { recover() }()
		p.fsm.outgoingCh.Close()
	}()
	<-done
	for range out {
	}
}

// ---------------------------------------------------------------------------------------------
// observation helpers (white box)

type simRibRoute struct {
	Fam    string
	Prefix string
	Src    string
	RID    uint32
	LID    uint32
	Attrs  string
	Stale  bool
	TS     int64
	Best   bool
}

func (w *simWorld) ribDump(tm *table.TableManager) []simRibRoute {
	var out []simRibRoute
	if tm == nil {
		return out
	}
	fams := tm.GetRFlist()
	sort.Slice(fams, func(i, j int) bool { return fams[i] < fams[j] })
	for _, f := range fams {
		t, ok := tm.GetTable(f)
		if !ok {
			continue
		}
		for _, d := range t.GetDestinations() {
			for i, p := range d.GetAllKnownPathList() {
				src := "local"
				if a := p.GetSource().Address; a.IsValid() {
					src = a.String()
				}
				out = append(out, simRibRoute{f.String(), p.GetNlri().String(), src, p.RemoteID(), p.LocalID(),
					simAttrCanon(p.GetPathAttrs(), nil), p.IsStale(), p.GetTimestamp().Unix(), i == 0})
			}
		}
	}
	sort.SliceStable(out, func(i, j int) bool {
		if out[i].Fam != out[j].Fam {
			return out[i].Fam < out[j].Fam
		}
		return out[i].Prefix < out[j].Prefix
	})
	return out
}

func (w *simWorld) adjInDump(p *peer) []simRibRoute {
	var out []simRibRoute
	fams := p.configuredRFlist()
	for _, path := range p.adjRibIn.PathList(fams, false) {
		// LID: the local path identifier the Adj-RIB-In copy still carries is hidden state with future effects (it is
		// what the path re-enters the Loc-RIB with after a soft reset in)
		out = append(out, simRibRoute{Fam: path.GetFamily().String(), Prefix: path.GetNlri().String(), RID: path.RemoteID(), LID: path.LocalID(),
			Attrs: simAttrCanon(path.GetPathAttrs(), nil), Stale: path.IsStale(), Best: !path.IsRejected(), TS: path.GetTimestamp().Unix()})
	}
	sort.Slice(out, func(i, j int) bool {
		if out[i].Fam != out[j].Fam {
			return out[i].Fam < out[j].Fam
		}
		if out[i].Prefix != out[j].Prefix {
			return out[i].Prefix < out[j].Prefix
		}
		return out[i].RID < out[j].RID
	})
	return out
}

// tsRank replaces absolute timestamps by their rank so that states reached at different virtual
// instants but with the same relative ages coincide.
func simRankTS(lists ...[]simRibRoute) {
	set := map[int64]bool{}
	for _, l := range lists {
		for _, r := range l {
			set[r.TS] = true
		}
	}
	var ts []int64
	for t := range set {
		ts = append(ts, t)
	}
	sort.Slice(ts, func(i, j int) bool { return ts[i] < ts[j] })
	rank := map[int64]int64{}
	for i, t := range ts {
		rank[t] = int64(i)
	}
	for _, l := range lists {
		for i := range l {
			l[i].TS = rank[l[i].TS]
		}
	}
}

func (w *simWorld) sentPathsDump(p *peer) string {
	var parts []string
	p.sentPaths.Range(func(k, v any) bool {
		key := k.(table.PathDestLocalKey)
		ids := []int{}
		for id := range v.(pathIDSet) {
			ids = append(ids, int(id))
		}
		sort.Ints(ids)
		parts = append(parts, fmt.Sprintf("%s/%s:%v", key.Family, key.Prefix, ids))
		return true
	})
	p.sendMaxPathFiltered.Range(func(k, v any) bool {
		key := k.(table.PathLocalKey)
		parts = append(parts, fmt.Sprintf("F:%s/%s#%d", key.Family, key.Prefix, key.Id))
		return true
	})
	sort.Strings(parts)
	return strings.Join(parts, ";")
}

// stateKey: over-fine canonical form of everything that can influence future behaviour.
func (w *simWorld) stateKey(extra ...string) string {
	var sb strings.Builder
	loc := w.ribDump(w.s.globalRib)
	rs := w.ribDump(w.s.rsRib)
	lists := [][]simRibRoute{loc, rs}
	var adj [][]simRibRoute
	for _, b := range w.bots {
		if p := w.peer(b); p != nil {
			a := w.adjInDump(p)
			adj = append(adj, a)
			lists = append(lists, a)
		} else {
			adj = append(adj, nil)
		}
	}
	simRankTS(lists...)
	fmt.Fprintf(&sb, "LOC%v\nRS%v\n", loc, rs)
	for i, b := range w.bots {
		p := w.peer(b)
		if p == nil {
			fmt.Fprintf(&sb, "BOT %s: no peer; connected=%v\n", b.spec.Name, b.connected())
			continue
		}
		conf := p.fsm.pConf.ReadOnly()
		// pending items in the FSM's channels are hidden state with future effects
		chans := fmt.Sprintf("%d/%d/%d/%d/%d/%d", len(p.fsm.notification), len(p.fsm.deconfiguredNotification), len(p.fsm.adminStateCh),
			len(p.fsm.connCh), len(p.fsm.outgoingConnCh), p.fsm.outgoingCh.Len())
		fmt.Fprintf(&sb, "BOT %s: fsm=%v admin=%v rep=%v conn=%v chans=%s idlehold=%v adj=%v sent=%s gr=%v/%v view=\n%s", b.spec.Name,
			p.State(), p.AdminState(), conf.State.SessionState, b.connected(), chans, p.fsm.idleHoldTime, adj[i], w.sentPathsDump(p),
			conf.GracefulRestart.State.PeerRestarting, conf.GracefulRestart.State.LocalRestarting, simViewString(b.view))
	}
	for _, e := range extra {
		sb.WriteString(e)
		sb.WriteString("\n")
	}
	return sb.String()
}

// simHdr builds a raw BGP message with an arbitrary marker byte, length field and type.
func simHdr(marker byte, length uint16, typ uint8, body []byte) []byte {
	b := make([]byte, 19)
	for i := 0; i < 16; i++ {
		b[i] = marker
	}
	binary.BigEndian.PutUint16(b[16:18], length)
	b[18] = typ
	return append(b, body...)
}
