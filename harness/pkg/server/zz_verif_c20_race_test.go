package server

import (
	"context"
	"fmt"
	"os"
	"os/exec"
	"regexp"
	"sort"
	"strings"
	"sync"
	"testing"
	"testing/synctest"
	"time"

	api "github.com/osrg/gobgp/v4/api"
	"github.com/osrg/gobgp/v4/internal/verif/vr"
	"github.com/osrg/gobgp/v4/pkg/apiutil"
	"github.com/osrg/gobgp/v4/pkg/packet/bgp"
)

// C20, race part (AUXILIARY, not enumerative): the same operation bodies as the schedule part, and the
// API calls the schedule part cannot drive (watchers, list calls), run free-running with the real sync
// package under the race detector. A cooperative scheduler's hand-offs are happens-before edges and
// blind the detector, so this has to be a separate, free-running pass.

type c20RaceOp struct {
	name string
	f    func(w *simWorld, sc *simRoutesScenario, round int)
}

func c20RaceOps() []c20RaceOp {
	ctx := context.Background()
	return []c20RaceOp{
		{"updA", func(w *simWorld, sc *simRoutesScenario, r int) {
			w.bots[0].sendMsg(sc.updateMsg(w.bots[0], r%2, r%3, 0, false))
		}},
		{"wdA", func(w *simWorld, sc *simRoutesScenario, r int) {
			w.bots[0].sendMsg(sc.updateMsg(w.bots[0], r%2, 0, 0, true))
		}},
		{"updB", func(w *simWorld, sc *simRoutesScenario, r int) {
			w.bots[1].sendMsg(sc.updateMsg(w.bots[1], r%2, (r+1)%3, 0, false))
		}},
		{"rrB", func(w *simWorld, sc *simRoutesScenario, r int) {
			w.bots[1].sendMsg(bgp.NewBGPRouteRefreshMessage(1, 0, 1))
		}},
		{"addpath", func(w *simWorld, sc *simRoutesScenario, r int) {
			attrs, fam, nlri := sc.attrs(nil, r%2, 0)
			_, _ = w.s.AddPath(apiutil.AddPathRequest{Paths: []*apiutil.Path{{Family: fam, Nlri: nlri, Attrs: attrs}}})
		}},
		{"delpath", func(w *simWorld, sc *simRoutesScenario, r int) {
			attrs, fam, nlri := sc.attrs(nil, r%2, 0)
			_ = w.s.DeletePath(apiutil.DeletePathRequest{Paths: []*apiutil.Path{{Family: fam, Nlri: nlri, Attrs: attrs}}})
		}},
		{"listpath", func(w *simWorld, sc *simRoutesScenario, r int) {
			_ = w.s.ListPath(apiutil.ListPathRequest{TableType: api.TableType_TABLE_TYPE_GLOBAL, Family: bgp.RF_IPv4_UC}, func(bgp.NLRI, []*apiutil.Path) {})
			_ = w.s.ListPath(apiutil.ListPathRequest{TableType: api.TableType_TABLE_TYPE_ADJ_OUT, Family: bgp.RF_IPv4_UC, Name: w.bots[2].addr().String()}, func(bgp.NLRI, []*apiutil.Path) {})
		}},
		{"listpeer", func(w *simWorld, sc *simRoutesScenario, r int) {
			_ = w.s.ListPeer(ctx, &api.ListPeerRequest{EnableAdvertised: true}, func(*api.Peer) {})
			_, _ = w.s.GetTable(ctx, &api.GetTableRequest{TableType: api.TableType_TABLE_TYPE_GLOBAL, Family: &api.Family{Afi: api.Family_AFI_IP, Safi: api.Family_SAFI_UNICAST}})
		}},
		{"softreset", func(w *simWorld, sc *simRoutesScenario, r int) {
			_ = w.s.ResetPeer(ctx, &api.ResetPeerRequest{Address: "all", Soft: true, Direction: api.ResetPeerRequest_DIRECTION_BOTH})
		}},
		{"policy", func(w *simWorld, sc *simRoutesScenario, r int) {
			func() {
				defer func() { recover() }()
				simSetPolicies(w, r%simNPol, (r+2)%simNPol)
			}()
		}},
		{"flapC", func(w *simWorld, sc *simRoutesScenario, r int) {
			if r%2 == 0 {
				_ = w.s.DisablePeer(ctx, &api.DisablePeerRequest{Address: w.bots[2].addr().String()})
			} else {
				_ = w.s.EnablePeer(ctx, &api.EnablePeerRequest{Address: w.bots[2].addr().String()})
			}
		}},
		{"watch", func(w *simWorld, sc *simRoutesScenario, r int) {
			cctx, cancel := context.WithCancel(ctx)
			_ = w.s.WatchEvent(cctx, WatchEventMessageCallbacks{OnPathUpdate: func([]*apiutil.Path, time.Time) {}, OnBestPath: func([]*apiutil.Path, time.Time) {},
				OnPeerUpdate: func(*apiutil.WatchEventMessage_PeerEvent, time.Time) {}}, WatchBestPath(true), WatchUpdate(true, "", ""), WatchPeer())
			time.Sleep(10 * time.Millisecond)
			cancel()
		}},
		{"vrf", func(w *simWorld, sc *simRoutesScenario, r int) {
			rd, _ := apiutil.MarshalRD(bgp.NewRouteDistinguisherTwoOctetAS(65000, 1))
			rt, _ := apiutil.MarshalRTs([]bgp.ExtendedCommunityInterface{bgp.NewTwoOctetAsSpecificExtended(bgp.EC_SUBTYPE_ROUTE_TARGET, 65000, 1, true)})
			if r%2 == 0 {
				_ = w.s.AddVrf(ctx, &api.AddVrfRequest{Vrf: &api.Vrf{Name: "rv", Id: 7, Rd: rd, ImportRt: rt, ExportRt: rt}})
			} else {
				_ = w.s.DeleteVrf(ctx, &api.DeleteVrfRequest{Name: "rv"})
			}
		}},
		{"delpeerD", func(w *simWorld, sc *simRoutesScenario, r int) {
			if r%2 == 0 {
				_ = w.deletePeerRace(w.bots[3])
			} else {
				_ = w.addPeerRace(w.bots[3])
			}
		}},
	}
}

func (w *simWorld) deletePeerRace(b *simBot) error {
	return w.s.DeletePeer(context.Background(), &api.DeletePeerRequest{Address: b.addr().String()})
}

func (w *simWorld) addPeerRace(b *simBot) error {
	n := w.defaultNeighbor(b.spec)
	err := w.s.mgmtOperation(func() error { return w.s.addNeighbor(n) }, true)
	if err == nil {
		if p := w.peer(b); p != nil {
			w.everPeer = append(w.everPeer, p)
		}
	}
	return err
}

// TestVerif_C20_RaceBody runs one composition (env VERIF_RACE_OPS = comma separated op names) free-running.
func TestVerif_C20_RaceBody(t *testing.T) {
	spec := os.Getenv("VERIF_RACE_OPS")
	if spec == "" {
		t.Skip("body only")
	}
	byName := map[string]c20RaceOp{}
	for _, o := range c20RaceOps() {
		byName[o.name] = o
	}
	var ops []c20RaceOp
	for _, n := range strings.Split(spec, ",") {
		ops = append(ops, byName[n])
	}
	synctest.Test(t, func(t *testing.T) {
		w := &simWorld{t: t}
		sc := &simRoutesScenario{}
		w.start()
		for i := 0; i < 4; i++ {
			w.addBot(simBotKinds['e'](i))
		}
		w.advance(time.Second)
		for _, b := range w.bots {
			b.handshake()
		}
		var wg sync.WaitGroup
		for _, op := range ops {
			wg.Add(1)
			go func(op c20RaceOp) {
				defer wg.Done()
				for r := 0; r < 6; r++ {
					op.f(w, sc, r)
				}
			}(op)
		}
		wg.Wait()
		w.advance(time.Second)
		w.stop(true)
	})
}

var c20RaceFrame = regexp.MustCompile(`(?m)^  (github\.com/osrg/gobgp/v4/[^\s(]+)`)

func TestVerif_C20_Race(t *testing.T) {
	r := vr.Start(t, "C20", "race")
	defer r.Finish()
	r.Rule = "AUXILIARY free-running pass under the Go race detector: every pair (thorough: also triples) of operations from the catalogue {UPDATE/withdraw from two peers, ROUTE-REFRESH, AddPath/DeletePath, ListPath, ListPeer/GetTable, soft reset, policy replacement, Disable/EnablePeer, WatchEvent start/stop, AddVrf/DeleteVrf, DeletePeer/AddPeer} runs concurrently (6 rounds each) against the real daemon with GOMAXPROCS 2 and 16; a reported race is a violation keyed by the two access sites; non-trivial = a composition that ran to completion"
	r.Assumptions = append(r.Assumptions, "the race detector observes the schedules that happened: this part samples, it does not enumerate")
	r.Exhaustive = false
	if r.ReplayPath() != "" {
		var comp struct {
			Ops   string `json:"ops"`
			Procs string `json:"procs"`
		}
		if err := r.LoadReplay(&comp); err != nil {
			t.Fatal(err)
		}
		c20RunRace(t, r, comp.Ops, comp.Procs)
		return
	}
	ops := c20RaceOps()
	var comps []string
	for i := range ops {
		for j := i + 1; j < len(ops); j++ {
			comps = append(comps, ops[i].name+","+ops[j].name)
		}
	}
	if vr.Thorough() {
		for i := range ops {
			for j := i + 1; j < len(ops); j++ {
				for k := j + 1; k < len(ops); k++ {
					comps = append(comps, ops[i].name+","+ops[j].name+","+ops[k].name)
				}
			}
		}
	} else {
		// quick: every op at least in three pairs
		var sel []string
		for i, c := range comps {
			if i%4 == 0 {
				sel = append(sel, c)
			}
		}
		comps = sel
	}
	sem := make(chan struct{}, 8)
	var wg sync.WaitGroup
	var mu sync.Mutex
	for i, c := range comps {
		procs := "16"
		if i%2 == 1 {
			procs = "2"
		}
		wg.Add(1)
		sem <- struct{}{}
		go func(c, procs string) {
			defer wg.Done()
			defer func() { <-sem }()
			rr := r.Fork()
			c20RunRace(t, rr, c, procs)
			mu.Lock()
			r.Merge(rr)
			mu.Unlock()
		}(c, procs)
	}
	wg.Wait()
	r.Bounds["compositions"] = len(comps)
}

func c20RunRace(t *testing.T, r *vr.Report, ops, procs string) {
	cmd := exec.Command(os.Args[0], "-test.run=^TestVerif_C20_RaceBody$", "-test.timeout=5m")
	cmd.Env = append(os.Environ(), "VERIF_RACE_OPS="+ops, "GOMAXPROCS="+procs, "VERIF_OUT=", "GORACE=halt_on_error=0")
	out, err := cmd.CombinedOutput()
	r.Eval()
	s := string(out)
	replay := map[string]string{"ops": ops, "procs": procs}
	if strings.Contains(s, "WARNING: DATA RACE") {
		for _, blk := range strings.Split(s, "WARNING: DATA RACE")[1:] {
			if i := strings.Index(blk, "=================="); i > 0 {
				blk = blk[:i]
			}
			parts := strings.SplitN(blk, "Previous ", 2)
			site := func(x string) string {
				m := c20RaceFrame.FindStringSubmatch(x)
				if m == nil {
					return "?"
				}
				return strings.TrimPrefix(m[1], "github.com/osrg/gobgp/v4/")
			}
			a, b := site(parts[0]), "?"
			if len(parts) > 1 {
				b = site(parts[1])
			}
			ss := []string{a, b}
			sort.Strings(ss)
			r.Violationf("race:"+ss[0]+"|"+ss[1], replay, "data race while running {%s} concurrently (GOMAXPROCS=%s):\n%s", ops, procs, simTail(blk, 3500)[:min(len(blk), 3500)])
		}
		return
	}
	if err != nil {
		if strings.Contains(s, "panic:") || strings.Contains(s, "fatal error:") {
			r.Violationf("crash:"+simCrashSite(s), replay, "the daemon crashed while running {%s} concurrently (GOMAXPROCS=%s):\n%s", ops, procs, simTail(s, 3500))
			return
		}
		r.Violationf("race-body-failed:"+ops, replay, "composition {%s} failed: %v\n%s", ops, err, simTail(s, 2500))
		return
	}
	r.NT(ops + "@" + procs)
	r.Outcome("completed")
	if r.WantSample() {
		r.Sample(fmt.Sprintf("{%s} GOMAXPROCS=%s", ops, procs))
	}
}
