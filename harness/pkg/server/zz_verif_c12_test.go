package server

// C12 — graceful-restart and LLGR stale routes live exactly as long as the RFCs allow.
// Scenario "gr": a GR/LLGR peer g with three routes (v4, v4+NO_LLGR, v6), an LLGR-capable observer o1,
// a non-capable observer o2 and an alternative source alt for the v4 prefix; events = every kind of
// session loss, virtual-time waits landing on R-1 / R / R+1 and L-1 / L / L+1, re-establishment,
// partial re-announcement, End-of-RIB per family. Oracle = a reference timeline automaton (RFC 4724,
// RFC 8538, RFC 9494) giving for each route {fresh, stale, llgr, absent} in every state.

import (
	"context"
	"fmt"
	"net/netip"
	"sort"
	"strings"
	"testing"
	"time"

	api "github.com/osrg/gobgp/v4/api"
	"github.com/osrg/gobgp/v4/internal/verif/vr"
	"github.com/osrg/gobgp/v4/pkg/config/oc"
	"github.com/osrg/gobgp/v4/pkg/packet/bgp"
)

const (
	c12R = 10 // restart time announced by g (seconds)
	c12L = 30 // long-lived stale time announced by g for ipv4-unicast
)

type c12Route struct {
	name   string
	prefix string
	fam    bgp.Family
	noLLGR bool
}

var c12Routes = []c12Route{
	{"P4", "10.20.1.0/24", bgp.RF_IPv4_UC, false},
	{"P4n", "10.20.2.0/24", bgp.RF_IPv4_UC, true},
	{"P6", "2001:db8:20::/48", bgp.RF_IPv6_UC, false},
}

type c12Scenario struct {
	// configuration
	grFams []bgp.Family // families g lists in its GR capability
	gr     bool
	nbit   bool
	llgr   bool
	sharp  bool
	// model
	up         bool
	deleted    bool
	admDown    bool
	status     map[string]string // fresh stale llgr absent
	restart    time.Duration
	llgrLeft   time.Duration
	eor        map[bgp.Family]bool
	restarting bool // the peer is in its restart window / resynchronising
	arg        string
	tag        string // circumstance that is part of a violation's signature
}

func init() {
	simScenarios["gr"] = func(arg string) simScenario {
		sc := &c12Scenario{arg: arg}
		if strings.HasSuffix(arg, ";sharp") {
			// sharp driver: {transport close, re-establish, re-announce v4, End-of-RIB v4, wait exactly to the
			// next restart / long-lived deadline} - deep histories (several restart cycles) over a tiny alphabet
			sc.sharp = true
			arg = strings.TrimSuffix(arg, ";sharp")
		}
		switch arg {
		case "none":
		case "v4":
			sc.gr, sc.grFams = true, []bgp.Family{bgp.RF_IPv4_UC}
		case "v4v6":
			sc.gr, sc.grFams = true, []bgp.Family{bgp.RF_IPv4_UC, bgp.RF_IPv6_UC}
		case "v4v6n":
			sc.gr, sc.nbit, sc.grFams = true, true, []bgp.Family{bgp.RF_IPv4_UC, bgp.RF_IPv6_UC}
		case "llgr":
			sc.gr, sc.llgr, sc.grFams = true, true, []bgp.Family{bgp.RF_IPv4_UC}
		case "llgrn":
			sc.gr, sc.llgr, sc.nbit, sc.grFams = true, true, true, []bgp.Family{bgp.RF_IPv4_UC, bgp.RF_IPv6_UC}
		default:
			panic("gr: unknown arg " + arg)
		}
		return sc
	}
}

func (sc *c12Scenario) ForceDrain() bool { return true }

func (sc *c12Scenario) grNeighbor(llgr bool) func(n *oc.Neighbor) {
	return func(n *oc.Neighbor) {
		n.GracefulRestart.Config.Enabled = true
		n.GracefulRestart.Config.RestartTime = 20
		n.GracefulRestart.Config.NotificationEnabled = true
		n.GracefulRestart.Config.LongLivedEnabled = llgr
		for i := range n.AfiSafis {
			n.AfiSafis[i].MpGracefulRestart.Config.Enabled = true
			if llgr && n.AfiSafis[i].Config.AfiSafiName == oc.AfiSafiType(bgp.RF_IPv4_UC.String()) {
				n.AfiSafis[i].LongLivedGracefulRestart.Config.Enabled = true
				n.AfiSafis[i].LongLivedGracefulRestart.Config.RestartTime = 40
			}
		}
	}
}

func (sc *c12Scenario) Setup(w *simWorld) {
	w.start()
	both := []bgp.Family{bgp.RF_IPv4_UC, bgp.RF_IPv6_UC}
	g := simBotSpec{Name: "g", IP: [4]byte{10, 0, 0, 1}, AS: 65001, RouterID: [4]byte{1, 1, 1, 1}, Families: both, HoldTime: 9,
		Neighbor: func(n *oc.Neighbor) {
			sc.grNeighbor(true)(n)
			n.Timers.Config.HoldTime = 9
			n.Timers.Config.KeepaliveInterval = 3
		}}
	if sc.gr {
		g.GRFamilies, g.GRTime, g.GRNotif = sc.grFams, c12R, sc.nbit
	}
	if sc.llgr {
		g.LLGRFamilies, g.LLGRTime = []bgp.Family{bgp.RF_IPv4_UC}, c12L
	}
	w.addBot(g)
	// o1: LLGR-capable observer; o2: plain observer; alt: alternative source of P4
	w.addBot(simBotSpec{Name: "o1", IP: [4]byte{10, 0, 0, 2}, AS: 65002, RouterID: [4]byte{1, 1, 1, 2}, Families: both,
		GRFamilies: both, GRTime: 10, LLGRFamilies: []bgp.Family{bgp.RF_IPv4_UC}, LLGRTime: 30, Neighbor: sc.grNeighbor(true)})
	w.addBot(simBotSpec{Name: "o2", IP: [4]byte{10, 0, 0, 3}, AS: 65003, RouterID: [4]byte{1, 1, 1, 3}, Families: both})
	w.addBot(simBotSpec{Name: "alt", IP: [4]byte{10, 0, 0, 4}, AS: 65004, RouterID: [4]byte{1, 1, 1, 4}, Families: both})
	w.advance(time.Second)
	for _, b := range w.bots {
		if !b.handshake() {
			panic("gr setup: " + b.spec.Name + " did not establish")
		}
	}
	sc.status = map[string]string{}
	sc.eor = map[bgp.Family]bool{}
	sc.up = true
	// alt announces P4 with a longer path
	w.bots[3].sendMsg(sc.update(w.bots[3], c12Routes[0], []uint32{65004, 65009, 65010}))
	for _, r := range c12Routes {
		sc.announce(w, r)
	}
	sc.announceRefused(w)
	// initial End-of-RIB from every bot so that nobody is "still synchronising"
	for _, b := range w.bots {
		sc.sendEOR(b, bgp.RF_IPv4_UC)
		sc.sendEOR(b, bgp.RF_IPv6_UC)
	}
	sc.tick(w, time.Second)
	sc.fold(w)
}

func (sc *c12Scenario) update(b *simBot, r c12Route, aspath []uint32) *bgp.BGPMessage {
	nlri, _ := bgp.NewIPAddrPrefix(netip.MustParsePrefix(r.prefix))
	attrs := []bgp.PathAttributeInterface{bgp.NewPathAttributeOrigin(0),
		bgp.NewPathAttributeAsPath([]bgp.AsPathParamInterface{bgp.NewAs4PathParam(bgp.BGP_ASPATH_ATTR_TYPE_SEQ, aspath)})}
	if r.noLLGR {
		attrs = append(attrs, bgp.NewPathAttributeCommunities([]uint32{uint32(bgp.COMMUNITY_NO_LLGR)}))
	}
	if r.fam == bgp.RF_IPv4_UC {
		nh, _ := bgp.NewPathAttributeNextHop(b.addr())
		attrs = append(attrs, nh)
		return bgp.NewBGPUpdateMessage(nil, attrs, []bgp.PathNLRI{{NLRI: nlri}})
	}
	re, _ := bgp.NewPathAttributeMpReachNLRI(r.fam, []bgp.PathNLRI{{NLRI: nlri}}, netip.MustParseAddr("2001:db8::1"))
	attrs = append(attrs, re)
	return bgp.NewBGPUpdateMessage(nil, attrs, nil)
}

func (sc *c12Scenario) sendEOR(b *simBot, f bgp.Family) {
	if f == bgp.RF_IPv4_UC {
		b.sendMsg(bgp.NewBGPUpdateMessage(nil, nil, nil))
		return
	}
	un, _ := bgp.NewPathAttributeMpUnreachNLRI(f, nil)
	b.sendMsg(bgp.NewBGPUpdateMessage(nil, []bgp.PathAttributeInterface{un}, nil))
}

// c12Refused is announced by g with the daemon's own AS in its AS_PATH: the input loop check refuses it, it is kept
// in the Adj-RIB-In marked as rejected and must never be used - not after it was marked stale by a restart, not when
// the stale routes are swept, not after a soft reset (and the accepted counter must keep counting usable routes only).
var c12Refused = c12Route{"PX", "10.20.9.0/24", bgp.RF_IPv4_UC, false}

func (sc *c12Scenario) announceRefused(w *simWorld) {
	w.bots[0].sendMsg(sc.update(w.bots[0], c12Refused, []uint32{65001, 65000}))
}

func (sc *c12Scenario) announce(w *simWorld, r c12Route) {
	w.bots[0].sendMsg(sc.update(w.bots[0], r, []uint32{65001}))
	sc.status[r.name] = "fresh"
}

// tick advances virtual time in one-second steps; every bot with a running hold timer (only g)
// sends a KEEPALIVE each second unless silent.
func (sc *c12Scenario) tick(w *simWorld, d time.Duration) {
	for ; d > 0; d -= time.Second {
		g := w.bots[0]
		if g.connected() {
			g.sendMsg(bgp.NewBGPKeepAliveMessage())
		}
		w.advance(time.Second)
	}
}

func (sc *c12Scenario) fold(w *simWorld) {
	for _, b := range w.bots {
		for _, rx := range b.takeGroup() {
			simFold(b.view, rx.Msg)
		}
	}
}

func (sc *c12Scenario) inGR(f bgp.Family) bool {
	for _, x := range sc.grFams {
		if x == f {
			return true
		}
	}
	return false
}

func (sc *c12Scenario) Enabled(w *simWorld) []simEvent {
	if sc.deleted || len(w.viol) > 0 {
		// after a divergence the reference and the daemon are out of step: do not explore further
		return nil
	}
	var ev []simEvent
	add := func(op string) { ev = append(ev, simEvent{Op: op}) }
	if sc.sharp {
		if sc.up {
			add("close")
			add("reann4")
			add("eor4")
		} else {
			add("up")
		}
		if sc.nextDeadline() > 0 {
			add("wnext")
		}
		return ev
	}
	if sc.up {
		for _, op := range []string{"close", "holdexp", "notif", "hardreset", "srvnotif", "reset", "reann4", "reann6", "eor4", "eor6"} {
			add(op)
		}
	} else if !sc.admDown {
		add("up")
		add("failconn")
	}
	if sc.admDown {
		add("enable")
	} else {
		add("disable")
	}
	add("delete")
	add("w1")
	add("w9")
	if sc.llgr {
		add("w29")
	}
	return ev
}

// lose applies the reference rules for a session loss.
func (sc *c12Scenario) lose(qualifying bool) {
	if sc.llgrLeft > 0 && qualifying {
		// a long-lived stale timer started by the previous restart is still running
		sc.tag = "[second-loss-while-llgr-timer-runs]"
	}
	sc.up = false
	sc.eor = map[bgp.Family]bool{}
	for _, r := range c12Routes {
		st := sc.status[r.name]
		if st == "absent" {
			continue
		}
		switch {
		case !qualifying:
			sc.status[r.name] = "absent"
		case !sc.inGR(r.fam):
			sc.status[r.name] = "absent"
		case st == "fresh":
			sc.status[r.name] = "stale"
		default:
			// consecutive restart: a route already marked stale MUST be deleted (RFC 4724 4.2)
			sc.status[r.name] = "absent"
		}
	}
	sc.restart, sc.llgrLeft, sc.restarting = 0, 0, false
	if qualifying {
		sc.restart = c12R * time.Second
		sc.restarting = true
	}
}

// nextDeadline: time to the next deadline of the reference timeline (restart timer while the session is
// down, long-lived stale timer), 0 if none runs.
func (sc *c12Scenario) nextDeadline() time.Duration {
	var d time.Duration
	if sc.restart > 0 && !sc.up {
		d = sc.restart
	}
	if sc.llgrLeft > 0 && (d == 0 || sc.llgrLeft < d) {
		d = sc.llgrLeft
	}
	return d
}

func (sc *c12Scenario) dropAll() {
	for _, r := range c12Routes {
		sc.status[r.name] = "absent"
	}
	sc.restart, sc.llgrLeft, sc.restarting = 0, 0, false
}

func (sc *c12Scenario) elapse(d time.Duration) {
	for d > 0 {
		step := d
		for _, x := range []time.Duration{sc.restart, sc.llgrLeft} {
			if x > 0 && x < step {
				step = x
			}
		}
		d -= step
		if sc.restart > 0 && !sc.up {
			sc.restart -= step
			if sc.restart == 0 {
				anyLL := false
				for _, r := range c12Routes {
					if sc.status[r.name] != "stale" {
						continue
					}
					if sc.llgr && r.fam == bgp.RF_IPv4_UC && !r.noLLGR {
						sc.status[r.name] = "llgr"
						anyLL = true
					} else {
						sc.status[r.name] = "absent"
					}
				}
				if sc.llgr {
					// the long-lived stale timer runs for the family whether or not a route is left
					sc.llgrLeft = c12L * time.Second
					_ = anyLL
				} else {
					sc.restarting = false
				}
			}
			continue
		}
		// the long-lived stale timer keeps running after re-establishment until End-of-RIB has
		// arrived for every GR family (then it is cancelled) — routes re-announced meanwhile are fresh
		if sc.llgrLeft > 0 {
			sc.llgrLeft -= step
			if sc.llgrLeft == 0 {
				for _, r := range c12Routes {
					if sc.status[r.name] == "llgr" {
						sc.status[r.name] = "absent"
					}
				}
				sc.restarting = false
			}
		}
	}
}

func (sc *c12Scenario) Apply(w *simWorld, e simEvent) {
	g := w.bots[0]
	switch e.Op {
	case "close":
		g.disconnect()
		sc.lose(sc.gr)
	case "holdexp":
		// g stays silent until the negotiated hold time (9 s after its last message) expires: the
		// daemon sends 4/0 and drops the session; the restart window starts at that instant
		for i := 0; i < 12 && g.connected(); i++ {
			w.advance(time.Second)
		}
		if g.connected() {
			w.violate("C12:hold-timer-did-not-expire", "silent for 12 s with hold time 9 s and the session is still up")
		}
		sc.lose(sc.gr)
	case "notif":
		g.sendMsg(bgp.NewBGPNotificationMessage(bgp.BGP_ERROR_CEASE, bgp.BGP_ERROR_SUB_OTHER_CONFIGURATION_CHANGE, nil))
		sc.lose(sc.gr && sc.nbit)
	case "hardreset":
		g.sendMsg(bgp.NewBGPNotificationMessage(bgp.BGP_ERROR_CEASE, bgp.BGP_ERROR_SUB_HARD_RESET, nil))
		sc.lose(false)
	case "srvnotif":
		g.send(simHdr(0x00, 19, bgp.BGP_MSG_KEEPALIVE, nil)) // bad marker: the daemon answers 1/1
		sc.lose(sc.gr && sc.nbit)
	case "reset":
		w.must(w.s.ResetPeer(context.Background(), &api.ResetPeerRequest{Address: g.addr().String()}))
		// the daemon sends Cease / Administrative Reset, which it does not turn into a Hard Reset: with the N
		// bit negotiated a NOTIFICATION other than Hard Reset - sent or received - is followed by the
		// graceful restart procedures (RFC 8538 4), which is also what the peer does on receiving it
		sc.lose(sc.gr && sc.nbit)
	case "disable":
		w.must(w.s.DisablePeer(context.Background(), &api.DisablePeerRequest{Address: g.addr().String()}))
		sc.admDown = true
		if sc.up {
			// administrative shutdown of a live session: everything goes at once
			sc.up = false
			sc.dropAll()
		}
		// disabling a peer whose session is already lost changes nothing for the retained
		// routes: they live until the restart / long-lived timer expires
	case "enable":
		w.must(w.s.EnablePeer(context.Background(), &api.EnablePeerRequest{Address: g.addr().String()}))
		sc.admDown = false
	case "delete":
		w.must(w.s.DeletePeer(context.Background(), &api.DeletePeerRequest{Address: g.addr().String()}))
		sc.deleted, sc.up = true, false
		sc.dropAll()
	case "up":
		// leave the idle-hold period (5 s, or 30 s after an administrative reset), then handshake;
		// the time spent waiting counts against the restart / long-lived timers
		p := w.peer(g)
		for i := 0; i < 40 && p != nil && p.State() == bgp.BGP_FSM_IDLE; i++ {
			w.advance(time.Second)
			sc.elapse(time.Second)
		}
		g.spec.GRRestarting = sc.gr
		if g.handshake() {
			sc.up = true
			sc.restart = 0
			if !sc.restarting {
				// nothing retained: a plain new session
			}
		} else {
			w.stat("up-did-not-establish")
		}
	case "failconn":
		// a reconnection attempt that fails (transport opens, then closes before the OPEN
		// exchange completes): retained routes must be unaffected
		p := w.peer(g)
		for i := 0; i < 40 && p != nil && p.State() == bgp.BGP_FSM_IDLE; i++ {
			w.advance(time.Second)
			sc.elapse(time.Second)
		}
		g.connect()
		w.settle()
		g.disconnect()
	case "reann4":
		sc.announce(w, c12Routes[0])
		sc.announceRefused(w)
	case "reann6":
		sc.announce(w, c12Routes[2])
	case "eor4", "eor6":
		f := bgp.RF_IPv4_UC
		if e.Op == "eor6" {
			f = bgp.RF_IPv6_UC
		}
		sc.sendEOR(g, f)
		sc.eor[f] = true
		if sc.restarting {
			all := true
			for _, x := range sc.grFams {
				if !sc.eor[x] {
					all = false
				}
			}
			if all {
				for _, r := range c12Routes {
					if st := sc.status[r.name]; st == "stale" || st == "llgr" {
						sc.status[r.name] = "absent"
					}
				}
				sc.restarting = false
				sc.llgrLeft = 0
			}
		}
	case "wnext":
		d := sc.nextDeadline()
		sc.tick(w, d)
		sc.elapse(d)
	case "w1", "w9", "w29":
		d := map[string]time.Duration{"w1": time.Second, "w9": 9 * time.Second, "w29": 29 * time.Second}[e.Op]
		sc.tick(w, d)
		sc.elapse(d)
	default:
		panic("gr: unknown event " + e.Op)
	}
	w.settle()
	sc.fold(w)
}

func c12HasCommunity(attrs string, c uint32) bool {
	// attribute 008 COMMUNITIES: flags,type,len,values...
	for _, part := range strings.Split(attrs, ",") {
		if !strings.HasPrefix(part, "008:") {
			continue
		}
		return strings.Contains(part[4+6:], fmt.Sprintf("%08x", c))
	}
	return false
}

func (sc *c12Scenario) Check(w *simWorld, last *simEvent) {
	g := w.bots[0]
	ev := "init"
	if last != nil {
		ev = last.Op
	}
	w.stat("ev-" + ev)
	// 1. Loc-RIB: g's routes
	have := map[string]simRibRoute{}
	for _, r := range w.ribDump(w.s.globalRib) {
		if r.Src == g.addr().String() {
			have[r.Prefix] = r
		}
	}
	var st []string
	for _, r := range c12Routes {
		want := sc.status[r.name]
		st = append(st, r.name+"="+want)
		w.stat("status-" + want)
		got, ok := have[r.prefix]
		desc := "absent"
		if ok {
			desc = "fresh"
			if got.Stale {
				desc = "stale"
			}
			if c12HasCommunity(got.Attrs, uint32(bgp.COMMUNITY_LLGR_STALE)) {
				desc = "llgr"
			}
		}
		if desc != want {
			w.violate(fmt.Sprintf("C12:%sloc-rib:%s:%s:want=%s:got=%s", sc.tag, sc.arg, ev, want, desc),
				"after %s (%s): route %s of the restarting peer should be %s per the RFC 4724/8538/9494 timeline, the Loc-RIB has it %s (model %v, restart left %v, llgr left %v)", ev, sc.arg, r.name, want, desc, sc.status, sc.restart, sc.llgrLeft)
		}
	}
	sort.Strings(st)
	// 1b. the refused route and the Adj-RIB-In accounting
	if _, ok := have[c12Refused.prefix]; ok {
		w.violate(fmt.Sprintf("C12:%srefused-route-in-loc-rib:%s:%s", sc.tag, sc.arg, ev), "after %s (%s): the route g announced with the local AS in its AS_PATH is in the Loc-RIB", ev, sc.arg)
	}
	if p := w.peer(g); p != nil {
		fams := p.configuredRFlist()
		usable := 0
		for _, path := range p.adjRibIn.PathList(fams, false) {
			if !path.IsRejected() {
				usable++
				if path.GetNlri().String() == c12Refused.prefix {
					w.violate(fmt.Sprintf("C12:%srefused-route-usable-in-adj-rib-in:%s:%s", sc.tag, sc.arg, ev), "after %s (%s): the Adj-RIB-In copy of the route refused by the AS loop check is no longer marked rejected (stale=%v)", ev, sc.arg, path.IsStale())
				}
			}
		}
		if acc := p.adjRibIn.Accepted(fams); acc != usable {
			w.violate(fmt.Sprintf("C12:%sadj-rib-in-accepted-count:%s:%s", sc.tag, sc.arg, ev), "after %s (%s): the Adj-RIB-In of g counts %d accepted routes, it holds %d that are not rejected", ev, sc.arg, acc, usable)
		}
		if usable > 0 || len(have) > 0 {
			w.stat("refused-route-checked-with-routes-present")
		}
	}
	for _, oi := range []int{1, 2} {
		k := simRouteKey(c12Refused.fam, mustNLRI(c12Refused.prefix), 0)
		if v, ok := w.bots[oi].view[k]; ok {
			w.violate(fmt.Sprintf("C12:%srefused-route-advertised:%s:%s", sc.tag, sc.arg, ev), "after %s (%s): observer %s was sent the route refused by the AS loop check: %q", ev, sc.arg, w.bots[oi].spec.Name, v)
		}
	}
	// 2. observers
	for _, oi := range []int{1, 2} {
		o := w.bots[oi]
		llgrCapable := oi == 1
		for _, r := range c12Routes {
			k := simRouteKey(r.fam, mustNLRI(r.prefix), 0)
			v, ok := o.view[k]
			viaG := ok && strings.Contains(v, "0000fde80000fde9") && !strings.Contains(v, "0000fdec") // AS_PATH 65000 65001
			viaAlt := ok && strings.Contains(v, "0000fdec")
			want := sc.status[r.name]
			wantG := want == "fresh" || want == "stale" || (want == "llgr" && llgrCapable && r.name != "P4")
			// P4 has a fresh alternative: an LLGR-stale route is least preferred, so alt wins
			wantAlt := r.name == "P4" && (want == "absent" || want == "llgr")
			if r.name == "P4" && want == "llgr" {
				wantG = false
			}
			switch {
			case wantG && !viaG:
				w.violate(fmt.Sprintf("C12:%sobserver:%s:%s:%s-missing-at-%s", sc.tag, sc.arg, ev, want, o.spec.Name),
					"after %s (%s): observer %s should hold %s via the restarting peer (status %s) but holds %q", ev, sc.arg, o.spec.Name, r.name, want, v)
			case !wantG && viaG:
				w.violate(fmt.Sprintf("C12:%sobserver:%s:%s:%s-still-at-%s", sc.tag, sc.arg, ev, want, o.spec.Name),
					"after %s (%s): observer %s (llgr-capable=%v) still holds %s via the restarting peer although its status is %s", ev, sc.arg, o.spec.Name, llgrCapable, r.name, want)
			case wantAlt && !viaAlt:
				w.violate(fmt.Sprintf("C12:%sobserver:%s:%s:alt-not-preferred-at-%s", sc.tag, sc.arg, ev, o.spec.Name),
					"after %s (%s): observer %s should hold P4 via the alternative source (status of the restarting peer's route: %s) but holds %q", ev, sc.arg, o.spec.Name, want, v)
			}
			if viaG && want == "llgr" && !c12HasCommunity(v, uint32(bgp.COMMUNITY_LLGR_STALE)) {
				w.violate("C12:"+sc.tag+"observer:llgr-route-without-LLGR_STALE", "observer %s holds LLGR-stale route %s without the LLGR_STALE community", o.spec.Name, r.name)
			}
		}
	}
}

func mustNLRI(p string) bgp.NLRI {
	n, err := bgp.NewIPAddrPrefix(netip.MustParsePrefix(p))
	if err != nil {
		panic(err)
	}
	return n
}

func (sc *c12Scenario) Key(w *simWorld) string {
	var st []string
	for _, r := range c12Routes {
		st = append(st, r.name+"="+sc.status[r.name])
	}
	p := w.peer(w.bots[0])
	run := ""
	if p != nil {
		c := p.fsm.pConf.ReadOnly()
		for _, a := range c.AfiSafis {
			run += fmt.Sprintf("%v/%v/%v;", a.MpGracefulRestart.State.Running, a.MpGracefulRestart.State.EndOfRibReceived, a.LongLivedGracefulRestart.State.Running)
		}
		run += fmt.Sprintf("llr=%v", p.longLivedRunning.Load())
	}
	return fmt.Sprintf("tag=%s up=%v del=%v adm=%v %v restart=%v llgr=%v eor=%v restarting=%v run=%s|%s", sc.tag, sc.up, sc.deleted, sc.admDown, st, sc.restart, sc.llgrLeft, sc.eor, sc.restarting, run, w.stateKey())
}

func TestVerif_C12_Sim(t *testing.T) {
	r := vr.Start(t, "C12", "sim")
	defer r.Finish()
	r.Rule = "explicit-state BFS over event histories {transport close, hold expiry, NOTIFICATION received, Hard Reset received, NOTIFICATION sent, admin reset, disable, enable, delete, re-establish, re-announce v4/v6, End-of-RIB v4/v6, wait 1/9/29 s} for each GR/LLGR capability combination, on the real daemon in virtual time, in lock-step with a reference stale-route timeline automaton; non-trivial = distinct (timeline state, daemon state)"
	r.Assumptions = append(r.Assumptions, "restart time 10 s, long-lived stale time 30 s, hold 9 s", "restarting-speaker (local restart) mode is a separate scenario")
	if r.ReplayPath() != "" {
		var rp simReplay
		if err := r.LoadReplay(&rp); err != nil {
			t.Fatal(err)
		}
		simReplayOne(t, r, rp)
		return
	}
	depth, budget := 5, 60*time.Second
	args := []string{"none", "v4", "v4v6n", "llgr"}
	if vr.Thorough() {
		depth, budget = 6, 10*time.Minute
		args = []string{"none", "v4", "v4v6", "v4v6n", "llgr", "llgrn"}
	}
	for _, a := range args {
		simExplore(t, r, simExploreCfg{Scenario: "gr", Arg: a, Depth: depth, Budget: budget})
	}
	deep := 8
	if vr.Thorough() {
		deep = 11
	}
	simExplore(t, r, simExploreCfg{Scenario: "gr", Arg: "llgr;sharp", Depth: deep, Budget: budget})
	simExplore(t, r, simExploreCfg{Scenario: "gr", Arg: "v4;sharp", Depth: deep, Budget: budget})
	if r.Outcomes["status-stale"] == 0 || r.Outcomes["status-llgr"] == 0 {
		t.Fatalf("ENGINE-ERROR vacuous exploration: stale=%d llgr=%d", r.Outcomes["status-stale"], r.Outcomes["status-llgr"])
	}
	simConfirm(t, r, 5)
}
