package server

// C18 — API and native representations convert losslessly (part "server").
//
// A real BgpServer (NewBgpServer, Serve, StartBgp with ListenPort -1) inside a testing/synctest bubble,
// no network. Everything goes through the functions the gRPC handlers call:
//
//   peers        AddPeer (newNeighborFromAPIStruct + addNeighbor) -> ListPeer (toConfig + oc.NewPeerFromConfigStruct)
//   defined sets AddDefinedSet (newDefinedSetFromApiStruct) -> ListDefinedSet
//   statements   AddStatement (newStatementFromApiStruct) -> ListStatement (toStatementApi)
//   policies     AddPolicy (newPolicyFromApiStruct) -> ListPolicy (table.ToPolicyApi); both listings must agree
//   assignments  AddPolicyAssignment -> ListPolicyAssignment
//   paths        (*server).AddPath (api2apiutilPath, apiutil2Path) -> (*server).listPath (toPathApiUtil, toPathApi)
//
// Oracle = round trip: every field that was set must be listed back with the value that was set
// (peers: subset relation, the daemon adds defaults and state; policy objects: equality modulo
// "absent sub-message == empty sub-message"; paths: same prefix, path identifier and, per attribute
// type, byte-identical serialisation; the next hop is compared as a value because the daemon moves it
// between NEXT_HOP and MP_REACH_NLRI by design).

import (
	"context"
	"encoding/hex"
	"fmt"
	"net/netip"
	"os"
	"reflect"
	"regexp"
	"runtime"
	"sort"
	"strconv"
	"strings"
	"testing"
	"testing/synctest"
	"time"

	"google.golang.org/protobuf/proto"
	"google.golang.org/protobuf/reflect/protoreflect"

	api "github.com/osrg/gobgp/v4/api"
	"github.com/osrg/gobgp/v4/internal/verif/bgpgen"
	"github.com/osrg/gobgp/v4/internal/verif/vr"
	"github.com/osrg/gobgp/v4/pkg/apiutil"
	"github.com/osrg/gobgp/v4/pkg/config/oc"
	"github.com/osrg/gobgp/v4/pkg/packet/bgp"
)

type c18sCase struct {
	Section string `json:"section"` // peer | defined-set | statement | assignment | path
	Name    string `json:"name"`
}

// ---------------------------------------------------------------------------------------------
// helpers (protobuf reflection; same conventions as the codec part)

func c18sPanic(v any) string {
	pc := make([]uintptr, 64)
	n := runtime.Callers(3, pc)
	fr := runtime.CallersFrames(pc[:n])
	site := "?"
	for {
		f, more := fr.Next()
		if strings.Contains(f.Function, "github.com/osrg/gobgp/v4/") && !strings.Contains(f.File, "zz_verif_") &&
			!strings.Contains(f.Function, "/internal/verif/") {
			site = f.File[strings.LastIndex(f.File, "/")+1:] + ":" + f.Function[strings.LastIndex(f.Function, "/")+1:]
			break
		}
		if !more {
			break
		}
	}
	msg := fmt.Sprint(v)
	if len(msg) > 120 {
		msg = msg[:120]
	}
	return site + ": " + msg
}

func c18sTry(f func()) (p string) {
	defer func() {
		if r := recover(); r != nil {
			p = c18sPanic(r)
		}
	}()
	f()
	return ""
}

func c18sSite(p string) string {
	if i := strings.Index(p, ": "); i >= 0 {
		return p[:i]
	}
	return p
}

var c18sDigits = regexp.MustCompile(`[0-9a-fA-F:.]*[0-9][0-9a-fA-F:./]*`)

func c18sErrClass(err error) string {
	s := c18sDigits.ReplaceAllString(err.Error(), "N")
	if len(s) > 60 {
		s = s[:60]
	}
	return s
}

func c18sLeaf(parent protoreflect.Message, fd protoreflect.FieldDescriptor) string {
	return string(parent.Descriptor().Name()) + "." + string(fd.Name())
}

// c18sNorm: clear every singular non-oneof message field whose message is empty (absent == empty).
func c18sNorm(m protoreflect.Message) {
	fds := m.Descriptor().Fields()
	for i := 0; i < fds.Len(); i++ {
		fd := fds.Get(i)
		if !m.Has(fd) {
			continue
		}
		v := m.Get(fd)
		switch {
		case fd.IsList():
			if fd.Kind() == protoreflect.MessageKind {
				for j := 0; j < v.List().Len(); j++ {
					c18sNorm(v.List().Get(j).Message())
				}
			}
		case fd.IsMap():
		case fd.Kind() == protoreflect.MessageKind:
			c18sNorm(v.Message())
			if fd.ContainingOneof() == nil && proto.Size(v.Message().Interface()) == 0 {
				m.Clear(fd)
			}
		}
	}
}

func c18sFirstDiff(a, b protoreflect.Message) (leaf, detail string) {
	fds := a.Descriptor().Fields()
	for i := 0; i < fds.Len(); i++ {
		fd := fds.Get(i)
		lf := c18sLeaf(a, fd)
		if a.Has(fd) != b.Has(fd) {
			return lf, fmt.Sprintf("%v -> %v", a.Get(fd), b.Get(fd))
		}
		if !a.Has(fd) {
			continue
		}
		va, vb := a.Get(fd), b.Get(fd)
		switch {
		case fd.IsList():
			if va.List().Len() != vb.List().Len() {
				return lf + "(len)", fmt.Sprintf("%d -> %d elements", va.List().Len(), vb.List().Len())
			}
			for j := 0; j < va.List().Len(); j++ {
				if fd.Kind() == protoreflect.MessageKind {
					if l, d := c18sFirstDiff(va.List().Get(j).Message(), vb.List().Get(j).Message()); l != "" {
						return l, d
					}
				} else if !va.List().Get(j).Equal(vb.List().Get(j)) {
					return lf, fmt.Sprintf("%v -> %v", va.List().Get(j), vb.List().Get(j))
				}
			}
		case fd.IsMap():
			if !va.Equal(vb) {
				return lf, "map"
			}
		case fd.Kind() == protoreflect.MessageKind:
			if l, d := c18sFirstDiff(va.Message(), vb.Message()); l != "" {
				return l, d
			}
		default:
			if !va.Equal(vb) {
				return lf, fmt.Sprintf("%v -> %v", va, vb)
			}
		}
	}
	return "", ""
}

// c18sDiff: "" when a and b are equal modulo absent==empty sub-messages, else the first differing leaf.
func c18sDiff(a, b proto.Message) (leaf, detail string) {
	if proto.Equal(a, b) {
		return "", ""
	}
	ac, bc := proto.Clone(a), proto.Clone(b)
	c18sNorm(ac.ProtoReflect())
	c18sNorm(bc.ProtoReflect())
	if proto.Equal(ac, bc) {
		return "", ""
	}
	return c18sFirstDiff(ac.ProtoReflect(), bc.ProtoReflect())
}

type c18sLoss struct {
	Leaf, Path, Sent, Got string
	Zero                  bool // came back as the zero value / absent
}

// c18sSubset: every populated scalar leaf of sent must have the same value in got (lists of messages are
// matched by index after the caller aligned them).
func c18sSubset(sent, got protoreflect.Message, path string, skip func(leaf string) bool, out *[]c18sLoss) {
	fds := sent.Descriptor().Fields()
	for i := 0; i < fds.Len(); i++ {
		fd := fds.Get(i)
		if !sent.Has(fd) {
			continue
		}
		lf := c18sLeaf(sent, fd)
		if skip != nil && skip(lf) {
			continue
		}
		p := path + "." + string(fd.Name())
		vs := sent.Get(fd)
		switch {
		case fd.IsList():
			var gl protoreflect.List
			if got.IsValid() && got.Has(fd) {
				gl = got.Get(fd).List()
			}
			for j := 0; j < vs.List().Len(); j++ {
				if fd.Kind() == protoreflect.MessageKind {
					var gm protoreflect.Message
					if gl != nil && j < gl.Len() {
						gm = gl.Get(j).Message()
					} else {
						gm = vs.List().Get(j).Message().Type().Zero()
					}
					c18sSubset(vs.List().Get(j).Message(), gm, fmt.Sprintf("%s[%d]", p, j), skip, out)
				} else if gl == nil || j >= gl.Len() || !gl.Get(j).Equal(vs.List().Get(j)) {
					g := "<absent>"
					if gl != nil && j < gl.Len() {
						g = gl.Get(j).String()
					}
					*out = append(*out, c18sLoss{lf, p, vs.List().Get(j).String(), g, gl == nil || j >= gl.Len()})
				}
			}
		case fd.IsMap():
		case fd.Kind() == protoreflect.MessageKind:
			var gm protoreflect.Message
			if got.IsValid() && got.Has(fd) {
				gm = got.Get(fd).Message()
			} else {
				gm = vs.Message().Type().Zero()
			}
			c18sSubset(vs.Message(), gm, p, skip, out)
		default:
			var vg protoreflect.Value
			if got.IsValid() {
				vg = got.Get(fd)
			} else {
				vg = fd.Default()
			}
			if !vs.Equal(vg) {
				*out = append(*out, c18sLoss{lf, p, vs.String(), vg.String(), vg.Equal(fd.Default())})
			}
		}
	}
}

// ---------------------------------------------------------------------------------------------
// the world

type c18sWorld struct {
	r   *vr.Report
	w   *simWorld
	g   *server // the gRPC facade over the same BgpServer
	ctx context.Context
}

func (x *c18sWorld) viol(key string, cs c18sCase, format string, a ...any) {
	if d := os.Getenv("C18_DEBUG"); d != "" { // triage aid: one key per case
		if ok, _ := regexp.MatchString(d, key); ok {
			key += "|" + cs.Name
		}
	}
	x.r.Violationf(key, cs, format, a...)
}

// c18sRun executes body inside a fresh bubble with a started daemon; a panic of the calling goroutine is
// returned as a string.
func c18sRun(t *testing.T, r *vr.Report, global func(*api.Global), body func(x *c18sWorld)) (pn string) {
	synctest.Test(t, func(t *testing.T) {
		w := &simWorld{t: t, global: global}
		defer func() {
			if rec := recover(); rec != nil {
				pn = c18sPanic(rec)
			}
			func() {
				defer func() { recover() }()
				if w.s != nil {
					w.stop(true)
				}
			}()
		}()
		w.start()
		x := &c18sWorld{r: r, w: w, g: &server{bgpServer: w.s}, ctx: context.Background()}
		body(x)
	})
	return
}

// ---------------------------------------------------------------------------------------------
// (a) peers

const c18sLocalAS = 65000

func c18sFamily(f bgp.Family) *api.Family {
	return &api.Family{Afi: api.Family_Afi(f.Afi()), Safi: api.Family_Safi(f.Safi())}
}

func c18sBasePeer() *api.Peer {
	return &api.Peer{
		Conf:      &api.PeerConf{NeighborAddress: "10.0.0.1", PeerAsn: 65001},
		Transport: &api.Transport{PassiveMode: true},
	}
}

type c18sPeerCase struct {
	Name string
	Peer *api.Peer
}

// output-only / state messages and fields: never sent
func c18sIsState(md protoreflect.MessageDescriptor, fd protoreflect.FieldDescriptor) bool {
	n := string(fd.Name())
	if n == "state" || n == "queues" || n == "bfd_state" {
		return true
	}
	switch string(md.Name()) + "." + n {
	case "GracefulRestart.peer_restart_time", "GracefulRestart.peer_restarting", "GracefulRestart.local_restarting",
		"Peer.state":
		return true
	}
	return false
}

func c18sScalarValues(md protoreflect.MessageDescriptor, fd protoreflect.FieldDescriptor) []protoreflect.Value {
	n := string(fd.Name())
	switch fd.Kind() {
	case protoreflect.BoolKind:
		return []protoreflect.Value{protoreflect.ValueOfBool(true)}
	case protoreflect.Uint32Kind:
		var out []protoreflect.Value
		for _, v := range []uint32{1, 255, 256, 65535, 65536, 4200000000, 0xffffffff} {
			out = append(out, protoreflect.ValueOfUint32(v))
		}
		return out
	case protoreflect.Uint64Kind:
		var out []protoreflect.Value
		for _, v := range []uint64{1, 3, 90, 65535, 65536, 0xffffffff, 1 << 40} {
			out = append(out, protoreflect.ValueOfUint64(v))
		}
		return out
	case protoreflect.Int32Kind:
		return []protoreflect.Value{protoreflect.ValueOfInt32(1), protoreflect.ValueOfInt32(-1)}
	case protoreflect.StringKind:
		switch {
		case strings.Contains(n, "address") || n == "route_reflector_cluster_id":
			return []protoreflect.Value{protoreflect.ValueOfString("10.0.0.9"), protoreflect.ValueOfString("2001:db8::9")}
		case n == "name": // policy names inside apply_policy
			return []protoreflect.Value{protoreflect.ValueOfString("c18pol")}
		}
		return []protoreflect.Value{protoreflect.ValueOfString("x")}
	case protoreflect.EnumKind:
		var out []protoreflect.Value
		ev := fd.Enum().Values()
		for i := 0; i < ev.Len(); i++ {
			if ev.Get(i).Number() != 0 {
				out = append(out, protoreflect.ValueOfEnum(ev.Get(i).Number()))
			}
		}
		return out
	case protoreflect.FloatKind, protoreflect.DoubleKind:
		return []protoreflect.Value{protoreflect.ValueOfFloat64(1.5)}
	}
	return nil
}

// c18sPeerCases: the base peer, every optional sub-message present-but-empty, every scalar leaf of the
// configuration tree set to each boundary value of its kind (one leaf at a time; inside afi_safis the
// leaf is set in an enabled ipv4-unicast element), and the hand-written combinations below.
func c18sPeerCases() []c18sPeerCase {
	var out []c18sPeerCase
	out = append(out, c18sPeerCase{"base", c18sBasePeer()})

	type step struct {
		fd protoreflect.FieldDescriptor
	}
	var walk func(md protoreflect.MessageDescriptor, steps []step, depth int)
	build := func(steps []step, leaf protoreflect.FieldDescriptor, v *protoreflect.Value) *api.Peer {
		p := c18sBasePeer()
		m := p.ProtoReflect()
		for _, s := range steps {
			if s.fd.IsList() {
				l := m.Mutable(s.fd).List()
				if l.Len() == 0 {
					e := l.NewElement()
					l.Append(e)
					if string(s.fd.Message().Name()) == "AfiSafi" {
						e.Message().Interface().(*api.AfiSafi).Config = &api.AfiSafiConfig{Family: c18sFamily(bgp.RF_IPv4_UC), Enabled: true}
					}
				}
				m = l.Get(0).Message()
			} else {
				m = m.Mutable(s.fd).Message()
			}
		}
		if leaf != nil {
			if leaf.IsList() {
				m.Mutable(leaf).List().Append(*v)
			} else {
				m.Set(leaf, *v)
			}
		}
		return p
	}
	pathName := func(steps []step, leaf string) string {
		var s []string
		for _, st := range steps {
			s = append(s, string(st.fd.Name()))
		}
		if leaf != "" {
			s = append(s, leaf)
		}
		return strings.Join(s, ".")
	}
	walk = func(md protoreflect.MessageDescriptor, steps []step, depth int) {
		if depth > 6 {
			return
		}
		fds := md.Fields()
		for i := 0; i < fds.Len(); i++ {
			fd := fds.Get(i)
			if c18sIsState(md, fd) {
				continue
			}
			if fd.Kind() == protoreflect.MessageKind {
				if fd.IsMap() {
					continue
				}
				ns := append(append([]step{}, steps...), step{fd})
				// a policy inside an assignment is referenced by name only
				if string(fd.Message().Name()) == "Policy" {
					v := protoreflect.ValueOfString("c18pol")
					out = append(out, c18sPeerCase{pathName(ns, "name") + "=c18pol", build(ns, fd.Message().Fields().ByName("name"), &v)})
					continue
				}
				out = append(out, c18sPeerCase{pathName(ns, "") + "={}", build(ns, nil, nil)})
				walk(fd.Message(), ns, depth+1)
				continue
			}
			for _, v := range c18sScalarValues(md, fd) {
				v := v
				out = append(out, c18sPeerCase{fmt.Sprintf("%s=%v", pathName(steps, string(fd.Name())), v), build(steps, fd, &v)})
			}
		}
	}
	walk((&api.Peer{}).ProtoReflect().Descriptor(), nil, 0)

	// ---- thorough: every pair of single-leaf cases merged (first boundary value of each leaf) ----
	if vr.Thorough() {
		var singles []c18sPeerCase
		seenLeaf := map[string]bool{}
		for _, c := range out[1:] {
			k := c.Name
			if i := strings.IndexByte(k, '='); i >= 0 {
				k = k[:i]
			}
			if seenLeaf[k] || strings.HasSuffix(c.Name, "={}") {
				continue
			}
			seenLeaf[k] = true
			singles = append(singles, c)
		}
		for i := range singles {
			for j := i + 1; j < len(singles); j++ {
				p := proto.Clone(singles[i].Peer).(*api.Peer)
				// merge: scalar leaves of j override, messages merge, afi_safis[0] merges element-wise
				q := proto.Clone(singles[j].Peer).(*api.Peer)
				if len(p.AfiSafis) == 1 && len(q.AfiSafis) == 1 {
					proto.Merge(p.AfiSafis[0], q.AfiSafis[0])
					q.AfiSafis = nil
				}
				proto.Merge(p, q)
				out = append(out, c18sPeerCase{"pair/" + singles[i].Name + "+" + singles[j].Name, p})
			}
		}
	}

	// ---- combinations ----
	add := func(n string, f func(p *api.Peer)) {
		p := c18sBasePeer()
		f(p)
		out = append(out, c18sPeerCase{"combo/" + n, p})
	}
	afi := func(f bgp.Family) *api.AfiSafi {
		return &api.AfiSafi{Config: &api.AfiSafiConfig{Family: c18sFamily(f), Enabled: true}}
	}
	add("as4", func(p *api.Peer) { p.Conf.PeerAsn = 4200000000; p.Conf.LocalAsn = 4200000001 })
	add("ibgp-rr-client", func(p *api.Peer) {
		p.Conf.PeerAsn = c18sLocalAS
		p.Conf.Type = api.PeerType_PEER_TYPE_INTERNAL
		p.RouteReflector = &api.RouteReflector{RouteReflectorClient: true, RouteReflectorClusterId: "10.0.0.99"}
	})
	add("rs-client", func(p *api.Peer) { p.RouteServer = &api.RouteServer{RouteServerClient: true, SecondaryRoute: true} })
	add("ebgp-multihop", func(p *api.Peer) { p.EbgpMultihop = &api.EbgpMultihop{Enabled: true, MultihopTtl: 5} })
	add("ttl-security", func(p *api.Peer) { p.TtlSecurity = &api.TtlSecurity{Enabled: true, TtlMin: 254} })
	add("timers", func(p *api.Peer) {
		p.Timers = &api.Timers{Config: &api.TimersConfig{ConnectRetry: 10, HoldTime: 30, KeepaliveInterval: 10, MinimumAdvertisementInterval: 5, IdleHoldTimeAfterReset: 7}}
	})
	add("timers-hold0", func(p *api.Peer) {
		p.Timers = &api.Timers{Config: &api.TimersConfig{HoldTime: 0, KeepaliveInterval: 0}}
	})
	add("timers-hold3", func(p *api.Peer) {
		p.Timers = &api.Timers{Config: &api.TimersConfig{HoldTime: 3, KeepaliveInterval: 1}}
	})
	add("transport", func(p *api.Peer) {
		p.Transport = &api.Transport{PassiveMode: true, LocalAddress: "10.0.0.254", LocalPort: 1790, RemotePort: 1791, TcpMss: 1400, IpTos: 192, BindInterface: "lo"}
	})
	add("gr", func(p *api.Peer) {
		p.GracefulRestart = &api.GracefulRestart{Enabled: true, RestartTime: 120, NotificationEnabled: true, LonglivedEnabled: true, DeferralTime: 30}
		a := afi(bgp.RF_IPv4_UC)
		a.MpGracefulRestart = &api.MpGracefulRestart{Config: &api.MpGracefulRestartConfig{Enabled: true}}
		a.LongLivedGracefulRestart = &api.LongLivedGracefulRestart{Config: &api.LongLivedGracefulRestartConfig{Enabled: true, RestartTime: 3600}}
		p.AfiSafis = []*api.AfiSafi{a}
	})
	add("gr-helper-only", func(p *api.Peer) {
		p.GracefulRestart = &api.GracefulRestart{Enabled: true, HelperOnly: true, RestartTime: 4095}
	})
	for _, m := range []struct {
		n   string
		rx  bool
		max uint32
	}{{"rx", true, 0}, {"tx", false, 8}, {"both", true, 255}} {
		m := m
		add("addpath-"+m.n, func(p *api.Peer) {
			a := afi(bgp.RF_IPv4_UC)
			a.AddPaths = &api.AddPaths{Config: &api.AddPathsConfig{Receive: m.rx, SendMax: m.max}}
			p.AfiSafis = []*api.AfiSafi{a}
		})
	}
	add("prefix-limit", func(p *api.Peer) {
		a := afi(bgp.RF_IPv4_UC)
		a.PrefixLimits = &api.PrefixLimit{Family: c18sFamily(bgp.RF_IPv4_UC), MaxPrefixes: 1000, ShutdownThresholdPct: 80}
		p.AfiSafis = []*api.AfiSafi{a}
	})
	add("families", func(p *api.Peer) {
		for _, f := range []bgp.Family{bgp.RF_IPv4_UC, bgp.RF_IPv6_UC, bgp.RF_IPv4_VPN, bgp.RF_EVPN, bgp.RF_RTC_UC, bgp.RF_FS_IPv4_UC, bgp.RF_LS} {
			p.AfiSafis = append(p.AfiSafis, afi(f))
		}
	})
	add("family-disabled", func(p *api.Peer) {
		p.AfiSafis = []*api.AfiSafi{afi(bgp.RF_IPv4_UC), {Config: &api.AfiSafiConfig{Family: c18sFamily(bgp.RF_IPv6_UC), Enabled: false}}}
	})
	add("multipath", func(p *api.Peer) {
		a := afi(bgp.RF_IPv4_UC)
		a.UseMultiplePaths = &api.UseMultiplePaths{Config: &api.UseMultiplePathsConfig{Enabled: true},
			Ebgp: &api.Ebgp{Config: &api.EbgpConfig{AllowMultipleAsn: true, MaximumPaths: 4}}, Ibgp: &api.Ibgp{Config: &api.IbgpConfig{MaximumPaths: 8}}}
		p.AfiSafis = []*api.AfiSafi{a}
	})
	add("rtc-deferral", func(p *api.Peer) {
		a := afi(bgp.RF_RTC_UC)
		a.RouteTargetMembership = &api.RouteTargetMembership{Config: &api.RouteTargetMembershipConfig{DeferralTime: 30}}
		p.AfiSafis = []*api.AfiSafi{afi(bgp.RF_IPv4_VPN), a}
	})
	add("apply-policy", func(p *api.Peer) {
		p.RouteServer = &api.RouteServer{RouteServerClient: true}
		p.ApplyPolicy = &api.ApplyPolicy{
			ImportPolicy: &api.PolicyAssignment{DefaultAction: api.RouteAction_ROUTE_ACTION_REJECT, Policies: []*api.Policy{{Name: "c18pol"}}},
			ExportPolicy: &api.PolicyAssignment{DefaultAction: api.RouteAction_ROUTE_ACTION_ACCEPT, Policies: []*api.Policy{{Name: "c18pol"}, {Name: "c18pol2"}}},
		}
	})
	add("conf-misc", func(p *api.Peer) {
		p.Conf.Description = "descr"
		p.Conf.AuthPassword = "secret"
		p.Conf.AllowOwnAsn = 3
		p.Conf.ReplacePeerAsn = true
		p.Conf.RemovePrivate = api.RemovePrivate_REMOVE_PRIVATE_REPLACE
		p.Conf.AdminDown = true
		p.Conf.SendSoftwareVersion = true
		p.Conf.AllowAspathLoopLocal = true
		p.Conf.RouteFlapDamping = true
	})
	add("v6-neighbor", func(p *api.Peer) {
		p.Conf.NeighborAddress = "2001:db8::1"
		p.AfiSafis = []*api.AfiSafi{afi(bgp.RF_IPv6_UC)}
	})
	// two families, the FIRST of which carries one optional sub-message the second one lacks: what is listed for
	// the second family must be what is listed for it when it is configured alone (judged in c18sPeers)
	for _, tf := range []struct {
		n string
		f func(a *api.AfiSafi)
	}{
		{"prefix-limit", func(a *api.AfiSafi) {
			a.PrefixLimits = &api.PrefixLimit{Family: c18sFamily(bgp.RF_IPv4_UC), MaxPrefixes: 100, ShutdownThresholdPct: 75}
		}},
		{"add-paths", func(a *api.AfiSafi) { a.AddPaths = &api.AddPaths{Config: &api.AddPathsConfig{Receive: true, SendMax: 4}} }},
		{"mp-gr", func(a *api.AfiSafi) {
			a.MpGracefulRestart = &api.MpGracefulRestart{Config: &api.MpGracefulRestartConfig{Enabled: true}}
		}},
		{"llgr", func(a *api.AfiSafi) {
			a.LongLivedGracefulRestart = &api.LongLivedGracefulRestart{Config: &api.LongLivedGracefulRestartConfig{Enabled: true, RestartTime: 3600}}
		}},
		{"multipath", func(a *api.AfiSafi) {
			a.UseMultiplePaths = &api.UseMultiplePaths{Config: &api.UseMultiplePathsConfig{Enabled: true},
				Ebgp: &api.Ebgp{Config: &api.EbgpConfig{AllowMultipleAsn: true, MaximumPaths: 4}}, Ibgp: &api.Ibgp{Config: &api.IbgpConfig{MaximumPaths: 8}}}
		}},
		{"route-selection", func(a *api.AfiSafi) {
			a.RouteSelectionOptions = &api.RouteSelectionOptions{Config: &api.RouteSelectionOptionsConfig{AlwaysCompareMed: true, IgnoreAsPathLength: true, ExternalCompareRouterId: true, AdvertiseInactiveRoutes: true, EnableAigp: true, IgnoreNextHopIgpMetric: true}}
		}},
		{"apply-policy", func(a *api.AfiSafi) {
			a.ApplyPolicy = &api.ApplyPolicy{ImportPolicy: &api.PolicyAssignment{DefaultAction: api.RouteAction_ROUTE_ACTION_REJECT, Policies: []*api.Policy{{Name: "c18pol"}}}}
		}},
		{"rtc", func(a *api.AfiSafi) {
			a.RouteTargetMembership = &api.RouteTargetMembership{Config: &api.RouteTargetMembershipConfig{DeferralTime: 30}}
		}},
	} {
		tf := tf
		add("twofam/"+tf.n, func(p *api.Peer) {
			a := afi(bgp.RF_IPv4_UC)
			tf.f(a)
			p.AfiSafis = []*api.AfiSafi{a, afi(bgp.RF_IPv6_UC)}
		})
	}
	add("bfd", func(p *api.Peer) {
		p.Bfd = &api.BfdPeerConfig{Enabled: false, Port: 3784, DesiredMinimumTxInterval: 300000, RequiredMinimumReceive: 300000, DetectionMultiplier: 3}
	})
	return out
}

// c18sPeerDeliberate: differences between the peer that was added and the peer that is listed which are
// deliberate and documented in the code (returned as the reason), not losses.
func c18sPeerDeliberate(sent *api.Peer, l c18sLoss) string {
	switch {
	case sent.GetConf().GetPeerGroup() != "" && l.Leaf != "PeerConf.peer_group":
		return "a peer in a peer-group takes its configuration from the group (oc/default.go OverwriteNeighborConfigWithPeerGroup: a gRPC request carries no per-field 'is set' information)"
	case strings.HasPrefix(l.Leaf, "PrefixLimit.") || (strings.HasPrefix(l.Leaf, "Family.") && strings.Contains(l.Path, ".prefix_limits.")):
		for _, a := range sent.AfiSafis {
			if a.GetPrefixLimits() != nil && a.GetPrefixLimits().MaxPrefixes == 0 {
				return "a prefix limit without max-prefixes is no limit (oc/util.go newPrefixLimitFromConfigStruct returns nil when MaxPrefixes == 0)"
			}
		}
	case l.Leaf == "PolicyAssignment.name" || l.Leaf == "PolicyAssignment.direction":
		return "name and direction of the assignments nested in apply_policy are implied by the peer and by the field they sit in (readApplyPolicyFromAPIStruct reads policies and default action only)"
	case l.Leaf == "PeerConf.type":
		return "the peer type is derived from the AS numbers (oc.SetDefaultNeighborConfigValues), a contradicting type in the request is overridden"
	case l.Leaf == "RouteReflector.route_reflector_cluster_id" && !sent.GetRouteReflector().GetRouteReflectorClient():
		return "a cluster-id on a peer that is not a route-reflector client is not used (listed from RouteReflector.State, which is only filled for clients)"
	}
	return ""
}

// alignment: got.AfiSafis reordered so that element i has the family of sent.AfiSafis[i]
func c18sAlignAfiSafis(sent, got *api.Peer) {
	var al []*api.AfiSafi
	for _, s := range sent.AfiSafis {
		var m *api.AfiSafi
		for _, g := range got.AfiSafis {
			if s.GetConfig().GetFamily() != nil && proto.Equal(g.GetConfig().GetFamily(), s.GetConfig().GetFamily()) {
				m = g
				break
			}
		}
		if m == nil {
			m = &api.AfiSafi{}
		}
		al = append(al, m)
	}
	got.AfiSafis = al
}

func c18sPeers(t *testing.T, r *vr.Report, only string) {
	cases := c18sPeerCases()
	nCombo := 0
	for _, c := range cases {
		if strings.HasPrefix(c.Name, "combo/") {
			nCombo++
		}
	}
	r.Bounds["peers"] = fmt.Sprintf("%d api.Peer values: base, every optional sub-message present-but-empty, every configuration leaf x boundary values of its kind "+
		"(bool true; uint32 1,255,256,65535,65536,4200000000,2^32-1; uint64 1,3,90,65535,65536,2^32-1,2^40; every enum value; strings) one leaf at a time, %d hand-written combinations (thorough: + every pair of leaves)", len(cases), nCombo)
	pn := c18sRun(t, r, nil, func(x *c18sWorld) {
		// objects the peers refer to
		_ = x.w.s.AddPolicy(x.ctx, &api.AddPolicyRequest{Policy: &api.Policy{Name: "c18pol"}})
		_ = x.w.s.AddPolicy(x.ctx, &api.AddPolicyRequest{Policy: &api.Policy{Name: "c18pol2"}})
		_ = x.w.s.AddPeerGroup(x.ctx, &api.AddPeerGroupRequest{PeerGroup: &api.PeerGroup{Conf: &api.PeerGroupConf{PeerGroupName: "x", PeerAsn: 65001}}})
		_ = x.w.s.AddVrf(x.ctx, &api.AddVrfRequest{Vrf: &api.Vrf{Name: "x", Id: 1,
			Rd:       &api.RouteDistinguisher{Rd: &api.RouteDistinguisher_TwoOctetAsn{TwoOctetAsn: &api.RouteDistinguisherTwoOctetASN{Admin: 65000, Assigned: 1}}},
			ImportRt: []*api.RouteTarget{}, ExportRt: []*api.RouteTarget{}}})
		lostSmall := map[string]bool{}
		// reference for the twofam/ cases: ipv6-unicast configured alone
		var ref6 *api.AfiSafi
		{
			p := c18sBasePeer()
			p.AfiSafis = []*api.AfiSafi{{Config: &api.AfiSafiConfig{Family: c18sFamily(bgp.RF_IPv6_UC), Enabled: true}}}
			if err := x.w.s.AddPeer(x.ctx, &api.AddPeerRequest{Peer: p}); err == nil {
				x.w.settle()
				_ = x.w.s.ListPeer(x.ctx, &api.ListPeerRequest{Address: p.Conf.NeighborAddress}, func(q *api.Peer) {
					for _, a := range q.AfiSafis {
						if a.Config != nil && a.Config.Family != nil && a.Config.Family.Afi == api.Family_AFI_IP6 {
							ref6 = proto.Clone(a).(*api.AfiSafi)
						}
					}
				})
				_ = x.w.s.DeletePeer(x.ctx, &api.DeletePeerRequest{Address: p.Conf.NeighborAddress})
				x.w.settle()
			}
		}
		for _, c := range cases {
			if only != "" && c.Name != only {
				continue
			}
			r.Eval()
			cs := c18sCase{"peer", c.Name}
			sent := proto.Clone(c.Peer).(*api.Peer)
			var err error
			if p := c18sTry(func() { err = x.w.s.AddPeer(x.ctx, &api.AddPeerRequest{Peer: c.Peer}) }); p != "" {
				x.viol("C18:peer:add-peer-panic:"+c18sSite(p), cs, "%s: AddPeer panicked: %s\n  peer %v", c.Name, p, sent)
				continue
			}
			x.w.settle()
			if err != nil {
				r.Outcome("peer:rejected: " + c18sErrClass(err))
				continue
			}
			addr := sent.Conf.NeighborAddress
			if !proto.Equal(sent, c.Peer) {
				x.viol("C18:peer:add-peer-mutates-request", cs, "%s: AddPeer changed the request message", c.Name)
			}
			var got *api.Peer
			n := 0
			err = x.w.s.ListPeer(x.ctx, &api.ListPeerRequest{Address: addr}, func(p *api.Peer) { got = p; n++ })
			if err != nil || n != 1 || got == nil {
				x.viol("C18:peer:not-listed", cs, "%s: accepted by AddPeer but ListPeer(%s) returned %d peers, err=%v", c.Name, addr, n, err)
			} else {
				r.NT("peer/" + c.Name)
				c18sAlignAfiSafis(sent, got)
				if strings.HasPrefix(c.Name, "combo/twofam/") {
					var g6 *api.AfiSafi
					for _, a := range got.AfiSafis {
						if a.Config != nil && a.Config.Family != nil && a.Config.Family.Afi == api.Family_AFI_IP6 {
							g6 = a
						}
					}
					switch {
					case ref6 == nil || g6 == nil:
						x.viol("C18:peer:family-not-listed", cs, "%s: ipv6-unicast is not listed (alone: %v, as second family: %v)", c.Name, ref6 != nil, g6 != nil)
					default:
						if leaf, detail := c18sDiff(ref6, g6); leaf != "" {
							x.viol("C18:peer:family-depends-on-the-family-before-it:"+leaf, cs, "%s: ipv6-unicast configured without any option is listed differently after a family that has one: %s %s", c.Name, leaf, detail)
						} else {
							r.Outcome("peer:second-family-independent")
						}
					}
				}
				var losses []c18sLoss
				c18sSubset(sent.ProtoReflect(), got.ProtoReflect(), "", nil, &losses)
				if len(losses) == 0 {
					r.Outcome("peer:listed-back-equal")
				}
				for _, l := range losses {
					if why := c18sPeerDeliberate(sent, l); why != "" {
						r.Outcome("peer:deliberate: " + why)
						continue
					}
					kind := "field-changed"
					if l.Zero {
						kind = "field-not-returned"
					}
					// accepted out-of-range number stored modulo 2^8 / 2^16
					if sv, err1 := strconv.ParseUint(l.Sent, 10, 64); err1 == nil {
						if sv <= 255 {
							lostSmall[l.Leaf] = true // the field is not returned even for small values: not a narrowing
						}
						if gv, err2 := strconv.ParseUint(l.Got, 10, 64); err2 == nil && sv > 255 && (gv == sv&0xff || gv == sv&0xffff) && !lostSmall[l.Leaf] {
							kind = "number-narrowed-without-range-check"
						}
					}
					x.viol("C18:peer:"+kind+":"+l.Leaf, cs, "%s: set %s = %s, ListPeer returns %s", c.Name, l.Path, l.Sent, l.Got)
				}
				if _, err := proto.Marshal(got); err != nil {
					x.viol("C18:peer:listed-peer-not-marshalable", cs, "%s: %v", c.Name, err)
				}
			}
			if err := x.w.s.DeletePeer(x.ctx, &api.DeletePeerRequest{Address: addr}); err != nil {
				x.viol("C18:peer:delete-failed", cs, "%s: %v", c.Name, err)
				return
			}
			x.w.settle()
		}
	})
	if pn != "" {
		r.Violationf("C18:peer:harness-goroutine-panic:"+c18sSite(pn), c18sCase{"peer", only}, "%s", pn)
	}
}

// ---------------------------------------------------------------------------------------------
// (b) policy objects

func c18sDefinedSets() []*api.DefinedSet {
	var out []*api.DefinedSet
	n := 0
	add := func(t api.DefinedType, list []string, pfx []*api.Prefix) {
		n++
		out = append(out, &api.DefinedSet{DefinedType: t, Name: fmt.Sprintf("ds%d", n), List: list, Prefixes: pfx})
	}
	P := api.DefinedType_DEFINED_TYPE_PREFIX
	add(P, nil, []*api.Prefix{{IpPrefix: "10.0.0.0/8", MaskLengthMin: 8, MaskLengthMax: 8}})
	add(P, nil, []*api.Prefix{{IpPrefix: "10.0.0.0/8", MaskLengthMin: 8, MaskLengthMax: 32}})
	add(P, nil, []*api.Prefix{{IpPrefix: "10.0.0.0/8"}})
	add(P, nil, []*api.Prefix{{IpPrefix: "0.0.0.0/0", MaskLengthMin: 0, MaskLengthMax: 32}})
	add(P, nil, []*api.Prefix{{IpPrefix: "0.0.0.0/0", MaskLengthMin: 0, MaskLengthMax: 0}})
	add(P, nil, []*api.Prefix{{IpPrefix: "10.1.2.3/32", MaskLengthMin: 32, MaskLengthMax: 32}})
	add(P, nil, []*api.Prefix{{IpPrefix: "10.0.0.0/8", MaskLengthMin: 16, MaskLengthMax: 24}})
	add(P, nil, []*api.Prefix{{IpPrefix: "10.0.0.0/8", MaskLengthMin: 0, MaskLengthMax: 24}})
	add(P, nil, []*api.Prefix{{IpPrefix: "2001:db8::/32", MaskLengthMin: 32, MaskLengthMax: 128}})
	add(P, nil, []*api.Prefix{{IpPrefix: "::/0", MaskLengthMin: 0, MaskLengthMax: 128}})
	add(P, nil, []*api.Prefix{{IpPrefix: "10.0.0.0/8", MaskLengthMin: 8, MaskLengthMax: 8}, {IpPrefix: "192.168.0.0/16", MaskLengthMin: 16, MaskLengthMax: 24}, {IpPrefix: "172.16.0.0/12", MaskLengthMin: 12, MaskLengthMax: 32}})
	add(P, nil, []*api.Prefix{{IpPrefix: "192.168.0.0/16", MaskLengthMin: 16, MaskLengthMax: 24}, {IpPrefix: "10.0.0.0/8", MaskLengthMin: 8, MaskLengthMax: 8}})
	add(P, nil, []*api.Prefix{{IpPrefix: "10.0.0.0/8", MaskLengthMin: 8, MaskLengthMax: 16}, {IpPrefix: "10.0.0.0/8", MaskLengthMin: 24, MaskLengthMax: 32}})
	add(P, nil, []*api.Prefix{{RtcPrefix: "65000:100:200/96"}})
	add(P, nil, nil)
	N := api.DefinedType_DEFINED_TYPE_NEIGHBOR
	add(N, []string{"10.0.0.1"}, nil)
	add(N, []string{"10.0.0.1/32"}, nil)
	add(N, []string{"10.0.0.0/24", "2001:db8::/32"}, nil)
	add(N, []string{"2001:db8::1"}, nil)
	add(N, []string{"10.0.0.2", "10.0.0.1"}, nil)
	A := api.DefinedType_DEFINED_TYPE_AS_PATH
	for _, l := range [][]string{{"^65001"}, {"_65002_"}, {"65003$"}, {"^65001_65002$"}, {"^65001$"}, {"[0-9]+"}, {"^(65001|65002)_"}, {"^4200000000"}, {"^65001", "_65002_", "65003$"}, {"65100"}} {
		add(A, l, nil)
	}
	C := api.DefinedType_DEFINED_TYPE_COMMUNITY
	for _, l := range [][]string{{"65000:100"}, {"^65000:.*$"}, {"no-export"}, {"100"}, {"0:0"}, {"65535:65535"}, {"4259840100"}, {"^65000:100$"}, {"65000:100", "65000:200"}, {"65000:200", "65000:100"}, {"NO_ADVERTISE"}, {"internet"}, {"^(65000|65001):1..$"}} {
		add(C, l, nil)
	}
	E := api.DefinedType_DEFINED_TYPE_EXT_COMMUNITY
	for _, l := range [][]string{{"rt:65000:100"}, {"soo:65000:100"}, {"rt:10.0.0.1:100"}, {"rt:4200000000:100"}, {"rt:^65000:.*$"}, {"soo:^10\\.0\\.0\\.1:.*$"}, {"rt:65000:100", "soo:65000:200"}, {"rt:65000.1:100"}, {"lb:65000:1000"}} {
		add(E, l, nil)
	}
	L := api.DefinedType_DEFINED_TYPE_LARGE_COMMUNITY
	for _, l := range [][]string{{"65000:1:2"}, {"^65000:.*:.*$"}, {"4294967295:4294967295:4294967295"}, {"0:0:0"}, {"65000:1:2", "65000:1:3"}} {
		add(L, l, nil)
	}
	return out
}

func c18sStatements() []*api.Statement {
	var out []*api.Statement
	n := 0
	add := func(c *api.Conditions, a *api.Actions) {
		n++
		out = append(out, &api.Statement{Name: fmt.Sprintf("st%d", n), Conditions: c, Actions: a})
	}
	ms := func(t api.MatchSet_Type, name string) *api.MatchSet { return &api.MatchSet{Type: t, Name: name} }
	allT := []api.MatchSet_Type{api.MatchSet_TYPE_ANY, api.MatchSet_TYPE_ALL, api.MatchSet_TYPE_INVERT}
	acc := &api.Actions{RouteAction: api.RouteAction_ROUTE_ACTION_ACCEPT}
	// conditions, one at a time, every match-set type
	for _, t := range allT {
		add(&api.Conditions{PrefixSet: ms(t, "ps")}, acc)
		add(&api.Conditions{NeighborSet: ms(t, "ns")}, acc)
		add(&api.Conditions{AsPathSet: ms(t, "as")}, acc)
		add(&api.Conditions{CommunitySet: ms(t, "cs")}, acc)
		add(&api.Conditions{ExtCommunitySet: ms(t, "es")}, acc)
		add(&api.Conditions{LargeCommunitySet: ms(t, "ls")}, acc)
	}
	for _, cmp := range []api.Comparison{api.Comparison_COMPARISON_EQ, api.Comparison_COMPARISON_GE, api.Comparison_COMPARISON_LE} {
		for _, v := range []uint32{0, 1, 255, 0xffffffff} {
			add(&api.Conditions{AsPathLength: &api.AsPathLength{Type: cmp, Length: v}}, acc)
			add(&api.Conditions{CommunityCount: &api.CommunityCount{Type: cmp, Count: v}}, acc)
		}
	}
	for _, v := range []api.ValidationState{api.ValidationState_VALIDATION_STATE_NONE, api.ValidationState_VALIDATION_STATE_NOT_FOUND, api.ValidationState_VALIDATION_STATE_VALID, api.ValidationState_VALIDATION_STATE_INVALID} {
		add(&api.Conditions{RpkiResult: v}, acc)
	}
	for _, v := range []api.Conditions_RouteType{api.Conditions_ROUTE_TYPE_INTERNAL, api.Conditions_ROUTE_TYPE_EXTERNAL, api.Conditions_ROUTE_TYPE_LOCAL} {
		add(&api.Conditions{RouteType: v}, acc)
	}
	for _, v := range []api.OriginType{api.OriginType_ORIGIN_TYPE_IGP, api.OriginType_ORIGIN_TYPE_EGP, api.OriginType_ORIGIN_TYPE_INCOMPLETE} {
		add(&api.Conditions{Origin: v}, acc)
	}
	for _, l := range [][]string{{"10.0.0.1"}, {"10.0.0.1", "2001:db8::1"}, {"10.0.0.0/24"}} {
		add(&api.Conditions{NextHopInList: l}, acc)
	}
	add(&api.Conditions{AfiSafiIn: []*api.Family{c18sFamily(bgp.RF_IPv4_UC)}}, acc)
	add(&api.Conditions{AfiSafiIn: []*api.Family{c18sFamily(bgp.RF_IPv6_UC), c18sFamily(bgp.RF_EVPN)}}, acc)
	for _, v := range []uint32{0, 1, 100, 0xffffffff} {
		add(&api.Conditions{LocalPrefEq: &api.LocalPrefEq{Value: v}}, acc)
		add(&api.Conditions{MedEq: &api.MedEq{Value: v}}, acc)
	}
	// actions, one at a time
	for _, ra := range []api.RouteAction{api.RouteAction_ROUTE_ACTION_ACCEPT, api.RouteAction_ROUTE_ACTION_REJECT, api.RouteAction_ROUTE_ACTION_UNSPECIFIED} {
		add(&api.Conditions{}, &api.Actions{RouteAction: ra})
		add(nil, &api.Actions{RouteAction: ra})
	}
	add(nil, nil)
	for _, t := range []api.CommunityAction_Type{api.CommunityAction_TYPE_ADD, api.CommunityAction_TYPE_REMOVE, api.CommunityAction_TYPE_REPLACE} {
		for _, l := range [][]string{{"65000:100"}, {"65000:100", "65000:200"}, {"no-export"}, nil} {
			add(nil, &api.Actions{Community: &api.CommunityAction{Type: t, Communities: l}})
		}
		for _, l := range [][]string{{"rt:65000:100"}, {"soo:10.0.0.1:100", "rt:4200000000:1"}, nil} {
			add(nil, &api.Actions{ExtCommunity: &api.CommunityAction{Type: t, Communities: l}})
		}
		for _, l := range [][]string{{"65000:1:2"}, {"65000:1:2", "4294967295:0:0"}, nil} {
			add(nil, &api.Actions{LargeCommunity: &api.CommunityAction{Type: t, Communities: l}})
		}
	}
	add(nil, &api.Actions{Community: &api.CommunityAction{Type: api.CommunityAction_TYPE_REMOVE, Communities: []string{"^65000:.*$"}}})
	for _, t := range []api.MedAction_Type{api.MedAction_TYPE_MOD, api.MedAction_TYPE_REPLACE} {
		for _, v := range []int64{0, 1, -1, 100, -100, 0xffffffff, -0xffffffff} {
			add(nil, &api.Actions{Med: &api.MedAction{Type: t, Value: v}})
		}
	}
	for _, asn := range []uint32{65001, 4200000000, 1} {
		for _, rep := range []uint32{1, 2, 255} {
			add(nil, &api.Actions{AsPrepend: &api.AsPrependAction{Asn: asn, Repeat: rep}})
		}
	}
	add(nil, &api.Actions{AsPrepend: &api.AsPrependAction{UseLeftMost: true, Repeat: 3}})
	add(nil, &api.Actions{AsPrepend: &api.AsPrependAction{Asn: 65001, Repeat: 0}})
	add(nil, &api.Actions{AsPrepend: &api.AsPrependAction{Asn: 65001, Repeat: 256}})
	add(nil, &api.Actions{Nexthop: &api.NexthopAction{Address: "10.0.0.1"}})
	add(nil, &api.Actions{Nexthop: &api.NexthopAction{Address: "2001:db8::1"}})
	add(nil, &api.Actions{Nexthop: &api.NexthopAction{Self: true}})
	add(nil, &api.Actions{Nexthop: &api.NexthopAction{Unchanged: true}})
	add(nil, &api.Actions{Nexthop: &api.NexthopAction{PeerAddress: true}})
	for _, v := range []uint32{0, 1, 100, 0xffffffff} {
		add(nil, &api.Actions{LocalPref: &api.LocalPrefAction{Value: v}})
	}
	for _, v := range []api.OriginType{api.OriginType_ORIGIN_TYPE_IGP, api.OriginType_ORIGIN_TYPE_EGP, api.OriginType_ORIGIN_TYPE_INCOMPLETE} {
		add(nil, &api.Actions{OriginAction: &api.OriginAction{Origin: v}})
	}
	// everything at once
	add(&api.Conditions{PrefixSet: ms(api.MatchSet_TYPE_ANY, "ps"), NeighborSet: ms(api.MatchSet_TYPE_INVERT, "ns"), AsPathSet: ms(api.MatchSet_TYPE_ALL, "as"),
		CommunitySet: ms(api.MatchSet_TYPE_ANY, "cs"), ExtCommunitySet: ms(api.MatchSet_TYPE_ALL, "es"), LargeCommunitySet: ms(api.MatchSet_TYPE_INVERT, "ls"),
		AsPathLength: &api.AsPathLength{Type: api.Comparison_COMPARISON_GE, Length: 2}, CommunityCount: &api.CommunityCount{Type: api.Comparison_COMPARISON_LE, Count: 3},
		RpkiResult: api.ValidationState_VALIDATION_STATE_VALID, RouteType: api.Conditions_ROUTE_TYPE_EXTERNAL, Origin: api.OriginType_ORIGIN_TYPE_EGP,
		NextHopInList: []string{"10.0.0.1"}, AfiSafiIn: []*api.Family{c18sFamily(bgp.RF_IPv4_UC)}, LocalPrefEq: &api.LocalPrefEq{Value: 100}, MedEq: &api.MedEq{Value: 5}},
		&api.Actions{RouteAction: api.RouteAction_ROUTE_ACTION_ACCEPT, Community: &api.CommunityAction{Type: api.CommunityAction_TYPE_ADD, Communities: []string{"65000:100"}},
			ExtCommunity:   &api.CommunityAction{Type: api.CommunityAction_TYPE_REPLACE, Communities: []string{"rt:65000:100"}},
			LargeCommunity: &api.CommunityAction{Type: api.CommunityAction_TYPE_REMOVE, Communities: []string{"65000:1:2"}},
			Med:            &api.MedAction{Type: api.MedAction_TYPE_MOD, Value: -10}, AsPrepend: &api.AsPrependAction{Asn: 65001, Repeat: 2},
			Nexthop: &api.NexthopAction{Self: true}, LocalPref: &api.LocalPrefAction{Value: 200}, OriginAction: &api.OriginAction{Origin: api.OriginType_ORIGIN_TYPE_IGP}})
	return out
}

func c18sPolicy(t *testing.T, r *vr.Report, only c18sCase) {
	sets := c18sDefinedSets()
	sts := c18sStatements()
	r.Bounds["defined_sets"] = fmt.Sprintf("%d (every type; exact / ranged / defaulted mask lengths, IPv4+IPv6, several members and orders, patterns and literals, well-known names)", len(sets))
	r.Bounds["statements"] = fmt.Sprintf("%d (every condition type alone x every match-set option / comparison / enum value x boundary numbers; every action type alone x every option; nil and empty Conditions/Actions; one statement with everything), each also wrapped in a policy", len(sts))
	pn := c18sRun(t, r, nil, func(x *c18sWorld) {
		s := x.w.s
		// ---- defined sets ----
		for _, d := range sets {
			name := d.DefinedType.String() + "/" + d.Name + fmt.Sprintf("%v%v", d.List, d.Prefixes)
			if only.Section != "" && (only.Section != "defined-set" || only.Name != name) {
				continue
			}
			r.Eval()
			cs := c18sCase{"defined-set", name}
			sent := proto.Clone(d).(*api.DefinedSet)
			var err error
			if p := c18sTry(func() { err = s.AddDefinedSet(x.ctx, &api.AddDefinedSetRequest{DefinedSet: d}) }); p != "" {
				x.viol("C18:defined-set:add-panic:"+c18sSite(p), cs, "%s: %s", name, p)
				continue
			}
			if err != nil {
				r.Outcome("defined-set:rejected: " + c18sErrClass(err))
				continue
			}
			var got []*api.DefinedSet
			err = s.ListDefinedSet(x.ctx, &api.ListDefinedSetRequest{DefinedType: d.DefinedType, Name: d.Name}, func(g *api.DefinedSet) { got = append(got, g) })
			if err != nil || len(got) != 1 {
				x.viol("C18:defined-set:not-listed:"+d.DefinedType.String(), cs, "%s: ListDefinedSet returned %d sets, err=%v", name, len(got), err)
				continue
			}
			r.NT("defined-set/" + name)
			exp, canon := c18sCanonSet(sent)
			gotS := c18sSortSet(got[0])
			if leaf, det := c18sDiff(exp, gotS); leaf != "" {
				x.viol("C18:defined-set:"+d.DefinedType.String()+":differs:"+leaf, cs, "%s: listed back differently at %s (%s)\n  sent     %v\n  expected %v (members as a set; literals in the canonical anchored form)\n  back     %v", name, leaf, det, sent, exp, gotS)
				continue
			}
			// the listed form must be a fixpoint: adding what was listed lists the same again
			re := proto.Clone(got[0]).(*api.DefinedSet)
			re.Name = d.Name + "-again"
			if err := s.AddDefinedSet(x.ctx, &api.AddDefinedSetRequest{DefinedSet: proto.Clone(re).(*api.DefinedSet)}); err != nil {
				x.viol("C18:defined-set:"+d.DefinedType.String()+":listed-form-rejected", cs, "%s: the listed set is rejected when added again: %v\n  listed %v", name, err, got[0])
				continue
			}
			var got2 []*api.DefinedSet
			_ = s.ListDefinedSet(x.ctx, &api.ListDefinedSetRequest{DefinedType: d.DefinedType, Name: re.Name}, func(g *api.DefinedSet) { got2 = append(got2, g) })
			if len(got2) != 1 {
				x.viol("C18:defined-set:not-listed:"+d.DefinedType.String(), cs, "%s: second listing returned %d", name, len(got2))
				continue
			}
			if leaf, det := c18sDiff(c18sSortSet(re), c18sSortSet(got2[0])); leaf != "" {
				x.viol("C18:defined-set:"+d.DefinedType.String()+":listed-form-not-a-fixpoint:"+leaf, cs, "%s: %s\n  first  %v\n  second %v", name, det, re, got2[0])
				continue
			}
			if canon {
				r.Outcome("defined-set:" + d.DefinedType.String() + ":equal-after-documented-canonicalisation(literal -> anchored pattern, well-known names -> numbers, '_' expanded, members sorted)")
			} else {
				r.Outcome("defined-set:" + d.DefinedType.String() + ":equal")
			}
		}
		// sets the statements refer to
		for _, d := range []*api.DefinedSet{
			{DefinedType: api.DefinedType_DEFINED_TYPE_PREFIX, Name: "ps", Prefixes: []*api.Prefix{{IpPrefix: "10.0.0.0/8", MaskLengthMin: 8, MaskLengthMax: 32}}},
			{DefinedType: api.DefinedType_DEFINED_TYPE_NEIGHBOR, Name: "ns", List: []string{"10.0.0.1/32"}},
			{DefinedType: api.DefinedType_DEFINED_TYPE_AS_PATH, Name: "as", List: []string{"^65001"}},
			{DefinedType: api.DefinedType_DEFINED_TYPE_COMMUNITY, Name: "cs", List: []string{"65000:100"}},
			{DefinedType: api.DefinedType_DEFINED_TYPE_EXT_COMMUNITY, Name: "es", List: []string{"rt:65000:100"}},
			{DefinedType: api.DefinedType_DEFINED_TYPE_LARGE_COMMUNITY, Name: "ls", List: []string{"65000:1:2"}},
		} {
			if err := s.AddDefinedSet(x.ctx, &api.AddDefinedSetRequest{DefinedSet: d}); err != nil {
				panic(err)
			}
		}
		// ---- statements: AddStatement/ListStatement and AddPolicy/ListPolicy ----
		for _, st := range sts {
			name := fmt.Sprintf("%s %v", st.Name, st)
			if len(name) > 300 {
				name = name[:300]
			}
			if only.Section != "" && (only.Section != "statement" || !strings.HasPrefix(only.Name, st.Name+" ")) {
				continue
			}
			r.Eval()
			cs := c18sCase{"statement", name}
			sent := proto.Clone(st).(*api.Statement)
			var err error
			if p := c18sTry(func() { err = s.AddStatement(x.ctx, &api.AddStatementRequest{Statement: st}) }); p != "" {
				x.viol("C18:statement:add-panic:"+c18sSite(p), cs, "%s: %s", name, p)
				continue
			}
			if err != nil {
				r.Outcome("statement:rejected: " + c18sErrClass(err))
				continue
			}
			var got []*api.Statement
			err = s.ListStatement(x.ctx, &api.ListStatementRequest{Name: st.Name}, func(g *api.Statement) { got = append(got, g) })
			if err != nil || len(got) != 1 {
				x.viol("C18:statement:not-listed", cs, "%s: ListStatement returned %d, err=%v", name, len(got), err)
				continue
			}
			r.NT("statement/" + st.Name)
			okS := true
			if leaf, det := c18sStDiff(sent, got[0]); leaf != "" {
				okS = false
				x.viol("C18:statement:list-statement:differs:"+leaf, cs, "%s: ListStatement (toStatementApi) differs at %s (%s)\n  sent %v\n  back %v", name, leaf, det, sent, got[0])
			}
			// the same statement inside a policy
			pol := &api.Policy{Name: "pol-" + st.Name, Statements: []*api.Statement{proto.Clone(sent).(*api.Statement)}}
			pol.Statements[0].Name = "p" + st.Name
			sentP := proto.Clone(pol).(*api.Policy)
			if p := c18sTry(func() { err = s.AddPolicy(x.ctx, &api.AddPolicyRequest{Policy: pol}) }); p != "" {
				x.viol("C18:policy:add-panic:"+c18sSite(p), cs, "%s: %s", name, p)
				continue
			}
			if err != nil {
				x.viol("C18:policy:rejects-what-add-statement-accepts", cs, "%s: AddPolicy: %v", name, err)
				continue
			}
			var gotP []*api.Policy
			err = s.ListPolicy(x.ctx, &api.ListPolicyRequest{Name: pol.Name}, func(g *api.Policy) { gotP = append(gotP, g) })
			if err != nil || len(gotP) != 1 {
				x.viol("C18:policy:not-listed", cs, "%s: ListPolicy returned %d, err=%v", name, len(gotP), err)
				continue
			}
			okP := true
			leafP, detP := "", ""
			if len(gotP[0].Statements) != 1 || gotP[0].Name != sentP.Name || gotP[0].Statements[0].Name != sentP.Statements[0].Name {
				leafP, detP = "Policy.statements", "name or number of statements"
			} else {
				leafP, detP = c18sStDiff(sentP.Statements[0], gotP[0].Statements[0])
			}
			if leaf, det := leafP, detP; leaf != "" {
				okP = false
				x.viol("C18:policy:list-policy:differs:"+leaf, cs, "%s: ListPolicy (table.ToPolicyApi) differs at %s (%s)\n  sent %v\n  back %v", name, leaf, det, sentP, gotP[0])
			}
			// the two listings of the same configured statement must agree with each other
			if len(gotP[0].Statements) == 1 {
				a := proto.Clone(got[0]).(*api.Statement)
				b := proto.Clone(gotP[0].Statements[0]).(*api.Statement)
				a.Name, b.Name = "", ""
				if leaf, det := c18sDiff(c18sCanonStatement(a, false), c18sCanonStatement(b, false)); leaf != "" && okS && okP {
					x.viol("C18:policy:list-statement-and-list-policy-disagree:"+leaf, cs, "%s: toStatementApi and ToPolicyApi disagree at %s (%s)\n  ListStatement %v\n  ListPolicy    %v", name, leaf, det, a, b)
				}
			}
			if okS && okP {
				r.Outcome("statement+policy:equal")
			}
		}
		// ---- assignments ----
		if only.Section == "" || only.Section == "assignment" {
			for _, n := range []string{"pa1", "pa2", "pa3"} {
				if err := s.AddPolicy(x.ctx, &api.AddPolicyRequest{Policy: &api.Policy{Name: n}}); err != nil {
					panic(err)
				}
			}
			for _, dir := range []api.PolicyDirection{api.PolicyDirection_POLICY_DIRECTION_IMPORT, api.PolicyDirection_POLICY_DIRECTION_EXPORT} {
				for _, def := range []api.RouteAction{api.RouteAction_ROUTE_ACTION_UNSPECIFIED, api.RouteAction_ROUTE_ACTION_ACCEPT, api.RouteAction_ROUTE_ACTION_REJECT} {
					for _, names := range [][]string{{"pa1"}, {"pa2", "pa1"}, {"pa3", "pa1", "pa2"}, nil} {
						name := fmt.Sprintf("global/%v/%v/%v", dir, def, names)
						if only.Section != "" && only.Name != name {
							continue
						}
						r.Eval()
						cs := c18sCase{"assignment", name}
						// start from an empty assignment
						_ = s.SetPolicyAssignment(x.ctx, &api.SetPolicyAssignmentRequest{Assignment: &api.PolicyAssignment{Name: "global", Direction: dir, DefaultAction: api.RouteAction_ROUTE_ACTION_ACCEPT}})
						pa := &api.PolicyAssignment{Name: "global", Direction: dir, DefaultAction: def}
						for _, n := range names {
							pa.Policies = append(pa.Policies, &api.Policy{Name: n})
						}
						var err error
						if p := c18sTry(func() { err = s.AddPolicyAssignment(x.ctx, &api.AddPolicyAssignmentRequest{Assignment: pa}) }); p != "" {
							x.viol("C18:assignment:add-panic:"+c18sSite(p), cs, "%s: %s", name, p)
							continue
						}
						if err != nil {
							r.Outcome("assignment:rejected: " + c18sErrClass(err))
							continue
						}
						var got []*api.PolicyAssignment
						err = s.ListPolicyAssignment(x.ctx, &api.ListPolicyAssignmentRequest{Name: "global", Direction: dir}, func(g *api.PolicyAssignment) { got = append(got, g) })
						if err != nil || len(got) != 1 {
							x.viol("C18:assignment:not-listed", cs, "%s: %d listed, err=%v", name, len(got), err)
							continue
						}
						r.NT("assignment/" + name)
						g := got[0]
						var gn []string
						for _, p := range g.Policies {
							gn = append(gn, p.Name)
						}
						bad := false
						if g.Name != "global" || g.Direction != dir {
							bad = true
							x.viol("C18:assignment:differs:name-or-direction", cs, "%s: listed as %s/%v", name, g.Name, g.Direction)
						}
						if !reflect.DeepEqual(gn, names) && !(len(gn) == 0 && len(names) == 0) {
							bad = true
							x.viol("C18:assignment:differs:policies", cs, "%s: policies %v listed back as %v", name, names, gn)
						}
						if def != api.RouteAction_ROUTE_ACTION_UNSPECIFIED && g.DefaultAction != def {
							bad = true
							x.viol("C18:assignment:differs:default-action", cs, "%s: default %v listed back as %v", name, def, g.DefaultAction)
						}
						if def == api.RouteAction_ROUTE_ACTION_UNSPECIFIED {
							r.Outcome("assignment:default-unspecified-listed-as:" + g.DefaultAction.String())
						}
						if !bad {
							r.Outcome("assignment:equal")
						}
					}
				}
			}
		}
	})
	if pn != "" {
		r.Violationf("C18:policy:harness-goroutine-panic:"+c18sSite(pn), only, "%s", pn)
	}
}

// ---- statements: documented canonical forms (independent model) ----

// c18sCanonAction: community strings of an action as they are listed back. ADD/REPLACE take literal
// communities (well-known names become numbers); REMOVE takes patterns (a literal becomes ^literal$).
func c18sCanonAction(kind api.DefinedType, a *api.CommunityAction) {
	if a == nil {
		return
	}
	ds := &api.DefinedSet{DefinedType: kind, List: a.Communities}
	if a.Type == api.CommunityAction_TYPE_REMOVE {
		c, _ := c18sCanonSetKeepOrder(ds)
		a.Communities = c.List
		return
	}
	if kind == api.DefinedType_DEFINED_TYPE_COMMUNITY {
		for i, m := range a.Communities {
			if w, ok := c18sWellKnown[strings.ReplaceAll(strings.ToLower(m), "_", "-")]; ok {
				a.Communities[i] = w
			}
		}
	}
	if kind == api.DefinedType_DEFINED_TYPE_EXT_COMMUNITY {
		// "<subtype>:<asplain above 65535>:<n>" is listed in asdot notation (same four-octet AS number)
		for i, m := range a.Communities {
			p := strings.Split(m, ":")
			if len(p) == 3 {
				if n, err := strconv.ParseUint(p[1], 10, 32); err == nil && n > 65535 {
					a.Communities[i] = fmt.Sprintf("%s:%d.%d:%s", p[0], n>>16, n&0xffff, p[2])
				}
			}
		}
	}
}

func c18sCanonSetKeepOrder(d *api.DefinedSet) (*api.DefinedSet, bool) {
	out := proto.Clone(d).(*api.DefinedSet)
	for i, m := range d.List {
		one, _ := c18sCanonSet(&api.DefinedSet{DefinedType: d.DefinedType, List: []string{m}})
		out.List[i] = one.List[0]
	}
	return out, true
}

// c18sCanonStatement applies, to a sent or listed statement, the equivalences that are not losses:
// a community action that adds or removes nothing is no action; the RPKI condition "none" is no condition.
func c18sCanonStatement(st *api.Statement, sent bool) *api.Statement {
	c := proto.Clone(st).(*api.Statement)
	if c.Conditions != nil && c.Conditions.RpkiResult == api.ValidationState_VALIDATION_STATE_NONE {
		c.Conditions.RpkiResult = api.ValidationState_VALIDATION_STATE_UNSPECIFIED
	}
	if a := c.Actions; a != nil {
		noop := func(x *api.CommunityAction) bool {
			return x != nil && len(x.Communities) == 0 && (x.Type == api.CommunityAction_TYPE_ADD || x.Type == api.CommunityAction_TYPE_REMOVE)
		}
		if noop(a.Community) {
			a.Community = nil
		}
		if noop(a.ExtCommunity) {
			a.ExtCommunity = nil
		}
		if noop(a.LargeCommunity) {
			a.LargeCommunity = nil
		}
		if sent {
			c18sCanonAction(api.DefinedType_DEFINED_TYPE_COMMUNITY, a.Community)
			c18sCanonAction(api.DefinedType_DEFINED_TYPE_EXT_COMMUNITY, a.ExtCommunity)
			c18sCanonAction(api.DefinedType_DEFINED_TYPE_LARGE_COMMUNITY, a.LargeCommunity)
		}
	}
	return c
}

// c18sStDiff compares a sent statement with a listed one modulo the documented canonical forms and
// names the difference ("<leaf>" plus a value class where one leaf has several root causes).
func c18sStDiff(sent, got *api.Statement) (key, detail string) {
	leaf, det := c18sDiff(c18sCanonStatement(sent, true), c18sCanonStatement(got, false))
	if leaf == "" {
		return "", ""
	}
	switch leaf {
	case "CommunityAction.type":
		// which action?
		for _, p := range []struct {
			n    string
			s, g *api.CommunityAction
		}{{"community", sent.GetActions().GetCommunity(), got.GetActions().GetCommunity()}, {"ext-community", sent.GetActions().GetExtCommunity(), got.GetActions().GetExtCommunity()},
			{"large-community", sent.GetActions().GetLargeCommunity(), got.GetActions().GetLargeCommunity()}} {
			if p.s != nil && p.g != nil && p.s.Type != p.g.Type {
				return leaf + "(" + p.n + ")", det
			}
		}
	case "Statement.actions", "Actions.community", "Actions.ext_community", "Actions.large_community":
		for _, p := range []struct {
			n    string
			s, g *api.CommunityAction
		}{{"community", sent.GetActions().GetCommunity(), got.GetActions().GetCommunity()}, {"ext-community", sent.GetActions().GetExtCommunity(), got.GetActions().GetExtCommunity()},
			{"large-community", sent.GetActions().GetLargeCommunity(), got.GetActions().GetLargeCommunity()}} {
			if p.s != nil && p.s.Type == api.CommunityAction_TYPE_REPLACE && len(p.s.Communities) == 0 && p.g == nil {
				return "Actions." + p.n + "(replace-by-empty-list-not-listed)", det
			}
		}
	case "Statement.conditions", "Conditions.origin":
		if sent.GetConditions().GetOrigin() != got.GetConditions().GetOrigin() {
			return "Conditions.origin", det
		}
	case "MedAction.type":
		if sent.GetActions().GetMed().GetValue() < 0 {
			return leaf + "(replace-with-negative-value)", det
		}
	case "CommunityAction.communities":
		if strings.Contains(det, "65535:") {
			return leaf + "(as-number-above-65535)", det
		}
	}
	return leaf, det
}

// ---- defined sets: members are a set; literal members are stored as anchored patterns ----

func c18sSortSet(d *api.DefinedSet) *api.DefinedSet {
	c := proto.Clone(d).(*api.DefinedSet)
	sort.Strings(c.List)
	sort.SliceStable(c.Prefixes, func(i, j int) bool {
		a, b := c.Prefixes[i], c.Prefixes[j]
		if a.IpPrefix != b.IpPrefix {
			return a.IpPrefix < b.IpPrefix
		}
		if a.RtcPrefix != b.RtcPrefix {
			return a.RtcPrefix < b.RtcPrefix
		}
		if a.MaskLengthMin != b.MaskLengthMin {
			return a.MaskLengthMin < b.MaskLengthMin
		}
		return a.MaskLengthMax < b.MaskLengthMax
	})
	return c
}

var c18sLiteral = regexp.MustCompile(`^[0-9A-Za-z:._-]+$`)

var c18sWellKnown = map[string]string{ // RFC 1997 / RFC 3765 / RFC 8326 names accepted by gobgp
	"internet": "0:0", "no-export": "65535:65281", "no-advertise": "65535:65282", "no-export-subconfed": "65535:65283", "no-peer": "65535:65284",
}

// c18sCanonSet is the independent model of how a defined set is listed back (written from the
// documentation of policy defined sets: members are patterns; a literal is the pattern ^literal$).
func c18sCanonSet(d *api.DefinedSet) (*api.DefinedSet, bool) {
	c := proto.Clone(d).(*api.DefinedSet)
	changed := false
	for i, m := range c.List {
		o := m
		switch d.DefinedType {
		case api.DefinedType_DEFINED_TYPE_COMMUNITY:
			if c18sLiteral.MatchString(m) {
				if w, ok := c18sWellKnown[strings.ReplaceAll(strings.ToLower(m), "_", "-")]; ok {
					m = w
				} else if n, err := strconv.ParseUint(m, 10, 32); err == nil {
					m = fmt.Sprintf("%d:%d", n>>16, n&0xffff)
				}
				m = "^" + m + "$"
			}
		case api.DefinedType_DEFINED_TYPE_EXT_COMMUNITY:
			if k := strings.IndexByte(m, ':'); k > 0 && c18sLiteral.MatchString(m[k+1:]) {
				m = m[:k+1] + "^" + m[k+1:] + "$"
			}
		case api.DefinedType_DEFINED_TYPE_LARGE_COMMUNITY:
			if c18sLiteral.MatchString(m) {
				m = "^" + m + "$"
			}
		case api.DefinedType_DEFINED_TYPE_AS_PATH:
			// single-AS shortcuts (^N, N$, ^N$, _N_, N) are kept verbatim; elsewhere '_' is spelt out
			if !regexp.MustCompile(`^(\^|_)?[0-9]+(\$|_)?$`).MatchString(m) {
				m = strings.ReplaceAll(m, "_", "(^|[,{}() ]|$)")
			}
		}
		if m != o {
			changed = true
		}
		c.List[i] = m
	}
	s := c18sSortSet(c)
	if !proto.Equal(s, c) {
		changed = true
	}
	return s, changed
}

// ---------------------------------------------------------------------------------------------
// (c) paths: AddPath -> ListPath

type c18sPathCase struct {
	Name  string
	Fam   bgp.Family
	NLRI  bgp.NLRI
	Attrs []bgp.PathAttributeInterface // without the next-hop carrier
	NH    []netip.Addr
	ID    uint32
	Focus string // the attribute under test ("" = base)
}

func c18sHex(b []byte, err error) string {
	if err != nil {
		return "ERR:" + err.Error()
	}
	return hex.EncodeToString(b)
}

// does this native value survive the pure converters (codec part's business if not)?
func c18sNLRIPure(f bgp.Family, n bgp.NLRI) (ok bool) {
	ok = true
	if p := c18sTry(func() {
		a, err := apiutil.MarshalNLRI(n)
		if err != nil || a == nil || proto.Size(a) == 0 {
			ok = false
			return
		}
		n2, err := apiutil.UnmarshalNLRI(f, a)
		if err != nil || n2 == nil || reflect.ValueOf(n2).IsNil() {
			ok = false
			return
		}
		if c18sHex(n.Serialize()) != c18sHex(n2.Serialize()) {
			ok = false
		}
	}); p != "" {
		ok = false
	}
	return
}

func c18sAttrPure(a bgp.PathAttributeInterface) (ok bool) {
	ok = true
	if p := c18sTry(func() {
		l, err := apiutil.MarshalPathAttributes([]bgp.PathAttributeInterface{a})
		if err != nil || len(l) != 1 || proto.Size(l[0]) == 0 {
			ok = false
			return
		}
		b, err := apiutil.UnmarshalPathAttributes(l)
		if err != nil || len(b) != 1 {
			ok = false
			return
		}
		if c18sHex(a.Serialize()) != c18sHex(b[0].Serialize()) {
			ok = false
		}
	}); p != "" {
		ok = false
	}
	return
}

func c18sBaseAttrs() []bgp.PathAttributeInterface {
	return []bgp.PathAttributeInterface{
		bgp.NewPathAttributeOrigin(0),
		bgp.NewPathAttributeAsPath([]bgp.AsPathParamInterface{bgp.NewAs4PathParam(bgp.BGP_ASPATH_ATTR_TYPE_SEQ, []uint32{65001, 4200000000})}),
	}
}

func c18sNextHops(f bgp.Family) [][]netip.Addr {
	l := bgpgen.NextHopsFor(f)
	var out [][]netip.Addr
	for _, nh := range l {
		if nh == nil && f == bgp.RF_OPAQUE {
			// AddPath requires a next hop for every family but FlowSpec ("nexthop not found")
			out = append(out, []netip.Addr{netip.MustParseAddr("192.0.2.1")})
		} else if nh == nil {
			out = append(out, nil)
		} else {
			out = append(out, nh)
		}
	}
	return out
}

func c18sPaths(t *testing.T, r *vr.Report, only c18sCase) {
	type famCases struct {
		fam   bgp.Family
		cases []c18sPathCase
	}
	var all []famCases
	nSkipN, nSkipA := 0, 0
	total := 0
	for _, f := range bgpgen.Families() {
		fc := famCases{fam: f}
		nhs := c18sNextHops(f)
		nl := bgpgen.NLRIs(f)
		// every NLRI x every path identifier x first next hop; first NLRI x every next-hop form
		var first bgpgen.NLRI
		for i, n := range nl {
			if !c18sNLRIPure(f, n.NLRI) {
				nSkipN++
				continue
			}
			if first.NLRI == nil {
				first = n
			}
			for _, id := range []uint32{0, 1, 0xffffffff} {
				fc.cases = append(fc.cases, c18sPathCase{Name: fmt.Sprintf("%s id=%d nh=%v", n.Name, id, nhs[0]), Fam: f, NLRI: n.NLRI, Attrs: c18sBaseAttrs(), NH: nhs[0], ID: id})
			}
			if i == 0 {
				for _, nh := range nhs[1:] {
					fc.cases = append(fc.cases, c18sPathCase{Name: fmt.Sprintf("%s id=0 nh=%v", n.Name, nh), Fam: f, NLRI: n.NLRI, Attrs: c18sBaseAttrs(), NH: nh, ID: 0})
				}
			}
		}
		// every catalogue attribute on the first NLRI of ipv4-unicast and ipv6-unicast
		if (f == bgp.RF_IPv4_UC || f == bgp.RF_IPv6_UC || vr.Thorough()) && len(fc.cases) > 0 {
			bs := bgpgen.AttributeBuilders()
			for _, b := range bs {
				if b.AS == bgpgen.AS2 || strings.HasSuffix(b.Kind, "2") {
					continue
				}
				a := b.Build()
				switch a.GetType() {
				case bgp.BGP_ATTR_TYPE_MP_REACH_NLRI, bgp.BGP_ATTR_TYPE_MP_UNREACH_NLRI, bgp.BGP_ATTR_TYPE_NEXT_HOP:
					continue
				}
				if !c18sAttrPure(b.Build()) {
					nSkipA++
					continue
				}
				attrs := []bgp.PathAttributeInterface{}
				for _, ba := range c18sBaseAttrs() {
					if ba.GetType() != a.GetType() {
						attrs = append(attrs, ba)
					}
				}
				attrs = append(attrs, a)
				fc.cases = append(fc.cases, c18sPathCase{Name: fmt.Sprintf("%s attr=%s", first.Name, b.Name), Fam: f, NLRI: first.NLRI, Attrs: attrs, NH: nhs[0], ID: 0, Focus: b.Kind})
			}
		}
		total += len(fc.cases)
		all = append(all, fc)
	}
	r.Bounds["paths"] = fmt.Sprintf("%d AddPath+ListPath+DeletePath round trips: every bgpgen NLRI of all 26 families x path identifier {0,1,2^32-1} with ORIGIN+AS_PATH and the family's first next-hop form, "+
		"the first NLRI of each family x every next-hop form of bgpgen.NextHopsFor, and every catalogue path attribute (4-octet forms; not NEXT_HOP/MP_*) on one ipv4-unicast and one ipv6-unicast NLRI (thorough: on one NLRI of every family); "+
		"%d NLRI and %d attributes that already fail the pure converters (codec part) are left out", total, nSkipN, nSkipA)

	for _, fc := range all {
		fc := fc
		if only.Section != "" && (only.Section != "path" || !strings.HasPrefix(only.Name, fc.fam.String()+"/")) {
			continue
		}
		pn := c18sRun(t, r, func(g *api.Global) {
			for i := 0; i < len(oc.IntToAfiSafiTypeMap); i++ { // api.Global.families are indices of oc.IntToAfiSafiTypeMap
				g.Families = append(g.Families, uint32(i))
			}
		}, func(x *c18sWorld) {
			for _, c := range fc.cases {
				if only.Section != "" && c.Name != only.Name {
					continue
				}
				c18sOnePath(x, c)
			}
		})
		if pn != "" {
			r.Violationf("C18:path:harness-goroutine-panic:"+c18sSite(pn), c18sCase{"path", fc.fam.String()}, "%s: %s", fc.fam, pn)
		}
	}
}

func c18sNextHopAttrs(c c18sPathCase) (native []bgp.PathAttributeInterface, err error) {
	if c.Fam == bgp.RF_IPv4_UC && len(c.NH) == 1 && c.NH[0].Is4() {
		a, err := bgp.NewPathAttributeNextHop(c.NH[0])
		return []bgp.PathAttributeInterface{a}, err
	}
	a, err := bgp.NewPathAttributeMpReachNLRI(c.Fam, []bgp.PathNLRI{{NLRI: c.NLRI}}, c.NH...)
	if err != nil {
		return nil, err
	}
	return []bgp.PathAttributeInterface{a}, nil
}

// next hops of a listed path, as strings
func c18sListedNextHops(attrs []bgp.PathAttributeInterface) []string {
	var out []string
	for _, a := range attrs {
		switch v := a.(type) {
		case *bgp.PathAttributeNextHop:
			out = append(out, v.Value.String())
		case *bgp.PathAttributeMpReachNLRI:
			if v.Nexthop.IsValid() {
				out = append(out, v.Nexthop.String())
			}
			if v.LinkLocalNexthop.IsValid() {
				out = append(out, v.LinkLocalNexthop.String())
			}
		}
	}
	return out
}

func c18sOnePath(x *c18sWorld, c c18sPathCase) {
	r := x.r
	r.Eval()
	cs := c18sCase{"path", c.Name}
	kfam := c.Fam.String()
	nha, err := c18sNextHopAttrs(c)
	if err != nil {
		r.Outcome("path:generator-cannot-build-next-hop-attribute")
		return
	}
	sentNative := append(append([]bgp.PathAttributeInterface{}, c.Attrs...), nha...)
	var ap *api.Path
	if p := c18sTry(func() { ap, err = apiutil.NewPath(c.Fam, c.NLRI, false, sentNative, time.Unix(1, 0)) }); p != "" || err != nil {
		r.Outcome("path:native-to-api-failed(codec part)")
		return
	}
	ap.Identifier = c.ID
	sentAPI := proto.Clone(ap).(*api.Path)
	var resp *api.AddPathResponse
	if p := c18sTry(func() {
		resp, err = x.g.AddPath(x.ctx, &api.AddPathRequest{TableType: api.TableType_TABLE_TYPE_GLOBAL, Path: ap})
	}); p != "" {
		x.viol("C18:path:add-path-panic:"+c18sSite(p), cs, "%s: AddPath panicked: %s", c.Name, p)
		return
	}
	if err != nil {
		k := "C18:path:" + kfam + ":add-path-rejected:" + c18sErrClass(err)
		if c.Focus != "" {
			k = "C18:path:attr:" + c.Focus + ":add-path-rejected:" + c18sErrClass(err)
		}
		x.viol(k, cs, "%s: a path built by apiutil.NewPath from valid native values is rejected by AddPath: %v\n  path %v", c.Name, err, sentAPI)
		return
	}
	x.w.settle()
	defer func() {
		_, derr := x.g.DeletePath(x.ctx, &api.DeletePathRequest{TableType: api.TableType_TABLE_TYPE_GLOBAL, Uuid: resp.GetUuid()})
		if derr != nil {
			// fall back to deleting by value
			_, derr = x.g.DeletePath(x.ctx, &api.DeletePathRequest{TableType: api.TableType_TABLE_TYPE_GLOBAL, Path: sentAPI})
		}
		if derr != nil {
			x.viol("C18:path:delete-failed:"+kfam, cs, "%s: DeletePath: %v", c.Name, derr)
		}
		x.w.settle()
	}()
	var dsts []*api.Destination
	if p := c18sTry(func() {
		err = x.g.listPath(x.ctx, &api.ListPathRequest{TableType: api.TableType_TABLE_TYPE_GLOBAL, Family: c18sFamily(c.Fam)}, func(d *api.Destination) { dsts = append(dsts, d) })
	}); p != "" {
		x.viol("C18:path:list-path-panic:"+c18sSite(p), cs, "%s: ListPath panicked: %s", c.Name, p)
		return
	}
	if err != nil {
		x.viol("C18:path:"+kfam+":list-path-error", cs, "%s: %v", c.Name, err)
		return
	}
	var paths []*api.Path
	for _, d := range dsts {
		paths = append(paths, d.Paths...)
	}
	if len(paths) != 1 {
		x.viol("C18:path:"+kfam+":listed-count", cs, "%s: added one path, ListPath(%s) lists %d", c.Name, c.Fam, len(paths))
		return
	}
	got := paths[0]
	r.NT("path/" + c.Name)
	bad := false
	fail := func(key, format string, a ...any) {
		bad = true
		x.viol(key, cs, format, a...)
	}
	// prefix
	if dsts[0].Prefix != c.NLRI.String() {
		fail("C18:path:"+kfam+":destination-prefix-string", "%s: destination prefix %q, NLRI %q", c.Name, dsts[0].Prefix, c.NLRI.String())
	}
	var gn bgp.NLRI
	var ga []bgp.PathAttributeInterface
	if p := c18sTry(func() {
		gn, err = apiutil.GetNativeNlri(got)
		if err == nil {
			ga, err = apiutil.GetNativePathAttributes(got)
		}
	}); p != "" || err != nil {
		fail("C18:path:"+kfam+":listed-path-not-convertible", "%s: %v %v\n  listed %v", c.Name, p, err, got)
		return
	}
	if s, g := c18sHex(c.NLRI.Serialize()), c18sHex(gn.Serialize()); s != g {
		fail("C18:path:"+kfam+":nlri-bytes-differ", "%s: NLRI %s listed back as %s (%s -> %s)", c.Name, s, g, c.NLRI, gn)
	}
	if !proto.Equal(sentAPI.Nlri, got.Nlri) {
		fail("C18:path:"+kfam+":nlri-api-differs", "%s: nlri %v listed back as %v", c.Name, sentAPI.Nlri, got.Nlri)
	}
	if got.Identifier != c.ID {
		fail("C18:path:identifier-differs", "%s: identifier %d listed back as %d (local_identifier %d)", c.Name, c.ID, got.Identifier, got.LocalIdentifier)
	}
	if !proto.Equal(got.Family, sentAPI.Family) {
		fail("C18:path:family-differs", "%s: %v -> %v", c.Name, sentAPI.Family, got.Family)
	}
	// attributes by type
	byType := map[bgp.BGPAttrType]bgp.PathAttributeInterface{}
	for _, a := range ga {
		byType[a.GetType()] = a
	}
	for _, a := range c.Attrs {
		g, ok := byType[a.GetType()]
		tn := strings.TrimPrefix(reflect.TypeOf(a).String(), "*bgp.")
		if c.Focus != "" && a.GetType() != c.Attrs[len(c.Attrs)-1].GetType() {
			tn += "(base)"
		}
		if !ok {
			fail("C18:path:attr-not-listed:"+tn, "%s: attribute %s was added but is not listed\n  listed %v", c.Name, a, got.Pattrs)
			continue
		}
		if s, gg := c18sHex(a.Serialize()), c18sHex(g.Serialize()); s != gg {
			fail("C18:path:attr-bytes-differ:"+tn, "%s: attribute %s listed back as %s\n  %s\n  %s", c.Name, a, g, s, gg)
		}
		delete(byType, a.GetType())
	}
	for ty := range byType {
		if ec, ok := byType[ty].(*bgp.PathAttributeExtendedCommunities); ok && len(ec.Value) == 1 {
			if _, ok := ec.Value[0].(*bgp.ESImportRouteTarget); ok {
				if ev, ok := c.NLRI.(*bgp.EVPNNLRI); ok && ev.RouteType == bgp.EVPN_ETHERNET_SEGMENT_ROUTE {
					r.Outcome("path:deliberate: the ES-Import route target of an EVPN Ethernet Segment route is derived from the ESI when absent (server.go fixupApiPath, RFC 7432 7.6)")
					continue
				}
			}
		}
		if ty != bgp.BGP_ATTR_TYPE_NEXT_HOP && ty != bgp.BGP_ATTR_TYPE_MP_REACH_NLRI {
			fail("C18:path:attr-invented:"+ty.String(), "%s: listed path carries %s that was not added", c.Name, byType[ty])
		}
	}
	// next hop (value comparison; the carrier attribute is chosen by the daemon)
	var want []string
	for _, a := range c.NH {
		want = append(want, a.String())
	}
	gotNH := c18sListedNextHops(ga)
	sort.Strings(want)
	gs := append([]string{}, gotNH...)
	sort.Strings(gs)
	if len(want) > 0 && !reflect.DeepEqual(want, gs) {
		shape := fmt.Sprintf("%d-next-hops", len(want))
		if len(want) == 1 && c.NH[0].Is6() && c.Fam.Afi() != bgp.AFI_IP6 {
			shape = "ipv6-next-hop-for-non-ipv6-family"
		}
		fail("C18:path:next-hop-differs:"+shape, "%s: next hops %v listed back as %v", c.Name, want, gotNH)
	}
	if !bad {
		r.Outcome("path:listed-back-equal")
	}
}

// ---------------------------------------------------------------------------------------------

func TestVerif_C18_Server(t *testing.T) {
	r := vr.Start(t, "C18", "server")
	defer r.Finish()
	r.Rule = "every enumerated API object is added through the function the gRPC handler calls on a real, network-less daemon and listed back; " +
		"non-trivial = the object was accepted and found by the List call (the comparison was evaluated)"
	var only c18sCase
	if r.ReplayPath() != "" {
		if err := r.LoadReplay(&only); err != nil {
			t.Fatalf("ENGINE-ERROR replay: %v", err)
		}
	}
	if only.Section == "" || only.Section == "peer" {
		c18sPeers(t, r, only.Name)
	}
	if only.Section == "" || only.Section == "defined-set" || only.Section == "statement" || only.Section == "assignment" {
		c18sPolicy(t, r, only)
	}
	if only.Section == "" || only.Section == "path" {
		c18sPaths(t, r, only)
	}
}
