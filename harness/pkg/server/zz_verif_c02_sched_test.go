//go:build verifshim

package server

import (
	"fmt"
	"testing"
	"time"

	"github.com/osrg/gobgp/v4/internal/pkg/table"
	"github.com/osrg/gobgp/v4/internal/verif/vr"
	"github.com/osrg/gobgp/v4/pkg/apiutil"
	"github.com/osrg/gobgp/v4/pkg/config/oc"
	"github.com/osrg/gobgp/v4/pkg/packet/bgp"
)

// C02, schedule part: the RIBs stay consistent with the sessions under interleavings of a peer's
// receive goroutine with its own removal / session loss.

func init() {
	rs := &simRoutesScenario{}
	ann := func(w *schedWorld, bot, pfx, variant int) *bgp.BGPMessage {
		return rs.updateMsg(w.bots[bot], pfx, variant, 0, false)
	}
	// s1: DeletePeer (management thread) vs an in-flight UPDATE of that peer
	schedScenarios["c02.s1"] = &schedScenario{Name: "c02.s1",
		Setup: func(w *schedWorld) []schedThread {
			c01SchedBots(w, 3)
			for _, b := range w.bots {
				w.establish(b)
			}
			w.settleSetup()
			p0 := w.peer(w.bots[0])
			return []schedThread{
				{"mgmt-deletepeer-e0", func() {
					_ = w.mgmt(func() error {
						return w.s.deleteNeighbor(&oc.Neighbor{Config: oc.NeighborConfig{NeighborAddress: w.bots[0].addr()}}, bgp.BGP_ERROR_CEASE, bgp.BGP_ERROR_SUB_PEER_DECONFIGURED, false)
					})
				}},
				{"recv-e0", func() { w.receiveOn(p0, w.bots[0], ann(w, 0, 0, 0)) }},
			}
		},
		Check: func(w *schedWorld) { c02SchedCheck(w, "s1") }}
	// s1r: the peer is deleted AND re-added under one hold of the management lock (what UpdatePeer /
	// UpdatePeerGroup do for a session-resetting change) while an UPDATE of the old session waits
	schedScenarios["c02.s1r"] = &schedScenario{Name: "c02.s1r",
		Setup: func(w *schedWorld) []schedThread {
			c01SchedBots(w, 3)
			for _, b := range w.bots {
				w.establish(b)
			}
			w.settleSetup()
			p0 := w.peer(w.bots[0])
			return []schedThread{
				{"mgmt-replace-peer-e0", func() {
					_ = w.mgmt(func() error {
						if err := w.s.deleteNeighbor(&oc.Neighbor{Config: oc.NeighborConfig{NeighborAddress: w.bots[0].addr()}}, bgp.BGP_ERROR_CEASE, bgp.BGP_ERROR_SUB_OTHER_CONFIGURATION_CHANGE, false); err != nil {
							return err
						}
						return w.s.addNeighbor(w.defaultNeighbor(w.bots[0].spec))
					})
				}},
				{"recv-e0-old-session", func() { w.receiveOn(p0, w.bots[0], ann(w, 0, 0, 0)) }},
			}
		},
		Check: func(w *schedWorld) {
			if p := w.peer(w.bots[0]); p != nil {
				w.everPeer = append(w.everPeer, p)
			}
			c02SchedCheck(w, "s1r")
		}}
	// (a session's own receive loop never overlaps the state-change callback that ends that session:
	// established() joins the receive goroutine before it returns — so that pair is not a scenario.)
	// s2: DeletePeer of one source (management thread) vs an UPDATE for the same prefix from another
	schedScenarios["c02.s2"] = &schedScenario{Name: "c02.s2",
		Setup: func(w *schedWorld) []schedThread {
			c01SchedBots(w, 3)
			for _, b := range w.bots {
				w.establish(b)
			}
			w.receive(w.bots[0], ann(w, 0, 0, 0))
			w.settleSetup()
			return []schedThread{
				{"mgmt-deletepeer-e0", func() {
					_ = w.mgmt(func() error {
						return w.s.deleteNeighbor(&oc.Neighbor{Config: oc.NeighborConfig{NeighborAddress: w.bots[0].addr()}}, bgp.BGP_ERROR_CEASE, bgp.BGP_ERROR_SUB_PEER_DECONFIGURED, false)
					})
				}},
				{"recv-e1", func() { w.receive(w.bots[1], ann(w, 1, 0, 1)) }},
			}
		},
		Check: func(w *schedWorld) { c02SchedCheck(w, "s2") }}
	// s4: a locally injected route (management thread) vs an UPDATE for the same prefix
	schedScenarios["c02.s4"] = &schedScenario{Name: "c02.s4",
		Setup: func(w *schedWorld) []schedThread {
			c01SchedBots(w, 3)
			for _, b := range w.bots {
				w.establish(b)
			}
			w.settleSetup()
			attrs, fam, nlri := rs.attrs(nil, 0, 0)
			return []schedThread{
				{"mgmt-addpath", func() {
					_ = w.mgmt(func() error {
						path, err := apiutil2Path(&apiutil.Path{Family: fam, Nlri: nlri, Attrs: attrs}, false)
						if err != nil {
							return err
						}
						return w.s.addPathList("", []*table.Path{path})
					})
				}},
				{"recv-e0", func() { w.receive(w.bots[0], ann(w, 0, 0, 1)) }},
			}
		},
		Check: func(w *schedWorld) {
			c02SchedCheck(w, "s4")
			if n := len(w.ribDump(w.s.globalRib)); n != 2 {
				w.violate("C02:sched:s4:lost-update", "a local route and a peer route for one prefix: the Loc-RIB holds %d paths instead of 2", n)
			}
		}}
	// s3: two sources announcing different prefixes that share nothing but the table
	schedScenarios["c02.s3"] = &schedScenario{Name: "c02.s3",
		Setup: func(w *schedWorld) []schedThread {
			c01SchedBots(w, 3)
			for _, b := range w.bots {
				w.establish(b)
			}
			w.settleSetup()
			return []schedThread{
				{"recv-e0", func() { w.receive(w.bots[0], ann(w, 0, 0, 0), ann(w, 0, 1, 0)) }},
				{"recv-e1", func() { w.receive(w.bots[1], ann(w, 1, 1, 1), ann(w, 1, 0, 1)) }},
			}
		},
		Check: func(w *schedWorld) {
			c02SchedCheck(w, "s3")
			if n := len(w.ribDump(w.s.globalRib)); n != 4 {
				w.violate("C02:sched:s3:lost-update", "two peers announced two prefixes each; the Loc-RIB holds %d paths instead of 4: %v", n, fmt.Sprint(w.ribDump(w.s.globalRib)))
			}
		}}
}

func TestVerif_C02_Sched(t *testing.T) {
	r := vr.Start(t, "C02", "sched")
	defer r.Finish()
	r.Rule = "stateless DFS over thread interleavings at every lock / atomic / sync.Map operation (iterative context bounding); threads = a peer's real receive loop vs the management critical section deleting that peer / the FSM loop tail ending its session / another peer's receive loop; each complete execution checked (no route from an ended session or removed peer in any RIB, no lost update, views == export); non-trivial = distinct final daemon state"
	r.Assumptions = append(r.Assumptions, "scheduling points at synchronisation operations only", "RWMutex writer preference is not modelled")
	if r.ReplayPath() != "" {
		var rp schedReplay
		if err := r.LoadReplay(&rp); err != nil {
			t.Fatal(err)
		}
		schedReplayOne(t, r, rp)
		return
	}
	bound, budget := 1, 60*time.Second
	if vr.Thorough() {
		bound, budget = 2, 10*time.Minute
	}
	names := []string{"c02.s1", "c02.s1r", "c02.s4"}
	if vr.Thorough() {
		names = []string{"c02.s1", "c02.s1r", "c02.s2", "c02.s3", "c02.s4"}
	}
	for _, name := range names {
		schedExploreSharded(t, r, name, bound, 1, budget)
	}
}
