#!/bin/bash
# seed_suite.sh <prop> <variant>: run the repository's own tests with the seeded change applied (scratch worktree), under the machine lock.
P=$1; V=$2
SRC=${SEED_ROOT:-/tmp/mut/out}/$P/$V; WT=/tmp/seedsuite-$P$V; LOG=/tmp/seedeval/$P$V; mkdir -p $LOG
export GOFLAGS=-mod=mod GOPROXY=off; mkdir -p /tmp/mut
git -C /repo worktree remove --force $WT >/dev/null 2>&1
git -C /repo worktree add -q --detach $WT HEAD || exit 2
cd $WT && git apply $SRC/patch.diff || { echo "$P$V: patch does not apply"; exit 3; }
go test -vet=off -count=1 ./internal/pkg/table/ ./pkg/packet/... ./pkg/apiutil/ ./pkg/config/... ./pkg/zebra/ > $LOG/suite_other.log 2>&1; r1=$?
flock /tmp/mut/server-test.lock go test -vet=off -count=1 -timeout 25m ./pkg/server/ > $LOG/suite_server.log 2>&1; r2=$?
if [ $r2 -ne 0 ]; then flock /tmp/mut/server-test.lock go test -vet=off -count=1 -timeout 25m ./pkg/server/ > $LOG/suite_server_retry.log 2>&1; r2=$?; fi
echo "$P$V: existing suite other_rc=$r1 server_rc=$r2" | tee $LOG/suite.sum
cd /; git -C /repo worktree remove --force $WT
