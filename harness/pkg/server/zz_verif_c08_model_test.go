package server

// C08 — shared pieces of both parts: the factor domains, the raw (hand-assembled, gobgp-free) message
// builders of the scripted remote speaker, the mapping of a case to the reference model's input and
// the deterministic t-way covering-array generator. The reference model itself is the plain-Go package
// internal/verif/refnegotiate (no gobgp imports).

import (
	"encoding/binary"
	"fmt"
	"net/netip"
	"sort"

	rn "github.com/osrg/gobgp/v4/internal/verif/refnegotiate"
	"github.com/osrg/gobgp/v4/pkg/config/oc"
)

// ---------------------------------------------------------------------------------------------
// factors

// c08Local is the server-side neighbour configuration of one case.
type c08Local struct {
	Fams   int    `json:"fams"` // bit0 ipv4-unicast, bit1 ipv6-unicast (1..3)
	AP4    int    `json:"ap4"`  // ADD-PATH configuration of ipv4-unicast: 0 none, 1 receive, 2 send-max 2, 3 both
	AP6    int    `json:"ap6"`
	Hold   int    `json:"hold"`
	KA     int    `json:"ka"` // 0 = keepalive-interval not configured
	AS     uint32 `json:"as"`
	PeerAs bool   `json:"peer_as"` // peer-as configured (true) or 0 = learnt from the OPEN (false)
}

// c08Remote is the OPEN the scripted remote speaker sends.
type c08Remote struct {
	Hold   int  `json:"hold"`
	ASForm int  `json:"as_form"`
	MP     int  `json:"mp"`
	AP     int  `json:"ap"`
	Ext    bool `json:"ext"`
	Unk    bool `json:"unk"`
}

type c08Case struct {
	L c08Local  `json:"local"`
	R c08Remote `json:"remote"`
}

func (c c08Case) String() string {
	return fmt.Sprintf("local{fams=%s ap4=%d ap6=%d hold=%d ka=%d as=%d peer-as-configured=%v} remote{hold=%d as=%s mp=%s addpath=%s ext=%v unknown=%v}",
		[]string{"", "v4", "v6", "v4+v6"}[c.L.Fams], c.L.AP4, c.L.AP6, c.L.Hold, c.L.KA, c.L.AS, c.L.PeerAs,
		c.R.Hold, c08ASFormNames[c.R.ASForm], c08MPNames[c.R.MP], c08APNames[c.R.AP], c.R.Ext, c.R.Unk)
}

var (
	c08LocalHolds  = []int{3, 9, 90}
	c08LocalKAs    = []int{0, 1, 30}
	c08LocalASs    = []uint32{65000, 4200000000}
	c08RemoteHolds = []int{0, 3, 10, 65535, 1, 2} // the last two are refused

	c08ASFormNames = []string{"2byte+cap", "AS_TRANS+cap(4-byte AS)", "2byte-without-cap", "local-AS+cap", "local-AS-without-cap", "MyAS=65000+cap(4200000001)"}
	c08MPNames     = []string{"none", "v4", "v6", "v4+v6", "v4,v4"}
	c08APNames     = []string{"absent", "v4:receive", "v4:send", "v4:both", "one cap [v4:receive,v4:send]", "two caps [v4:send][v4:receive]", "v6:both", "one cap [v4:both,v6:both]"}
)

// c08FamAP lists the valid (families, ap4, ap6) configurations: the ADD-PATH mode of a family that is
// not configured does not exist.
func c08FamAP() [][3]int {
	var r [][3]int
	for fams := 1; fams <= 3; fams++ {
		for a4 := 0; a4 < 4; a4++ {
			for a6 := 0; a6 < 4; a6++ {
				if fams&1 == 0 && a4 != 0 || fams&2 == 0 && a6 != 0 {
					continue
				}
				r = append(r, [3]int{fams, a4, a6})
			}
		}
	}
	return r
}

// ---------------------------------------------------------------------------------------------
// remote speaker: raw bytes

const (
	c08RemoteAS2 = 65001
	c08RemoteAS4 = 4200000001
)

var (
	c08RemoteID = [4]byte{1, 1, 1, 1}
	c08BotIP    = [4]byte{10, 0, 0, 1}
	c08ServerID = [4]byte{10, 0, 0, 254}
)

// c08RemoteASOf returns (My Autonomous System field, 4-octet capability value or nil, real AS).
func c08RemoteASOf(form int, localAS uint32) (uint16, *uint32, uint32) {
	u := func(v uint32) *uint32 { return &v }
	two := func(v uint32) uint16 {
		if v > 65535 {
			return rn.ASTrans
		}
		return uint16(v)
	}
	switch form {
	case 0:
		return c08RemoteAS2, u(c08RemoteAS2), c08RemoteAS2
	case 1:
		return rn.ASTrans, u(c08RemoteAS4), c08RemoteAS4
	case 2:
		return c08RemoteAS2, nil, c08RemoteAS2
	case 3:
		return two(localAS), u(localAS), localAS
	case 4:
		// without the capability the My-AS field IS the AS: for a 4-octet local AS this is a speaker whose AS is 23456
		return two(localAS), nil, uint32(two(localAS))
	case 5:
		return 65000, u(c08RemoteAS4), c08RemoteAS4
	}
	panic("as form")
}

func c08MPCap(f rn.Family) rn.Cap {
	return rn.Cap{Code: rn.CapMultiProtocol, Value: []byte{byte(f.AFI >> 8), byte(f.AFI), 0, f.SAFI}}
}

func c08APCap(t ...rn.APTuple) rn.Cap {
	var v []byte
	for _, x := range t {
		v = append(v, byte(x.F.AFI>>8), byte(x.F.AFI), x.F.SAFI, x.Mode)
	}
	return rn.Cap{Code: rn.CapAddPath, Value: v}
}

func c08U32(v uint32) []byte {
	b := make([]byte, 4)
	binary.BigEndian.PutUint32(b, v)
	return b
}

var c08UnknownCap = rn.Cap{Code: 200, Value: []byte{0xde, 0xad, 0x01}}

// c08RemoteCaps lists the capabilities of the remote OPEN, in wire order.
func c08RemoteCaps(r c08Remote, cap4 *uint32) []rn.Cap {
	var caps []rn.Cap
	switch r.MP {
	case 1:
		caps = append(caps, c08MPCap(rn.V4))
	case 2:
		caps = append(caps, c08MPCap(rn.V6))
	case 3:
		caps = append(caps, c08MPCap(rn.V4), c08MPCap(rn.V6))
	case 4:
		caps = append(caps, c08MPCap(rn.V4), c08MPCap(rn.V4))
	}
	caps = append(caps, rn.Cap{Code: rn.CapRouteRefresh})
	if cap4 != nil {
		caps = append(caps, rn.Cap{Code: rn.CapFourOctetAS, Value: c08U32(*cap4)})
	}
	if r.Ext {
		caps = append(caps, rn.Cap{Code: rn.CapExtMessage})
	}
	switch r.AP {
	case 1, 2, 3:
		caps = append(caps, c08APCap(rn.APTuple{F: rn.V4, Mode: uint8(r.AP)}))
	case 4:
		caps = append(caps, c08APCap(rn.APTuple{F: rn.V4, Mode: rn.APReceive}, rn.APTuple{F: rn.V4, Mode: rn.APSend}))
	case 5:
		caps = append(caps, c08APCap(rn.APTuple{F: rn.V4, Mode: rn.APSend}), c08APCap(rn.APTuple{F: rn.V4, Mode: rn.APReceive}))
	case 6:
		caps = append(caps, c08APCap(rn.APTuple{F: rn.V6, Mode: rn.APBoth}))
	case 7:
		caps = append(caps, c08APCap(rn.APTuple{F: rn.V4, Mode: rn.APBoth}, rn.APTuple{F: rn.V6, Mode: rn.APBoth}))
	}
	if r.Unk {
		caps = append(caps, c08UnknownCap)
	}
	return caps
}

func c08Header(length int, typ uint8) []byte {
	b := make([]byte, 19)
	for i := 0; i < 16; i++ {
		b[i] = 0xff
	}
	binary.BigEndian.PutUint16(b[16:18], uint16(length))
	b[18] = typ
	return b
}

// c08OpenBytes assembles an OPEN. split=false: all capabilities in one optional parameter; true: one
// optional parameter per capability (both are legal, RFC 5492 section 4).
func c08OpenBytes(myAS uint16, hold uint16, id [4]byte, caps []rn.Cap, split bool) []byte {
	var params []byte
	var one []byte
	for _, c := range caps {
		tlv := append([]byte{c.Code, byte(len(c.Value))}, c.Value...)
		if split {
			params = append(params, 2, byte(len(tlv)))
			params = append(params, tlv...)
		} else {
			one = append(one, tlv...)
		}
	}
	if !split && len(one) > 0 {
		params = append([]byte{2, byte(len(one))}, one...)
	}
	if len(params) > 255 {
		panic("c08: optional parameters too long")
	}
	body := []byte{4, byte(myAS >> 8), byte(myAS), byte(hold >> 8), byte(hold)}
	body = append(body, id[:]...)
	body = append(body, byte(len(params)))
	body = append(body, params...)
	return append(c08Header(19+len(body), 1), body...)
}

func c08KeepaliveBytes() []byte { return c08Header(19, 4) }

type c08Upd struct {
	Fam      rn.Family
	PathID   *uint32
	ASPath   []uint32
	FourByte bool
	Internal bool
	Prefix   netip.Prefix
	Total    int // pad the message to exactly this many octets with an unrecognised optional transitive attribute (0 = no padding)
}

func c08Attr(flags, typ uint8, val []byte) []byte {
	if len(val) > 255 || flags&0x10 != 0 {
		return append([]byte{flags | 0x10, typ, byte(len(val) >> 8), byte(len(val))}, val...)
	}
	return append([]byte{flags, typ, byte(len(val))}, val...)
}

// c08UpdateBytes assembles an UPDATE announcing one prefix under the given (reference) session options.
func c08UpdateBytes(u c08Upd) []byte {
	var nlri []byte
	if u.PathID != nil {
		nlri = append(nlri, c08U32(*u.PathID)...)
	}
	bits := u.Prefix.Bits()
	nlri = append(nlri, byte(bits))
	nlri = append(nlri, u.Prefix.Addr().AsSlice()[:(bits+7)/8]...)

	var attrs []byte
	attrs = append(attrs, c08Attr(0x40, 1, []byte{0})...)
	var ap []byte
	if len(u.ASPath) > 0 {
		ap = append(ap, 2, byte(len(u.ASPath)))
		for _, a := range u.ASPath {
			if u.FourByte {
				ap = append(ap, c08U32(a)...)
			} else {
				if a > 65535 {
					panic("c08: 4-octet AS in a 2-octet AS_PATH")
				}
				ap = append(ap, byte(a>>8), byte(a))
			}
		}
	}
	attrs = append(attrs, c08Attr(0x40, 2, ap)...)
	body2 := []byte{}
	if u.Fam == rn.V4 {
		attrs = append(attrs, c08Attr(0x40, 3, c08BotIP[:])...)
		body2 = nlri
	} else {
		nh := netip.MustParseAddr("2001:db8::1").AsSlice()
		v := []byte{0, 2, 1, 16}
		v = append(v, nh...)
		v = append(v, 0)
		v = append(v, nlri...)
		attrs = append(attrs, c08Attr(0x80, 14, v)...)
	}
	if u.Internal {
		attrs = append(attrs, c08Attr(0x40, 5, c08U32(100))...)
	}
	if u.Total > 0 {
		cur := 19 + 2 + 2 + len(attrs) + len(body2)
		pad := u.Total - cur - 4
		if pad < 0 {
			panic("c08: cannot pad")
		}
		attrs = append(attrs, c08Attr(0xc0|0x10, 250, make([]byte, pad))...)
	}
	body := []byte{0, 0, byte(len(attrs) >> 8), byte(len(attrs))}
	body = append(body, attrs...)
	body = append(body, body2...)
	return append(c08Header(19+len(body), 2), body...)
}

// ---------------------------------------------------------------------------------------------
// case -> reference model input, case -> server configuration

func c08Families(mask int) []rn.Family {
	var f []rn.Family
	if mask&1 != 0 {
		f = append(f, rn.V4)
	}
	if mask&2 != 0 {
		f = append(f, rn.V6)
	}
	return f
}

func c08RefLocal(l c08Local, remoteRealAS uint32) rn.Local {
	rl := rn.Local{AS: l.AS, RouterID: c08ServerID, Families: c08Families(l.Fams), AddPath: map[rn.Family]uint8{},
		Hold: uint16(l.Hold), Keepalive: uint16(l.KA)}
	if l.Fams&1 != 0 {
		rl.AddPath[rn.V4] = uint8(l.AP4)
	}
	if l.Fams&2 != 0 {
		rl.AddPath[rn.V6] = uint8(l.AP6)
	}
	if l.PeerAs {
		rl.PeerAS = remoteRealAS
	}
	return rl
}

// c08ApplyLocal writes the case's neighbour configuration into n (configuration keys only; every
// derived/state field is computed by gobgp's own SetDefaultNeighborConfigValues).
func c08ApplyLocal(n *oc.Neighbor, l c08Local, remoteRealAS uint32) {
	n.AfiSafis = nil
	add := func(name oc.AfiSafiType, mode int) {
		af := oc.AfiSafi{Config: oc.AfiSafiConfig{AfiSafiName: name, Enabled: true}}
		af.AddPaths.Config.Receive = mode&rn.APReceive != 0
		if mode&rn.APSend != 0 {
			af.AddPaths.Config.SendMax = 2
		}
		n.AfiSafis = append(n.AfiSafis, af)
	}
	if l.Fams&1 != 0 {
		add(oc.AFI_SAFI_TYPE_IPV4_UNICAST, l.AP4)
	}
	if l.Fams&2 != 0 {
		add(oc.AFI_SAFI_TYPE_IPV6_UNICAST, l.AP6)
	}
	n.Timers.Config.HoldTime = float64(l.Hold)
	if l.KA != 0 {
		n.Timers.Config.KeepaliveInterval = float64(l.KA)
	}
	n.Config.PeerAs = 0
	if l.PeerAs {
		n.Config.PeerAs = remoteRealAS
	}
}

// ---------------------------------------------------------------------------------------------
// deterministic covering arrays

// c08Cover returns rows over the domains dom (row[i] in [0,dom[i])) such that for every set of t
// factors every combination of their values occurs in at least one row (a strength-t covering array).
// Greedy and deterministic: the next row is seeded with the first combination not yet covered and each
// remaining factor takes the value that covers the most combinations still missing (ties: lowest value
// index rotated by the row number). The returned count is the number of distinct t-way combinations.
func c08Cover(dom []int, t int) (rows [][]int, combos int) {
	n := len(dom)
	if t > n {
		t = n
	}
	// all t-subsets of factors
	var subsets [][]int
	var rec func(start int, cur []int)
	rec = func(start int, cur []int) {
		if len(cur) == t {
			subsets = append(subsets, append([]int{}, cur...))
			return
		}
		for i := start; i < n; i++ {
			rec(i+1, append(cur, i))
		}
	}
	rec(0, nil)
	bymask := map[int]int{}
	covered := make([][]bool, len(subsets))
	remaining := make([]int, len(subsets))
	for i, s := range subsets {
		m, size := 0, 1
		for _, f := range s {
			m |= 1 << f
			size *= dom[f]
		}
		bymask[m] = i
		covered[i] = make([]bool, size)
		remaining[i] = size
		combos += size
	}
	index := func(s []int, row []int) int {
		idx := 0
		for _, f := range s {
			idx = idx*dom[f] + row[f]
		}
		return idx
	}
	left := combos
	firstOpen := 0
	for left > 0 {
		for remaining[firstOpen] == 0 {
			firstOpen++
		}
		s := subsets[firstOpen]
		row := make([]int, n)
		for i := range row {
			row[i] = -1
		}
		// first uncovered combination of that subset
		ci := 0
		for covered[firstOpen][ci] {
			ci++
		}
		for k := len(s) - 1; k >= 0; k-- {
			row[s[k]] = ci % dom[s[k]]
			ci /= dom[s[k]]
		}
		assigned := append([]int{}, s...)
		for f := 0; f < n; f++ {
			if row[f] >= 0 {
				continue
			}
			// (t-1)-subsets of the assigned factors
			var subs [][]int
			var rec2 func(start int, cur []int)
			rec2 = func(start int, cur []int) {
				if len(cur) == t-1 {
					subs = append(subs, append([]int{}, cur...))
					return
				}
				for i := start; i < len(assigned); i++ {
					rec2(i+1, append(cur, assigned[i]))
				}
			}
			rec2(0, nil)
			sis := make([]int, len(subs))
			for i, sub := range subs {
				m := 1 << f
				for _, x := range sub {
					m |= 1 << x
				}
				sis[i] = bymask[m]
			}
			best, bestGain := 0, -1
			for k := 0; k < dom[f]; k++ {
				v := (k + len(rows)) % dom[f]
				row[f] = v
				gain := 0
				for _, si := range sis {
					if remaining[si] != 0 && !covered[si][index(subsets[si], row)] {
						gain++
					}
				}
				if gain > bestGain {
					best, bestGain = v, gain
				}
			}
			row[f] = best
			assigned = append(assigned, f)
			sort.Ints(assigned)
		}
		for si, s := range subsets {
			idx := index(s, row)
			if !covered[si][idx] {
				covered[si][idx] = true
				remaining[si]--
				left--
			}
		}
		rows = append(rows, row)
	}
	return rows, combos
}
