//go:build verifshim

package server

// E-SCHED: stateless exploration of thread interleavings at synchronisation operations.
// Threads are harness goroutines calling the daemon's real concurrent entry points in the roles its
// goroutines have (receive loop of a peer, FSM loop tail delivering a state change, management
// critical section). The sync / sync/atomic imports of pkg/server and internal/pkg/table are rewritten
// to the vsync / vatomic shims, which call the scheduler before every lock / atomic / sync.Map step.

import (
	"context"
	"encoding/json"
	"errors"
	"fmt"
	"io"
	"net"
	"os"
	"os/exec"
	"strconv"
	"strings"
	"sync"
	"testing"
	"testing/synctest"
	"time"

	"github.com/osrg/gobgp/v4/internal/pkg/table"
	"github.com/osrg/gobgp/v4/internal/verif/sched"
	"github.com/osrg/gobgp/v4/internal/verif/vr"
	"github.com/osrg/gobgp/v4/internal/verif/vsync"
	"github.com/osrg/gobgp/v4/pkg/packet/bgp"
)

// scriptConn: every byte available at once, then EOF; writes are discarded.
type scriptConn struct {
	*simConn
	buf []byte
}

func (c *scriptConn) Read(b []byte) (int, error) {
	if len(c.buf) == 0 {
		return 0, io.EOF
	}
	n := copy(b, c.buf)
	c.buf = c.buf[n:]
	return n, nil
}
func (c *scriptConn) Write(b []byte) (int, error)        { return len(b), nil }
func (c *scriptConn) Close() error                       { return nil }
func (c *scriptConn) SetDeadline(t time.Time) error      { return nil }
func (c *scriptConn) SetReadDeadline(t time.Time) error  { return nil }
func (c *scriptConn) SetWriteDeadline(t time.Time) error { return nil }

var _ net.Conn = (*scriptConn)(nil)

// schedWorld is a simWorld whose peers are driven by the harness instead of their FSM goroutines.
type schedWorld struct {
	*simWorld
	batches map[int][][]*table.Path      // per bot: batches drained from the peer's outgoing queue
	cancels map[*peer]context.CancelFunc // FSM contexts whose cancellation is deferred to teardown
	stopped map[*peer]bool
}

// freeze defers the cancellation of the peers' FSM goroutines (parked in Active, never used by the
// harness) to teardown: stopFSM during the scheduled phase must not wake a goroutine the explorer
// does not control. That the FSM was asked to stop is recorded.
func (w *schedWorld) freeze() {
	if w.stopped == nil {
		w.stopped = map[*peer]bool{}
	}
	for _, b := range w.bots {
		p := w.peer(b)
		if p == nil || p.fsm.h == nil {
			continue
		}
		if w.cancels == nil {
			w.cancels = map[*peer]context.CancelFunc{}
		}
		pp := p
		w.cancels[pp] = p.fsm.h.ctxCancel
		p.fsm.h.ctxCancel = func() { w.stopped[pp] = true }
	}
}

// thaw gives the peers their real cancel functions back; those whose FSM was asked to stop during the
// scheduled phase are stopped now.
func (w *schedWorld) thaw() {
	for p, c := range w.cancels {
		p.fsm.h.ctxCancel = c
		if w.stopped[p] {
			c()
		}
	}
	w.cancels = nil
	synctest.Wait()
}

func newSchedWorld(t *testing.T) *schedWorld {
	w := &simWorld{t: t}
	w.start()
	return &schedWorld{simWorld: w, batches: map[int][][]*table.Path{}}
}

// prepare gives the peer a transport connection and the bot's OPEN, as the FSM would have when it
// is about to move to Established.
func (w *schedWorld) prepare(b *simBot) {
	p := w.peer(b)
	srv, _ := simPipe(w.serverIP, b.spec.IP, 179, 40000+b.idx)
	raw, err := b.openMsg().Serialize()
	w.must(err)
	om, err := bgp.ParseBGPMessage(raw)
	w.must(err)
	p.fsm.lock.Lock()
	p.fsm.conn = &scriptConn{simConn: srv}
	p.fsm.recvOpen = om
	conf := p.fsm.pConf.ReadCopy()
	so := buildopen(p.fsm.gConf, &conf)
	p.fsm.lock.Unlock()
	b.setSessionOptions(so.Body.(*bgp.BGPOpen))
	b.mu.Lock()
	b.view = map[string]string{}
	b.mu.Unlock()
}

// stateChange is literally the tail of fsmHandler.loop for one transition.
func (w *schedWorld) stateChange(b *simBot, next bgp.FSMState, reason fsmStateReasonType) {
	p := w.peer(b)
	r := newfsmStateReason(reason, nil, nil)
	p.fsm.stateChange(next, r)
	p.fsm.h.callback(&fsmMsg{MsgType: fsmMsgStateChange, MsgData: next, StateReason: r})
	p.fsm.state.Store(next)
}

// stateChangeOn is stateChange for a captured peer object: a thread that plays the FSM goroutine of a peer
// acts on THAT peer, whoever holds its address by the time the thread runs, and - like fsmHandler.loop, which
// tests ctx.Err() before the callback - does nothing once the peer's FSM has been asked to stop.
func (w *schedWorld) stateChangeOn(p *peer, next bgp.FSMState, reason fsmStateReasonType) {
	if p == nil || w.stopped[p] {
		return
	}
	r := newfsmStateReason(reason, nil, nil)
	p.fsm.stateChange(next, r)
	p.fsm.h.callback(&fsmMsg{MsgType: fsmMsgStateChange, MsgData: next, StateReason: r})
	p.fsm.state.Store(next)
}

func (w *schedWorld) establish(b *simBot) {
	w.prepare(b)
	w.stateChange(b, bgp.BGP_FSM_ESTABLISHED, fsmOpenMsgNegotiated)
}

// receive runs the peer's real receive loop over the given messages (then EOF).
func (w *schedWorld) receive(b *simBot, msgs ...*bgp.BGPMessage) {
	w.receiveOn(w.peer(b), b, msgs...)
}

// receiveOn is receive for a peer object captured earlier (the receive goroutine of a session holds
// its own reference; the peer may have been removed from the configuration meanwhile).
func (w *schedWorld) receiveOn(p *peer, b *simBot, msgs ...*bgp.BGPMessage) {
	b.mu.Lock()
	opts := b.opts
	b.mu.Unlock()
	var buf []byte
	for _, m := range msgs {
		x, err := m.Serialize(opts)
		w.must(err)
		buf = append(buf, x...)
	}
	srv, _ := simPipe(w.serverIP, b.spec.IP, 179, 40000+b.idx)
	conn := &scriptConn{simConn: srv, buf: buf}
	var wg vsync.WaitGroup // the rewritten package's functions take the shim types
	wg.Add(1)
	hold := make(chan struct{}, 4)
	reason := make(chan fsmStateReason, 4)
	p.fsm.h.recvMessageloop(context.Background(), conn, hold, reason, &wg)
}

// mgmt runs op exactly as Serve does for a management operation.
func (w *schedWorld) mgmt(op func() error) error {
	w.s.shared.mu.Lock()
	defer w.s.shared.mu.Unlock()
	return op()
}

// drain moves everything queued for the peers into w.batches (the sender is not running).
func (w *schedWorld) drain() {
	for i, b := range w.bots {
		p := w.peer(b)
		if p == nil {
			continue
		}
		for {
			synctest.Wait()
			if p.fsm.outgoingCh.Len() == 0 {
				break
			}
			select {
			case o := <-p.fsm.outgoingCh.Out():
				if m, ok := o.(*fsmOutgoingMsg); ok {
					w.batches[i] = append(w.batches[i], m.Paths)
				}
			default:
			}
		}
	}
}

// applyBatches folds the drained batches of bot i into its view under one coalescing partition:
// cut[j] == true means a sender pass boundary after batch j.
func (w *schedWorld) applyBatches(i int, view map[string]string, cut []bool) error {
	b := w.bots[i]
	b.mu.Lock()
	opts := b.opts
	b.mu.Unlock()
	srvOpts := simMirrorOpts(opts)
	var cur []*table.Path
	flush := func() error {
		if len(cur) == 0 {
			return nil
		}
		for _, m := range table.CreateUpdateMsgFromPaths(cur, srvOpts) {
			buf, err := m.Serialize(srvOpts)
			if err != nil {
				return fmt.Errorf("serialise: %v", err)
			}
			pm, err := bgp.ParseBGPMessage(buf, opts)
			if err != nil {
				return fmt.Errorf("parse: %v", err)
			}
			if pm.Header.Type == bgp.BGP_MSG_UPDATE {
				simFold(view, pm)
			}
		}
		cur = nil
		return nil
	}
	for j, batch := range w.batches[i] {
		cur = append(cur, batch...)
		if j == len(w.batches[i])-1 || cut[j] {
			if err := flush(); err != nil {
				return err
			}
		}
	}
	return flush()
}

// ---------------------------------------------------------------------------------------------
// scenarios and exploration

type schedScenario struct {
	Name string
	// Setup builds the world and returns the thread bodies; everything in Setup runs pass-through.
	Setup func(w *schedWorld) []schedThread
	// Check evaluates the final state (pass-through, scheduler off); violations via w.violate.
	Check func(w *schedWorld)
}

type schedThread struct {
	Name string
	Body func()
}

var schedScenarios = map[string]*schedScenario{}

type schedExec struct {
	Points   []sched.Point
	Viol     []simViolation
	Deadlock string
	Diverged string
	Panics   []string
	CapHit   bool
	Outcome  string
	Foreign  int
}

// schedRunOne executes the scenario once under the given choice prefix.
func schedRunOne(t *testing.T, sc *schedScenario, prefix []int, filter func(string) bool) (x schedExec) {
	synctest.Test(t, func(t *testing.T) {
		w := newSchedWorld(t)
		var s *sched.Sched
		defer func() {
			sched.Active = nil
			if r := recover(); r != nil {
				x.Panics = append(x.Panics, fmt.Sprintf("harness: %v", r))
			}
			func() {
				defer func() { recover() }()
				w.thaw()
				w.stop(true)
			}()
		}()
		threads := sc.Setup(w)
		w.drain()
		w.freeze()
		s = sched.New(prefix)
		s.Filter = filter
		for _, th := range threads {
			s.Go(th.Name, th.Body)
		}
		s.Run()
		x.Points = s.Points
		x.Deadlock = s.Deadlock
		x.Diverged = s.Diverged
		x.Panics = s.Panics()
		x.CapHit = s.CapHit
		if s.Foreign > 0 {
			w.stat("foreign-goroutine-ops")
			x.Foreign = s.Foreign
		}
		if x.Deadlock == "" && len(x.Panics) == 0 {
			w.drain()
			sc.Check(w)
			x.Outcome = w.stateKey()
		}
		x.Viol = w.viol
	})
	return
}

// schedFilter: which hooked operations are scheduling points. Level 0: everything. Level 1 drops the
// statistics counters ("a.ctr": message counters and timestamps, never read by routing code).
func schedFilter(level int) func(string) bool {
	if level == 0 {
		return nil
	}
	return func(op string) bool { return op != "a.ctr" && op != "a.ctr.load" }
}

type schedReplay struct {
	Scenario string `json:"scenario"`
	Choices  []int  `json:"choices"`
	Filter   int    `json:"filter"`
	Trace    string `json:"trace,omitempty"`
}

func schedTrace(names []string, pts []sched.Point) string {
	var sb strings.Builder
	last := -2
	for _, p := range pts {
		ch := p.Enabled[p.Chosen]
		if ch != last {
			mark := ""
			if p.RunOK && p.Chosen != 0 {
				mark = " (preempts " + names[p.Running] + " before " + p.Op + ")"
			}
			fmt.Fprintf(&sb, "-> %s%s\n", names[ch], mark)
			last = ch
		}
	}
	return sb.String()
}

type schedStats struct {
	Executions  int64            `json:"executions"`
	MaxPoints   int              `json:"max_points"`
	Preemptions map[int]int64    `json:"by_preemptions"`
	Outcomes    map[string]int64 `json:"outcomes"`
	Viol        []*vr.Violation  `json:"viol"`
	Capped      bool             `json:"capped"`
	Wall        float64          `json:"wall_s"`
	Pruned      int64            `json:"pruned_independent_points"`
}

// schedExplore is the iterative-context-bounding DFS (shard: only top-level alternatives with
// index%nshards==shard are descended into).
func schedExplore(t *testing.T, sc *schedScenario, bound, filterLevel, shard, nshards int, deadline time.Time) *schedStats {
	st := &schedStats{Preemptions: map[int]int64{}, Outcomes: map[string]int64{}}
	filter := schedFilter(filterLevel)
	names := []string{}
	vio := map[string]*vr.Violation{}
	record2 := func(key, what string, x schedExec) {
		if v, ok := vio[key]; ok {
			v.Count++
			return
		}
		ch := make([]int, len(x.Points))
		for i, p := range x.Points {
			ch[i] = p.Chosen
		}
		v := &vr.Violation{Key: key, What: what + "\nschedule:\n" + schedTrace(names, x.Points), Count: 1,
			Replay: schedReplay{Scenario: sc.Name, Choices: ch, Filter: filterLevel}}
		vio[key] = v
		st.Viol = append(st.Viol, v)
	}
	// Sharding: the alternatives of a node are dealt out to the shards round-robin. An alternative
	// that costs no preemption (a forced switch, or the choice of who starts) opens a subtree as big
	// as the one it belongs to, so EVERY shard descends into it (re-running that one execution) and
	// the dealing-out continues inside it; a preempting alternative is owned by exactly one shard.
	top := 0
	var explore func(prefix []int, shardHere bool, record bool)
	explore = func(prefix []int, shardHere bool, record bool) {
		if time.Now().After(deadline) {
			st.Capped = true
			return
		}
		x := schedRunOne(t, sc, prefix, filter)
		if len(names) == 0 {
			for i := 0; i < 8; i++ {
				names = append(names, fmt.Sprintf("T%d", i))
			}
		}
		if x.Diverged != "" {
			panic("ENGINE-ERROR replay divergence: " + x.Diverged)
		}
		if record {
			st.Executions++
			if len(x.Points) > st.MaxPoints {
				st.MaxPoints = len(x.Points)
			}
			st.Preemptions[sched.PreemptionsBefore(x.Points, len(x.Points))]++
			if x.CapHit {
				st.Capped = true
			}
			if x.Deadlock != "" {
				record2("deadlock:"+sc.Name, "deadlock: unfinished threads "+x.Deadlock, x)
			}
			for _, p := range x.Panics {
				record2("panic:"+sc.Name+":"+simCrashSite(p), "panic in a thread: "+simTail(p, 2500), x)
			}
			for _, v := range x.Viol {
				record2(v.Key, v.What, x)
			}
			st.Outcomes[fmt.Sprintf("%x", fnvHash(x.Outcome))]++
		}
		// Partial-order reduction: a preemption right before an operation on an object that no other
		// thread accesses conflictingly in this execution only reorders independent operations (the
		// same final state is reached by preempting at the thread's next conflicting operation
		// instead), so alternatives are only taken at operations on objects that, in this execution,
		// are shared by two threads with at least one writing access.
		conflicts := sched.ConflictObjects(x.Points)
		for i := len(prefix); i < len(x.Points); i++ {
			p := x.Points[i]
			if p.RunOK && p.Obj != 0 && !conflicts[p.Obj] {
				if record {
					st.Pruned++
				}
				continue
			}
			cost := sched.PreemptionsBefore(x.Points, i)
			if p.RunOK {
				cost++
			}
			if cost > bound {
				continue
			}
			for alt := 1; alt < len(p.Enabled); alt++ {
				np := make([]int, i+1)
				for j := 0; j < i; j++ {
					np[j] = x.Points[j].Chosen
				}
				np[i] = alt
				if !shardHere {
					explore(np, false, true)
					continue
				}
				top++
				mine := top%nshards == shard
				if !p.RunOK {
					// free alternative: everybody descends, only the owner records the node itself
					explore(np, true, mine)
				} else if mine {
					explore(np, false, true)
				}
			}
		}
	}
	start := time.Now()
	explore(nil, true, shard == 0)
	st.Wall = time.Since(start).Seconds()
	return st
}

func fnvHash(s string) uint64 {
	var h uint64 = 14695981039346656037
	for i := 0; i < len(s); i++ {
		h ^= uint64(s[i])
		h *= 1099511628211
	}
	return h
}

// TestVerif_SchedShard is the worker entry: explores one shard of one scenario and writes its stats.
func TestVerif_SchedShard(t *testing.T) {
	spec := os.Getenv("VERIF_SCHED_SHARD")
	if spec == "" {
		t.Skip("worker only")
	}
	var name string
	var bound, filter, shard, n int
	var budget float64
	var out string
	parts := strings.Split(spec, ",")
	name = parts[0]
	bound, _ = strconv.Atoi(parts[1])
	filter, _ = strconv.Atoi(parts[2])
	shard, _ = strconv.Atoi(parts[3])
	n, _ = strconv.Atoi(parts[4])
	budget, _ = strconv.ParseFloat(parts[5], 64)
	out = parts[6]
	sc := schedScenarios[name]
	if sc == nil {
		t.Fatalf("unknown scenario %s", name)
	}
	st := schedExplore(t, sc, bound, filter, shard, n, time.Now().Add(time.Duration(budget*float64(time.Second))))
	b, _ := json.Marshal(st)
	if err := os.WriteFile(out, b, 0o644); err != nil {
		t.Fatal(err)
	}
}

// schedExploreSharded runs the exploration of one scenario on n worker processes and merges into r.
func schedExploreSharded(t *testing.T, r *vr.Report, name string, bound, filter int, budget time.Duration) {
	n := 16
	if s := os.Getenv("VERIF_SCHED_WORKERS"); s != "" {
		if v, err := strconv.Atoi(s); err == nil && v > 0 {
			n = v
		}
	}
	dir, err := os.MkdirTemp(os.Getenv("VERIF_WORK"), "sched-")
	if err != nil {
		t.Fatal(err)
	}
	defer os.RemoveAll(dir)
	var wg sync.WaitGroup
	errs := make([]string, n)
	for i := 0; i < n; i++ {
		wg.Add(1)
		go func(i int) {
			defer wg.Done()
			out := fmt.Sprintf("%s/shard-%d.json", dir, i)
			cmd := exec.Command(os.Args[0], "-test.run=^TestVerif_SchedShard$", "-test.timeout=0")
			cmd.Env = append(os.Environ(), fmt.Sprintf("VERIF_SCHED_SHARD=%s,%d,%d,%d,%d,%f,%s", name, bound, filter, i, n, budget.Seconds(), out),
				"GOMAXPROCS=2", "VERIF_OUT=")
			o, err := cmd.CombinedOutput()
			if err != nil {
				errs[i] = fmt.Sprintf("shard %d: %v\n%s", i, err, simTail(string(o), 3000))
			}
		}(i)
	}
	wg.Wait()
	for _, e := range errs {
		if e != "" {
			if strings.Contains(e, "ENGINE-ERROR") {
				t.Fatalf("ENGINE-ERROR in %s: %s", name, e)
			}
			r.Violationf("worker-crash:"+name+":"+simCrashSite(e), nil, "a worker process died while exploring %s: %s", name, e)
		}
	}
	distinct := map[string]bool{}
	var execs int64
	for i := 0; i < n; i++ {
		b, err := os.ReadFile(fmt.Sprintf("%s/shard-%d.json", dir, i))
		if err != nil {
			continue
		}
		var st schedStats
		if err := json.Unmarshal(b, &st); err != nil {
			continue
		}
		execs += st.Executions
		r.Evaluations += st.Executions
		r.Transitions += st.Executions
		for k, v := range st.Preemptions {
			r.Outcomes[fmt.Sprintf("%s.preemptions=%d", name, k)] += v
		}
		for k := range st.Outcomes {
			distinct[k] = true
		}
		if st.Capped {
			r.Cap(fmt.Sprintf("%s: budget %s reached in shard %d (bound %d not completed)", name, budget, i, bound))
		}
		if v, ok := r.Extra[name+".pruned_independent_points"].(int64); ok {
			r.Extra[name+".pruned_independent_points"] = v + st.Pruned
		} else {
			r.Extra[name+".pruned_independent_points"] = st.Pruned
		}
		if mp, ok := r.Bounds[name+".max_points"].(int); !ok || st.MaxPoints > mp {
			r.Bounds[name+".max_points"] = st.MaxPoints
		}
		for _, v := range st.Viol {
			// the Replay came back through JSON: keep it as generic data
			r.Violation(v.Key, v.What, v.Replay)
			for c := int64(1); c < v.Count; c++ {
				r.Violation(v.Key, v.What, v.Replay)
			}
		}
	}
	for k := range distinct {
		r.NT(name + "|" + k)
	}
	r.States += int64(len(distinct))
	r.Bounds[name+".preemption_bound"] = bound
	r.Bounds[name+".filter_level"] = filter
	r.Extra[name+".distinct_final_states"] = len(distinct)
	r.Extra[name+".executions"] = execs
	if r.WantSample() {
		r.Sample(map[string]any{"scenario": name, "preemption_bound": bound, "executions": execs, "distinct_final_states": len(distinct)})
	}
}

// schedReplayOne re-executes one recorded schedule twice and reports what it shows.
func schedReplayOne(t *testing.T, r *vr.Report, rp schedReplay) {
	sc := schedScenarios[rp.Scenario]
	if sc == nil {
		t.Fatalf("unknown scenario %s", rp.Scenario)
	}
	var sig [2]string
	for k := 0; k < 2; k++ {
		x := schedRunOne(t, sc, rp.Choices, schedFilter(rp.Filter))
		r.Eval()
		if x.Diverged != "" {
			t.Fatalf("ENGINE-ERROR replay divergence: %s", x.Diverged)
		}
		sig[k] = fmt.Sprint(x.Deadlock, x.Panics, x.Viol, fnvHash(x.Outcome))
		if k == 1 {
			if x.Deadlock != "" {
				r.Violationf("deadlock:"+sc.Name, rp, "deadlock: %s", x.Deadlock)
			}
			for _, p := range x.Panics {
				r.Violationf("panic:"+sc.Name+":"+simCrashSite(p), rp, "%s", simTail(p, 2500))
			}
			for _, v := range x.Viol {
				r.Violationf(v.Key, rp, "%s", v.What)
			}
			t.Logf("trace:\n%s", schedTrace([]string{"T0", "T1", "T2", "T3", "T4", "T5"}, x.Points))
		}
	}
	if sig[0] != sig[1] {
		t.Fatalf("ENGINE-ERROR the same schedule gave two different observations")
	}
}

var _ = errors.New

// schedCheckExport: for every established bot, under EVERY coalescing partition of the batches queued
// for it during the scheduled phase, the accumulated view must equal the from-scratch export.
func schedCheckExport(w *schedWorld, tag string) {
	rs := &simRoutesScenario{}
	for i, b := range w.bots {
		p := w.peer(b)
		if p == nil || p.State() != bgp.BGP_FSM_ESTABLISHED {
			continue
		}
		exp, _ := rs.expectedExport(w.simWorld, b, p)
		k := len(w.batches[i])
		nparts := 1
		if k > 1 {
			nparts = 1 << (k - 1)
		}
		if nparts > 64 {
			nparts = 64
		}
		for mask := 0; mask < nparts; mask++ {
			cut := make([]bool, k)
			for j := 0; j < k-1; j++ {
				cut[j] = mask&(1<<j) != 0
			}
			view := map[string]string{}
			for kk, v := range b.view {
				view[kk] = v
			}
			if err := w.applyBatches(i, view, cut); err != nil {
				w.violate("C01:sched:"+tag+":unencodable", "%s: %v", b.spec.Name, err)
				continue
			}
			w.stat("partition-checked")
			if a, e := simViewString(view), simViewString(exp); a != e {
				d := simDiff(view, exp)
				w.violate("C01:sched:"+tag+":view-differs-from-export:"+d.class,
					"%s: after all threads finished (sender coalescing pattern %b over %d queued batches) %s holds\n%s but the from-scratch export of the Loc-RIB is\n%s%s", tag, mask, k, b.spec.Name, a, e, d.text)
				break
			}
		}
	}
}

// schedSettleSetup folds everything queued during Setup into the bots' views (one pass per batch) and
// forgets it, so that w.batches only holds what the scheduled phase produced.
func (w *schedWorld) settleSetup() {
	w.drain()
	for i, b := range w.bots {
		k := len(w.batches[i])
		cut := make([]bool, k)
		for j := range cut {
			cut[j] = true
		}
		if err := w.applyBatches(i, b.view, cut); err != nil {
			panic(err)
		}
		w.batches[i] = nil
	}
}

// c01SchedBots adds n eBGP bots (peers parked in Active, to be established by the harness).
func c01SchedBots(w *schedWorld, n int) {
	for i := 0; i < n; i++ {
		w.addBot(simBotKinds['e'](i))
	}
	w.advance(time.Second)
}

// c02SchedCheck: nothing in the Loc-RIB from a peer that was removed or whose session ended;
// every Adj-RIB-In of a non-established peer is empty.
func c02SchedCheck(w *schedWorld, tag string) {
	live := map[string]bool{}
	for _, b := range w.bots {
		p := w.peer(b)
		if p != nil && p.State() == bgp.BGP_FSM_ESTABLISHED {
			live[b.addr().String()] = true
		}
		if p != nil && p.State() != bgp.BGP_FSM_ESTABLISHED {
			if n := len(w.adjInDump(p)); n != 0 {
				w.violate("C02:sched:"+tag+":adj-rib-in-of-ended-session-not-empty", "%s: session of %s has ended but its Adj-RIB-In holds %d routes", tag, b.spec.Name, n)
			}
		}
	}
	for _, r := range w.ribDump(w.s.globalRib) {
		if r.Src != "local" && !live[r.Src] {
			w.violate("C02:sched:"+tag+":loc-rib-route-from-ended-session-or-removed-peer",
				"%s: the Loc-RIB holds %s %s learned from %s, which is no longer an established configured peer", tag, r.Fam, r.Prefix, r.Src)
		}
	}
	w.stat("rib-checked")
	if !strings.HasSuffix(tag, ":rib-only") {
		schedCheckExport(w, tag)
	}
}
