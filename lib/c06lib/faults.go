package c06lib

import "fmt"

// Fault is one entry of the byte-level fault catalogue. Apply edits the message description in place
// and reports whether it was applicable (a second fault of a pair may find its target gone).
type Fault struct {
	ID     string // "<target>:<kind>", stable
	Target string // attribute tag, or "msg" / "nlri" / "wd"
	Kind   string
	Apply  func(m *Msg) bool
}

func find(m *Msg, tag string) int {
	for i := range m.Attrs {
		if m.Attrs[i].Tag == tag {
			return i
		}
	}
	return -1
}

func onAttr(tag string, f func(a *Attr) bool) func(m *Msg) bool {
	return func(m *Msg) bool {
		i := find(m, tag)
		if i < 0 {
			return false
		}
		return f(&m.Attrs[i])
	}
}

func insertAt(m *Msg, pos int, a Attr) {
	if pos > len(m.Attrs) {
		pos = len(m.Attrs)
	}
	m.Attrs = append(m.Attrs, Attr{})
	copy(m.Attrs[pos+1:], m.Attrs[pos:])
	m.Attrs[pos] = a
}

// segments splits an AS_PATH value made of 4-octet AS numbers; ok=false when it does not parse.
func segments(v []byte) (segs [][]byte, ok bool) {
	for len(v) > 0 {
		if len(v) < 2 {
			return segs, false
		}
		n := 2 + 4*int(v[1])
		if n > len(v) {
			return segs, false
		}
		segs = append(segs, v[:n])
		v = v[n:]
	}
	return segs, true
}

// Catalogue enumerates every single fault applicable to the base, in a fixed order (simplest first
// within each attribute, attributes in the order they appear in the base).
func Catalogue(b Base, pt PeerType) []Fault {
	var out []Fault
	add := func(target, kind string, ap func(m *Msg) bool) {
		out = append(out, Fault{ID: target + ":" + kind, Target: target, Kind: kind, Apply: ap})
	}
	n := len(b.Msg.Attrs)
	for _, a0 := range b.Msg.Attrs {
		tag, typ := a0.Tag, a0.Type
		// --- bad length: the TLV stays well-framed, the value has the wrong size for its type
		if len(a0.Val) > 0 {
			add(tag, "vlen-1", onAttr(tag, func(a *Attr) bool {
				if len(a.Val) == 0 {
					return false
				}
				a.Val = a.Val[:len(a.Val)-1]
				return true
			}))
			add(tag, "vlen0", onAttr(tag, func(a *Attr) bool {
				if len(a.Val) == 0 {
					return false
				}
				a.Val = nil
				return true
			}))
		}
		add(tag, "vlen+1", onAttr(tag, func(a *Attr) bool { a.Val = append(a.Val, 0); return true }))
		// --- bad length field: the value bytes stay, the length field lies (TLV desynchronisation,
		//     truncated / overrunning TLV)
		if len(a0.Val) > 0 {
			add(tag, "lenfield-1", onAttr(tag, func(a *Attr) bool {
				if len(a.Val) == 0 {
					return false
				}
				a.LenField = len(a.Val) - 1
				return true
			}))
			add(tag, "lenfield=0", onAttr(tag, func(a *Attr) bool {
				if len(a.Val) == 0 {
					return false
				}
				a.LenField = 0
				return true
			}))
		}
		add(tag, "lenfield+1", onAttr(tag, func(a *Attr) bool { a.LenField = len(a.Val) + 1; return true }))
		add(tag, "lenfield=250", onAttr(tag, func(a *Attr) bool { a.LenField = 250; return true }))
		// --- flags
		for _, fl := range []struct {
			name string
			bit  byte
		}{{"flag^optional", FOpt}, {"flag^transitive", FTrans}, {"flag^partial", FPartial}} {
			bit := fl.bit
			add(tag, fl.name, onAttr(tag, func(a *Attr) bool { a.Flags ^= bit; return true }))
		}
		// extended-length bit set but the length still written in one octet (desynchronises the TLV)
		add(tag, "flag^extlen-raw", onAttr(tag, func(a *Attr) bool {
			if a.Flags&FExt != 0 {
				return false
			}
			a.Flags |= FExt
			a.LenBytes = 1
			return true
		}))
		// extended-length bit set and the length re-encoded in two octets: well-formed (RFC 4271 4.3)
		add(tag, "extlen-reencoded(benign)", onAttr(tag, func(a *Attr) bool {
			if a.Flags&FExt != 0 {
				return false
			}
			a.Flags |= FExt
			return true
		}))
		// --- duplicate
		add(tag, "dup-after", func(m *Msg) bool {
			i := find(m, tag)
			if i < 0 {
				return false
			}
			insertAt(m, i+1, m.Clone().Attrs[i])
			return true
		})
		add(tag, "dup-last", func(m *Msg) bool {
			i := find(m, tag)
			if i < 0 {
				return false
			}
			insertAt(m, len(m.Attrs), m.Clone().Attrs[i])
			return true
		})
		add(tag, "dup-first", func(m *Msg) bool {
			i := find(m, tag)
			if i < 0 {
				return false
			}
			insertAt(m, 0, m.Clone().Attrs[i])
			return true
		})
		// --- missing
		switch typ {
		case TOrigin, TASPath, TNextHop, TLocalPref, TMPReach:
			if typ == TMPReach {
				break // removing MP_REACH leaves an UPDATE without NLRI; not a catalogue entry
			}
			add(tag, "missing", func(m *Msg) bool {
				i := find(m, tag)
				if i < 0 {
					return false
				}
				m.Attrs = append(m.Attrs[:i], m.Attrs[i+1:]...)
				return true
			})
		}
		// --- truncated TLV: the attribute block ends inside this attribute
		for _, k := range []int{1, 2, 3, -1} {
			k := k
			name := fmt.Sprintf("cut+%d", k)
			if k < 0 {
				name = "cut-last-octet"
			}
			add(tag, name, func(m *Msg) bool {
				i := find(m, tag)
				if i < 0 {
					return false
				}
				off := 0
				for j := 0; j < i; j++ {
					off += len(m.Attrs[j].Bytes())
				}
				l := len(m.Attrs[i].Bytes())
				kk := k
				if kk < 0 {
					kk = l - 1
				}
				if kk <= 0 || kk >= l {
					return false
				}
				if k < 0 && l-1 <= 3 {
					return false // same as one of the cut+k
				}
				m.AttrCut = off + kk
				return true
			})
		}
		// --- bad value
		switch typ {
		case TOrigin:
			for _, v := range []byte{3, 255} {
				v := v
				add(tag, fmt.Sprintf("value=%d", v), onAttr(tag, func(a *Attr) bool {
					if len(a.Val) != 1 {
						return false
					}
					a.Val[0] = v
					return true
				}))
			}
		case TNextHop:
			for _, v := range [][]byte{{0, 0, 0, 0}, {127, 0, 0, 1}, {224, 0, 0, 1}, {255, 255, 255, 255}} {
				v := v
				add(tag, fmt.Sprintf("value=%d.%d.%d.%d", v[0], v[1], v[2], v[3]), onAttr(tag, func(a *Attr) bool {
					if len(a.Val) != 4 {
						return false
					}
					a.Val = append([]byte(nil), v...)
					return true
				}))
			}
			add(tag, "vlen16", onAttr(tag, func(a *Attr) bool { a.Val = BotNH6.AsSlice(); return true }))
		case TASPath:
			add(tag, "segtype=0", onAttr(tag, func(a *Attr) bool {
				if len(a.Val) < 2 {
					return false
				}
				a.Val[0] = 0
				return true
			}))
			add(tag, "segtype=5", onAttr(tag, func(a *Attr) bool {
				if len(a.Val) < 2 {
					return false
				}
				a.Val[0] = 5
				return true
			}))
			add(tag, "lastsegtype=5", onAttr(tag, func(a *Attr) bool {
				s, ok := segments(a.Val)
				if !ok || len(s) == 0 {
					return false
				}
				s[len(s)-1][0] = 5
				return true
			}))
			add(tag, "segcount=0", onAttr(tag, func(a *Attr) bool {
				s, ok := segments(a.Val)
				if !ok || len(s) == 0 {
					return false
				}
				nv := []byte{s[0][0], 0}
				for _, x := range s[1:] {
					nv = append(nv, x...)
				}
				a.Val = nv
				return true
			}))
			add(tag, "seg-overrun", onAttr(tag, func(a *Attr) bool {
				s, ok := segments(a.Val)
				if !ok || len(s) == 0 {
					return false
				}
				s[len(s)-1][1]++
				return true
			}))
			add(tag, "confed-seq-lead", onAttr(tag, func(a *Attr) bool {
				a.Val = append(seg(3, 65100), a.Val...)
				return true
			}))
			add(tag, "confed-set-lead", onAttr(tag, func(a *Attr) bool {
				a.Val = append(seg(4, 65100), a.Val...)
				return true
			}))
			add(tag, "confed-seq-trail", onAttr(tag, func(a *Attr) bool {
				a.Val = append(a.Val, seg(3, 65100)...)
				return true
			}))
			if pt == Confed {
				add(tag, "confed-lead-removed", onAttr(tag, func(a *Attr) bool {
					s, ok := segments(a.Val)
					if !ok || len(s) < 2 || s[0][0] != 3 {
						return false
					}
					a.Val = append([]byte(nil), a.Val[len(s[0]):]...)
					return true
				}))
			}
		case TAggregator:
			add(tag, "vlen6-2octet-as", onAttr(tag, func(a *Attr) bool {
				a.Val = []byte{0xfd, 0xf3, 10, 9, 9, 9}
				return true
			}))
		case TMPReach:
			set := func(kind string, idx int, v byte) {
				add(tag, kind, onAttr(tag, func(a *Attr) bool {
					if len(a.Val) <= idx {
						return false
					}
					a.Val[idx] = v
					return true
				}))
			}
			set("nhlen=0", 3, 0)
			set("nhlen=15", 3, 15)
			set("nhlen=4", 3, 4)
			set("afi=3", 1, 3)
			set("safi=2(not-negotiated)", 2, 2)
			add(tag, "nh4-clean", onAttr(tag, func(a *Attr) bool {
				if len(a.Val) < 21 {
					return false
				}
				nv := []byte{0, 2, 1, 4, 10, 0, 0, 1}
				a.Val = append(nv, a.Val[20:]...)
				return true
			}))
			add(tag, "pfxlen=129", onAttr(tag, func(a *Attr) bool {
				if len(a.Val) < 22 {
					return false
				}
				nv := append([]byte(nil), a.Val[:21]...)
				nv = append(nv, 129)
				nv = append(nv, make([]byte, 17)...)
				a.Val = nv
				return true
			}))
			add(tag, "no-reserved", onAttr(tag, func(a *Attr) bool {
				if len(a.Val) < 21 {
					return false
				}
				a.Val = a.Val[:20]
				return true
			}))
			add(tag, "short4", onAttr(tag, func(a *Attr) bool {
				if len(a.Val) < 5 {
					return false
				}
				a.Val = a.Val[:4]
				return true
			}))
		case TMPUnreach:
			add(tag, "pfxlen=129", onAttr(tag, func(a *Attr) bool {
				if len(a.Val) < 4 {
					return false
				}
				nv := append([]byte(nil), a.Val[:3]...)
				nv = append(nv, 129)
				nv = append(nv, make([]byte, 17)...)
				a.Val = nv
				return true
			}))
			add(tag, "safi=2(not-negotiated)", onAttr(tag, func(a *Attr) bool {
				if len(a.Val) < 3 {
					return false
				}
				a.Val[2] = 2
				return true
			}))
			add(tag, "short2", onAttr(tag, func(a *Attr) bool {
				if len(a.Val) < 3 {
					return false
				}
				a.Val = a.Val[:2]
				return true
			}))
		}
	}
	// --- unknown well-known attribute at every position
	for pos := 0; pos <= n; pos++ {
		pos := pos
		if n == 0 && len(b.Msg.NLRI) == 0 && pos > 0 {
			break
		}
		add("msg", fmt.Sprintf("unknown-wellknown@%d", pos), func(m *Msg) bool {
			insertAt(m, pos, Attr{Tag: "UNKNOWN_WK", Flags: FTrans, Type: TUnknownWK, Val: []byte{1, 2}, LenField: -1})
			return true
		})
	}
	// --- NLRI / withdrawn routes fields
	if len(b.Msg.NLRI) > 0 {
		add("nlri", "pfxlen=33", func(m *Msg) bool {
			if len(m.NLRI) == 0 {
				return false
			}
			m.NLRI[0] = []byte{33, 10, 10, 1, 0, 0}
			return true
		})
		add("nlri", "pfxlen=33-last", func(m *Msg) bool {
			if len(m.NLRI) == 0 {
				return false
			}
			m.NLRI = append(m.NLRI, []byte{33, 10, 10, 9, 0, 0})
			return true
		})
		add("nlri", "pfxlen=255", func(m *Msg) bool {
			if len(m.NLRI) == 0 {
				return false
			}
			m.NLRI[0][0] = 255
			return true
		})
		add("nlri", "overrun", func(m *Msg) bool {
			if len(m.NLRI) == 0 {
				return false
			}
			l := m.NLRI[len(m.NLRI)-1]
			if len(l) < 2 {
				return false
			}
			m.NLRI[len(m.NLRI)-1] = l[:len(l)-1]
			return true
		})
	}
	if len(b.Msg.Wd) > 0 {
		add("wd", "pfxlen=33", func(m *Msg) bool {
			if len(m.Wd) == 0 {
				return false
			}
			m.Wd[0] = []byte{33, 10, 10, 1, 0, 0}
			return true
		})
		add("wd", "overrun", func(m *Msg) bool {
			if len(m.Wd) == 0 {
				return false
			}
			l := m.Wd[len(m.Wd)-1]
			if len(l) < 2 {
				return false
			}
			m.Wd[len(m.Wd)-1] = l[:len(l)-1]
			return true
		})
	}
	// --- Total Path Attribute Length / Withdrawn Routes Length
	add("msg", "totlen+1", func(m *Msg) bool { m.TotAdj++; return true })
	if n > 0 {
		add("msg", "totlen-1", func(m *Msg) bool { m.TotAdj--; return true })
		add("msg", "totlen=0", func(m *Msg) bool { m.TotAbs = 0; return true })
	}
	add("msg", "totlen=4000(beyond-message)", func(m *Msg) bool { m.TotAbs = 4000; return true })
	add("msg", "wdlen+1", func(m *Msg) bool { m.WdLenAdj++; return true })
	if len(b.Msg.Wd) > 0 {
		add("msg", "wdlen-1", func(m *Msg) bool { m.WdLenAdj--; return true })
	}
	add("msg", "wdlen=4000(beyond-message)", func(m *Msg) bool { m.WdLenAbs = 4000; return true })
	return out
}

// Lookup finds catalogue entries by ID (replay).
func Lookup(cat []Fault, id string) (Fault, bool) {
	for _, f := range cat {
		if f.ID == id {
			return f, true
		}
	}
	return Fault{}, false
}

// Build applies the faults (in order) to a fresh copy of the base; ok=false when one of them is not
// applicable.
func Build(b Base, faults ...Fault) (Msg, bool) {
	m := b.Msg.Clone()
	for _, f := range faults {
		if !f.Apply(&m) {
			return m, false
		}
	}
	return m, true
}
