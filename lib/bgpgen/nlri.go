package bgpgen

import (
	"fmt"
	"net"
	"net/netip"

	"github.com/osrg/gobgp/v4/pkg/packet/bgp"
)

func must[T any](v T, err error) T {
	if err != nil {
		panic(fmt.Sprintf("bgpgen: constructor refused a domain value: %v", err))
	}
	return v
}

// ESIs: one per ESI type, Value always 9 bytes (what the decoder produces), boundary content.
func ESIs() []bgp.EthernetSegmentIdentifier {
	mk := func(t bgp.ESIType, v ...byte) bgp.EthernetSegmentIdentifier {
		b := make([]byte, 9)
		copy(b, v)
		return bgp.EthernetSegmentIdentifier{Type: t, Value: b}
	}
	return []bgp.EthernetSegmentIdentifier{
		mk(bgp.ESI_ARBITRARY), // single-homed
		mk(bgp.ESI_ARBITRARY, 0xff, 0xff, 0xff, 0xff, 0xff, 0xff, 0xff, 0xff, 0xff),
		mk(bgp.ESI_LACP, 0xaa, 0xbb, 0xcc, 0xdd, 0xee, 0xff, 0xff, 0xff, 0),
		mk(bgp.ESI_MSTP, 0, 0, 0, 0, 0, 1, 0, 1, 0),
		mk(bgp.ESI_MAC, 0xaa, 0xbb, 0xcc, 0xdd, 0xee, 0xff, 0xff, 0xff, 0xff),
		mk(bgp.ESI_ROUTERID, 192, 0, 2, 1, 0xff, 0xff, 0xff, 0xff, 0),
		mk(bgp.ESI_AS, 0xff, 0xff, 0xff, 0xff, 0, 0, 0, 1, 0),
		mk(bgp.ESIType(0xff), 1, 2, 3, 4, 5, 6, 7, 8, 9),
	}
}

func esi0() bgp.EthernetSegmentIdentifier { return ESIs()[0] }

func rt0() bgp.ExtendedCommunityInterface {
	return bgp.NewTwoOctetAsSpecificExtended(bgp.EC_SUBTYPE_ROUTE_TARGET, 65000, 100, true)
}

func flowItems(vals ...uint64) []*bgp.FlowSpecComponentItem {
	var it []*bgp.FlowSpecComponentItem
	for i, v := range vals {
		op := uint8(bgp.DEC_NUM_OP_EQ)
		if i%2 == 1 {
			op = uint8(bgp.DEC_NUM_OP_GT_EQ) | 0x40 // AND bit
		}
		it = append(it, bgp.NewFlowSpecComponentItem(op, v))
	}
	return it
}

// flowComponents returns the flowspec component domain valid for the family.
func flowComponents(f bgp.Family) [][]bgp.FlowSpecComponentInterface {
	var out [][]bgp.FlowSpecComponentInterface
	one := func(c bgp.FlowSpecComponentInterface) { out = append(out, []bgp.FlowSpecComponentInterface{c}) }
	switch f.Afi() {
	case bgp.AFI_IP:
		for _, px := range v4Prefixes()[:5] {
			one(bgp.NewFlowSpecDestinationPrefix(must(bgp.NewIPAddrPrefix(px))))
		}
		one(bgp.NewFlowSpecSourcePrefix(must(bgp.NewIPAddrPrefix(p("10.0.0.0/8")))))
	case bgp.AFI_IP6:
		for i, px := range v6Prefixes()[:4] {
			one(bgp.NewFlowSpecDestinationPrefix6(must(bgp.NewIPAddrPrefix(px)), []uint8{0, 1, 0, 64}[i]))
		}
		one(bgp.NewFlowSpecSourcePrefix6(must(bgp.NewIPAddrPrefix(p("2001:db8::/32"))), 0))
	}
	if f == bgp.RF_FS_L2_VPN {
		one(bgp.NewFlowSpecSourceMac(net.HardwareAddr{0xaa, 0xbb, 0xcc, 0xdd, 0xee, 0xff}))
		one(bgp.NewFlowSpecDestinationMac(net.HardwareAddr{0, 0, 0, 0, 0, 0}))
		one(bgp.NewFlowSpecComponent(bgp.FLOW_SPEC_TYPE_ETHERNET_TYPE, flowItems(0x0800)))
		one(bgp.NewFlowSpecComponent(bgp.FLOW_SPEC_TYPE_VID, flowItems(1, 4095)))
		one(bgp.NewFlowSpecComponent(bgp.FLOW_SPEC_TYPE_INNER_COS, flowItems(7)))
	}
	// numeric components: every type once, value-size boundaries on one of them
	for t := bgp.FLOW_SPEC_TYPE_IP_PROTO; t <= bgp.FLOW_SPEC_TYPE_LABEL; t++ {
		one(bgp.NewFlowSpecComponent(t, flowItems(6)))
	}
	for _, v := range []uint64{0, 0xff, 0x100, 0xffff, 0x10000, 0xffffffff, 0x100000000, 0xffffffffffffffff} {
		one(bgp.NewFlowSpecComponent(bgp.FLOW_SPEC_TYPE_PORT, flowItems(v)))
	}
	one(bgp.NewFlowSpecComponent(bgp.FLOW_SPEC_TYPE_DST_PORT, flowItems(80, 443, 8080)))
	one(bgp.NewFlowSpecComponent(bgp.FLOW_SPEC_TYPE_TCP_FLAG, []*bgp.FlowSpecComponentItem{
		bgp.NewFlowSpecComponentItem(uint8(bgp.BITMASK_FLAG_OP_MATCH), uint64(bgp.TCP_FLAG_SYN|bgp.TCP_FLAG_ACK))}))
	one(bgp.NewFlowSpecComponent(bgp.FLOW_SPEC_TYPE_FRAGMENT, []*bgp.FlowSpecComponentItem{
		bgp.NewFlowSpecComponentItem(uint8(bgp.BITMASK_FLAG_OP_NOT), uint64(bgp.FRAG_FLAG_IS))}))
	// two and three components (already in type order)
	out = append(out, []bgp.FlowSpecComponentInterface{
		bgp.NewFlowSpecComponent(bgp.FLOW_SPEC_TYPE_IP_PROTO, flowItems(6)),
		bgp.NewFlowSpecComponent(bgp.FLOW_SPEC_TYPE_DST_PORT, flowItems(80, 443))})
	// large: 60 items of 4 bytes => component of 301 bytes, NLRI length crosses 240 (2-octet length form)
	big := make([]uint64, 60)
	for i := range big {
		big[i] = 0x10000 + uint64(i)
	}
	out = append(out, []bgp.FlowSpecComponentInterface{bgp.NewFlowSpecComponent(bgp.FLOW_SPEC_TYPE_PORT, flowItems(big...))})
	// exactly 239 and 240 bytes of components: 1 + k*(1+4) + (1+v)...
	for _, n := range []int{47, 48} { // 1+47*5 = 236 ; 1+48*5 = 241
		vs := make([]uint64, n)
		for i := range vs {
			vs[i] = 0x10000
		}
		out = append(out, []bgp.FlowSpecComponentInterface{bgp.NewFlowSpecComponent(bgp.FLOW_SPEC_TYPE_PORT, flowItems(vs...))})
	}
	return out
}

// lsNode builds a node descriptor TLV the way pkg/apiutil and cmd/gobgp do.
func lsNode(i int, typ bgp.LsTLVType) *bgp.LsTLVNodeDescriptor {
	nds := []*bgp.LsNodeDescriptor{
		{Asn: 65000, BGPLsID: 1, IGPRouterID: "0000.0000.0001"},
		{Asn: 0xffffffff, BGPLsID: 0xffffffff, OspfAreaID: 0xffffffff, IGPRouterID: "192.0.2.1"},
		{Asn: 1, BGPLsID: 0, IGPRouterID: "0000.0000.0001-01"},
		{Asn: 65000, IGPRouterID: "192.0.2.1:192.0.2.2"},
		{Asn: 65000, BGPRouterID: a("192.0.2.9"), BGPConfederationMember: 65100},
		{IGPRouterID: "0000.0000.0002"}, // no AS: IGP router-id + BGP-LS ID only
	}
	t := bgp.NewLsTLVNodeDescriptor(nds[i%len(nds)], typ)
	return &t
}

func lsLen(tlvs ...bgp.LsTLVInterface) uint16 {
	n := 9 // protocol-id + identifier
	for _, t := range tlvs {
		if t != nil {
			n += t.Len()
		}
	}
	return uint16(n)
}

func u32p(v uint32) *uint32          { return &v }
func addrp(v netip.Addr) *netip.Addr { return &v }

func lsNLRIs() []NLRI {
	var out []NLRI
	add := func(n string, typ bgp.LsNLRIType, inner bgp.LsNLRIInterface, l uint16) {
		out = append(out, NLRI{"ls/" + n, bgp.RF_LS, &bgp.LsAddrPrefix{Type: typ, Length: l, NLRI: inner}})
	}
	hdr := func(typ bgp.LsNLRIType, l uint16, proto bgp.LsProtocolID, id uint64) bgp.LsNLRI {
		return bgp.LsNLRI{NLRIType: typ, Length: l, ProtocolID: proto, Identifier: id}
	}
	for i := 0; i < 6; i++ {
		nd := lsNode(i, bgp.LS_TLV_LOCAL_NODE_DESC)
		l := lsLen(nd)
		proto := []bgp.LsProtocolID{bgp.LS_PROTOCOL_ISIS_L2, bgp.LS_PROTOCOL_OSPF_V2, bgp.LS_PROTOCOL_ISIS_L1, bgp.LS_PROTOCOL_OSPF_V3, bgp.LS_PROTOCOL_BGP, 0xff}[i]
		id := []uint64{0, 1, 0xffffffffffffffff, 2, 3, 4}[i]
		add(fmt.Sprintf("node/%d", i), bgp.LS_NLRI_TYPE_NODE, &bgp.LsNodeNLRI{LsNLRI: hdr(bgp.LS_NLRI_TYPE_NODE, l, proto, id), LocalNodeDesc: nd}, l)
	}
	lds := []*bgp.LsLinkDescriptor{
		{LinkLocalID: u32p(1), LinkRemoteID: u32p(2)},
		{InterfaceAddrIPv4: addrp(a("192.0.2.1")), NeighborAddrIPv4: addrp(a("192.0.2.2"))},
		{InterfaceAddrIPv6: addrp(a("2001:db8::1")), NeighborAddrIPv6: addrp(a("2001:db8::2"))},
		{LinkLocalID: u32p(0xffffffff), LinkRemoteID: u32p(0), InterfaceAddrIPv4: addrp(a("0.0.0.0")), NeighborAddrIPv4: addrp(a("255.255.255.255"))},
		{},
	}
	for i, ld := range lds {
		ln, rn := lsNode(i, bgp.LS_TLV_LOCAL_NODE_DESC), lsNode(i+1, bgp.LS_TLV_REMOTE_NODE_DESC)
		tl := bgp.NewLsLinkTLVs(ld)
		l := lsLen(append([]bgp.LsTLVInterface{ln, rn}, tl...)...)
		add(fmt.Sprintf("link/%d", i), bgp.LS_NLRI_TYPE_LINK, &bgp.LsLinkNLRI{LsNLRI: hdr(bgp.LS_NLRI_TYPE_LINK, l, bgp.LS_PROTOCOL_ISIS_L2, uint64(i)),
			LocalNodeDesc: ln, RemoteNodeDesc: rn, LinkDesc: tl}, l)
	}
	for i, px := range []netip.Prefix{p("10.1.2.0/24"), p("10.0.0.0/8"), p("10.1.2.3/32"), p("10.1.2.128/25")} {
		ln := lsNode(i, bgp.LS_TLV_LOCAL_NODE_DESC)
		tl := bgp.NewLsPrefixTLVs(&bgp.LsPrefixDescriptor{IPReachability: []netip.Prefix{px}, OSPFRouteType: bgp.LsOspfRouteType(i)})
		l := lsLen(append([]bgp.LsTLVInterface{ln}, tl...)...)
		add(fmt.Sprintf("prefix4/%d", i), bgp.LS_NLRI_TYPE_PREFIX_IPV4, &bgp.LsPrefixV4NLRI{LsNLRI: hdr(bgp.LS_NLRI_TYPE_PREFIX_IPV4, l, bgp.LS_PROTOCOL_OSPF_V2, uint64(i)),
			LocalNodeDesc: ln, PrefixDesc: tl}, l)
	}
	for i, px := range []netip.Prefix{p("2001:db8:1::/64"), p("2001:db8::2/127"), p("2001:db8::1/128")} {
		ln := lsNode(i, bgp.LS_TLV_LOCAL_NODE_DESC)
		tl := bgp.NewLsPrefixTLVs(&bgp.LsPrefixDescriptor{IPReachability: []netip.Prefix{px}})
		l := lsLen(append([]bgp.LsTLVInterface{ln}, tl...)...)
		add(fmt.Sprintf("prefix6/%d", i), bgp.LS_NLRI_TYPE_PREFIX_IPV6, &bgp.LsPrefixV6NLRI{LsNLRI: hdr(bgp.LS_NLRI_TYPE_PREFIX_IPV6, l, bgp.LS_PROTOCOL_OSPF_V3, uint64(i)),
			LocalNodeDesc: ln, PrefixDesc: tl}, l)
	}
	for i, sids := range [][]netip.Addr{{a("2001:db8::1")}, {a("::"), a("ffff:ffff:ffff:ffff:ffff:ffff:ffff:ffff")}} {
		ln := lsNode(i, bgp.LS_TLV_LOCAL_NODE_DESC)
		ssi := &bgp.LsTLVSrv6SIDInfo{LsTLV: bgp.LsTLV{Type: bgp.LS_TLV_SRV6_SID_INFO, Length: uint16(16 * len(sids))}, SIDs: sids}
		n := &bgp.LsSrv6SIDNLRI{LocalNodeDesc: ln, Srv6SIDInfo: ssi}
		tl := []bgp.LsTLVInterface{ln, ssi}
		if i == 1 {
			mt := &bgp.LsTLVMultiTopoID{LsTLV: bgp.LsTLV{Type: bgp.LS_TLV_MULTI_TOPO_ID, Length: 4}, MultiTopoIDs: []uint16{0, 0xfff}}
			n.MultiTopoID = mt
			tl = append(tl, mt)
		}
		l := lsLen(tl...)
		n.LsNLRI = hdr(bgp.LS_NLRI_TYPE_SRV6_SID, l, bgp.LS_PROTOCOL_ISIS_L2, uint64(i))
		add(fmt.Sprintf("srv6sid/%d", i), bgp.LS_NLRI_TYPE_SRV6_SID, n, l)
	}
	return out
}

// NLRIs returns the NLRI domain of one family, simplest first.
func NLRIs(f bgp.Family) []NLRI {
	var out []NLRI
	add := func(n string, v bgp.NLRI) { out = append(out, NLRI{f.String() + "/" + n, f, v}) }
	pfx := v4Prefixes()
	addrs := v4Addrs()
	if f.Afi() == bgp.AFI_IP6 {
		pfx, addrs = v6Prefixes(), v6Addrs()
	}
	switch f {
	case bgp.RF_IPv4_UC, bgp.RF_IPv6_UC, bgp.RF_IPv4_MC, bgp.RF_IPv6_MC:
		for _, px := range pfx {
			add(px.String(), must(bgp.NewIPAddrPrefix(px)))
		}
	case bgp.RF_IPv4_MPLS, bgp.RF_IPv6_MPLS:
		for i, ls := range LabelStacks() {
			add(fmt.Sprintf("%s-labels%v", pfx[0], ls.Labels), must(bgp.NewLabeledIPAddrPrefix(pfx[0], LabelStacks()[i])))
		}
		for _, px := range pfx[1:] {
			add(fmt.Sprintf("%s-labels[16]", px), must(bgp.NewLabeledIPAddrPrefix(px, LabelStacks()[0])))
		}
	case bgp.RF_IPv4_VPN, bgp.RF_IPv6_VPN, bgp.RF_IPv4_VPN_MC, bgp.RF_IPv6_VPN_MC:
		add(fmt.Sprintf("%s-rd0-labels[16]", pfx[0]), must(bgp.NewLabeledVPNIPAddrPrefix(pfx[0], LabelStacks()[0], rd0())))
		for i := range RDs()[1:] {
			add(fmt.Sprintf("%s-rd%d-labels[16]", pfx[0], i+1), must(bgp.NewLabeledVPNIPAddrPrefix(pfx[0], LabelStacks()[0], RDs()[i+1])))
		}
		for i, ls := range LabelStacks()[1:] {
			add(fmt.Sprintf("%s-rd0-labels%v", pfx[0], ls.Labels), must(bgp.NewLabeledVPNIPAddrPrefix(pfx[0], LabelStacks()[i+1], rd0())))
		}
		for _, px := range pfx[1:] {
			add(fmt.Sprintf("%s-rd0-labels[16]", px), must(bgp.NewLabeledVPNIPAddrPrefix(px, LabelStacks()[0], rd0())))
		}
	case bgp.RF_VPLS:
		add("basic", bgp.NewVPLSNLRI(rd0(), 1, 1, 8, 100))
		for i := range u16s {
			add(fmt.Sprintf("bounds%d", i), bgp.NewVPLSNLRI(RDs()[i%len(RDs())], u16s[i], u16s[(i+1)%4], u16s[(i+2)%4], labels20[i]))
		}
		add("label-max", bgp.NewVPLSNLRI(rd0(), 0xffff, 0xffff, 0xffff, 0xfffff))
	case bgp.RF_EVPN:
		add("ad/basic", bgp.NewEVPNEthernetAutoDiscoveryRoute(rd0(), esi0(), 0, 100))
		for i, e := range ESIs() {
			add(fmt.Sprintf("ad/esi%d", i), bgp.NewEVPNEthernetAutoDiscoveryRoute(RDs()[i%len(RDs())], e, u32s[i%4], u24s[i%4]))
		}
		add("macip/noip", must(bgp.NewEVPNMacIPAdvertisementRoute(rd0(), esi0(), 0, "aa:bb:cc:dd:ee:ff", netip.Addr{}, []uint32{100})))
		add("macip/v4", must(bgp.NewEVPNMacIPAdvertisementRoute(rd0(), esi0(), 0xffffffff, "00:00:00:00:00:00", a("192.0.2.1"), []uint32{0xffffff})))
		add("macip/v6-2labels", must(bgp.NewEVPNMacIPAdvertisementRoute(rd0(), ESIs()[2], 1, "ff:ff:ff:ff:ff:ff", a("2001:db8::1"), []uint32{0, 0xffffff})))
		add("macip/v4-2labels", must(bgp.NewEVPNMacIPAdvertisementRoute(RDs()[3], ESIs()[4], 1, "aa:bb:cc:dd:ee:ff", a("0.0.0.0"), []uint32{1, 2})))
		add("mcast/v4", must(bgp.NewEVPNMulticastEthernetTagRoute(rd0(), 0, a("192.0.2.1"))))
		add("mcast/v6", must(bgp.NewEVPNMulticastEthernetTagRoute(RDs()[5], 0xffffffff, a("2001:db8::1"))))
		add("es/v4", must(bgp.NewEVPNEthernetSegmentRoute(rd0(), ESIs()[2], a("192.0.2.1"))))
		add("es/v6", must(bgp.NewEVPNEthernetSegmentRoute(RDs()[3], ESIs()[1], a("2001:db8::1"))))
		add("prefix/v4", must(bgp.NewEVPNIPPrefixRoute(rd0(), esi0(), 0, 24, a("10.1.2.0"), a("192.0.2.1"), 100)))
		add("prefix/v4-0", must(bgp.NewEVPNIPPrefixRoute(rd0(), esi0(), 0xffffffff, 0, a("0.0.0.0"), a("0.0.0.0"), 0)))
		add("prefix/v4-32", must(bgp.NewEVPNIPPrefixRoute(RDs()[2], ESIs()[1], 1, 32, a("255.255.255.255"), a("255.255.255.255"), 0xffffff)))
		add("prefix/v6", must(bgp.NewEVPNIPPrefixRoute(rd0(), esi0(), 0, 64, a("2001:db8:1::"), a("2001:db8::1"), 100)))
		add("prefix/v6-128", must(bgp.NewEVPNIPPrefixRoute(rd0(), esi0(), 0, 128, a("2001:db8::1"), a("::"), 0xffffff)))
		add("ipmsi/basic", bgp.NewEVPNIPMSIRoute(rd0(), 0, rt0()))
	case bgp.RF_RTC_UC:
		add("default", bgp.NewRouteTargetMembershipNLRI(0, nil))
		add("as-only", bgp.NewRouteTargetMembershipNLRI(65000, nil))
		add("as-max-only", bgp.NewRouteTargetMembershipNLRI(0xffffffff, nil))
		add("rt-2as", bgp.NewRouteTargetMembershipNLRI(65000, rt0()))
		add("rt-4as", bgp.NewRouteTargetMembershipNLRI(0, bgp.NewFourOctetAsSpecificExtended(bgp.EC_SUBTYPE_ROUTE_TARGET, 0xffffffff, 0xffff, true)))
		add("rt-ip", bgp.NewRouteTargetMembershipNLRI(0xffffffff, must(bgp.NewIPv4AddressSpecificExtended(bgp.EC_SUBTYPE_ROUTE_TARGET, a("192.0.2.1"), 1, true))))
		// partial route targets; the bits beyond the mask length are zero (canonical form)
		for _, s := range []string{"65000:0:0/33", "65000:0:0/48", "65000:65000:0/64", "65000:65000:65536/80", "65000:65000:100/95"} {
			add("partial-"+s, must(bgp.ParseRouteTargetMembershipNLRI(s)))
		}
	case bgp.RF_IPv4_ENCAP, bgp.RF_IPv6_ENCAP:
		for _, ad := range addrs {
			add(ad.String(), must(bgp.NewEncapNLRI(ad)))
		}
	case bgp.RF_FS_IPv4_UC, bgp.RF_FS_IPv6_UC:
		for i, c := range flowComponents(f) {
			add(fmt.Sprintf("rule%d-%s", i, c[0].Type()), must(bgp.NewFlowSpecUnicast(f, c)))
		}
	case bgp.RF_FS_IPv4_VPN, bgp.RF_FS_IPv6_VPN, bgp.RF_FS_L2_VPN:
		for i, c := range flowComponents(f) {
			add(fmt.Sprintf("rule%d-%s", i, c[0].Type()), must(bgp.NewFlowSpecVPN(f, RDs()[i%len(RDs())], c)))
		}
	case bgp.RF_OPAQUE:
		add("k1-v0", bgp.NewOpaqueNLRI([]byte("k"), nil))
		add("k0-v0", bgp.NewOpaqueNLRI(nil, nil))
		add("k3-v5", bgp.NewOpaqueNLRI([]byte("key"), []byte("value")))
		add("k255-v1", bgp.NewOpaqueNLRI(bytesN(255, 0), []byte{0}))
		add("k256-v300", bgp.NewOpaqueNLRI(bytesN(256, 1), bytesN(300, 2)))
	case bgp.RF_LS:
		return lsNLRIs()
	case bgp.RF_SR_POLICY_IPv4:
		add("basic", must(bgp.NewSRPolicy(f, bgp.SRPolicyIPv4NLRILen, 1, 100, a("192.0.2.1").AsSlice())))
		add("zero", must(bgp.NewSRPolicy(f, bgp.SRPolicyIPv4NLRILen, 0, 0, a("0.0.0.0").AsSlice())))
		add("max", must(bgp.NewSRPolicy(f, bgp.SRPolicyIPv4NLRILen, 0xffffffff, 0xffffffff, a("255.255.255.255").AsSlice())))
	case bgp.RF_SR_POLICY_IPv6:
		add("basic", must(bgp.NewSRPolicy(f, bgp.SRPolicyIPv6NLRILen, 1, 100, a("2001:db8::1").AsSlice())))
		add("zero", must(bgp.NewSRPolicy(f, bgp.SRPolicyIPv6NLRILen, 0, 0, a("::").AsSlice())))
		add("max", must(bgp.NewSRPolicy(f, bgp.SRPolicyIPv6NLRILen, 0xffffffff, 0xffffffff, a("ffff:ffff:ffff:ffff:ffff:ffff:ffff:ffff").AsSlice())))
	case bgp.RF_MUP_IPv4, bgp.RF_MUP_IPv6:
		teid := a("0.0.0.100")
		for i, px := range pfx[:5] {
			add("isd/"+px.String(), bgp.NewMUPInterworkSegmentDiscoveryRoute(RDs()[i%len(RDs())], px))
		}
		for _, ad := range addrs {
			add("dsd/"+ad.String(), bgp.NewMUPDirectSegmentDiscoveryRoute(rd0(), ad))
		}
		host := pfx[len(pfx)-2] // an all-ones host prefix
		add("t1st/basic", bgp.NewMUPType1SessionTransformedRoute(rd0(), host, teid, 9, addrs[0], nil))
		add("t1st/src", bgp.NewMUPType1SessionTransformedRoute(rd0(), host, a("255.255.255.255"), 0xff, addrs[2], addrp(addrs[0])))
		add("t1st/pfx0", bgp.NewMUPType1SessionTransformedRoute(rd0(), pfx[1], a("0.0.0.0"), 0, addrs[1], nil))
		add("t1st/tlvs", bgp.NewMUPType1SessionTransformedRoute(rd0(), pfx[0], teid, 9, addrs[0], nil,
			bgp.NewMUPSessionParametersTLV(teid, 9), bgp.NewMUPInterworkEndpointTLV(addrs[0]), bgp.NewMUPSourceAddressTLV(addrs[2]),
			bgp.NewMUPUnknownTLV(200, []byte{0xde, 0xad})))
		al := uint8(addrs[0].BitLen())
		add("t2st/noteid", bgp.NewMUPType2SessionTransformedRoute(rd0(), al, addrs[0], a("0.0.0.0")))
		add("t2st/teid32", bgp.NewMUPType2SessionTransformedRoute(rd0(), al+32, addrs[0], a("255.255.255.255")))
		add("t2st/teid8", bgp.NewMUPType2SessionTransformedRoute(RDs()[3], al+8, addrs[2], a("12.0.0.0")))
		add("t2st/teid12", bgp.NewMUPType2SessionTransformedRoute(rd0(), al+12, addrs[1], a("12.48.0.0")))
		add("t2st/tlvs", bgp.NewMUPType2SessionTransformedRoute(rd0(), al+32, addrs[0], teid,
			bgp.NewMUPSessionParametersTLV(teid, 0), bgp.NewMUPUnknownTLV(0, nil)))
	}
	return out
}

// AllNLRIs is the union over Families().
func AllNLRIs() []NLRI {
	var out []NLRI
	for _, f := range Families() {
		out = append(out, NLRIs(f)...)
	}
	return out
}

// NextHopsFor returns the next hops a MP_REACH_NLRI of the family is built with (nil for the
// families that carry none).
func NextHopsFor(f bgp.Family) [][]netip.Addr {
	switch f {
	case bgp.RF_FS_IPv4_UC, bgp.RF_FS_IPv4_VPN, bgp.RF_FS_IPv6_UC, bgp.RF_FS_IPv6_VPN, bgp.RF_FS_L2_VPN, bgp.RF_OPAQUE:
		return [][]netip.Addr{nil}
	}
	if f.Afi() == bgp.AFI_IP6 {
		// the third one: IPv6 routes over an IPv4 session (the next hop is a plain IPv4 address,
		// written as an IPv4-mapped IPv6 address)
		return [][]netip.Addr{{a("2001:db8::1")}, {a("2001:db8::1"), a("fe80::1")}, {a("192.0.2.1")}}
	}
	return [][]netip.Addr{{a("192.0.2.1")}, {a("2001:db8::1")}, {a("2001:db8::1"), a("fe80::1")}}
}
