package server

// C07 part "handover" — stopping the outgoing connection manager (administrative stop, collision loss,
// graceful restart, OpenSent -> OpenConfirm on the inbound connection all end in (*outgoingConnManager).stop
// or stopWithNotification) at every instant of the manager's life, INCLUDING the instants at which one of the
// manager's goroutines sits between two of its own steps.
//
// The manager and the FSM goroutine talk through channels (the hand-over channel fsm.outgoingConnCh, the
// context, a WaitGroup). E-SIM runs the goroutines of one event in the runtime's order and E-SCHED steers only
// lock/atomic operations, so the interleavings "stop() while the manager is half-way through X" were reached by
// neither. Here every record the manager's goroutines log (the FSM logger is supplied by the harness) and the
// return of the dial seam is a *park site*: the goroutine that gets there is held (durably blocked inside the
// synctest bubble, so virtual time and every other goroutine go on), the stop is issued, and only when the
// stopper has gone as far as it can without the parked goroutine is that goroutine released. Enumerated
// exhaustively: remote scripts x stop kind x (every stop instant between script steps + every park site, with
// the stop issued at once or after the remote has finished its script).
//
// Oracle, after the stop has returned and 10 s of virtual time have passed (RFC 4271 8.2.2 ManualStop, and
// "the reported state matches the real one": nothing of the stopped attempt may survive):
//   - stop returns (within 10 virtual seconds of the release);
//   - the hand-over channel is empty: no connection with a completed OPEN exchange is left for the next Active;
//   - every connection the dial produced is closed by the daemon;
//   - after stopWithNotification(Cease) a connection on which the daemon's OPEN went out and that was still open
//     when the stop was issued carries a NOTIFICATION before it is closed;
//   - the manager's goroutines are gone (the bubble would otherwise never end: checked by a goroutine census).

import (
	"context"
	"errors"
	"fmt"
	"log/slog"
	"net"
	"net/netip"
	"runtime"
	"strings"
	"sync"
	"testing"
	"testing/synctest"
	"time"

	"github.com/eapache/channels"
	"github.com/osrg/gobgp/v4/internal/verif/vr"
	"github.com/osrg/gobgp/v4/pkg/config/oc"
	"github.com/osrg/gobgp/v4/pkg/packet/bgp"
)

type c07hCase struct {
	Script    string `json:"script"`     // good | badopen | close | silent
	Notify    bool   `json:"notify"`     // stopWithNotification(Cease/Administrative Shutdown) instead of stop()
	StopAfter int    `json:"stop_after"` // park < 0: the stop is issued after this many script steps (0..c07hSteps)
	Park      int    `json:"park"`       // >= 0: hold the goroutine that emits the Park-th record and stop then
	Late      bool   `json:"late"`       // with Park: let the remote finish its script before the stop is issued
}

func (c c07hCase) String() string {
	k := "stop()"
	if c.Notify {
		k = "stopWithNotification(Cease/2)"
	}
	if c.Park >= 0 {
		l := "at once"
		if c.Late {
			l = "after the remote finished its script"
		}
		return fmt.Sprintf("remote script %s, %s issued %s while the goroutine emitting record #%d is held", c.Script, k, l, c.Park)
	}
	return fmt.Sprintf("remote script %s, %s issued after step %d", c.Script, k, c.StopAfter)
}

// script steps: 1 = virtual time moves past the first connect delay (the dial is pending), 2 = the dial is
// answered with a connection, 3 = the remote acts (valid OPEN / OPEN with a bad version / close / nothing);
// 4-6 = the same again for the manager's next attempt (4 waits for the OpenSent hold timer of a silent remote
// and the connect-retry time; on the second connection the remote always answers with a valid OPEN)
const c07hSteps = 6

type c07hResult struct {
	records   []string
	parkedAt  string
	reached   bool
	problems  []string // "key|text"
	outcome   string
	goroutine string
}

func c07hRun(t *testing.T, c c07hCase) (res c07hResult) {
	synctest.Test(t, func(t *testing.T) {
		park := &simPark{want: c.Park, reached: make(chan struct{}), release: make(chan struct{})}
		var remotes []*simParkRemote
		var rmu sync.Mutex
		dialAns := make(chan net.Conn, 1)
		dialPending := false
		verifRandHook = func() float64 { return 1.0 }
		verifDialHook = func(ctx context.Context, d *net.Dialer, network, address string) (net.Conn, error) {
			rmu.Lock()
			dialPending = true
			rmu.Unlock()
			defer func() { rmu.Lock(); dialPending = false; rmu.Unlock() }()
			tm := time.NewTimer(d.Timeout)
			defer tm.Stop()
			select {
			case conn := <-dialAns:
				// a completed dial returns its connection whatever happened to the context meanwhile
				rmu.Lock()
				dialPending = false
				rmu.Unlock()
				park.site("seam:dial-return")
				return conn, nil
			case <-ctx.Done():
				return nil, ctx.Err()
			case <-tm.C:
				return nil, errors.New("dial tcp: i/o timeout")
			}
		}
		defer func() { verifDialHook, verifRandHook = nil, nil }()

		gConf := &oc.Global{}
		gConf.Config.As = 65001
		gConf.Config.RouterId = netip.MustParseAddr("1.1.1.1")
		pConf := &oc.Neighbor{}
		pConf.Config.NeighborAddress = netip.MustParseAddr("10.0.0.1")
		pConf.State.NeighborAddress = netip.MustParseAddr("10.0.0.1")
		pConf.Config.PeerAs = 65002
		pConf.Config.LocalAs = 65001
		pConf.Transport.Config.RemotePort = 179
		pConf.Transport.Config.LocalAddress = netip.MustParseAddr("0.0.0.0")
		pConf.Timers.Config.HoldTime = 90
		pConf.Timers.Config.KeepaliveInterval = 30
		pConf.Timers.Config.ConnectRetry = 5

		f := newFSM(gConf, pConf, bgp.BGP_FSM_ACTIVE, slog.New(simParkAll{park}))
		f.h = &fsmHandler{fsm: f, outgoing: channels.NewInfiniteChannel(), callback: func(*fsmMsg) {}}
		ctx, cancel := context.WithCancel(context.Background())
		synctest.Wait()
		before := runtime.NumGoroutine()

		ocm := newOutGoingConnManager(ctx, f) // what active() does on entry
		f.outgoingConnMgr = ocm

		var remote *simParkRemote
		step := func(i int) {
			switch i {
			case 1:
				time.Sleep(minConnectRetryInterval*time.Second + time.Millisecond)
			case 4:
				if c.Script == "silent" {
					time.Sleep(time.Duration(holdtimeOpensent) * time.Second)
					synctest.Wait()
				}
				time.Sleep(5*time.Second + time.Millisecond)
			case 2, 5:
				rmu.Lock()
				pend := dialPending
				rmu.Unlock()
				if !pend {
					return
				}
				sc, bc := simPipe([4]byte{10, 0, 0, 254}, [4]byte{10, 0, 0, 1}, 40000, 179)
				remote = &simParkRemote{conn: bc}
				remotes = append(remotes, remote)
				go remote.reader()
				dialAns <- sc
			case 3, 6:
				if remote == nil || remote.acted {
					return
				}
				rm := remote
				rm.acted = true
				script := c.Script
				if i == 6 {
					script = "good"
				}
				switch script {
				case "good", "badopen":
					m, _ := bgp.NewBGPOpenMessage(65002, 90, netip.MustParseAddr("2.2.2.2"),
						[]bgp.OptionParameterInterface{bgp.NewOptionParameterCapability(
							[]bgp.ParameterCapabilityInterface{bgp.NewCapFourOctetASNumber(65002)})})
					b, _ := m.Serialize()
					if script == "badopen" {
						b[19] = 3 // version
					}
					rm.write(b)
				case "close":
					rm.mu.Lock()
					rm.selfClose = true
					rm.mu.Unlock()
					rm.conn.Close()
				case "silent":
				}
			}
			synctest.Wait()
		}
		parked := func() bool {
			select {
			case <-park.reached:
				return true
			default:
				return false
			}
		}

		done := 0
		limit := c07hSteps
		if c.Park < 0 {
			limit = c.StopAfter
		}
		synctest.Wait()
		for done < limit && !(c.Park >= 0 && parked()) {
			done++
			step(done)
		}
		res.reached = parked()
		if res.reached && c.Late {
			for done < c07hSteps {
				done++
				step(done)
			}
		}
		// which connections are still open when the stop is issued
		openAtStop := map[*simParkRemote]bool{}
		for _, r := range remotes {
			if !r.closed() {
				openAtStop[r] = true
			}
		}
		park.freeze()
		stopped := make(chan struct{})
		go func() {
			if c.Notify {
				ocm.stopWithNotification(bgp.NewBGPNotificationMessage(bgp.BGP_ERROR_CEASE, bgp.BGP_ERROR_SUB_ADMINISTRATIVE_SHUTDOWN, nil))
			} else {
				ocm.stop()
			}
			close(stopped)
		}()
		synctest.Wait() // the stopper has gone as far as it can while the parked goroutine is held
		close(park.release)
		synctest.Wait()
		time.Sleep(10 * time.Second)
		synctest.Wait()

		bad := func(key, format string, a ...any) {
			res.problems = append(res.problems, key+"|"+fmt.Sprintf(format, a...))
		}
		stopReturned := false
		select {
		case <-stopped:
			stopReturned = true
		default:
			bad("stop-does-not-return", "the stop has not returned 10 s (virtual) after it was issued")
		}
		if n := len(f.outgoingConnCh); n != 0 {
			bad("connection-left-in-handover-channel", "%d connection(s) with a completed OPEN exchange left in the hand-over channel after the stop", n)
		}
		var shape []string
		for i, r := range remotes {
			types, notif := r.messages()
			shape = append(shape, fmt.Sprintf("conn%d:%v:closed=%v", i, types, r.closed()))
			r.mu.Lock()
			self := r.selfClose
			r.mu.Unlock()
			if !r.closed() {
				bad("connection-survives-stop", "connection %d is still open after the stop (daemon wrote message types %v)", i, types)
				continue
			}
			if self {
				continue
			}
			for _, ty := range types {
				if ty == 0xff {
					bad("garbage-on-connection", "connection %d: partial / malformed data written by the daemon (%v)", i, types)
				}
			}
			sentOpen := len(types) > 0 && types[0] == bgp.BGP_MSG_OPEN
			if c.Notify && sentOpen && openAtStop[r] && len(notif) == 0 {
				bad("no-notification-on-stopped-connection", "connection %d: the daemon's OPEN went out, the connection was open when stopWithNotification was called, and it was closed without any NOTIFICATION (types %v)", i, types)
			}
			if len(notif) > 1 {
				bad("two-notifications", "connection %d: %d NOTIFICATIONs", i, len(notif))
			}
		}
		// clean-up: whatever is left must be released for the bubble to end
		cancel()
		for _, r := range remotes {
			r.shut()
		}
		for {
			select {
			case oc := <-f.outgoingConnCh:
				oc.conn.Close()
				continue
			default:
			}
			break
		}
		if !stopReturned {
			<-stopped
		}
		f.h.outgoing.Close()
		f.outgoingCh.Close()
		synctest.Wait()
		if after := runtime.NumGoroutine(); after > before-2 { // the two InfiniteChannel pumps are gone as well
			buf := make([]byte, 1<<16)
			buf = buf[:runtime.Stack(buf, true)]
			if strings.Contains(string(buf), "outgoingConnManager") || strings.Contains(string(buf), "recvMessage") {
				bad("manager-goroutine-left", "a goroutine of the manager is still alive after the stop and the clean-up")
			}
		}
		res.records = park.records
		res.parkedAt = park.parkedAt
		res.outcome = strings.Join(shape, ";")
		if len(remotes) == 0 {
			res.outcome = "no-connection"
		}
	})
	return res
}

func c07hJudge(r *vr.Report, t *testing.T, c c07hCase) c07hResult {
	r.Eval()
	res := c07hRun(t, c)
	site := "none"
	if c.Park >= 0 {
		site = "not-reached"
		if res.reached {
			site = res.parkedAt
		}
	}
	r.NT(fmt.Sprintf("%s/%v/%d/%s/%v", c.Script, c.Notify, c.StopAfter, site, c.Late))
	r.Outcome(fmt.Sprintf("%s:park=%s:%s", c.Script, site, res.outcome))
	r.Transitions++
	for _, p := range res.problems {
		k, txt, _ := strings.Cut(p, "|")
		r.Violationf("C07:handover:"+k, c, "%s (held at %q): %s", c, res.parkedAt, txt)
	}
	return res
}

func TestVerif_C07_Handover(t *testing.T) {
	r := vr.Start(t, "C07", "handover")
	defer r.Finish()
	r.Rule = "remote script {good OPEN, OPEN with bad version, close after connect, silent} x {stop(), stopWithNotification(Cease/2)} x (stop issued after each of the 0..6 script steps (two connection attempts) + for every record the manager's goroutines log and the return of the dial: that goroutine held there, stop issued at once / after the remote finished its script, goroutine released when the stopper can go no further); oracle: stop returns, hand-over channel empty, every dialled connection closed, NOTIFICATION on a connection that carried our OPEN, no manager goroutine left; non-trivial = distinct (script, kind, instant, park site, late)"
	r.Assumptions = append(r.Assumptions, "park sites are the manager's log records and the dial seam's return: interleavings between two operations with no record between them are not separated", "a select with several ready cases takes whichever the runtime picks (every pick is judged by the same oracle)")
	if r.ReplayPath() != "" {
		var c c07hCase
		if err := r.LoadReplay(&c); err != nil {
			t.Fatal(err)
		}
		c07hJudge(r, t, c)
		return
	}
	sites := map[string]bool{}
	maxRecords := 0
	for _, script := range []string{"good", "badopen", "close", "silent"} {
		for _, notify := range []bool{false, true} {
			k := 0
			for after := 0; after <= c07hSteps; after++ {
				res := c07hJudge(r, t, c07hCase{Script: script, Notify: notify, StopAfter: after, Park: -1})
				if len(res.records) > k {
					k = len(res.records)
				}
			}
			// park sites: the records of the longest undisturbed run; holding a goroutine can uncover further
			// records (a retry after a failure), so the index runs on until a run no longer reaches it
			for p := 0; p < k+8; p++ {
				reachedAny := false
				for _, late := range []bool{false, true} {
					res := c07hJudge(r, t, c07hCase{Script: script, Notify: notify, StopAfter: -1, Park: p, Late: late})
					if res.reached {
						reachedAny = true
						sites[res.parkedAt] = true
					}
				}
				if !reachedAny && p >= k {
					break
				}
				if p+1 > maxRecords {
					maxRecords = p + 1
				}
			}
		}
	}
	r.States = int64(len(sites))
	r.Bounds = map[string]any{"scripts": 4, "stop_kinds": 2, "script_steps": c07hSteps, "park_sites_distinct": len(sites), "max_park_index": maxRecords}
	var names []string
	for s := range sites {
		names = append(names, s)
	}
	r.Extra = map[string]any{"park_sites": names}
	if len(sites) < 5 {
		t.Fatalf("ENGINE-ERROR vacuous exploration: only %d park sites were reached (%v): the manager's records changed, the part has to be re-anchored", len(sites), names)
	}
}
