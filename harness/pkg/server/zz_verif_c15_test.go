package server

// C15 — soft reset and route refresh equal a fresh evaluation under the current policy.
// Scenario "softreset": the "routes" scenario (announce / withdraw from several bots) extended with
// policy changes drawn from a catalogue (import or export, global assignment) and soft reset in / out /
// both and ROUTE-REFRESH from a bot. Whenever a direction is "clean" (no policy change since the last
// reset of that direction) the daemon's state must equal a from-scratch evaluation under the CURRENT
// policy: Loc-RIB == import policy applied to the accepted Adj-RIB-In routes; each bot's accumulated
// view == from-scratch export. A reset in a clean state must change nothing.

import (
	"context"
	"fmt"
	"strings"
	"testing"
	"time"

	api "github.com/osrg/gobgp/v4/api"
	"github.com/osrg/gobgp/v4/internal/pkg/table"
	"github.com/osrg/gobgp/v4/internal/verif/vr"
	"github.com/osrg/gobgp/v4/pkg/packet/bgp"
)

type c15Scenario struct {
	*simRoutesScenario
	imp, exp           int  // catalogue index currently configured
	impDirty, expDirty bool // policy changed since the last reset of that direction
	before             map[string]string
	beforeRib          string
	lastWasCleanReset  bool
	pols               string // if set: only these catalogue indices are offered (sharp drivers)
	noRR, importOnly   bool
	exportOnly         bool
}

func init() {
	simScenarios["softreset"] = func(arg string) simScenario {
		base := simScenarios["routes"](arg + ";noflap;nopeers;noapi;oracle=c01").(*simRoutesScenario)
		sc := &c15Scenario{simRoutesScenario: base}
		for _, kv := range strings.Split(arg, ";") {
			k, v, _ := strings.Cut(kv, "=")
			switch k {
			case "pols":
				sc.pols = v
			case "norr":
				sc.noRR = true
			case "importonly":
				sc.importOnly = true
			case "exportonly":
				sc.exportOnly = true
			}
		}
		return sc
	}
}

const c15NPol = simNPol

func (sc *c15Scenario) setPolicies(w *simWorld) { simSetPolicies(w, sc.imp, sc.exp) }

func (sc *c15Scenario) Enabled(w *simWorld) []simEvent {
	ev := sc.simRoutesScenario.Enabled(w)
	for k := 0; k < c15NPol; k++ {
		if sc.pols != "" && !strings.Contains(sc.pols, fmt.Sprint(k)) {
			continue
		}
		if k != sc.imp {
			ev = append(ev, simEvent{Op: "pol", A: 0, B: k})
		}
		if k != sc.exp && !sc.importOnly {
			ev = append(ev, simEvent{Op: "pol", A: 1, B: k})
		}
	}
	if !sc.exportOnly {
		ev = append(ev, simEvent{Op: "softin"})
	}
	if !sc.importOnly {
		ev = append(ev, simEvent{Op: "softout"})
		if !sc.exportOnly {
			ev = append(ev, simEvent{Op: "softboth"})
		}
	}
	for i := range w.bots {
		if !sc.noRR && (!sc.exportOnly || i > 0) {
			ev = append(ev, simEvent{Op: "rr", Bot: i})
		}
	}
	return ev
}

func (sc *c15Scenario) snapshot(w *simWorld) {
	sc.before = map[string]string{}
	for _, b := range w.bots {
		sc.before[b.spec.Name] = simViewString(b.view)
	}
	sc.beforeRib = fmt.Sprint(w.ribDump(w.s.globalRib))
}

func (sc *c15Scenario) Apply(w *simWorld, e simEvent) {
	sc.lastWasCleanReset = false
	reset := func(dir api.ResetPeerRequest_Direction) {
		w.must(w.s.ResetPeer(context.Background(), &api.ResetPeerRequest{Address: "all", Soft: true, Direction: dir}))
	}
	switch e.Op {
	case "pol":
		if e.A == 0 {
			sc.imp, sc.impDirty = e.B, true
		} else {
			sc.exp, sc.expDirty = e.B, true
		}
		sc.setPolicies(w)
	case "softin":
		sc.snapshot(w)
		// a soft reset in re-evaluates import; its consequences are exported under the current
		// export policy, so it is "clean" only if export is clean too
		sc.lastWasCleanReset = !sc.impDirty && !sc.expDirty
		reset(api.ResetPeerRequest_DIRECTION_IN)
		sc.impDirty = false
	case "softout":
		sc.snapshot(w)
		sc.lastWasCleanReset = !sc.expDirty && !sc.impDirty
		reset(api.ResetPeerRequest_DIRECTION_OUT)
		sc.expDirty = false
	case "softboth":
		sc.snapshot(w)
		sc.lastWasCleanReset = !sc.expDirty && !sc.impDirty
		reset(api.ResetPeerRequest_DIRECTION_BOTH)
		sc.impDirty, sc.expDirty = false, false
	case "rr":
		// ROUTE-REFRESH only refreshes one bot: it does not make the export direction clean for
		// the others, so the dirty flags stay; the per-bot oracle below handles it
		sc.snapshot(w)
		w.bots[e.Bot].sendMsg(bgp.NewBGPRouteRefreshMessage(1, 0, 1))
	default:
		sc.simRoutesScenario.Apply(w, e)
		return
	}
	w.settle()
	w.advance(time.Second)
	sc.foldNew(w)
}

func (sc *c15Scenario) Check(w *simWorld, last *simEvent) {
	w.stat(fmt.Sprintf("check-impDirty=%v-expDirty=%v", sc.impDirty, sc.expDirty))
	// export clean (and import clean, otherwise the Loc-RIB itself is not what the current policy
	// would give and "export of the Loc-RIB" is still well defined but about the old import state —
	// the C01 oracle is about the Loc-RIB as it is, so it applies whenever export is clean)
	if !sc.expDirty && sc.exp != 0 {
		// vacuity guard: is the export policy in force and does it do anything here?
		for _, b := range w.bots {
			p := w.peer(b)
			if p == nil || p.State() != bgp.BGP_FSM_ESTABLISHED {
				continue
			}
			for _, f := range p.negotiatedRFList() {
				for _, path := range w.s.getPossibleBest(p, f) {
					pre, opts, stop := w.s.prePolicyFilterpath(p, path, nil)
					if stop || pre == nil {
						continue
					}
					opts.Validate = w.s.roaTable.Validate
					out := p.policy.ApplyPolicy(p.TableID(), table.POLICY_DIRECTION_EXPORT, pre, opts)
					if out == nil {
						w.stat("export-policy-rejects-a-route")
					} else if simAttrCanon(out.GetPathAttrs(), nil) != simAttrCanon(pre.GetPathAttrs(), nil) {
						w.stat("export-policy-modifies-a-route")
					}
				}
			}
		}
	}
	if !sc.expDirty {
		n0 := len(w.viol)
		sc.simRoutesScenario.checkExport(w, last)
		for i := n0; i < len(w.viol); i++ {
			w.viol[i].Key = strings.Replace(w.viol[i].Key, "C01:", "C15:export-after-reset:", 1)
		}
	} else if last != nil && last.Op == "rr" {
		// after ROUTE-REFRESH the refreshed bot (v4 only) must match the current export policy
		b := w.bots[last.Bot]
		if p := w.peer(b); p != nil && p.State() == bgp.BGP_FSM_ESTABLISHED {
			exp, _ := sc.expectedExport(w, b, p)
			have := map[string]string{}
			for k, v := range b.view {
				if strings.HasPrefix(k, bgp.RF_IPv4_UC.String()+"|") {
					have[k] = v
				}
			}
			want := map[string]string{}
			for k, v := range exp {
				if strings.HasPrefix(k, bgp.RF_IPv4_UC.String()+"|") {
					want[k] = v
				}
			}
			// a refresh re-sends what is currently exported; routes that the new policy rejects are
			// not withdrawn by a plain (non-enhanced) refresh, so only "announced == export" is
			// required for the routes the export contains
			for k, v := range want {
				if have[k] != v {
					w.violate("C15:route-refresh:refreshed-route-differs", "%s sent ROUTE-REFRESH; route %s is %q in its view but the current export gives %q", b.spec.Name, k, have[k], v)
				}
			}
			w.stat("rr-checked")
		}
	}
	if !sc.impDirty {
		sc.checkImport(w)
	}
	if sc.lastWasCleanReset {
		w.stat("clean-reset-checked")
		for _, b := range w.bots {
			if a := simViewString(b.view); a != sc.before[b.spec.Name] {
				w.violate("C15:repeated-reset-changes-view", "a soft reset with no policy change pending changed what %s holds:\nbefore\n%s\nafter\n%s", b.spec.Name, sc.before[b.spec.Name], a)
			}
		}
		if a := fmt.Sprint(w.ribDump(w.s.globalRib)); a != sc.beforeRib {
			w.violate("C15:repeated-reset-changes-rib", "a soft reset with no policy change pending changed the Loc-RIB:\nbefore %s\nafter %s", sc.beforeRib, a)
		}
	}
}

// checkImport: Loc-RIB == current import policy applied afresh to every accepted Adj-RIB-In route.
func (sc *c15Scenario) checkImport(w *simWorld) {
	want := map[string]string{}
	for _, b := range w.bots {
		p := w.peer(b)
		if p == nil {
			continue
		}
		for _, path := range p.adjRibIn.PathList(p.configuredRFlist(), true) {
			out := w.s.policy.ApplyPolicy(table.GLOBAL_RIB_NAME, table.POLICY_DIRECTION_IMPORT, path, &table.PolicyOptions{Info: p.peerInfo.Load(), Validate: w.s.roaTable.Validate})
			if out == nil {
				w.stat("import-policy-rejects-a-route")
				continue
			}
			if simAttrCanon(out.GetPathAttrs(), nil) != simAttrCanon(path.GetPathAttrs(), nil) {
				w.stat("import-policy-modifies-a-route")
			}
			want[fmt.Sprintf("%s|%s|%s|%d", out.GetFamily(), out.GetNlri(), b.addr(), out.RemoteID())] = simAttrCanon(out.GetPathAttrs(), nil)
		}
	}
	have := map[string]string{}
	for _, r := range w.ribDump(w.s.globalRib) {
		have[fmt.Sprintf("%s|%s|%s|%d", r.Fam, r.Prefix, r.Src, r.RID)] = r.Attrs
	}
	w.stat("import-compared")
	if len(want) > 0 {
		w.stat("import-nonempty")
	}
	if a, e := simViewString(have), simViewString(want); a != e {
		d := simDiff(have, want)
		w.violate("C15:loc-rib-differs-from-fresh-import:"+d.class, "import policy %d in force and reset: the Loc-RIB holds\n%s but a fresh evaluation of the accepted Adj-RIB-In routes gives\n%s%s", sc.imp, a, e, d.text)
	}
}

func (sc *c15Scenario) Key(w *simWorld) string {
	return fmt.Sprintf("imp=%d exp=%d dirty=%v/%v|%s", sc.imp, sc.exp, sc.impDirty, sc.expDirty, w.stateKey())
}

func TestVerif_C15_Sim(t *testing.T) {
	r := vr.Start(t, "C15", "sim")
	defer r.Finish()
	r.Rule = "explicit-state BFS over histories of route announcements/withdrawals, import/export policy changes from a 7-entry catalogue (accept all, reject prefix, reject community, set MED, prepend, add community, remove a community), soft reset in/out/both and ROUTE-REFRESH, on the real daemon in virtual time; in every state whose direction is clean the daemon's Loc-RIB / each bot's accumulated view is compared with a from-scratch evaluation under the current policy; non-trivial = distinct canonical daemon state"
	if r.ReplayPath() != "" {
		var rp simReplay
		if err := r.LoadReplay(&rp); err != nil {
			t.Fatal(err)
		}
		simReplayOne(t, r, rp)
		return
	}
	depth, budget := 3, 90*time.Second
	cfgs := []string{"ee", "ei"}
	if vr.Thorough() {
		depth, budget = 4, 10*time.Minute
		cfgs = []string{"ee", "ei", "ec", "ea", "eee"}
	}
	for _, c := range cfgs {
		simExplore(t, r, simExploreCfg{Scenario: "softreset", Arg: "cfg=" + c + ";npfx=2;nvar=2", Depth: depth, Budget: budget})
	}
	// small sharp driver: an ADD-PATH source (two path-ids per prefix, one of them a route that the
	// input loop check rejects), one prefix, import policy switched between "accept all" and "reject
	// community", soft reset in — deep histories over a tiny alphabet
	deep := 5
	if vr.Thorough() {
		deep = 7
	}
	simExplore(t, r, simExploreCfg{Scenario: "softreset", Arg: "cfg=ea;npfx=1;nvar=4;src=1;pols=02;norr;importonly", Depth: deep, Budget: budget})
	// second sharp driver: a plain source and an ADD-PATH receiver (send-max 2), one prefix in two variants
	// (one carries the community that policy 2 rejects), export / import policy switched between "accept
	// all" and "reject community", all three soft resets — a replacement that the export policy rejects
	// must take the previous version away from the ADD-PATH peer as well
	simExplore(t, r, simExploreCfg{Scenario: "softreset", Arg: "cfg=ea;npfx=1;nvar=2;src=0;pols=02;norr;noflap;noapi;nopeers", Depth: deep, Budget: budget})
	// import policy "remove a community" against "accept all": a repeated reset must change nothing
	simExplore(t, r, simExploreCfg{Scenario: "softreset", Arg: "cfg=ee;npfx=1;nvar=2;src=0;pols=06;norr;noflap;noapi;nopeers;importonly", Depth: deep, Budget: budget})
	// three sources of one prefix (the first one's route carries the community the import policy rejects) and an
	// ADD-PATH receiver with room for all of them: routes leave and re-enter the Loc-RIB through policy switches
	// and soft resets while others arrive - every path keeps a path identifier of its own
	simExplore(t, r, simExploreCfg{Scenario: "softreset", Arg: "cfg=eeeB;npfx=1;nvar=2;vmap=100;nowd;src=012;pols=02;norr;noflap;noapi;nopeers;importonly", Depth: deep + 2, Budget: budget})
	// third sharp driver: export policy switched between "accept all" and "reject community", soft reset out
	// and ROUTE-REFRESH from the receiver: what a refresh hands over must be remembered as sent
	simExplore(t, r, simExploreCfg{Scenario: "softreset", Arg: "cfg=ee;npfx=1;nvar=2;src=0;pols=02;noflap;noapi;nopeers;exportonly", Depth: deep + 2, Budget: budget})
	// fourth sharp driver: ADD-PATH receivers whose prefix is exactly AT the send-max limit (one source and send-max 1;
	// two sources and send-max 2), export policy switched between "accept all" and "set MED", soft reset out and
	// ROUTE-REFRESH: the paths already advertised must be re-sent with the changed attributes although there is no
	// room for a further path
	simExplore(t, r, simExploreCfg{Scenario: "softreset", Arg: "cfg=eA;npfx=1;nvar=1;src=0;pols=03;noflap;noapi;nopeers;exportonly", Depth: deep, Budget: budget})
	simExplore(t, r, simExploreCfg{Scenario: "softreset", Arg: "cfg=eea;npfx=1;nvar=1;src=01;pols=03;nowd;noflap;noapi;nopeers;exportonly;norr", Depth: deep, Budget: budget})
	for _, k := range []string{"import-policy-rejects-a-route", "import-policy-modifies-a-route", "export-policy-rejects-a-route", "export-policy-modifies-a-route"} {
		if r.Outcomes[k] == 0 && len(r.Violations) == 0 {
			t.Fatalf("ENGINE-ERROR vacuous exploration: no state in which %s: %v", k, r.Outcomes)
		}
	}
	if r.Outcomes["import-nonempty"] == 0 || r.Outcomes["export-nonempty"] == 0 || r.Outcomes["clean-reset-checked"] == 0 {
		t.Fatalf("ENGINE-ERROR vacuous exploration %v", r.Outcomes)
	}
	simConfirm(t, r, 5)
}
