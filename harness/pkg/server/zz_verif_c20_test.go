package server

import (
	"testing"
	"time"

	"github.com/osrg/gobgp/v4/internal/verif/vr"
)

// C20, history part: after ANY explored history, StopBgp returns, every connection is closed and every
// goroutine the daemon started has exited. The synctest bubble is the leak detector: it fails when its
// root goroutine returns while goroutines started inside it are still blocked. Teardown here does NOT
// force-drain the peers' queues (every other check does, so that a shutdown leak cannot fail them).
func TestVerif_C20_Sim(t *testing.T) {
	r := vr.Start(t, "C20", "sim")
	defer r.Finish()
	r.Rule = "explicit-state BFS over event histories of the routes scenario (announce/withdraw, session down/up, peer delete/add, API add/delete) plus a sharp driver with a prefix limit of 1 on one peer (over-limit teardown followed by anything); after each history the daemon is stopped WITHOUT the harness draining anything and the synctest bubble must drain (no goroutine left), no panic anywhere; non-trivial = distinct canonical daemon state before shutdown"
	if r.ReplayPath() != "" {
		var rp simReplay
		if err := r.LoadReplay(&rp); err != nil {
			t.Fatal(err)
		}
		simReplayOne(t, r, rp)
		return
	}
	depth, budget := 3, 60*time.Second
	cfgs := []string{"ee", "ei", "ec"}
	if vr.Thorough() {
		depth, budget = 4, 10*time.Minute
		cfgs = []string{"ee", "ei", "ec", "ss", "ea", "eic"}
	}
	for _, c := range cfgs {
		simExplore(t, r, simExploreCfg{Scenario: "routes", Arg: "cfg=" + c + ";oracle=none;nodrain", Depth: depth, Budget: budget})
	}
	// sharp driver: bot 0 has a prefix limit of 1, two prefixes, session flaps: the over-limit teardown
	// (Cease/1, administrative down) followed by anything else
	deep := 4
	if vr.Thorough() {
		deep = 6
	}
	simExplore(t, r, simExploreCfg{Scenario: "routes", Arg: "cfg=ee;oracle=none;nodrain;maxpfx=1;src=0;flap=0;noapi;nopeers;nvar=1", Depth: deep, Budget: budget})
	if r.Outcomes["up-did-not-establish"] == 0 && len(r.Violations) == 0 {
		t.Fatalf("ENGINE-ERROR vacuous: the prefix limit never took a peer down administratively: %v", r.Outcomes)
	}
	// auxiliary services: MRT dumping switched on at some point of the history
	simExplore(t, r, simExploreCfg{Scenario: "c20aux", Arg: "", Depth: 3, Budget: budget})
	simConfirm(t, r, 3)
}
