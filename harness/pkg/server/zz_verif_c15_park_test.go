package server

// C15 part "park" — policy changes, soft resets (in / out / both) and ROUTE-REFRESH applied while ONE goroutine of
// the daemon is held at one of its own log records or connection operations (park sites, DESIGN 11.2): an UPDATE
// still in the hands of a receive goroutine while the policy is replaced and the peers are soft-reset, an UPDATE
// being written to a peer while the export policy changes, ... Every script ends with a soft reset in both
// directions under the final policies, so at the quiescent end every established peer's accumulated view must be
// a fresh export of the Loc-RIB under the current policies, whatever order the racing things took effect in.

import (
	"fmt"
	"os"
	"sort"
	"strings"
	"sync/atomic"
	"testing"
	"time"

	"github.com/osrg/gobgp/v4/internal/verif/vr"
)

type c15pCase struct {
	Cfg    string `json:"cfg"`
	Script int    `json:"script"`
	Park   int    `json:"park"`
	N      int    `json:"n"`
}

func (c c15pCase) String() string {
	return fmt.Sprintf("cfg %s script %d, goroutine held at site #%d while the next %d event(s) are applied", c.Cfg, c.Script, c.Park, c.N)
}

var c15pScripts = [][]simEvent{
	// export policy rejecting a community, then an import policy rewriting MED, withdrawal, back to no export policy
	{{Op: "ann", Bot: 0, A: 0, B: 1}, {Op: "pol", A: 1, B: 2}, {Op: "softout"}, {Op: "ann", Bot: 1, A: 0, B: 0}, {Op: "pol", A: 0, B: 3},
		{Op: "softin"}, {Op: "wd", Bot: 0, A: 0}, {Op: "pol", A: 1, B: 0}, {Op: "softboth"}},
	// import policy rejecting a prefix, ROUTE-REFRESH from the observer, export policy adding a community
	{{Op: "ann", Bot: 0, A: 0, B: 0}, {Op: "ann", Bot: 0, A: 1, B: 1}, {Op: "pol", A: 0, B: 1}, {Op: "softin"}, {Op: "rr", Bot: 2},
		{Op: "pol", A: 1, B: 5}, {Op: "ann", Bot: 1, A: 1, B: 1}, {Op: "softboth"}},
	// prepend on export, a route replaced while the reset is under way, policy removed
	{{Op: "ann", Bot: 0, A: 0, B: 0}, {Op: "pol", A: 1, B: 4}, {Op: "softout"}, {Op: "ann", Bot: 0, A: 0, B: 1}, {Op: "softout"},
		{Op: "pol", A: 1, B: 0}, {Op: "pol", A: 0, B: 2}, {Op: "softboth"}},
}

func c15pRun(t *testing.T, c c15pCase) simParkScriptResult {
	return simParkScript(t, func() simParkScenario {
		return simScenarios["softreset"]("cfg=" + c.Cfg).(*c15Scenario)
	}, c15pScripts[c.Script], c.Park, c.N)
}

func c15pJudge(r *vr.Report, t *testing.T, c c15pCase) simParkScriptResult {
	r.Eval()
	res := c15pRun(t, c)
	site := "none"
	if c.Park >= 0 {
		site = "not-reached"
		if res.reached {
			site = res.parkedAt
		} else if res.skipped {
			site = "skipped-under-lock"
		}
	}
	r.NT(fmt.Sprintf("%s/%d/%s/%d", c.Cfg, c.Script, site, c.N))
	r.Outcome(fmt.Sprintf("%s:script%d:n=%d:%s", c.Cfg, c.Script, c.N, site))
	r.Transitions += int64(res.applied)
	if res.early {
		r.Outcome("held-goroutine-released-early(an event waited for it)")
	}
	if res.pn != "" {
		pn := res.pn
		if i := strings.Index(pn, "\n"); i > 0 {
			pn = pn[:i]
		}
		r.Violationf("C15:park:panic", c, "%s (held at %q): %s", c, res.parkedAt, pn)
	}
	for _, v := range res.viol {
		r.Violationf(strings.Replace(v.Key, "C15:", "C15:park:", 1)+":"+strings.ReplaceAll(strings.TrimPrefix(res.parkedAt, "log:"), " ", "-"), c, "%s (held at %q): %s", c, res.parkedAt, v.What)
	}
	return res
}

func TestVerif_C15_Park(t *testing.T) {
	r := vr.Start(t, "C15", "park")
	defer r.Finish()
	r.Rule = "whole daemon, three peers, three scripts of route changes, policy replacements (import / export), soft resets in / out / both and ROUTE-REFRESH, each ending with a soft reset in both directions x every record the daemon logs and every Write / Close it issues on a connection: the goroutine emitting it held there while the next 1, 2, 3 events of the script are applied, then released, the rest of the script applied; at the quiescent end every established peer's accumulated view = a fresh export of the Loc-RIB under the current policies; non-trivial = distinct (configuration, script, park site, n)"
	r.Assumptions = append(r.Assumptions, "park sites are the daemon's log records and its Write / Close calls on the (harness-owned) connections; sites reached with a peer's FSM lock or the table lock taken are skipped (counted in extra.skipped_under_lock); an event that has to wait for the held goroutine (management channel) releases it after 20 s of virtual time")
	if r.ReplayPath() != "" {
		var c c15pCase
		if err := r.LoadReplay(&c); err != nil {
			t.Fatal(err)
		}
		c15pJudge(r, t, c)
		return
	}
	var progress atomic.Int64
	var current atomic.Value
	go func() {
		last, since := int64(-1), time.Now()
		for {
			time.Sleep(2 * time.Second)
			if p := progress.Load(); p != last {
				last, since = p, time.Now()
				continue
			}
			if time.Since(since) > 90*time.Second {
				r.Cap(fmt.Sprintf("case never became quiescent (wall-clock watchdog, 90 s): %v; the exploration stopped there", current.Load()))
				r.Finish()
				os.Exit(0)
			}
		}
	}()
	run := func(c c15pCase) simParkScriptResult {
		current.Store(c.String())
		res := c15pJudge(r, t, c)
		progress.Add(1)
		return res
	}
	sites := map[string]bool{}
	occ, skipped := 0, 0
	cfgs := []string{"eee"}
	if vr.Thorough() {
		cfgs = []string{"eee", "eic", "eei"} // (no route-server clients: the soft-reset scenario assigns the global policy only)
	}
	for _, cfg := range cfgs {
		for s := range c15pScripts {
			base := run(c15pCase{Cfg: cfg, Script: s, Park: -1})
			k := base.records
			for p := 0; p < k+4; p++ {
				any, held := false, false
				for n := 1; n <= 3; n++ {
					res := run(c15pCase{Cfg: cfg, Script: s, Park: p, N: n})
					if res.reached {
						any, held = true, true
						sites[res.parkedAt] = true
					} else if res.skipped {
						skipped++
						any = true
					}
				}
				if held {
					occ++
				}
				if !any && p >= k {
					break
				}
			}
		}
	}
	var names []string
	for s := range sites {
		names = append(names, s)
	}
	sort.Strings(names)
	r.States = int64(len(sites))
	r.Bounds = map[string]any{"configurations": len(cfgs), "scripts": len(c15pScripts), "events_applied_while_held": "1..3", "park_sites_distinct": len(sites), "park_occurrences_held": occ}
	r.Extra = map[string]any{"park_sites": names, "skipped_under_lock": skipped}
	if occ < 10 {
		t.Fatalf("ENGINE-ERROR vacuous exploration: a goroutine was held at only %d occurrences (%v)", occ, names)
	}
	if r.Outcomes["held-goroutine-released-early(an event waited for it)"] > 0 {
		r.Extra["released_early"] = r.Outcomes["held-goroutine-released-early(an event waited for it)"]
	}
}
