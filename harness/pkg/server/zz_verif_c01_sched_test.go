//go:build verifshim

package server

import (
	"testing"
	"time"

	"github.com/osrg/gobgp/v4/internal/verif/vr"
	"github.com/osrg/gobgp/v4/pkg/packet/bgp"
)

// C01, schedule part: interleavings of the per-peer receive goroutines, FSM state changes and
// management operations, explored exhaustively up to a preemption bound.

func init() {
	rs := &simRoutesScenario{}
	ann := func(w *schedWorld, bot, pfx, variant int) *bgp.BGPMessage {
		return rs.updateMsg(w.bots[bot], pfx, variant, 0, false)
	}
	wd := func(w *schedWorld, bot, pfx int) *bgp.BGPMessage {
		return rs.updateMsg(w.bots[bot], pfx, 0, 0, true)
	}
	// s1: two sources announce the same prefix concurrently, one observer
	schedScenarios["c01.s1"] = &schedScenario{Name: "c01.s1",
		Setup: func(w *schedWorld) []schedThread {
			c01SchedBots(w, 3)
			for _, b := range w.bots {
				w.establish(b)
			}
			w.settleSetup()
			return []schedThread{
				{"recv-e0", func() { w.receive(w.bots[0], ann(w, 0, 0, 0)) }},
				{"recv-e1", func() { w.receive(w.bots[1], ann(w, 1, 0, 1)) }},
			}
		},
		Check: func(w *schedWorld) { schedCheckExport(w, "s1") }}
	// s1w: announce from one source while the current best's source withdraws
	schedScenarios["c01.s1w"] = &schedScenario{Name: "c01.s1w",
		Setup: func(w *schedWorld) []schedThread {
			c01SchedBots(w, 3)
			for _, b := range w.bots {
				w.establish(b)
			}
			w.receive(w.bots[0], ann(w, 0, 0, 0))
			w.settleSetup()
			return []schedThread{
				{"recv-e0-wd", func() { w.receive(w.bots[0], wd(w, 0, 0)) }},
				{"recv-e1", func() { w.receive(w.bots[1], ann(w, 1, 0, 1)) }},
			}
		},
		Check: func(w *schedWorld) { schedCheckExport(w, "s1w") }}
	// s2: the observer's Established transition concurrent with another peer's UPDATE
	schedScenarios["c01.s2"] = &schedScenario{Name: "c01.s2",
		Setup: func(w *schedWorld) []schedThread {
			c01SchedBots(w, 3)
			w.establish(w.bots[0])
			w.establish(w.bots[1])
			w.receive(w.bots[1], ann(w, 1, 1, 0)) // something already in the table
			w.prepare(w.bots[2])
			w.settleSetup()
			return []schedThread{
				{"fsm-e2-established", func() { w.stateChange(w.bots[2], bgp.BGP_FSM_ESTABLISHED, fsmOpenMsgNegotiated) }},
				{"recv-e0", func() { w.receive(w.bots[0], ann(w, 0, 0, 0)) }},
			}
		},
		Check: func(w *schedWorld) { schedCheckExport(w, "s2") }}
	// s2w: the observer's Established transition (initial table transfer) concurrent with the
	// WITHDRAWAL of a route that is already in the table: the withdrawal must not be overtaken by
	// the transfer's older snapshot
	schedScenarios["c01.s2w"] = &schedScenario{Name: "c01.s2w",
		Setup: func(w *schedWorld) []schedThread {
			c01SchedBots(w, 3)
			w.establish(w.bots[0])
			w.establish(w.bots[1])
			w.receive(w.bots[1], ann(w, 1, 1, 0))
			w.receive(w.bots[0], ann(w, 0, 0, 0))
			w.prepare(w.bots[2])
			w.settleSetup()
			return []schedThread{
				{"fsm-e2-established", func() { w.stateChange(w.bots[2], bgp.BGP_FSM_ESTABLISHED, fsmOpenMsgNegotiated) }},
				{"recv-e0-wd", func() { w.receive(w.bots[0], wd(w, 0, 0)) }},
			}
		},
		Check: func(w *schedWorld) { schedCheckExport(w, "s2w") }}
	// s4w: soft reset out / route refresh concurrent with a withdrawal
	schedScenarios["c01.s4w"] = &schedScenario{Name: "c01.s4w",
		Setup: func(w *schedWorld) []schedThread {
			c01SchedBots(w, 3)
			for _, b := range w.bots {
				w.establish(b)
			}
			w.receive(w.bots[0], ann(w, 0, 0, 0))
			w.receive(w.bots[1], ann(w, 1, 1, 0))
			w.settleSetup()
			return []schedThread{
				{"recv-e2-routerefresh", func() { w.receive(w.bots[2], bgp.NewBGPRouteRefreshMessage(1, 0, 1)) }},
				{"recv-e0-wd", func() { w.receive(w.bots[0], wd(w, 0, 0)) }},
			}
		},
		Check: func(w *schedWorld) { schedCheckExport(w, "s4w") }}
	// s3: peer-down of the best path's source concurrent with a replacement announcement
	schedScenarios["c01.s3"] = &schedScenario{Name: "c01.s3",
		Setup: func(w *schedWorld) []schedThread {
			c01SchedBots(w, 3)
			for _, b := range w.bots {
				w.establish(b)
			}
			w.receive(w.bots[0], ann(w, 0, 0, 0))
			w.settleSetup()
			return []schedThread{
				{"fsm-e0-down", func() { w.stateChange(w.bots[0], bgp.BGP_FSM_IDLE, fsmReadFailed) }},
				{"recv-e1", func() { w.receive(w.bots[1], ann(w, 1, 0, 1)) }},
			}
		},
		Check: func(w *schedWorld) { schedCheckExport(w, "s3") }}
	// s4: soft reset out (management thread) concurrent with an UPDATE
	schedScenarios["c01.s4"] = &schedScenario{Name: "c01.s4",
		Setup: func(w *schedWorld) []schedThread {
			c01SchedBots(w, 3)
			for _, b := range w.bots {
				w.establish(b)
			}
			w.receive(w.bots[0], ann(w, 0, 0, 0))
			w.settleSetup()
			return []schedThread{
				{"mgmt-softresetout", func() { _ = w.mgmt(func() error { return w.s.softResetOut("", bgp.Family(0), false) }) }},
				{"recv-e1", func() { w.receive(w.bots[1], ann(w, 1, 0, 1)) }},
			}
		},
		Check: func(w *schedWorld) { schedCheckExport(w, "s4") }}
}

func TestVerif_C01_Sched(t *testing.T) {
	r := vr.Start(t, "C01", "sched")
	defer r.Finish()
	r.Rule = "stateless DFS over thread interleavings at every lock / atomic / sync.Map operation of pkg/server and every lock of internal/pkg/table (iterative context bounding), threads = real receive loop of a peer, FSM loop tail delivering a state change, management critical section; each complete execution checked (every established bot's view under every sender coalescing partition == from-scratch export); non-trivial = distinct final daemon state reached"
	r.Assumptions = append(r.Assumptions,
		"scheduling points at synchronisation operations only (unsynchronised accesses are the race pass of C20)", "alternatives are taken only at operations on objects shared conflictingly by two threads in the execution at hand (partial-order reduction)",
		"RWMutex writer preference is not modelled", "FSM goroutines are replaced by harness threads executing the same statements")
	if r.ReplayPath() != "" {
		var rp schedReplay
		if err := r.LoadReplay(&rp); err != nil {
			t.Fatal(err)
		}
		schedReplayOne(t, r, rp)
		return
	}
	bound, budget := 1, 60*time.Second
	if vr.Thorough() {
		bound, budget = 2, 10*time.Minute
	}
	names := []string{"c01.s1", "c01.s2", "c01.s2w", "c01.s4w"}
	if vr.Thorough() {
		names = []string{"c01.s1", "c01.s1w", "c01.s2", "c01.s2w", "c01.s3", "c01.s4", "c01.s4w"}
	}
	for _, name := range names {
		schedExploreSharded(t, r, name, bound, 1, budget)
	}
}
