package table

// C11 part "lists": every list of route changes up to a length over a small alphabet, under
// ADD-PATH off/on x extended message off/on, through the real CreateUpdateMsgFromPaths and
// BGPMessage.Serialize, judged by the receiver model in zz_verif_c11_model_test.go.

import (
	"fmt"
	"strings"
	"testing"

	"github.com/osrg/gobgp/v4/internal/verif/vr"
)

// prefixes 0-3 IPv4, 4-5 IPv6, 6 VPNv4. Within a family they have the same length, so lists that
// differ only by a renaming of prefixes inside a family are equivalent; the enumeration keeps the
// representative in which prefixes of a family first appear in index order.
var c11Prefixes = []c11Prefix{
	{c11V4, 24, []byte{10, 0, 1, 0}},
	{c11V4, 24, []byte{10, 0, 2, 0}},
	{c11V4, 24, []byte{10, 0, 3, 0}},
	{c11V4, 24, []byte{10, 0, 4, 0}},
	{c11V6, 64, []byte{0x20, 0x01, 0x0d, 0xb8, 0, 1, 0, 0, 0, 0, 0, 0, 0, 0, 0, 0}},
	{c11V6, 64, []byte{0x20, 0x01, 0x0d, 0xb8, 0, 2, 0, 0, 0, 0, 0, 0, 0, 0, 0, 0}},
	{c11VPN, 24, []byte{10, 9, 0, 0}},
}

var (
	c11nh4  = []byte{192, 0, 2, 1}
	c11nh6  = []byte{0x20, 0x01, 0x0d, 0xb8, 0, 0, 0, 0, 0, 0, 0, 0, 0, 0, 0, 1}
	c11nhLL = append(append([]byte{}, c11nh6...), 0xfe, 0x80, 0, 0, 0, 0, 0, 0, 0, 0, 0, 0, 0, 0, 0, 1)
)

func c11A1(nh []byte) c11AttrSpec {
	return c11AttrSpec{Origin: 0, ASPath: []uint32{65001}, MED: -1, Filler: -1, NH: nh}
}
func c11A2(nh []byte) c11AttrSpec {
	return c11AttrSpec{Origin: 0, ASPath: []uint32{65001, 65002}, MED: 10, Comm: []uint32{65001<<16 | 100}, Filler: -1, NH: nh}
}

// attribute sets per family: a1, a2 (other attributes, same next hop as a1), a1 with another next hop
func c11A1mp(nh []byte) c11AttrSpec {
	a := c11A1(nh)
	a.MP = true
	return a
}

var (
	c11nh4x = []byte{192, 0, 2, 2}
	c11nh4y = []byte{192, 0, 2, 3}
)

// c11ListAttrSel: attribute-set indices used by c11Lists per family (nil: the first three of ipv4, all others)
var c11ListAttrSel map[int][]int

var c11AttrSets = [][]c11AttrSpec{
	// ipv4: a1, a2, a1 with an IPv6 next hop (RFC 8950); and, for the phase "mpv4" only, a1 received with its
	// IPv4 next hop inside MP_REACH_NLRI (RFC 4760 allows it), two different next hops
	{c11A1(c11nh4), c11A2(c11nh4), c11A1(c11nh6), c11A1mp(c11nh4x), c11A1mp(c11nh4y)},
	{c11A1(c11nh6), c11A2(c11nh6), c11A1(c11nhLL)}, // ipv6: a1, a2, a1 with global + link-local next hop
	{c11A1(c11nh4), c11A2(c11nh4)},                 // vpnv4: a1, a2
}
var c11AttrNames = [][]string{{"a1", "a2", "a1+v6nh", "a1+mp-nh-x", "a1+mp-nh-y"}, {"a1", "a2", "a1+linklocal"}, {"a1", "a2"}}

type c11Op struct {
	K  int    `json:"k"` // 0 announce, 1 withdraw, 2 end-of-rib
	P  int    `json:"p"` // prefix index; family for end-of-rib
	A  int    `json:"a"` // attribute-set index within the family
	ID uint32 `json:"id"`
}

func (o c11Op) String() string {
	switch o.K {
	case c11EOR:
		return "EOR(" + c11FamName[o.P] + ")"
	case c11Wd:
		return fmt.Sprintf("withdraw(%s,id%d)", c11Prefixes[o.P], o.ID)
	}
	return fmt.Sprintf("announce(%s,%s,id%d)", c11Prefixes[o.P], c11AttrNames[c11Prefixes[o.P].Fam][o.A], o.ID)
}

type c11ListCase struct {
	Part string  `json:"part"`
	Cfg  c11Cfg  `json:"cfg"`
	Ops  []c11Op `json:"ops"`
	Text string  `json:"text"`
}

type c11World struct {
	base  [][][]*Path // [prefix][attr set][id-1]
	recs  [][]c11Rec
	other [][]int
}

// c11NewWorld builds the stored paths. Local path identifiers come from the table's own
// destination.Calculate: for every prefix peer 1 announces first (id 1), then peer 2 (id 2); a
// later announcement of the same peer is an implicit withdraw and inherits the identifier.
func c11NewWorld(t testing.TB) *c11World {
	w := &c11World{}
	tbls := make([]*Table, 3)
	for f := range tbls {
		tbls[f] = NewTable(c11Logger(), c11Families[f])
	}
	peers := []*PeerInfo{c11Peer(1), c11Peer(2)}
	for f, sets := range c11AttrSets {
		w.recs = append(w.recs, nil)
		w.other = append(w.other, nil)
		for _, a := range sets {
			w.recs[f] = append(w.recs[f], c11ExpectedRec(f, a))
			w.other[f] = append(w.other[f], c11OtherLen(a))
		}
	}
	for _, p := range c11Prefixes {
		sets := c11AttrSets[p.Fam]
		per := make([][]*Path, len(sets))
		for ai, a := range sets {
			per[ai] = make([]*Path, 2)
			for id := 1; id <= 2; id++ {
				ps := c11MakePaths(p.Fam, a, []c11Prefix{p}, peers[id-1])
				if len(ps) != 1 {
					t.Fatalf("ENGINE-ERROR ProcessMessage returned %d paths for %v", len(ps), p)
				}
				tbls[p.Fam].update(ps[0])
				if ps[0].localID != uint32(id) {
					t.Fatalf("ENGINE-ERROR local path id of %v from peer %d is %d", p, id, ps[0].localID)
				}
				per[ai][id-1] = ps[0]
			}
		}
		w.base = append(w.base, per)
	}
	return w
}

func (w *c11World) items(ops []c11Op) []c11Item {
	items := make([]c11Item, len(ops))
	for i, o := range ops {
		if o.K == c11EOR {
			items[i] = c11Item{Kind: c11EOR, Fam: o.P, Path: NewEOR(c11Families[o.P])}
			continue
		}
		p := c11Prefixes[o.P]
		it := c11Item{Kind: o.K, Fam: p.Fam, Base: p.baseKey(), ID: o.ID, NLen: c11NLRILen(p.Fam, p.Bits)}
		if o.K == c11Ann {
			it.Rec = &w.recs[p.Fam][o.A]
			it.Spec = &c11AttrSets[p.Fam][o.A]
			it.Other = w.other[p.Fam][o.A]
			// the server hands clones of the stored path to the peer's queue
			it.Path = w.base[o.P][o.A][o.ID-1].Clone(false)
		} else {
			it.Path = w.base[o.P][0][o.ID-1].Clone(true)
		}
		items[i] = it
	}
	return items
}

var c11Cfgs = []c11Cfg{{false, false}, {true, false}, {false, true}, {true, true}}

func c11ListText(ops []c11Op) string {
	s := make([]string, len(ops))
	for i, o := range ops {
		s[i] = o.String()
	}
	return "[" + strings.Join(s, ", ") + "]"
}

func (w *c11World) run(c *c11Ctx, ops []c11Op, cfgs []c11Cfg) {
	items := w.items(ops)
	base := c.idx
	for ci, cfg := range cfgs {
		c.idx = base + int64(ci)
		c11Check(c, cfg, items, func() any {
			return c11ListCase{Part: "lists", Cfg: cfg, Ops: append([]c11Op{}, ops...), Text: c11ListText(ops)}
		}, nil)
	}
}

// c11Lists calls fn for every canonical list of exactly n operations that uses only the first m4
// IPv4 and the first m6 IPv6 prefixes.
func c11Lists(n, m4, m6 int, fn func(ops []c11Op)) {
	ops := make([]c11Op, 0, n)
	var rec func(u4, u6 int)
	rec = func(u4, u6 int) {
		if len(ops) == n {
			fn(ops)
			return
		}
		try := func(o c11Op, u4, u6 int) {
			ops = append(ops, o)
			rec(u4, u6)
			ops = ops[:len(ops)-1]
		}
		for pi, p := range c11Prefixes {
			n4, n6 := u4, u6
			switch p.Fam {
			case c11V4:
				if pi > u4 || pi >= m4 {
					continue
				}
				if pi == u4 {
					n4++
				}
			case c11V6:
				if pi-4 > u6 || pi-4 >= m6 {
					continue
				}
				if pi-4 == u6 {
					n6++
				}
			}
			sel := c11ListAttrSel[p.Fam]
			if sel == nil {
				for a := range c11AttrSets[p.Fam] {
					if p.Fam == c11V4 && a >= 3 {
						break
					}
					sel = append(sel, a)
				}
			}
			for _, a := range sel {
				for id := uint32(1); id <= 2; id++ {
					try(c11Op{K: c11Ann, P: pi, A: a, ID: id}, n4, n6)
				}
			}
			for id := uint32(1); id <= 2; id++ {
				try(c11Op{K: c11Wd, P: pi, ID: id}, n4, n6)
			}
		}
		for f := range c11Families {
			try(c11Op{K: c11EOR, P: f}, u4, u6)
		}
	}
	rec(0, 0)
}

func TestVerif_C11_Lists(t *testing.T) {
	r := vr.Start(t, "C11", "lists")
	defer r.Finish()
	r.Rule = "every list of <=L operations over {announce(P,attrs,local id), withdraw(P,local id), EOR(family)} in which the prefixes of a family first appear in index order (lists equal up to renaming same-length prefixes inside a family are run once), x {ADD-PATH off,on for all families} x {extended message off,on}; each list is packed by CreateUpdateMsgFromPaths, every message serialised and applied by the receiver model. evaluations = (list, config) pairs. distinct_nontrivial = distinct (config, packing shape) reached, shape = multiset of emitted messages described by (family, carrier fields, withdrawn count, announced count, attribute bytes hash) - not distinct lists"
	w := c11NewWorld(t)
	if r.ReplayPath() != "" {
		var cs c11ListCase
		if err := r.LoadReplay(&cs); err != nil {
			t.Fatal(err)
		}
		// the verdict is structural, a single execution decides; run a few more to show the emitted order varying
		c := c11NewCtx(r)
		for i := 0; i < 4; i++ {
			w.run(c, cs.Ops, []c11Cfg{cs.Cfg})
		}
		c11Flush(r, []*c11Ctx{c})
		return
	}
	maxLen := 4
	if vr.Thorough() {
		maxLen = 5
	}
	r.Bounds["max_list_length"] = maxLen
	r.Bounds["prefixes"] = "4 ipv4 /24, 2 ipv6 /64, 1 vpnv4 /24 (rd 65000:1, label 100)"
	r.Bounds["attribute_sets"] = "ipv4 {a1, a2, a1 with IPv6 next hop}; ipv6 {a1, a2, a1 with global+link-local}; vpnv4 {a1, a2}"
	r.Bounds["local_path_ids"] = "1,2 (assigned by destination.Calculate: peer 1 then peer 2)"
	r.Bounds["alphabet_letters"] = 57
	r.Bounds["configs"] = "addpath{off,on} x extended{off,on} for lists of length <=4; length 5 (thorough): addpath{off,on} x extended off, over the first 3 ipv4 prefixes, the first ipv6 prefix and the vpnv4 prefix"
	r.Bounds["symmetry"] = "prefixes of one family first appear in index order"
	W := vr.Workers()
	lists := map[string]int{}
	for n := 0; n <= maxLen; n++ {
		cfgs, m4, m6 := c11Cfgs, 4, 2
		if n > 4 {
			// extended message only moves the limit, which lists this short never approach
			cfgs, m4, m6 = c11Cfgs[:2], 3, 1
		}
		total := 0
		c11Lists(n, m4, m6, func([]c11Op) { total++ })
		lists[fmt.Sprint(n)] = total
		ctxs := make([]*c11Ctx, W)
		r.Parallel(W, func(wk int, rep *vr.Report) {
			c := c11NewCtx(rep)
			ctxs[wk] = c
			i := 0
			c11Lists(n, m4, m6, func(ops []c11Op) {
				i++
				if i%W != wk {
					return
				}
				c.idx = int64(i) * 4
				w.run(c, ops, cfgs)
				if c.WantSample() && i%(total/5+1) == wk {
					c.Sample(c11ListCase{Part: "lists", Cfg: cfgs[i%len(cfgs)], Ops: append([]c11Op{}, ops...), Text: c11ListText(ops)})
				}
			})
		})
		c11Flush(r, ctxs) // lengths in increasing order: the shortest failing list is the one kept
	}
	r.Bounds["lists_per_length"] = lists
	// phase "mpv4": IPv4 routes whose next hop arrived inside MP_REACH_NLRI (the attribute is stripped when the
	// message is packed, so it must still tell routes with different next hops apart), against the classic form
	c11ListAttrSel = map[int][]int{c11V4: {0, 3, 4}}
	defer func() { c11ListAttrSel = nil }()
	mpLists := 0
	for n := 1; n <= maxLen; n++ {
		total := 0
		c11Lists(n, 2, 0, func([]c11Op) { total++ })
		mpLists += total
		ctxs := make([]*c11Ctx, W)
		r.Parallel(W, func(wk int, rep *vr.Report) {
			c := c11NewCtx(rep)
			ctxs[wk] = c
			i := 0
			c11Lists(n, 2, 0, func(ops []c11Op) {
				i++
				if i%W != wk {
					return
				}
				c.idx = int64(1<<40) + int64(n)<<32 + int64(i)*4
				w.run(c, ops, c11Cfgs[:2])
			})
		})
		c11Flush(r, ctxs)
	}
	r.Bounds["phase_mpv4"] = fmt.Sprintf("%d lists of length <=%d over 2 ipv4 prefixes x {a1, a1 with next hop x in MP_REACH_NLRI, a1 with next hop y in MP_REACH_NLRI} (+ the vpnv4 prefix, withdrawals, EOR) x ADD-PATH {off,on}", mpLists, maxLen)
}
