package table

// C20, part "tablerace" (AUXILIARY, not enumerative - like part race): the table manager under the concurrency the
// daemon really gives it. Peers' UPDATEs are handled concurrently under the server's shared READ lock; only updates
// of the SAME prefix are serialised (per-prefix bucket). So different NLRIs are updated concurrently, and some
// updates read OTHER destinations: the EVPN MAC-mobility lookup reads every destination holding the same MAC and
// route target. The bodies below update different NLRIs from different "peers" free-running under the race
// detector (real sync package; a cooperative scheduler would blind the detector).

import (
	"fmt"
	"log/slog"
	"net/netip"
	"os"
	"os/exec"
	"regexp"
	"sort"
	"strings"
	"sync"
	"testing"
	"time"

	"github.com/osrg/gobgp/v4/internal/verif/vr"
	"github.com/osrg/gobgp/v4/pkg/packet/bgp"
)

type c20tBody struct {
	name string
	fams []bgp.Family
	// path i of peer k (different k => different NLRI)
	mk func(pi *PeerInfo, k, i int, withdraw bool) *Path
}

func c20tBodies() []c20tBody {
	rt := bgp.NewTwoOctetAsSpecificExtended(bgp.EC_SUBTYPE_ROUTE_TARGET, 65000, 100, true)
	esi := bgp.EthernetSegmentIdentifier{Type: bgp.ESI_ARBITRARY, Value: make([]byte, 9)}
	base := func(nh string, extra ...bgp.PathAttributeInterface) []bgp.PathAttributeInterface {
		panh, _ := bgp.NewPathAttributeNextHop(netip.MustParseAddr(nh))
		return append([]bgp.PathAttributeInterface{bgp.NewPathAttributeOrigin(0), panh}, extra...)
	}
	return []c20tBody{
		{"evpn-type2-same-mac-different-rd", []bgp.Family{bgp.RF_EVPN}, func(pi *PeerInfo, k, i int, wd bool) *Path {
			rd, _ := bgp.ParseRouteDistinguisher(fmt.Sprintf("6500%d:1", k+1))
			nlri, _ := bgp.NewEVPNMacIPAdvertisementRoute(rd, esi, 0, "aa:bb:cc:dd:ee:01", netip.MustParseAddr("10.0.0.1"), []uint32{100})
			attrs := base(fmt.Sprintf("192.0.2.%d", k+1), bgp.NewPathAttributeExtendedCommunities([]bgp.ExtendedCommunityInterface{rt, bgp.NewMacMobilityExtended(uint32(i), false)}))
			return NewPath(bgp.RF_EVPN, pi, bgp.PathNLRI{NLRI: nlri}, wd, attrs, time.Now(), false)
		}},
		{"ipv4-different-prefixes", []bgp.Family{bgp.RF_IPv4_UC}, func(pi *PeerInfo, k, i int, wd bool) *Path {
			nlri, _ := bgp.NewIPAddrPrefix(netip.MustParsePrefix(fmt.Sprintf("10.%d.%d.0/24", k+1, i%4)))
			return NewPath(bgp.RF_IPv4_UC, pi, bgp.PathNLRI{NLRI: nlri}, wd, base(fmt.Sprintf("192.0.2.%d", k+1)), time.Now(), false)
		}},
		{"vpnv4-different-rd", []bgp.Family{bgp.RF_IPv4_VPN}, func(pi *PeerInfo, k, i int, wd bool) *Path {
			rd, _ := bgp.ParseRouteDistinguisher(fmt.Sprintf("6500%d:1", k+1))
			nlri, _ := bgp.NewLabeledVPNIPAddrPrefix(netip.MustParsePrefix("10.9.0.0/24"), *bgp.NewMPLSLabelStack(100), rd)
			attrs := base(fmt.Sprintf("192.0.2.%d", k+1), bgp.NewPathAttributeExtendedCommunities([]bgp.ExtendedCommunityInterface{rt}))
			return NewPath(bgp.RF_IPv4_VPN, pi, bgp.PathNLRI{NLRI: nlri}, wd, attrs, time.Now(), false)
		}},
	}
}

// TestVerif_C20_TableRaceBody: one body (env VERIF_TRACE_BODY), free-running.
func TestVerif_C20_TableRaceBody(t *testing.T) {
	name := os.Getenv("VERIF_TRACE_BODY")
	if name == "" {
		t.Skip("body only")
	}
	for _, b := range c20tBodies() {
		if b.name != name {
			continue
		}
		tm := NewTableManager(slog.New(slog.DiscardHandler), b.fams)
		var wg sync.WaitGroup
		for k := 0; k < 3; k++ {
			wg.Add(1)
			go func(k int) {
				defer wg.Done()
				addr := netip.MustParseAddr(fmt.Sprintf("192.0.2.%d", k+1))
				pi := &PeerInfo{AS: uint32(65001 + k), ID: addr, Address: addr}
				for i := 0; i < 1500; i++ {
					tm.Update(b.mk(pi, k, i, false))
					if i%3 != 0 {
						tm.Update(b.mk(pi, k, i, true))
					}
				}
			}(k)
		}
		wg.Wait()
	}
}

var c20tFrame = regexp.MustCompile(`(?m)^  (github\.com/osrg/gobgp/v4/[^\s(]+)`)

func TestVerif_C20_TableRace(t *testing.T) {
	r := vr.Start(t, "C20", "tablerace")
	defer r.Finish()
	r.Rule = "AUXILIARY free-running pass under the Go race detector at the table manager: three sources update DIFFERENT NLRIs concurrently (what the daemon does under its shared read lock; same-prefix updates are serialised by the per-prefix bucket): EVPN MAC/IP routes of one MAC and route target under different RDs (MAC-mobility lookup reads the other destinations), IPv4 prefixes, VPNv4 routes of one prefix under different RDs; 1500 announce/withdraw rounds each, GOMAXPROCS 2 and 16; a reported race is a violation keyed by the two access sites"
	r.Assumptions = append(r.Assumptions, "the race detector observes the schedules that happened: this part samples, it does not enumerate")
	r.Exhaustive = false
	run := func(name, procs string) {
		cmd := exec.Command(os.Args[0], "-test.run=^TestVerif_C20_TableRaceBody$", "-test.timeout=5m")
		cmd.Env = append(os.Environ(), "VERIF_TRACE_BODY="+name, "GOMAXPROCS="+procs, "VERIF_OUT=", "GORACE=halt_on_error=0")
		out, err := cmd.CombinedOutput()
		r.Eval()
		s := string(out)
		replay := map[string]string{"body": name, "procs": procs}
		if strings.Contains(s, "WARNING: DATA RACE") {
			for _, blk := range strings.Split(s, "WARNING: DATA RACE")[1:] {
				if i := strings.Index(blk, "=================="); i > 0 {
					blk = blk[:i]
				}
				parts := strings.SplitN(blk, "Previous ", 2)
				site := func(x string) string {
					m := c20tFrame.FindStringSubmatch(x)
					if m == nil {
						return "?"
					}
					return strings.TrimPrefix(m[1], "github.com/osrg/gobgp/v4/")
				}
				a, b := site(parts[0]), "?"
				if len(parts) > 1 {
					b = site(parts[1])
				}
				ss := []string{a, b}
				sort.Strings(ss)
				if len(blk) > 3000 {
					blk = blk[:3000]
				}
				r.Violationf("race:"+ss[0]+"|"+ss[1], replay, "data race in the table manager while three sources run {%s} concurrently (GOMAXPROCS=%s):\n%s", name, procs, blk)
			}
			return
		}
		if err != nil {
			if len(s) > 2500 {
				s = s[len(s)-2500:]
			}
			r.Violationf("tablerace-body-failed:"+name, replay, "body {%s} failed: %v\n%s", name, err, s)
			return
		}
		r.NT(name + "@" + procs)
		r.Outcome("completed")
	}
	if r.ReplayPath() != "" {
		var c struct{ Body, Procs string }
		if err := r.LoadReplay(&c); err != nil {
			t.Fatal(err)
		}
		run(c.Body, c.Procs)
		return
	}
	for _, b := range c20tBodies() {
		for _, procs := range []string{"2", "16"} {
			run(b.name, procs)
		}
	}
}
