package bgpgen

import (
	"fmt"
	"strings"

	"github.com/osrg/gobgp/v4/pkg/packet/bgp"
)

// Capabilities returns every capability code the package knows (plus unknown codes), each field over
// its boundary domain, simplest first. The first item of each code is the representative used in
// combinations (CapabilityReps).
func Capabilities() []Cap {
	var out []Cap
	add := func(n string, c bgp.ParameterCapabilityInterface) { out = append(out, Cap{n, c}) }
	fams := []bgp.Family{bgp.RF_IPv4_UC, bgp.RF_IPv6_UC, bgp.RF_EVPN, bgp.RF_LS, bgp.NewFamily(0, 0), bgp.NewFamily(0xffff, 0xff)}

	for _, f := range fams {
		add(fmt.Sprintf("mp/%d-%d", f.Afi(), f.Safi()), bgp.NewCapMultiProtocol(f))
	}
	add("route-refresh", bgp.NewCapRouteRefresh())
	add("carrying-label-info", bgp.NewCapCarryingLabelInfo())
	add("extended-message", bgp.NewCapExtendedMessage())
	add("enhanced-route-refresh", bgp.NewCapEnhancedRouteRefresh())
	add("route-refresh-cisco", bgp.NewCapRouteRefreshCisco())

	// extended next hop: 1..3 tuples, AFI boundary values
	add("ext-nexthop/1", bgp.NewCapExtendedNexthop([]*bgp.CapExtendedNexthopTuple{bgp.NewCapExtendedNexthopTuple(bgp.RF_IPv4_UC, bgp.AFI_IP6)}))
	add("ext-nexthop/3", bgp.NewCapExtendedNexthop([]*bgp.CapExtendedNexthopTuple{
		bgp.NewCapExtendedNexthopTuple(bgp.RF_IPv4_UC, bgp.AFI_IP6),
		bgp.NewCapExtendedNexthopTuple(bgp.RF_IPv4_VPN, 0),
		bgp.NewCapExtendedNexthopTuple(bgp.NewFamily(0xffff, 0xff), 0xffff)}))
	add("ext-nexthop/42", bgp.NewCapExtendedNexthop(func() []*bgp.CapExtendedNexthopTuple {
		var t []*bgp.CapExtendedNexthopTuple
		for i := 0; i < 42; i++ { // 252 bytes: the largest value that fits the 1-octet length
			t = append(t, bgp.NewCapExtendedNexthopTuple(bgp.NewFamily(uint16(i), uint8(i)), uint16(i)))
		}
		return t
	}()))

	// graceful restart: flags x time boundary x 0..2 tuples
	for _, fl := range [][2]bool{{false, false}, {true, false}, {false, true}, {true, true}} {
		for _, tm := range []uint16{0, 1, 0xffe, 0xfff} {
			add(fmt.Sprintf("gr/r%v-n%v-t%d-0", fl[0], fl[1], tm), bgp.NewCapGracefulRestart(fl[0], fl[1], tm, nil))
		}
	}
	add("gr/tuples1", bgp.NewCapGracefulRestart(true, false, 120, []*bgp.CapGracefulRestartTuple{bgp.NewCapGracefulRestartTuple(bgp.RF_IPv4_UC, true)}))
	add("gr/tuples3", bgp.NewCapGracefulRestart(false, true, 120, []*bgp.CapGracefulRestartTuple{
		bgp.NewCapGracefulRestartTuple(bgp.RF_IPv4_UC, true), bgp.NewCapGracefulRestartTuple(bgp.RF_IPv6_UC, false),
		bgp.NewCapGracefulRestartTuple(bgp.NewFamily(0xffff, 0xff), true)}))

	for _, as := range []uint32{65001, 0, 1, 23456, 65535, 65536, 0xffffffff} {
		add(fmt.Sprintf("as4/%d", as), bgp.NewCapFourOctetASNumber(as))
	}

	for _, m := range []bgp.BGPAddPathMode{bgp.BGP_ADD_PATH_BOTH, bgp.BGP_ADD_PATH_NONE, bgp.BGP_ADD_PATH_RECEIVE, bgp.BGP_ADD_PATH_SEND, 0xff} {
		add(fmt.Sprintf("addpath/1-mode%d", m), bgp.NewCapAddPath([]*bgp.CapAddPathTuple{bgp.NewCapAddPathTuple(bgp.RF_IPv4_UC, m)}))
	}
	add("addpath/3", bgp.NewCapAddPath([]*bgp.CapAddPathTuple{
		bgp.NewCapAddPathTuple(bgp.RF_IPv4_UC, bgp.BGP_ADD_PATH_BOTH), bgp.NewCapAddPathTuple(bgp.RF_IPv6_UC, bgp.BGP_ADD_PATH_RECEIVE),
		bgp.NewCapAddPathTuple(bgp.NewFamily(0xffff, 0xff), bgp.BGP_ADD_PATH_SEND)}))

	for _, rt := range []uint32{0, 1, 0xfffffe, 0xffffff} {
		add(fmt.Sprintf("llgr/1-t%d", rt), bgp.NewCapLongLivedGracefulRestart([]*bgp.CapLongLivedGracefulRestartTuple{
			bgp.NewCapLongLivedGracefulRestartTuple(bgp.RF_IPv4_UC, rt&1 == 0, rt)}))
	}
	add("llgr/0", bgp.NewCapLongLivedGracefulRestart(nil))
	add("llgr/2", bgp.NewCapLongLivedGracefulRestart([]*bgp.CapLongLivedGracefulRestartTuple{
		bgp.NewCapLongLivedGracefulRestartTuple(bgp.RF_IPv4_UC, true, 3600), bgp.NewCapLongLivedGracefulRestartTuple(bgp.NewFamily(0xffff, 0xff), false, 0xffffff)}))

	for _, hd := range [][2]int{{4, 7}, {0, 0}, {1, 0}, {0, 1}, {64, 64}, {63, 1}} {
		add(fmt.Sprintf("fqdn/h%d-d%d", hd[0], hd[1]), bgp.NewCapFQDN(strings.Repeat("h", hd[0]), strings.Repeat("d", hd[1])))
	}
	for _, n := range []int{5, 1, 63, 64} {
		add(fmt.Sprintf("software-version/%d", n), bgp.NewCapSoftwareVersion(strings.Repeat("v", n)))
	}

	// unknown codes (0, an unassigned one, 255) with value lengths 0, 1, 253 (largest that fits an
	// optional parameter of 255 bytes)
	for _, code := range []bgp.BGPCapabilityCode{3, 0, 255} {
		for _, n := range []int{0, 1, 253} {
			var v []byte
			if n > 0 {
				v = bytesN(n, 0x10)
			}
			add(fmt.Sprintf("unknown/code%d-len%d", code, n), bgp.NewCapUnknown(code, v))
		}
	}
	return out
}

// capKind is the part of the name before the first '/'.
func kindOf(name string) string {
	if i := strings.IndexByte(name, '/'); i >= 0 {
		return name[:i]
	}
	return name
}

// CapabilityReps returns the simplest capability of each code (for combinations).
func CapabilityReps() []Cap {
	seen := map[string]bool{}
	var out []Cap
	for _, c := range Capabilities() {
		k := kindOf(c.Name)
		if !seen[k] {
			seen[k] = true
			out = append(out, c)
		}
	}
	return out
}
