package server

// C16 part "rtr" — after any sequence of RTR PDUs / session events / cache-server removals the ROA table equals
// the records announced and not withdrawn by the configured caches.
//
// E-SEQ: every event sequence of a fixed total length over the alphabet of two caches is delivered to the real
// roaManager (HandleROAEvent -> handleRTRMsg, DeleteServer) and the complete ROA table (ROATable.List per
// family) is compared, per source, with "refrtr" after EVERY step. No socket is ever opened: the clients are
// built exactly like newRoaClient builds them, minus the `go c.tryConnect()` dialler, and with an already
// cancelled context so that the re-dial goroutine the disconnect handler spawns returns before net.Dial.
// The lifetime timer is the real *time.Timer the handler arms; "expiry" = timer.Stop() reported it still
// armed, then the roaLifetimeout event it would have sent is delivered. Nothing waits for wall-clock time.

import (
	"context"
	"fmt"
	"log/slog"
	"net"
	"net/netip"
	"runtime/debug"
	"strconv"
	"strings"
	"testing"
	"time"

	"github.com/osrg/gobgp/v4/api"
	"github.com/osrg/gobgp/v4/internal/pkg/table"
	"github.com/osrg/gobgp/v4/internal/verif/vr"
	"github.com/osrg/gobgp/v4/pkg/packet/bgp"
	"github.com/osrg/gobgp/v4/pkg/packet/rtr"
)

// ---------------------------------------------------------------------------------------------
// alphabet

const (
	c16rCR = iota
	c16rAddA
	c16rAddB
	c16rAddC
	c16rRemA
	c16rRemB
	c16rRemC
	c16rEODSame
	c16rEODNew
	c16rCacheReset
	c16rSNOlder
	c16rSNEqual
	c16rSNNewer
	c16rDisc
	c16rExpiry
	c16rDelete
	c16rNEv
)

var c16rEvName = []string{"CacheResponse", "add-a", "add-b", "add-c6", "remove-a", "remove-b", "remove-c6", "EndOfData(same session)",
	"EndOfData(new session)", "CacheReset", "SerialNotify(older)", "SerialNotify(equal)", "SerialNotify(newer)", "disconnect(+reconnect)",
	"lifetime-expiry", "delete-server"}

// records: a and b share one prefix (one bucket), c is IPv6 with a's max-length and AS. Record a is the one both caches announce.
type c16rRec struct {
	Prefix netip.Addr
	Len    uint8
	MaxLen uint8
	AS     uint32
	V6     bool
}

var c16rRecs = []c16rRec{
	{netip.MustParseAddr("10.0.0.0"), 24, 24, 1, false},
	{netip.MustParseAddr("10.0.0.0"), 24, 25, 2, false},
	// same max-length and AS as record a, other prefix and family: a withdrawal of one must not be
	// mistaken for the other when records are matched by (max-length, AS, source) alone
	{netip.MustParseAddr("2001:d00::"), 24, 24, 1, true},
}

const c16rNRec = 3

var c16rHosts = []string{"192.0.2.1:323", "192.0.2.2:8282"}

// an event is cache*16+kind
func c16rEvString(e int) string {
	return fmt.Sprintf("%s:%s", []string{"A", "B"}[e/c16rNEv], c16rEvName[e%c16rNEv])
}

func c16rSeqString(seq []int) string {
	var s []string
	for _, e := range seq {
		s = append(s, c16rEvString(e))
	}
	return "[" + strings.Join(s, ", ") + "]"
}

// ---------------------------------------------------------------------------------------------
// refrtr: per-cache model written from RFC 8210 and the property text. Plain data only.

type c16rOp struct {
	rec int
	add bool
}

type c16rDiscTok struct {
	eodSince bool // an End-of-Data was committed after this disconnect
}

const (
	c16rNo = iota
	c16rYes
	c16rMaybe // an unframed response arrived while a full reload was owed: it may or may not have been the reload
)

type c16rCache struct {
	configured  bool
	data        [c16rNRec]bool // records announced and not withdrawn, as of the last completed response
	fuzzy       [c16rNRec]bool // presence unspecified (aborted response, protocol violation by the cache)
	inTxn       bool           // between Cache Response and End of Data
	txnFull     int            // the open response answers a Reset Query (it is the cache's complete database): no / yes / maybe
	txnPurged   bool           // the cache's data was purged while the response was open
	txnUnframed bool           // opened by a prefix PDU / End of Data without a Cache Response
	ops         []c16rOp
	needFull    int  // the router has to (re)load with a Reset Query, the next response is a full one: no / yes / maybe
	tainted     bool // the cache violated the framing; no claim until the session is re-established
	toks        []c16rDiscTok
}

func (c *c16rCache) work(newSession bool) [c16rNRec]bool {
	var w [c16rNRec]bool
	if !(c.txnFull == c16rYes || c.txnPurged || newSession) {
		w = c.data
	}
	for _, o := range c.ops {
		w[o.rec] = o.add
	}
	return w
}

func (c *c16rCache) openUnframed() {
	c.inTxn, c.txnPurged, c.txnUnframed, c.ops = true, false, true, nil
	c.txnFull = c16rNo
	if c.needFull != c16rNo {
		c.txnFull = c16rMaybe
	}
}

func (c *c16rCache) taint() {
	c.tainted = true
	for i := range c.fuzzy {
		c.fuzzy[i] = true
	}
}

// step applies one event. expiryDelivered tells whether the (real) timer was still armed, i.e. whether the
// expiry event reached the handler at all. It returns a label for the vacuity statistics.
func (c *c16rCache) step(kind int, expiryDelivered bool) string {
	if !c.configured {
		return "event-for-removed-cache"
	}
	switch kind {
	case c16rCR:
		if c.inTxn {
			// second Cache Response inside an open response: what was announced stays announced
			return "nested-cache-response(no-op)"
		}
		c.inTxn, c.txnFull, c.txnPurged, c.txnUnframed, c.ops = true, c.needFull, false, false, nil
		return "cache-response(" + [...]string{"incremental", "full", "maybe-full"}[c.txnFull] + ")"
	case c16rAddA, c16rAddB, c16rAddC, c16rRemA, c16rRemB, c16rRemC:
		add := kind <= c16rAddC
		rec := kind - c16rAddA
		if !add {
			rec = kind - c16rRemA
		}
		pre := ""
		if !c.inTxn {
			// prefix PDU without a Cache Response: the property counts it as an announcement/withdrawal all the same;
			// it opens a response; whether that response is the answer to an owed Reset Query is left open
			c.openUnframed()
			pre = "unframed:"
		}
		w := c.work(false)
		c.ops = append(c.ops, c16rOp{rec, add})
		switch {
		case add && w[rec]:
			return pre + "duplicate-announcement"
		case !add && !w[rec]:
			return pre + "withdrawal-of-unknown-record"
		case add:
			return pre + "announcement"
		}
		return pre + "withdrawal"
	case c16rEODSame, c16rEODNew:
		for i := range c.toks {
			c.toks[i].eodSince = true
		}
		pre := ""
		if !c.inTxn {
			c.openUnframed()
		}
		if c.txnUnframed {
			pre = "unframed:"
		}
		newS := kind == c16rEODNew
		w := c.work(newS)
		label := "end-of-data(incremental)"
		if c.tainted {
			label = "end-of-data(tainted)"
		} else {
			if c.txnFull == c16rYes || c.txnPurged || newS {
				c.fuzzy = [c16rNRec]bool{}
				label = "end-of-data(full)"
				if newS {
					label = "end-of-data(new-session)"
				}
			} else {
				touched := [c16rNRec]bool{}
				for _, o := range c.ops {
					c.fuzzy[o.rec] = false
					touched[o.rec] = true
				}
				if c.txnFull == c16rMaybe {
					label = "end-of-data(maybe-full)"
					for i := range touched {
						if !touched[i] && c.data[i] {
							c.fuzzy[i] = true // replaced by the reload, or kept by an incremental update
						}
					}
				}
			}
			c.data = w
			if newS && c.txnUnframed {
				// were these records announced "in" the old or the new session? the texts do not say
				for _, o := range c.ops {
					c.fuzzy[o.rec] = true
				}
			}
		}
		switch {
		case !c.txnUnframed:
			c.needFull = c16rNo // a framed response was completed: nothing is owed any more
		case c.needFull != c16rNo:
			c.needFull = c16rMaybe
		}
		c.inTxn, c.ops = false, nil
		return pre + label
	case c16rCacheReset, c16rSNOlder:
		c.needFull = c16rYes
		if c.inTxn {
			c.taint()
			return "ill-formed:reset-inside-response"
		}
		if kind == c16rCacheReset {
			return "cache-reset"
		}
		return "serial-notify(older)"
	case c16rSNEqual, c16rSNNewer:
		return "serial-notify(no-table-effect)"
	case c16rDisc:
		label := "disconnect"
		if c.inTxn {
			w := c.work(false)
			for i := range w {
				if w[i] != c.data[i] {
					c.fuzzy[i] = true
				}
			}
			for _, o := range c.ops { // touched by the aborted response: old, new or an intermediate state
				c.fuzzy[o.rec] = true
			}
			label = "disconnect(aborts-response)"
		}
		c.inTxn, c.ops = false, nil
		c.tainted = false
		c.needFull = c16rYes
		c.toks = append(c.toks, c16rDiscTok{})
		return label
	case c16rExpiry:
		tok := c.toks[0]
		c.toks = c.toks[1:]
		if !expiryDelivered {
			return "expiry(timer-was-cancelled)"
		}
		if tok.eodSince {
			return "expiry(after-successful-reload:no-purge)"
		}
		c.data = [c16rNRec]bool{}
		c.fuzzy = [c16rNRec]bool{}
		if c.tainted {
			c.taint()
		}
		if c.inTxn {
			c.txnPurged = true
		}
		return "expiry(purge)"
	case c16rDelete:
		*c = c16rCache{}
		return "delete-server"
	}
	return "?"
}

// view: what the table may hold for this cache now: lo = must be present, hi = may be present.
func (c *c16rCache) view() (lo, hi [c16rNRec]bool) {
	if !c.configured {
		return
	}
	lo, hi = c.data, c.data
	if c.inTxn {
		// a record may show its old state or any state the open response has put it in so far
		var cur [c16rNRec]bool
		if !(c.txnFull == c16rYes || c.txnPurged) {
			cur = c.data
		}
		for i := range cur {
			lo[i] = c.data[i] && cur[i] && c.txnFull != c16rMaybe
			hi[i] = c.data[i] || cur[i]
		}
		for _, o := range c.ops {
			lo[o.rec] = lo[o.rec] && o.add
			hi[o.rec] = hi[o.rec] || o.add
		}
	}
	for i := range c.fuzzy {
		if c.fuzzy[i] {
			lo[i], hi[i] = false, true
		}
	}
	return
}

// ---------------------------------------------------------------------------------------------
// binding to the implementation

var c16rLogger = slog.New(slog.DiscardHandler)

type c16rImpl struct {
	m       *roaManager
	clients [2]*roaClient
	timers  [2][]*time.Timer
	sess    [2]uint16
	serial  [2]uint32
}

// c16rAddServer mirrors roaManager.AddServer + newRoaClient field by field; the only differences are that no
// dialler goroutine is started and that the context is already cancelled (tryConnect then returns before Dial).
func c16rAddServer(m *roaManager, host string) (*roaClient, error) {
	address, port, err := net.SplitHostPort(host)
	if err != nil {
		return nil, err
	}
	lifetime := int64(3600)
	if _, ok := m.clientMap[host]; ok {
		return nil, fmt.Errorf("ROA server exists %s", host)
	}
	ctx, cancel := context.WithCancel(context.Background())
	cancel()
	c := &roaClient{
		host:        net.JoinHostPort(address, port),
		eventCh:     m.eventCh,
		lifetime:    lifetime,
		pendingROAs: make([]*table.ROA, 0),
		ctx:         ctx,
		cancelfnc:   cancel,
	}
	m.clientMap[host] = c
	return c, nil
}

func c16rNewImpl() *c16rImpl {
	im := &c16rImpl{m: newROAManager(table.NewROATable(c16rLogger), c16rLogger)}
	for i, h := range c16rHosts {
		c, err := c16rAddServer(im.m, h)
		if err != nil {
			panic(err)
		}
		im.clients[i] = c
		// the first connection: established() begins with softReset() (Reset Query); conn == nil, nothing is written
		_ = c.softReset()
	}
	return im
}

func (im *c16rImpl) close() {
	for i := range im.timers {
		for _, t := range im.timers[i] {
			t.Stop()
		}
		if t := im.clients[i].timer; t != nil {
			t.Stop()
		}
	}
}

var c16rPrefixPDU = func() (l [2][c16rNRec][]byte) {
	for flag := 0; flag < 2; flag++ {
		for i, r := range c16rRecs {
			b, err := rtr.NewRTRIPPrefix(r.Prefix, r.Len, r.MaxLen, r.AS, uint8(flag)).Serialize()
			if err != nil {
				panic(err)
			}
			l[flag][i] = b
		}
	}
	return
}()

func c16rMust(b []byte, err error) []byte {
	if err != nil {
		panic(err)
	}
	return b
}

// deliver performs one event on the real manager. It returns whether an expiry was actually delivered.
func (im *c16rImpl) deliver(cache, kind int) (delivered bool) {
	host := c16rHosts[cache]
	pdu := func(b []byte) {
		im.m.HandleROAEvent(&roaEvent{EventType: roaRTR, Src: host, Data: b, timestamp: time.Unix(1000, 0)})
	}
	switch kind {
	case c16rCR:
		pdu(c16rMust(rtr.NewRTRCacheResponse(im.sess[cache]).Serialize()))
	case c16rAddA, c16rAddB, c16rAddC:
		pdu(c16rPrefixPDU[1][kind-c16rAddA])
	case c16rRemA, c16rRemB, c16rRemC:
		pdu(c16rPrefixPDU[0][kind-c16rRemA])
	case c16rEODSame, c16rEODNew:
		if kind == c16rEODNew {
			im.sess[cache]++
		}
		im.serial[cache]++
		pdu(c16rMust(rtr.NewRTREndOfData(im.sess[cache], im.serial[cache]).Serialize()))
	case c16rCacheReset:
		pdu(c16rMust(rtr.NewRTRCacheReset().Serialize()))
	case c16rSNOlder:
		pdu(c16rMust(rtr.NewRTRSerialNotify(im.sess[cache], im.serial[cache]-1).Serialize()))
	case c16rSNEqual:
		pdu(c16rMust(rtr.NewRTRSerialNotify(im.sess[cache], im.serial[cache]).Serialize()))
	case c16rSNNewer:
		pdu(c16rMust(rtr.NewRTRSerialNotify(im.sess[cache], im.serial[cache]+1).Serialize()))
	case c16rDisc:
		cl := im.clients[cache]
		_, configured := im.m.clientMap[host]
		im.m.HandleROAEvent(&roaEvent{EventType: roaDisconnected, Src: host, timestamp: time.Unix(1000, 0)})
		if configured {
			if cl.timer != nil {
				im.timers[cache] = append(im.timers[cache], cl.timer)
			} else {
				im.timers[cache] = append(im.timers[cache], nil)
			}
			// the reconnect: roaConnected starts established(), whose first action is softReset() (Reset Query).
			// With conn == nil nothing is written; whatever bookkeeping softReset does for a reload is done.
			_ = cl.softReset()
		}
	case c16rExpiry:
		t := im.timers[cache][0]
		im.timers[cache] = im.timers[cache][1:]
		if t != nil && t.Stop() {
			im.m.HandleROAEvent(&roaEvent{EventType: roaLifetimeout, Src: host, timestamp: time.Unix(1000, 0)})
			return true
		}
	case c16rDelete:
		_ = im.m.DeleteServer(host)
	}
	return false
}

// table content as [cache][record]count; anything else goes to extra.
func (im *c16rImpl) snapshot() (cnt [2][c16rNRec]int, extra []string) {
	for _, fam := range []bgp.Family{bgp.RF_IPv4_UC, bgp.RF_IPv6_UC} {
		l, err := im.m.table.List(fam)
		if err != nil {
			extra = append(extra, "List error: "+err.Error())
			continue
		}
	next:
		for _, roa := range l {
			ones, _ := roa.Network.Mask.Size()
			ip, _ := netip.AddrFromSlice(roa.Network.IP)
			for ci, h := range c16rHosts {
				if roa.Src != h {
					continue
				}
				for ri, r := range c16rRecs {
					if r.V6 == (fam == bgp.RF_IPv6_UC) && r.Prefix == ip && int(r.Len) == ones && r.MaxLen == roa.MaxLen && r.AS == roa.AS {
						cnt[ci][ri]++
						continue next
					}
				}
			}
			extra = append(extra, fmt.Sprintf("%s/%d-%d AS%d src=%q in %v list", ip, ones, roa.MaxLen, roa.AS, roa.Src, fam))
		}
	}
	return
}

// ---------------------------------------------------------------------------------------------
// one case

type c16rCase struct {
	Start int   `json:"start"` // 0 = empty, 1 = both caches have loaded the shared record a
	Seq   []int `json:"seq"`
}

var c16rPreamble = []int{c16rCR, c16rAddA, c16rEODNew, c16rNEv + c16rCR, c16rNEv + c16rAddA, c16rNEv + c16rEODNew}

func c16rTopFrame() string {
	for _, ln := range strings.Split(string(debug.Stack()), "\n") {
		ln = strings.TrimSpace(ln)
		if strings.Contains(ln, "/gobgp/") && strings.Contains(ln, ".go:") && !strings.Contains(ln, "zz_verif_") {
			f := strings.Fields(ln)[0]
			if i := strings.Index(f, "/gobgp/"); i >= 0 {
				f = f[i+len("/gobgp/"):]
			}
			return f
		}
	}
	return "unknown"
}

func c16rTableString(cnt [2][c16rNRec]int) string {
	var s []string
	for ci := range cnt {
		for ri, n := range cnt[ci] {
			for k := 0; k < n; k++ {
				s = append(s, fmt.Sprintf("%s:%s", []string{"A", "B"}[ci], []string{"a", "b", "c6"}[ri]))
			}
		}
	}
	return "{" + strings.Join(s, " ") + "}"
}

// c16rRun executes one sequence; every step is checked.
func c16rRun(c *vr.Report, cs c16rCase) {
	im := c16rNewImpl()
	defer im.close()
	var model [2]c16rCache
	for i := range model {
		model[i] = c16rCache{configured: true, needFull: c16rYes}
	}
	full := cs.Seq
	pre := 0
	if cs.Start == 1 {
		full = append(append([]int{}, c16rPreamble...), cs.Seq...)
		pre = len(c16rPreamble)
	}
	c.Eval()
	var trace strings.Builder
	var reported [2][c16rNRec]bool
	var prevCnt [2][c16rNRec]int
	var wrongPurge [2]bool
	everLoose := false
	for step, e := range full {
		cache, kind := e/c16rNEv, e%c16rNEv
		var delivered bool
		var perr string
		func() {
			defer func() {
				if x := recover(); x != nil {
					perr = fmt.Sprintf("%v at %s", x, c16rTopFrame())
				}
			}()
			delivered = im.deliver(cache, kind)
		}()
		if perr != "" {
			c.Violationf("C16/rtr/panic:"+perr, cs, "panic %s at step %d of %s (start %d)", perr, step-pre, c16rSeqString(cs.Seq), cs.Start)
			return
		}
		prev := model[cache]
		label := model[cache].step(kind, delivered)
		if step >= pre {
			c.Outcome(label)
			c.Transitions++
		}
		cnt, extra := im.snapshot()
		if strings.HasPrefix(label, "expiry(after-successful-reload") {
			for ri := range cnt[cache] {
				if cnt[cache][ri] < prevCnt[cache][ri] {
					// the expiry purged records although a reload had completed; a buffered/in-flight record can hide
					// this until a later step - that later discrepancy has this root cause
					wrongPurge[cache] = true
				}
			}
		}
		prevCnt = cnt
		if len(extra) > 0 {
			c.Violationf("C16/rtr/unexpected-table-entry", cs, "after step %d of %s (start %d): %v", step-pre, c16rSeqString(cs.Seq), cs.Start, extra)
			return
		}
		for ci := range model {
			lo, hi := model[ci].view()
			for ri := 0; ri < c16rNRec; ri++ {
				n := cnt[ci][ri]
				if lo[ri] != hi[ri] {
					everLoose = true
				}
				ok := n <= 1 && (n == 1 || !lo[ri]) && (n == 0 || hi[ri])
				if ok {
					reported[ci][ri] = false
					continue
				}
				if reported[ci][ri] {
					continue // the same discrepancy, still standing: one defect is reported once per sequence
				}
				reported[ci][ri] = true
				key := c16rClassify(prev, &model[ci], ci == cache, kind, label, ri, n)
				if n == 0 && wrongPurge[ci] {
					key = "C16/rtr/overwritten-lifetime-timer-purges-reloaded-data"
				}
				min := cs
				if step >= pre {
					min.Seq = append([]int{}, cs.Seq[:step-pre+1]...)
				}
				c.Violationf(key, min,
					"start=%d sequence %s: after step %d (%s) the table holds %s; RFC 8210 model for cache %s record %s: must-be-present=%v may-be-present=%v, table has %d entries (model step: %s)",
					cs.Start, c16rSeqString(cs.Seq), step-pre, c16rEvString(e), c16rTableString(cnt), []string{"A", "B"}[ci], []string{"a", "b", "c6"}[ri], lo[ri], hi[ri], n, label)
			}
		}
		if step >= pre {
			fmt.Fprintf(&trace, "%d%d%d%d%d%d|", cnt[0][0], cnt[0][1], cnt[0][2], cnt[1][0], cnt[1][1], cnt[1][2])
		}
	}
	finalStrict := true
	for ci := range model {
		lo, hi := model[ci].view()
		if lo != hi {
			finalStrict = false
		}
	}
	switch {
	case !everLoose:
		c.Outcome("sequence:every-record-determined-at-every-step")
	case finalStrict:
		c.Outcome("sequence:final-table-fully-determined")
	default:
		c.Outcome("sequence:ends-inside-a-response-or-with-unspecified-records")
	}
	t := trace.String()
	if strings.Trim(t, "0|") != "" || cs.Start == 1 {
		c.NT(fmt.Sprintf("%d/%s", cs.Start, t))
	}
	if c.WantSample() && len(cs.Seq) >= 4 && finalStrict && !strings.HasSuffix(t, "000000|") && (cs.Seq[len(cs.Seq)-1]+cs.Seq[0])%6 == len(c.Samples) {
		c.Sample(map[string]any{"start": cs.Start, "sequence": c16rSeqString(cs.Seq), "table_after_each_step(A:a,b,c6 B:a,b,c6)": t})
	}
}

// c16rClassify gives a violation key per root cause (not per case).
func c16rClassify(prev c16rCache, now *c16rCache, sameCache bool, kind int, label string, rec, n int) string {
	if n > 1 {
		return "C16/rtr/duplicate-table-entry"
	}
	if !sameCache {
		return "C16/rtr/event-of-one-cache-changed-records-of-the-other"
	}
	extra := n == 1
	switch {
	case (kind == c16rEODSame) && extra && prev.inTxn && prev.txnFull == c16rYes && !prev.txnPurged && (prev.data[rec] || prev.fuzzy[rec]):
		// record was in the old database, is not in the complete new one, session id unchanged
		last := -1
		for i, o := range prev.ops {
			if o.rec == rec {
				last = i
			}
		}
		if last == -1 {
			return "C16/rtr/full-reload-same-session-keeps-stale-record"
		}
	case (kind == c16rExpiry) && !extra && strings.HasPrefix(label, "expiry(after-successful-reload"):
		return "C16/rtr/overwritten-lifetime-timer-purges-reloaded-data"
	}
	if (kind == c16rEODSame || kind == c16rEODNew) && extra && prev.inTxn {
		// announced and then withdrawn inside one response
		sawAdd, lastIsRem := false, false
		for _, o := range prev.ops {
			if o.rec == rec {
				if o.add {
					sawAdd = true
				}
				lastIsRem = !o.add
			}
		}
		if sawAdd && lastIsRem {
			return "C16/rtr/withdrawal-overtaken-by-buffered-announcement"
		}
	}
	dir := "missing"
	if extra {
		dir = "extra"
	}
	return fmt.Sprintf("C16/rtr/table-differs after=%s record-%s", strings.SplitN(label, "(", 2)[0], dir)
}

// ---------------------------------------------------------------------------------------------
// cache-server removal through the management API (the only caller of roaManager.DeleteServer): a cache that was
// configured as AddRpki configures it (key = JoinHostPort(address, port)), has loaded record a, and is then removed
// with DeleteRpki{Address, Port} must be gone from ListRpki and its records from ListRpkiTable.

type c16rAPICase struct {
	API  bool   `json:"api"`
	Addr string `json:"addr"`
	Port uint32 `json:"port"`
}

var c16rAPICases = []c16rAPICase{{true, "192.0.2.1", 323}, {true, "192.0.2.1", 8282}, {true, "2001:db8::1", 323}}

func c16rRunAPI(c *vr.Report, cs c16rAPICase) {
	c.Eval()
	s := NewBgpServer()
	go s.Serve()
	defer s.Stop()
	ctx := context.Background()
	host := net.JoinHostPort(cs.Addr, strconv.Itoa(int(cs.Port))) // BgpServer.AddRpki's key
	err := s.mgmtOperation(func() error {
		cl, err := c16rAddServer(s.roaManager, host)
		if err != nil {
			return err
		}
		_ = cl.softReset()
		for _, b := range [][]byte{c16rMust(rtr.NewRTRCacheResponse(1).Serialize()), c16rPrefixPDU[1][0], c16rMust(rtr.NewRTREndOfData(1, 1).Serialize())} {
			s.roaManager.HandleROAEvent(&roaEvent{EventType: roaRTR, Src: host, Data: b, timestamp: time.Unix(1000, 0)})
		}
		return nil
	}, false)
	if err != nil {
		c.Violationf("C16/rtr/api-setup-failed", cs, "cannot configure cache %s: %v", host, err)
		return
	}
	count := func() (servers, roas int) {
		_ = s.ListRpki(ctx, &api.ListRpkiRequest{}, func(*api.Rpki) { servers++ })
		_ = s.ListRpkiTable(ctx, &api.ListRpkiTableRequest{}, func(*api.Roa) { roas++ })
		return
	}
	s0, r0 := count()
	derr := s.DeleteRpki(ctx, &api.DeleteRpkiRequest{Address: cs.Addr, Port: cs.Port})
	s1, r1 := count()
	c.NT("api/" + host)
	c.Outcome(fmt.Sprintf("api-delete: servers %d->%d roas %d->%d err=%v", s0, s1, r0, r1, derr != nil))
	if s0 != 1 || r0 != 1 {
		c.Violationf("C16/rtr/api-setup-failed", cs, "after loading one record from %s: ListRpki=%d ListRpkiTable=%d", host, s0, r0)
		return
	}
	if derr != nil || s1 != 0 || r1 != 0 {
		c.Violationf("C16/rtr/api-delete-server-does-not-remove-cache", cs,
			"cache configured as %s with one record loaded; DeleteRpki{Address:%q Port:%d} returned %v; afterwards ListRpki shows %d caches and ListRpkiTable %d ROAs (want 0 and 0)",
			host, cs.Addr, cs.Port, derr, s1, r1)
	}
}

// ---------------------------------------------------------------------------------------------

func c16rAlphabet(trim bool) []int {
	var al []int
	for k := 0; k < c16rNEv; k++ {
		if trim && (k == c16rSNEqual || k == c16rSNNewer || k == c16rRemC) {
			continue
		}
		al = append(al, k)
	}
	// cache B: the shared record only, and no Serial Notify (symmetric to A, no table effect)
	for _, k := range []int{c16rCR, c16rAddA, c16rRemA, c16rEODSame, c16rEODNew, c16rCacheReset, c16rDisc, c16rExpiry, c16rDelete} {
		if trim && k == c16rCacheReset {
			continue
		}
		al = append(al, c16rNEv+k)
	}
	return al
}

func TestVerif_C16_RTR(t *testing.T) {
	r := vr.Start(t, "C16", "rtr")
	defer r.Finish()
	r.Rule = "phase all: every event sequence of length 1..depth (the table is compared after every step) over " +
		"{cache A: 16 events, cache B: 9 events}, from the empty state and from the state where both caches have loaded the shared record; " +
		"disabled events are pruned (expiry with no disconnect timer outstanding; after delete-server only add-a/EndOfData/expiry for that cache); " +
		"phase framed: every sequence obeying the RFC 8210 response framing up to framed_sequences_depth over the trimmed alphabet; " +
		"non-trivial = distinct table histories (table content after each step) in which the table was non-empty at some step"
	r.Assumptions = append(r.Assumptions,
		"clients have conn==nil: Serial/Reset Queries are never written; which query the router owes is taken from RFC 8210 and rpki.go (Reset Query on connect, on Cache Reset, on an older Serial Notify)",
		"a response to a Reset Query is the cache's complete database: records of that cache absent from it are no longer announced",
		"between Cache Response and End of Data each record may show its old state or any state the response has put it in so far",
		"a prefix PDU or End of Data that arrives without a Cache Response counts as an announcement/withdrawal/commit of an incremental response (never as the answer to a Reset Query); if such a response ends with a new session id the records it touched are unspecified; a second Cache Response inside a response changes nothing",
		"after a Cache Reset or an older Serial Notify inside an open response (the live daemon would drop its buffered announcements, the socket-less harness cannot) no claim is made for that cache until it reconnects",
		"disconnect is followed by the reconnect's softReset() call (what established() does first); roaConnected itself is not delivered (it needs a *net.TCPConn)",
		"lifetime: data of a cache is purged at expiry iff no End-of-Data was committed since the disconnect that armed the timer")

	if r.ReplayPath() != "" {
		var ac c16rAPICase
		if err := r.LoadReplay(&ac); err == nil && ac.API {
			c16rRunAPI(r, ac)
			return
		}
		var cs c16rCase
		if err := r.LoadReplay(&cs); err != nil {
			t.Fatalf("ENGINE-ERROR replay: %v", err)
		}
		c16rRun(r, cs)
		return
	}

	depth := 5 // full alphabet; thorough adds depth 6 over the trimmed alphabet and framed sequences up to 7
	al := c16rAlphabet(false)
	alTrim := c16rAlphabet(true)
	wfDepth := depth + 1
	if vr.Thorough() {
		wfDepth = depth + 2
	}
	r.Bounds["depth_total"] = depth
	r.Bounds["framed_sequences_depth"] = wfDepth
	r.Bounds["alphabet_trimmed"] = len(alTrim)
	r.Bounds["alphabet_trimmed_drops"] = "A: SerialNotify(equal), SerialNotify(newer), remove-c6; B: CacheReset"
	if vr.Thorough() {
		r.Bounds["depth_total_trimmed_alphabet"] = depth + 1
	}
	r.Bounds["alphabet"] = len(al)
	r.Bounds["events_cache_A"] = c16rNEv
	r.Bounds["events_cache_B"] = len(al) - c16rNEv
	r.Bounds["start_states"] = 2
	r.Bounds["records"] = "a=10.0.0.0/24-24 AS1 (both caches), b=10.0.0.0/24-25 AS2, c6=2001:d00::/24-24 AS1 (max-length and AS of a)"

	r.Bounds["api_delete_cases"] = len(c16rAPICases)
	for _, ac := range c16rAPICases {
		c16rRunAPI(r, ac)
	}

	W := vr.Workers()
	// Phase "all": lengths in increasing order, so that the first case recorded per violation key is a shortest one;
	// only the maximum length is needed for coverage (every shorter sequence is a prefix), the shorter phases cost <5%.
	for L := 1; L <= depth; L++ {
		c16rPhase(r, W, L, al, false)
	}
	if vr.Thorough() {
		// one more level with a trimmed alphabet (stated in the bounds)
		c16rPhase(r, W, depth+1, alTrim, false)
	}
	// Phase "framed": only sequences a cache may emit under the RFC 8210 framing (prefix PDUs and End of Data inside a
	// response; Cache Response, Cache Reset and Serial Notify outside), one level deeper. These are the sequences on
	// which the model is strict throughout (duplicates, unknown withdrawals, resets, session changes, expiry and
	// removals are all still included).
	for L := depth + 1; L <= wfDepth; L++ {
		c16rPhase(r, W, L, alTrim, true)
	}
}

// c16rPhase enumerates all sequences of exactly L events over al (pruning disabled events) and runs each from both
// start states. framed=true additionally enforces the RFC 8210 response framing per cache.
func c16rPhase(r *vr.Report, W, L int, al []int, framed bool) {
	type est struct {
		toks    [2]int
		deleted [2]bool
		inTxn   [2]bool
	}
	r.Parallel(W, func(w int, c *vr.Report) {
		idx := 0
		seq := make([]int, 0, L)
		var rec func(st est)
		rec = func(st est) {
			if len(seq) == L {
				idx++
				if idx%W != w {
					return
				}
				for start := 0; start < 2; start++ {
					c16rRun(c, c16rCase{Start: start, Seq: append([]int{}, seq...)})
				}
				return
			}
			for _, e := range al {
				cache, kind := e/c16rNEv, e%c16rNEv
				if kind == c16rExpiry && st.toks[cache] == 0 {
					continue
				}
				if st.deleted[cache] && !(kind == c16rAddA || kind == c16rEODSame || kind == c16rExpiry) {
					continue
				}
				if framed && !st.deleted[cache] {
					switch kind {
					case c16rCR, c16rCacheReset, c16rSNOlder, c16rSNEqual, c16rSNNewer:
						if st.inTxn[cache] {
							continue
						}
					case c16rAddA, c16rAddB, c16rAddC, c16rRemA, c16rRemB, c16rRemC, c16rEODSame, c16rEODNew:
						if !st.inTxn[cache] {
							continue
						}
					}
				}
				if framed && st.deleted[cache] && kind != c16rExpiry {
					continue
				}
				n := st
				switch kind {
				case c16rCR:
					n.inTxn[cache] = true
				case c16rEODSame, c16rEODNew:
					n.inTxn[cache] = false
				case c16rDisc:
					n.inTxn[cache] = false
					if !st.deleted[cache] {
						n.toks[cache]++
					}
				case c16rExpiry:
					n.toks[cache]--
				case c16rDelete:
					n.deleted[cache] = true
				}
				seq = append(seq, e)
				rec(n)
				seq = seq[:len(seq)-1]
			}
		}
		rec(est{})
	})
}
