// Package refnegotiate is the reference model of BGP session-parameter negotiation used by check C08.
// It is written from the property text and the RFCs (4271 section 4.2 / 6.2 / 10, 5492, 4760 section 8,
// 6793, 7911, 8654) over plain structs and raw bytes; it does NOT import any gobgp package.
//
// Negotiate(local, localOpen, remoteOpen) answers: is the OPEN refused (and with which NOTIFICATION),
// and if not, which parameters is the session to run with.
package refnegotiate

import (
	"encoding/binary"
	"fmt"
	"sort"
)

const (
	ASTrans = 23456

	CapMultiProtocol = 1
	CapRouteRefresh  = 2
	CapExtMessage    = 6
	CapFourOctetAS   = 65
	CapAddPath       = 69

	APNone    = 0
	APReceive = 1 // "able to receive multiple paths from its peer"
	APSend    = 2 // "able to send multiple paths to its peer"
	APBoth    = 3
)

type Family struct {
	AFI  uint16
	SAFI uint8
}

var (
	V4 = Family{1, 1}
	V6 = Family{2, 1}
)

func (f Family) String() string {
	switch f {
	case V4:
		return "ipv4-unicast"
	case V6:
		return "ipv6-unicast"
	}
	return fmt.Sprintf("afi%d/safi%d", f.AFI, f.SAFI)
}

// Local is the neighbour configuration of the speaker under test.
type Local struct {
	AS        uint32
	RouterID  [4]byte
	Families  []Family         // configured address families (each is announced with an MP capability)
	AddPath   map[Family]uint8 // configured ADD-PATH mode per family (APReceive|APSend bits)
	Hold      uint16           // configured hold time, seconds
	Keepalive uint16           // configured keepalive interval, seconds; 0 = not configured (a third of Hold)
	PeerAS    uint32           // expected remote AS; 0 = any (the remote AS is learnt from the OPEN)
}

// Cap is one capability TLV as it appeared in an OPEN, in order of appearance over all optional parameters.
type Cap struct {
	Code  uint8
	Value []byte
}

// Open is the content of an OPEN message.
type Open struct {
	Version uint8
	MyAS    uint16
	Hold    uint16
	ID      [4]byte
	Caps    []Cap
	// NonCapParams counts optional parameters that are not capabilities (type != 2)
	NonCapParams int
}

// ParseOpen reads a complete OPEN message (19-octet header included). RFC 4271 4.2 + RFC 5492 4.
func ParseOpen(b []byte) (*Open, error) {
	if len(b) < 29 {
		return nil, fmt.Errorf("OPEN of %d octets", len(b))
	}
	for i := 0; i < 16; i++ {
		if b[i] != 0xff {
			return nil, fmt.Errorf("marker")
		}
	}
	if int(binary.BigEndian.Uint16(b[16:18])) != len(b) || b[18] != 1 {
		return nil, fmt.Errorf("header length %d / type %d for a %d-octet OPEN", binary.BigEndian.Uint16(b[16:18]), b[18], len(b))
	}
	o := &Open{Version: b[19], MyAS: binary.BigEndian.Uint16(b[20:22]), Hold: binary.BigEndian.Uint16(b[22:24])}
	copy(o.ID[:], b[24:28])
	if 29+int(b[28]) != len(b) {
		return nil, fmt.Errorf("optional parameters length %d, %d octets follow", b[28], len(b)-29)
	}
	for p := 29; p < len(b); {
		if p+2 > len(b) {
			return nil, fmt.Errorf("optional parameter header cut")
		}
		typ, l := b[p], int(b[p+1])
		end := p + 2 + l
		if end > len(b) {
			return nil, fmt.Errorf("optional parameter overruns")
		}
		if typ != 2 {
			o.NonCapParams++
			p = end
			continue
		}
		for c := p + 2; c < end; {
			if c+2 > end {
				return nil, fmt.Errorf("capability header cut")
			}
			cl := int(b[c+1])
			if c+2+cl > end {
				return nil, fmt.Errorf("capability overruns")
			}
			o.Caps = append(o.Caps, Cap{Code: b[c], Value: append([]byte{}, b[c+2:c+2+cl]...)})
			c += 2 + cl
		}
		p = end
	}
	return o, nil
}

// Has reports whether a capability with that code is present (any instance).
func (o *Open) Has(code uint8) bool {
	for _, c := range o.Caps {
		if c.Code == code {
			return true
		}
	}
	return false
}

// Codes is the sorted set of capability codes present.
func (o *Open) Codes() []uint8 {
	set := map[uint8]bool{}
	for _, c := range o.Caps {
		set[c.Code] = true
	}
	var r []uint8
	for c := range set {
		r = append(r, c)
	}
	sort.Slice(r, func(i, j int) bool { return r[i] < r[j] })
	return r
}

// MPFamilies lists the families of the well-formed (4-octet) multiprotocol capabilities, duplicates kept.
func (o *Open) MPFamilies() []Family {
	var r []Family
	for _, c := range o.Caps {
		if c.Code == CapMultiProtocol && len(c.Value) == 4 {
			r = append(r, Family{binary.BigEndian.Uint16(c.Value[0:2]), c.Value[3]})
		}
	}
	return r
}

// APTuple is one <AFI, SAFI, Send/Receive> tuple of an ADD-PATH capability.
type APTuple struct {
	F    Family
	Mode uint8
}

// AddPathTuples lists all tuples of all ADD-PATH capability instances, in order of appearance.
func (o *Open) AddPathTuples() []APTuple {
	var r []APTuple
	for _, c := range o.Caps {
		if c.Code != CapAddPath || len(c.Value)%4 != 0 {
			continue
		}
		for i := 0; i+4 <= len(c.Value); i += 4 {
			r = append(r, APTuple{Family{binary.BigEndian.Uint16(c.Value[i : i+2]), c.Value[i+2]}, c.Value[i+3]})
		}
	}
	return r
}

// RealAS is the AS number of the sender: the value of the 4-octet AS capability when present
// (RFC 6793 section 4.1), the My Autonomous System field otherwise. With several instances of the
// capability carrying different values the RFC is silent; ok=false then.
func (o *Open) RealAS() (as uint32, ok bool) {
	as, ok = uint32(o.MyAS), true
	seen := false
	for _, c := range o.Caps {
		if c.Code == CapFourOctetAS && len(c.Value) == 4 {
			v := binary.BigEndian.Uint32(c.Value)
			if seen && v != as {
				ok = false
			}
			as, seen = v, true
		}
	}
	return
}

// Result is what the session must run with.
type Result struct {
	Refused            bool
	NotifCode, NotifSub uint8

	RemoteAS uint32
	Internal bool // peer type: internal iff the real remote AS equals the local AS

	Hold         uint16  // negotiated hold time (0 = hold timer and keepalives disabled)
	KeepaliveSec float64 // keepalive interval in seconds (exact, may be fractional); 0 = no keepalives
	KeepaliveCfg bool    // the configured keepalive interval applies (negotiated hold == configured hold)

	Families []Family // sorted: exactly those both sides announced
	// AddPath: acceptable negotiated modes per negotiated family. One element normally; several when the
	// remote OPEN carries conflicting tuples for the family — RFC 7911 does not say which tuple counts
	// (it only requires the SENDER to use a single capability instance; RFC 5492 leaves the processing
	// of multiple differing instances to the defining document), so the reference accepts the result
	// computed from the first tuple, from the last tuple, or from the union of all tuples' bits.
	AddPath     map[Family][]uint8
	AddPathWhat map[Family]string // "none" | "single" | "conflict"

	FourOctet bool // AS_PATH/AGGREGATOR carry 4-octet AS numbers: both sides announced capability 65
	ExtMsg    bool // UPDATE/NOTIFICATION/ROUTE-REFRESH above 4096 octets acceptable: both announced capability 6

	RemoteCodes []uint8
}

// MaxLen is the largest acceptable length of a received message of that type (RFC 4271 4.1, RFC 8654 4):
// OPEN and KEEPALIVE never exceed 4096.
func (r *Result) MaxLen(msgType uint8) int {
	if r.ExtMsg && (msgType == 2 || msgType == 3 || msgType == 5) {
		return 65535
	}
	return 4096
}

func hasFam(l []Family, f Family) bool {
	for _, x := range l {
		if x == f {
			return true
		}
	}
	return false
}

func negotiateAP(local, remote uint8) uint8 {
	var n uint8
	if local&APSend != 0 && remote&APReceive != 0 {
		n |= APSend
	}
	if local&APReceive != 0 && remote&APSend != 0 {
		n |= APReceive
	}
	return n
}

// Negotiate computes the session parameters. sent is the OPEN the local speaker actually sent (what it
// announced: 4-octet AS and extended-message capabilities are read from it; families and ADD-PATH
// modes come from the configuration, and ExpectOpen separately demands that the OPEN reflects them).
func Negotiate(l Local, sent *Open, recv *Open) *Result {
	r := &Result{AddPath: map[Family][]uint8{}, AddPathWhat: map[Family]string{}}
	r.RemoteCodes = recv.Codes()
	if recv.Version != 4 {
		r.Refused, r.NotifCode, r.NotifSub = true, 2, 1
		return r
	}
	as, _ := recv.RealAS()
	r.RemoteAS = as
	if recv.ID == [4]byte{} {
		r.Refused, r.NotifCode, r.NotifSub = true, 2, 3
		return r
	}
	if l.PeerAS != 0 && as != l.PeerAS {
		r.Refused, r.NotifCode, r.NotifSub = true, 2, 2
		return r
	}
	// RFC 4271 4.2 / 6.2: hold time MUST be zero or at least three seconds
	if recv.Hold == 1 || recv.Hold == 2 {
		r.Refused, r.NotifCode, r.NotifSub = true, 2, 6
		return r
	}
	r.Internal = as == l.AS

	// hold time: the smaller of the configured one and the received one
	r.Hold = l.Hold
	if recv.Hold < r.Hold {
		r.Hold = recv.Hold
	}
	switch {
	case r.Hold == 0:
		r.KeepaliveSec = 0
	case r.Hold == l.Hold:
		r.KeepaliveCfg = true
		if l.Keepalive != 0 {
			r.KeepaliveSec = float64(l.Keepalive)
		} else {
			r.KeepaliveSec = float64(l.Hold) / 3
		}
	default:
		r.KeepaliveSec = float64(r.Hold) / 3
	}

	// families: exactly those both sides announced; an OPEN without any multiprotocol capability
	// announces IPv4 unicast only (RFC 4760 section 8 / RFC 4271)
	remoteFams := recv.MPFamilies()
	if !recv.Has(CapMultiProtocol) {
		remoteFams = []Family{V4}
	}
	for _, f := range l.Families {
		if hasFam(remoteFams, f) && !hasFam(r.Families, f) {
			r.Families = append(r.Families, f)
		}
	}
	sort.Slice(r.Families, func(i, j int) bool {
		if r.Families[i].AFI != r.Families[j].AFI {
			return r.Families[i].AFI < r.Families[j].AFI
		}
		return r.Families[i].SAFI < r.Families[j].SAFI
	})

	// ADD-PATH per negotiated family and direction
	tuples := recv.AddPathTuples()
	for _, f := range r.Families {
		var modes []uint8
		for _, t := range tuples {
			if t.F == f {
				modes = append(modes, t.Mode)
			}
		}
		lm := l.AddPath[f]
		switch {
		case len(modes) == 0:
			r.AddPath[f] = []uint8{APNone}
			r.AddPathWhat[f] = "none"
		default:
			conflict := false
			var union uint8
			for _, m := range modes {
				if m != modes[0] {
					conflict = true
				}
				union |= m
			}
			if !conflict {
				r.AddPath[f] = []uint8{negotiateAP(lm, modes[0])}
				r.AddPathWhat[f] = "single"
			} else {
				set := map[uint8]bool{negotiateAP(lm, modes[0]): true, negotiateAP(lm, modes[len(modes)-1]): true, negotiateAP(lm, union&3): true}
				var acc []uint8
				for m := range set {
					acc = append(acc, m)
				}
				sort.Slice(acc, func(i, j int) bool { return acc[i] < acc[j] })
				r.AddPath[f] = acc
				r.AddPathWhat[f] = "conflict"
			}
		}
	}

	r.FourOctet = sent.Has(CapFourOctetAS) && recv.Has(CapFourOctetAS)
	r.ExtMsg = sent.Has(CapExtMessage) && recv.Has(CapExtMessage)
	return r
}

// ExpectOpen checks that the OPEN the local speaker sent reflects its configuration; it returns a list
// of (stable key, description) discrepancies.
func ExpectOpen(l Local, sent *Open) [][2]string {
	var d [][2]string
	add := func(k, f string, a ...any) { d = append(d, [2]string{k, fmt.Sprintf(f, a...)}) }
	if sent.Version != 4 {
		add("open-version", "version %d", sent.Version)
	}
	wantAS := uint16(ASTrans)
	if l.AS <= 65535 {
		wantAS = uint16(l.AS)
	}
	if sent.MyAS != wantAS {
		add("open-my-as", "My Autonomous System is %d, want %d for local AS %d (RFC 6793: AS_TRANS when the AS does not fit 2 octets)", sent.MyAS, wantAS, l.AS)
	}
	if sent.Hold != l.Hold {
		add("open-hold-time", "Hold Time is %d, configured %d", sent.Hold, l.Hold)
	}
	if sent.ID != l.RouterID {
		add("open-bgp-identifier", "BGP Identifier %v, router-id %v", sent.ID, l.RouterID)
	}
	// 4-octet AS capability: mandatory when the AS does not fit; whenever present it carries the local AS
	n4 := 0
	for _, c := range sent.Caps {
		if c.Code == CapFourOctetAS {
			n4++
			if len(c.Value) != 4 || binary.BigEndian.Uint32(c.Value) != l.AS {
				add("open-4octet-cap-value", "4-octet AS capability carries % x, local AS is %d", c.Value, l.AS)
			}
		}
	}
	if l.AS > 65535 && n4 == 0 {
		add("open-4octet-cap-missing", "local AS %d needs the 4-octet AS capability", l.AS)
	}
	// multiprotocol: exactly the configured families
	got := map[Family]int{}
	for _, f := range sent.MPFamilies() {
		got[f]++
	}
	for _, f := range l.Families {
		if got[f] == 0 {
			add("open-mp-missing", "configured family %s is not announced", f)
		}
	}
	for f := range got {
		if !hasFam(l.Families, f) {
			add("open-mp-extra", "family %s is announced but not configured", f)
		}
	}
	// ADD-PATH: exactly the configured modes, all in a single capability instance (RFC 7911 section 4)
	nAP := 0
	for _, c := range sent.Caps {
		if c.Code == CapAddPath {
			nAP++
		}
	}
	if nAP > 1 {
		add("open-addpath-multiple-instances", "%d ADD-PATH capability instances (RFC 7911 section 4: a single instance)", nAP)
	}
	gotAP := map[Family][]uint8{}
	for _, t := range sent.AddPathTuples() {
		gotAP[t.F] = append(gotAP[t.F], t.Mode)
	}
	for _, f := range l.Families {
		want := l.AddPath[f]
		g := gotAP[f]
		switch {
		case want == 0 && len(g) != 0:
			add("open-addpath-extra", "ADD-PATH tuple %v announced for %s, none configured", g, f)
		case want != 0 && (len(g) != 1 || g[0] != want):
			add("open-addpath-mode", "ADD-PATH tuples %v announced for %s, configured mode %d", g, f, want)
		}
	}
	for f, g := range gotAP {
		if !hasFam(l.Families, f) {
			add("open-addpath-unconfigured-family", "ADD-PATH tuple %v announced for %s which is not configured", g, f)
		}
	}
	return d
}
