// Package c19lib holds the enumeration, fault-catalogue and crash/over-read/allocation oracles
// shared by the five C19 harnesses (pkg/packet/{mrt,bmp,rtr,bfd}, pkg/zebra).
// Everything here is deterministic: no randomness, no wall-clock verdicts (the watchdog only
// turns a case that has not returned for minutes into a recorded violation instead of a lost run).
package c19lib

import (
	"bufio"
	"bytes"
	"encoding/hex"
	"fmt"
	"io"
	"os"
	"path/filepath"
	"reflect"
	"regexp"
	"runtime"
	"strings"
	"sync"
	"sync/atomic"
	"syscall"
	"time"

	"github.com/osrg/gobgp/v4/internal/verif/vr"
)

// The harness processes cap their address space: an unbounded attacker-driven make() then ends the
// process at once (Go runtime "out of memory", reported by the driver as ENGINE-ERROR) instead of
// driving the shared machine into the OOM killer. 16 workers x the largest known allocation
// (13 MiB) stay far below the limit.
func init() {
	lim := syscall.Rlimit{Cur: 24 << 30, Max: 24 << 30}
	var cur syscall.Rlimit
	if syscall.Getrlimit(syscall.RLIMIT_AS, &cur) == nil && cur.Cur > lim.Cur {
		lim.Max = cur.Max
		_ = syscall.Setrlimit(syscall.RLIMIT_AS, &lim)
	}
}

// Slack is the number of poison bytes placed behind len(data) (inside cap) in the slack modes.
const Slack = 96

// Outcome is the observable result of one decoder call, rendered deterministically.
type Outcome struct {
	OK  bool   // the decoder returned a value
	Val string // rendering of the value (String()/JSON/Serialize results), "" when none
	Err string // error text, "" when none
}

// Entry is one decoder entry point.
type Entry struct {
	Name string
	// Run calls the decoder on data and, on a returned value, exercises String()/json.Marshal/
	// Serialize on it. It must not keep data. Panics are caught by the caller.
	Run func(x *Checker, data []byte) Outcome
	// TightOnly: skip the two slack (over-read differential) executions.
	TightOnly bool
	// Group replaces Name in over-read / input-modified keys (entry points sharing one code path).
	Group string
	// KeyTag is appended to panic keys found through this entry (e.g. "[direct-call]").
	KeyTag string
	// AllocKey overrides the violation key used by AllocScan ("C19:alloc:"+Name by default).
	AllocKey string
}

// Case is the replay record of a decoder case.
type Case struct {
	Entry string `json:"entry"`
	Hex   string `json:"hex"`
	Note  string `json:"note,omitempty"`
}

// Checker is the per-worker oracle driver.
type Checker struct {
	R       *vr.Report
	scratch []byte
	ntSeen  map[string]int
	ntCap   int
	errCls  map[string]string
	out     map[outKey]int64
	fast    map[*Entry]*fastCtr

	cur     *Entry
	curData []byte
	curNote string
	busy    bool
	seq     uint64
}

var (
	regMu    sync.Mutex
	registry []*Checker
)

type fastCtr struct {
	err string
	n   int64
}

type outKey struct {
	e   *Entry
	cls string
}

func NewChecker(r *vr.Report) *Checker {
	c := &Checker{R: r, ntSeen: map[string]int{}, ntCap: 20000, errCls: map[string]string{}, out: map[outKey]int64{}, fast: map[*Entry]*fastCtr{}}
	regMu.Lock()
	registry = append(registry, c)
	regMu.Unlock()
	return c
}

// Done flushes the outcome statistics and removes the checker from the watchdog registry.
func (c *Checker) Done() {
	for e, f := range c.fast {
		if f.n > 0 {
			c.out[outKey{e, c.errClass(f.err)}] += f.n
		}
	}
	c.fast = map[*Entry]*fastCtr{}
	for k, n := range c.out {
		c.R.Outcomes[k.e.Name+" => "+k.cls] += n
	}
	c.out = map[outKey]int64{}
	regMu.Lock()
	for i, x := range registry {
		if x == c {
			registry = append(registry[:i], registry[i+1:]...)
			break
		}
	}
	regMu.Unlock()
}

// CurCase returns the replay record of the case being executed.
func (c *Checker) CurCase() Case {
	n := ""
	if c.cur != nil {
		n = c.cur.Name
	}
	return Case{Entry: n, Hex: hex.EncodeToString(c.curData), Note: c.curNote}
}

// Violation records a violation for the case being executed.
func (c *Checker) Violation(key string, format string, a ...any) {
	cs := c.CurCase()
	c.R.Violationf(key, cs, "entry=%s input=%s (%s): %s", cs.Entry, cs.Hex, cs.Note, fmt.Sprintf(format, a...))
}

// PanicSite returns a stable key part ("file.go:Func") and a message ("file.go:LINE Func: value")
// for the top gobgp frame of the panic being recovered. Must be called from the deferred function.
func PanicSite(x any) (key, msg string) {
	pcs := make([]uintptr, 64)
	n := runtime.Callers(2, pcs)
	frames := runtime.CallersFrames(pcs[:n])
	seenPanic := false
	for {
		f, more := frames.Next()
		if strings.HasPrefix(f.Function, "runtime.gopanic") || strings.HasPrefix(f.Function, "runtime.panic") ||
			strings.HasPrefix(f.Function, "runtime.goPanic") || strings.HasPrefix(f.Function, "runtime.sigpanic") {
			seenPanic = true
		} else if seenPanic && strings.Contains(f.Function, "github.com/osrg/gobgp/") &&
			!strings.Contains(f.Function, "/internal/verif/") && !strings.Contains(f.File, "zz_verif") {
			fn := f.Function
			if i := strings.LastIndex(fn, "/"); i >= 0 {
				fn = fn[i+1:]
			}
			if i := strings.Index(fn, "."); i >= 0 {
				fn = fn[i+1:]
			}
			// closures: strip .funcN suffixes
			if i := strings.Index(fn, ".func"); i > 0 {
				fn = fn[:i]
			}
			file := filepath.Base(f.File)
			return file + ":" + fn, fmt.Sprintf("panic at %s:%d %s: %v", file, f.Line, fn, x)
		}
		if !more {
			break
		}
	}
	return "unknown-site", fmt.Sprintf("panic outside gobgp frames: %v", x)
}

// Guard runs fn and converts a panic into (key,msg).
func Guard(fn func()) (key, msg string) {
	defer func() {
		if x := recover(); x != nil {
			key, msg = PanicSite(x)
		}
	}()
	fn()
	return "", ""
}

func (c *Checker) guard(e *Entry, in []byte) (o Outcome, key, msg string) {
	defer func() {
		if x := recover(); x != nil {
			key, msg = PanicSite(x)
		}
	}()
	o = e.Run(c, in)
	return
}

func (c *Checker) errClass(s string) string {
	if v, ok := c.errCls[s]; ok {
		return v
	}
	b := make([]byte, 0, len(s))
	lastDigit := false
	for i := 0; i < len(s); i++ {
		ch := s[i]
		if ch >= '0' && ch <= '9' {
			if !lastDigit {
				b = append(b, 'N')
			}
			lastDigit = true
			continue
		}
		lastDigit = false
		b = append(b, ch)
	}
	v := string(b)
	if len(v) > 70 {
		v = v[:70]
	}
	if len(c.errCls) < 4096 {
		c.errCls[s] = v
	}
	return v
}

// Check executes one decoder case under all oracle clauses.
func (e *Entry) group() string {
	if e.Group != "" {
		return e.Group
	}
	return e.Name
}

func (c *Checker) Check(e *Entry, data []byte, note string) Outcome {
	c.R.Eval()
	c.cur, c.curData, c.curNote, c.busy = e, data, note, true
	atomic.AddUint64(&c.seq, 1)
	n := len(data)
	need := n + Slack
	if cap(c.scratch) < need {
		c.scratch = make([]byte, need*2)
	}
	// (1) tight: cap == len, any read past the data is a bounds panic
	in := c.scratch[:n:n]
	copy(in, data)
	o1, pk, pm := c.guard(e, in)
	if pk != "" {
		c.Violation("C19:panic:"+pk+e.KeyTag, "%s", pm)
		c.out[outKey{e, "PANIC"}]++
		c.busy = false
		return o1
	}
	if !bytes.Equal(in, data) {
		c.Violation("C19:input-modified:"+e.group(), "decoder wrote into its input buffer: now %x", in)
	}
	// (2) slack: cap > len, poison behind the data; the outcome must not depend on it
	if !e.TightOnly {
		for _, p := range [2]byte{0x00, 0xff} {
			buf := c.scratch[:need]
			copy(buf, data)
			for i := n; i < need; i++ {
				buf[i] = p
			}
			o2, pk, pm := c.guard(e, buf[:n:need])
			if pk != "" {
				c.Violation("C19:panic:"+pk+e.KeyTag, "(cap>len, poison %02x) %s", p, pm)
				break
			}
			changed := !bytes.Equal(buf[:n], data)
			for i := n; i < need && !changed; i++ {
				changed = buf[i] != p
			}
			if changed {
				c.Violation("C19:input-modified:"+e.group(), "decoder wrote into its input buffer or behind it (poison %02x)", p)
			}
			if o2 != o1 {
				c.Violation("C19:over-read:"+e.group(),
					"result depends on bytes behind len(data): with cap==len -> ok=%v err=%q val=%.200q; with %d bytes of %02x behind the data (inside cap) -> ok=%v err=%q val=%.200q",
					o1.OK, o1.Err, o1.Val, Slack, p, o2.OK, o2.Err, o2.Val)
				break
			}
		}
	}
	if o1.OK {
		if o1.Err != "" {
			c.out[outKey{e, "value+err: " + c.errClass(o1.Err)}]++
		} else {
			c.out[outKey{e, "value"}]++
		}
		if c.ntSeen[e.Name] < c.ntCap {
			c.ntSeen[e.Name]++
			c.R.NT(e.Name + "|" + string(data))
		}
	} else {
		f := c.fast[e]
		if f == nil {
			f = &fastCtr{err: o1.Err}
			c.fast[e] = f
		}
		if f.err == o1.Err {
			f.n++
		} else {
			c.out[outKey{e, c.errClass(f.err)}] += f.n
			f.err, f.n = o1.Err, 1
		}
	}
	c.busy = false
	return o1
}

// ---- hang watchdog ----

// Watchdog turns a case that has not returned for `limit` into a recorded violation and ends the
// process (the report is written first). It is a loss-prevention device, not an oracle on speed.
func Watchdog(r *vr.Report, limit time.Duration) (stop func()) {
	done := make(chan struct{})
	go func() {
		last := map[*Checker]uint64{}
		since := map[*Checker]time.Time{}
		t := time.NewTicker(5 * time.Second)
		defer t.Stop()
		for {
			select {
			case <-done:
				return
			case now := <-t.C:
				regMu.Lock()
				cs := append([]*Checker{}, registry...)
				regMu.Unlock()
				for _, c := range cs {
					s := atomic.LoadUint64(&c.seq)
					if s != last[c] || !c.busy {
						last[c] = s
						since[c] = now
						continue
					}
					if now.Sub(since[c]) > limit {
						ch := r.Fork()
						cc := c.CurCase()
						ch.Violationf("C19:hang:"+cc.Entry, cc, "entry=%s input=%s (%s): call has not returned after %v", cc.Entry, cc.Hex, cc.Note, limit)
						r.Merge(ch)
						r.Cap("aborted by the hang watchdog")
						r.Finish()
						os.Exit(1)
					}
				}
			}
		}
	}()
	return func() { close(done) }
}

// ---- enumeration ----

// Boundary is the reduced alphabet used where the full one is unaffordable.
var Boundary = []byte{0, 1, 2, 3, 4, 5, 6, 7, 8, 9, 0x0a, 0x0b, 0x0c, 0x0d, 0x0e, 0x0f, 0x10, 0x7f, 0x80, 0xfe, 0xff}

func FullAlphabet() []byte {
	a := make([]byte, 256)
	for i := range a {
		a[i] = byte(i)
	}
	return a
}

// Strings calls fn for the strings over alpha of length minLen..maxLen whose ordinal i satisfies
// i%W==w, shortest first. buf is reused between calls.
func Strings(alpha []byte, minLen, maxLen, w, W int, fn func(s []byte)) {
	i := 0
	for L := minLen; L <= maxLen; L++ {
		idx := make([]int, L)
		buf := make([]byte, L)
		for {
			if i%W == w {
				for k := 0; k < L; k++ {
					buf[k] = alpha[idx[k]]
				}
				fn(buf)
			}
			i++
			k := L - 1
			for k >= 0 {
				idx[k]++
				if idx[k] < len(alpha) {
					break
				}
				idx[k] = 0
				k--
			}
			if k < 0 {
				break
			}
		}
	}
}

// CountStrings returns the number of strings Strings enumerates in total.
func CountStrings(alpha, minLen, maxLen int) int64 {
	var t int64
	for L := minLen; L <= maxLen; L++ {
		n := int64(1)
		for k := 0; k < L; k++ {
			n *= int64(alpha)
		}
		t += n
	}
	return t
}

// MutOpt selects the fault catalogue.
type MutOpt struct {
	AllByteValues bool // every byte position x all 256 values (otherwise the 12 replacement values)
	Pairs         bool // additionally (window fault | truncation) x single-byte fault pairs
	PairStride    int  // pairs: only every PairStride-th byte position for the second fault (1 = all)
	WindowsOnly   bool // only the seed, the truncations and the 16/32-bit window faults (allocation pass)
}

var repl12 = func(b byte) [12]byte {
	return [12]byte{0x00, 0x01, 0x02, 0x03, 0x04, 0x7f, 0x80, 0xfe, 0xff, b ^ 1, b + 1, b - 1}
}

func put(buf []byte, off, size int, v uint64) {
	for k := size - 1; k >= 0; k-- {
		buf[off+k] = byte(v)
		v >>= 8
	}
}

func get(buf []byte, off, size int) uint64 {
	var v uint64
	for k := 0; k < size; k++ {
		v = v<<8 | uint64(buf[off+k])
	}
	return v
}

// windowFaults returns the fault values for a big-endian field currently holding v.
func windowFaults(v uint64, size int) []uint64 {
	max := uint64(1)<<(8*uint(size)) - 1
	f := []uint64{0, 1, (v - 1) & max, (v + 1) & max, max, max - 1, (max + 1) >> 1}
	if size == 4 {
		f = append(f, 0x00400000, 0xfffffff4, 0xfffffff5) // 4 MiB: measurable but harmless; wrap-around of len+12
	}
	return f
}

// Mutants enumerates the structure-aware fault catalogue of seed, case ordinal i%W==w:
//   - every byte position x replacement values
//   - every truncation length, and one appended byte {00,ff}
//   - every 2- and 4-byte big-endian window (a superset of "every length/count field", no format
//     knowledge needed) set to {0,1,v-1,v+1,max,max-1,msb, and for 4-byte: 4MiB, 2^32-12, 2^32-11}
//   - with opt.Pairs: every window fault x every single-byte fault (12 values), and every window fault x every truncation
//
// m is reused between calls.
func Mutants(seed []byte, opt MutOpt, w, W int, fn func(m []byte, note string)) {
	i := 0
	take := func() bool { i++; return (i-1)%W == w }
	n := len(seed)
	buf := make([]byte, n+1)
	reset := func() []byte { copy(buf, seed); return buf[:n] }
	if take() {
		fn(reset(), "seed")
	}
	for p := 0; p < n && !opt.WindowsOnly; p++ {
		if opt.AllByteValues {
			for v := 0; v < 256; v++ {
				if byte(v) == seed[p] {
					continue
				}
				if take() {
					m := reset()
					m[p] = byte(v)
					fn(m, fmt.Sprintf("byte[%d]=%02x", p, v))
				}
			}
		} else {
			seen := map[byte]bool{seed[p]: true}
			for _, v := range repl12(seed[p]) {
				if seen[v] {
					continue
				}
				seen[v] = true
				if take() {
					m := reset()
					m[p] = v
					fn(m, fmt.Sprintf("byte[%d]=%02x", p, v))
				}
			}
		}
	}
	for l := 0; l < n; l++ {
		if take() {
			fn(reset()[:l], fmt.Sprintf("truncate to %d", l))
		}
	}
	for _, v := range [2]byte{0, 0xff} {
		if take() {
			copy(buf, seed)
			buf[n] = v
			fn(buf[:n+1], fmt.Sprintf("append %02x", v))
		}
	}
	for _, size := range [2]int{2, 4} {
		for p := 0; p+size <= n; p++ {
			cur := get(seed, p, size)
			for _, v := range windowFaults(cur, size) {
				if v == cur {
					continue
				}
				if take() {
					m := reset()
					put(m, p, size, v)
					fn(m, fmt.Sprintf("be%d[%d]=%#x", size*8, p, v))
				}
			}
		}
	}
	if !opt.Pairs {
		return
	}
	stride := opt.PairStride
	if stride < 1 {
		stride = 1
	}
	for _, size := range [2]int{2, 4} {
		for p := 0; p+size <= n; p++ {
			cur := get(seed, p, size)
			for _, v := range windowFaults(cur, size) {
				if v == cur {
					continue
				}
				for q := 0; q < n; q += stride {
					if q >= p && q < p+size {
						continue
					}
					seen := map[byte]bool{seed[q]: true}
					for _, b := range repl12(seed[q]) {
						if seen[b] {
							continue
						}
						seen[b] = true
						if take() {
							m := reset()
							put(m, p, size, v)
							m[q] = b
							fn(m, fmt.Sprintf("be%d[%d]=%#x + byte[%d]=%02x", size*8, p, v, q, b))
						}
					}
				}
				for l := p + size; l < n; l++ {
					if take() {
						m := reset()
						put(m, p, size, v)
						fn(m[:l], fmt.Sprintf("be%d[%d]=%#x + truncate to %d", size*8, p, v, l))
					}
				}
			}
		}
	}
}

// ---- allocation oracle (single-threaded) ----

const AllocLimit = 1 << 20 // 1 MiB

func totalAlloc() uint64 {
	var ms runtime.MemStats
	runtime.ReadMemStats(&ms)
	return ms.TotalAlloc
}

// AllocScan runs the decoder on every input sequentially and reports inputs whose decoding
// allocates more than AllocLimit + 1024*len(input) bytes (runtime.MemStats.TotalAlloc delta).
// It measures batches and bisects, so ReadMemStats is called O(violations*log n) times.
// Must be called while no other goroutine of the test allocates.
func (c *Checker) AllocScan(e *Entry, inputs [][]byte, notes []string) (maxDelta uint64, maxAt int) {
	var rec func(lo, hi int)
	run := func(i int) {
		in := append([]byte(nil), inputs[i]...)
		c.cur, c.curData, c.curNote, c.busy = e, inputs[i], notes[i], true
		atomic.AddUint64(&c.seq, 1)
		c.guard(e, in)
		c.busy = false
	}
	maxAt = -1
	rec = func(lo, hi int) {
		if lo >= hi {
			return
		}
		a := totalAlloc()
		for i := lo; i < hi; i++ {
			run(i)
		}
		d := totalAlloc() - a
		if hi-lo == 1 {
			c.R.Eval()
			if d > maxDelta {
				maxDelta, maxAt = d, lo
			}
			if d > AllocLimit+1024*uint64(len(inputs[lo])) {
				c.cur, c.curData, c.curNote = e, inputs[lo], notes[lo]
				key := e.AllocKey
				if key == "" {
					key = "C19:alloc:" + e.Name
				}
				c.Violation(key, "decoding a %d-byte input allocated %d bytes (TotalAlloc delta, single-threaded; limit 1 MiB + 1 KiB/byte)", len(inputs[lo]), d)
				c.out[outKey{e, "alloc>1MiB"}]++
			}
			return
		}
		if d <= AllocLimit {
			// whole batch below the limit: every member is
			c.R.Evaluations += int64(hi - lo)
			return
		}
		mid := (lo + hi) / 2
		rec(lo, mid)
		rec(mid, hi)
	}
	// batches of 64 keep the ordinary per-batch total far below the limit
	for lo := 0; lo < len(inputs); lo += 64 {
		hi := lo + 64
		if hi > len(inputs) {
			hi = len(inputs)
		}
		rec(lo, hi)
	}
	return
}

// ---- equality with nil/empty normalisation ----

// Equal compares two values structurally like reflect.DeepEqual but treats nil and empty slices/maps
// as equal. On a difference it returns the path of the first one.
func Equal(a, b any) (bool, string) {
	return eq(reflect.ValueOf(a), reflect.ValueOf(b), "", 0)
}

func eq(a, b reflect.Value, path string, depth int) (bool, string) {
	if depth > 64 {
		return true, ""
	}
	if !a.IsValid() || !b.IsValid() {
		if a.IsValid() == b.IsValid() {
			return true, ""
		}
		return false, path + ": one side is nil"
	}
	if a.Type() != b.Type() {
		return false, fmt.Sprintf("%s: type %s vs %s", path, a.Type(), b.Type())
	}
	switch a.Kind() {
	case reflect.Bool:
		if a.Bool() != b.Bool() {
			return false, fmt.Sprintf("%s: %v vs %v", path, a.Bool(), b.Bool())
		}
	case reflect.Int, reflect.Int8, reflect.Int16, reflect.Int32, reflect.Int64:
		if a.Int() != b.Int() {
			return false, fmt.Sprintf("%s: %d vs %d", path, a.Int(), b.Int())
		}
	case reflect.Uint, reflect.Uint8, reflect.Uint16, reflect.Uint32, reflect.Uint64, reflect.Uintptr:
		if a.Uint() != b.Uint() {
			return false, fmt.Sprintf("%s: %d vs %d", path, a.Uint(), b.Uint())
		}
	case reflect.Float32, reflect.Float64:
		fa, fb := a.Float(), b.Float()
		if fa != fb && !(fa != fa && fb != fb) { // NaN == NaN for our purpose
			return false, fmt.Sprintf("%s: %v vs %v", path, fa, fb)
		}
	case reflect.String:
		if a.String() != b.String() {
			return false, fmt.Sprintf("%s: %q vs %q", path, a.String(), b.String())
		}
	case reflect.Slice:
		if a.Len() != b.Len() {
			return false, fmt.Sprintf("%s: len %d vs %d", path, a.Len(), b.Len())
		}
		for i := 0; i < a.Len(); i++ {
			if ok, p := eq(a.Index(i), b.Index(i), fmt.Sprintf("%s[%d]", path, i), depth+1); !ok {
				return false, p
			}
		}
	case reflect.Array:
		for i := 0; i < a.Len(); i++ {
			if ok, p := eq(a.Index(i), b.Index(i), fmt.Sprintf("%s[%d]", path, i), depth+1); !ok {
				return false, p
			}
		}
	case reflect.Map:
		if a.Len() != b.Len() {
			return false, fmt.Sprintf("%s: map len %d vs %d", path, a.Len(), b.Len())
		}
		it := a.MapRange()
		for it.Next() {
			bv := b.MapIndex(it.Key())
			if !bv.IsValid() {
				return false, fmt.Sprintf("%s: key %v missing", path, it.Key())
			}
			if ok, p := eq(it.Value(), bv, fmt.Sprintf("%s[%v]", path, it.Key()), depth+1); !ok {
				return false, p
			}
		}
	case reflect.Ptr, reflect.Interface:
		if a.IsNil() || b.IsNil() {
			if a.IsNil() != b.IsNil() {
				return false, fmt.Sprintf("%s: nil vs non-nil (%s)", path, a.Type())
			}
			return true, ""
		}
		if a.Kind() == reflect.Ptr && a.Pointer() == b.Pointer() {
			return true, ""
		}
		return eq(a.Elem(), b.Elem(), path, depth+1)
	case reflect.Struct:
		for i := 0; i < a.NumField(); i++ {
			if ok, p := eq(a.Field(i), b.Field(i), path+"."+a.Type().Field(i).Name, depth+1); !ok {
				return false, p
			}
		}
	case reflect.Func, reflect.Chan, reflect.UnsafePointer:
		if a.Pointer() != b.Pointer() {
			return false, path + ": pointer differs"
		}
	}
	return true, ""
}

// Hex is a helper for replay records.
func Hex(b []byte) string { return hex.EncodeToString(b) }

// UnHex decodes a replay record input.
func UnHex(s string) []byte {
	b, err := hex.DecodeString(s)
	if err != nil {
		panic(err)
	}
	return b
}

// PrefixTails enumerates seed[:p] + t for every cut position p (0..len(seed)) and every tail t over
// alpha with 1..maxTail bytes ("all strings up to maxTail at every structural offset").
func PrefixTails(seed []byte, alpha []byte, maxTail, w, W int, fn func(m []byte, note string)) {
	i := 0
	buf := make([]byte, len(seed)+maxTail)
	for p := 0; p <= len(seed); p++ {
		copy(buf, seed[:p])
		Strings(alpha, 1, maxTail, 0, 1, func(t []byte) {
			i++
			if (i-1)%W != w {
				return
			}
			copy(buf[p:], t)
			fn(buf[:p+len(t)], fmt.Sprintf("prefix %d + tail %x", p, t))
		})
	}
}

// RTCase is the replay record of a round-trip case.
type RTCase struct {
	Kind string `json:"kind"` // "roundtrip"
	Name string `json:"name"`
}

// ---- generic decoder-safety driver ----

// Seed is one well-formed input and the entry points it is meaningful for.
type Seed struct {
	Name    string
	Data    []byte
	Entries []*Entry
	NoPairs bool // exclude this seed from the thorough-tier fault pairs
	Light   bool // only the basic single-fault catalogue (12 byte values), no pairs, no garbage tails
}

// StrGroup is one all-strings enumeration: every string over Alpha up to MaxLen at each entry.
type StrGroup struct {
	Label   string
	Entries []*Entry
	Alpha   []byte
	MaxLen  int
}

var ptrRe = regexp.MustCompile(`0x[0-9a-f]{6,16}`)

// Scrub removes pointer values (printed by some String() methods of the packages) from a rendering.
func Scrub(s string) string {
	if !strings.Contains(s, "0x") {
		return s
	}
	return ptrRe.ReplaceAllString(s, "PTR")
}

// Plan describes the decoder-safety exploration of one package.
type Plan struct {
	Entries   []*Entry // entry points fed with the all-strings enumeration
	StrAlpha  []byte
	StrMaxLen int
	// second group: entry points that only get a reduced enumeration (full alphabet unaffordable)
	Entries2   []*Entry
	Str2Alpha  []byte
	Str2MaxLen int
	// further enumeration groups
	Groups       []StrGroup
	Seeds        []Seed
	Opt          MutOpt
	TailFull     int // garbage tails up to this length over the full alphabet at every cut position of every seed
	TailBoundary int // and up to this length over Boundary
	SkipAlloc    bool
	// AllocFilter restricts the single-threaded allocation pass (nil = every seed x entry)
	AllocFilter func(s *Seed, e *Entry) bool
	AllocOpt    MutOpt
}

// Run executes the plan: parallel crash/over-read/input-integrity phases, then the
// single-threaded allocation pass over the single-fault catalogue of every seed.
func (p *Plan) Run(r *vr.Report) {
	W := vr.Workers()
	r.Bounds["all_strings_alphabet"] = len(p.StrAlpha)
	r.Bounds["all_strings_max_len"] = p.StrMaxLen
	r.Bounds["all_strings_entry_points"] = len(p.Entries)
	r.Bounds["seeds"] = len(p.Seeds)
	r.Bounds["mutation_all_byte_values"] = p.Opt.AllByteValues
	r.Bounds["mutation_pairs"] = p.Opt.Pairs
	r.Bounds["mutation_pair_stride"] = p.Opt.PairStride
	r.Bounds["tail_full_alphabet_len"] = p.TailFull
	r.Bounds["tail_boundary_alphabet_len"] = p.TailBoundary
	r.Bounds["slack_poison_bytes"] = Slack
	r.Bounds["nontrivial_registration_cap_per_entry_per_worker"] = 20000 // distinct_nontrivial is a lower bound
	r.Bounds["alloc_pass_windows_and_truncations_only"] = p.AllocOpt.WindowsOnly
	r.Bounds["alloc_pass_filtered"] = p.AllocFilter != nil
	r.Extra["all_strings_count_per_entry"] = CountStrings(len(p.StrAlpha), 0, p.StrMaxLen)
	if len(p.Entries2) > 0 {
		r.Bounds["reduced_strings_entry_points"] = len(p.Entries2)
		r.Bounds["reduced_strings_alphabet"] = fmt.Sprintf("%x", p.Str2Alpha)
		if len(p.Str2Alpha) == 256 {
			r.Bounds["reduced_strings_alphabet"] = "full"
		}
		r.Bounds["reduced_strings_max_len"] = p.Str2MaxLen
		r.Extra["reduced_strings_count_per_entry"] = CountStrings(len(p.Str2Alpha), 0, p.Str2MaxLen)
	}
	for _, g := range p.Groups {
		a := fmt.Sprintf("%x", g.Alpha)
		if len(g.Alpha) == 256 {
			a = "full(256)"
		}
		r.Bounds["strings_group:"+g.Label] = fmt.Sprintf("entry_points=%d alphabet=%s max_len=%d strings_per_entry=%d", len(g.Entries), a, g.MaxLen, CountStrings(len(g.Alpha), 0, g.MaxLen))
	}
	names := []string{}
	for _, e := range p.Entries {
		names = append(names, e.Name)
	}
	for _, e := range p.Entries2 {
		names = append(names, e.Name+" (reduced)")
	}
	r.Extra["entry_points"] = names
	t0 := time.Now()
	r.Parallel(W, func(w int, cr *vr.Report) {
		c := NewChecker(cr)
		defer c.Done()
		Strings(p.StrAlpha, 0, p.StrMaxLen, w, W, func(s []byte) {
			for _, e := range p.Entries {
				c.Check(e, s, "all-strings")
			}
		})
		if len(p.Entries2) > 0 {
			Strings(p.Str2Alpha, 0, p.Str2MaxLen, w, W, func(s []byte) {
				for _, e := range p.Entries2 {
					c.Check(e, s, "reduced-strings")
				}
			})
		}
		for gi := range p.Groups {
			g := &p.Groups[gi]
			Strings(g.Alpha, 0, g.MaxLen, w, W, func(s []byte) {
				for _, e := range g.Entries {
					c.Check(e, s, g.Label)
				}
			})
		}
	})
	r.Extra["phase_all_strings_s"] = time.Since(t0).Seconds()
	t0 = time.Now()
	r.Parallel(W, func(w int, cr *vr.Report) {
		c := NewChecker(cr)
		defer c.Done()
		for si := range p.Seeds {
			s := &p.Seeds[si]
			// rotate the shard so that short seeds do not all land on worker 0
			ww := (w + si) % W
			opt := p.Opt
			if s.NoPairs {
				opt.Pairs = false
			}
			if s.Light {
				opt = MutOpt{}
			}
			Mutants(s.Data, opt, ww, W, func(m []byte, note string) {
				for _, e := range s.Entries {
					o := c.Check(e, m, s.Name+" "+note)
					if o.OK && note != "seed" && cr.WantSample() && (si+len(m))%7 == 0 {
						cr.Sample(c.CurCase())
					}
				}
			})
			if p.TailFull > 0 && !s.Light {
				PrefixTails(s.Data, FullAlphabet(), p.TailFull, ww, W, func(m []byte, note string) {
					for _, e := range s.Entries {
						c.Check(e, m, s.Name+" "+note)
					}
				})
			}
			if p.TailBoundary > p.TailFull && !s.Light {
				PrefixTails(s.Data, Boundary, p.TailBoundary, ww, W, func(m []byte, note string) {
					if len(note) > 0 && p.TailFull > 0 {
						// tails of length <= TailFull were covered with the full alphabet
					}
					for _, e := range s.Entries {
						c.Check(e, m, s.Name+" "+note)
					}
				})
			}
		}
	})
	r.Extra["phase_mutants_s"] = time.Since(t0).Seconds()
	if p.SkipAlloc {
		return
	}
	t0 = time.Now()
	c := NewChecker(r)
	total := 0
	var max uint64
	maxCase := ""
	for si := range p.Seeds {
		s := &p.Seeds[si]
		var in [][]byte
		var notes []string
		built := false
		for _, e := range s.Entries {
			if p.AllocFilter != nil && !p.AllocFilter(s, e) {
				continue
			}
			if !built {
				built = true
				Mutants(s.Data, p.AllocOpt, 0, 1, func(m []byte, note string) {
					in = append(in, append([]byte(nil), m...))
					notes = append(notes, s.Name+" "+note)
				})
			}
			d, at := c.AllocScan(e, in, notes)
			total += len(in)
			if d > max {
				max = d
				maxCase = fmt.Sprintf("%s %s %x", e.Name, notes[at], in[at])
			}
		}
	}
	c.Done()
	r.Extra["alloc_scan_cases"] = total
	r.Extra["alloc_scan_max_isolated_delta_bytes"] = max
	r.Extra["alloc_scan_max_isolated_case"] = maxCase
	r.Extra["phase_alloc_s"] = time.Since(t0).Seconds()
}

// ReplayDecoder re-executes a recorded decoder case (kind != "roundtrip"). It reports whether the
// artefact was a decoder case.
func ReplayDecoder(r *vr.Report, entries []*Entry) bool {
	var cs Case
	if err := r.LoadReplay(&cs); err != nil || cs.Entry == "" {
		return false
	}
	c := NewChecker(r)
	defer c.Done()
	for _, e := range entries {
		if e.Name == cs.Entry {
			data := UnHex(cs.Hex)
			c.Check(e, data, cs.Note)
			c.AllocScan(e, [][]byte{data}, []string{cs.Note})
			return true
		}
	}
	r.Violationf("C19:replay:unknown-entry", cs, "replay names unknown entry %q", cs.Entry)
	return true
}

// ---- stream splitters through a real bufio.Scanner ----

type chunkReader struct {
	data []byte
	k    int
}

func (c *chunkReader) Read(p []byte) (int, error) {
	if len(c.data) == 0 {
		return 0, io.EOF
	}
	n := c.k
	if n > len(c.data) {
		n = len(c.data)
	}
	if n > len(p) {
		n = len(p)
	}
	copy(p, c.data[:n])
	c.data = c.data[n:]
	return n, nil
}

// StreamCase is the replay record of a splitter stream case.
type StreamCase struct {
	Kind  string `json:"kind"` // "stream"
	Hex   string `json:"hex"`
	Chunk int    `json:"chunk"`
	Note  string `json:"note,omitempty"`
}

// ScanStream drives split through a real bufio.Scanner over stream delivered in reads of `chunk`
// bytes and compares the tokens with ref(stream) (the framing rule of the RFC, written independently).
// Oracles: no panic (bufio panics on misbehaving split functions), progress, tokens == reference
// for every chunk size (so tokenisation cannot depend on read boundaries / stale buffer bytes).
func ScanStream(r *vr.Report, name string, split bufio.SplitFunc, ref func([]byte) [][]byte, hdrLen int, stream []byte, chunk int, note string) {
	r.Eval()
	cs := StreamCase{"stream", Hex(stream), chunk, note}
	want := ref(stream)
	var got [][]byte
	var scanErr error
	looped := false
	if k, msg := Guard(func() {
		sc := bufio.NewScanner(&chunkReader{append([]byte(nil), stream...), chunk})
		sc.Buffer(make([]byte, 0, 64), 1<<20)
		sc.Split(split)
		for sc.Scan() {
			got = append(got, append([]byte(nil), sc.Bytes()...))
			if len(got) > len(stream)+8 {
				looped = true
				break
			}
		}
		scanErr = sc.Err()
	}); k != "" {
		r.Violationf("C19:splitter-scanner-panic:"+name, cs, "bufio.Scanner over %s panicked (%s) on stream %x read in chunks of %d (%s)", name, msg, stream, chunk, note)
		return
	}
	if looped {
		r.Violationf("C19:splitter-no-progress:"+name, cs, "bufio.Scanner over %s delivers tokens without consuming input: stream %x chunks of %d (%s)", name, stream, chunk, note)
		return
	}
	same := len(got) == len(want)
	for i := 0; same && i < len(got); i++ {
		same = bytes.Equal(got[i], want[i])
	}
	if !same {
		cls := "other"
		switch {
		case scanErr != nil:
			cls = "scan-error"
		case len(got) > 0 && len(got[len(got)-1]) < hdrLen:
			cls = "token-shorter-than-header"
		case len(got) < len(want):
			cls = "records-missing"
		}
		r.Violationf("C19:splitter-framing:"+name+":"+cls, cs, "stream %x read in chunks of %d (%s): scanner tokens %x, RFC framing gives %x (scan error %v)", stream, chunk, note, got, want, scanErr)
		return
	}
	if len(want) > 0 {
		r.NT(fmt.Sprintf("stream|%x|%d", stream, chunk))
	}
	n := len(want)
	if n > 3 {
		n = 3
	}
	r.Outcome(fmt.Sprintf("stream: %d record(s) tokenised as the reference", n))
}

// ScanStreams runs ScanStream over every single-fault mutant of every stream for every chunk size.
func ScanStreams(r *vr.Report, name string, split bufio.SplitFunc, ref func([]byte) [][]byte, hdrLen int, streams [][]byte, notes []string, chunks []int, maxLen int) {
	W := vr.Workers()
	r.Bounds["stream_seeds"] = len(streams)
	r.Bounds["stream_chunk_sizes"] = fmt.Sprint(chunks)
	r.Bounds["stream_max_len"] = maxLen
	r.Parallel(W, func(w int, cr *vr.Report) {
		i := 0
		for si, s := range streams {
			if len(s) > maxLen {
				continue
			}
			Mutants(s, MutOpt{}, 0, 1, func(m []byte, note string) {
				for _, k := range chunks {
					i++
					if i%W != w {
						continue
					}
					ScanStream(cr, name, split, ref, hdrLen, m, k, notes[si]+" "+note)
				}
			})
		}
	})
}
