package table

// C13 — compiled community matchers decide exactly what their regular expressions decide.
//
// E-SEQ: bounded-exhaustive enumeration of a pattern grammar (anchoring x AS-part x separator x
// LOCAL-part, top-level and grouped alternations, well-known names, plain integers, ext-community
// sub-type prefixes, large communities) x pattern lists of size <=2 x any/all/invert x route
// community lists of size 0..2 over a boundary grid (plus the whole 2^16 local range for every
// pattern the compiler promoted away from the regexp), and of Append/Remove/Replace edit sequences.
//
// Oracle: Go's regexp on the *stored* pattern (what the set lists back after the parser's
// normalisation) against the canonical text of each community, combined by the option:
//   any    = some community matches some pattern
//   all    = every pattern is matched by some community        (not applied to an empty pattern list)
//   invert = not any
// For ext-communities a pattern "<sub>:<re>" applies to a community iff the community's wire
// sub-type octet equals <sub> and its type octet has the transitive bit (0x40) clear — the
// documented "match only with transitive community, RFC 7153" rule of the condition.
// After every edit: the listed patterns equal the independently edited list, and the (already
// bound) condition behaves exactly like a condition on a freshly built set of that list.

import (
	"encoding/hex"
	"fmt"
	"log/slog"
	"net/netip"
	"regexp"
	"runtime"
	"sort"
	"strconv"
	"strings"
	"testing"
	"time"

	"github.com/osrg/gobgp/v4/internal/verif/vr"
	"github.com/osrg/gobgp/v4/pkg/config/oc"
	"github.com/osrg/gobgp/v4/pkg/packet/bgp"
)

const (
	c13Std   = "std"
	c13Ext   = "ext"
	c13Large = "large"
)

const (
	c13Any = iota
	c13All
	c13Invert
)

var c13OptName = [3]string{"any", "all", "invert"}
var c13OcOpt = [3]oc.MatchSetOptionsType{oc.MATCH_SET_OPTIONS_TYPE_ANY, oc.MATCH_SET_OPTIONS_TYPE_ALL, oc.MATCH_SET_OPTIONS_TYPE_INVERT}

type c13Discard struct{}

func (c13Discard) Write(b []byte) (int, error) { return len(b), nil }

var c13Logger = slog.New(slog.NewTextHandler(c13Discard{}, &slog.HandlerOptions{Level: slog.LevelError}))

// ---- replayable case ----

type c13Edit struct {
	Op       string   `json:"op"` // append | remove | replace | replace-via-policy
	Patterns []string `json:"patterns"`
}

type c13Case struct {
	Kind     string    `json:"kind"`
	Patterns []string  `json:"patterns"` // as configured (before the parser's normalisation)
	Edits    []c13Edit `json:"edits,omitempty"`
	Option   string    `json:"option"`
	Comms    []string  `json:"communities"` // see c13ParseVal
	Stored   []string  `json:"stored,omitempty"`
	Got      string    `json:"got,omitempty"`
	Want     string    `json:"want,omitempty"`
}

// ---- community values (plain data + the real object) ----

type c13Val struct {
	Text  string // replayable encoding
	std   uint32
	ext   bgp.ExtendedCommunityInterface
	large *bgp.LargeCommunity
	canon string // canonical text the regular expressions are defined over
	sub   int    // ext: sub-type octet on the wire
	trans bool   // ext: transitive bit clear on the wire
}

func c13StdVal(as, local uint16) *c13Val {
	t := strconv.Itoa(int(as)) + ":" + strconv.Itoa(int(local))
	return &c13Val{Text: t, std: uint32(as)<<16 | uint32(local), canon: t}
}

func c13LargeVal(a, b, c uint32) *c13Val {
	t := fmt.Sprintf("%d:%d:%d", a, b, c)
	return &c13Val{Text: t, large: bgp.NewLargeCommunity(a, b, c), canon: t}
}

func c13ExtFinish(v *c13Val, ownCanon bool) *c13Val {
	b, err := v.ext.Serialize()
	if err != nil || len(b) < 2 {
		panic(fmt.Sprintf("c13: cannot serialise %s: %v", v.Text, err))
	}
	v.sub = int(b[1])
	v.trans = b[0]&0x40 == 0
	if ownCanon {
		if s := v.ext.String(); s != v.canon {
			panic(fmt.Sprintf("c13: harness canonical text %q differs from the package's %q for %s", v.canon, s, v.Text))
		}
	} else {
		v.canon = v.ext.String() // trusted: the package's rendering is the canonical text of these types
	}
	return v
}

func c13Ext2o(sub uint8, as uint16, la uint32, trans bool) *c13Val {
	v := &c13Val{Text: fmt.Sprintf("2o:%d:%d:%d:%t", sub, as, la, trans),
		ext:   bgp.NewTwoOctetAsSpecificExtended(bgp.ExtendedCommunityAttrSubType(sub), as, la, trans),
		canon: fmt.Sprintf("%d:%d", as, la)}
	return c13ExtFinish(v, true)
}

func c13Ext4o(sub uint8, as uint32, la uint16) *c13Val {
	v := &c13Val{Text: fmt.Sprintf("4o:%d:%d:%d", sub, as, la),
		ext:   bgp.NewFourOctetAsSpecificExtended(bgp.ExtendedCommunityAttrSubType(sub), as, la, true),
		canon: fmt.Sprintf("%d.%d:%d", as>>16, as&0xffff, la)}
	return c13ExtFinish(v, true)
}

func c13ExtIP(sub uint8, addr string, la uint16) *c13Val {
	e, err := bgp.NewIPv4AddressSpecificExtended(bgp.ExtendedCommunityAttrSubType(sub), netip.MustParseAddr(addr), la, true)
	if err != nil {
		panic(err)
	}
	v := &c13Val{Text: fmt.Sprintf("ip:%d:%s:%d", sub, addr, la), ext: e, canon: fmt.Sprintf("%s:%d", addr, la)}
	return c13ExtFinish(v, true)
}

func c13ExtEncap(tt uint16) *c13Val {
	return c13ExtFinish(&c13Val{Text: fmt.Sprintf("encap:%d", tt), ext: bgp.NewEncapExtended(bgp.TunnelType(tt))}, false)
}

func c13ExtOpaque(trans bool, val []byte) *c13Val {
	return c13ExtFinish(&c13Val{Text: fmt.Sprintf("opaque:%t:%s", trans, hex.EncodeToString(val)), ext: bgp.NewOpaqueExtended(trans, val)}, false)
}

func c13ExtLB(as uint16, bw uint32) *c13Val {
	return c13ExtFinish(&c13Val{Text: fmt.Sprintf("lb:%d:%d", as, bw), ext: bgp.NewLinkBandwidthExtended(as, float32(bw))}, false)
}

func c13ExtValidation(state uint8) *c13Val {
	return c13ExtFinish(&c13Val{Text: fmt.Sprintf("val:%d", state), ext: bgp.NewValidationExtended(bgp.ValidationState(state))}, false)
}

func c13ParseVal(kind, text string) (*c13Val, error) {
	f := strings.Split(text, ":")
	u := func(s string, bits int) uint64 {
		n, err := strconv.ParseUint(s, 10, bits)
		if err != nil {
			panic(fmt.Sprintf("c13: bad replay value %q", text))
		}
		return n
	}
	switch kind {
	case c13Std:
		if len(f) != 2 {
			return nil, fmt.Errorf("bad std community %q", text)
		}
		return c13StdVal(uint16(u(f[0], 16)), uint16(u(f[1], 16))), nil
	case c13Large:
		if len(f) != 3 {
			return nil, fmt.Errorf("bad large community %q", text)
		}
		return c13LargeVal(uint32(u(f[0], 32)), uint32(u(f[1], 32)), uint32(u(f[2], 32))), nil
	}
	switch f[0] {
	case "2o":
		return c13Ext2o(uint8(u(f[1], 8)), uint16(u(f[2], 16)), uint32(u(f[3], 32)), f[4] == "true"), nil
	case "4o":
		return c13Ext4o(uint8(u(f[1], 8)), uint32(u(f[2], 32)), uint16(u(f[3], 16))), nil
	case "ip":
		return c13ExtIP(uint8(u(f[1], 8)), f[2], uint16(u(f[3], 16))), nil
	case "encap":
		return c13ExtEncap(uint16(u(f[1], 16))), nil
	case "opaque":
		b, _ := hex.DecodeString(f[2])
		return c13ExtOpaque(f[1] == "true", b), nil
	case "lb":
		return c13ExtLB(uint16(u(f[1], 16)), uint32(u(f[2], 32))), nil
	case "val":
		return c13ExtValidation(uint8(u(f[1], 8))), nil
	}
	return nil, fmt.Errorf("bad ext community %q", text)
}

var c13Nlri = func() bgp.NLRI {
	n, err := bgp.NewIPAddrPrefix(netip.MustParsePrefix("10.13.0.0/24"))
	if err != nil {
		panic(err)
	}
	return n
}()

// c13Path builds a real route carrying the given communities (no attribute at all for an empty list).
func c13Path(kind string, vals []*c13Val) *Path {
	nh, _ := bgp.NewPathAttributeNextHop(netip.MustParseAddr("192.0.2.1"))
	attrs := []bgp.PathAttributeInterface{
		bgp.NewPathAttributeOrigin(0),
		bgp.NewPathAttributeAsPath([]bgp.AsPathParamInterface{bgp.NewAs4PathParam(bgp.BGP_ASPATH_ATTR_TYPE_SEQ, []uint32{65001})}),
		nh,
	}
	if len(vals) > 0 {
		switch kind {
		case c13Std:
			cs := make([]uint32, len(vals))
			for i, v := range vals {
				cs[i] = v.std
			}
			attrs = append(attrs, bgp.NewPathAttributeCommunities(cs))
		case c13Ext:
			es := make([]bgp.ExtendedCommunityInterface, len(vals))
			for i, v := range vals {
				es[i] = v.ext
			}
			attrs = append(attrs, bgp.NewPathAttributeExtendedCommunities(es))
		case c13Large:
			ls := make([]*bgp.LargeCommunity, len(vals))
			for i, v := range vals {
				ls[i] = v.large
			}
			attrs = append(attrs, bgp.NewPathAttributeLargeCommunities(ls))
		}
	}
	return NewPath(bgp.RF_IPv4_UC, nil, bgp.PathNLRI{NLRI: c13Nlri}, false, attrs, time.Unix(1000, 0), false)
}

// ---- reference: stored patterns evaluated by package regexp ----

type c13Ref struct {
	kind   string
	stored []string
	sub    []int
	re     []*regexp.Regexp
}

var c13ExtPrefix = map[string]int{"rt": 0x02, "soo": 0x03, "lb": 0x04, "encap": 0x0c}

func c13MakeRef(kind string, listed []string) (*c13Ref, error) {
	f := &c13Ref{kind: kind, stored: listed}
	for _, s := range listed {
		sub := -1
		body := s
		if kind == c13Ext {
			i := strings.IndexByte(s, ':')
			if i < 0 {
				return nil, fmt.Errorf("listed ext-community pattern %q has no sub-type prefix", s)
			}
			st, ok := c13ExtPrefix[s[:i]]
			if !ok {
				return nil, fmt.Errorf("listed ext-community pattern %q has an unknown sub-type prefix", s)
			}
			sub, body = st, s[i+1:]
		}
		re, err := regexp.Compile(body)
		if err != nil {
			return nil, fmt.Errorf("listed pattern %q does not compile: %v", s, err)
		}
		f.sub = append(f.sub, sub)
		f.re = append(f.re, re)
	}
	return f, nil
}

func (f *c13Ref) match(i int, v *c13Val) bool {
	if f.kind == c13Ext && (!v.trans || v.sub != f.sub[i]) {
		return false
	}
	return f.re[i].MatchString(v.canon)
}

// want computes the reference verdict from a pattern x value match matrix.
func c13Want(opt int, m [][]bool, list []int) (want, defined bool) {
	switch opt {
	case c13All:
		if len(m) == 0 {
			return false, false // the property text does not define "all" over an empty pattern list
		}
		for i := range m {
			hit := false
			for _, v := range list {
				if m[i][v] {
					hit = true
					break
				}
			}
			if !hit {
				return false, true
			}
		}
		return true, true
	default:
		any := false
		for i := range m {
			for _, v := range list {
				if m[i][v] {
					any = true
				}
			}
		}
		if opt == c13Invert {
			return !any, true
		}
		return any, true
	}
}

// ---- universe of route community lists ----

type c13Univ struct {
	kind  string
	vals  []*c13Val
	lists [][]int
	paths []*Path
}

// lists: the empty list, every single value, every ordered pair (with repetition) over pairIdx.
func c13MakeUniv(kind string, vals []*c13Val, pairIdx []int) *c13Univ {
	u := &c13Univ{kind: kind, vals: vals}
	u.lists = append(u.lists, []int{})
	for i := range vals {
		u.lists = append(u.lists, []int{i})
	}
	for _, i := range pairIdx {
		for _, j := range pairIdx {
			u.lists = append(u.lists, []int{i, j})
		}
	}
	u.build()
	return u
}

func (u *c13Univ) build() {
	u.paths = make([]*Path, len(u.lists))
	for li, l := range u.lists {
		vs := make([]*c13Val, len(l))
		for k, i := range l {
			vs[k] = u.vals[i]
		}
		u.paths[li] = c13Path(u.kind, vs)
	}
}

func (u *c13Univ) texts(l []int) []string {
	t := make([]string, len(l))
	for k, i := range l {
		t[k] = u.vals[i].Text
	}
	return t
}

func c13AllIdx(n int) []int {
	r := make([]int, n)
	for i := range r {
		r[i] = i
	}
	return r
}

// ---- binding to the implementation ----

func c13NewSet(kind, name string, pats []string) (DefinedSet, error) {
	switch kind {
	case c13Std:
		s, err := NewCommunitySet(oc.CommunitySet{CommunitySetName: name, CommunityList: pats})
		if err != nil {
			return nil, err
		}
		return s, nil
	case c13Ext:
		s, err := NewExtCommunitySet(oc.ExtCommunitySet{ExtCommunitySetName: name, ExtCommunityList: pats})
		if err != nil {
			return nil, err
		}
		return s, nil
	default:
		s, err := NewLargeCommunitySet(oc.LargeCommunitySet{LargeCommunitySetName: name, LargeCommunityList: pats})
		if err != nil {
			return nil, err
		}
		return s, nil
	}
}

func c13DefinedType(kind string) DefinedType {
	switch kind {
	case c13Std:
		return DEFINED_TYPE_COMMUNITY
	case c13Ext:
		return DEFINED_TYPE_EXT_COMMUNITY
	}
	return DEFINED_TYPE_LARGE_COMMUNITY
}

func c13NewCond(kind, name string, opt int) (Condition, error) {
	switch kind {
	case c13Std:
		c, err := NewCommunityCondition(oc.MatchCommunitySet{CommunitySet: name, MatchSetOptions: c13OcOpt[opt]})
		if err != nil {
			return nil, err
		}
		return c, nil
	case c13Ext:
		c, err := NewExtCommunityCondition(oc.MatchExtCommunitySet{ExtCommunitySet: name, MatchSetOptions: c13OcOpt[opt]})
		if err != nil {
			return nil, err
		}
		return c, nil
	default:
		c, err := NewLargeCommunityCondition(oc.MatchLargeCommunitySet{LargeCommunitySet: name, MatchSetOptions: c13OcOpt[opt]})
		if err != nil {
			return nil, err
		}
		return c, nil
	}
}

// c13Ctx is one routing policy holding one defined set "s" and three conditions (any/all/invert)
// bound to it the way the daemon binds them (RoutingPolicy.validateCondition).
type c13Ctx struct {
	kind     string
	rp       *RoutingPolicy
	conds    [3]Condition
	singles  map[string]*c13Ctx // classifier cache: one-pattern sets by stored pattern
	verdict  map[string][2]string
	reported map[string]bool
}

const c13SetName = "s"

func c13NewCtx(kind string) *c13Ctx {
	x := &c13Ctx{kind: kind, rp: NewRoutingPolicy(c13Logger)}
	if err := x.rp.Reset(&oc.RoutingPolicy{}, nil); err != nil {
		panic(err)
	}
	return x
}

// install replaces the set by a freshly built one and (re)binds the three conditions.
func (x *c13Ctx) install(pats []string) error {
	s, err := c13NewSet(x.kind, c13SetName, pats)
	if err != nil {
		return err
	}
	if err := x.rp.AddDefinedSet(s, true); err != nil {
		return err
	}
	for o := 0; o < 3; o++ {
		c, err := c13NewCond(x.kind, c13SetName, o)
		if err != nil {
			return err
		}
		if err := x.rp.validateCondition(c); err != nil {
			return err
		}
		x.conds[o] = c
	}
	return nil
}

func (x *c13Ctx) cur() DefinedSet {
	return x.rp.definedSetMap[c13DefinedType(x.kind)][c13SetName]
}

func c13PanicSite() string {
	pcs := make([]uintptr, 40)
	n := runtime.Callers(3, pcs)
	fr := runtime.CallersFrames(pcs[:n])
	for {
		f, more := fr.Next()
		if strings.Contains(f.Function, "osrg/gobgp") && !strings.Contains(f.File, "zz_verif") && !strings.Contains(f.Function, "internal/verif") {
			i := strings.LastIndex(f.File, "/")
			return fmt.Sprintf("%s:%d", f.File[i+1:], f.Line)
		}
		if !more {
			return "unknown"
		}
	}
}

func c13Eval(c Condition, p *Path) (res bool, pan string) {
	defer func() {
		if e := recover(); e != nil {
			pan = fmt.Sprintf("%s: %v", c13PanicSite(), e)
		}
	}()
	return c.Evaluate(p, nil), ""
}

// white-box: how the compiler classified pattern i of the current set (vacuity statistics, messages)
func (x *c13Ctx) mode(i int) string {
	switch s := x.cur().(type) {
	case *CommunitySet:
		if i < len(s.matchers) {
			return [...]string{"exact", "fixed-as-wildcard", "fixed-as-bitmap", "local-independent-bitmap", "regexp"}[s.matchers[i].mode]
		}
	case *ExtCommunitySet:
		if i < len(s.matchers) {
			return [...]string{"exact", "as-only", "as-bitmap", "local-bitmap", "regexp"}[s.matchers[i].mode]
		}
	case *LargeCommunitySet:
		return "regexp-loop"
	}
	return "?"
}

// ---- failure signatures ----

var c13LeadingZero = regexp.MustCompile(`(^|[^0-9])0[0-9]`)

// c13Feat names the syntactic near-miss features of a stored pattern; the violation key is built
// from it so that one root cause gives one key whatever the concrete numbers are.
func c13Feat(kind, stored string) string {
	body := stored
	if kind == c13Ext {
		if i := strings.IndexByte(stored, ':'); i >= 0 {
			body = stored[i+1:]
		}
	}
	var f []string
	if c13LeadingZero.MatchString(body) {
		f = append(f, "leading-zero")
	}
	if strings.Contains(body, ":?") {
		f = append(f, "optional-colon")
	}
	if strings.Count(body, ":") >= 2 {
		f = append(f, "multi-colon")
	}
	if strings.Contains(body, " ") {
		f = append(f, "space-in-alternation")
	}
	if len(f) == 0 {
		return "none"
	}
	return strings.Join(f, "+")
}

func (x *c13Ctx) single(stored string) *c13Ctx {
	if x.singles == nil {
		x.singles = map[string]*c13Ctx{}
	}
	if s, ok := x.singles[stored]; ok {
		return s
	}
	s := c13NewCtx(x.kind)
	if err := s.install([]string{stored}); err != nil {
		s = nil
	}
	x.singles[stored] = s
	return s
}

// classify attributes a disagreement to a single mis-compiled pattern when one of the stored
// patterns, installed alone, already disagrees with its regexp on one of the route's communities.
func (x *c13Ctx) classify(ref *c13Ref, vals []*c13Val) (key, detail string) {
	if x.verdict == nil {
		x.verdict = map[string][2]string{}
	}
	for i, st := range ref.stored {
		for _, v := range vals {
			ck := st + "\x00" + v.Text
			r, ok := x.verdict[ck]
			if !ok {
				if s := x.single(st); s != nil {
					// one pattern, one community: any and all coincide, invert is the negation; any/invert
					// may take the index fast path while all always walks the compiled matchers
					want := ref.match(i, v)
					p1 := c13Path(x.kind, []*c13Val{v})
					got, pan := c13Eval(s.conds[c13Any], p1)
					if pan == "" && got == want {
						got, pan = c13Eval(s.conds[c13All], p1)
					}
					if pan == "" && got == want {
						var inv bool
						inv, pan = c13Eval(s.conds[c13Invert], p1)
						got = !inv
					}
					if pan != "" || got != want {
						m := s.mode(0)
						feat := c13Feat(x.kind, st)
						// the analysis helpers are shared by the standard and the extended compiler:
						// one key per syntactic feature, whatever the kind
						k := "C13:pattern-miscompiled:feature=" + feat
						if feat == "none" {
							k = "C13:" + x.kind + ":pattern-miscompiled:feature=none:mode=" + m
						}
						r = [2]string{k, fmt.Sprintf("pattern %q alone (compiled as %s) gives %v on %s, regexp gives %v", st, m, got, v.canon, want)}
					}
				}
				x.verdict[ck] = r
			}
			if r[0] != "" {
				return r[0], r[1]
			}
		}
	}
	return "", ""
}

func (x *c13Ctx) report(c *vr.Report, ref *c13Ref, in []string, edits []c13Edit, opt int, vals []*c13Val, got, want bool, pan string) {
	// after the first case of a signature on this worker only its count is bumped (the recorder keeps
	// the first case per signature anyway)
	if pan == "" {
		if k, _ := x.classify(ref, vals); k != "" && x.reported[k] {
			c.Violation(k, "", nil)
			return
		}
	}
	texts := make([]string, len(vals))
	canon := make([]string, len(vals))
	for i, v := range vals {
		texts[i], canon[i] = v.Text, v.canon
	}
	cs := c13Case{Kind: x.kind, Patterns: in, Edits: edits, Option: c13OptName[opt], Comms: texts, Stored: ref.stored,
		Got: fmt.Sprint(got), Want: fmt.Sprint(want)}
	if pan != "" {
		site := pan
		if i := strings.Index(pan, ": "); i > 0 {
			site = pan[:i]
		}
		cs.Got = "panic"
		c.Violationf("C13:"+x.kind+":panic:"+site, cs, "%s condition panicked: %s; stored=%q option=%s communities=%v", x.kind, pan, ref.stored, c13OptName[opt], canon)
		return
	}
	k, detail := x.classify(ref, vals)
	if k == "" {
		modes := make([]string, len(ref.stored))
		for i := range ref.stored {
			modes[i] = x.mode(i)
		}
		sm := append([]string{}, modes...)
		sort.Strings(sm)
		k = "C13:" + x.kind + ":combination:modes=" + strings.Join(sm, ",")
		detail = "every pattern alone agrees with its regexp; the combination does not"
	}
	if x.reported == nil {
		x.reported = map[string]bool{}
	}
	x.reported[k] = true
	c.Violationf(k, cs, "%s set stored=%q (configured %q, edits %v) option=%s communities=%v: condition=%v regexp=%v; %s",
		x.kind, ref.stored, in, edits, c13OptName[opt], canon, got, want, detail)
}

// sweep evaluates the current set of x under the three options on every list of u against the
// regexp reference over the patterns the set lists back. Returns false on an unusable listing.
func (x *c13Ctx) sweep(c *vr.Report, in []string, edits []c13Edit, u *c13Univ) bool {
	listed := x.cur().List()
	ref, err := c13MakeRef(x.kind, listed)
	if err != nil {
		c.Violationf("C13:"+x.kind+":listed-pattern-unusable", c13Case{Kind: x.kind, Patterns: in, Edits: edits, Stored: listed}, "configured %q: %v", in, err)
		return false
	}
	m := make([][]bool, len(ref.re))
	for i := range m {
		m[i] = make([]bool, len(u.vals))
		for vi, v := range u.vals {
			m[i][vi] = ref.match(i, v)
		}
	}
	var sawT, sawF [3]bool
	for li, l := range u.lists {
		for opt := 0; opt < 3; opt++ {
			want, def := c13Want(opt, m, l)
			if !def {
				continue
			}
			c.Eval()
			got, pan := c13Eval(x.conds[opt], u.paths[li])
			if c.WantSample() && len(l) == 2 && len(listed) == 2 && want && opt == li%3 {
				c.Sample(c13Case{Kind: x.kind, Patterns: in, Edits: edits, Stored: listed, Option: c13OptName[opt], Comms: u.texts(l), Got: fmt.Sprint(got), Want: fmt.Sprint(want)})
			}
			if want {
				sawT[opt] = true
			} else {
				sawF[opt] = true
			}
			if pan != "" || got != want {
				vs := make([]*c13Val, len(l))
				for k, i := range l {
					vs[k] = u.vals[i]
				}
				x.report(c, ref, in, edits, opt, vs, got, want, pan)
			}
		}
	}
	if len(listed) == 0 {
		c.Outcome("all-over-empty-pattern-list(regexp oracle not applied)")
	}
	for opt := 0; opt < 3; opt++ {
		if sawT[opt] && sawF[opt] {
			c.NT(x.kind + "|" + strings.Join(listed, "\x00") + "|" + c13OptName[opt])
			c.Outcome(x.kind + ":" + c13OptName[opt] + ":both-verdicts-seen")
		} else {
			c.Outcome(x.kind + ":" + c13OptName[opt] + ":constant-verdict")
		}
	}
	return true
}

// fullRange: one promoted pattern, every local value 0..65535 under one AS, one community per route.
func (x *c13Ctx) fullRange(c *vr.Report, in []string, mk func(local uint16) *c13Val) {
	listed := x.cur().List()
	ref, err := c13MakeRef(x.kind, listed)
	if err != nil || len(ref.re) != 1 {
		return
	}
	for local := 0; local < 0x10000; local++ {
		v := mk(uint16(local))
		p := c13Path(x.kind, []*c13Val{v})
		w := ref.match(0, v)
		for opt := 0; opt < 3; opt++ {
			want := w
			if opt == c13Invert {
				want = !w
			}
			c.Eval()
			got, pan := c13Eval(x.conds[opt], p)
			if pan != "" || got != want {
				x.report(c, ref, in, nil, opt, []*c13Val{v}, got, want, pan)
			}
		}
	}
	c.Outcome(x.kind + ":full-local-range-scan:mode=" + x.mode(0))
}

// ---- edit sequences ----

type c13Pat struct{ in, stored string }

// c13Stored asks the parser what it keeps for one configured pattern (a one-pattern set listed back).
func c13Stored(kind string, cache map[string]string, in string) (string, error) {
	if s, ok := cache[in]; ok {
		return s, nil
	}
	s, err := c13NewSet(kind, "tmp", []string{in})
	if err != nil {
		return "", err
	}
	l := s.List()
	if len(l) != 1 {
		return "", fmt.Errorf("one pattern configured, %d listed", len(l))
	}
	cache[in] = l[0]
	return l[0], nil
}

func (x *c13Ctx) applyEdit(e c13Edit) (err error) {
	defer func() {
		if r := recover(); r != nil {
			err = fmt.Errorf("panic at %s: %v", c13PanicSite(), r)
		}
	}()
	arg, err := c13NewSet(x.kind, c13SetName, e.Patterns) // a fresh argument set per request, as the API handler builds it
	if err != nil {
		return err
	}
	switch e.Op {
	case "append":
		return x.rp.AddDefinedSet(arg, false)
	case "remove":
		return x.rp.DeleteDefinedSet(arg, false)
	case "replace":
		return x.cur().Replace(arg)
	case "replace-via-policy":
		return x.rp.AddDefinedSet(arg, true)
	}
	return fmt.Errorf("unknown edit %q", e.Op)
}

// c13RunSeq: install `initial`, bind the conditions once, then apply the edits one by one; after
// every edit (a) the listing equals the independently edited list, (b) the bound conditions agree
// with conditions on a freshly built set of that list, (c) regexp oracle.
func c13RunSeq(c *vr.Report, x, fresh *c13Ctx, initial []string, edits []c13Edit, u *c13Univ, stcache map[string]string) {
	kind := x.kind
	if err := x.install(initial); err != nil {
		c.Outcome("edit:initial-set-rejected")
		return
	}
	var model []c13Pat
	for _, in := range initial {
		st, err := c13Stored(kind, stcache, in)
		if err != nil {
			return
		}
		model = append(model, c13Pat{in, st})
	}
	for n, e := range edits {
		done := edits[:n+1]
		var arg []c13Pat
		for _, in := range e.Patterns {
			st, err := c13Stored(kind, stcache, in)
			if err != nil {
				return
			}
			arg = append(arg, c13Pat{in, st})
		}
		switch e.Op {
		case "append":
			model = append(append([]c13Pat{}, model...), arg...)
		case "remove":
			var keep []c13Pat
			for _, p := range model {
				drop := false
				for _, a := range arg {
					if a.stored == p.stored {
						drop = true
					}
				}
				if !drop {
					keep = append(keep, p)
				}
			}
			model = keep
		default:
			model = append([]c13Pat{}, arg...)
		}
		if err := x.applyEdit(e); err != nil {
			c.Violationf("C13:"+kind+":edit:"+e.Op+":failed", c13Case{Kind: kind, Patterns: initial, Edits: done}, "%s on %q with %q: %v", e.Op, initial, e.Patterns, err)
			return
		}
		c.Outcome("edit:" + e.Op)
		// (a) listing
		want := make([]string, len(model))
		ins := make([]string, len(model))
		for i, p := range model {
			want[i], ins[i] = p.stored, p.in
		}
		got := x.cur().List()
		if strings.Join(got, "\x00") != strings.Join(want, "\x00") {
			c.Eval()
			c.Violationf("C13:"+kind+":edit:"+e.Op+":listed-patterns-differ-from-edited-list", c13Case{Kind: kind, Patterns: initial, Edits: done, Stored: got},
				"%s set %q after %v lists %q, the edited pattern list is %q", kind, initial, done, got, want)
			return
		}
		// (b) differential against a freshly built set of the edited list
		if err := fresh.install(ins); err != nil {
			c.Violationf("C13:"+kind+":edit:fresh-set-rejected", c13Case{Kind: kind, Patterns: initial, Edits: done}, "fresh set of %q rejected: %v", ins, err)
			return
		}
		bad := false
		for li := range u.lists {
			for opt := 0; opt < 3 && !bad; opt++ {
				c.Eval()
				g1, p1 := c13Eval(x.conds[opt], u.paths[li])
				g2, p2 := c13Eval(fresh.conds[opt], u.paths[li])
				if g1 != g2 || p1 != p2 {
					bad = true
					cs := c13Case{Kind: kind, Patterns: initial, Edits: done, Option: c13OptName[opt], Comms: u.texts(u.lists[li]), Stored: got,
						Got: fmt.Sprint(g1, p1), Want: fmt.Sprint(g2, p2)}
					key := "C13:" + kind + ":edit:" + e.Op + ":bound-condition-differs-from-fresh-set"
					if x.conds[opt].Set() != x.cur() {
						// white-box: the policy now holds another set object under the name than the one
						// the statement's condition was bound to (same cause for every kind and every later edit)
						key = "C13:edit:replace-via-policy:bound-conditions-keep-the-replaced-set"
					}
					c.Violationf(key, cs,
						"%s set %q after %v (lists %q): the condition bound before the edits gives %v%s on %v, a condition on a fresh set of the same list gives %v%s",
						kind, initial, done, got, g1, p1, u.texts(u.lists[li]), g2, p2)
				}
			}
		}
		if bad {
			return
		}
		// (c) regexp oracle on the edited set, through the conditions bound before the edits
		if !x.sweep(c, initial, done, u) {
			return
		}
	}
}

// ---- pattern grammar ----

var c13Anchors = [][2]string{{"", ""}, {"^", ""}, {"", "$"}, {"^", "$"}}

func c13Grammar(as, sep, loc []string) []string {
	var out []string
	for _, a := range c13Anchors {
		for _, x := range as {
			for _, s := range sep {
				for _, l := range loc {
					out = append(out, a[0]+x+s+l+a[1])
				}
			}
		}
	}
	return out
}

var c13StdAS = []string{"65000", "007", "0", "65536", "6500", "6500.", `\d+`, `[0-9]+`, `\d*`, `.*`, "(65000|65001)", "7", "65001", `[0-9]*`}
var c13Sep = []string{":", ":?", "::"}
var c13StdLocal = []string{"1", "01", "100", "65536", "4294967296", `\d+`, `[0-9]+`, `.*`, "(1|2)", "(1|1)", "(1 | 2)", "1.", "[12]", "1?", "",
	"0", "65535", "(01|2)", `\d*`, "(1|2|65536)"}

// representatives of every compile class and every near miss (used for lists of two and alternations)
var c13StdCore = []string{
	"^65000:1$", "^65000:100$", "^65001:1$", "^0:0$", "^65535:65535$",
	`^65000:\d+$`, "^65000:.*$", "^65000:[0-9]+", `^65001:\d+$`,
	"^65000:(1|2)$", "^65000:1.$", "^65000:[12]$", "^65000:1", "^6500:1?$",
	`^\d+:1$`, "^[0-9]+:(1|2)$", `^\d*:100$`,
	"65000:1$", "^.*:1$", "^(65000|65001):1$", "6500[01]:1", ".*", `^\d+:\d+$`, "^65000:1$|^65001:2$",
	"^007:1$", "^7:01$", "^6500:?1", `^65000::\d+$`, `^\d+:(1 | 2)$`, `^\d+:01$`, "^65000:65536$", "^65536:1$", `^\d+:(1|1)$`,
	"65000:1", "no-export", `^007::\d+$`,
}
var c13StdCoreThorough = []string{
	"^7:1$", "^0:1$", "^65535:0$", "^65000:0$", "^65000:65535$", "^65001:100$",
	"^0:.*$", `^7:\d+$`, `^65535:[0-9]+$`, "^65000:.*",
	"^65000:(1|100)$", "^65001:[12]$", "^65000:1?$", "^65001:1.", "^7:1", "^0:(0|1)$",
	`^[0-9]*:1$`, `^\d+:(100|65535)$`, `^[0-9]+:0$`,
	`\d+:1$`, "^.*:.*$", "^(65000|65001):(1|2)$", "[0-9]+:[0-9]+", "^6500.:1$", "1$", "^6",
	"^007:.*$", `^007:\d+$`, "^65000:01$", "^6500:?.*$", `^6500:?\d+`, "^65000::.*$", "^65000::1$", "^65000:(01|2)$", `^\d+:(01|2)$`,
	"^65000:4294967296$", `^\d+:65536$`, "^0:00$", "^65000:(1 | 2)$", "4259840001", "internet",
}

var c13StdSpecial = []string{
	// well-known names (the parser rewrites them), case/underscore variants, plain integers
	"internet", "no-export", "NO_EXPORT", "no_advertise", "no-export-subconfed", "no-peer", "blackhole", "llgr-stale", "NO-LLGR", "planned-shut", "accept-own",
	"no-exporT", "no-export ", "noexport",
	"0", "1", "7", "65535", "65536", "65537", "4259840001", "4259840000", "4294967295", "4294967296", "007", "00", "0x10", "+1",
	// AS:local without anchors (normalised to ^...$), near misses of the normaliser
	"65000:1", "007:1", "65000:01", "0:0", "65536:1", "65000:65536", "1.2:3", "65000 :1", "65000:1 ", "1:2:3",
}

var c13ExtAS = []string{"65000", "007", "0", "65536", "6500", `\d+`, `[0-9]+`, `.*`, "(65000|65001)", `1\.2\.3\.4`, `0\.65000`, "6500."}
var c13ExtLocal = []string{"1", "01", "100", "65535", "65536", "4294967295", "4294967296", `\d+`, `[0-9]+`, `.*`, "(1|2)", "(1|1)", "(1 | 2)", "(01|2)", "(1|65536)", "1.", "[12]", "1?", ""}
var c13ExtCoreBodies = []string{
	"^65000:1$", "^65000:65536$", "^65000:4294967295$", "^65001:1$",
	`^65000:\d+$`, "^65000:.*$", "^65000:[0-9]+",
	"^65000:(1|2)$", "^65000:(1|65536)$", "^65000:[12]$", "^65000:1",
	`^\d+:1$`, "^[0-9]+:(1|2)$",
	"65000:1$", "^.*:1$", `^1\.2\.3\.4:1$`, `^0\.65000:1$`, ".*", "^(65000|65001):1$",
	"^007:1$", "^65000:01$", "^6500:?1", `^65000::\d+$`, "^65000:(1 | 2)$", `^\d+:(1 | 2)$`, `^\d+:01$`, "65000:1", "VXLAN",
	"^007:(1 | 2)$", `^007::\d+$`,
}
var c13ExtPrefixes = []string{"rt:", "soo:", "lb:", "encap:"}
var c13ExtPrefixNearMiss = []string{"RT:", "Soo:", "rt :", "xx:", "", "2:", "rt", "valid", "rt::"}

var c13LargeA = []string{"65000", "007", `\d+`, `.*`, "4294967296", "(65000|65001)", "4294967295"}
var c13LargeB = []string{"1", "01", `\d+`, `.*`, ""}
var c13LargeC = []string{"1", "100", `\d+`, "(1|2)", `.*`, ""}

func c13LargeGrammar() []string {
	var out []string
	for _, a := range c13Anchors {
		for _, x := range c13LargeA {
			for _, y := range c13LargeB {
				for _, z := range c13LargeC {
					out = append(out, a[0]+x+":"+y+":"+z+a[1])
				}
			}
		}
	}
	out = append(out, "65000:1:1", "007:1:1", "65000:1", "65000:1:1:1", "4294967296:1:1", "^65000:1:1$|^65001:1:2$", "65000:1:1|65001:1:2", "65000:01:1")
	return out
}

// top-level alternations "A|B" and grouped alternations "^(a|b)$" of two core patterns
func c13Alternations(core []string) []string {
	var out []string
	strip := func(s string) string { return strings.TrimSuffix(strings.TrimPrefix(s, "^"), "$") }
	for _, a := range core {
		for _, b := range core {
			if strings.Contains(a, "|") || strings.Contains(b, "|") || !strings.Contains(a, ":") || !strings.Contains(b, ":") {
				continue
			}
			out = append(out, a+"|"+b)
			if a < b {
				out = append(out, "^("+strip(a)+"|"+strip(b)+")$")
			}
		}
	}
	return out
}

// ---- value grids ----

var c13StdASGrid = []uint16{0, 1, 7, 10, 6500, 65000, 65001, 65535}
var c13StdLocalGrid = []uint16{0, 1, 2, 7, 10, 12, 100, 1000, 6500, 65000, 65001, 65281, 65535}

func c13StdVals() []*c13Val {
	var v []*c13Val
	for _, a := range c13StdASGrid {
		for _, l := range c13StdLocalGrid {
			v = append(v, c13StdVal(a, l))
		}
	}
	return v
}

// returns the values and the indices of the sub-grid used for route lists of size two
func c13ExtVals() ([]*c13Val, []int) {
	var v []*c13Val
	var pair []int
	add := func(x *c13Val, inPair bool) {
		if inPair {
			pair = append(pair, len(v))
		}
		v = append(v, x)
	}
	las := []uint32{0, 1, 2, 10, 12, 100, 65535, 65536, 65537, 4294967295}
	for _, sub := range []uint8{0x02, 0x03, 0x04, 0x0c} {
		for _, as := range []uint16{0, 7, 6500, 65000, 65001, 65535} {
			for _, la := range las {
				p := (sub == 0x02 || sub == 0x03) && (as == 65000 || as == 65001 || as == 7) && (la == 1 || la == 2 || la == 65536)
				add(c13Ext2o(sub, as, la, true), p)
			}
		}
	}
	for _, la := range []uint32{1, 65536} {
		add(c13Ext2o(0x02, 65000, la, false), la == 1) // non-transitive two-octet AS specific
	}
	for _, sub := range []uint8{0x02, 0x03} {
		for _, as := range []uint32{65000, 65536, 4294967295} {
			for _, la := range []uint16{0, 1, 100, 65535} {
				add(c13Ext4o(sub, as, la), sub == 0x02 && as == 65000 && la == 1)
			}
		}
		for _, ip := range []string{"1.2.3.4", "0.0.253.232"} {
			for _, la := range []uint16{1, 100} {
				add(c13ExtIP(sub, ip, la), sub == 0x02 && ip == "1.2.3.4" && la == 1)
			}
		}
	}
	add(c13ExtEncap(8), true) // VXLAN
	add(c13ExtEncap(2), false)
	add(c13ExtOpaque(true, []byte{0x02, 0, 0, 0, 0, 0, 1}), true)
	add(c13ExtOpaque(false, []byte{0x02, 0, 0, 0, 0, 0, 1}), false)
	add(c13ExtLB(65000, 1), true)
	add(c13ExtLB(65000, 100), false)
	add(c13ExtValidation(0), false)
	add(c13ExtValidation(2), false)
	return v, pair
}

func c13LargeVals() ([]*c13Val, []int) {
	g := []uint32{0, 1, 7, 65000, 65001, 4294967295}
	var v []*c13Val
	var pair []int
	for _, a := range g {
		for _, b := range []uint32{0, 1, 2, 65000, 4294967295} {
			for _, c := range []uint32{0, 1, 2, 10, 100, 4294967295} {
				if (a == 65000 || a == 7) && b <= 1 && (c == 1 || c == 2 || c == 100) {
					pair = append(pair, len(v))
				}
				v = append(v, c13LargeVal(a, b, c))
			}
		}
	}
	return v, pair
}

// ---- jobs ----

type c13Job struct {
	kind string
	pats []string
	full bool // also scan the whole local range when the compiler promoted the single pattern
}

func c13DedupJobs(js []c13Job) []c13Job {
	seen := map[string]bool{}
	var out []c13Job
	for _, j := range js {
		k := j.kind + "\x01" + strings.Join(j.pats, "\x00")
		if !seen[k] {
			seen[k] = true
			out = append(out, j)
		}
	}
	return out
}

func c13Pairs(kind string, core []string) []c13Job {
	var js []c13Job
	for _, a := range core {
		for _, b := range core {
			js = append(js, c13Job{kind, []string{a, b}, false})
		}
	}
	return js
}

func (x *c13Ctx) runJob(c *vr.Report, j c13Job, u *c13Univ) {
	if err := x.install(j.pats); err != nil {
		if j.kind == c13Std {
			c.Outcome("std:parser-rejected:" + strings.Join(j.pats, ","))
		} else {
			c.Outcome(j.kind + ":parser-rejected")
		}
		return
	}
	for i := range j.pats {
		c.Outcome(j.kind + ":compiled-as=" + x.mode(i))
	}
	x.sweep(c, j.pats, nil, u)
	if !j.full || len(j.pats) != 1 {
		return
	}
	switch s := x.cur().(type) {
	case *CommunitySet:
		m := s.matchers[0]
		switch m.mode {
		case communityMatchExact:
			as := uint16(m.exact >> 16)
			x.fullRange(c, j.pats, func(l uint16) *c13Val { return c13StdVal(as, l) })
		case communityMatchFixedASWildcard, communityMatchFixedASBitmap:
			as := m.asn
			x.fullRange(c, j.pats, func(l uint16) *c13Val { return c13StdVal(as, l) })
		case communityMatchLocalIndependent:
			x.fullRange(c, j.pats, func(l uint16) *c13Val { return c13StdVal(65000, l) })
		}
	case *ExtCommunitySet:
		m := s.matchers[0]
		sub := uint8(m.subtype)
		switch m.mode {
		case extCommMatchExact, extCommMatchASOnly, extCommMatchASBitmap:
			as := m.exactAS
			x.fullRange(c, j.pats, func(l uint16) *c13Val { return c13Ext2o(sub, as, uint32(l), true) })
		case extCommMatchLocalBitmap:
			x.fullRange(c, j.pats, func(l uint16) *c13Val { return c13Ext2o(sub, 65000, uint32(l), true) })
		}
	}
}

// ---- edit pools ----

var c13EditPool = map[string][][]string{
	c13Std: {
		{"^65000:1$"},
		{`^65000:\d+$`, `^\d+:100$`},
		{"^65001:(1|2)$"},
		{"6500[01]:1", "65000:1"},
	},
	c13Ext: {
		{"rt:^65000:1$"},
		{"soo:^65000:1$", `rt:^65000:\d+$`},
		{`rt:^\d+:(1|2)$`},
		{"rt:^6500[01]:1$", "rt:^65000:65536$"},
	},
	c13Large: {
		{"^65000:1:1$"},
		{"65000:1:1", `^65000:\d+:2$`},
		{`^\d+:1:(1|2)$`},
		{".*:100$"},
	},
}

var c13EditOps = []string{"append", "remove", "replace", "replace-via-policy"}

func c13EditSeqs(kind string, depth int) [][]c13Edit {
	pool := c13EditPool[kind]
	var steps []c13Edit
	for _, op := range c13EditOps {
		for _, p := range pool {
			steps = append(steps, c13Edit{Op: op, Patterns: p})
		}
	}
	var out [][]c13Edit
	// simplest first: by length
	for d := 1; d <= depth; d++ {
		var rec func(cur []c13Edit)
		rec = func(cur []c13Edit) {
			if len(cur) == d {
				out = append(out, append([]c13Edit{}, cur...))
				return
			}
			for _, s := range steps {
				rec(append(cur, s))
			}
		}
		rec(nil)
	}
	return out
}

// ---- test ----

// c13Universe returns the sweep universe (route lists of size 0, 1 and ordered pairs over the
// pair sub-grid; the thorough tier pairs the whole standard grid) and the universe used after
// every edit.
func c13Universe(kind string, thorough bool) (sweep, edit *c13Univ) {
	switch kind {
	case c13Std:
		v := c13StdVals()
		var mid, sm []int
		for i, x := range v {
			as, l := uint16(x.std>>16), uint16(x.std)
			if (as == 0 || as == 7 || as == 6500 || as == 65000 || as == 65001 || as == 65535) &&
				(l == 0 || l == 1 || l == 2 || l == 100 || l == 65001 || l == 65535) {
				mid = append(mid, i) // 6 x 6 boundary grid
			}
			if (as == 65000 || as == 65001 || as == 7) && (l == 1 || l == 2 || l == 100) {
				sm = append(sm, i)
			}
		}
		if thorough {
			mid = c13AllIdx(len(v))
		}
		return c13MakeUniv(kind, v, mid), c13MakeUniv(kind, v, sm)
	case c13Ext:
		v, p := c13ExtVals()
		return c13MakeUniv(kind, v, p), c13MakeUniv(kind, v, p[:8])
	default:
		v, p := c13LargeVals()
		return c13MakeUniv(kind, v, p), c13MakeUniv(kind, v, p[:8])
	}
}

func c13Ctxs() map[string]*c13Ctx {
	return map[string]*c13Ctx{c13Std: c13NewCtx(c13Std), c13Ext: c13NewCtx(c13Ext), c13Large: c13NewCtx(c13Large)}
}

func TestVerif_C13(t *testing.T) {
	r := vr.Start(t, "C13", "matchers")
	defer r.Finish()
	r.Rule = "case = (pattern list as configured, option, route community list) evaluated through New*CommunityCondition(...).Evaluate on a real Path, compared with regexp.MatchString(stored pattern, canonical community text) combined by the option; enumeration: grammar singles x all route lists of size 0..2 over the grid, full 2^16 local range for every promoted single, ordered pairs of core patterns, alternations of core patterns, parser special forms, edit sequences (listing = edited list, bound condition = fresh set, regexp oracle after every edit). non-trivial = distinct (kind, stored pattern list, option) for which the reference verdict was true on some evaluated route list and false on another"
	r.Assumptions = append(r.Assumptions,
		"any = some community matches some pattern; all = every pattern is matched by some community (not judged for an empty pattern list); invert = not any",
		"ext-community patterns apply only to transitive communities (type octet bit 0x40 clear) whose sub-type octet equals the pattern's prefix (rt=0x02, soo=0x03, lb=0x04, encap=0x0c)",
		"canonical text: AS:local (decimal) for standard, A:B:C for large, the bgp package's String() for extended communities (cross-checked against an own rendering for two-octet-AS, four-octet-AS and IPv4 forms)")

	if r.ReplayPath() != "" {
		var cs c13Case
		if err := r.LoadReplay(&cs); err != nil {
			t.Fatal(err)
		}
		var vals []*c13Val
		for _, s := range cs.Comms {
			v, err := c13ParseVal(cs.Kind, s)
			if err != nil {
				t.Fatal(err)
			}
			vals = append(vals, v)
		}
		x := c13NewCtx(cs.Kind)
		if len(cs.Edits) > 0 {
			_, eu := c13Universe(cs.Kind, false)
			c13RunSeq(r, x, c13NewCtx(cs.Kind), cs.Patterns, cs.Edits, eu, map[string]string{})
			return
		}
		u := &c13Univ{kind: cs.Kind, vals: vals, lists: [][]int{c13AllIdx(len(vals))}}
		u.build()
		if err := x.install(cs.Patterns); err != nil {
			t.Fatalf("replay: set rejected: %v", err)
		}
		x.sweep(r, cs.Patterns, nil, u)
		return
	}

	thorough := vr.Thorough()
	W := vr.Workers()

	univ := map[string]*c13Univ{}
	eu := map[string]*c13Univ{}
	for _, k := range []string{c13Std, c13Ext, c13Large} {
		univ[k], eu[k] = c13Universe(k, thorough)
	}

	stdCore := append([]string{}, c13StdCore...)
	extBodies := append([]string{}, c13ExtCoreBodies...)
	if thorough {
		stdCore = append(stdCore, c13StdCoreThorough...)
	}
	var extCore []string
	for _, b := range extBodies {
		extCore = append(extCore, "rt:"+b)
	}
	for _, b := range extBodies[:12] {
		extCore = append(extCore, "soo:"+b)
	}
	largeCore := []string{"^65000:1:1$", `^65000:\d+:\d+$`, "65000:1:2", `^\d+:1:(1|2)$`, ".*:100$", "^007:1:1$", "^65000:1:", `^(65000|7):\d+:1$`}

	// phase 0 (sequential, simplest first): the core patterns alone, so that the case kept for each
	// failure signature is a short one and the same on every run
	var phase0 []c13Job
	for _, p := range stdCore {
		phase0 = append(phase0, c13Job{c13Std, []string{p}, false})
	}
	for _, p := range extCore {
		phase0 = append(phase0, c13Job{c13Ext, []string{p}, false})
	}
	for _, p := range largeCore {
		phase0 = append(phase0, c13Job{c13Large, []string{p}, false})
	}

	// phase 1: singles (grammar, special forms, alternations), with the full local range for promoted ones
	var singles []c13Job
	for _, p := range c13Grammar(c13StdAS, c13Sep, c13StdLocal) {
		singles = append(singles, c13Job{c13Std, []string{p}, true})
	}
	for _, p := range c13StdSpecial {
		singles = append(singles, c13Job{c13Std, []string{p}, true})
	}
	for _, p := range c13Alternations(stdCore) {
		singles = append(singles, c13Job{c13Std, []string{p}, true})
	}
	for _, p := range c13Grammar(c13ExtAS, c13Sep, c13ExtLocal) {
		singles = append(singles, c13Job{c13Ext, []string{"rt:" + p}, true})
	}
	for _, pre := range c13ExtPrefixes[1:] {
		for _, b := range extBodies {
			singles = append(singles, c13Job{c13Ext, []string{pre + b}, true})
		}
	}
	for _, pre := range c13ExtPrefixNearMiss {
		for _, b := range extBodies[:6] {
			singles = append(singles, c13Job{c13Ext, []string{pre + b}, false})
		}
	}
	for _, p := range c13Alternations(extBodies) {
		singles = append(singles, c13Job{c13Ext, []string{"rt:" + p}, false})
	}
	for _, p := range c13LargeGrammar() {
		singles = append(singles, c13Job{c13Large, []string{p}, false})
	}
	singles = c13DedupJobs(singles)

	// phase 2: pattern lists of size two (ordered, with repetition) over the core patterns
	var pairs []c13Job
	pairs = append(pairs, c13Pairs(c13Std, stdCore)...)
	pairs = append(pairs, c13Pairs(c13Ext, extCore)...)
	pairs = append(pairs, c13Pairs(c13Large, largeCore)...)
	pairs = c13DedupJobs(pairs)

	depth := 2
	if thorough {
		depth = 3
	}
	r.Bounds["std_grammar"] = fmt.Sprintf("4 anchorings x %d AS-parts %q x %d separators %q x %d LOCAL-parts %q", len(c13StdAS), c13StdAS, len(c13Sep), c13Sep, len(c13StdLocal), c13StdLocal)
	r.Bounds["ext_grammar"] = fmt.Sprintf("rt: x 4 anchorings x %d AS-parts %q x %d separators x %d LOCAL-parts %q; soo:/lb:/encap: x %d core bodies; %d prefix near-misses %q x 6 bodies", len(c13ExtAS), c13ExtAS, len(c13Sep), len(c13ExtLocal), c13ExtLocal, len(extBodies), len(c13ExtPrefixNearMiss), c13ExtPrefixNearMiss)
	r.Bounds["large_grammar"] = fmt.Sprintf("4 anchorings x %d x %d x %d parts + 8 special forms", len(c13LargeA), len(c13LargeB), len(c13LargeC))
	r.Bounds["std_special_forms"] = len(c13StdSpecial)
	r.Bounds["alternations"] = "A|B for every ordered pair and ^(a|b)$ for every unordered pair of alternation-free core patterns"
	r.Bounds["single_pattern_sets"] = len(singles)
	r.Bounds["pattern_list_size_max"] = 2
	r.Bounds["pair_core_patterns"] = map[string]int{"std": len(stdCore), "ext": len(extCore), "large": len(largeCore)}
	r.Bounds["two_pattern_sets"] = len(pairs)
	r.Bounds["options"] = "any, all, invert"
	r.Bounds["std_values"] = fmt.Sprintf("AS %v x local %v = %d values; %d route lists (empty, every value, ordered pairs over the pair sub-grid)", c13StdASGrid, c13StdLocalGrid, len(univ[c13Std].vals), len(univ[c13Std].lists))
	r.Bounds["ext_values"] = fmt.Sprintf("%d values (2-octet AS with rt/soo/lb/encap sub-types x 6 AS x 10 local admins incl. 65536 and 2^32-1, non-transitive, 4-octet AS, IPv4, encap, opaque, link-bandwidth, validation); %d route lists", len(univ[c13Ext].vals), len(univ[c13Ext].lists))
	r.Bounds["large_values"] = fmt.Sprintf("%d values; %d route lists", len(univ[c13Large].vals), len(univ[c13Large].lists))
	r.Bounds["full_local_range"] = "0..65535 under the literal AS (65000 for AS-independent bitmaps) for every single pattern not compiled as regexp, one community per route, 3 options"
	r.Bounds["edit_route_lists"] = map[string]int{"std": len(eu[c13Std].lists), "ext": len(eu[c13Ext].lists), "large": len(eu[c13Large].lists)}
	r.Bounds["edit_sequence_length_max"] = depth
	r.Bounds["edit_alphabet"] = "4 initial sets x {append, remove, replace, replace-via-policy(AddDefinedSet replace=true)} x 4 argument sets, per kind"

	ctx0 := c13Ctxs()
	for _, j := range phase0 {
		ctx0[j.kind].runJob(r, j, univ[j.kind])
	}
	for _, jobs := range [][]c13Job{singles, pairs} {
		r.Parallel(W, func(w int, c *vr.Report) {
			ctx := c13Ctxs()
			for i, j := range jobs {
				if i%W == w {
					ctx[j.kind].runJob(c, j, univ[j.kind])
				}
			}
		})
	}

	// phase 3: edit sequences, shortest first
	type seqJob struct {
		kind    string
		initial []string
		edits   []c13Edit
	}
	nseq := 0
	for d := 1; d <= depth; d++ {
		var seqs []seqJob
		for _, kind := range []string{c13Std, c13Ext, c13Large} {
			for _, e := range c13EditSeqs(kind, d) {
				if len(e) != d {
					continue
				}
				for _, init := range c13EditPool[kind] {
					seqs = append(seqs, seqJob{kind, init, e})
				}
			}
		}
		nseq += len(seqs)
		if d == 1 {
			// sequential, so that the kept case of every signature found at depth 1 is the same on every run
			x, f := c13Ctxs(), c13Ctxs()
			st := map[string]map[string]string{c13Std: {}, c13Ext: {}, c13Large: {}}
			for _, s := range seqs {
				c13RunSeq(r, x[s.kind], f[s.kind], s.initial, s.edits, eu[s.kind], st[s.kind])
			}
			continue
		}
		r.Parallel(W, func(w int, c *vr.Report) {
			x, f := c13Ctxs(), c13Ctxs()
			st := map[string]map[string]string{c13Std: {}, c13Ext: {}, c13Large: {}}
			for i, s := range seqs {
				if i%W != w {
					continue
				}
				if c.WantSample() && d == depth && i%97 == 0 {
					c.Sample(c13Case{Kind: s.kind, Patterns: s.initial, Edits: s.edits, Option: "any|all|invert"})
				}
				c13RunSeq(c, x[s.kind], f[s.kind], s.initial, s.edits, eu[s.kind], st[s.kind])
			}
		})
	}
	r.Bounds["edit_sequences"] = nseq
}
