// Package vatomic mirrors the parts of sync/atomic that gobgp's server package uses, adding a
// scheduling point before every operation when the E-SCHED scheduler is in control.
package vatomic

import (
	"sync/atomic"
	"unsafe"

	"github.com/osrg/gobgp/v4/internal/verif/sched"
)

func pt(op string, obj unsafe.Pointer) {
	if s := sched.Active; s != nil && s.InThread() {
		s.PointObj(op, uintptr(obj), op != "a.load" && op != "a.ctr.load")
	}
}

type Bool struct{ v atomic.Bool }

func (x *Bool) Load() bool       { pt("a.load", unsafe.Pointer(x)); return x.v.Load() }
func (x *Bool) Store(v bool)     { pt("a.store", unsafe.Pointer(x)); x.v.Store(v) }
func (x *Bool) Swap(v bool) bool { pt("a.swap", unsafe.Pointer(x)); return x.v.Swap(v) }
func (x *Bool) CompareAndSwap(o, n bool) bool {
	pt("a.cas", unsafe.Pointer(x))
	return x.v.CompareAndSwap(o, n)
}

type Int32 struct{ v atomic.Int32 }

func (x *Int32) Load() int32        { pt("a.load", unsafe.Pointer(x)); return x.v.Load() }
func (x *Int32) Store(v int32)      { pt("a.store", unsafe.Pointer(x)); x.v.Store(v) }
func (x *Int32) Add(d int32) int32  { pt("a.add", unsafe.Pointer(x)); return x.v.Add(d) }
func (x *Int32) Swap(v int32) int32 { pt("a.swap", unsafe.Pointer(x)); return x.v.Swap(v) }
func (x *Int32) CompareAndSwap(o, n int32) bool {
	pt("a.cas", unsafe.Pointer(x))
	return x.v.CompareAndSwap(o, n)
}

type Int64 struct{ v atomic.Int64 }

func (x *Int64) Load() int64       { pt("a.load", unsafe.Pointer(x)); return x.v.Load() }
func (x *Int64) Store(v int64)     { pt("a.store", unsafe.Pointer(x)); x.v.Store(v) }
func (x *Int64) Add(d int64) int64 { pt("a.add", unsafe.Pointer(x)); return x.v.Add(d) }
func (x *Int64) CompareAndSwap(o, n int64) bool {
	pt("a.cas", unsafe.Pointer(x))
	return x.v.CompareAndSwap(o, n)
}

type Uint32 struct{ v atomic.Uint32 }

func (x *Uint32) Load() uint32        { pt("a.load", unsafe.Pointer(x)); return x.v.Load() }
func (x *Uint32) Store(v uint32)      { pt("a.store", unsafe.Pointer(x)); x.v.Store(v) }
func (x *Uint32) Add(d uint32) uint32 { pt("a.add", unsafe.Pointer(x)); return x.v.Add(d) }
func (x *Uint32) CompareAndSwap(o, n uint32) bool {
	pt("a.cas", unsafe.Pointer(x))
	return x.v.CompareAndSwap(o, n)
}

type Uint64 struct{ v atomic.Uint64 }

func (x *Uint64) Load() uint64        { pt("a.load", unsafe.Pointer(x)); return x.v.Load() }
func (x *Uint64) Store(v uint64)      { pt("a.store", unsafe.Pointer(x)); x.v.Store(v) }
func (x *Uint64) Add(d uint64) uint64 { pt("a.add", unsafe.Pointer(x)); return x.v.Add(d) }
func (x *Uint64) CompareAndSwap(o, n uint64) bool {
	pt("a.cas", unsafe.Pointer(x))
	return x.v.CompareAndSwap(o, n)
}

type Pointer[T any] struct{ v atomic.Pointer[T] }

func (x *Pointer[T]) Load() *T     { pt("a.load", unsafe.Pointer(x)); return x.v.Load() }
func (x *Pointer[T]) Store(v *T)   { pt("a.store", unsafe.Pointer(x)); x.v.Store(v) }
func (x *Pointer[T]) Swap(v *T) *T { pt("a.swap", unsafe.Pointer(x)); return x.v.Swap(v) }
func (x *Pointer[T]) CompareAndSwap(o, n *T) bool {
	pt("a.cas", unsafe.Pointer(x))
	return x.v.CompareAndSwap(o, n)
}

type Value struct{ v atomic.Value }

func (x *Value) Load() any      { pt("a.load", unsafe.Pointer(x)); return x.v.Load() }
func (x *Value) Store(v any)    { pt("a.store", unsafe.Pointer(x)); x.v.Store(v) }
func (x *Value) Swap(v any) any { pt("a.swap", unsafe.Pointer(x)); return x.v.Swap(v) }
func (x *Value) CompareAndSwap(o, n any) bool {
	pt("a.cas", unsafe.Pointer(x))
	return x.v.CompareAndSwap(o, n)
}

// Function forms. Statistics counters (message counters, timestamps) are touched on every message;
// they are points too ("a.ctr") so that the explorer's filter can thin them out.
func AddUint32(p *uint32, d uint32) uint32 {
	pt(ctrOp(), unsafe.Pointer(p))
	return atomic.AddUint32(p, d)
}
func AddUint64(p *uint64, d uint64) uint64 {
	pt(ctrOp(), unsafe.Pointer(p))
	return atomic.AddUint64(p, d)
}
func AddInt32(p *int32, d int32) int32 { pt(ctrOp(), unsafe.Pointer(p)); return atomic.AddInt32(p, d) }
func AddInt64(p *int64, d int64) int64 { pt(ctrOp(), unsafe.Pointer(p)); return atomic.AddInt64(p, d) }
func LoadUint32(p *uint32) uint32      { pt("a.ctr.load", unsafe.Pointer(p)); return atomic.LoadUint32(p) }
func LoadUint64(p *uint64) uint64      { pt("a.ctr.load", unsafe.Pointer(p)); return atomic.LoadUint64(p) }
func LoadInt32(p *int32) int32         { pt("a.ctr.load", unsafe.Pointer(p)); return atomic.LoadInt32(p) }
func LoadInt64(p *int64) int64         { pt("a.ctr.load", unsafe.Pointer(p)); return atomic.LoadInt64(p) }
func StoreUint32(p *uint32, v uint32)  { pt(ctrOp(), unsafe.Pointer(p)); atomic.StoreUint32(p, v) }
func StoreUint64(p *uint64, v uint64)  { pt(ctrOp(), unsafe.Pointer(p)); atomic.StoreUint64(p, v) }
func StoreInt32(p *int32, v int32)     { pt(ctrOp(), unsafe.Pointer(p)); atomic.StoreInt32(p, v) }
func StoreInt64(p *int64, v int64)     { pt(ctrOp(), unsafe.Pointer(p)); atomic.StoreInt64(p, v) }
func CompareAndSwapInt32(p *int32, o, n int32) bool {
	pt("a.cas", unsafe.Pointer(p))
	return atomic.CompareAndSwapInt32(p, o, n)
}
func CompareAndSwapUint32(p *uint32, o, n uint32) bool {
	pt("a.cas", unsafe.Pointer(p))
	return atomic.CompareAndSwapUint32(p, o, n)
}
func CompareAndSwapInt64(p *int64, o, n int64) bool {
	pt("a.cas", unsafe.Pointer(p))
	return atomic.CompareAndSwapInt64(p, o, n)
}
func CompareAndSwapUint64(p *uint64, o, n uint64) bool {
	pt("a.cas", unsafe.Pointer(p))
	return atomic.CompareAndSwapUint64(p, o, n)
}

// ctrOp is the operation name of the function-form counter operations (one class for the filter).
func ctrOp() string { return "a.ctr" }
