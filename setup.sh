#!/bin/bash
# Pre-builds (warms the Go build cache for) every harness test binary, offline.
set -e
cd "$(dirname "$0")"
export GOFLAGS=-mod=mod GOPROXY=off
unset GOTOOLCHAIN GOSUMDB
python3 - <<'PY'
import json, subprocess, sys, os, importlib.machinery, importlib.util
V = os.path.dirname(os.path.abspath("check"))
loader = importlib.machinery.SourceFileLoader("vcheck", os.path.join(V, "check"))
spec = importlib.util.spec_from_loader("vcheck", loader); m = importlib.util.module_from_spec(spec); loader.exec_module(m)
work = os.path.join(V, ".work", "setup"); os.makedirs(work, exist_ok=True)
for c in m.load_checks()["checks"]:
    seen = set()
    for p in c["parts"]:
        key = (p["pkg"], bool(p.get("shim")), bool(p.get("race")), tuple(p.get("seams", ())))
        if key in seen: continue
        seen.add(key)
        ov = m.build_overlay(work, shim=key[1], prop=c["id"], seams=key[3])
        m.build_test_binary(work, ov, p["pkg"], p.get("tags", "verif"), race=key[2], suffix="_" + c["id"] + ("_shim" if key[1] else "") + ("_race" if key[2] else "") + "".join("_" + x for x in key[3]))
import shutil; shutil.rmtree(work, ignore_errors=True)
print("setup ok")
PY
