package server

// C07 part "park" — the whole daemon, an active peer, and ONE goroutine of the daemon held at one of its own
// log records (or at the return of the dial) while something else happens: an administrative disable, an
// inbound connection with an OPEN, the remote closing, or the rest of the remote's script. This is the
// whole-daemon counterpart of part handover: the FSM goroutine, the outgoing connection manager, its
// receive goroutine and the server loop talk through channels (connCh, outgoingConnCh, adminStateCh, the
// management channel), and the interleavings "X happens while goroutine G is between two of its steps" are
// produced neither by the event explorer (it lets every event run to quiescence) nor by the lock-level
// scheduler. Every record logged while the session is being set up is a park site; sites reached with the
// peer's FSM lock or the server's table lock taken are skipped (a goroutine blocked on a sync.Mutex is not
// durably blocked, the bubble could not be observed) and counted.
//
// The oracle does not depend on what the perturbation did (both orders of the two racing things are legal):
// after the held goroutine is released, the peer is administratively disabled, 10 s pass, and then
//   - the FSM is Idle and the peer is reported Idle / admin down;
//   - every connection the daemon ever had to the remote (dialled or accepted) is closed by the daemon;
//   - a connection that carried the daemon's OPEN and was open when the disable was issued got a NOTIFICATION;
//   - the hand-over channels (outgoing connection, accepted connection) are empty;
// and after the peer is enabled again the daemon dials within 120 s, and a session over that connection
// reaches Established (reported as such) - i.e. nothing of the perturbed attempt is left to disturb it.

import (
	"context"
	"errors"
	"fmt"
	"net"
	"net/netip"
	"os"
	"sort"
	"strings"
	"sync"
	"sync/atomic"
	"testing"
	"testing/synctest"
	"time"

	"github.com/osrg/gobgp/v4/api"
	"github.com/osrg/gobgp/v4/internal/verif/vr"
	"github.com/osrg/gobgp/v4/pkg/config/oc"
	"github.com/osrg/gobgp/v4/pkg/packet/bgp"
)

type c07pCase struct {
	Script string `json:"script"` // out | infirst
	Park   int    `json:"park"`   // index of the record at which its goroutine is held (-1: nobody is held)
	X      string `json:"x"`      // none | disable | delete | stopbgp | inconn | close | rest
}

func (c c07pCase) String() string {
	return fmt.Sprintf("script %s, goroutine held at record #%d, meanwhile: %s", c.Script, c.Park, c.X)
}

type c07pResult struct {
	records  int
	reached  bool
	parkedAt string
	skipped  bool
	problems []string
	outcome  string
}

func c07pOpen(bad bool) []byte {
	m, _ := bgp.NewBGPOpenMessage(65001, c07Hold, netip.MustParseAddr("1.1.1.1"),
		[]bgp.OptionParameterInterface{bgp.NewOptionParameterCapability(
			[]bgp.ParameterCapabilityInterface{bgp.NewCapMultiProtocol(bgp.RF_IPv4_UC), bgp.NewCapFourOctetASNumber(65001), bgp.NewCapRouteRefresh()})})
	b, _ := m.Serialize()
	if bad {
		b[19] = 3 // version
	}
	return b
}

func c07pRun(t *testing.T, c c07pCase) (res c07pResult) {
	synctest.Test(t, func(t *testing.T) {
		park := &simPark{want: c.Park, reached: make(chan struct{}), release: make(chan struct{})}
		armed, skip := false, 0
		var hmu sync.Mutex
		var thePeer *peer
		w := &simWorld{t: t}
		gate := simParkHandler{p: park, armed: &armed, mu: &hmu, skip: &skip}
		gate.locks = func() bool {
			if thePeer == nil {
				return true
			}
			if !thePeer.fsm.lock.TryLock() {
				return true
			}
			thePeer.fsm.lock.Unlock()
			if os.Getenv("VERIF_C07P_TABLELOCK") == "" {
				if !w.s.shared.mu.TryLock() {
					return true
				}
				w.s.shared.mu.Unlock()
			}
			return false
		}
		w.logHandler = gate
		var rmu sync.Mutex
		dialAns := make(chan net.Conn, 1)
		dialPending := false
		verifRandHook = func() float64 { return 1.0 }
		verifDialHook = func(ctx context.Context, d *net.Dialer, network, address string) (net.Conn, error) {
			rmu.Lock()
			dialPending = true
			rmu.Unlock()
			defer func() { rmu.Lock(); dialPending = false; rmu.Unlock() }()
			tm := time.NewTimer(d.Timeout)
			defer tm.Stop()
			select {
			case conn := <-dialAns:
				rmu.Lock()
				dialPending = false
				rmu.Unlock()
				hmu.Lock()
				a := armed
				hmu.Unlock()
				if a {
					park.site("seam:dial-return")
				}
				return conn, nil
			case <-ctx.Done():
				return nil, ctx.Err()
			case <-tm.C:
				return nil, errors.New("dial tcp: i/o timeout")
			}
		}
		defer func() { verifDialHook, verifRandHook = nil, nil }()
		pending := func() bool { rmu.Lock(); defer rmu.Unlock(); return dialPending }

		passive := strings.HasPrefix(c.Script, "p-")
		w.start()
		spec := simBotSpec{Name: "p", IP: [4]byte{10, 0, 0, 1}, AS: 65001, RouterID: [4]byte{1, 1, 1, 1}, HoldTime: c07Hold,
			Neighbor: func(n *oc.Neighbor) {
				n.Transport.Config.PassiveMode = passive
				n.Transport.Config.LocalAddress = netip.AddrFrom4(w.serverIP)
				n.Timers.Config.HoldTime = c07Hold
				n.Timers.Config.KeepaliveInterval = c07KA
				n.Timers.Config.ConnectRetry = c07aRetry
			}}
		bot := w.addBot(spec)
		thePeer = w.peer(bot)
		addr := bot.addr().String()
		w.advance(time.Second) // Idle -> Active

		var remotes []*simParkRemote
		var out, in *simParkRemote
		newRemote := func(sport, bport int) (*simParkRemote, net.Conn) {
			sc, bc := simPipe(w.serverIP, spec.IP, sport, bport)
			r := &simParkRemote{conn: bc}
			remotes = append(remotes, r)
			go r.reader()
			// the daemon's Write / Close calls on the connection are park sites too
			return r, &simParkConn{simConn: sc, h: gate}
		}
		write := func(r *simParkRemote, b []byte) {
			if r == nil || r.closed() {
				return
			}
			r.write(b)
		}
		ka, _ := bgp.NewBGPKeepAliveMessage().Serialize()
		dialOK := func() {
			if !pending() {
				return
			}
			var sc net.Conn
			out, sc = newRemote(40001, 179)
			dialAns <- sc
		}
		inConn := func() {
			var sc net.Conn
			in, sc = newRemote(179, 40000)
			go func() {
				_ = w.s.mgmtOperation(func() error { w.s.passConnToPeer(sc); return nil }, false)
			}()
		}
		var steps []func()
		switch c.Script {
		case "out":
			steps = []func(){
				func() { time.Sleep(minConnectRetryInterval*time.Second + time.Millisecond) },
				dialOK,
				func() { write(out, c07pOpen(false)) },
				func() { write(out, ka) },
			}
		case "infirst":
			steps = []func(){
				func() { time.Sleep(minConnectRetryInterval*time.Second + time.Millisecond) },
				inConn,
				func() { write(in, c07pOpen(false)) },
				dialOK,
				func() { write(out, c07pOpen(false)) },
				func() { write(in, ka) },
				func() { write(out, ka) },
			}
		}
		switch c.Script {
		case "outthenin":
			steps = []func(){
				func() { time.Sleep(minConnectRetryInterval*time.Second + time.Millisecond) },
				dialOK,
				func() { write(out, c07pOpen(false)) },
				inConn,
				func() { write(in, c07pOpen(false)) },
				func() { write(out, ka) },
				func() { write(in, ka) },
			}
		case "est":
			// an established session carries an UPDATE, then the remote sends a NOTIFICATION and closes; the
			// daemon goes Idle -> Active and dials again; the second attempt is completed as well
			nlri, _ := bgp.NewIPAddrPrefix(netip.MustParsePrefix("10.9.0.0/24"))
			nh, _ := bgp.NewPathAttributeNextHop(netip.MustParseAddr("10.0.0.1"))
			upd, _ := bgp.NewBGPUpdateMessage(nil, []bgp.PathAttributeInterface{
				bgp.NewPathAttributeOrigin(0),
				bgp.NewPathAttributeAsPath([]bgp.AsPathParamInterface{bgp.NewAs4PathParam(bgp.BGP_ASPATH_ATTR_TYPE_SEQ, []uint32{65001})}),
				nh,
			}, []bgp.PathNLRI{{NLRI: nlri}}).Serialize()
			notif, _ := bgp.NewBGPNotificationMessage(bgp.BGP_ERROR_CEASE, bgp.BGP_ERROR_SUB_OTHER_CONFIGURATION_CHANGE, nil).Serialize()
			steps = []func(){
				func() { time.Sleep(minConnectRetryInterval*time.Second + time.Millisecond) },
				dialOK,
				func() { write(out, c07pOpen(false)) },
				func() { write(out, ka) },
				func() { write(out, upd) },
				func() { write(out, notif) },
				func() {
					if out != nil {
						out.mu.Lock()
						out.selfClose = true
						out.mu.Unlock()
						out.conn.Close()
					}
				},
				func() { time.Sleep(c07aRetry*time.Second + time.Second) },
				dialOK,
				func() { write(out, c07pOpen(false)) },
				func() { write(out, ka) },
			}
		case "p-in":
			// passive peer: inbound connection, session, UPDATE-less; the remote then closes and comes back
			steps = []func(){
				inConn,
				func() { write(in, c07pOpen(false)) },
				func() { write(in, ka) },
				func() {
					in.mu.Lock()
					in.selfClose = true
					in.mu.Unlock()
					in.conn.Close()
				},
				func() { time.Sleep(c07aRetry*time.Second + time.Second) },
				inConn,
				func() { write(in, c07pOpen(false)) },
				func() { write(in, ka) },
			}
		case "p-two":
			// passive peer: a second inbound connection with an OPEN while the first is in OpenConfirm
			var first *simParkRemote
			steps = []func(){
				inConn,
				func() { write(in, c07pOpen(false)) },
				func() { first = in; inConn() },
				func() { write(in, c07pOpen(false)) },
				func() { write(first, ka) },
				func() { write(in, ka) },
			}
		case "badout":
			steps = []func(){
				func() { time.Sleep(minConnectRetryInterval*time.Second + time.Millisecond) },
				dialOK,
				func() { write(out, c07pOpen(true)) },
				func() { time.Sleep(c07aRetry*time.Second + time.Millisecond) },
				dialOK,
				func() { write(out, c07pOpen(false)) },
				func() { write(out, ka) },
			}
		}
		parked := func() bool {
			select {
			case <-park.reached:
				return true
			default:
				return false
			}
		}
		hmu.Lock()
		armed = true
		hmu.Unlock()
		done := 0
		for done < len(steps) && !parked() {
			steps[done]()
			done++
			synctest.Wait()
		}
		res.reached = parked()
		disabled, deleted, stopped := false, false, false
		disable := func() {
			disabled = true
			go func() {
				_ = w.s.DisablePeer(context.Background(), &api.DisablePeerRequest{Address: addr})
			}()
		}
		openAtDisable := map[*simParkRemote]bool{}
		noteOpen := func() {
			for _, r := range remotes {
				if !r.closed() {
					openAtDisable[r] = true
				}
			}
		}
		if res.reached {
			switch c.X {
			case "disable":
				noteOpen()
				disable()
			case "delete":
				noteOpen()
				disabled, deleted = true, true
				go func() {
					_ = w.s.DeletePeer(context.Background(), &api.DeletePeerRequest{Address: addr})
				}()
			case "stopbgp":
				noteOpen()
				disabled, deleted, stopped = true, true, true
				go func() {
					_ = w.s.StopBgp(context.Background(), &api.StopBgpRequest{})
				}()
			case "inconn":
				if in == nil || passive {
					inConn()
					synctest.Wait()
					write(in, c07pOpen(false))
				}
			case "close":
				for _, r := range remotes {
					r.mu.Lock()
					r.selfClose = true
					r.mu.Unlock()
					r.conn.Close()
				}
			case "rest":
				for done < len(steps) {
					steps[done]()
					done++
					synctest.Wait()
				}
			}
			synctest.Wait()
		}
		park.freeze()
		hmu.Lock()
		armed = false
		hmu.Unlock()
		close(park.release)
		synctest.Wait()
		w.advance(time.Second)

		bad := func(key, format string, a ...any) {
			res.problems = append(res.problems, key+"|"+fmt.Sprintf(format, a...))
		}
		if !disabled {
			noteOpen()
			disable()
		}
		synctest.Wait()
		w.advance(10 * time.Second)

		p := thePeer
		if st := p.fsm.state.Load(); st != bgp.BGP_FSM_IDLE && !deleted {
			bad("not-idle-after-disable", "10 s after the administrative disable the FSM is in %s", st)
		}
		var rep *api.Peer
		_ = w.s.ListPeer(context.Background(), &api.ListPeerRequest{Address: addr}, func(x *api.Peer) { rep = x })
		if deleted {
			if rep != nil && !stopped {
				bad("deleted-peer-listed", "ListPeer still lists the deleted peer 10 s after DeletePeer (session state %v)", rep.State.SessionState)
			}
		} else if rep == nil {
			bad("listpeer-missing", "ListPeer does not list the peer")
		} else {
			if rep.State.SessionState != api.PeerState_SESSION_STATE_IDLE {
				bad("reported-session-state", "disabled peer reported in session state %v", rep.State.SessionState)
			}
			if rep.State.AdminState == api.PeerState_ADMIN_STATE_UP {
				bad("reported-admin-state", "disabled peer reported admin-up")
			}
		}
		if n := len(p.fsm.outgoingConnCh); n != 0 {
			bad("connection-left-in-handover-channel", "%d outbound connection(s) with a completed OPEN exchange left for the next Active after the disable", n)
		}
		if n := len(p.fsm.connCh); n != 0 {
			bad("connection-left-in-accept-channel", "%d accepted connection(s) left queued after the disable", n)
		}
		var shape []string
		for i, r := range remotes {
			types, notif := r.messages()
			shape = append(shape, fmt.Sprintf("%v:%v", types, r.closed()))
			r.mu.Lock()
			self := r.selfClose || r.sentNotif
			r.mu.Unlock()
			if !r.closed() {
				bad("connection-survives-disable", "connection %d is still open 10 s after the disable (the daemon wrote message types %v)", i, types)
				continue
			}
			if self {
				continue
			}
			// (de-configuration is not an event of the RFC 4271 FSM: as in parts sim and active only the closing
			// of the connection is required of a DeletePeer before Established)
			if len(types) > 0 && types[0] == bgp.BGP_MSG_OPEN && openAtDisable[r] && len(notif) == 0 && !deleted {
				bad("no-notification-on-disabled-connection", "connection %d carried the daemon's OPEN, was open when the peer was disabled and was closed without a NOTIFICATION (types %v)", i, types)
			}
		}
		sort.Strings(shape)
		res.outcome = strings.Join(shape, ";")

		// liveness: enable (add the peer again after a delete), the daemon dials, a clean session establishes
		if stopped {
			// the daemon is gone: what is left to check is that the bubble can end (every goroutine exits)
			res.records = park.n
			res.parkedAt = park.parkedAt
			res.skipped = skip > 0
			for _, r := range remotes {
				r.shut()
			}
			w.stop(true)
			return
		}
		if deleted {
			if err := w.addPeerFor(bot); err != nil {
				bad("cannot-add-deleted-peer-again", "AddPeer after DeletePeer: %v", err)
			}
			if p = w.peer(bot); p == nil {
				p = thePeer
			}
		} else {
			_ = w.s.EnablePeer(context.Background(), &api.EnablePeerRequest{Address: addr})
		}
		synctest.Wait()
		for i := 0; i < 120 && !pending() && !passive; i++ {
			w.advance(time.Second)
		}
		if passive {
			// a passive peer is reachable once its idle-hold time is over
			w.advance(60 * time.Second)
		}
		if !pending() && !passive {
			bad("no-dial-after-enable", "no outbound connection attempt within 120 s of the enable")
		} else {
			var fresh *simParkRemote
			if passive {
				prevIn := in
				inConn()
				fresh, in = in, prevIn
			} else {
				var sc net.Conn
				fresh, sc = newRemote(40002, 179)
				dialAns <- sc
			}
			synctest.Wait()
			write(fresh, c07pOpen(false))
			synctest.Wait()
			write(fresh, ka)
			synctest.Wait()
			if st := p.fsm.state.Load(); st != bgp.BGP_FSM_ESTABLISHED {
				types, _ := fresh.messages()
				bad("no-session-after-enable", "a clean OPEN/KEEPALIVE exchange on the connection dialled after the enable leaves the FSM in %s (the daemon wrote %v, closed=%v)", st, types, fresh.closed())
			} else {
				rep = nil
				_ = w.s.ListPeer(context.Background(), &api.ListPeerRequest{Address: addr}, func(x *api.Peer) { rep = x })
				if rep == nil || rep.State.SessionState != api.PeerState_SESSION_STATE_ESTABLISHED {
					bad("reported-session-state-established", "the FSM is Established, ListPeer says %v", rep)
				}
			}
		}
		res.records = park.n
		res.parkedAt = park.parkedAt
		res.skipped = skip > 0
		for _, r := range remotes {
			r.shut()
		}
		w.stop(true)
	})
	return res
}

func c07pJudge(r *vr.Report, t *testing.T, c c07pCase) c07pResult {
	r.Eval()
	res := c07pRun(t, c)
	site := "none"
	if c.Park >= 0 {
		site = "not-reached"
		if res.reached {
			site = res.parkedAt
		} else if res.skipped {
			site = "skipped-under-lock"
		}
	}
	r.NT(fmt.Sprintf("%s/%s/%s", c.Script, site, c.X))
	r.Outcome(fmt.Sprintf("%s:%s:%s", c.Script, c.X, res.outcome))
	r.Transitions++
	for _, p := range res.problems {
		k, txt, _ := strings.Cut(p, "|")
		r.Violationf("C07:park:"+k+":"+c.Script+":"+c.X+":"+strings.ReplaceAll(strings.TrimPrefix(res.parkedAt, "log:"), " ", "-"), c, "%s (held at %q): %s", c, res.parkedAt, txt)
	}
	return res
}

func TestVerif_C07_Park(t *testing.T) {
	r := vr.Start(t, "C07", "park")
	defer r.Finish()
	r.Rule = "whole daemon, one active peer; scripts {session over the dialled connection; inbound connection + OPEN first, then the dial; dialled connection + OPEN, then an inbound one; bad OPEN on the dialled connection, retry; established session with an UPDATE, NOTIFICATION from the remote, second session; passive peer: session, remote closes and comes back; passive peer: second inbound connection during OpenConfirm} x every record the daemon logs and every Write / Close it issues on a connection from the first connect delay on (and the dial's return): the goroutine emitting it held there x meanwhile {nothing, DisablePeer, DeletePeer (then the peer is added again instead of enabled), StopBgp (every connection closed, every goroutine gone), inbound connection + OPEN, remote closes its connections, the rest of the script}; then release, DisablePeer, 10 s, invariants (Idle, reported Idle/down, every connection closed, NOTIFICATION where our OPEN went out, hand-over channels empty), EnablePeer, dial within 120 s, clean session reaches Established; non-trivial = distinct (script, park site, perturbation)"
	r.Assumptions = append(r.Assumptions, "park sites are the daemon's log records, its Write / Close calls on the (harness-owned) connections and the dial seam's return; sites reached with the peer's FSM lock or the server's table lock taken are skipped (counted in extra.skipped_under_lock)")
	if r.ReplayPath() != "" {
		var c c07pCase
		if err := r.LoadReplay(&c); err != nil {
			t.Fatal(err)
		}
		c07pJudge(r, t, c)
		return
	}
	sites := map[string]bool{}
	skipped := 0
	// wall-clock watchdog (outside every bubble): a bubble in which some goroutine waits for a sync.Mutex held
	// by the goroutine we are holding never becomes quiescent. That is an artefact of the observation, not a
	// verdict: the part stops there, records the cap and exits 0 with exhaustive=false.
	var progress atomic.Int64
	var current atomic.Value
	go func() {
		last, since := int64(-1), time.Now()
		for {
			time.Sleep(2 * time.Second)
			if p := progress.Load(); p != last {
				last, since = p, time.Now()
				continue
			}
			if time.Since(since) > 90*time.Second {
				r.Cap(fmt.Sprintf("case never became quiescent (wall-clock watchdog, 90 s): %v; the exploration stopped there", current.Load()))
				r.Finish()
				os.Exit(0)
			}
		}
	}()
	judge := c07pJudge
	c07pJudgeW := func(r *vr.Report, t *testing.T, c c07pCase) c07pResult {
		current.Store(c.String())
		res := judge(r, t, c)
		progress.Add(1)
		return res
	}
	for _, script := range []string{"out", "infirst", "outthenin", "badout", "est", "p-in", "p-two"} {
		base := c07pJudgeW(r, t, c07pCase{Script: script, Park: -1, X: "none"})
		k := base.records
		for p := 0; p < k+6; p++ {
			any := false
			for _, x := range []string{"none", "disable", "delete", "stopbgp", "inconn", "close", "rest"} {
				res := c07pJudgeW(r, t, c07pCase{Script: script, Park: p, X: x})
				if res.reached {
					any = true
					sites[script+"/"+res.parkedAt] = true
				} else if res.skipped {
					skipped++
					any = true
				}
			}
			if !any && p >= k {
				break
			}
		}
	}
	var names []string
	for s := range sites {
		names = append(names, s)
	}
	sort.Strings(names)
	r.States = int64(len(sites))
	r.Bounds = map[string]any{"scripts": 7, "perturbations": 7, "park_sites_distinct": len(sites)}
	r.Extra = map[string]any{"park_sites": names, "skipped_under_lock": skipped}
	if len(sites) < 8 {
		t.Fatalf("ENGINE-ERROR vacuous exploration: only %d park sites were reached (%v)", len(sites), names)
	}
}
