package c06lib

// ref7606: what RFC 7606 (sections 3-7), RFC 4271 6.3, RFC 4760 7 and RFC 5065 require as the reaction
// to an UPDATE, computed from the raw bytes and the session parameters only.
//
// Session parameters assumed (both harness parts establish exactly these): 4-octet AS numbers
// negotiated, no ADD-PATH, no extended messages, families IPv4-unicast and IPv6-unicast negotiated.
//
// Where the RFCs leave a choice the error is marked optional and the verdict accepts every reaction
// from "nothing" up to the strongest one the text permits; the places are commented "AMBIGUOUS".

import (
	"encoding/binary"
	"fmt"
	"net/netip"
	"sort"
)

type Class int

const (
	None Class = iota
	Discard
	TAW
	Reset
)

func (c Class) String() string { return [...]string{"none", "discard", "taw", "reset"}[c] }

// Err is one thing wrong with the UPDATE.
type Err struct {
	Rule   string
	Attr   string
	On     Class  // reaction required when revised error handling (RFC 7606) is in force
	OnOpt  bool   // AMBIGUOUS under RFC 7606: anything from no reaction up to On is acceptable
	Off    bool   // an error under plain RFC 4271 (session reset)
	OffOpt bool   // AMBIGUOUS under RFC 4271
	Subs   []byte // acceptable UPDATE Message Error subcodes when this error is answered by a NOTIFICATION
}

func (e Err) String() string {
	s := fmt.Sprintf("%s:%s->%s", e.Attr, e.Rule, e.On)
	if e.OnOpt {
		s += "(optional)"
	}
	return s
}

type Verdict struct {
	Accept  map[Class]bool
	Subs    map[byte]bool // acceptable subcodes of a NOTIFICATION 3/x
	Primary Class         // strongest reaction that is not optional
	Rule    string        // rule / attribute of the error that decides Primary ("" when Primary is none)
	Attr    string
	Errs    []Err
	Abstain string // non-empty: the message contains something the reference does not model

	// what the message names (canonical prefixes); NamedOK=false when a field naming prefixes cannot be located or parsed
	Ann4, Ann6, Wd4, Wd6 []string
	NamedOK              bool
	HasNLRI              bool            // a non-empty NLRI field or an MP_REACH_NLRI attribute
	MustNotInstall       map[byte]bool   // types whose first occurrence is malformed and calls for attribute discard
	Silent               map[byte]bool   // types this peer type must not send (discarded even when well-formed)
	First                map[byte][]byte // value of the first occurrence of each attribute type
	Order                []byte          // attribute types in order of first occurrence
}

func (v Verdict) AcceptString() string {
	var s []string
	for c := None; c <= Reset; c++ {
		if v.Accept[c] {
			s = append(s, c.String())
		}
	}
	return fmt.Sprint(s)
}

func (v Verdict) SubsString() string {
	var s []int
	for b := range v.Subs {
		s = append(s, int(b))
	}
	sort.Ints(s)
	return fmt.Sprint(s)
}

func TypeName(t byte) string {
	switch t {
	case TOrigin:
		return "ORIGIN"
	case TASPath:
		return "AS_PATH"
	case TNextHop:
		return "NEXT_HOP"
	case TMED:
		return "MED"
	case TLocalPref:
		return "LOCAL_PREF"
	case TAtomicAggr:
		return "ATOMIC_AGGREGATE"
	case TAggregator:
		return "AGGREGATOR"
	case TCommunity:
		return "COMMUNITIES"
	case TOriginator:
		return "ORIGINATOR_ID"
	case TCluster:
		return "CLUSTER_LIST"
	case TMPReach:
		return "MP_REACH"
	case TMPUnreach:
		return "MP_UNREACH"
	}
	return fmt.Sprintf("TYPE%d", t)
}

// attribute types the implementation under test gives a meaning to but this reference does not model
var unmodelled = map[byte]bool{16: true, 17: true, 18: true, 22: true, 23: true, 25: true, 26: true, 29: true, 32: true, 40: true}

type scan struct {
	errs    []Err
	seen    map[byte]bool
	first   map[byte][]byte
	order   []byte
	mustNot map[byte]bool
	silent  map[byte]bool
	abstain string
	ann4    []string
	ann6    []string
	wd6     []string
	namedOK bool
}

func prefixes(d []byte, alen int) (out []string, ok bool) {
	for len(d) > 0 {
		bits := int(d[0])
		if bits > alen*8 {
			return out, false
		}
		n := (bits + 7) / 8
		if 1+n > len(d) {
			return out, false
		}
		var b [16]byte
		copy(b[:], d[1:1+n])
		var a netip.Addr
		if alen == 4 {
			a = netip.AddrFrom4([4]byte(b[:4]))
		} else {
			a = netip.AddrFrom16(b)
		}
		out = append(out, netip.PrefixFrom(a, bits).Masked().String())
		d = d[1+n:]
	}
	return out, true
}

func martian4(v []byte) bool { return v[0] == 0 || v[0] == 127 || v[0] >= 224 }

// classify returns the errors of one attribute occurrence (RFC 7606 section 7, RFC 4271 6.3).
func (s *scan) classify(flags, typ byte, val []byte, pt PeerType, record bool) []Err {
	var es []Err
	name := TypeName(typ)
	opt, trans, partial := flags&FOpt != 0, flags&FTrans != 0, flags&FPartial != 0
	e := func(rule string, on Class, subs ...byte) {
		es = append(es, Err{Rule: rule, Attr: name, On: on, Off: true, Subs: subs})
	}
	eopt := func(rule string, on Class, subs ...byte) { // AMBIGUOUS in both modes
		es = append(es, Err{Rule: rule, Attr: name, On: on, OnOpt: true, Off: true, OffOpt: true, Subs: subs})
	}
	type fl struct{ opt, trans bool }
	want := map[byte]fl{TOrigin: {false, true}, TASPath: {false, true}, TNextHop: {false, true}, TLocalPref: {false, true},
		TAtomicAggr: {false, true}, TMED: {true, false}, TOriginator: {true, false}, TCluster: {true, false},
		TMPReach: {true, false}, TMPUnreach: {true, false}, TAggregator: {true, true}, TCommunity: {true, true}}
	w, known := want[typ]
	if !known {
		if unmodelled[typ] {
			s.abstain = fmt.Sprintf("attribute type %d is outside the reference", typ)
			return nil
		}
		name = "UNKNOWN"
		if !opt {
			if trans && !partial {
				// RFC 4271 6.3, not revised by RFC 7606
				e("unrecognized-wellknown", Reset, 2)
			} else if trans {
				e("unrecognized-wellknown", Reset, 2, 4) // Partial set on a well-known attribute: 3/4 is as good as 3/2
			} else {
				// Optional=0 and Transitive=0 is no valid combination (RFC 4271 4.3): either an Attribute
				// Flags error (RFC 7606 3.c: treat-as-withdraw) or an unrecognised well-known attribute
				// (session reset): AMBIGUOUS
				e("unrecognized-wellknown-bad-flags", TAW, 2, 4)
				es = append(es, Err{Rule: "unrecognized-wellknown-bad-flags", Attr: name, On: Reset, OnOpt: true, Subs: []byte{2, 4}})
			}
			return es
		}
		if !trans && partial {
			eopt("flags-partial", Reset, 4) // RFC 4271 4.3 forbids it; unrecognised attribute: AMBIGUOUS
		}
		if len(val) == 0 {
			eopt("len0", TAW, 5) // RFC 7606 4 last paragraph; cannot be known for an unrecognised type: AMBIGUOUS
		}
		return es
	}
	// attributes an external neighbour must not send: RFC 7606 7.5 / 7.9 / 7.10 "SHALL be discarded";
	// the discard may be silent, and a malformed one may just as well be discarded: AMBIGUOUS beyond discard
	external := false
	switch typ {
	case TLocalPref:
		external = pt == EBGP
	case TOriginator, TCluster:
		external = pt == EBGP
	}
	if external {
		if record {
			s.silent[typ] = true
		}
		bad := opt != w.opt || trans != w.trans || (partial && !(opt && trans))
		switch typ {
		case TLocalPref, TOriginator:
			bad = bad || len(val) != 4
		case TCluster:
			bad = bad || len(val) == 0 || len(val)%4 != 0
		}
		if bad {
			es = append(es, Err{Rule: "malformed-from-external", Attr: name, On: TAW, OnOpt: true, Off: true, OffOpt: true, Subs: []byte{4, 5, 9}})
			es = append(es, Err{Rule: "malformed-from-external", Attr: name, On: Discard, Subs: []byte{4, 5, 9}})
		}
		return es
	}
	// --- flags: RFC 7606 3.c (Optional / Transitive bits), RFC 4271 4.3 (Partial bit)
	if opt != w.opt || trans != w.trans {
		switch typ {
		case TAtomicAggr, TAggregator:
			// 3.c says treat-as-withdraw, 3.f says attribute discard for these two: AMBIGUOUS, either
			e("flags", Discard, 4)
			es = append(es, Err{Rule: "flags", Attr: name, On: TAW, OnOpt: true, Subs: []byte{4}})
		case TMPReach, TMPUnreach:
			// 3.c says treat-as-withdraw, 5.3 calls the attribute "incorrect" (RFC 4760 7: session reset
			// 3/9 or AFI/SAFI disable): AMBIGUOUS, either
			e("flags", TAW, 4, 9)
			es = append(es, Err{Rule: "flags", Attr: name, On: Reset, OnOpt: true, Subs: []byte{4, 9}})
		default:
			e("flags", TAW, 4)
		}
	}
	if partial && !(w.opt && w.trans) {
		// RFC 4271 4.3: Partial MUST be 0 for well-known and optional non-transitive attributes (an error
		// under RFC 4271); RFC 7606 3.c only revises the Optional/Transitive bits: AMBIGUOUS with 7606
		es = append(es, Err{Rule: "flags-partial", Attr: name, On: Reset, OnOpt: true, Off: true, Subs: []byte{4}})
	}
	// --- length / value
	switch typ {
	case TOrigin: // 7.1
		if len(val) != 1 {
			e("len", TAW, 5)
		} else if val[0] > 2 {
			e("value", TAW, 6)
		}
	case TASPath: // 7.2, RFC 5065
		segs, ok := [][]byte{}, true
		d := val
		for len(d) > 0 {
			if len(d) < 2 || d[0] < 1 || d[0] > 4 || d[1] == 0 || 2+4*int(d[1]) > len(d) {
				ok = false
				break
			}
			segs = append(segs, d[:2+4*int(d[1])])
			d = d[2+4*int(d[1]):]
		}
		if !ok {
			e("segment", TAW, 11)
			break
		}
		confedSeg := false
		for _, sg := range segs {
			if sg[0] == 3 || sg[0] == 4 {
				confedSeg = true
			}
		}
		if confedSeg && pt == EBGP {
			e("confed-segment-from-non-member", TAW, 11) // RFC 5065 5: malformed AS_PATH
		}
		if pt != IBGP && len(segs) == 0 {
			// an external peer cannot have an empty AS_PATH, but the leftmost-AS check is a MAY (RFC 4271
			// 6.3, RFC 7606 7.2: SHOULD treat-as-withdraw, MAY reset): AMBIGUOUS
			eopt("empty-from-external", Reset, 11)
		}
		if pt == Confed && len(segs) > 0 && segs[0][0] != 3 {
			// RFC 5065 does not make a missing leading AS_CONFED_SEQUENCE an error: AMBIGUOUS
			eopt("confed-lead-missing", Reset, 11)
		}
	case TNextHop: // 7.3, RFC 4271 6.3 "valid IP host address"
		if len(val) == 16 {
			e("len16", TAW, 5) // an IPv6 address in NEXT_HOP: still "length is not 4" (7.3)
		} else if len(val) != 4 {
			e("len", TAW, 5)
		} else if martian4(val) {
			e("value", TAW, 8)
		}
	case TMED: // 7.4
		if len(val) != 4 {
			e("len", TAW, 5)
		}
	case TLocalPref: // 7.5 (internal neighbour)
		if len(val) != 4 {
			e("len", TAW, 5)
		}
	case TAtomicAggr: // 7.6
		if len(val) != 0 {
			e("len", Discard, 5)
		}
	case TAggregator: // 7.7 (4-octet AS negotiated: 8 octets)
		if len(val) == 6 {
			es = append(es, Err{Rule: "len6-with-4octet-as", Attr: name, On: Discard, Off: true, OffOpt: true, Subs: []byte{5, 9}})
		} else if len(val) != 8 {
			e("len", Discard, 5, 9)
		}
	case TCommunity: // 7.8: non-zero multiple of 4
		if len(val) == 0 {
			es = append(es, Err{Rule: "len0", Attr: name, On: TAW, Off: true, OffOpt: true, Subs: []byte{5, 9}})
		} else if len(val)%4 != 0 {
			e("len", TAW, 5, 9)
		}
	case TOriginator: // 7.9
		if len(val) != 4 {
			if pt == Confed { // "internal" or "external" for this rule? AMBIGUOUS: at least discarded
				e("len", Discard, 5, 9)
				es = append(es, Err{Rule: "len", Attr: name, On: TAW, OnOpt: true, Subs: []byte{5, 9}})
			} else {
				e("len", TAW, 5, 9)
			}
		}
	case TCluster: // 7.10
		if len(val) == 0 || len(val)%4 != 0 {
			rule := "len"
			if len(val) == 0 {
				rule = "len0"
			}
			if pt == Confed {
				e(rule, Discard, 5, 9)
				es = append(es, Err{Rule: rule, Attr: name, On: TAW, OnOpt: true, Subs: []byte{5, 9}})
			} else if len(val) == 0 {
				es = append(es, Err{Rule: rule, Attr: name, On: TAW, Off: true, OffOpt: true, Subs: []byte{5, 9}})
			} else {
				e(rule, TAW, 5, 9)
			}
		}
	case TMPReach: // 7.11, 5.3, RFC 4760 3 + 7 (session reset 3/9, or AFI/SAFI disable which shows as nothing on the wire... the
		// implementation under test maps it to a reset)
		named := false
		if len(val) < 5 {
			e("mp-short", Reset, 5, 9, 10)
		} else {
			afi, safi, nhl := binary.BigEndian.Uint16(val), val[2], int(val[3])
			switch {
			case afi == 2 && safi == 1, afi == 1 && safi == 1:
				okl := (afi == 2 && (nhl == 16 || nhl == 32)) || (afi == 1 && nhl == 4)
				if !okl && afi == 2 && nhl == 4 {
					e("mp-nexthop-len4-for-ipv6", Reset, 5, 9, 10)
				} else if !okl {
					e("mp-nexthop-len", Reset, 5, 9, 10)
				} else if 4+nhl+1 > len(val) {
					e("mp-short", Reset, 5, 9, 10)
				} else {
					alen := 16
					if afi == 1 {
						alen = 4
					}
					p, ok := prefixes(val[4+nhl+1:], alen)
					if !ok {
						e("mp-nlri", Reset, 5, 9, 10)
					} else {
						named = true
						if record {
							if afi == 2 {
								s.ann6 = append(s.ann6, p...)
							} else {
								s.ann4 = append(s.ann4, p...)
							}
						}
					}
				}
			default:
				// an AFI/SAFI that was not negotiated: the RFCs do not say (ignore, or RFC 4760 7): AMBIGUOUS
				eopt("afi-safi-not-negotiated", Reset, 5, 9, 10)
			}
		}
		if !named && record {
			s.namedOK = false
		}
	case TMPUnreach:
		named := false
		if len(val) < 3 {
			e("mp-short", Reset, 5, 9, 10)
		} else {
			afi, safi := binary.BigEndian.Uint16(val), val[2]
			if (afi == 2 || afi == 1) && safi == 1 {
				alen := 16
				if afi == 1 {
					alen = 4
				}
				p, ok := prefixes(val[3:], alen)
				if !ok {
					e("mp-nlri", Reset, 5, 9, 10)
				} else {
					named = true
					if record && afi == 2 {
						s.wd6 = append(s.wd6, p...)
					}
				}
			} else {
				eopt("afi-safi-not-negotiated", Reset, 5, 9, 10)
			}
		}
		if !named && record {
			s.namedOK = false
		}
	}
	return es
}

func scanAttrs(blk []byte, pt PeerType) *scan {
	s := &scan{seen: map[byte]bool{}, first: map[byte][]byte{}, mustNot: map[byte]bool{}, silent: map[byte]bool{}, namedOK: true}
	d := blk
	framing := func(rule string) {
		// RFC 7606 section 4: treat-as-withdraw, NLRI located through the Total Attribute Length
		s.errs = append(s.errs, Err{Rule: rule, Attr: "attribute-block", On: TAW, Off: true, Subs: []byte{5, 1}})
	}
	// the attribute whose TLV does not fit: its header may still be judged (RFC 7606 4 says "unless some
	// other, more severe error is encountered"), but nothing requires it: AMBIGUOUS
	partialAttr := func(flags, typ byte) {
		name := TypeName(typ)
		switch {
		case typ == TMPReach || typ == TMPUnreach:
			// its NLRI cannot be located: RFC 7606 3.j / 5.3 allow a session reset
			s.errs = append(s.errs, Err{Rule: "in-unframed-attr", Attr: name, On: Reset, OnOpt: true, Off: true, OffOpt: true, Subs: []byte{1, 4, 5, 9, 10}})
			s.namedOK = false
		case !(typ >= TOrigin && typ <= TCluster) && !unmodelled[typ]:
			if flags&FOpt == 0 {
				s.errs = append(s.errs, Err{Rule: "in-unframed-attr", Attr: "UNKNOWN", On: Reset, OnOpt: true, Off: true, OffOpt: true, Subs: []byte{2, 4}})
			}
		default:
			s.errs = append(s.errs, Err{Rule: "in-unframed-attr", Attr: name, On: TAW, OnOpt: true, Off: true, OffOpt: true, Subs: []byte{4, 5, 6, 8, 9, 11}})
		}
	}
	for len(d) > 0 {
		if len(d) < 3 || (d[0]&FExt != 0 && len(d) < 4) {
			framing("attr-underrun")
			if len(d) >= 2 {
				partialAttr(d[0], d[1])
			}
			break
		}
		flags, typ := d[0], d[1]
		hl, l := 3, int(d[2])
		if flags&FExt != 0 {
			hl, l = 4, int(binary.BigEndian.Uint16(d[2:4]))
		}
		if hl+l > len(d) {
			framing("attr-overrun")
			partialAttr(flags, typ)
			break
		}
		val := d[hl : hl+l]
		d = d[hl+l:]
		if s.seen[typ] {
			// RFC 7606 3.g
			if typ == TMPReach || typ == TMPUnreach {
				s.errs = append(s.errs, Err{Rule: "dup-mp", Attr: TypeName(typ), On: Reset, Off: true, Subs: []byte{1}})
			} else {
				s.errs = append(s.errs, Err{Rule: "dup", Attr: TypeName(typ), On: Discard, Off: true, Subs: []byte{1}})
			}
			// whether errors inside a discarded duplicate count is not said: AMBIGUOUS
			for _, e := range s.classify(flags, typ, val, pt, false) {
				e.OnOpt, e.OffOpt = true, true
				e.Rule = "in-duplicate:" + e.Rule
				s.errs = append(s.errs, e)
			}
			continue
		}
		s.seen[typ] = true
		s.first[typ] = append([]byte(nil), val...)
		s.order = append(s.order, typ)
		es := s.classify(flags, typ, val, pt, true)
		for _, e := range es {
			if !e.OnOpt && e.On >= Discard {
				s.mustNot[typ] = true // a malformed occurrence must never be installed, whatever the class
			}
		}
		s.errs = append(s.errs, es...)
	}
	return s
}

// Ref classifies an UPDATE body (the octets after the 19-octet header).
func Ref(body []byte, pt PeerType, revised bool) Verdict {
	v := Verdict{Accept: map[Class]bool{}, Subs: map[byte]bool{}, NamedOK: true}
	var errs []Err
	hard := func(rule, attr string, subs ...byte) Verdict {
		errs = append(errs, Err{Rule: rule, Attr: attr, On: Reset, Off: true, Subs: subs})
		v.NamedOK = false
		return finish(v, errs, revised)
	}
	// RFC 7606 3.a / RFC 4271 6.3: the two length fields against the message length
	if len(body) < 4 {
		return hard("message-too-short", "msg", 1)
	}
	wl := int(binary.BigEndian.Uint16(body))
	if 2+wl > len(body) {
		return hard("withdrawn-length", "msg", 1)
	}
	// RFC 7606 3.i + 5.3: both prefix fields are checked alike; RFC 4271 6.3: Invalid Network Field
	if p, ok := prefixes(body[2:2+wl], 4); ok {
		v.Wd4 = p
	} else {
		errs = append(errs, Err{Rule: "withdrawn-field", Attr: "wd", On: Reset, Off: true, Subs: []byte{10, 1}})
		v.NamedOK = false
	}
	if 2+wl+2 > len(body) {
		return hard("withdrawn-length", "msg", 1)
	}
	tl := int(binary.BigEndian.Uint16(body[2+wl:]))
	if 4+wl+tl > len(body) {
		return hard("total-attr-length", "msg", 1)
	}
	blk, nlri := body[4+wl:4+wl+tl], body[4+wl+tl:]
	if p, ok := prefixes(nlri, 4); ok {
		v.Ann4 = p
	} else {
		errs = append(errs, Err{Rule: "nlri-field", Attr: "nlri", On: Reset, Off: true, Subs: []byte{10}})
		v.NamedOK = false
	}
	s := scanAttrs(blk, pt)
	v.Abstain = s.abstain
	if !s.namedOK {
		v.NamedOK = false
	}
	v.Ann4 = append(v.Ann4, s.ann4...)
	v.Ann6, v.Wd6 = s.ann6, s.wd6
	v.MustNotInstall, v.Silent, v.First, v.Order = s.mustNot, s.silent, s.first, s.order
	v.HasNLRI = len(nlri) > 0 || s.seen[TMPReach]
	for _, e := range s.errs {
		if e.Attr == "NEXT_HOP" && len(nlri) == 0 && !e.OnOpt {
			// RFC 4760 3: without IPv4 NLRI the NEXT_HOP attribute SHOULD be ignored: AMBIGUOUS
			e.OnOpt, e.OffOpt = true, true
		}
		errs = append(errs, e)
	}
	// RFC 7606 3.d / RFC 4271 6.3: well-known mandatory attributes when the UPDATE announces something
	if v.HasNLRI {
		need := []byte{TOrigin, TASPath}
		if len(nlri) > 0 {
			need = append(need, TNextHop)
		}
		for _, t := range need {
			if !s.seen[t] {
				errs = append(errs, Err{Rule: "missing", Attr: TypeName(t), On: TAW, Off: true, Subs: []byte{3}})
			}
		}
		if pt == IBGP && !s.seen[TLocalPref] {
			// RFC 4271 5.1.5: "SHALL be included in all UPDATE messages ... to other internal peers"
			errs = append(errs, Err{Rule: "missing-from-internal", Attr: "LOCAL_PREF", On: TAW, Off: true, Subs: []byte{3}})
		}
	}
	// RFC 7606 5.2: attributes but nothing reachable announced, and an error stronger than discard
	if revised && !v.HasNLRI {
		other := false
		for t := range s.seen {
			if t != TMPUnreach {
				other = true
			}
		}
		if other {
			strongest, subs := None, []byte{}
			for _, e := range errs {
				if !e.OnOpt && e.On > strongest {
					strongest = e.On
				}
			}
			if strongest == TAW {
				for _, e := range errs {
					if !e.OnOpt && e.On == TAW {
						subs = append(subs, e.Subs...)
					}
				}
				errs = append(errs, Err{Rule: "no-nlri-5.2", Attr: "msg", On: Reset, Subs: subs})
			}
		}
	}
	return finish(v, errs, revised)
}

func finish(v Verdict, errs []Err, revised bool) Verdict {
	v.Errs = errs
	m := None
	for _, e := range errs {
		c, optional := e.On, e.OnOpt
		if !revised {
			if !e.Off {
				continue
			}
			c, optional = Reset, e.OffOpt
		}
		if !optional && c > m {
			m = c
			v.Rule, v.Attr = e.Rule, e.Attr
		}
	}
	v.Primary = m
	v.Accept[m] = true
	for _, e := range errs {
		c, optional := e.On, e.OnOpt
		if !revised {
			if !e.Off {
				continue
			}
			c, optional = Reset, e.OffOpt
		}
		if optional && c > m {
			v.Accept[c] = true
			// anything between "ignore it" and the strongest permitted reaction
			for x := m; x <= c; x++ {
				if x == Discard && c != Discard {
					continue
				}
				v.Accept[x] = true
			}
		}
		if c == Reset {
			for _, b := range e.Subs {
				v.Subs[b] = true
			}
		}
	}
	return v
}

// CheckInstalled judges the attribute list of a route that sits in a RIB (re-serialised): it must be
// something a well-formed UPDATE could have carried. strictSilent also rejects attributes the peer type
// must not send at all (checked in the Loc-RIB, where the discard must have happened).
func CheckInstalled(blk []byte, v6 bool, pt PeerType, strictSilent bool) []string {
	var out []string
	s := scanAttrs(blk, pt)
	for _, e := range s.errs {
		if !e.OnOpt && e.On > None {
			out = append(out, e.String())
		}
	}
	need := []byte{TOrigin, TASPath}
	if v6 {
		need = append(need, TMPReach)
	} else {
		need = append(need, TNextHop)
	}
	for _, t := range need {
		if !s.seen[t] {
			out = append(out, "missing:"+TypeName(t))
		}
	}
	if strictSilent {
		for t := range s.silent {
			out = append(out, "carries:"+TypeName(t)+"-from-external")
		}
	}
	sort.Strings(out)
	return out
}
