package server

// C20, auxiliary services: goroutines the server starts for MRT dumping must be gone after StopBgp too.
// Scenario "c20aux": one established peer; events {enable MRT table dumping, enable MRT updates dumping,
// announce a route, wait past the dump interval}; teardown is StopBgp with nothing drained or stopped by
// the harness (the bubble's end-of-test accounting is the oracle).

import (
	"context"
	"fmt"
	"os"
	"path/filepath"
	"time"

	api "github.com/osrg/gobgp/v4/api"
	"github.com/osrg/gobgp/v4/pkg/packet/bgp"
)

type c20AuxScenario struct {
	rs         *simRoutesScenario
	table, upd bool
	dir        string
	announced  bool
}

func init() {
	simScenarios["c20aux"] = func(arg string) simScenario { return &c20AuxScenario{rs: &simRoutesScenario{npfx: 1, nvar: 1}} }
}

func (sc *c20AuxScenario) ForceDrain() bool { return false }

func (sc *c20AuxScenario) Setup(w *simWorld) {
	w.start()
	w.addBot(simBotKinds['e'](0))
	w.advance(time.Second)
	if !w.bots[0].handshake() {
		panic("c20aux setup: session did not establish")
	}
	w.advance(time.Second)
	// the daemon runs file names through time.Format: no digits in the scratch path
	enc := func(n int) string {
		const al = "qxkvwgh"
		s := "x"
		for n > 0 {
			s += string(al[n%7])
			n /= 7
		}
		return s
	}
	sc.dir = filepath.Join(os.TempDir(), "verifcaux"+enc(os.Getpid()))
	_ = os.MkdirAll(sc.dir, 0o755)
}

func (sc *c20AuxScenario) Enabled(w *simWorld) []simEvent {
	var ev []simEvent
	if !sc.table {
		ev = append(ev, simEvent{Op: "mrt-table"})
	}
	if !sc.upd {
		ev = append(ev, simEvent{Op: "mrt-updates"})
	}
	if !sc.announced {
		ev = append(ev, simEvent{Op: "ann"})
	}
	ev = append(ev, simEvent{Op: "wait"})
	return ev
}

func (sc *c20AuxScenario) Apply(w *simWorld, e simEvent) {
	_ = os.MkdirAll(sc.dir, 0o755)
	switch e.Op {
	case "mrt-table":
		w.must(w.s.EnableMrt(context.Background(), &api.EnableMrtRequest{DumpType: api.EnableMrtRequest_DUMP_TYPE_TABLE, Filename: filepath.Join(sc.dir, "table.mrt"), DumpInterval: 60}))
		sc.table = true
	case "mrt-updates":
		w.must(w.s.EnableMrt(context.Background(), &api.EnableMrtRequest{DumpType: api.EnableMrtRequest_DUMP_TYPE_UPDATES, Filename: filepath.Join(sc.dir, "updates.mrt")}))
		sc.upd = true
	case "ann":
		b := w.bots[0]
		b.sendMsg(sc.rs.updateMsg(b, 0, 0, 0, false))
		sc.announced = true
	case "wait":
		w.advance(61 * time.Second)
		w.bots[0].sendMsg(bgp.NewBGPKeepAliveMessage())
	default:
		panic("c20aux: unknown event " + e.Op)
	}
	w.settle()
	w.advance(time.Second)
}

func (sc *c20AuxScenario) Check(w *simWorld, last *simEvent) {
	w.stat("aux-" + fmt.Sprintf("table=%v-updates=%v", sc.table, sc.upd))
	// the scratch directory does not outlive the job (Apply re-creates it when a replayed history goes on)
	os.RemoveAll(sc.dir)
}

func (sc *c20AuxScenario) Key(w *simWorld) string {
	return fmt.Sprintf("table=%v upd=%v ann=%v|%s", sc.table, sc.upd, sc.announced, w.stateKey())
}
