package table

// C14 — the 2-octet/4-octet AS transition (RFC 6793) loses nothing.
//
// E-SEQ, two bounded-exhaustive spaces on the real UpdatePathAttrs2ByteAs / UpdatePathAggregator2ByteAs
// (send side towards an OLD speaker) and UpdatePathAttrs4ByteAs / UpdatePathAggregator4ByteAs
// (receive side from an OLD speaker), through the wire in between:
//
// space 1 (round trip): AS_PATH = optional leading confederation run + <=3 (4) SEQ/SET segments of
//   1,2,254,255 members in four ASN patterns; AGGREGATOR in {none, 2-octet, 4-octet, AS_TRANS}.
//   Oracle: the down-converted UPDATE is well-formed on the wire (own reader over the raw bytes,
//   RFC 4271 4.3 / RFC 6793 4.2.2 + 6, and the package's own parser/validator with the OLD-speaker
//   option), carries the AS_TRANS substitution of the original, and reconstructing from the
//   *received* message gives back the original AS_PATH and AGGREGATOR (4-octet members of
//   confederation segments come back as AS_TRANS: AS4_PATH may not carry them).
// space 2 (arbitrary pairs): independently generated (AS_PATH, AS4_PATH), each <=3 segments of
//   1,2,255 members of all four segment types, written to the wire by an own writer. Oracle:
//   no panic, no empty segment, no segment over 255 members, path not lengthened, an AS4_PATH
//   longer than the AS_PATH is ignored.
// Path length measure (RFC 4271 9.1.2.2 a / RFC 5065 5.3): AS_SEQUENCE counts its members, AS_SET
// counts 1, AS_CONFED_SEQUENCE and AS_CONFED_SET count 0.

import (
	"encoding/binary"
	"fmt"
	"log/slog"
	"net/netip"
	"runtime"
	"strings"
	"testing"

	"github.com/osrg/gobgp/v4/internal/verif/vr"
	"github.com/osrg/gobgp/v4/pkg/packet/bgp"
)

const (
	c14SEQ   = 2
	c14SET   = 1
	c14CSEQ  = 3
	c14CSET  = 4
	c14Trans = 23456
)

var c14TypeName = map[uint8]string{c14SET: "SET", c14SEQ: "SEQ", c14CSEQ: "CONFED_SEQ", c14CSET: "CONFED_SET"}

type c14Discard struct{}

func (c14Discard) Write(b []byte) (int, error) { return len(b), nil }

var c14Logger = slog.New(slog.NewTextHandler(c14Discard{}, &slog.HandlerOptions{Level: slog.LevelError}))

// ---- plain data ----

// c14SegD describes a segment: type, member count, ASN pattern, ordinal (decides the concrete numbers)
//
//	pattern 0: all 2-octet   1: all 4-octet   2: alternating 4-octet / 2-octet
//	        3: AS_TRANS literally present (i%3: 23456, 4-octet, 2-octet)
//	the second member of every segment is the boundary value of its class (65535 / 65536)
type c14SegD struct {
	T uint8 `json:"t"`
	N int   `json:"n"`
	P int   `json:"p"`
}

type c14Seg struct {
	T  uint8
	AS []uint32
}

func c14Member(p, s, i int) uint32 {
	two := uint32(100*(s+1) + i%90 + 1)
	four := uint32(70000 + 1000*s + i)
	if i == 1 {
		two, four = 65535, 65536 // the boundary between mappable and non-mappable AS numbers
	}
	switch p {
	case 0:
		return two
	case 1:
		return four
	case 2:
		if i%2 == 0 {
			return four
		}
		return two
	default:
		switch i % 3 {
		case 0:
			return c14Trans
		case 1:
			return four
		}
		return two
	}
}

func c14Expand(ds []c14SegD, base int) []c14Seg {
	out := make([]c14Seg, len(ds))
	for s, d := range ds {
		as := make([]uint32, d.N)
		for i := range as {
			as[i] = c14Member(d.P, base+s, i)
		}
		out[s] = c14Seg{d.T, as}
	}
	return out
}

func c14Measure(segs []c14Seg) int {
	n := 0
	for _, s := range segs {
		switch s.T {
		case c14SEQ:
			n += len(s.AS)
		case c14SET:
			n++
		}
	}
	return n
}

func c14Equal(a, b []c14Seg) bool {
	if len(a) != len(b) {
		return false
	}
	for i := range a {
		if a[i].T != b[i].T || len(a[i].AS) != len(b[i].AS) {
			return false
		}
		for j := range a[i].AS {
			if a[i].AS[j] != b[i].AS[j] {
				return false
			}
		}
	}
	return true
}

// c14Flat: the path as a list of items, insensitive to how consecutive sequence members are cut
// into segments (merging/splitting adjacent AS_SEQUENCE segments loses no information).
func c14Flat(segs []c14Seg) string {
	var b strings.Builder
	for _, s := range segs {
		switch s.T {
		case c14SEQ, c14CSEQ:
			for _, a := range s.AS {
				fmt.Fprintf(&b, "%d/%d ", s.T, a)
			}
		default:
			fmt.Fprintf(&b, "%d{%v} ", s.T, s.AS)
		}
	}
	return b.String()
}

func c14Short(segs []c14Seg) string {
	var p []string
	for _, s := range segs {
		if len(s.AS) <= 4 {
			p = append(p, fmt.Sprintf("%s%v", c14TypeName[s.T], s.AS))
		} else {
			p = append(p, fmt.Sprintf("%s[%d %d .. %d](%d members)", c14TypeName[s.T], s.AS[0], s.AS[1], s.AS[len(s.AS)-1], len(s.AS)))
		}
	}
	return "[" + strings.Join(p, " ") + "]"
}

func c14FromAttr(a *bgp.PathAttributeAsPath) (segs []c14Seg, all4 bool, numOK bool) {
	all4, numOK = true, true
	for _, p := range a.Value {
		switch v := p.(type) {
		case *bgp.As4PathParam:
			segs = append(segs, c14Seg{v.Type, append([]uint32{}, v.AS...)})
			if int(v.Num) != len(v.AS) {
				numOK = false
			}
		case *bgp.AsPathParam:
			all4 = false
			segs = append(segs, c14Seg{v.Type, v.GetAS()})
			if int(v.Num) != len(v.AS) {
				numOK = false
			}
		}
	}
	return
}

// ---- own wire reader / writer (RFC 4271 4.3) ----

type c14RawAttr struct {
	Flags, Type uint8
	Val         []byte
}

func c14ReadUpdate(b []byte) ([]c14RawAttr, string) {
	if len(b) < 23 {
		return nil, "shorter than an UPDATE header"
	}
	for i := 0; i < 16; i++ {
		if b[i] != 0xff {
			return nil, "bad marker"
		}
	}
	if int(binary.BigEndian.Uint16(b[16:])) != len(b) {
		return nil, "header length differs from the message length"
	}
	if b[18] != 2 {
		return nil, "not an UPDATE"
	}
	p := b[19:]
	wl := int(binary.BigEndian.Uint16(p))
	if 2+wl+2 > len(p) {
		return nil, "withdrawn routes length overruns"
	}
	p = p[2+wl:]
	al := int(binary.BigEndian.Uint16(p))
	p = p[2:]
	if al > len(p) {
		return nil, "total path attribute length overruns"
	}
	p = p[:al]
	var out []c14RawAttr
	for len(p) > 0 {
		if len(p) < 3 {
			return nil, "truncated attribute header"
		}
		a := c14RawAttr{Flags: p[0], Type: p[1]}
		var l int
		if a.Flags&0x10 != 0 {
			if len(p) < 4 {
				return nil, "truncated extended-length attribute header"
			}
			l = int(binary.BigEndian.Uint16(p[2:]))
			p = p[4:]
		} else {
			l = int(p[2])
			p = p[3:]
		}
		if l > len(p) {
			return nil, fmt.Sprintf("attribute %d length overruns", a.Type)
		}
		a.Val = p[:l]
		p = p[l:]
		out = append(out, a)
	}
	return out, ""
}

// c14ReadSegs checks the segment framing of an AS_PATH / AS4_PATH value with ASNs of `width` octets.
func c14ReadSegs(v []byte, width int) ([]c14Seg, string) {
	var out []c14Seg
	for len(v) > 0 {
		if len(v) < 2 {
			return nil, "truncated segment header"
		}
		t, n := v[0], int(v[1])
		if t < 1 || t > 4 {
			return nil, fmt.Sprintf("segment type %d", t)
		}
		if n == 0 {
			return nil, fmt.Sprintf("empty %s segment", c14TypeName[t])
		}
		v = v[2:]
		if n*width > len(v) {
			return nil, "segment overruns the attribute"
		}
		s := c14Seg{T: t}
		for i := 0; i < n; i++ {
			if width == 2 {
				s.AS = append(s.AS, uint32(binary.BigEndian.Uint16(v[i*2:])))
			} else {
				s.AS = append(s.AS, binary.BigEndian.Uint32(v[i*4:]))
			}
		}
		v = v[n*width:]
		out = append(out, s)
	}
	return out, ""
}

func c14WriteSegs(segs []c14Seg, width int) []byte {
	var v []byte
	for _, s := range segs {
		v = append(v, s.T, byte(len(s.AS)))
		for _, a := range s.AS {
			if width == 2 {
				v = binary.BigEndian.AppendUint16(v, uint16(a))
			} else {
				v = binary.BigEndian.AppendUint32(v, a)
			}
		}
	}
	return v
}

func c14WriteAttr(flags, typ uint8, val []byte) []byte {
	if len(val) > 255 {
		b := []byte{flags | 0x10, typ, 0, 0}
		binary.BigEndian.PutUint16(b[2:], uint16(len(val)))
		return append(b, val...)
	}
	return append([]byte{flags, typ, byte(len(val))}, val...)
}

func c14WriteUpdate(attrs ...[]byte) []byte {
	var a []byte
	for _, x := range attrs {
		a = append(a, x...)
	}
	nlri := []byte{24, 10, 14, 0}
	b := make([]byte, 19, 23+len(a)+len(nlri))
	for i := 0; i < 16; i++ {
		b[i] = 0xff
	}
	b[18] = 2
	b = append(b, 0, 0)
	b = binary.BigEndian.AppendUint16(b, uint16(len(a)))
	b = append(b, a...)
	b = append(b, nlri...)
	binary.BigEndian.PutUint16(b[16:], uint16(len(b)))
	return b
}

// ---- helpers ----

func c14PanicSite() string {
	pcs := make([]uintptr, 40)
	n := runtime.Callers(3, pcs)
	fr := runtime.CallersFrames(pcs[:n])
	for {
		f, more := fr.Next()
		if strings.Contains(f.Function, "osrg/gobgp") && !strings.Contains(f.File, "zz_verif") && !strings.Contains(f.Function, "internal/verif") {
			i := strings.LastIndex(f.File, "/")
			return fmt.Sprintf("%s:%d", f.File[i+1:], f.Line)
		}
		if !more {
			return "unknown"
		}
	}
}

// c14Viol records a violation; after the first case of a signature on this worker only the count is
// bumped (the recorder keeps the first case per signature anyway), which keeps runs on a tree with
// millions of failing cases fast.
func c14Viol(c *vr.Report, seen map[string]bool, key string, cs c14Case, mk func() string) {
	if seen[key] {
		c.Violation(key, "", nil)
		return
	}
	seen[key] = true
	c.Violation(key, mk(), cs)
}

func c14Guard(f func()) (site, msg string) {
	defer func() {
		if e := recover(); e != nil {
			site, msg = c14PanicSite(), fmt.Sprint(e)
		}
	}()
	f()
	return "", ""
}

var c14Addr = netip.MustParseAddr("192.0.2.9")
var c14Opts = &bgp.MarshallingOption{ExtendedMessage: true}
var c14OldOpts = &bgp.MarshallingOption{ExtendedMessage: true, Use2ByteAS: true}
var c14Rfs = map[bgp.Family]bgp.BGPAddPathMode{bgp.RF_IPv4_UC: bgp.BGP_ADD_PATH_NONE}

func c14Nlri() []bgp.PathNLRI {
	n, err := bgp.NewIPAddrPrefix(netip.MustParsePrefix("10.14.0.0/24"))
	if err != nil {
		panic(err)
	}
	return []bgp.PathNLRI{{NLRI: n}}
}

func c14FindAttrs(u *bgp.BGPUpdate) (asp *bgp.PathAttributeAsPath, as4 *bgp.PathAttributeAs4Path, agg *bgp.PathAttributeAggregator, agg4 *bgp.PathAttributeAs4Aggregator) {
	for _, a := range u.PathAttributes {
		switch v := a.(type) {
		case *bgp.PathAttributeAsPath:
			asp = v
		case *bgp.PathAttributeAs4Path:
			as4 = v
		case *bgp.PathAttributeAggregator:
			agg = v
		case *bgp.PathAttributeAs4Aggregator:
			agg4 = v
		}
	}
	return
}

func c14HasType(segs []c14Seg, confed bool) bool {
	for _, s := range segs {
		if (s.T == c14CSEQ || s.T == c14CSET) == confed {
			return true
		}
	}
	return false
}

// where confederation segments sit in a path: none / leading (RFC 5065 shape) / elsewhere
func c14ConfedShape(segs []c14Seg) string {
	seenOther, any := false, false
	for _, s := range segs {
		if s.T == c14CSEQ || s.T == c14CSET {
			any = true
			if seenOther {
				return "nonleading"
			}
		} else {
			seenOther = true
		}
	}
	if any {
		return "leading"
	}
	return "none"
}

// ---- space 1: round trip ----

type c14Case struct {
	Space  int       `json:"space"`
	Confed []c14SegD `json:"confed,omitempty"` // space 1: leading confederation run
	Segs   []c14SegD `json:"segs,omitempty"`   // space 1: SEQ/SET segments; space 2: the AS_PATH (2-octet)
	Agg    string    `json:"agg,omitempty"`    // space 1: none | 2 | 4 | trans
	As4    []c14SegD `json:"as4,omitempty"`    // space 2: the AS4_PATH
}

var c14AggAS = map[string]uint32{"2": 65010, "4": 70010, "trans": c14Trans}

func c14Round(c *vr.Report, seen map[string]bool, cs c14Case) {
	c.Eval()
	orig := append(c14Expand(cs.Confed, 0), c14Expand(cs.Segs, len(cs.Confed))...)
	has4, has4NonConfed := false, false
	for _, s := range orig {
		for _, a := range s.AS {
			if a > 0xffff {
				has4 = true
				if s.T == c14SEQ || s.T == c14SET {
					has4NonConfed = true
				}
			}
		}
	}
	ctx := fmt.Sprintf("confed=%v", len(cs.Confed) > 0)
	bad := func(key, format string, a ...any) {
		c14Viol(c, seen, "C14:roundtrip:"+key, cs, func() string {
			return fmt.Sprintf("AS_PATH %s AGGREGATOR %s: %s", c14Short(orig), cs.Agg, fmt.Sprintf(format, a...))
		})
	}

	// the message as a 4-octet speaker holds it
	var params []bgp.AsPathParamInterface
	for _, s := range orig {
		params = append(params, bgp.NewAs4PathParam(s.T, append([]uint32{}, s.AS...)))
	}
	nh, _ := bgp.NewPathAttributeNextHop(netip.MustParseAddr("192.0.2.1"))
	attrs := []bgp.PathAttributeInterface{bgp.NewPathAttributeOrigin(0), bgp.NewPathAttributeAsPath(params), nh}
	aggAS, hasAgg := c14AggAS[cs.Agg]
	if hasAgg {
		a, err := bgp.NewPathAttributeAggregator(aggAS, c14Addr)
		if err != nil {
			panic(err)
		}
		attrs = append(attrs, a)
	}
	msg := bgp.NewBGPUpdateMessage(nil, attrs, c14Nlri())
	upd := msg.Body.(*bgp.BGPUpdate)

	// send side. The attribute OBJECTS of an outgoing message are the ones the route in the RIB holds
	// (the packers copy the slice, not the attributes): the down-conversion must leave every object it
	// was given as it found it, or every later advertisement of the route (to a 4-octet peer, to the
	// same peer after a refresh, through the API) is built from the 2-octet form and the 4-octet
	// numbers are lost for good.
	given := append([]bgp.PathAttributeInterface{}, upd.PathAttributes...)
	before := make([]string, len(given))
	for i, a := range given {
		b, _ := a.Serialize()
		before[i] = fmt.Sprintf("%x|%s", b, a.String())
	}
	if site, m := c14Guard(func() { UpdatePathAttrs2ByteAs(upd); UpdatePathAggregator2ByteAs(upd) }); site != "" {
		bad("panic-in-down-conversion:"+site, "panic: %s", m)
		return
	}
	for i, a := range given {
		b, _ := a.Serialize()
		if now := fmt.Sprintf("%x|%s", b, a.String()); now != before[i] {
			bad(fmt.Sprintf("down-conversion-alters-shared-attribute:type=%d", a.GetType()),
				"the attribute object handed to the down-conversion (shared with the stored route) was altered in place: %s -> %s", before[i], now)
		}
	}
	var wire []byte
	var serr error
	if site, m := c14Guard(func() { wire, serr = msg.Serialize(c14Opts) }); site != "" {
		bad("panic-serialising-down-converted:"+site, "panic: %s", m)
		return
	}
	if serr != nil {
		bad("down-converted-form-not-serialisable", "Serialize: %v", serr)
		return
	}

	// own reader over the raw bytes
	raw, e := c14ReadUpdate(wire)
	if e != "" {
		bad("wire:update-framing", "%s", e)
		return
	}
	want2 := make([]c14Seg, len(orig))
	for i, s := range orig {
		as := make([]uint32, len(s.AS))
		for j, a := range s.AS {
			if a > 0xffff {
				a = c14Trans
			}
			as[j] = a
		}
		want2[i] = c14Seg{s.T, as}
	}
	sawAs4, sawAgg4, wireOK := false, false, true
	for _, a := range raw {
		switch a.Type {
		case 2:
			segs, e := c14ReadSegs(a.Val, 2)
			if e != "" {
				bad("wire:as-path-framing:"+ctx, "AS_PATH sent to the 2-octet peer: %s", e)
				wireOK = false
			} else if !c14Equal(segs, want2) {
				bad("wire:as-path-is-not-the-as-trans-substitution:"+ctx, "AS_PATH on the wire %s, want %s", c14Short(segs), c14Short(want2))
				wireOK = false
			}
		case 17:
			sawAs4 = true
			if a.Flags&0xc0 != 0xc0 {
				bad("wire:as4-path-flags", "AS4_PATH flags %#x are not optional transitive", a.Flags)
				wireOK = false
			}
			if len(a.Val) < 6 {
				// RFC 6793 section 6: malformed if "too small (i.e., less than 6) ... to carry at least one AS number"
				bad("wire:as4-path-carries-no-as-number", "AS4_PATH of %d octets generated (RFC 6793 section 6: malformed below 6)", len(a.Val))
				wireOK = false
				break
			}
			segs, e := c14ReadSegs(a.Val, 4)
			if e != "" {
				bad("wire:as4-path-framing:"+ctx, "AS4_PATH: %s", e)
				wireOK = false
			} else if c14HasType(segs, true) {
				bad("wire:as4-path-carries-confed-segment", "AS4_PATH %s carries a confederation segment (RFC 6793 4.2.2 MUST exclude)", c14Short(segs))
				wireOK = false
			}
		case 7:
			if len(a.Val) != 6 {
				bad("wire:aggregator-length", "AGGREGATOR of %d octets sent to a 2-octet peer", len(a.Val))
				wireOK = false
			} else if got, w := uint32(binary.BigEndian.Uint16(a.Val)), aggAS; (w <= 0xffff && got != w) || (w > 0xffff && got != c14Trans) {
				bad("wire:aggregator-as", "AGGREGATOR AS on the wire %d for original %d", got, w)
				wireOK = false
			}
		case 18:
			sawAgg4 = true
			if len(a.Val) != 8 || a.Flags&0xc0 != 0xc0 {
				bad("wire:as4-aggregator-framing", "AS4_AGGREGATOR of %d octets, flags %#x", len(a.Val), a.Flags)
				wireOK = false
			}
		}
	}
	if has4NonConfed && !sawAs4 {
		bad("wire:as4-path-missing", "the path has 4-octet ASNs outside confederation segments but no AS4_PATH was sent")
		wireOK = false
	}
	if hasAgg && aggAS > 0xffff && !sawAgg4 {
		bad("wire:as4-aggregator-missing", "4-octet AGGREGATOR AS but no AS4_AGGREGATOR was sent")
		wireOK = false
	}
	if sawAs4 {
		c.Outcome("down-converted:with-AS4_PATH")
	} else {
		c.Outcome("down-converted:without-AS4_PATH")
	}
	if !wireOK {
		return
	}

	// the package's own parser and validator, as for a session without the 4-octet capability
	var rx *bgp.BGPMessage
	var perr error
	if site, m := c14Guard(func() { rx, perr = bgp.ParseBGPMessage(wire, c14OldOpts) }); site != "" {
		bad("panic-parsing-down-converted:"+site, "panic: %s", m)
		return
	}
	if perr != nil {
		bad("own-parser-rejects-down-converted-form:"+ctx, "ParseBGPMessage: %v", perr)
		return
	}
	body := rx.Body.(*bgp.BGPUpdate)
	if ok, verr := bgp.ValidateUpdateMsg(body, c14Rfs, false, false, false); !ok {
		bad("own-validator-rejects-down-converted-form:"+ctx, "ValidateUpdateMsg: %v", verr)
		return
	}

	// receive side
	var aerr error
	if site, m := c14Guard(func() { UpdatePathAttrs4ByteAs(c14Logger, body); aerr = UpdatePathAggregator4ByteAs(body) }); site != "" {
		bad("panic-in-reconstruction:"+site, "panic: %s", m)
		return
	}
	if aerr != nil {
		bad("aggregator-reconstruction-error", "UpdatePathAggregator4ByteAs: %v", aerr)
		return
	}
	asp, as4, agg, agg4 := c14FindAttrs(body)
	if as4 != nil || agg4 != nil {
		bad("as4-attributes-left-after-reconstruction", "AS4_PATH left=%v AS4_AGGREGATOR left=%v", as4 != nil, agg4 != nil)
	}
	if asp == nil {
		bad("as-path-lost", "no AS_PATH after reconstruction")
		return
	}
	got, all4, numOK := c14FromAttr(asp)
	want := make([]c14Seg, len(orig))
	for i, s := range orig {
		want[i] = s
		if s.T == c14CSEQ || s.T == c14CSET {
			want[i] = want2[i] // 4-octet members of confederation segments cannot come back
		}
	}
	// failure signatures shared with the pairs part: symptom + whether the AS_PATH holds confederation segments
	shape := "as-path-confed=none"
	if len(cs.Confed) > 0 {
		shape = "as-path-confed=present"
	}
	common := func(key, format string, a ...any) {
		c14Viol(c, seen, "C14:"+key+":"+shape, cs, func() string {
			return fmt.Sprintf("round trip of AS_PATH %s: %s", c14Short(orig), fmt.Sprintf(format, a...))
		})
	}
	switch {
	case !all4 || !numOK:
		bad("reconstructed-path-encoding", "segments not all 4-octet (%v) or count field wrong (%v): %s", all4, numOK, c14Short(got))
	case c14Equal(got, want):
		c.Outcome("roundtrip:identical")
	default:
		for _, s := range got {
			if len(s.AS) == 0 {
				common("empty-segment", "reconstructed %s has an empty %s segment; want %s", c14Short(got), c14TypeName[s.T], c14Short(want))
				return
			}
			if len(s.AS) > 255 {
				common("over-long-segment", "reconstructed %s has a segment of %d members", c14Short(got), len(s.AS))
				return
			}
		}
		if c14Flat(got) == c14Flat(want) {
			c.Outcome("roundtrip:same-path-different-segment-cuts")
		} else if c14Measure(got) > c14Measure(want) {
			common("path-lengthened", "reconstructed %s (length %d), original %s (length %d)", c14Short(got), c14Measure(got), c14Short(want), c14Measure(want))
		} else {
			bad("path-differs:"+shape, "reconstructed %s, original %s", c14Short(got), c14Short(want))
		}
	}
	if hasAgg {
		if agg == nil {
			bad("aggregator-lost", "no AGGREGATOR after reconstruction")
		} else if agg.Value.AS != aggAS || agg.Value.Address != c14Addr {
			bad("aggregator-differs", "reconstructed AGGREGATOR %d %s, original %d %s", agg.Value.AS, agg.Value.Address, aggAS, c14Addr)
		} else {
			c.Outcome("aggregator:" + cs.Agg + ":identical")
		}
	}
	if has4 {
		c.NT(fmt.Sprint(cs))
	}
}

// ---- space 2: arbitrary (AS_PATH, AS4_PATH) pairs ----

func c14Pair(c *vr.Report, seen map[string]bool, cs c14Case, asBytes, as4Bytes []byte, asp, as4 []c14Seg) {
	c.Eval()
	if asBytes == nil {
		asp, as4 = c14Expand(cs.Segs, 0), c14Expand(cs.As4, 0)
		asBytes = c14WriteAttr(0x40, 2, c14WriteSegs(asp, 2))
		as4Bytes = c14WriteAttr(0xc0, 17, c14WriteSegs(as4, 4))
	}
	confedShape := c14ConfedShape(asp)
	shape := "as-path-confed=none"
	if confedShape != "none" {
		shape = "as-path-confed=present"
	}
	bad := func(key, format string, a ...any) {
		c14Viol(c, seen, "C14:"+key, cs, func() string {
			return fmt.Sprintf("AS_PATH %s (confederation segments: %s) AS4_PATH %s: %s", c14Short(asp), confedShape, c14Short(as4), fmt.Sprintf(format, a...))
		})
	}
	wire := c14WriteUpdate([]byte{0x40, 1, 1, 0}, asBytes, []byte{0x40, 3, 4, 192, 0, 2, 1}, as4Bytes)
	var rx *bgp.BGPMessage
	var perr error
	if site, m := c14Guard(func() { rx, perr = bgp.ParseBGPMessage(wire, c14OldOpts) }); site != "" {
		bad("reconstruct:panic-parsing:"+site, "panic: %s", m)
		return
	}
	if perr != nil {
		c.Outcome("pair:rejected-by-the-parser")
		return
	}
	body := rx.Body.(*bgp.BGPUpdate)
	if site, m := c14Guard(func() { UpdatePathAttrs4ByteAs(c14Logger, body) }); site != "" {
		bad("reconstruct:panic:"+site, "panic: %s", m)
		return
	}
	attr, left, _, _ := c14FindAttrs(body)
	if attr == nil {
		bad("reconstruct:as-path-lost", "no AS_PATH after reconstruction")
		return
	}
	if left != nil {
		bad("reconstruct:as4-path-left", "AS4_PATH still present after reconstruction")
		return
	}
	got, _, numOK := c14FromAttr(attr)
	var as4Plain []c14Seg // confederation segments in AS4_PATH are discarded (RFC 6793 section 6)
	for _, s := range as4 {
		if s.T == c14SEQ || s.T == c14SET {
			as4Plain = append(as4Plain, s)
		}
	}
	la, l4, lg := c14Measure(asp), c14Measure(as4Plain), c14Measure(got)
	// one violation per case: the first clause that fails
	ok := true
	for _, s := range got {
		if len(s.AS) == 0 {
			bad("empty-segment:"+shape, "result %s has an empty %s segment", c14Short(got), c14TypeName[s.T])
			ok = false
			break
		}
		if len(s.AS) > 255 || !numOK {
			bad("over-long-segment:"+shape, "result %s has a segment of %d members (count octet consistent: %v)", c14Short(got), len(s.AS), numOK)
			ok = false
			break
		}
	}
	if ok {
		// RFC 6793 section 6 (beyond the wording of the property, which is silent here): confederation
		// segments carried in AS4_PATH MUST be discarded. All AS_PATH members of this space are 2-octet
		// values, all AS4_PATH members are above 65535, so a confederation segment with a member above
		// 65535 in the result came from the AS4_PATH.
		for _, s := range got {
			if (s.T == c14CSEQ || s.T == c14CSET) && len(s.AS) > 0 && s.AS[0] > 0xffff {
				bad("reconstruct:as4-path-confed-segment-kept:"+shape, "result %s keeps the %s segment of the AS4_PATH", c14Short(got), c14TypeName[s.T])
				ok = false
				break
			}
		}
	}
	if ok && lg > la {
		how := "AS4_PATH not longer than AS_PATH"
		if l4 > la {
			how = "AS4_PATH longer than AS_PATH and not ignored"
		}
		bad("path-lengthened:"+shape, "result %s has length %d, AS_PATH has length %d, AS4_PATH %d (%s)", c14Short(got), lg, la, l4, how)
		ok = false
	}
	if ok && l4 > la && !c14Equal(got, asp) {
		bad("reconstruct:longer-as4-path-not-ignored:"+shape, "AS4_PATH length %d > AS_PATH length %d, yet the result %s is not the AS_PATH", l4, la, c14Short(got))
		ok = false
	}
	switch {
	case !ok:
	case l4 > la:
		c.Outcome("pair:as4-path-longer:ignored")
	case len(as4Plain) == 0:
		c.Outcome("pair:as4-path-empty-after-discarding-confed")
	case lg == la:
		c.Outcome("pair:merged:length-preserved")
	default:
		c.Outcome("pair:merged:shorter")
	}
	if len(as4Plain) > 0 {
		c.NT(fmt.Sprint(cs.Segs, cs.As4))
	}
}

// ---- enumeration ----

func c14Seqs(alpha []c14SegD, max int) [][]c14SegD {
	out := [][]c14SegD{{}}
	prev := [][]c14SegD{{}}
	for d := 1; d <= max; d++ {
		var cur [][]c14SegD
		for _, p := range prev {
			for _, a := range alpha {
				cur = append(cur, append(append([]c14SegD{}, p...), a))
			}
		}
		out = append(out, cur...)
		prev = cur
	}
	return out
}

func c14ConfedRuns() [][]c14SegD {
	runs := [][]c14SegD{{}}
	for _, t := range []uint8{c14CSEQ, c14CSET} {
		for _, p := range []int{0, 1, 3} {
			runs = append(runs, []c14SegD{{t, 1, p}})
		}
		for _, p := range []int{0, 1, 2, 3} {
			runs = append(runs, []c14SegD{{t, 2, p}})
		}
	}
	runs = append(runs, []c14SegD{{c14CSEQ, 2, 0}, {c14CSET, 1, 1}}, []c14SegD{{c14CSET, 1, 0}, {c14CSEQ, 2, 2}})
	return runs
}

func TestVerif_C14_roundtrip(t *testing.T) {
	r := vr.Start(t, "C14", "roundtrip")
	defer r.Finish()
	r.Rule = "every AS_PATH = leading confederation run x sequence of SEQ/SET segments (length x ASN pattern), AGGREGATOR options on the paths of <=1 plain segment; each case: UpdatePathAttrs2ByteAs+UpdatePathAggregator2ByteAs, Serialize, own raw-byte reader (framing, AS_TRANS substitution, RFC 6793 section 6 conditions), package parser with the 2-octet option + ValidateUpdateMsg, UpdatePathAttrs4ByteAs+UpdatePathAggregator4ByteAs on the received message, comparison with the original. non-trivial = distinct case whose path holds at least one 4-octet ASN (an AS4_PATH or AS_TRANS is involved)"
	r.Assumptions = append(r.Assumptions,
		"a reconstructed path that differs from the original only in where consecutive AS_SEQUENCE members are cut into segments counts as the original (recorded as an outcome)",
		"4-octet members of confederation segments are expected back as AS_TRANS (RFC 6793 4.2.2 excludes confederation segments from AS4_PATH)")
	if r.ReplayPath() != "" {
		var cs c14Case
		if err := r.LoadReplay(&cs); err != nil {
			t.Fatal(err)
		}
		c14Round(r, map[string]bool{}, cs)
		return
	}
	maxSegs := 3
	if vr.Thorough() {
		maxSegs = 4
	}
	var alpha []c14SegD
	for _, t := range []uint8{c14SEQ, c14SET} {
		for _, n := range []int{1, 2, 254, 255} {
			for p := 0; p < 4; p++ {
				alpha = append(alpha, c14SegD{t, n, p})
			}
		}
	}
	runs := c14ConfedRuns()
	// the thorough tier's 4-segment paths are crossed with a reduced set of confederation runs
	runs4 := [][]c14SegD{{}, {{c14CSEQ, 1, 0}}, {{c14CSEQ, 2, 1}}, {{c14CSET, 1, 1}}, {{c14CSEQ, 2, 0}, {c14CSET, 1, 1}}}
	paths := c14Seqs(alpha, maxSegs)
	r.Bounds["plain_segments_max"] = maxSegs
	r.Bounds["segment_types"] = "AS_SEQUENCE, AS_SET"
	r.Bounds["segment_lengths"] = []int{1, 2, 254, 255}
	r.Bounds["asn_patterns"] = "all 2-octet; all 4-octet; alternating 4-octet/2-octet; AS_TRANS literally present (23456, 4-octet, 2-octet repeating); the second member of a segment is 65535 resp. 65536"
	r.Bounds["confed_runs"] = fmt.Sprintf("%d: none; one CONFED_SEQ or CONFED_SET of 1 or 2 members in the applicable patterns; CONFED_SEQ(2)+CONFED_SET(1); CONFED_SET(1)+CONFED_SEQ(2)", len(runs))
	if maxSegs > 3 {
		r.Bounds["confed_runs_for_4_segment_paths"] = "5: none; CONFED_SEQ(1) 2-octet; CONFED_SEQ(2) 4-octet; CONFED_SET(1) 4-octet; CONFED_SEQ(2)+CONFED_SET(1)"
	}
	r.Bounds["aggregator"] = "none on every path; {2-octet 65010, 4-octet 70010, AS_TRANS 23456} on every path with <=1 plain segment"
	r.Bounds["plain_segment_sequences"] = len(paths)
	W := vr.Workers()
	// phase 0 (sequential, simplest first): paths with <=1 plain segment, all aggregator options; the
	// case kept for each failure signature is then a short one and the same on every run
	seen0 := map[string]bool{}
	for _, p := range paths {
		if len(p) > 1 {
			break
		}
		for _, run := range runs {
			for _, ag := range []string{"none", "2", "4", "trans"} {
				c14Round(r, seen0, c14Case{Space: 1, Confed: run, Segs: p, Agg: ag})
			}
		}
	}
	r.Parallel(W, func(w int, c *vr.Report) {
		n := 0
		seen := map[string]bool{}
		for _, p := range paths {
			if len(p) <= 1 {
				continue
			}
			rs := runs
			if len(p) > 3 {
				rs = runs4
			}
			for _, run := range rs {
				n++
				if n%W != w {
					continue
				}
				cs := c14Case{Space: 1, Confed: run, Segs: p, Agg: "none"}
				if c.WantSample() && n%7919 == 0 {
					c.Sample(cs)
				}
				c14Round(c, seen, cs)
			}
		}
	})
}

func TestVerif_C14_pairs(t *testing.T) {
	r := vr.Start(t, "C14", "pairs")
	defer r.Finish()
	r.Rule = "every (AS_PATH, AS4_PATH) pair, each a sequence of <=3 segments over 4 segment types x lengths {1,2,255}, written to the wire by an own writer as an OLD speaker would send it (2-octet AS_PATH, 4-octet AS4_PATH), parsed by the package with the 2-octet option, then UpdatePathAttrs4ByteAs; invariants: no panic, no empty segment, no segment over 255 members / inconsistent count octet, no confederation segment of the AS4_PATH in the result (RFC 6793 section 6), length(result) <= length(AS_PATH), AS4_PATH longer than AS_PATH => result is the AS_PATH. length: SEQ counts members, SET counts 1, confederation segments count 0; confederation segments inside AS4_PATH are discarded before measuring (RFC 6793 section 6). non-trivial = distinct pair whose AS4_PATH keeps at least one SEQ/SET segment"
	if r.ReplayPath() != "" {
		var cs c14Case
		if err := r.LoadReplay(&cs); err != nil {
			t.Fatal(err)
		}
		c14Pair(r, map[string]bool{}, cs, nil, nil, nil, nil)
		return
	}
	var alpha2, alpha4 []c14SegD
	for _, t := range []uint8{c14SEQ, c14SET, c14CSEQ, c14CSET} {
		for _, n := range []int{1, 2, 255} {
			alpha2 = append(alpha2, c14SegD{t, n, 0})
			alpha4 = append(alpha4, c14SegD{t, n, 1})
		}
	}
	as := c14Seqs(alpha2, 3)
	as4 := c14Seqs(alpha4, 3)
	r.Bounds["segments_max_each"] = 3
	r.Bounds["segment_types"] = "AS_SEQUENCE, AS_SET, AS_CONFED_SEQUENCE, AS_CONFED_SET in both attributes, at any position"
	r.Bounds["segment_lengths"] = []int{1, 2, 255}
	r.Bounds["as_paths"] = len(as)
	r.Bounds["as4_paths"] = len(as4)
	r.Bounds["pairs"] = len(as) * len(as4)
	type pre struct {
		segs []c14Seg
		b    []byte
	}
	pa := make([]pre, len(as))
	for i, d := range as {
		s := c14Expand(d, 0)
		pa[i] = pre{s, c14WriteAttr(0x40, 2, c14WriteSegs(s, 2))}
	}
	p4 := make([]pre, len(as4))
	for i, d := range as4 {
		s := c14Expand(d, 0)
		p4[i] = pre{s, c14WriteAttr(0xc0, 17, c14WriteSegs(s, 4))}
	}
	W := vr.Workers()
	// phase 0 (sequential, simplest first): both attributes of <=2 segments
	small := func(i, j int) bool { return len(as[i]) <= 2 && len(as4[j]) <= 2 }
	seen0 := map[string]bool{}
	for i := range as {
		for j := range as4 {
			if small(i, j) {
				c14Pair(r, seen0, c14Case{Space: 2, Segs: as[i], As4: as4[j]}, pa[i].b, p4[j].b, pa[i].segs, p4[j].segs)
			}
		}
	}
	r.Parallel(W, func(w int, c *vr.Report) {
		seen := map[string]bool{}
		for i := range as {
			if i%W != w {
				continue
			}
			for j := range as4 {
				if small(i, j) {
					continue
				}
				cs := c14Case{Space: 2, Segs: as[i], As4: as4[j]}
				if c.WantSample() && (i*len(as4)+j)%100003 == 0 {
					c.Sample(cs)
				}
				c14Pair(c, seen, cs, pa[i].b, p4[j].b, pa[i].segs, p4[j].segs)
			}
		}
	})
}
