// Package refwire is a minimal, independent reader of BGP message framing, written from RFC 4271
// (message header, OPEN, UPDATE, NOTIFICATION), RFC 2918/7313 (ROUTE-REFRESH), RFC 5492 (capabilities
// optional parameter), RFC 4760 (MP_REACH_NLRI / MP_UNREACH_NLRI), RFC 7911 (ADD-PATH) and RFC 8654
// (extended message). It works on raw bytes only and deliberately does NOT import gobgp's bgp package:
// it is the reference against which the framing decisions of that package are compared.
//
// It reads *framing*: where each field starts and ends. It does not interpret attribute values (except
// MP_REACH/MP_UNREACH headers and IPv4/IPv6-unicast prefixes) and does not apply RFC 7606 semantics.
// All offsets are byte offsets from the start of the message.
package refwire

import (
	"encoding/binary"
	"fmt"
)

const (
	HeaderLen      = 19
	MaxLen         = 4096
	MaxExtendedLen = 65535

	MsgOpen         = 1
	MsgUpdate       = 2
	MsgNotification = 3
	MsgKeepalive    = 4
	MsgRouteRefresh = 5

	AttrFlagExtLen = 0x10
	AttrMPReach    = 14
	AttrMPUnreach  = 15

	AFIIPv4     = 1
	AFIIPv6     = 2
	SAFIUnicast = 1
)

// AFISAFI identifies an address family.
type AFISAFI struct {
	AFI  uint16
	SAFI uint8
}

// Options are the negotiated session parameters that change the wire grammar.
type Options struct {
	AddPath  map[AFISAFI]bool // families whose NLRI carry a 4-octet path identifier (RFC 7911)
	Extended bool             // RFC 8654 negotiated: UPDATE/NOTIFICATION/ROUTE-REFRESH may be up to 65535 octets
}

func (o Options) addPath(afi uint16, safi uint8) bool { return o.AddPath[AFISAFI{afi, safi}] }

// Prefix is one <[path-id,] length, prefix> tuple of an IPv4/IPv6-unicast NLRI field.
type Prefix struct {
	Off    int // offset of the tuple (of the path identifier when present)
	Len    int // bytes of the whole tuple, path identifier included
	HasID  bool
	PathID uint32
	Bits   int
	Bytes  []byte // ceil(Bits/8) prefix octets as on the wire (trailing bits not masked)
}

// Attr is the framing of one path attribute.
type Attr struct {
	Off    int // offset of the flags octet
	Flags  uint8
	Type   uint8
	ExtLen bool
	HdrLen int // 3, or 4 with the extended-length bit
	ValOff int
	ValLen int
}

// Total is the number of bytes the attribute occupies.
func (a Attr) Total() int { return a.HdrLen + a.ValLen }

// MPReach is the header of an MP_REACH_NLRI attribute (RFC 4760 section 3).
type MPReach struct {
	Attr     int // index into Update.Attrs
	AFI      uint16
	SAFI     uint8
	NHOff    int
	NHLen    int
	NextHop  []byte
	Reserved uint8
	NLRIOff  int
	NLRILen  int
	Parsed   bool // Prefixes filled (IPv4/IPv6 unicast only)
	Prefixes []Prefix
}

// MPUnreach is the header of an MP_UNREACH_NLRI attribute (RFC 4760 section 4).
type MPUnreach struct {
	Attr     int
	AFI      uint16
	SAFI     uint8
	NLRIOff  int
	NLRILen  int
	Parsed   bool
	Prefixes []Prefix
}

// Update is the framing of an UPDATE message (RFC 4271 section 4.3).
type Update struct {
	WithdrawnOff, WithdrawnLen int
	Withdrawn                  []Prefix
	AttrsOff, AttrsLen         int
	Attrs                      []Attr
	NLRIOff, NLRILen           int
	NLRI                       []Prefix
	MPReach                    []MPReach
	MPUnreach                  []MPUnreach
}

// Capability is one capability TLV (RFC 5492 section 4).
type Capability struct {
	Off    int
	Code   uint8
	ValOff int
	ValLen int
}

func (c Capability) Total() int { return 2 + c.ValLen }

// OptParam is one optional parameter of an OPEN message.
type OptParam struct {
	Off    int
	Type   uint8
	ValOff int
	ValLen int
	Caps   []Capability // for Type 2
}

// Open is the framing of an OPEN message (RFC 4271 section 4.2).
type Open struct {
	Version     uint8
	AS          uint16
	HoldTime    uint16
	ID          [4]byte
	OptParamOff int
	OptParamLen int
	Params      []OptParam
}

type Notification struct {
	Code, Subcode    uint8
	DataOff, DataLen int
}

type RouteRefresh struct {
	AFI     uint16
	Subtype uint8 // "reserved" in RFC 2918, message subtype in RFC 7313
	SAFI    uint8
}

// Message is a framed BGP message.
type Message struct {
	Len          int
	Type         uint8
	Open         *Open
	Update       *Update
	Notification *Notification
	RouteRefresh *RouteRefresh
}

func errf(format string, a ...any) error { return fmt.Errorf("refwire: "+format, a...) }

// ReadHeader checks the 19-octet header of the message that starts at b[0]: all-ones marker, length
// within [19, max] for the type, and returns length and type. b may be longer than the message.
func ReadHeader(b []byte, o Options) (length int, typ uint8, err error) {
	if len(b) < HeaderLen {
		return 0, 0, errf("short header: %d bytes", len(b))
	}
	for i := 0; i < 16; i++ {
		if b[i] != 0xff {
			return 0, 0, errf("marker octet %d is %#02x", i, b[i])
		}
	}
	length = int(binary.BigEndian.Uint16(b[16:18]))
	typ = b[18]
	max := MaxLen
	if o.Extended && (typ == MsgUpdate || typ == MsgNotification || typ == MsgRouteRefresh) {
		max = MaxExtendedLen
	}
	if length < HeaderLen || length > max {
		return 0, 0, errf("message length %d outside [19,%d] for type %d", length, max, typ)
	}
	if typ < MsgOpen || typ > MsgRouteRefresh {
		return length, typ, errf("unknown message type %d", typ)
	}
	return length, typ, nil
}

// Read frames exactly one message: len(b) must equal the length field.
func Read(b []byte, o Options) (*Message, error) {
	l, t, err := ReadHeader(b, o)
	if err != nil {
		return nil, err
	}
	if l != len(b) {
		return nil, errf("length field %d, buffer %d", l, len(b))
	}
	m := &Message{Len: l, Type: t}
	switch t {
	case MsgOpen:
		m.Open, err = readOpen(b)
	case MsgUpdate:
		m.Update, err = readUpdate(b, o)
	case MsgNotification:
		if l < HeaderLen+2 {
			return nil, errf("NOTIFICATION shorter than 21 octets")
		}
		m.Notification = &Notification{Code: b[19], Subcode: b[20], DataOff: 21, DataLen: l - 21}
	case MsgKeepalive:
		if l != HeaderLen {
			return nil, errf("KEEPALIVE of %d octets", l)
		}
	case MsgRouteRefresh:
		if l != HeaderLen+4 {
			// RFC 7313 allows ORF payloads only via RFC 5291, which gobgp does not implement
			return nil, errf("ROUTE-REFRESH of %d octets", l)
		}
		m.RouteRefresh = &RouteRefresh{AFI: binary.BigEndian.Uint16(b[19:21]), Subtype: b[21], SAFI: b[22]}
	}
	if err != nil {
		return nil, err
	}
	return m, nil
}

func readOpen(b []byte) (*Open, error) {
	if len(b) < HeaderLen+10 {
		return nil, errf("OPEN shorter than 29 octets")
	}
	o := &Open{Version: b[19], AS: binary.BigEndian.Uint16(b[20:22]), HoldTime: binary.BigEndian.Uint16(b[22:24])}
	copy(o.ID[:], b[24:28])
	o.OptParamLen = int(b[28])
	o.OptParamOff = 29
	if o.OptParamOff+o.OptParamLen != len(b) {
		return nil, errf("OPEN optional parameters length %d, %d octets follow", o.OptParamLen, len(b)-29)
	}
	for p := 29; p < len(b); {
		if p+2 > len(b) {
			return nil, errf("OPEN optional parameter header cut at %d", p)
		}
		op := OptParam{Off: p, Type: b[p], ValOff: p + 2, ValLen: int(b[p+1])}
		end := op.ValOff + op.ValLen
		if end > len(b) {
			return nil, errf("OPEN optional parameter at %d overruns the message", p)
		}
		if op.Type == 2 {
			for c := op.ValOff; c < end; {
				if c+2 > end {
					return nil, errf("capability header cut at %d", c)
				}
				cp := Capability{Off: c, Code: b[c], ValOff: c + 2, ValLen: int(b[c+1])}
				if cp.ValOff+cp.ValLen > end {
					return nil, errf("capability at %d overruns its optional parameter", c)
				}
				op.Caps = append(op.Caps, cp)
				c = cp.ValOff + cp.ValLen
			}
		}
		o.Params = append(o.Params, op)
		p = end
	}
	return o, nil
}

// readPrefixes frames an NLRI field of IPv4 (maxBits 32) or IPv6 (128) unicast prefixes occupying exactly
// b[off:off+n].
func readPrefixes(b []byte, off, n, maxBits int, addPath bool) ([]Prefix, error) {
	var out []Prefix
	end := off + n
	for p := off; p < end; {
		px := Prefix{Off: p, HasID: addPath}
		if addPath {
			if p+4 > end {
				return nil, errf("path identifier cut at %d", p)
			}
			px.PathID = binary.BigEndian.Uint32(b[p : p+4])
			p += 4
		}
		if p >= end {
			return nil, errf("prefix length octet missing at %d", p)
		}
		px.Bits = int(b[p])
		if px.Bits > maxBits {
			return nil, errf("prefix length %d > %d at %d", px.Bits, maxBits, p)
		}
		nb := (px.Bits + 7) / 8
		if p+1+nb > end {
			return nil, errf("prefix at %d overruns its field", p)
		}
		px.Bytes = b[p+1 : p+1+nb]
		p += 1 + nb
		px.Len = p - px.Off
		out = append(out, px)
	}
	return out, nil
}

func maxBitsOf(afi uint16, safi uint8) int {
	if safi != SAFIUnicast {
		return 0
	}
	switch afi {
	case AFIIPv4:
		return 32
	case AFIIPv6:
		return 128
	}
	return 0
}

func readUpdate(b []byte, o Options) (*Update, error) {
	u := &Update{}
	p := HeaderLen
	if p+2 > len(b) {
		return nil, errf("UPDATE without withdrawn routes length")
	}
	u.WithdrawnLen = int(binary.BigEndian.Uint16(b[p : p+2]))
	u.WithdrawnOff = p + 2
	p = u.WithdrawnOff + u.WithdrawnLen
	if p+2 > len(b) {
		return nil, errf("withdrawn routes length %d overruns the message", u.WithdrawnLen)
	}
	u.AttrsLen = int(binary.BigEndian.Uint16(b[p : p+2]))
	u.AttrsOff = p + 2
	p = u.AttrsOff + u.AttrsLen
	if p > len(b) {
		return nil, errf("total path attribute length %d overruns the message", u.AttrsLen)
	}
	u.NLRIOff, u.NLRILen = p, len(b)-p
	ap := o.addPath(AFIIPv4, SAFIUnicast)
	var err error
	if u.Withdrawn, err = readPrefixes(b, u.WithdrawnOff, u.WithdrawnLen, 32, ap); err != nil {
		return nil, fmt.Errorf("withdrawn routes: %w", err)
	}
	if u.NLRI, err = readPrefixes(b, u.NLRIOff, u.NLRILen, 32, ap); err != nil {
		return nil, fmt.Errorf("NLRI: %w", err)
	}
	end := u.AttrsOff + u.AttrsLen
	for q := u.AttrsOff; q < end; {
		if q+3 > end {
			return nil, errf("attribute header cut at %d", q)
		}
		a := Attr{Off: q, Flags: b[q], Type: b[q+1], HdrLen: 3}
		if a.Flags&AttrFlagExtLen != 0 {
			if q+4 > end {
				return nil, errf("extended attribute header cut at %d", q)
			}
			a.ExtLen, a.HdrLen = true, 4
			a.ValLen = int(binary.BigEndian.Uint16(b[q+2 : q+4]))
		} else {
			a.ValLen = int(b[q+2])
		}
		a.ValOff = q + a.HdrLen
		if a.ValOff+a.ValLen > end {
			return nil, errf("attribute type %d at %d (value %d octets) overruns the attribute block", a.Type, q, a.ValLen)
		}
		idx := len(u.Attrs)
		u.Attrs = append(u.Attrs, a)
		v := b[a.ValOff : a.ValOff+a.ValLen]
		switch a.Type {
		case AttrMPReach:
			if len(v) < 5 {
				return nil, errf("MP_REACH_NLRI value of %d octets", len(v))
			}
			r := MPReach{Attr: idx, AFI: binary.BigEndian.Uint16(v[:2]), SAFI: v[2], NHOff: a.ValOff + 4, NHLen: int(v[3])}
			if 4+r.NHLen+1 > len(v) {
				return nil, errf("MP_REACH_NLRI next hop length %d overruns the attribute", r.NHLen)
			}
			r.NextHop = v[4 : 4+r.NHLen]
			r.Reserved = v[4+r.NHLen]
			r.NLRIOff = a.ValOff + 4 + r.NHLen + 1
			r.NLRILen = a.ValOff + a.ValLen - r.NLRIOff
			if mb := maxBitsOf(r.AFI, r.SAFI); mb != 0 {
				r.Parsed = true
				if r.Prefixes, err = readPrefixes(b, r.NLRIOff, r.NLRILen, mb, o.addPath(r.AFI, r.SAFI)); err != nil {
					return nil, fmt.Errorf("MP_REACH_NLRI: %w", err)
				}
			}
			u.MPReach = append(u.MPReach, r)
		case AttrMPUnreach:
			if len(v) < 3 {
				return nil, errf("MP_UNREACH_NLRI value of %d octets", len(v))
			}
			r := MPUnreach{Attr: idx, AFI: binary.BigEndian.Uint16(v[:2]), SAFI: v[2], NLRIOff: a.ValOff + 3, NLRILen: a.ValLen - 3}
			if mb := maxBitsOf(r.AFI, r.SAFI); mb != 0 {
				r.Parsed = true
				if r.Prefixes, err = readPrefixes(b, r.NLRIOff, r.NLRILen, mb, o.addPath(r.AFI, r.SAFI)); err != nil {
					return nil, fmt.Errorf("MP_UNREACH_NLRI: %w", err)
				}
			}
			u.MPUnreach = append(u.MPUnreach, r)
		}
		q = a.ValOff + a.ValLen
	}
	return u, nil
}

// Route is one reachability change carried by an UPDATE (IPv4/IPv6 unicast only).
type Route struct {
	AFI    uint16
	SAFI   uint8
	PathID uint32
	Bits   int
	Prefix []byte // as on the wire
}

// Key is a comparable identity of the route (family, path-id, length, prefix octets with the bits beyond
// the prefix length cleared).
func (r Route) Key() string {
	p := append([]byte{}, r.Prefix...)
	if rem := r.Bits % 8; rem != 0 && len(p) > 0 {
		mask := 0xff00 >> rem
		p[len(p)-1] &= byte(mask & 0xff)
	}
	return fmt.Sprintf("%d/%d id=%d %x/%d", r.AFI, r.SAFI, r.PathID, p, r.Bits)
}

// Change is what one UPDATE does to a receiver's Adj-RIB-In, in the order RFC 4271 prescribes
// (withdrawals first).
type Change struct {
	Withdrawn []Route
	Announced []Route
	Attrs     [][]byte // raw bytes (header + value) of every attribute except MP_REACH_NLRI / MP_UNREACH_NLRI, in wire order
	NextHops  map[AFISAFI][]byte
	Unparsed  []AFISAFI // MP families present whose NLRI this reader does not interpret
}

// ApplyUpdate frames an UPDATE message and lists the IPv4/IPv6-unicast routes it withdraws and
// announces. It is a receiver model for later checks (C01/C11); it keeps to framing and does not judge
// attribute semantics.
func ApplyUpdate(b []byte, o Options) (*Change, error) {
	m, err := Read(b, o)
	if err != nil {
		return nil, err
	}
	if m.Update == nil {
		return nil, errf("not an UPDATE (type %d)", m.Type)
	}
	u := m.Update
	c := &Change{NextHops: map[AFISAFI][]byte{}}
	conv := func(afi uint16, safi uint8, ps []Prefix) []Route {
		var out []Route
		for _, p := range ps {
			out = append(out, Route{AFI: afi, SAFI: safi, PathID: p.PathID, Bits: p.Bits, Prefix: p.Bytes})
		}
		return out
	}
	c.Withdrawn = conv(AFIIPv4, SAFIUnicast, u.Withdrawn)
	for _, r := range u.MPUnreach {
		if !r.Parsed {
			c.Unparsed = append(c.Unparsed, AFISAFI{r.AFI, r.SAFI})
			continue
		}
		c.Withdrawn = append(c.Withdrawn, conv(r.AFI, r.SAFI, r.Prefixes)...)
	}
	c.Announced = conv(AFIIPv4, SAFIUnicast, u.NLRI)
	for _, r := range u.MPReach {
		if !r.Parsed {
			c.Unparsed = append(c.Unparsed, AFISAFI{r.AFI, r.SAFI})
			continue
		}
		c.NextHops[AFISAFI{r.AFI, r.SAFI}] = r.NextHop
		c.Announced = append(c.Announced, conv(r.AFI, r.SAFI, r.Prefixes)...)
	}
	for _, a := range u.Attrs {
		if a.Type == AttrMPReach || a.Type == AttrMPUnreach {
			continue
		}
		c.Attrs = append(c.Attrs, b[a.Off:a.Off+a.Total()])
	}
	return c, nil
}
