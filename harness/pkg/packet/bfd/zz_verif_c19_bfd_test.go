package bfd

// C19 (part bfd) — the BFD control-packet codec decodes safely and round-trips.
// E-SEQ: all byte strings up to a length bound, the structure-aware fault catalogue over seed
// packets, and every constructible header over boundary domains (Marshal -> Unmarshal -> equal,
// re-Marshal identical).

import (
	"bytes"
	"encoding/json"
	"fmt"
	"testing"
	"time"

	"github.com/osrg/gobgp/v4/internal/verif/c19lib"
	"github.com/osrg/gobgp/v4/internal/verif/vr"
)

func c19Entries() []*c19lib.Entry {
	return []*c19lib.Entry{{
		Name: "bfd.UnmarshalBinary",
		Run: func(x *c19lib.Checker, data []byte) c19lib.Outcome {
			h := &BFDHeader{}
			err := h.UnmarshalBinary(data)
			if err != nil {
				return c19lib.Outcome{Err: err.Error()}
			}
			j, _ := json.Marshal(h)
			b, merr := h.MarshalBinary()
			return c19lib.Outcome{OK: true, Val: fmt.Sprintf("%s|%s|%s|%s|%x|%v", j, h.Diagnostic, h.State, h.Validate(), b, merr)}
		},
	}}
}

type c19RT struct {
	Kind string    `json:"kind"`
	H    BFDHeader `json:"h"`
}

func c19RoundTrip(r *vr.Report, h BFDHeader) {
	r.Eval()
	cs := c19RT{"roundtrip", h}
	var b1 []byte
	var err error
	if k, m := c19lib.Guard(func() { b1, err = h.MarshalBinary() }); k != "" {
		r.Violationf("C19:panic:"+k, cs, "MarshalBinary(%+v): %s", h, m)
		return
	}
	if err != nil {
		r.Outcome("roundtrip: not constructible: " + err.Error())
		return
	}
	var h2 BFDHeader
	if k, m := c19lib.Guard(func() { err = h2.UnmarshalBinary(b1) }); k != "" {
		r.Violationf("C19:panic:"+k, cs, "UnmarshalBinary(%x): %s", b1, m)
		return
	}
	if err != nil {
		r.Violationf("C19:roundtrip:bfd:reparse-error", cs, "%+v marshals to %x which does not parse: %v", h, b1, err)
		return
	}
	if h2 != h {
		r.Violationf("C19:roundtrip:bfd:not-equal", cs, "%+v -> %x -> %+v", h, b1, h2)
		return
	}
	b2, err := h2.MarshalBinary()
	if err != nil || !bytes.Equal(b1, b2) {
		r.Violationf("C19:roundtrip:bfd:reserialise-differs", cs, "%x vs %x (%v)", b1, b2, err)
		return
	}
	r.NT(fmt.Sprintf("rt|%x", b1))
	r.Outcome("roundtrip: equal")
}

func TestVerif_C19_BFD(t *testing.T) {
	r := vr.Start(t, "C19", "bfd")
	defer r.Finish()
	r.Rule = "decoder: every byte string over the stated alphabet/length, and every fault-catalogue mutant (byte x values, truncations, appended byte, every 16/32-bit window x length-fault values; thorough: pairs) of every seed packet, each executed with cap==len and with 96 poison bytes (00, ff) behind the data; non-trivial = UnmarshalBinary returned a header (then String/JSON/Validate/MarshalBinary were exercised). round trip: every header over the boundary domains; non-trivial = distinct header that marshalled"
	entries := c19Entries()
	if r.ReplayPath() != "" {
		var raw map[string]any
		if err := r.LoadReplay(&raw); err != nil {
			t.Fatal(err)
		}
		if raw["kind"] == "roundtrip" {
			var cs c19RT
			r.LoadReplay(&cs)
			c19RoundTrip(r, cs.H)
			return
		}
		var cs c19lib.Case
		r.LoadReplay(&cs)
		c := c19lib.NewChecker(r)
		defer c.Done()
		for _, e := range entries {
			if e.Name == cs.Entry {
				c.Check(e, c19lib.UnHex(cs.Hex), cs.Note)
			}
		}
		return
	}
	stop := c19lib.Watchdog(r, 3*time.Minute)
	defer stop()
	W := vr.Workers()
	full := c19lib.FullAlphabet()
	maxLen := 3
	if vr.Thorough() {
		maxLen = 4
	}
	r.Bounds["all_strings_alphabet"] = 256
	r.Bounds["all_strings_max_len_full_alphabet"] = 3
	r.Bounds["all_strings_max_len"] = maxLen
	r.Extra["all_strings_count"] = c19lib.CountStrings(256, 0, 3)

	// seeds: marshalled boundary headers, plus one with a trailing authentication section
	var seeds [][]byte
	for _, h := range []BFDHeader{
		{},
		{Version: 1, Diagnostic: DiagnosticPathDown, State: StateUp, Poll: true, DetectTimeMultiplier: 3, MyDiscriminator: 1, YourDiscriminator: 2, DesiredMinTxInterval: 1000000, RequiredMinRxInterval: 1000000},
		{Version: 7, Diagnostic: 31, State: StateInit, Final: true, DetectTimeMultiplier: 255, MyDiscriminator: 0xffffffff, YourDiscriminator: 0xffffffff, DesiredMinTxInterval: 0xffffffff, RequiredMinRxInterval: 0xffffffff},
	} {
		b, err := h.MarshalBinary()
		if err != nil {
			t.Fatal(err)
		}
		seeds = append(seeds, b)
	}
	auth := append(append([]byte{}, seeds[1]...), 1, 4, 1, 0x41) // simple password auth section
	auth[3] = byte(len(auth))
	auth[1] |= 0x04
	seeds = append(seeds, auth)
	r.Bounds["seeds"] = len(seeds)
	opt := c19lib.MutOpt{AllByteValues: true, Pairs: vr.Thorough(), PairStride: 1}
	r.Bounds["mutation_byte_values"] = 256
	r.Bounds["mutation_pairs"] = opt.Pairs

	r.Bounds["all_strings_len4_alphabet"] = "boundary(21) - thorough only"
	r.Parallel(W, func(w int, cr *vr.Report) {
		c := c19lib.NewChecker(cr)
		defer c.Done()
		e := entries[0]
		c19lib.Strings(full, 0, 3, w, W, func(s []byte) {
			c.Check(e, s, "all-strings")
		})
		if maxLen > 3 {
			// length 4 over the full alphabet is 4.3 G strings (7 minutes on the shared machine for inputs
			// that all fail the 24-byte minimum): the boundary alphabet is used at length 4
			c19lib.Strings(c19lib.Boundary, 4, maxLen, w, W, func(s []byte) {
				c.Check(e, s, "boundary-strings")
			})
		}
		for si, seed := range seeds {
			c19lib.Mutants(seed, opt, w, W, func(m []byte, note string) {
				o := c.Check(e, m, fmt.Sprintf("seed#%d %s", si, note))
				if o.OK && cr.WantSample() && len(note) > 8 && note[:4] == "byte" && w == 3 {
					cr.Sample(c.CurCase())
				}
			})
		}
		// every value of every adjacent byte pair of seed#1 (full alphabet on 2-byte windows)
		seed := seeds[1]
		i := 0
		m := make([]byte, len(seed))
		for p := 0; p+1 < len(seed); p++ {
			for v := 0; v < 65536; v++ {
				i++
				if i%W != w {
					continue
				}
				copy(m, seed)
				m[p], m[p+1] = byte(v>>8), byte(v)
				c.Check(e, m, fmt.Sprintf("seed#1 pair[%d]=%04x", p, v))
			}
		}
	})
	r.Sample(c19lib.Case{Entry: entries[0].Name, Hex: c19lib.Hex(seeds[1]), Note: "seed#1"})

	// allocation pass (single-threaded): all seed mutants
	{
		c := c19lib.NewChecker(r)
		var in [][]byte
		var notes []string
		for si, seed := range seeds {
			c19lib.Mutants(seed, c19lib.MutOpt{}, 0, 1, func(m []byte, note string) {
				in = append(in, append([]byte(nil), m...))
				notes = append(notes, fmt.Sprintf("seed#%d %s", si, note))
			})
		}
		max, _ := c.AllocScan(entries[0], in, notes)
		r.Extra["alloc_scan_cases"] = len(in)
		r.Extra["alloc_scan_max_single_delta_bytes_above_batch_limit"] = max
		c.Done()
	}

	// round trip over boundary domains
	vers := []uint8{0, 1, 7, 8}
	diags := make([]DiagnosticType, 0, 33)
	for d := 0; d <= 32; d++ {
		diags = append(diags, DiagnosticType(d))
	}
	states := []StateType{0, 1, 2, 3, 4}
	mults := []uint8{0, 1, 3, 255}
	u32 := []uint32{0, 1, 0x7fffffff, 0x80000000, 0xffffffff}
	if !vr.Thorough() {
		u32 = []uint32{0, 1, 0xffffffff}
	}
	r.Bounds["rt_domains"] = fmt.Sprintf("version%v diag0..32 state0..4 poll final mult%v u32fields%v^4", vers, mults, u32)
	r.Parallel(W, func(w int, cr *vr.Report) {
		i := 0
		for _, v := range vers {
			for _, d := range diags {
				for _, s := range states {
					for pf := 0; pf < 4; pf++ {
						for _, m := range mults {
							for _, a := range u32 {
								for _, b := range u32 {
									for _, c := range u32 {
										for _, e := range u32 {
											i++
											if i%W != w {
												continue
											}
											h := BFDHeader{Version: v, Diagnostic: d, State: s, Poll: pf&1 != 0, Final: pf&2 != 0,
												DetectTimeMultiplier: m, MyDiscriminator: a, YourDiscriminator: b, DesiredMinTxInterval: c, RequiredMinRxInterval: e}
											c19RoundTrip(cr, h)
											if cr.WantSample() && i%200003 == 0 {
												cr.Sample(c19RT{"roundtrip", h})
											}
										}
									}
								}
							}
						}
					}
				}
			}
		}
	})
}
